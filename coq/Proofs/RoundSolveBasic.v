(* Proofs/RoundSolveBasic.v -- the backward error of [solve_basic] (Gaussian elimination with partial pivoting on the
   augmented system, then back substitution; Model/Solve.v) as a whole, in the STANDARD MODEL of floating-point
   arithmetic (the same Gallina solve_basic at ARm):

     solve_basic_backward_error_lemma   (Higham, Accuracy and Stability of Numerical Algorithms, Theorem 9.4):
        whenever solve_basic m b = Ok x^, the computed echelon form U^ has a nonzero diagonal, and no pivot search met
        an all-zero column,
              (A + dA) x^ = b      EXACTLY in the right-hand side, row by row through the row permutation tau,
              |dA| <= (3 g + g^2) P^T |L^| |U^| ,   g = gam (n+1) ,
        where L^ is the unit lower triangular matrix of the multipliers the elimination used (the code does not store
        them: L^ is existentially quantified, with |l_ik| <= 1 + u by partial pivoting, Proofs/RoundGaussMult.v) and U^
        the upper triangle of the computed echelon form.

   The right-hand side needs no perturbation here: gauss_with_pivot permutes and eliminates b along with the matrix, so
   b is simply one more column of the factorisation (Proofs/RoundGaussTrace.v).  As for solve_lu, comparing |L^||U^|
   with |A| (growth factor) is not done.  The excluded case is the known quirk of max_abs_in_column (its running index
   starts at row 0, so an all-zero pivot column makes it exchange with row 0). *)
From Coq Require Import List Arith Lia Bool Reals Lra Psatz.
From OV Require Import Base.Panic Base.Arith Base.RoundModel Model.Vector Model.Matrix Model.Solve
  Proofs.Matrix Proofs.LUPrim Proofs.RoundDot Proofs.RoundMatvec Proofs.RoundBacksolve Proofs.RoundLUShape
  Proofs.RoundLUFun Proofs.RoundLUTrace Proofs.RoundLUError Proofs.RoundSolveLU Proofs.RoundInverseLU Proofs.RoundGaussTrace
  Proofs.RoundGaussMult.
Import ListNotations.
Local Open Scope R_scope.

Section SolveBasic.
Variable u : R.
Hypothesis u_range : 0 <= u < 1.
Variables fadd fsub fmul fdiv : R -> R -> R.
Hypothesis fsub_ok : forall x y, exists d, Rabs d <= u /\ fsub x y = (x - y) * (1 + d).
Hypothesis fmul_ok : forall x y, exists d, Rabs d <= u /\ fmul x y = x * y * (1 + d).
Hypothesis fdiv_ok : forall x y, y <> 0 -> exists d, Rabs d <= u /\ fdiv x y = x / y * (1 + d).

Notation AR := (ARm fadd fsub fmul fdiv).
Notation bnd := (bnd u).
Notation gam := (gam u).
Notation rentry := (rentry fadd fsub fmul fdiv).
Notation triu := (triu fadd fsub fmul fdiv).
Notation lacc_f := (lacc_f fsub fmul).
Notation aug := (aug fadd fsub fmul fdiv).

(* Theorem 9.3 for one entry, from its closed form after s steps, for rows r <= s of an N-column array *)
Lemma lu_entry_backward_gen (N s : nat) (PA E : nat -> nat -> R) (r c : nat) :
  CF fsub fmul fdiv PA E s r c -> (r < N)%nat -> (c < N)%nat -> (r <= s)%nat ->
  (forall k, (k < r)%nat -> E k k <> 0) ->
  exists V : nat -> R, (forall k, (k < N)%nat -> bnd N (V k)) /\
    PA r c = Rsum N (fun k => (if (k <? r)%nat then E r k else if (k =? r)%nat then 1 else 0)
                              * (if (k <=? c)%nat then E k c else 0) * V k).
Proof using u_range fsub_ok fmul_ok fdiv_ok.
  intros G Hr Hc Hrs Dg. unfold CF in G.
  destruct (Nat.le_gt_cases r c) as [L|L].
  - assert (B : (c <? r)%nat && (c <? s)%nat = false) by (destruct (Nat.ltb_spec c r); [lia|reflexivity]).
    rewrite B in G. replace (Nat.min r (Nat.min c s)) with r in G by lia.
    destruct (lacc_f_round u u_range fsub fmul fsub_ok fmul_ok E r c r (PA r c)) as (P & W & HP & HW & E0).
    rewrite E0 in G.
    exists (fun k => if (k <? r)%nat then W k else if (k =? r)%nat then / P else 1). split.
    + intros k Hk. destruct (Nat.ltb_spec k r).
      * apply (bnd_mono u u_range (k + 1)); [lia|now apply HW].
      * destruct (Nat.eqb_spec k r); [apply (bnd_mono u u_range r); [lia|now apply bnd_inv]|apply bnd_1; exact u_range].
    + rewrite (Rsum_ext N _ (fun k => if (k <=? r)%nat
                                      then (if (k <? r)%nat then E r k * E k c * W k else E r c * / P) else 0)).
      2:{ intros k Hk. destruct (Nat.leb_spec k r) as [Lk|Lk].
          - destruct (Nat.ltb_spec k r) as [Lk'|Lk'].
            + destruct (Nat.leb_spec k c); [reflexivity|lia].
            + assert (k = r) by lia. subst k. rewrite Nat.eqb_refl. destruct (Nat.leb_spec r c); [ring|lia].
          - destruct (Nat.ltb_spec k r); [lia|]. destruct (Nat.eqb_spec k r); [lia|]. ring. }
      rewrite Rsum_head by exact Hr. cbn [Rsum]. rewrite Nat.ltb_irrefl.
      rewrite (Rsum_ext r _ (fun k => E r k * E k c * W k)).
      2:{ intros k Hk. destruct (Nat.ltb_spec k r); [reflexivity|lia]. }
      pose proof (bnd_nz u u_range _ _ HP). rewrite G. field. assumption.
  - assert (B : (c <? r)%nat && (c <? s)%nat = true).
    { apply andb_true_intro. split; apply Nat.ltb_lt; lia. }
    rewrite B in G.
    destruct (lacc_f_round u u_range fsub fmul fsub_ok fmul_ok E r c c (PA r c)) as (P & W & HP & HW & E0).
    rewrite E0 in G.
    destruct (fdiv_bnd u u_range fdiv fdiv_ok (P * (PA r c - Rsum c (fun k => E r k * E k c * W k))) (E c c)
                (Dg c L)) as (e & He & Ed). rewrite Ed in G.
    exists (fun k => if (k <? c)%nat then W k else if (k =? c)%nat then / (P * e) else 1). split.
    + intros k Hk. destruct (Nat.ltb_spec k c).
      * apply (bnd_mono u u_range (k + 1)); [lia|now apply HW].
      * destruct (Nat.eqb_spec k c); [|apply bnd_1; exact u_range].
        apply (bnd_mono u u_range (c + 1)); [lia|]. apply bnd_inv; [exact u_range|now apply bnd_mul].
    + rewrite (Rsum_ext N _ (fun k => if (k <=? c)%nat
                                      then (if (k <? c)%nat then E r k * E k c * W k else E r c * E c c * / (P * e)) else 0)).
      2:{ intros k Hk. destruct (Nat.leb_spec k c) as [Lk|Lk].
          - destruct (Nat.ltb_spec k c) as [Lk'|Lk'].
            + destruct (Nat.ltb_spec k r); [reflexivity|lia].
            + assert (k = c) by lia. subst k. rewrite Nat.eqb_refl. destruct (Nat.ltb_spec c r); [ring|lia].
          - ring. }
      rewrite Rsum_head by exact Hc. cbn [Rsum]. rewrite Nat.ltb_irrefl.
      rewrite (Rsum_ext c _ (fun k => E r k * E k c * W k)).
      2:{ intros k Hk. destruct (Nat.ltb_spec k c); [reflexivity|lia]. }
      pose proof (bnd_nz u u_range _ _ HP). pose proof (bnd_nz u u_range _ _ He). pose proof (Dg c L).
      rewrite G. field. repeat split; assumption.
Qed.

Theorem solve_basic_backward_error_lemma (m m' : matrix AR) (b b' x : list R) :
  wf m -> INR (S (rows m)) * u < 1 ->
  gauss_with_pivot m b = Ok (m', b') ->
  (forall k, (k < rows m)%nat -> rentry m' k k <> 0) ->
  solve_basic m b = Ok x ->
  length x = rows m /\
  (BadRun fadd fsub fmul fdiv m b (rows m) (rows m - 1) \/
   exists (tau : nat -> nat) (L : nat -> nat -> R),
     (forall r, (r < rows m)%nat -> (tau r < rows m)%nat) /\
     (forall r r', (r < rows m)%nat -> (r' < rows m)%nat -> tau r = tau r' -> r = r') /\
     (forall i, L i i = 1) /\ (forall i k, (i < k)%nat -> L i k = 0) /\
     (forall i k, (k < i)%nat -> (i < rows m)%nat -> Rabs (L i k) <= 1 + u) /\
     exists dA : nat -> nat -> R,
       (forall i c, (i < rows m)%nat -> (c < rows m)%nat ->
          Rabs (dA i c) <= (3 * gam (S (rows m)) + gam (S (rows m)) * gam (S (rows m)))
                           * Rsum (rows m) (fun k => Rabs (L i k) * Rabs (triu m' k c))) /\
       (forall i, (i < rows m)%nat ->
          Rsum (rows m) (fun c => (rentry m (tau i) c + dA i c) * nth c x 0) = nth (tau i) b 0)).
Proof using u_range fsub_ok fmul_ok fdiv_ok.
  intros W HN EG Dg E. set (n := rows m) in *.
  assert (Hn : INR n * u < 1).
  { rewrite S_INR in HN. pose proof (pos_INR n). destruct u_range. nra. }
  (* the back substitution *)
  assert (E0 := E). unfold solve_basic in E.
  match type of E with (if negb ?c then _ else _) = _ => destruct c eqn:Lb end; cbn [negb] in E; [|discriminate].
  apply Nat.eqb_eq in Lb.
  match type of E with (if negb ?c then _ else _) = _ => destruct c eqn:Sq end; cbn [negb] in E; [|discriminate].
  apply Nat.eqb_eq in Sq. rewrite EG in E. cbn [bind fst snd] in E.
  destruct (gauss_trace_mult u u_range fadd fsub fmul fdiv fdiv_ok m m' b b' W Sq (eq_sym Lb) EG) as (SM' & Lb' & GT).
  fold n in SM', Lb', GT. destruct (SM') as (WM' & RM' & CM').
  destruct (backsolve_backward_error_lemma u u_range fadd fsub fmul fdiv fsub_ok fmul_ok fdiv_ok m' b' x WM'
              ltac:(congruence) ltac:(rewrite RM'; exact Lb') ltac:(rewrite RM'; exact Hn)
              ltac:(rewrite RM'; exact Dg) E) as (Lx & dU & HdU & RowsU).
  rewrite RM' in Lx, HdU, RowsU. split; [exact Lx|].
  destruct GT as [Bad|(tau & H & T1 & T2 & RL & GD & MO)]; [left; exact Bad|right].
  set (Lf := fun r k => if (k <? r)%nat then H r k else if (k =? r)%nat then 1 else 0).
  exists tau, Lf. split; [exact T1|]. split; [exact T2|].
  split; [intros i; unfold Lf; now rewrite Nat.ltb_irrefl, Nat.eqb_refl|].
  split; [intros i k Hik; unfold Lf; destruct (Nat.ltb_spec k i); [lia|]; destruct (Nat.eqb_spec k i); [lia|reflexivity]|].
  split; [intros i k Hki Hi; unfold Lf; destruct (Nat.ltb_spec k i); [|lia]; apply MO; lia|].
  set (g := gam (S n)).
  assert (Hg : 0 <= g) by now apply (gam_nonneg u u_range).
  assert (DgH : forall k, (k < n)%nat -> H k k <> 0).
  { intros k Hk. rewrite <- (RL k k) by lia. unfold aug. destruct (Nat.ltb_spec k n); [|lia]. exact (Dg k Hk). }
  (* entries of the ghost on/above the diagonal are the computed echelon form; its last column the computed rhs *)
  assert (HU : forall k c, (k < n)%nat -> (c < n)%nat ->
            (if (k <=? c)%nat then H k c else 0) = triu m' k c).
  { intros k c Hk Hc. unfold RoundBacksolve.triu. destruct (Nat.leb_spec k c); [|reflexivity].
    rewrite <- (RL k c) by lia. unfold aug. destruct (Nat.ltb_spec c n); [reflexivity|lia]. }
  assert (Hb : forall k, (k < n)%nat -> H k n = nth k b' 0).
  { intros k Hk. rewrite <- (RL k n) by lia. unfold aug. destruct (Nat.ltb_spec n n); [lia|reflexivity]. }
  (* Theorem 9.3 on the augmented array, the dummy index n dropped *)
  assert (Hfac : forall i c, (i < n)%nat -> (c <= n)%nat ->
            exists th : nat -> R, (forall k, (k < n)%nat -> Rabs (th k) <= g) /\
              aug n m b (tau i) c = Rsum n (fun k => Lf i k * (if (k <=? c)%nat then H k c else 0) * (1 + th k))).
  { intros i c Hi Hc.
    destruct (lu_entry_backward_gen (S n) (n - 1) (fun r c => aug n m b (tau r) c) H i c
                (GD i c ltac:(lia) ltac:(lia)) ltac:(lia) ltac:(lia) ltac:(lia)
                ltac:(intros k Hk; apply DgH; lia)) as (V & HV & EV).
    exists (fun k => V k - 1). split.
    - intros k Hk. apply (bnd_gam u u_range); [apply HV; lia|exact HN].
    - rewrite EV. cbn [Rsum]. destruct (Nat.ltb_spec n i); [lia|]. destruct (Nat.eqb_spec n i); [lia|].
      rewrite !Rmult_0_l, Rplus_0_r. apply Rsum_ext. intros k Hk. unfold Lf. ring. }
  (* the built-in forward substitution: (L + dL) b' = P b *)
  destruct (fin_choice (fun _ : nat => 0)
              (fun i (d : nat -> R) => (forall k, (k < n)%nat -> Rabs (d k) <= g * Rabs (Lf i k)) /\
                 Rsum n (fun k => (Lf i k + d k) * nth k b' 0) = nth (tau i) b 0) n) as (dL & HdL).
  { intros i Hi. destruct (Hfac i n Hi ltac:(lia)) as (th & Hth & Ef).
    exists (fun k => Lf i k * th k). split.
    - intros k Hk. rewrite Rabs_mult, Rmult_comm. apply Rmult_le_compat_r; [apply Rabs_pos|now apply Hth].
    - unfold aug in Ef. destruct (Nat.ltb_spec n n); [lia|]. rewrite Ef.
      apply Rsum_ext. intros k Hk. destruct (Nat.leb_spec k n); [|lia]. rewrite (Hb k Hk). ring. }
  destruct (lu_assemble n g (fun i c => rentry m (tau i) c) Lf (triu m') dL dU
              (fun c => nth c x 0) (fun k => nth k b' 0) (fun i => nth (tau i) b 0) Hg) as (dA & HdA & Eq).
  - intros i c Hi Hc. destruct (Hfac i c Hi ltac:(lia)) as (th & Hth & Ef). exists th. split; [exact Hth|].
    unfold aug in Ef. destruct (Nat.ltb_spec c n); [|lia].
    change (rentry m (tau i) c) with (ent (A := AR) m (tau i) c). rewrite Ef.
    apply Rsum_ext. intros k Hk. now rewrite (HU k c Hk Hc).
  - intros i k Hi Hk. now apply (proj1 (HdL i Hi)).
  - intros k c Hk Hc. eapply Rle_trans; [apply (HdU k c Hk Hc)|].
    apply Rmult_le_compat_r; [apply Rabs_pos|]. apply (gam_mono u u_range); [lia|exact HN].
  - intros i Hi. exact (proj2 (HdL i Hi)).
  - intros k Hk. exact (RowsU k Hk).
  - exists dA. split; [exact HdA|exact Eq].
Qed.

End SolveBasic.
