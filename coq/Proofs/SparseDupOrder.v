(* Proofs/SparseDupOrder.v -- what construction from triplets depends on when positions repeat.
   order_independent (Props/C06.v) needs NoDupKeysL.  With duplicates:
   * lookups and the dense conversion depend on the order of the input ONLY through the relative order of the
     triplets of one position: two in-range lists with the same sub-list of every position give storages with the
     same value lists everywhere (hence the same get, to_dense, products);
   * the entries the products work with, and hence multiply / transpose_multiply, do not depend on the order
     at all (ring laws: a sum does not depend on the order of its terms). *)
From Coq Require Import List Arith Lia Bool Permutation Ring.
From OV Require Import Base.Panic Base.Arith Model.Vector Model.Matrix Model.Sparse
                       Proofs.SparseBase Proofs.SparseMul Proofs.SparseWf Proofs.SparseHist Proofs.SparseViews
                       Proofs.SparseRefine Proofs.SparseTranspose Proofs.SparseFinal Proofs.SparseDup Proofs.SparseDupOps.
Import ListNotations.

Section DupOrder.
Context {A : Arith}.
Notation T := (T A).
Notation sparse := (sparse A).
Notation triplet := (triplet A).

Theorem from_triplets_same_duplicate_order_lemma r c (ts ts' : list triplet) :
  (forall t, In t ts -> trow t < r /\ tcol t < c) -> (forall t, In t ts' -> trow t < r /\ tcol t < c) ->
  (forall i j, i < r -> j < c -> filter (tmatch i j) ts = filter (tmatch i j) ts') ->
  exists s s' D D', sp_from_triplets r c ts = Ok s /\ sp_from_triplets r c ts' = Ok s' /\
    sp_to_dense s = Ok D /\ sp_to_dense s' = Ok D' /\
    forall i j, i < r -> j < c ->
      dvals s i j = dvals s' i j /\ sp_get s i j = sp_get s' i j /\ mget D i j = mget D' i j /\
      sp_entry s i j = sp_entry s' i j.
Proof.
  intros Hin Hin' Hsame.
  destruct (from_triplets_duplicates_lemma r c ts Hin) as (s & D & E & _ & _ & _ & ED & H).
  destruct (from_triplets_duplicates_lemma r c ts' Hin') as (s' & D' & E' & _ & _ & _ & ED' & H').
  exists s, s', D, D'. split; auto. split; auto. split; auto. split; auto.
  intros i j Hi Hj. destruct (H i j Hi Hj) as (H1 & H2 & H3 & H4). destruct (H' i j Hi Hj) as (H1' & H2' & H3' & H4').
  rewrite H1, H2, H3, H4, H1', H2', H3', H4', (Hsame i j Hi Hj). auto.
Qed.

End DupOrder.

Section DupOrderSum.
Context {A : Arith}.
Variable RL : RingLaws A.
Notation T := (T A).
Notation sparse := (sparse A).
Notation triplet := (triplet A).

(* the products do not depend on the order of the triplets, duplicates or not *)
Theorem from_triplets_products_order_independent_lemma r c (ts ts' : list triplet) :
  Permutation ts ts' -> (forall t, In t ts -> trow t < r /\ tcol t < c) ->
  exists s s', sp_from_triplets r c ts = Ok s /\ sp_from_triplets r c ts' = Ok s' /\
    (forall i j, i < r -> j < c -> sp_entry s i j = sp_entry s' i j) /\
    (forall x, length x = c -> sp_mul s x = sp_mul s' x) /\
    (forall y, length y = r -> sp_tmul s y = sp_tmul s' y).
Proof.
  intros HP Hin.
  assert (Hin' : forall t, In t ts' -> trow t < r /\ tcol t < c).
  { intros t Ht. apply Hin. eapply Permutation_in; [apply Permutation_sym|]; eauto. }
  destruct (from_triplets_duplicates_lemma r c ts Hin) as (s & D & E & Hwf & Hr & Hc & _ & H).
  destruct (from_triplets_duplicates_lemma r c ts' Hin') as (s' & D' & E' & Hwf' & Hr' & Hc' & _ & H').
  exists s, s'. split; auto. split; auto.
  assert (He : forall i j, i < r -> j < c -> sp_entry s i j = sp_entry s' i j).
  { intros i j Hi Hj. destruct (H i j Hi Hj) as (_ & _ & _ & H4). destruct (H' i j Hi Hj) as (_ & _ & _ & H4').
    rewrite H4, H4'. apply (suml_perm RL). apply Permutation_map. now apply filter_perm. }
  split; auto. split.
  - intros x Hx. rewrite !(sp_mul_spec_lemma RL) by (auto; lia). rewrite Hr, Hc, Hr', Hc'. f_equal.
    unfold dmulv. apply map_ext_in. intros i Hi. apply in_seq in Hi. apply sum_n_ext. intros j Hj.
    rewrite He by lia. reflexivity.
  - intros y Hy. rewrite !(sp_tmul_spec_lemma RL) by (auto; lia). rewrite Hr, Hc, Hr', Hc'. f_equal.
    unfold dtmulv. apply map_ext_in. intros j Hj. apply in_seq in Hj. apply sum_n_ext. intros i Hi.
    rewrite He by lia. reflexivity.
Qed.

End DupOrderSum.
