(* Proofs/SparseLinear.v -- C07: the two sparse products are linear maps of their vector argument.
   multiply and transpose_multiply of the model (Model/Sparse.v, the scatter and gather loops of
   src/sparse.rs) distribute over the library's own vector addition / subtraction (Model/Vector.v vadd,
   vsub: size guard, then element-wise) and commute with vector * scalar; the zero vector is mapped to the
   zero vector.  Ring laws only, any shape, any well-formed storage (duplicates included). *)
From Coq Require Import List Arith Lia Bool Ring.
From OV Require Import Base.Panic Base.Arith Model.Vector Model.Matrix Model.Sparse Proofs.SparseBase Proofs.SparseMul.
Import ListNotations.
Local Open Scope arith_scope.

Section Lin.
Context {A : Arith}.
Variable RL : RingLaws A.
Notation T := (T A).
Notation sparse := (sparse A).
Add Ring AringL : (rl_ring A RL).

Lemma zipw_length (f : T -> T -> T) (u v : list T) : length u = length v -> length (zipw f u v) = length u.
Proof. intros H. unfold zipw. rewrite map_length, combine_length. lia. Qed.

Lemma nth_zipw (f : T -> T -> T) (u v : list T) j : length u = length v -> f zero zero = zero ->
  nth j (zipw f u v) zero = f (nth j u zero) (nth j v zero).
Proof.
  revert v j; induction u as [|a u IH]; intros [|b v] j H Hz; cbn in H; try discriminate.
  - cbn. destruct j; now rewrite Hz.
  - destruct j as [|j]; cbn [zipw combine map nth fst snd]; auto.
    apply (IH v j); auto.
Qed.

Lemma add_zero_zero : @zero A + zero = zero.  Proof. ring. Qed.
Lemma sub_zero_zero : @zero A - zero = zero.  Proof. ring. Qed.

Lemma nth_vscale (u : list T) a j : nth j (vscale u a) zero = nth j u zero * a.
Proof.
  unfold vscale. revert j; induction u as [|b u IH]; intros j; cbn [map nth].
  - destruct j; ring.
  - destruct j; auto.
Qed.

(* the dense products are linear in the vector *)
Lemma dmulv_add (E : nat -> nat -> T) r c (x y : list T) : length x = length y ->
  dmulv E r c (zipw add x y) = zipw add (dmulv E r c x) (dmulv E r c y).
Proof.
  intros H. apply (nth_ext _ _ zero zero).
  - rewrite zipw_length; unfold dmulv; now rewrite !map_length.
  - unfold dmulv at 1. rewrite map_length, seq_length. intros i Hi.
    rewrite nth_zipw; [|unfold dmulv; now rewrite !map_length|apply add_zero_zero].
    unfold dmulv. rewrite !nth_map_seq by auto. rewrite <- (sum_n_add RL).
    apply sum_n_ext. intros j Hj. rewrite nth_zipw by (auto using add_zero_zero). ring.
Qed.

Lemma dmulv_sub (E : nat -> nat -> T) r c (x y : list T) : length x = length y ->
  dmulv E r c (zipw sub x y) = zipw sub (dmulv E r c x) (dmulv E r c y).
Proof.
  intros H. apply (nth_ext _ _ zero zero).
  - rewrite zipw_length; unfold dmulv; now rewrite !map_length.
  - unfold dmulv at 1. rewrite map_length, seq_length. intros i Hi.
    rewrite nth_zipw; [|unfold dmulv; now rewrite !map_length|apply sub_zero_zero].
    unfold dmulv. rewrite !nth_map_seq by auto.
    assert (Hs : forall n (f g : nat -> T), sum_n n (fun k => f k - g k) = sum_n n f - sum_n n g).
    { intros n f g. induction n as [|n IH]; cbn [sum_n]; [ring|]. rewrite IH. ring. }
    rewrite <- Hs. apply sum_n_ext. intros j Hj. rewrite nth_zipw by (auto using sub_zero_zero). ring.
Qed.

Lemma dmulv_scale (E : nat -> nat -> T) r c (x : list T) a :
  dmulv E r c (vscale x a) = vscale (dmulv E r c x) a.
Proof.
  unfold dmulv. unfold vscale at 2. rewrite map_map. apply map_ext. intros i.
  rewrite <- (sum_n_scale_r RL). apply sum_n_ext. intros j Hj. rewrite nth_vscale. ring.
Qed.

Lemma dmulv_zero (E : nat -> nat -> T) r c : dmulv E r c (repeat zero c) = repeat zero r.
Proof.
  apply (nth_ext _ _ zero zero).
  - unfold dmulv. now rewrite map_length, seq_length, repeat_length.
  - unfold dmulv at 1. rewrite map_length, seq_length. intros i Hi.
    unfold dmulv. rewrite nth_map_seq by auto. rewrite nth_repeat.
    rewrite (sum_n_ext c _ (fun _ => zero)); [apply (sum_n_zero RL)|].
    intros j Hj. rewrite nth_repeat. ring.
Qed.

(* dtmulv is dmulv of the transposed entry function *)
Lemma dtmulv_dmulv (E : nat -> nat -> T) r c (y : list T) :
  dtmulv E r c y = dmulv (fun j i => E i j) c r y.
Proof. reflexivity. Qed.

(* ---------- multiply ---------- *)
Theorem sp_mul_add_lemma (s : sparse) (x y : list T) : wfS s -> length x = sp_cols s -> length y = sp_cols s ->
  exists xy u v uv, vadd x y = Ok xy /\ sp_mul s x = Ok u /\ sp_mul s y = Ok v /\
                    vadd u v = Ok uv /\ sp_mul s xy = Ok uv.
Proof.
  intros Hwf Hx Hy.
  exists (zipw add x y), (dmulv (sp_entry s) (sp_rows s) (sp_cols s) x),
         (dmulv (sp_entry s) (sp_rows s) (sp_cols s) y),
         (zipw add (dmulv (sp_entry s) (sp_rows s) (sp_cols s) x) (dmulv (sp_entry s) (sp_rows s) (sp_cols s) y)).
  split; [unfold vadd; now rewrite Hx, Hy, Nat.eqb_refl|].
  split; [now apply sp_mul_spec_lemma|]. split; [now apply sp_mul_spec_lemma|].
  split; [unfold vadd, dmulv; now rewrite !map_length, Nat.eqb_refl|].
  rewrite (sp_mul_spec_lemma RL) by (auto; rewrite zipw_length; congruence).
  f_equal. apply dmulv_add. congruence.
Qed.

Theorem sp_mul_sub_lemma (s : sparse) (x y : list T) : wfS s -> length x = sp_cols s -> length y = sp_cols s ->
  exists xy u v uv, vsub x y = Ok xy /\ sp_mul s x = Ok u /\ sp_mul s y = Ok v /\
                    vsub u v = Ok uv /\ sp_mul s xy = Ok uv.
Proof.
  intros Hwf Hx Hy.
  exists (zipw sub x y), (dmulv (sp_entry s) (sp_rows s) (sp_cols s) x),
         (dmulv (sp_entry s) (sp_rows s) (sp_cols s) y),
         (zipw sub (dmulv (sp_entry s) (sp_rows s) (sp_cols s) x) (dmulv (sp_entry s) (sp_rows s) (sp_cols s) y)).
  split; [unfold vsub; now rewrite Hx, Hy, Nat.eqb_refl|].
  split; [now apply sp_mul_spec_lemma|]. split; [now apply sp_mul_spec_lemma|].
  split; [unfold vsub, dmulv; now rewrite !map_length, Nat.eqb_refl|].
  rewrite (sp_mul_spec_lemma RL) by (auto; rewrite zipw_length; congruence).
  f_equal. apply dmulv_sub. congruence.
Qed.

Theorem sp_mul_scale_vec_lemma (s : sparse) (x : list T) (a : T) : wfS s -> length x = sp_cols s ->
  exists u, sp_mul s x = Ok u /\ sp_mul s (vscale x a) = Ok (vscale u a).
Proof.
  intros Hwf Hx. exists (dmulv (sp_entry s) (sp_rows s) (sp_cols s) x).
  split; [now apply sp_mul_spec_lemma|].
  rewrite (sp_mul_spec_lemma RL) by (auto; unfold vscale; now rewrite map_length).
  f_equal. apply dmulv_scale.
Qed.

Theorem sp_mul_zero_lemma (s : sparse) : wfS s ->
  sp_mul s (repeat zero (sp_cols s)) = Ok (repeat zero (sp_rows s)).
Proof.
  intros Hwf. rewrite (sp_mul_spec_lemma RL) by (auto; now rewrite repeat_length).
  f_equal. apply dmulv_zero.
Qed.

(* ---------- transpose_multiply ---------- *)
Theorem sp_tmul_add_lemma (s : sparse) (x y : list T) : wfS s -> length x = sp_rows s -> length y = sp_rows s ->
  exists xy u v uv, vadd x y = Ok xy /\ sp_tmul s x = Ok u /\ sp_tmul s y = Ok v /\
                    vadd u v = Ok uv /\ sp_tmul s xy = Ok uv.
Proof.
  intros Hwf Hx Hy.
  exists (zipw add x y), (dtmulv (sp_entry s) (sp_rows s) (sp_cols s) x),
         (dtmulv (sp_entry s) (sp_rows s) (sp_cols s) y),
         (zipw add (dtmulv (sp_entry s) (sp_rows s) (sp_cols s) x) (dtmulv (sp_entry s) (sp_rows s) (sp_cols s) y)).
  split; [unfold vadd; now rewrite Hx, Hy, Nat.eqb_refl|].
  split; [now apply sp_tmul_spec_lemma|]. split; [now apply sp_tmul_spec_lemma|].
  split; [unfold vadd, dtmulv; now rewrite !map_length, Nat.eqb_refl|].
  rewrite (sp_tmul_spec_lemma RL) by (auto; rewrite zipw_length; congruence).
  f_equal. rewrite !dtmulv_dmulv. apply dmulv_add. congruence.
Qed.

Theorem sp_tmul_scale_vec_lemma (s : sparse) (y : list T) (a : T) : wfS s -> length y = sp_rows s ->
  exists w, sp_tmul s y = Ok w /\ sp_tmul s (vscale y a) = Ok (vscale w a).
Proof.
  intros Hwf Hy. exists (dtmulv (sp_entry s) (sp_rows s) (sp_cols s) y).
  split; [now apply sp_tmul_spec_lemma|].
  rewrite (sp_tmul_spec_lemma RL) by (auto; unfold vscale; now rewrite map_length).
  f_equal. rewrite !dtmulv_dmulv. apply dmulv_scale.
Qed.

Theorem sp_tmul_zero_lemma (s : sparse) : wfS s ->
  sp_tmul s (repeat zero (sp_rows s)) = Ok (repeat zero (sp_cols s)).
Proof.
  intros Hwf. rewrite (sp_tmul_spec_lemma RL) by (auto; now rewrite repeat_length).
  f_equal. rewrite dtmulv_dmulv. apply dmulv_zero.
Qed.

End Lin.
