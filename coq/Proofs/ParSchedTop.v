(* Proofs/ParSchedTop.v -- whole-program forms (hypothesis: the prelude par_program returned the initial state) of the
   refinement and realisability lemmas, and the concrete executions used by the non-vacuity examples. *)
From Coq Require Import List Arith Lia Permutation Floats ZArith.
From OV Require Import Base.Panic Base.Arith Model.Vector Model.ParDot Model.ParSched
  Proofs.ParDot Proofs.ParSched Proofs.ParSchedOrder Proofs.ParSchedReal Proofs.ParSchedRefuted Inst.FloatInst.
Import ListNotations.

Section Top2.
Context {A : Arith}.

Lemma exec_steps (v w : list A) t sch s s' : exec v w t sch s = Some s' -> steps v w t (length sch) s s'.
Proof. intros H. apply steps_exec. now exists sch. Qed.

Lemma sched_refines_run_sched_lemma (v w : list A) t s0 sch s :
  par_program v w t = Ok s0 -> exec v w t sch s0 = Some s -> terminal v w t s ->
  Permutation (completions v w t sch s0) (seq 0 t) /\
  main s = MRet (run_sched (completions v w t sch s0) t v w).
Proof.
  intros HP HE HT. apply par_program_ok in HP as (Ht & Hl & ->).
  now apply sched_refines_run_sched_exec.
Qed.

Lemma sched_realises_every_order_lemma (v w : list A) t s0 sigma :
  par_program v w t = Ok s0 -> Permutation sigma (seq 0 t) ->
  exists sch s, exec v w t sch s0 = Some s /\ terminal v w t s /\ completions v w t sch s0 = sigma.
Proof.
  intros HP HS. apply par_program_ok in HP as (Ht & Hl & ->).
  now apply sched_realises_every_order_exec.
Qed.

(* a state whose main thread has returned and whose workers are all consumed cannot move *)
Lemma terminal_ret (v w : list A) t s r :
  main s = MRet r -> (forall x, In x (ws s) -> wstep x = None) -> terminal v w t s.
Proof.
  intros Er HW th. destruct th as [|k]; cbn [fire]; [now rewrite Er|].
  destruct (nth_error (ws s) k) as [x|] eqn:E; [|reflexivity]. now rewrite (HW x (nth_error_In _ _ E)).
Qed.

End Top2.

(* concrete executions on binary64 (data of Proofs/ParSchedRefuted.v): three different interleavings, two different
   completion orders, 3 + 3*3 + 2 = 14 steps each *)
Lemma cx_real_execution (sch : list tid) :
  sch = cx_real1 \/ sch = cx_real2 \/ sch = cx_real3 ->
  exists s, par_program cx_v cx_w 3 = Ok (sched_init 3) /\
    exec cx_v cx_w 3 sch (sched_init 3) = Some s /\ steps cx_v cx_w 3 14 (sched_init 3) s /\
    terminal cx_v cx_w 3 s /\ main s = MRet (A := AF) (Ok 0%float).
Proof.
  intros H.
  assert (E : exists s, exec cx_v cx_w 3 sch (sched_init 3) = Some s /\ length sch = 14 /\
                        main s = MRet (A := AF) (Ok 0%float) /\ ws s = [WJoined; WJoined; WJoined]).
  { destruct H as [->|[->| ->]]; (eexists; split; [vm_compute; reflexivity|repeat split]). }
  destruct E as (s & HE & HLn & Hm & Hw). exists s. split; [reflexivity|split; [exact HE|split; [|split]]].
  - rewrite <- HLn. now apply exec_steps.
  - apply (terminal_ret cx_v cx_w 3 s _ Hm). rewrite Hw. intros x [<-|[<-|[<-|[]]]]; reflexivity.
  - exact Hm.
Qed.

Definition is_some {X} (o : option X) : bool := match o with Some _ => true | None => false end.

(* after the three spawns and one step of worker 0: main, worker 0 (about to publish) and worker 1 can all move *)
Lemma cx_three_enabled :
  exists s, steps cx_v cx_w 3 4 (sched_init 3) s /\
    is_some (fire cx_v cx_w 3 Main s) = true /\ is_some (fire cx_v cx_w 3 (Wk 0) s) = true /\
    is_some (fire cx_v cx_w 3 (Wk 1) s) = true.
Proof.
  destruct (exec cx_v cx_w 3 [Main; Main; Main; Wk 0] (sched_init 3)) as [s|] eqn:E; [|vm_compute in E; discriminate].
  exists s. split; [exact (exec_steps _ _ _ _ _ _ E)|]. vm_compute in E. injection E as <-.
  repeat split; vm_compute; reflexivity.
Qed.

Lemma cx_completions :
  completions cx_v cx_w 3 cx_real1 (sched_init 3) = [0; 1; 2] /\
  completions cx_v cx_w 3 cx_real3 (sched_init 3) = [0; 2; 1].
Proof. split; vm_compute; reflexivity. Qed.

(* integer-valued data of Proofs/ParDotFloat.v: 5 elements, 3 workers (slices of 1, 1, 3 elements): 5 + 9 + 2 = 16 steps *)
From OV Require Import Proofs.ParDotFloat.
Definition ex_sch : list tid :=
  [Main; Wk 0; Main; Main; Wk 2; Wk 1; Wk 2; Main; Wk 0; Wk 2; Main; Wk 2; Wk 1; Main; Main; Main].

Lemma ex_float_execution :
  Forall2 ExactW ex_fv ex_zv /\ Forall2 ExactW ex_fw ex_zw /\ length ex_zv = length ex_zw /\
  (zadot ex_zv ex_zw < 2 ^ 53)%Z /\ par_program (A := AF) ex_fv ex_fw 3 = Ok (sched_init 3) /\
  exists s, steps (A := AF) ex_fv ex_fw 3 16 (sched_init 3) s /\ terminal (A := AF) ex_fv ex_fw 3 s.
Proof.
  split; [exact ex_fv_exact|]. split; [exact ex_fw_exact|]. split; [reflexivity|]. split; [reflexivity|].
  split; [reflexivity|].
  assert (E : exists s, exec (A := AF) ex_fv ex_fw 3 ex_sch (sched_init 3) = Some s /\
                        (exists r, main s = MRet r) /\ ws s = [WJoined; WJoined; WJoined]).
  { eexists; split; [vm_compute; reflexivity|split; [eexists; reflexivity|reflexivity]]. }
  destruct E as (s & HE & [r Hm] & Hw). exists s. split.
  - exact (exec_steps (A := AF) _ _ _ _ _ _ HE).
  - apply (terminal_ret (A := AF) ex_fv ex_fw 3 s _ Hm). rewrite Hw. intros x [<-|[<-|[<-|[]]]]; reflexivity.
Qed.
