(* Proofs/ComplexField.v -- Complex F is a FIELD whenever F is a formally real field (a sum of two squares
   vanishes only if both terms do: true of Q and R, false of C itself and of finite fields).
   Gives a field_theory for the model's operators (usable with `Add Field`) and a FieldLaws instance for
   CArith S, so that every theorem of the development stated for `FieldLaws A` applies to complex entries. *)
From Coq Require Import List Arith Bool Ring Ring_theory Field Field_theory Setoid.
From OV Require Import Base.Panic Base.Arith Model.Complex Proofs.Complex.
Local Open Scope arith_scope.

Definition formally_real (A : Arith) : Prop :=
  forall x y : A, x * x + y * y = zero -> x = zero /\ y = zero.

Section CField.
Context {A : Arith}.
Variable F : FieldLaws A.
Hypothesis FR : formally_real A.
Notation inv := (fl_inv A F).
Add Field Afield2 : (fl_field A F).
Implicit Types z w : cplx A.

(* 1/z = conj z / |z|^2 *)
Definition cinv z : cplx A := cmul_r (conj z) (inv (abs_sqr z)).
Definition cdivt z w : cplx A := cmul z (cinv w).

Lemma abs_sqr_zero_iff z : abs_sqr z = zero <-> z = czero.
Proof.
  split.
  - intros H. destruct (FR _ _ H) as [H1 H2]. now apply cplx_ext.
  - intros ->. unfold abs_sqr; cbn. ring.
Qed.

Lemma cinv_l z : z <> czero -> cmul (cinv z) z = cone.
Proof.
  intros H. assert (N : abs_sqr z <> zero) by (intros E; apply H; now apply abs_sqr_zero_iff).
  unfold abs_sqr in N. apply cplx_ext; unfold cinv, abs_sqr; cbn; field; exact N.
Qed.

Lemma complex_field_lemma : field_theory (@czero A) cone cadd cmul csub cneg cdivt cinv eq.
Proof.
  constructor.
  - exact (complex_ring_lemma (F_R (fl_field A F))).
  - intros H. apply (F_1_neq_0 (fl_field A F)). exact (f_equal re H).
  - reflexivity.
  - exact cinv_l.
Qed.

Lemma ceqb_true_iff z w : ceqb z w = true <-> z = w.
Proof.
  unfold ceqb. rewrite andb_true_iff, !(fl_eqb A F). split.
  - intros [H1 H2]. now apply cplx_ext.
  - now intros ->.
Qed.

(* the model's (panicking) division is field division by the inverse above; it refuses exactly 0 + 0i *)
Lemma cdiv_field_lemma z w :
  cdiv z w = if ceqb w czero then Panic DivZero else Ok (cmul z (cinv w)).
Proof.
  destruct (ceqb w czero) eqn:E.
  - apply ceqb_true_iff in E. apply (cdiv_panics_iff_lemma F). now apply abs_sqr_zero_iff.
  - assert (N : abs_sqr w <> zero).
    { intros H. apply abs_sqr_zero_iff in H. apply ceqb_true_iff in H. congruence. }
    rewrite (cdiv_formula_lemma F z w N). f_equal. apply cplx_ext; unfold cinv; cbn; ring.
Qed.

End CField.

(* Complex<S> as an element type: FieldLaws (CArith S) from FieldLaws S, for a formally real S *)
Definition CFieldLaws (S : SArith) (F : FieldLaws S) (FR : formally_real S) : FieldLaws (CArith S).
Proof.
  refine {| fl_inv := (cinv F : CArith S -> CArith S) |}.
  - exact (complex_field_lemma F FR).
  - exact (ceqb_true_iff F).
  - exact (cdiv_field_lemma F FR).
Defined.
