(* Proofs/Sparse.v -- stub, to be filled in *)
