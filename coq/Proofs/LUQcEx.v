(* Proofs/LUQcEx.v -- concrete non-vacuity facts at Qc: the 3x3 witness matrix M3 has a left inverse. *)
From Coq Require Import List ZArith QArith Qcanon Lia.
From OV Require Import Base.Panic Base.Arith Inst.QcInst Model.Vector Model.Matrix Model.Solve
  Proofs.Matrix Proofs.LUPrim Proofs.LUKernel Proofs.LUQc.
Import ListNotations.

Definition N3 : matrix AQ := match inverse M3 with Ok N => N | Panic _ => M3 end.

Lemma M3_left_inverse : left_inverse 3 (ent N3) (ent M3).
Proof.
  intros i j Hi Hj.
  destruct i as [|[|[|i]]]; [| | |lia]; (destruct j as [|[|[|j]]]; [| | |lia]);
    apply Qc_is_canon; vm_compute; reflexivity.
Qed.

(* the all-ones 3x3 matrix (the witness of the repaired defect) has no right inverse *)
From OV Require Import Legacy.C02Refuted.
Lemma ones3_no_right_inverse :
  ~ (exists Nf : nat -> nat -> AQ, forall i j, (i < rows ones3)%nat -> (j < rows ones3)%nat -> mprod (rows ones3) (ent ones3) Nf i j = delta i j).
Proof.
  intros (Nf & H).
  pose proof (H 0%nat 0%nat ltac:(cbn; lia) ltac:(cbn; lia)) as H0.
  pose proof (H 1%nat 0%nat ltac:(cbn; lia) ltac:(cbn; lia)) as H1.
  unfold mprod, ent in H0, H1. cbn [rows ones3 cols buf Nat.mul Nat.add nth sum_n] in H0, H1.
  rewrite H0 in H1. unfold delta in H1. cbn in H1. discriminate H1.
Qed.
