(* Proofs/LUQcEx.v -- concrete non-vacuity facts at Qc: the 3x3 witness matrix M3 has a left inverse. *)
From Coq Require Import List ZArith QArith Qcanon Lia.
From OV Require Import Base.Panic Base.Arith Inst.QcInst Model.Vector Model.Matrix Model.Solve
  Proofs.Matrix Proofs.LUPrim Proofs.LUKernel Proofs.LUQc.
Import ListNotations.

Definition N3 : matrix AQ := match inverse M3 with Ok N => N | Panic _ => M3 end.

Lemma M3_left_inverse : left_inverse 3 (ent N3) (ent M3).
Proof.
  intros i j Hi Hj.
  destruct i as [|[|[|i]]]; [| | |lia]; (destruct j as [|[|[|j]]]; [| | |lia]);
    apply Qc_is_canon; vm_compute; reflexivity.
Qed.
