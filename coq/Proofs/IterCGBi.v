(* Proofs/IterCGBi.v -- round two, package iter2: on a symmetric matrix the model's BiCG IS its CG, in exact
   arithmetic.  If transpose_multiply agrees with multiply on vectors of length n (true for every CSC storage
   whose denoted matrix is symmetric), the shadow sequences of solve_bicg coincide with the primary ones
   (rr = r, pp = p) and the two loops compute the same iterates, take the same decisions and return the same
   Result and the same x -- for both error measures of BiCG.  Hence every theorem about the answer of solve_cg
   (finite termination on SPD systems, the direct-solver property) holds for solve_bicg as well. *)
From Coq Require Import List Arith Lia Bool Ring Field.
From OV Require Import Base.Panic Base.Arith Model.Vector Model.Iter Proofs.Iter Proofs.IterField
  Proofs.IterCGVec Proofs.IterCG.
Import ListNotations.

Section LoopSim.
Context {A : SArith}.

(* the part of an answer the caller sees: the Result and x *)
Definition same_answer (o1 o2 : iout A) : Prop := fst o1 = fst o2.

Lemma iloop_sim {S1 S2} (body1 : nat -> S1 -> res (@step_out A S1)) (final1 : S1 -> iout A)
      (body2 : nat -> S2 -> res (@step_out A S2)) (final2 : S2 -> iout A) (Rel : S1 -> S2 -> Prop) :
  (forall i s1 s2 out1, Rel s1 s2 -> body1 i s1 = Ok out1 ->
     exists out2, body2 i s2 = Ok out2 /\
       match out1, out2 with
       | Continue a, Continue b => Rel a b
       | Return o1, Return o2 => same_answer o1 o2
       | _, _ => False
       end) ->
  (forall s1 s2, Rel s1 s2 -> same_answer (final1 s1) (final2 s2)) ->
  forall fuel i s1 s2 o1, Rel s1 s2 -> iloop body1 final1 fuel i s1 = Ok o1 ->
    exists o2, iloop body2 final2 fuel i s2 = Ok o2 /\ same_answer o1 o2.
Proof.
  intros Hstep Hfin. induction fuel as [|fuel IH]; intros i s1 s2 o1 HR E; cbn [iloop] in *.
  - injection E as <-. eexists. split; [reflexivity|]. now apply Hfin.
  - apply bind_ok in E as (out1 & Eb & E).
    destruct (Hstep i s1 s2 out1 HR Eb) as (out2 & Eb2 & Hm). rewrite Eb2. cbn [bind].
    destruct out1 as [a|o1'], out2 as [b|o2']; try contradiction.
    + eapply IH; eauto.
    + injection E as <-. eexists. split; [reflexivity | exact Hm].
Qed.
End LoopSim.

Section BiCGisCG.
Context {A : SArith}.
Notation F := (T (SA A)).
Variable FL : FieldLaws (SA A).
Variables (n : nat) (mulA mulAT : list F -> res (list F)).
Hypothesis LO : LinOp n mulA.
Hypothesis TSYM : forall v, length v = n -> mulAT v = mulA v.

(* the BiCG state mirrors the CG state: the shadow vectors are copies *)
Definition mirrors (sc : @cg_st A) (sb : @bicg_st A) : Prop :=
  cg_x sc = bi_x sb /\ cg_r sc = bi_r sb /\ bi_rr sb = bi_r sb /\ bi_z sb = bi_r sb /\
  cg_p sc = bi_p sb /\ bi_pp sb = bi_p sb /\ cg_rho1 sc = bi_rho2 sb /\ cg_resid sc = bi_err sb /\
  length (cg_x sc) = n /\ length (cg_r sc) = n /\ length (cg_p sc) = n /\ length (cg_z sc) = n /\
  length (bi_zz sb) = n.

Lemma bicg_step_mirrors itol tol normb i sc sb outc : itol = 1 \/ itol = 2 ->
  mirrors sc sb -> cg_body mulA n tol normb i sc = Ok outc ->
  exists outb, bicg_body mulA mulAT n itol tol normb i sb = Ok outb /\
    match outc, outb with
    | Continue a, Continue b => mirrors a b
    | Return o1, Return o2 => same_answer o1 o2
    | _, _ => False
    end.
Proof.
  intros Hit (Ex & Er & Err & Ez & Ep & Epp & Erho & Eres & Hx & Hr & Hp & Hz & Hzz) Eb.
  destruct (cg_body_step n mulA LO tol normb i sc outc Hx Hr Hp Hz Eb)
    as (x' & r' & p' & rho & resid & X & (Hrho & Hdir & q & alpha & Eq & Ea & Ex' & Er') & Eresid & Eo).
  assert (Hp' : length p' = n).
  { destruct (i =? 1); [now subst p'|]. destruct Hdir as (beta & _ & ->).
    rewrite zipw_length; auto. rewrite vscale_length. lia. }
  assert (Hq : length q = n) by (eapply mulA_len; eauto).
  assert (Hr' : length r' = n).
  { subst r'. rewrite zipw_length; auto. rewrite vscale_length. lia. }
  assert (Hx' : length x' = n).
  { subst x'. rewrite zipw_length; auto. rewrite vscale_length. lia. }
  unfold bicg_body. rewrite Err, Ez, Epp, <- Er, <- Ex, <- Ep, <- Erho.
  rewrite ident_pre_ok by auto. cbn [bind]. rewrite dot_ok by auto. cbn [bind]. rewrite <- Hrho.
  assert (Edir : (if i =? 1 then Ok (cg_r sc, cg_r sc)
                  else let* beta := div rho (cg_rho1 sc) in
                       let* p := vadd (cg_r sc) (vscale (cg_p sc) beta) in
                       let* pp := vadd (cg_r sc) (vscale (cg_p sc) beta) in Ok (p, pp)) = Ok (p', p')).
  { destruct (i =? 1); [now subst p'|]. destruct Hdir as (beta & Ebeta & ->). rewrite Ebeta. cbn [bind].
    unfold vadd. rewrite vscale_length, Hr, Hp, Nat.eqb_refl. reflexivity. }
  rewrite Edir. cbn [bind]. rewrite Eq. cbn [bind]. rewrite dot_ok by lia. cbn [bind].
  rewrite (dot_raw_comm FL q p'), Ea. cbn [bind]. rewrite (TSYM p' Hp'), Eq. cbn [bind].
  unfold vadd, vsub. rewrite !vscale_length, Hx, Hr, Hp', Hq, Nat.eqb_refl. cbn [bind].
  rewrite <- Ex', <- Er'. rewrite ident_pre_ok by auto. cbn [bind].
  assert (Eerr : (let* err := (if itol =? 1 then div (norm2 r') normb else Ok (bi_err sb)) in
                  (if itol =? 2 then div (norm2 r') normb else Ok err)) = Ok resid).
  { destruct Hit as [-> | ->]; cbn [Nat.eqb]; rewrite Eresid; reflexivity. }
  destruct Hit as [-> | ->]; cbn [Nat.eqb bind] in *; rewrite Eresid; cbn [bind].
  all: destruct (leb resid tol); subst outc.
  all: eexists; split; [reflexivity|].
  all: try reflexivity.
  all: unfold mirrors; cbn; repeat split; auto.
Qed.

(* the answer of solve_cg is the answer of solve_bicg, for both error measures *)
Theorem bicg_is_cg_on_symmetric itol (b x0 : list F) max tol res x g : itol = 1 \/ itol = 2 ->
  solve_cg mulA n n b x0 max tol = Ok (res, x, g) ->
  exists g', solve_bicg mulA mulAT n n itol b x0 max tol = Ok (res, x, g').
Proof.
  intros Hit H.
  destruct (solve_cg_inv n mulA n b x0 max tol _ H) as (ax & resid & Hb & Hx & Eax & Hr0 & Hcase).
  assert (Hax : length ax = n) by (eapply mulA_len; eauto).
  assert (Hzl := @zeros_length A n).
  (* redo the start-up of solve_cg to learn resid and the decision *)
  unfold solve_cg in H. rewrite (guards_pass n b x0 Hb Hx), Eax in H. cbn [bind] in H.
  unfold vsub in H. rewrite Hb, Hax, Nat.eqb_refl in H. cbn [bind] in H.
  apply bind_ok in H as (resid' & Ed & H). cbv zeta in H.
  set (r0 := zipw sub b ax) in *.
  assert (Estart : bicg_start mulA n n itol b x0 = Ok (r0, norm2 b, r0)).
  { unfold bicg_start. rewrite (guards_pass n b x0 Hb Hx), Eax. cbn [bind].
    unfold vsub. rewrite Hb, Hax, Nat.eqb_refl. cbn [bind]. fold r0.
    destruct Hit as [-> | ->]; cbn [Nat.eqb].
    - rewrite ident_pre_ok by auto. reflexivity.
    - rewrite ident_pre_ok by auto. cbn [bind]. rewrite ident_pre_ok by auto. reflexivity. }
  unfold solve_bicg. rewrite Estart. cbn [bind]. rewrite Ed. cbn [bind].
  destruct (leb resid' tol).
  - injection H as <- <- _. eauto.
  - destruct (iloop_sim (cg_body mulA n tol (nz (norm2 b))) cg_final
                (bicg_body mulA mulAT n itol tol (nz (norm2 b))) (bicg_final itol) mirrors
                (fun i s1 s2 out1 => bicg_step_mirrors itol tol (nz (norm2 b)) i s1 s2 out1 Hit)) with
        (fuel := max) (i := 1)
        (s1 := mkCG x0 r0 (zeros n) (zeros n) one resid' (trace0 x0 resid' tol))
        (s2 := mkBI x0 r0 r0 r0 (zeros n) (zeros n) (zeros n) one resid' (trace0 x0 resid' tol))
        (o1 := (res, x, g)) as (o2 & E2 & Hsame).
    + intros s1 s2 (Ex & Er & Err & Ez & Ep & Epp & Erho & Eres & _). unfold same_answer, cg_final, bicg_final. cbn.
      now rewrite Ex, Eres.
    + unfold mirrors; cbn. repeat split; auto.
    + exact H.
    + destruct o2 as ((res2 & x2) & g2). unfold same_answer in Hsame. cbn in Hsame. injection Hsame as <- <-.
      exists g2. exact E2.
Qed.

End BiCGisCG.
