(* Proofs/MeshIO3Any.v -- Mesh1D::read (src/mesh1d.rs:98-122) on a token list of ANY length whose
   tokens all parse: the complete result, entry by entry.  With w = nvars + 1:
     nodes   = the tokens at the positions k*w, k < ceil(len / w)
     vars[k][v] = the token at position k*w + v + 1 IF THAT POSITION EXISTS, otherwise the value the
                  resized storage held there: row k of the mesh read into if it had more than k
                  nodes, else 0.
   So a file whose last line is incomplete is read WITHOUT any error and the missing variables of
   the last node silently keep stale values of the mesh read into (or 0).  Subsumes
   MeshIO2.read1_tokens_spec (len a multiple of w: every position exists).
   No law on the arithmetic [A] is used. *)
From Coq Require Import List Arith Lia Bool.
From OV Require Import Base.Panic.
From OV Require Import Base.Arith.
From OV Require Import Model.Vector.
From OV Require Import Model.Matrix.
From OV Require Import Model.Mesh.
From OV Require Import Proofs.MeshBase.
From OV Require Import Proofs.MeshStore.
From OV Require Import Proofs.MeshIO.
From OV Require Import Proofs.MeshIO2.
From OV Require Import Proofs.MeshIO3.
Import ListNotations.

(* ------------------------------------------------------------------ lists given by a function *)
Lemma upd_list_map_seq {Y} (f : nat -> Y) n k y :
  upd_list (map f (seq 0 n)) k y = map (fun j => if j =? k then y else f j) (seq 0 n).
Proof.
  assert (H : forall lo n k, upd_list (map f (seq lo n)) k y =
                             map (fun j => if j =? lo + k then y else f j) (seq lo n)).
  { clear. intros lo n; revert lo; induction n as [|n IH]; intros lo k; [reflexivity|].
    cbn [seq map]. destruct k as [|k]; cbn [upd_list].
    - rewrite Nat.add_0_r, Nat.eqb_refl. f_equal. apply map_ext_in. intros j Hj.
      apply in_seq in Hj. destruct (Nat.eqb_spec j lo); [lia | reflexivity].
    - destruct (Nat.eqb_spec lo (lo + S k)); [lia|]. f_equal. rewrite IH.
      apply map_ext. intros j. now replace (S lo + k) with (lo + S k) by lia. }
  now rewrite H.
Qed.

Lemma div_mod_pos w i k v : v < w -> i = k * w + v -> i / w = k /\ i mod w = v.
Proof.
  intros Hv ->. split; [now apply div_block | now apply mod_block].
Qed.

Section Any.
Context {A : Arith}.
Variable tok : Type.
Variable parse : tok -> res A.
Notation mesh1 := (mesh1 A A).

Variable m0 : mesh1.
Variable toks : list tok.
Variable val : nat -> A.
Hypothesis Hparse : forall i, i < length toks ->
  exists t, nth_error toks i = Some t /\ parse t = Ok (val i).
Hypothesis Hall0 : Forall (fun r => length r = m1_nvars m0) (m1_vars m0).

Let nv := m1_nvars m0.
Let w := nv + 1.
Let N := (length toks + nv) / w.
Let vars0 := resize_list (m1_vars m0) N (repeat zero nv).

Definition any_nodes : list A := map (fun k => val (k * w)) (seq 0 N).
(* the storage after the first i tokens have been processed by the second loop *)
Definition any_vars_upto (i : nat) : list (list A) :=
  map (fun k => map (fun v => if k * w + S v <? i then val (k * w + S v)
                              else nth v (nth k vars0 []) zero) (seq 0 nv)) (seq 0 N).

Lemma tok_ok {St} i (g : A -> res St) :
  i < length toks -> (let* t := rd toks i in let* x := parse t in g x) = g (val i).
Proof.
  intros Hi. destruct (Hparse i Hi) as (t & Et & Ep). unfold rd. rewrite Et. cbn [bind].
  now rewrite Ep.
Qed.

Lemma any_nodes_loop :
  for_ 0 (length toks) (fun i nodes =>
    if i mod w =? 0 then
      let* t := rd toks i in let* x := parse t in Ok (nodes ++ [x])
    else Ok nodes) [] = Ok any_nodes.
Proof.
  apply ex_eq_ok. unfold for_. rewrite Nat.sub_0_r.
  apply (for_from0_inv_post
           (fun i nodes => nodes = map (fun k => val (k * w)) (seq 0 ((i + nv) / w)))).
  - rewrite Nat.div_small by (unfold w; lia). reflexivity.
  - intros i nodes Hi ->. unfold w at 3. rewrite ceil_step. fold w.
    destruct (Nat.eqb_spec (i mod w) 0) as [E|E].
    + rewrite tok_ok by exact Hi. eexists. split; [reflexivity|].
      rewrite Nat.add_1_r, seq_S, map_app. cbn [map Nat.add]. do 3 f_equal.
      pose proof (Nat.div_mod_eq i w) as Ei. rewrite E, Nat.add_0_r in Ei.
      assert (Hq : (i + nv) / w = i / w).
      { symmetry. apply (Nat.div_unique _ _ _ nv); unfold w in *; lia. }
      rewrite Hq. lia.
    + eexists. split; [reflexivity|]. now rewrite Nat.add_0_r.
  - intros nodes ->. reflexivity.
Qed.

Lemma any_vars_upto_0 : any_vars_upto 0 = vars0.
Proof.
  unfold any_vars_upto.
  assert (Hlen : length vars0 = N) by apply resize_list_length.
  assert (Hrows : Forall (fun r => length r = nv) vars0)
    by (apply Forall_resize_list; [exact Hall0 | apply repeat_length]).
  apply nth_ext with (d := []) (d' := []); rewrite map_length, seq_length; [now rewrite Hlen|].
  intros k Hk. rewrite nth_map_seq by exact Hk.
  assert (Hr : length (nth k vars0 []) = nv) by (apply (Forall_nth_lt _ _ _ _ Hrows); lia).
  apply nth_ext with (d := zero) (d' := zero); rewrite map_length, seq_length; [now rewrite Hr|].
  intros v Hv. now rewrite nth_map_seq by exact Hv.
Qed.

Lemma any_vars_upto_shape i :
  length (any_vars_upto i) = N /\ forall k, k < N -> length (nth k (any_vars_upto i) []) = nv.
Proof.
  unfold any_vars_upto. rewrite map_length, seq_length. split; [reflexivity|].
  intros k Hk. rewrite nth_map_seq by exact Hk. now rewrite map_length, seq_length.
Qed.

(* one token of the second loop *)
Lemma any_vars_step i :
  i < length toks ->
  for_ 0 nv (fun var vars =>
    if i mod w =? var + 1 then
      let* t := rd toks i in let* x := parse t in set_elem vars (i / w) var x
    else Ok vars) (any_vars_upto i) = Ok (any_vars_upto (S i)).
Proof.
  intros Hi. unfold for_. rewrite Nat.sub_0_r.
  assert (Hr : i mod w < w) by (apply Nat.mod_upper_bound; unfold w; lia).
  pose proof (Nat.div_mod_eq i w) as Ei.
  destruct (Nat.eq_dec (i mod w) 0) as [E0|E0].
  - (* a node token: nothing is written, and no entry has position i *)
    rewrite for_from_id.
    + f_equal. unfold any_vars_upto. apply map_ext_in. intros k _. apply map_ext_in. intros v Hv.
      apply in_seq in Hv.
      destruct (Nat.ltb_spec (k * w + S v) i) as [H|H];
        destruct (Nat.ltb_spec (k * w + S v) (S i)) as [H'|H']; try reflexivity; try lia.
      assert (k * w + S v = i) by lia.
      destruct (div_mod_pos w i k (S v)) as [_ Hm]; [unfold w; lia | lia | lia].
    + intros var s _. destruct (Nat.eqb_spec (i mod w) (var + 1)); [lia | reflexivity].
  - (* the token of variable (i mod w) - 1 of node i / w *)
    set (var := i mod w - 1). set (k := i / w).
    assert (Hvar : var < nv) by (unfold var, w in *; lia).
    assert (Hk : k < N) by (apply div_lt_ceil; exact Hi).
    assert (Epos : i = k * w + S var) by (unfold var, k; lia).
    rewrite (for_from_single _ _ _ var).
    + replace (var + 1) with (i mod w) by (unfold var; lia). rewrite Nat.eqb_refl.
      rewrite tok_ok by exact Hi. fold k.
      destruct (any_vars_upto_shape i) as [Hl Hrow].
      rewrite set_elem_ok by (rewrite ?Hl, ?Hrow; assumption). f_equal.
      unfold any_vars_upto at 1 2. rewrite upd_list_map_seq.
      unfold any_vars_upto. apply map_ext_in. intros k' Hk'. apply in_seq in Hk'.
      destruct (Nat.eqb_spec k' k) as [->|Hne].
      * rewrite nth_map_seq by exact Hk. rewrite upd_list_map_seq.
        apply map_ext_in. intros v Hv. apply in_seq in Hv.
        destruct (Nat.eqb_spec v var) as [->|Hnv].
        -- rewrite <- Epos. destruct (Nat.ltb_spec i (S i)); [reflexivity | lia].
        -- destruct (Nat.ltb_spec (k * w + S v) i) as [H|H];
             destruct (Nat.ltb_spec (k * w + S v) (S i)) as [H'|H']; try reflexivity; lia.
      * apply map_ext_in. intros v Hv. apply in_seq in Hv.
        destruct (Nat.ltb_spec (k' * w + S v) i) as [H|H];
          destruct (Nat.ltb_spec (k' * w + S v) (S i)) as [H'|H']; try reflexivity; try lia.
        assert (E : k' * w + S v = i) by lia.
        destruct (div_mod_pos w i k' (S v)) as [Hd _]; [unfold w; lia | lia |].
        fold k in Hd. lia.
    + lia.
    + intros v s _ Hne. destruct (Nat.eqb_spec (i mod w) (v + 1)); [unfold var in Hne; lia|].
      reflexivity.
Qed.

Lemma any_vars_loop :
  for_ 0 (length toks) (fun i vars =>
    for_ 0 nv (fun var vars =>
      if i mod w =? var + 1 then
        let* t := rd toks i in let* x := parse t in set_elem vars (i / w) var x
      else Ok vars) vars) vars0 = Ok (any_vars_upto (length toks)).
Proof.
  apply ex_eq_ok. unfold for_ at 1. rewrite Nat.sub_0_r.
  apply (for_from0_inv_post (fun i vars => vars = any_vars_upto i)).
  - symmetry. apply any_vars_upto_0.
  - intros i vars Hi ->. eexists. split; [now apply any_vars_step | reflexivity].
  - intros vars ->. reflexivity.
Qed.

Lemma read1_any_length :
  read1 tok parse m0 toks = Ok (mkM1 nv any_nodes (any_vars_upto (length toks))).
Proof.
  unfold read1. cbv zeta. fold nv. fold w.
  rewrite any_nodes_loop. cbn [bind].
  replace (length any_nodes) with N by (unfold any_nodes; now rewrite map_length, seq_length).
  fold vars0. now rewrite any_vars_loop.
Qed.

End Any.

(* ------------------------------------------------------------------ the statement, spelled out *)
Lemma nth_resize_list {Y} (l : list Y) n v d k :
  k < n -> nth k (resize_list l n v) d = if k <? length l then nth k l d else v.
Proof.
  intros Hk. unfold resize_list. destruct (Nat.ltb_spec k (length l)) as [H|H].
  - rewrite app_nth1 by (rewrite firstn_length; lia).
    rewrite <- (firstn_skipn n l) at 2. rewrite app_nth1 by (rewrite firstn_length; lia). reflexivity.
  - rewrite app_nth2 by (rewrite firstn_length; lia). rewrite firstn_length.
    rewrite (nth_indep _ d v) by (rewrite repeat_length; lia). apply nth_repeat.
Qed.

Section Spec.
Context {A : Arith}.
Variable tok : Type.
Variable parse : tok -> res A.
Notation mesh1 := (mesh1 A A).

Lemma read1_any_length_spec (m0 : mesh1) (toks : list tok) (val : nat -> A) :
  (forall i, i < length toks -> exists t, nth_error toks i = Some t /\ parse t = Ok (val i)) ->
  Forall (fun r => length r = m1_nvars m0) (m1_vars m0) ->
  let w := m1_nvars m0 + 1 in
  let N := (length toks + m1_nvars m0) / w in
  read1 tok parse m0 toks =
  Ok (mkM1 (m1_nvars m0)
        (map (fun k => val (k * w)) (seq 0 N))
        (map (fun k => map (fun v =>
                if k * w + S v <? length toks then val (k * w + S v)
                else if k <? length (m1_vars m0) then nth v (nth k (m1_vars m0) []) zero
                else zero) (seq 0 (m1_nvars m0))) (seq 0 N))).
Proof.
  intros Hp Hall0 w N. rewrite (read1_any_length tok parse m0 toks val Hp Hall0).
  unfold any_nodes, any_vars_upto. fold w. fold N. do 2 f_equal.
  apply map_ext_in. intros k Hk. apply in_seq in Hk.
  apply map_ext_in. intros v Hv. apply in_seq in Hv.
  destruct (k * w + S v <? length toks); [reflexivity|].
  rewrite nth_resize_list by lia. destruct (k <? length (m1_vars m0)); [reflexivity|].
  apply nth_repeat.
Qed.

(* a file of complete lines followed by r tokens (0 < r <= nvars) of an incomplete line: no error;
   one more node; its variables r-1 .. nvars-1 are NOT read from the file *)
Lemma read1_incomplete_line (m0 : mesh1) (toks : list tok) (val : nat -> A) n r :
  (forall i, i < length toks -> exists t, nth_error toks i = Some t /\ parse t = Ok (val i)) ->
  Forall (fun r => length r = m1_nvars m0) (m1_vars m0) ->
  length toks = n * (m1_nvars m0 + 1) + r -> 0 < r < m1_nvars m0 + 1 ->
  exists m', read1 tok parse m0 toks = Ok m' /\
    length (m1_nodes m') = n + 1 /\
    nth n (m1_nodes m') zero = val (n * (m1_nvars m0 + 1)) /\
    forall v, v < m1_nvars m0 ->
      nth v (nth n (m1_vars m') []) zero =
      if S v <? r then val (n * (m1_nvars m0 + 1) + S v)
      else if n <? length (m1_vars m0) then nth v (nth n (m1_vars m0) []) zero else zero.
Proof.
  intros Hp Hall0 Hlen Hr. eexists. split; [apply (read1_any_length_spec m0 toks val Hp Hall0)|].
  cbv zeta. set (w := m1_nvars m0 + 1) in *.
  assert (HN : (length toks + m1_nvars m0) / w = n + 1).
  { symmetry. apply (Nat.div_unique _ _ _ (r - 1)); unfold w in *; lia. }
  rewrite HN. cbn [m1_nodes m1_vars]. rewrite map_length, seq_length.
  split; [reflexivity|]. split; [rewrite nth_map_seq by lia; reflexivity|].
  intros v Hv. rewrite (nth_map_seq _ (n + 1) n) by lia. rewrite nth_map_seq by exact Hv.
  rewrite Hlen.
  destruct (Nat.ltb_spec (n * w + S v) (n * w + r)); destruct (Nat.ltb_spec (S v) r);
    try reflexivity; lia.
Qed.

End Spec.
