(* Proofs/ComplexR.v -- the real-number instance AR of the arithmetic signature (Inst/ is frozen, so it lives here)
   and the corollaries of the C13 theorems at C = R x R: Complex R is a field, lexicographically strictly totally
   ordered; |z| = 0 iff z = 0.  Gives FieldLaws / MagLaws for CArith SAR, so that every theorem of the development
   stated for `FieldLaws A` (+ `MagLaws A`) also holds for complex matrices / polynomials over the reals.
   Equality and order on R are decided classically (Req_EM_T, Rlt_dec: the four standard real-number axioms). *)
From Coq Require Import Reals Lra Bool Ring_theory Field_theory.
From OV Require Import Base.Panic Base.Arith Model.Complex Proofs.Complex Proofs.ComplexField.
Local Open Scope R_scope.

Definition R_eqb (x y : R) : bool := if Req_EM_T x y then true else false.
Definition R_ltb (x y : R) : bool := if Rlt_dec x y then true else false.
Definition R_leb (x y : R) : bool := if Rle_dec x y then true else false.
Definition R_div (x y : R) : res R := if R_eqb y 0 then Panic DivZero else Ok (x * / y).

Definition AR : Arith := {|
  T := R; zero := 0; one := 1; add := Rplus; sub := Rminus; mul := Rmult; neg := Ropp;
  abs := Rabs; div := R_div; eqb := R_eqb; ltb := R_ltb; leb := R_leb |}.

Definition SAR : SArith := {| SA := AR; sqrt := R_sqrt.sqrt; of_nat := INR |}.

Lemma R_eqb_iff (x y : R) : R_eqb x y = true <-> x = y.
Proof. unfold R_eqb. destruct (Req_EM_T x y); split; congruence. Qed.

Lemma R_ltb_iff (x y : R) : R_ltb x y = true <-> x < y.
Proof. unfold R_ltb. destruct (Rlt_dec x y); split; try congruence; tauto. Qed.

Lemma AR_field : field_theory (@zero AR) one add mul sub neg (fun x y => mul x (Rinv y)) Rinv eq.
Proof.
  constructor.
  - exact RTheory.
  - cbn. lra.
  - reflexivity.
  - intros p H. cbn in *. now apply Rinv_l.
Qed.

Definition AR_FieldLaws : FieldLaws AR.
Proof.
  refine {| fl_inv := Rinv : AR -> AR; fl_field := AR_field |}.
  - exact R_eqb_iff.
  - intros x y. reflexivity.
Defined.

Lemma AR_order : OrderLaws AR.
Proof.
  constructor; cbn.
  - exact R_eqb_iff.
  - intros x. destruct (R_ltb x x) eqn:E; [|reflexivity]. apply R_ltb_iff in E. lra.
  - intros x y z. rewrite !R_ltb_iff. lra.
  - intros x y. rewrite !R_ltb_iff. lra.
  - intros x y. unfold R_leb, R_ltb, R_eqb.
    destruct (Rle_dec x y), (Rlt_dec x y), (Req_EM_T x y); cbn; try reflexivity; exfalso; lra.
Qed.

Lemma AR_formally_real : formally_real AR.
Proof.
  intros x y H. cbn in *.
  assert (0 <= x * x) by (apply (Rle_0_sqr x)). assert (0 <= y * y) by (apply (Rle_0_sqr y)).
  assert (Hx : x * x = 0) by lra. assert (Hy : y * y = 0) by lra.
  split; [destruct (Rmult_integral _ _ Hx) | destruct (Rmult_integral _ _ Hy)]; assumption.
Qed.

(* C = R x R *)
Definition ACR : Arith := CArith SAR.

Definition ACR_FieldLaws : FieldLaws ACR := CFieldLaws SAR AR_FieldLaws AR_formally_real.

Lemma complex_R_field_lemma :
  field_theory (@czero AR) cone cadd cmul csub cneg (cdivt AR_FieldLaws) (cinv AR_FieldLaws) eq.
Proof. exact (complex_field_lemma AR_FieldLaws AR_formally_real). Qed.

Lemma abs_sqr_nonneg (z : cplx AR) : 0 <= abs_sqr z.
Proof.
  unfold abs_sqr; cbn.
  assert (0 <= re z * re z) by (apply (Rle_0_sqr (re z))). assert (0 <= im z * im z) by (apply (Rle_0_sqr (im z))). lra.
Qed.

(* Signed::abs of Complex<f64> is (|z|, 0): it vanishes exactly at 0, and < is irreflexive: what pivot selection needs *)
Lemma ACR_MagLaws : MagLaws ACR.
Proof.
  constructor.
  - intros z. cbn. split.
    + intros H. assert (E : R_sqrt.sqrt (abs_sqr z) = 0) by exact (f_equal re H).
      apply sqrt_eq_0 in E; [|apply abs_sqr_nonneg].
      now apply (abs_sqr_zero_iff AR_FieldLaws AR_formally_real).
    + intros ->. apply cplx_ext; cbn; [|reflexivity].
      replace (0 * 0 + 0 * 0) with 0 by ring. apply sqrt_0.
  - intros z. exact (cltb_irrefl_lemma AR_order z).
Qed.

(* |z|^2 = abs_sqr z for the modulus of the model *)
Lemma cabs_sqr_lemma (z : cplx AR) : @cabs SAR z * @cabs SAR z = abs_sqr z.
Proof. unfold cabs; cbn. apply sqrt_sqrt, abs_sqr_nonneg. Qed.

(* the modulus is multiplicative *)
Lemma cabs_mul_lemma (z w : cplx AR) : @cabs SAR (cmul z w) = @cabs SAR z * @cabs SAR w.
Proof.
  change (R_sqrt.sqrt (@abs_sqr AR (cmul z w)) = R_sqrt.sqrt (@abs_sqr AR z) * R_sqrt.sqrt (@abs_sqr AR w)).
  destruct (@conj_abs_sqr_laws_lemma AR (F_R AR_field) z w) as (_ & _ & _ & _ & _ & _ & H & _).
  change (@abs_sqr AR (cmul z w) = abs_sqr z * abs_sqr w) in H.
  rewrite H. apply sqrt_mult; apply abs_sqr_nonneg.
Qed.

Lemma cabs_zero_iff_lemma (z : cplx AR) : @cabs SAR z = 0 <-> z = czero.
Proof.
  split.
  - intros E. change (R_sqrt.sqrt (@abs_sqr AR z) = 0) in E.
    apply sqrt_eq_0 in E; [|apply abs_sqr_nonneg].
    now apply (abs_sqr_zero_iff AR_FieldLaws AR_formally_real).
  - intros ->. change (R_sqrt.sqrt (0 * 0 + 0 * 0) = 0). replace (0 * 0 + 0 * 0) with 0 by ring. apply sqrt_0.
Qed.
