(* Proofs/JacExactGen.v -- package jacexact (C18): what Mat64::jacobian / Matrix::<Cmplx>::jacobian_cmplx compute
   over ANY arithmetic -- no ring law is used.  The existing theorems jacobian_calls / jacobian_entry (Props/C18.v)
   need (a + d) - d = a; binary64 does not satisfy it.  Here the loop is described as it runs:

     restored x d k   :=  (x_k + d) - d                      the coordinate after  state[k] += d; state[k] -= d
     state_at x d j   :=  the state vector at the start of column j:  coordinates k < j are [restored], the others x_k
     call_pt  x d j   :=  state_at x d j  with coordinate j replaced by  x_j + d      -- the point of the j-th call

   jacobian_tr_gen :  whatever the function, whatever the arithmetic: the final state is  state_at x d n,  the calls are
                      made at  x, call_pt 0, ..., call_pt (n-1),  and entry (i, j) of the returned matrix is
                      ( f_i(call_pt j) - f_i(x) ) / d   computed with the arithmetic's own sub and div.
   If the restoration is exact on the coordinates of x (restored x d k = x_k: fields, dyadic floats) then
   state_at = x and call_pt = perturbed (x + d e_j), i.e. the statements of Props/C18.v hold verbatim
   (jacobian_gen_exact_restore). *)
From Coq Require Import List Arith Lia Bool.
From OV Require Import Base.Panic Base.Arith Model.Vector Model.Matrix Model.Newton
  Proofs.Matrix Proofs.Newton Proofs.NewtonJac.
Import ListNotations.

Section Gen.
Context (O : NOps).
Notation A := (NA O).

Definition restored (x : list A) (d : A) (k : nat) : A := sub (add (nth k x zero) d) d.

Fixpoint state_at (x : list A) (d : A) (j : nat) : list A :=
  match j with
  | 0 => x
  | S j' => upd_list (state_at x d j') j' (restored x d j')
  end.

Definition call_pt (x : list A) (d : A) (j : nat) : list A :=
  upd_list (state_at x d j) j (add (nth j x zero) d).

Lemma state_at_length x d j : length (state_at x d j) = length x.
Proof. induction j as [|j IH]; cbn [state_at]; [reflexivity|]. now rewrite upd_list_length. Qed.

Lemma call_pt_length x d j : length (call_pt x d j) = length x.
Proof. unfold call_pt. now rewrite upd_list_length, state_at_length. Qed.

(* coordinates: the first j have been through += d; -= d, the others are untouched *)
Lemma state_at_nth x d j k : j <= length x ->
  nth k (state_at x d j) zero = if k <? j then restored x d k else nth k x zero.
Proof.
  induction j as [|j IH]; intros Hj; cbn [state_at].
  - reflexivity.
  - rewrite nth_upd_list by (rewrite state_at_length; lia). rewrite IH by lia.
    destruct (Nat.eqb_spec k j) as [->|Hne].
    + destruct (Nat.ltb_spec j (S j)); [reflexivity|lia].
    + destruct (Nat.ltb_spec k j), (Nat.ltb_spec k (S j)); try lia; reflexivity.
Qed.

Lemma call_pt_nth x d j k : j < length x ->
  nth k (call_pt x d j) zero =
    if k =? j then add (nth j x zero) d else if k <? j then restored x d k else nth k x zero.
Proof.
  intros Hj. unfold call_pt. rewrite nth_upd_list by (rewrite state_at_length; exact Hj).
  destruct (k =? j); [reflexivity|]. apply state_at_nth. lia.
Qed.

(* exact restoration on the coordinates of x: nothing drifts *)
Lemma state_at_exact x d j :
  (forall k, k < length x -> restored x d k = nth k x zero) -> j <= length x -> state_at x d j = x.
Proof.
  intros H. induction j as [|j IH]; intros Hj; cbn [state_at]; [reflexivity|].
  rewrite IH by lia. rewrite H by lia. apply nw_upd_list_same.
Qed.

Lemma call_pt_exact x d j :
  (forall k, k < length x -> restored x d k = nth k x zero) -> j < length x -> call_pt x d j = perturbed O x d j.
Proof. intros H Hj. unfold call_pt, perturbed. rewrite state_at_exact by (auto; lia). reflexivity. Qed.

(* column j as the code computes it, from the values at the two call points *)
Definition fd_col_at (f : list A -> res (list A)) (f0 p : list A) (d : A) : res (list A) :=
  let* fj := f p in let* diff := vsub fj f0 in vdiv diff d.

Lemma jacobian_tr_gen (f : list A -> res (list A)) (x : list A) (d : A) st J evs :
  jacobian_tr O f x d = Ok (st, J, evs) ->
  st = state_at x d (length x) /\
  evs = x :: map (call_pt x d) (seq 0 (length x)) /\
  exists f0, f x = Ok f0 /\ wf J /\ rows J = length f0 /\ cols J = length x /\
    forall j, j < length x -> exists col, fd_col_at f f0 (call_pt x d j) d = Ok col /\
      forall i, i < length f0 -> mget J i j = rd col i.
Proof.
  unfold jacobian_tr. intros H. inv_bind H. rename x0 into f0.
  eapply (for_inv_partial (fun k (s : list A * matrix A * list (list A)) =>
            let '(st, J, ev) := s in
            st = state_at x d k /\ ev = x :: map (call_pt x d) (seq 0 k) /\
            wf J /\ rows J = length f0 /\ cols J = length x /\
            forall j, j < k -> exists col, fd_col_at f f0 (call_pt x d j) d = Ok col /\
              forall i, i < length f0 -> mget J i j = rd col i)) in H; [|lia| |].
  - destruct H as (-> & -> & W & R & C & H). split; [reflexivity|]. split; [reflexivity|].
    exists f0. repeat split; auto.
  - split; [reflexivity|]. split; [reflexivity|].
    split; [unfold wf, mat_new; cbn; now rewrite repeat_length|].
    split; [reflexivity|]. split; [reflexivity|]. intros j Hj; lia.
  - intros k [[s jac] ev] s1 Hk (-> & -> & W & R & C & Hcols) Hb.
    unfold jac_body in Hb. inv_bind Hb. injection Hb as <-.
    apply (rd_Ok_inv _ _ _ zero) in E0 as [Lk ->].
    apply upd_Ok_inv in E1 as [_ ->].
    apply (rd_Ok_inv _ _ _ zero) in E3 as [_ ->].
    apply upd_Ok_inv in E4 as [_ ->].
    rewrite (nth_upd_list (state_at x d k) k k _ zero Lk), Nat.eqb_refl, nw_upd_list_twice.
    rewrite (state_at_nth x d k k) by lia.
    destruct (Nat.ltb_spec k k) as [|_]; [lia|].
    rewrite (state_at_nth x d k k) in E2 by lia.
    destruct (Nat.ltb_spec k k) as [|_]; [lia|].
    change (upd_list (state_at x d k) k (add (nth k x zero) d)) with (call_pt x d k) in *.
    pose proof (nw_set_col_shape _ _ _ _ E7) as (R1 & C1 & B1).
    split; [reflexivity|].
    split; [rewrite seq_S, map_app; reflexivity|].
    split; [unfold wf in *; rewrite B1, R1, C1; exact W|].
    split; [congruence|]. split; [congruence|].
    intros j Hj.
    assert (Hcolk : fd_col_at f f0 (call_pt x d k) d = Ok x6).
    { unfold fd_col_at. rewrite E2. cbn [bind]. rewrite E5. cbn [bind]. exact E6. }
    destruct (Nat.eq_dec j k) as [->|Hne].
    + exists x6. split; [exact Hcolk|]. intros i Hi.
      rewrite (nw_set_col_spec _ _ _ _ W E7 i k) by lia. now rewrite Nat.eqb_refl.
    + destruct (Hcols j) as (col & Ec & Hc); [lia|]. exists col. split; [exact Ec|].
      intros i Hi. rewrite (nw_set_col_spec _ _ _ _ W E7 i j) by lia.
      destruct (Nat.eqb_spec j k); [lia|]. apply Hc; exact Hi.
Qed.

(* the Rust return value: matrix + call points, entry by entry *)
Lemma jacobian_gen_lemma (f : list A -> res (list A)) (x : list A) (d : A) J evs :
  jacobian O f x d = Ok (J, evs) ->
  evs = x :: map (call_pt x d) (seq 0 (length x)) /\
  exists f0, f x = Ok f0 /\ wf J /\ rows J = length f0 /\ cols J = length x /\
    forall i j, i < length f0 -> j < length x ->
      exists fj q, f (call_pt x d j) = Ok fj /\ length fj = length f0 /\
                   div (sub (nth i fj zero) (nth i f0 zero)) d = Ok q /\ mget J i j = Ok q.
Proof.
  unfold jacobian. intros H. inv_bind H. destruct x0 as [[st J'] ev]. injection H as <- <-.
  apply jacobian_tr_gen in E as (_ & Ev & f0 & E0 & W & R & C & H).
  split; [exact Ev|]. exists f0. repeat split; auto.
  intros i j Hi Hj. destruct (H j Hj) as (col & Ec & Hc).
  unfold fd_col_at in Ec. inv_bind Ec. rename x0 into fj. rename x1 into diff.
  pose proof (nw_vsub_length _ _ _ E1) as [Ld Lf].
  unfold vsub in E1. destruct (length fj =? length f0); [|discriminate]. injection E1 as <-.
  unfold vdiv in Ec. pose proof (nw_mapM_length _ _ _ Ec) as Lc.
  exists fj, (nth i col zero). split; [exact E|]. split; [lia|]. split.
  - rewrite <- (nw_zipw_nth sub fj f0 i) by lia.
    apply (nw_mapM_nth _ _ _ i zero zero Ec). lia.
  - rewrite (Hc i Hi). apply rd_ok. lia.
Qed.

(* the final state (what `state` holds when the Rust loop ends; the Rust function drops it) *)
Lemma jacobian_tr_state (f : list A -> res (list A)) (x : list A) (d : A) st J evs :
  jacobian_tr O f x d = Ok (st, J, evs) -> st = state_at x d (length x).
Proof. intros H. now apply jacobian_tr_gen in H as (-> & _). Qed.

(* exact restoration: the statements of jacobian_calls / jacobian_entry without ring laws *)
Lemma jacobian_gen_exact_restore (f : list A -> res (list A)) (x : list A) (d : A) J evs :
  (forall k, k < length x -> restored x d k = nth k x zero) ->
  jacobian O f x d = Ok (J, evs) ->
  evs = x :: map (perturbed O x d) (seq 0 (length x)) /\
  exists f0, f x = Ok f0 /\ wf J /\ rows J = length f0 /\ cols J = length x /\
    forall i j, i < length f0 -> j < length x ->
      exists fj q, f (perturbed O x d j) = Ok fj /\ length fj = length f0 /\
                   div (sub (nth i fj zero) (nth i f0 zero)) d = Ok q /\ mget J i j = Ok q.
Proof.
  intros Hr H. apply jacobian_gen_lemma in H as (Ev & f0 & E0 & W & R & C & H).
  split.
  - rewrite Ev. f_equal. apply map_ext_in. intros j Hj. apply in_seq in Hj. apply call_pt_exact; [exact Hr|lia].
  - exists f0. repeat split; auto. intros i j Hi Hj.
    destruct (H i j Hi Hj) as (fj & q & Ej & Lj & Eq & Em). exists fj, q.
    rewrite <- (call_pt_exact x d j Hr Hj). auto.
Qed.

(* the same facts with [restored] / [state_at] spelled out, for the pinned statements *)
Lemma call_pt_coords (x : list A) (d : A) (j k : nat) : j < length x ->
  nth k (call_pt x d j) zero =
    if k =? j then add (nth j x zero) d else if k <? j then sub (add (nth k x zero) d) d else nth k x zero.
Proof. exact (call_pt_nth x d j k). Qed.

Lemma jacobian_final_state_lemma (f : list A -> res (list A)) (x : list A) (d : A) st J evs :
  jacobian_tr O f x d = Ok (st, J, evs) ->
  length st = length x /\
  forall k, nth k st zero = if k <? length x then sub (add (nth k x zero) d) d else nth k x zero.
Proof.
  intros H. apply jacobian_tr_state in H. subst st. split; [apply state_at_length|].
  intros k. apply state_at_nth. apply le_n.
Qed.

End Gen.
