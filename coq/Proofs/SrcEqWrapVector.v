(* Proofs/SrcEqWrapVector.v -- src/vector/{arithmetic,mod}.rs: the consuming forms of + and - (they delegate to the by-reference forms), empty, create, Clone
   regenerated from the source of this run as gen/SrcWrapVector.v and each proved equal to its hand-written model (package C15).
   Every consuming operator form computes exactly what the by-reference form computes; every Clone impl is the identity that
   the translation of `x.clone()` assumes. *)
From Coq Require Import List Arith ZArith Lia Bool.
From OV Require Import Base.Panic Base.Arith Model.Vector Model.Matrix Model.Tridiag Model.Banded Model.Poly Model.Newton gen.SrcPrelude gen.SrcWrapVector Proofs.SrcEqBase.
Import ListNotations.

Section SrcEqWrapVector.
Context {A : Arith}.

Lemma src_vadd_ref (u w : list (T A)) : s_vadd_ref u w = vadd u w.
Proof. reflexivity. Qed.
Lemma src_vadd_val (u w : list (T A)) : s_vadd_val u w = vadd u w.
Proof. reflexivity. Qed.
Lemma src_vsub_ref (u w : list (T A)) : s_vsub_ref u w = vsub u w.
Proof. reflexivity. Qed.
Lemma src_vsub_val (u w : list (T A)) : s_vsub_val u w = vsub u w.
Proof. reflexivity. Qed.
Lemma src_vempty  : @s_vempty A = Ok [].
Proof. reflexivity. Qed.
Lemma src_vcreate (v : list (T A)) : s_vcreate v = Ok v.
Proof. reflexivity. Qed.
Lemma src_vclone (v : list (T A)) : s_vclone v = Ok v.
Proof. reflexivity. Qed.

Definition model_is_source_WrapVector : Prop :=
  (forall (u w : list (T A)), s_vadd_ref u w = vadd u w) /\
  (forall (u w : list (T A)), s_vadd_val u w = vadd u w) /\
  (forall (u w : list (T A)), s_vsub_ref u w = vsub u w) /\
  (forall (u w : list (T A)), s_vsub_val u w = vsub u w) /\
  (@s_vempty A = Ok []) /\
  (forall (v : list (T A)), s_vcreate v = Ok v) /\
  (forall (v : list (T A)), s_vclone v = Ok v).
Lemma model_is_source_WrapVector_lemma : model_is_source_WrapVector.
Proof. exact (conj src_vadd_ref (conj src_vadd_val (conj src_vsub_ref (conj src_vsub_val (conj src_vempty (conj src_vcreate src_vclone)))))). Qed.

End SrcEqWrapVector.
