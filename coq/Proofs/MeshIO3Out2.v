(* Proofs/MeshIO3Out2.v -- Mesh2D::output_var and the CONTENTS of the file written by
   Mesh2D::output / output_var (src/mesh2d.rs:204-232), token by token:
   line j*(nx+1) + i of the file (i < nx, j < ny) is the line of node (i,j):
       x_i   y_j   var 0 of node (i,j) ... var nvars-1 of node (i,j)        (output)
       x_i   y_j   var `var` of node (i,j)                                  (output_var)
   and line j*(nx+1) + nx is empty.  output_var with var >= nvars panics (Index) on the first
   node, unless the mesh has no node.  Formatting is abstract; no law on [A] is used. *)
From Coq Require Import List Arith Lia Bool.
From OV Require Import Base.Panic.
From OV Require Import Base.Arith.
From OV Require Import Model.Vector.
From OV Require Import Model.Matrix.
From OV Require Import Model.Mesh.
From OV Require Import Proofs.MeshBase.
From OV Require Import Proofs.MeshStore.
From OV Require Import Proofs.MeshIO.
From OV Require Import Proofs.MeshIO2.
Import ListNotations.

Section Out2.
Context {A : Arith}.
Variable tok : Type.
Variable fmt : A -> tok.
Notation mesh2 := (mesh2 A A).

(* ------------------------------------------------------------------ output_var *)
Definition line_var2 (m : mesh2) (var j i : nat) : list tok :=
  [fmt (nth i (m2_x m) zero); fmt (nth j (m2_y m) zero);
   fmt (nth var (nth (i * m2_ny m + j) (m2_vars m) []) zero)].

Definition layout_var2 (m : mesh2) (var : nat) : list (list tok) :=
  flat_map (fun j => map (line_var2 m var j) (seq 0 (m2_nx m)) ++ [[]]) (seq 0 (m2_ny m)).

Lemma out_var2_row_loop (m : mesh2) var j (lines0 : list (list tok)) :
  wf2 m -> var < m2_nvars m -> j < m2_ny m ->
  for_ 0 (m2_nx m) (fun i lines =>
    let* x := rd (m2_x m) i in
    let* y := rd (m2_y m) j in
    let* row := rd (m2_vars m) (i * m2_ny m + j) in
    let* v := rd row var in
    Ok (lines ++ [[fmt x; fmt y; fmt v]])) lines0
  = Ok (lines0 ++ map (line_var2 m var j) (seq 0 (m2_nx m))).
Proof.
  intros Hwf Hvar Hj. pose proof Hwf as (Hx & Hy & Hlen & Hall). apply ex_eq_ok.
  apply (for_inv_post (fun i lines => lines = lines0 ++ map (line_var2 m var j) (seq 0 i))).
  - lia.
  - cbn [seq map]. now rewrite app_nil_r.
  - intros i lines [_ Hi] ->. pose proof (idx_lt i j _ _ Hi Hj) as Hk.
    rewrite (rd_ok _ i zero) by lia. cbn [bind].
    rewrite (rd_ok _ j zero) by lia. cbn [bind].
    rewrite (rd_ok _ (i * m2_ny m + j) []) by lia. cbn [bind].
    rewrite (rd_ok _ var zero) by (rewrite (Forall_nth_lt _ _ _ [] Hall) by lia; exact Hvar).
    cbn [bind]. eexists. split; [reflexivity|].
    rewrite seq_S, map_app, app_assoc. reflexivity.
  - intros lines ->. reflexivity.
Qed.

Lemma output_var2_layout (m : mesh2) var :
  wf2 m -> var < m2_nvars m -> output_var2 tok fmt fmt m var = Ok (layout_var2 m var).
Proof.
  intros Hwf Hvar. unfold output_var2, layout_var2. apply ex_eq_ok.
  apply (for_inv_post (fun j lines =>
    lines = flat_map (fun j => map (line_var2 m var j) (seq 0 (m2_nx m)) ++ [[]]) (seq 0 j))).
  - lia.
  - reflexivity.
  - intros j lines [_ Hj] ->. rewrite out_var2_row_loop by assumption. cbn [bind].
    eexists. split; [reflexivity|].
    rewrite seq_S, flat_map_app. cbn [flat_map Nat.add]. rewrite app_nil_r, app_assoc.
    reflexivity.
  - intros lines ->. reflexivity.
Qed.

(* a variable that does not exist: the first node read panics *)
Lemma output_var2_bad_var (m : mesh2) var :
  wf2 m -> m2_nvars m <= var -> 0 < m2_nx m -> 0 < m2_ny m ->
  output_var2 tok fmt fmt m var = Panic Index.
Proof.
  intros Hwf Hvar Hnx Hny. pose proof Hwf as (Hx & Hy & Hlen & Hall).
  unfold output_var2, for_. rewrite !Nat.sub_0_r.
  destruct (m2_ny m) as [|ny] eqn:Eny; [lia|]. cbn [for_from].
  destruct (m2_nx m) as [|nx] eqn:Enx; [lia|]. cbn [for_from].
  rewrite (rd_ok _ 0 zero) by lia. cbn [bind].
  rewrite (rd_ok _ 0 zero) by lia. cbn [bind].
  rewrite (rd_ok _ (0 * S ny + 0) []) by (rewrite Hlen; cbn; lia). cbn [bind].
  rewrite rd_panic; [reflexivity|].
  rewrite (Forall_nth_lt _ _ _ [] Hall) by (rewrite Hlen; cbn; lia). exact Hvar.
Qed.

(* ------------------------------------------------------------------ blocks of lines *)
(* a file made of ny blocks of nx lines followed by an empty line *)
Lemma blocks_length (f : nat -> nat -> list tok) nx ny :
  length (flat_map (fun j => map (f j) (seq 0 nx) ++ [[]]) (seq 0 ny)) = ny * (nx + 1).
Proof.
  generalize 0 at 2. induction ny as [|ny IH]; intros lo; [reflexivity|].
  cbn [seq flat_map]. rewrite !app_length, map_length, seq_length, IH. cbn [length]. lia.
Qed.

Lemma blocks_nth_error (f : nat -> nat -> list tok) nx ny j r :
  j < ny -> r < nx + 1 ->
  nth_error (flat_map (fun j => map (f j) (seq 0 nx) ++ [[]]) (seq 0 ny)) (j * (nx + 1) + r) =
  Some (if r <? nx then f j r else []).
Proof.
  intros Hj Hr. rewrite flat_map_concat_map.
  rewrite (nth_error_concat _ (nx + 1)).
  - rewrite nth_map_seq by exact Hj.
    destruct (Nat.ltb_spec r nx) as [H|H].
    + rewrite nth_error_app1 by (rewrite map_length, seq_length; exact H).
      rewrite (nth_error_nth' _ []) by (rewrite map_length, seq_length; exact H).
      now rewrite nth_map_seq.
    + rewrite nth_error_app2 by (rewrite map_length, seq_length; lia).
      rewrite map_length, seq_length. replace (r - nx) with 0 by lia. reflexivity.
  - apply Forall_forall. intros l Hl. apply in_map_iff in Hl as (j0 & <- & _).
    rewrite app_length, map_length, seq_length. reflexivity.
  - rewrite map_length, seq_length. exact Hj.
  - exact Hr.
Qed.

(* ------------------------------------------------------------------ contents of output *)
Lemma layout2_line (m : mesh2) i j :
  i < m2_nx m -> j < m2_ny m ->
  nth_error (layout2 tok fmt m) (j * (m2_nx m + 1) + i) = Some (line2 tok fmt m j i).
Proof.
  intros Hi Hj. unfold layout2. rewrite blocks_nth_error by lia.
  apply Nat.ltb_lt in Hi. now rewrite Hi.
Qed.

Lemma layout2_blank (m : mesh2) j :
  j < m2_ny m -> nth_error (layout2 tok fmt m) (j * (m2_nx m + 1) + m2_nx m) = Some [].
Proof.
  intros Hj. unfold layout2. rewrite blocks_nth_error by lia. now rewrite Nat.ltb_irrefl.
Qed.

(* the tokens of the line of node (i,j): x_i, y_j, then variable v at position v + 2 *)
Lemma line2_tokens (m : mesh2) i j :
  wf2 m -> i < m2_nx m -> j < m2_ny m ->
  length (line2 tok fmt m j i) = m2_nvars m + 2 /\
  nth_error (line2 tok fmt m j i) 0 = Some (fmt (nth i (m2_x m) zero)) /\
  nth_error (line2 tok fmt m j i) 1 = Some (fmt (nth j (m2_y m) zero)) /\
  (forall v, v < m2_nvars m ->
     nth_error (line2 tok fmt m j i) (v + 2) =
     Some (fmt (nth v (nth (i * m2_ny m + j) (m2_vars m) []) zero))).
Proof.
  intros (Hx & Hy & Hlen & Hall) Hi Hj. pose proof (idx_lt i j _ _ Hi Hj) as Hk.
  assert (Hrow : length (nth (i * m2_ny m + j) (m2_vars m) []) = m2_nvars m)
    by (apply (Forall_nth_lt _ _ _ _ Hall); lia).
  unfold line2. cbn [length nth_error]. rewrite map_length, Hrow.
  split; [lia|]. split; [reflexivity|]. split; [reflexivity|].
  intros v Hv. replace (v + 2) with (S (S v)) by lia. cbn [nth_error].
  apply map_nth_error. apply nth_error_nth'. lia.
Qed.

(* the file as its whitespace-token stream: (nvars+2) tokens per node, nodes in the order
   (0,0) (1,0) .. (nx-1,0) (0,1) ...: the token at position (j*nx + i)*(nvars+2) + c *)
Lemma layout2_toks_length (m : mesh2) :
  wf2 m -> length (concat (layout2 tok fmt m)) = m2_ny m * m2_nx m * (m2_nvars m + 2).
Proof.
  intros Hwf. pose proof Hwf as (Hx & Hy & Hlen & Hall). unfold layout2.
  assert (H : forall lo n, lo + n <= m2_ny m ->
    length (concat (flat_map (fun j => map (line2 tok fmt m j) (seq 0 (m2_nx m)) ++ [[]]) (seq lo n)))
    = n * m2_nx m * (m2_nvars m + 2)).
  { intros lo n; revert lo; induction n as [|n IH]; intros lo Hn; [reflexivity|].
    cbn [seq flat_map]. rewrite !concat_app, !app_length, IH by lia. cbn [concat length].
    rewrite (concat_length_eq _ (m2_nvars m + 2)).
    - rewrite map_length, seq_length. cbn [app length]. nia.
    - apply Forall_forall. intros l Hl. apply in_map_iff in Hl as (i & <- & Hi).
      apply in_seq in Hi. apply (line2_tokens m i lo Hwf); lia. }
  apply H. lia.
Qed.

(* the token at position (j*nx + i)*(nvars+2) + c of the stream is token c of the line of node (i,j)
   (the empty lines contribute no token) *)
Lemma concat_blocks_token (f : nat -> nat -> list tok) nx ny w i j c :
  (forall i j, i < nx -> j < ny -> length (f j i) = w) ->
  i < nx -> j < ny -> c < w ->
  nth_error (concat (flat_map (fun j => map (f j) (seq 0 nx) ++ [[]]) (seq 0 ny)))
            ((j * nx + i) * w + c) = nth_error (f j i) c.
Proof.
  intros Hw Hi Hj Hc.
  assert (E : forall lo n,
              concat (flat_map (fun j => map (f j) (seq 0 nx) ++ [[]]) (seq lo n)) =
              concat (map (fun j => concat (map (f j) (seq 0 nx))) (seq lo n))).
  { intros lo n; revert lo; induction n as [|n IH]; intros lo; [reflexivity|].
    cbn [seq flat_map map concat]. rewrite !concat_app, IH.
    cbn [concat]. now rewrite app_nil_r. }
  rewrite E. replace ((j * nx + i) * w + c) with (j * (nx * w) + (i * w + c)) by ring.
  assert (Hrow : forall j0, j0 < ny -> Forall (fun l => length l = w) (map (f j0) (seq 0 nx))).
  { intros j0 Hj0. apply Forall_forall. intros l Hl. apply in_map_iff in Hl as (i0 & <- & Hi0).
    apply in_seq in Hi0. apply Hw; lia. }
  rewrite (nth_error_concat _ (nx * w)).
  - rewrite nth_map_seq by exact Hj. rewrite (nth_error_concat _ w).
    + now rewrite nth_map_seq.
    + now apply Hrow.
    + now rewrite map_length, seq_length.
    + exact Hc.
  - apply Forall_forall. intros l Hl. apply in_map_iff in Hl as (j0 & <- & Hj0).
    apply in_seq in Hj0. rewrite (concat_length_eq _ w) by (apply Hrow; lia).
    now rewrite map_length, seq_length.
  - now rewrite map_length, seq_length.
  - apply Nat.lt_le_trans with (i * w + w); [lia|]. 
    replace (i * w + w) with ((i + 1) * w) by ring. apply Nat.mul_le_mono_r. lia.
Qed.

Lemma layout2_token (m : mesh2) i j c :
  wf2 m -> i < m2_nx m -> j < m2_ny m -> c < m2_nvars m + 2 ->
  nth_error (concat (layout2 tok fmt m)) ((j * m2_nx m + i) * (m2_nvars m + 2) + c) =
  nth_error (line2 tok fmt m j i) c.
Proof.
  intros Hwf Hi Hj Hc. unfold layout2. apply concat_blocks_token; try assumption.
  intros i0 j0 Hi0 Hj0. now apply (line2_tokens m i0 j0 Hwf).
Qed.

Lemma layout_var2_token (m : mesh2) var i j c :
  i < m2_nx m -> j < m2_ny m -> c < 3 ->
  nth_error (concat (layout_var2 m var)) ((j * m2_nx m + i) * 3 + c) =
  nth_error (line_var2 m var j i) c.
Proof.
  intros Hi Hj Hc. unfold layout_var2. apply concat_blocks_token; try assumption. reflexivity.
Qed.

(* ------------------------------------------------------------------ contents of output_var *)
Lemma layout_var2_length (m : mesh2) var : length (layout_var2 m var) = m2_ny m * (m2_nx m + 1).
Proof. apply blocks_length. Qed.

Lemma layout_var2_line (m : mesh2) var i j :
  i < m2_nx m -> j < m2_ny m ->
  nth_error (layout_var2 m var) (j * (m2_nx m + 1) + i) =
  Some [fmt (nth i (m2_x m) zero); fmt (nth j (m2_y m) zero);
        fmt (nth var (nth (i * m2_ny m + j) (m2_vars m) []) zero)].
Proof.
  intros Hi Hj. unfold layout_var2. rewrite blocks_nth_error by lia.
  apply Nat.ltb_lt in Hi. now rewrite Hi.
Qed.

Lemma layout_var2_blank (m : mesh2) var j :
  j < m2_ny m -> nth_error (layout_var2 m var) (j * (m2_nx m + 1) + m2_nx m) = Some [].
Proof.
  intros Hj. unfold layout_var2. rewrite blocks_nth_error by lia. now rewrite Nat.ltb_irrefl.
Qed.

(* output_var is output with the columns of the other variables removed *)
Definition pick_var (var : nat) (line : list tok) : list tok :=
  match line with
  | x :: y :: rest => match nth_error rest var with Some t => [x; y; t] | None => line end
  | _ => line
  end.

Lemma layout_var2_pick (m : mesh2) var :
  wf2 m -> var < m2_nvars m -> layout_var2 m var = map (pick_var var) (layout2 tok fmt m).
Proof.
  intros Hwf Hvar. pose proof Hwf as (Hx & Hy & Hlen & Hall). unfold layout_var2, layout2.
  rewrite !flat_map_concat_map, concat_map, map_map.
  f_equal. apply map_ext_in. intros j Hj. apply in_seq in Hj.
  rewrite map_app, map_map. cbn [map pick_var]. f_equal.
  apply map_ext_in. intros i Hi. apply in_seq in Hi.
  unfold line_var2, line2, pick_var.
  assert (Hk : i * m2_ny m + j < length (m2_vars m)) by (rewrite Hlen; apply idx_lt; lia).
  rewrite (map_nth_error fmt var (nth (i * m2_ny m + j) (m2_vars m) [])
             (d := nth var (nth (i * m2_ny m + j) (m2_vars m) []) zero)); [reflexivity|].
  apply nth_error_nth'. rewrite (Forall_nth_lt _ _ _ [] Hall Hk). exact Hvar.
Qed.

End Out2.
