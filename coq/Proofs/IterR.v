(* Proofs/IterR.v -- the real-number instance: over R with the standard square root, Ok k means
   ||b - A x||_2 <= tol * ||b||'  as an inequality between reals (||b||' = ||b||_2, 0 replaced by 1). *)
From Coq Require Import List Arith Lia Reals Lra.
From OV Require Import Base.Panic Base.Arith Model.Vector Model.Matrix Model.Sparse Model.Iter Proofs.Iter Proofs.IterField.
Import ListNotations.
Local Open Scope R_scope.

Definition R_eqb (x y : R) : bool := if Req_EM_T x y then true else false.
Definition R_ltb (x y : R) : bool := if Rlt_dec x y then true else false.
Definition R_leb (x y : R) : bool := if Rle_dec x y then true else false.
Definition R_div (x y : R) : res R := if R_eqb y 0 then Panic DivZero else Ok (x * / y).

Definition AR : Arith := {|
  T := R; zero := 0; one := 1; add := Rplus; sub := Rminus; mul := Rmult; neg := Ropp;
  abs := Rabs; div := R_div; eqb := R_eqb; ltb := R_ltb; leb := R_leb |}.
Definition SAR : SArith := {| SA := AR; sqrt := R_sqrt.sqrt; of_nat := INR |}.

Lemma R_eqb_spec (x y : R) : R_eqb x y = true <-> x = y.
Proof. unfold R_eqb. destruct (Req_EM_T x y); split; auto; discriminate. Qed.

Definition AR_FieldLaws : FieldLaws AR.
Proof.
  refine {| fl_inv := Rinv : AR -> AR |}.
  - exact Rfield.
  - exact R_eqb_spec.
  - intros x y. reflexivity.
Defined.

Lemma SAR_SqrtLaws : SqrtLaws SAR.
Proof. split; cbn. - exact sqrt_0. - exact Rabs_R0. Qed.

Lemma norm2_R_nonneg (v : list R) : 0 <= @norm2 SAR v.
Proof. unfold norm2. cbn. apply sqrt_pos. Qed.

Lemma nz_R_pos (x : R) : 0 <= x -> 0 < @nz SAR x.
Proof.
  intros Hx. unfold nz. cbn. unfold R_eqb. destruct (Req_EM_T x 0); lra.
Qed.

Lemma R_div_Ok (x y z : R) : R_div x y = Ok z -> y <> 0 /\ z = x * / y.
Proof.
  unfold R_div, R_eqb. destruct (Req_EM_T y 0); [discriminate|]. intros H; injection H as <-. auto.
Qed.
Lemma R_leb_true (x y : R) : R_leb x y = true -> x <= y.
Proof. unfold R_leb. destruct (Rle_dec x y); [auto | discriminate]. Qed.
Lemma R_ltb_true (x y : R) : R_ltb x y = true -> x < y.
Proof. unfold R_ltb. destruct (Rlt_dec x y); [auto | discriminate]. Qed.

Section RealCorollary.
Variables (n : nat) (mulA mulAT : list R -> res (list R)).
Hypothesis LO : @LinOp AR n mulA.

Theorem run_ok_solved_R cols sv (b x0 : list R) max (tol : R) k x g :
  @run SAR mulA mulAT n cols sv b x0 max tol = Ok (IOk k, x, g) ->
  exists ax, mulA x = Ok ax /\
    @norm2 SAR (@zipw AR Rminus b ax) <= tol * @nz SAR (@norm2 SAR b).
Proof.
  intros H.
  destruct (@run_ok_solved SAR AR_FieldLaws n mulA mulAT LO cols sv b x0 max tol k x g H)
    as (ax & resid & Eax & Ed & Ht).
  exists ax. split; auto.
  pose proof (nz_R_pos _ (norm2_R_nonneg b)) as Hpos.
  apply R_div_Ok in Ed as (Hnz & ->).
  assert (Hle : @norm2 SAR (@zipw AR Rminus b ax) * / @nz SAR (@norm2 SAR b) <= tol).
  { destruct Ht as [Ht | Ht]; [apply R_leb_true in Ht; exact Ht | apply R_ltb_true in Ht; exact (Rlt_le _ _ Ht)]. }
  apply (Rmult_le_compat_r _ _ _ (Rlt_le _ _ Hpos)) in Hle.
  rewrite Rmult_assoc, Rinv_l, Rmult_1_r in Hle by lra. exact Hle.
Qed.

End RealCorollary.

(* ---- a concrete real instance (non-vacuity): the CSC matrix [[4,1],[1,3]] over R ---- *)
Definition exr_s : sparse AR := @mkS AR 2%nat 2%nat 4%nat [4; 1; 1; 3] [0; 1; 0; 1]%nat [0; 2; 4]%nat.

Lemma exr_mul (a b : R) : @sp_mul AR exr_s [a; b] = Ok [0 + 4 * a + 1 * b; 0 + 1 * a + 3 * b].
Proof. reflexivity. Qed.

Lemma exr_lin : @LinOp AR 2%nat (@sp_mul AR exr_s).
Proof.
  split.
  - intros [|a [|b [|c v]]] Hv; try discriminate Hv. rewrite exr_mul. eauto.
  - intros [|a [|b [|c u]]] [|a' [|b' [|c' v]]] x y Hu Hv; try discriminate Hu; try discriminate Hv.
    rewrite !exr_mul. intros Ex Ey. injection Ex as <-. injection Ey as <-.
    change (@zipw AR add [a; b] [a'; b']) with [a + a'; b + b']. rewrite exr_mul.
    cbn [zipw combine map fst snd add AR]. apply f_equal. apply f_equal2; [ring | apply f_equal2; [ring | reflexivity]].
  - intros c [|a [|b [|c' v]]] x Hv; try discriminate Hv.
    rewrite exr_mul. intros Ex. injection Ex as <-.
    change (@vscale AR [a; b] c) with [a * c; b * c]. rewrite exr_mul.
    cbn [vscale map mul AR]. apply f_equal. apply f_equal2; [ring | apply f_equal2; [ring | reflexivity]].
Qed.

(* the hypothesis of run_ok_solved_R is met: x0 = (1, 2), b := A x0, every solver answers Ok 0 *)
Lemma exr_run_ok sv : (forall itol, sv = BiCG itol -> itol = 1%nat \/ itol = 2%nat) ->
  exists b g, length b = 2%nat /\
    @run SAR (@sp_mul AR exr_s) (@sp_tmul AR exr_s) 2 2 sv b [1; 2] 5 1 = Ok (IOk 0, [1; 2], g).
Proof.
  intros Hit. pose proof (exr_mul 1 2) as E.
  match type of E with _ = Ok ?v => exists v; 
  destruct (@run_exact_guess SAR AR_FieldLaws SAR_SqrtLaws 2 (@sp_mul AR exr_s) (@sp_tmul AR exr_s) exr_lin sv
              v [1; 2] 5%nat 1 v Hit eq_refl eq_refl E) as (g & Hg) end.
  - exact (@zipw_sub_self SAR AR_FieldLaws _).
  - cbn. unfold R_leb. destruct (Rle_dec 0 1); [reflexivity | lra].
  - exists g. split; [reflexivity | exact Hg].
Qed.
