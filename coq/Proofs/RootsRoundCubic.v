(* Proofs/RootsRoundCubic.v -- the TRIPLE-ROOT branch of the model's cubic_solve in the standard model of rounding
   (the arithmetic [RoundRAo eps O] of Proofs/RootsRound.v).

   cubic_solve takes the branch  `d0 == zero && d1 == zero`  on the COMPUTED values
        d0^ = fl(b^2 - 3ac),   d1^ = fl(2b^3 - 9abc + 27a^2 d)        ([c_d0], [c_d1] below, every operation rounded)
   and returns three copies of  r = fl(-b / fl(3a)).  Computed zeros do not make the cubic a perfect cube; what is proved:

     cubic_triple_branch_lemma     c_d0 = 0 and c_d1 = 0, a <> 0, eps <= 1/100  ==>  cubic_solve = Ok [r; r; r]  and
                                   |a r^3 + b r^2 + c r + d| <= 16 eps (|a||r|^3 + |b||r|^2 + |c||r| + |d|)
   (only d1^ = 0 is used: it bounds the exact d1 = 27 a^2 p(-b/3a) by 4 roundings' worth of its three terms).
   The Cardano branch (the recorded class KF-C10-F lives there) is NOT covered. *)
From Coq Require Import List Arith Bool Reals Lra Lia Psatz.
From Coquelicot Require Import Complex.
From OV Require Import Base.Panic Base.Arith gen.Params Model.Roots Proofs.RootsRound.
Import ListNotations.
Local Open Scope R_scope.
Import RRN.

Definition cval (a b c d x : C) : C := (a * x * x * x + b * x * x + c * x + d)%C.
Definition csize (a b c d x : C) : R :=
  Cmod a * Cmod x * Cmod x * Cmod x + Cmod b * Cmod x * Cmod x + Cmod c * Cmod x + Cmod d.

(* the values the model computes *)
Definition c_d0 (O : RoundOps) (a b c : C) : C := o_sub O (o_mul O b b) (o_mul O (o_scale O a (INR 3)) c).
Definition c_d1 (O : RoundOps) (a b c d : C) : C :=
  o_add O (o_sub O (o_mul O (o_scale O (o_mul O b b) (INR 2)) b) (o_mul O (o_mul O (o_scale O a (INR 9)) b) c))
          (o_mul O (o_scale O (o_mul O a a) (INR 27)) d).
Definition c_r (O : RoundOps) (a b : C) : C := o_div O (- b)%C (o_scale O a (INR 3)).

Lemma cubic_solve_triple_eq (eps : R) (O : RoundOps) (a b c d : C) :
  c_d0 O a b c = C0 -> c_d1 O a b c d = C0 ->
  cubic_solve (RoundRAo eps O) a b c d = Ok [c_r O a b; c_r O a b; c_r O a b].
Proof.
  intros H0 H1. unfold cubic_solve, cubic_solve_gen, cubic_disc, RoundRAo.
  cbn [osqrt RoundRA bind kmulr kre kconj rhalf KK RR SA rlit of_nat andb KKm RRm sub mul add neg div eqb leb zero one T].
  fold (c_d0 O a b c). fold (c_d1 O a b c d). rewrite H0, H1.
  destruct (Ceq_dec C0 C0) as [_|N]; [|now contradiction N]. reflexivity.
Qed.

(* ---------------------------------------------------------------- constants *)
Module RCN.
Notation c3 := (RtoC 1 + RtoC 1 + RtoC 1)%C.
End RCN.
Import RCN.
Lemma INR_27 : INR 27 = 27. Proof. rewrite INR_IZR_INZ. reflexivity. Qed.
Lemma INR_9 : INR 9 = 9. Proof. rewrite INR_IZR_INZ. reflexivity. Qed.
Lemma R2C_2 : RtoC (INR 2) = (C1 + C1)%C. Proof. cbn [INR]. now rewrite RtoC_plus. Qed.
Lemma R2C_3 : RtoC (INR 3) = c3. Proof. cbn [INR]. now rewrite !RtoC_plus. Qed.
Lemma R2C_9 : RtoC (INR 9) = (c3 * c3)%C.
Proof. rewrite <- !RtoC_plus, <- RtoC_mult, INR_9. f_equal. lra. Qed.
Lemma R2C_27 : RtoC (INR 27) = (c3 * c3 * c3)%C.
Proof. rewrite <- !RtoC_plus, <- !RtoC_mult, INR_27. f_equal. lra. Qed.
Lemma c3_neq0 : c3 <> C0.
Proof. rewrite <- !RtoC_plus. intros H. apply RtoC_inj in H. lra. Qed.
Lemma Cmod_c3 : Cmod c3 = 3.
Proof. rewrite <- !RtoC_plus, Cmod_R, Rabs_pos_eq; lra. Qed.
Lemma Cmod_c2 : Cmod (C1 + C1)%C = 2.
Proof. rewrite <- !RtoC_plus, Cmod_R, Rabs_pos_eq; lra. Qed.

(* ---------------------------------------------------------------- real inequalities *)
Lemma combine4 (A3 B2 C1' D0 p3 p2 p1 p0 g k : R) : 0 <= A3 -> 0 <= B2 -> 0 <= C1' -> 0 <= D0 -> 0 <= g ->
  p3 <= k * (g * g * g) -> p2 <= k * (g * g) -> p1 <= k * g -> p0 <= k ->
  A3 * p3 + B2 * p2 + C1' * p1 + D0 * p0 <= k * (A3 * (g * g * g) + B2 * (g * g) + C1' * g + D0).
Proof.
  intros H3 H2 H1 H0 Hg K3 K2 K1 K0.
  assert (A3 * p3 <= A3 * (k * (g * g * g))) by (apply Rmult_le_compat_l; assumption).
  assert (B2 * p2 <= B2 * (k * (g * g))) by (apply Rmult_le_compat_l; assumption).
  assert (C1' * p1 <= C1' * (k * g)) by (apply Rmult_le_compat_l; assumption).
  assert (D0 * p0 <= D0 * k) by (apply Rmult_le_compat_l; assumption).
  lra.
Qed.

Lemma numeric_cubic (e : R) : 0 <= e <= / 100 ->
  let X4 := (1 + e) * (1 + e) * (1 + e) * (1 + e) in
  let Y := (1 + e) * / (2 - (1 + e)) in
  1 <= X4 <= 1 + 4.0605 * e /\ 1 <= Y <= 1 + 2.03 * e.
Proof.
  intros He X4 Y.
  assert (H2 : (1 + e) * (1 + e) <= 1 + 2.01 * e) by nra.
  assert (L2 : 1 <= (1 + e) * (1 + e)) by nra.
  assert (H3 : (1 + e) * (1 + e) * (1 + e) <= 1 + 3.0301 * e).
  { revert H2 L2. generalize ((1 + e) * (1 + e)). intros y H2 L2. nra. }
  assert (L3 : 1 <= (1 + e) * (1 + e) * (1 + e)).
  { revert L2. generalize ((1 + e) * (1 + e)). intros y L2. nra. }
  split.
  - unfold X4. revert H3 L3. generalize ((1 + e) * (1 + e) * (1 + e)). intros y H3 L3. nra.
  - unfold Y. assert (P : 0 < 2 - (1 + e)) by lra. split.
    + apply (Rmult_le_reg_r (2 - (1 + e))); [exact P|]. rewrite Rmult_assoc, Rinv_l by lra. lra.
    + apply (Rmult_le_reg_r (2 - (1 + e))); [exact P|]. rewrite Rmult_assoc, Rinv_l by lra. nra.
Qed.

Lemma numeric_cubic_final (e h Y : R) : 0 <= e <= / 100 -> 0 <= h <= 4.0605 * e -> 1 <= Y <= 1 + 2.03 * e ->
  let g := 2 - Y in
  0 <= g /\ 2 * h + (Y * Y * Y - 1) <= 16 * e * (g * g * g) /\ Y * Y - 1 <= 16 * e * (g * g) /\
  h + (Y - 1) <= 16 * e * g /\ h <= 16 * e.
Proof.
  intros He Hh HY g. unfold g.
  assert (Y2 : Y * Y <= 1 + 4.1013 * e) by nra.
  assert (L2 : 1 <= Y * Y) by nra.
  assert (Y3 : Y * Y * Y <= 1 + 6.2146 * e).
  { revert Y2 L2. generalize (Y * Y). intros z Y2 L2. nra. }
  assert (G1 : 0.9797 <= 2 - Y) by lra.
  assert (G2 : 0.9598 <= (2 - Y) * (2 - Y)) by nra.
  assert (G3 : 0.9403 <= (2 - Y) * (2 - Y) * (2 - Y)).
  { revert G2. generalize ((2 - Y) * (2 - Y)). intros z G2. nra. }
  repeat split; try lra.
  - revert G3. generalize ((2 - Y) * (2 - Y) * (2 - Y)). intros z G3. nra.
  - revert G2. generalize ((2 - Y) * (2 - Y)). intros z G2. nra.
  - nra.
Qed.

Lemma Cmod_tri4 (x y z t : C) : Cmod (x + y + z + t)%C <= Cmod x + Cmod y + Cmod z + Cmod t.
Proof. eapply Rle_trans; [apply Cmod_triangle|]. pose proof (Cmod_tri3 x y z). lra. Qed.

Lemma near_pert' x p X : near p X -> Cmod (x - x * p)%C <= (X - 1) * Cmod x.
Proof.
  intros H. replace (x - x * p)%C with (- (x * p - x))%C by ring. rewrite Cmod_opp. now apply near_pert.
Qed.

Ltac pair_nz := let H := fresh in intros H; apply (f_equal fst) in H; unfold RtoC in H; cbn [fst] in H; lra.

(* ---------------------------------------------------------------- the theorem *)
Theorem cubic_triple_branch_lemma (eps : R) (O : RoundOps) (a b c d : C) :
  0 <= eps <= / 100 -> std_model eps O -> a <> C0 -> c_d0 O a b c = C0 -> c_d1 O a b c d = C0 ->
  cubic_solve (RoundRAo eps O) a b c d = Ok [c_r O a b; c_r O a b; c_r O a b] /\
  Cmod (cval a b c d (c_r O a b)) <= 16 * eps * csize a b c d (c_r O a b).
Proof.
  intros [He0 He] (Ha & Hs & Hm & Hd & Hsc & _) Hnz H0 H1. split; [now apply cubic_solve_triple_eq|].
  destruct (numeric_cubic eps (conj He0 He)) as ([X4lo X4hi] & [Ylo Yhi]).
  set (X4 := (1 + eps) * (1 + eps) * (1 + eps) * (1 + eps)) in *.
  set (Y := (1 + eps) * / (2 - (1 + eps))) in *.
  (* the computed d1 *)
  set (T1 := o_mul O (o_scale O (o_mul O b b) (INR 2)) b) in *.
  set (T2 := o_mul O (o_mul O (o_scale O a (INR 9)) b) c) in *.
  set (T3 := o_mul O (o_scale O (o_mul O a a) (INR 27)) d) in *.
  destruct (rel_mult eps _ _ He0 (Hm b b)) as (e1 & D1 & E1).
  destruct (rel_mult eps _ _ He0 (Hsc (o_mul O b b) (INR 2))) as (e2 & D2 & E2).
  destruct (rel_mult eps _ _ He0 (Hm (o_scale O (o_mul O b b) (INR 2)) b)) as (e3 & D3 & E3).
  destruct (rel_mult eps _ _ He0 (Hsc a (INR 9))) as (e4 & D4 & E4).
  destruct (rel_mult eps _ _ He0 (Hm (o_scale O a (INR 9)) b)) as (e5 & D5 & E5).
  destruct (rel_mult eps _ _ He0 (Hm (o_mul O (o_scale O a (INR 9)) b) c)) as (e6 & D6 & E6).
  destruct (rel_mult eps _ _ He0 (Hm a a)) as (e7 & D7 & E7).
  destruct (rel_mult eps _ _ He0 (Hsc (o_mul O a a) (INR 27))) as (e8 & D8 & E8).
  destruct (rel_mult eps _ _ He0 (Hm (o_scale O (o_mul O a a) (INR 27)) d)) as (e9 & D9 & E9).
  destruct (rel_mult eps _ _ He0 (Hs T1 T2)) as (e10 & D10 & E10).
  destruct (rel_mult eps _ _ He0 (Ha (o_sub O T1 T2) T3)) as (e11 & D11 & E11).
  fold T1 in E3. fold T2 in E6. fold T3 in E9.
  set (k1 := ((C1 + C1) * b * b * b)%C). set (k2 := (c3 * c3 * a * b * c)%C). set (k3 := (c3 * c3 * c3 * a * a * d)%C).
  set (pi1 := ((C1 + e1) * (C1 + e2) * (C1 + e3) * (C1 + e10))%C).
  set (pi2 := ((C1 + e4) * (C1 + e5) * (C1 + e6) * (C1 + e10))%C).
  set (pi3 := ((C1 + e7) * (C1 + e8) * (C1 + e9) * C1)%C).
  assert (N1 : near pi1 X4) by (unfold pi1, X4; repeat apply near_mul; apply near_1pd; assumption).
  assert (N2 : near pi2 X4) by (unfold pi2, X4; repeat apply near_mul; apply near_1pd; assumption).
  assert (N3 : near pi3 X4).
  { unfold pi3, X4. repeat apply near_mul; try (apply near_1pd; assumption). eapply near_mono; [apply near_1|lra]. }
  assert (Z : ((k1 * pi1 - k2 * pi2) + k3 * pi3)%C = C0).
  { assert (N11 : (C1 + e11)%C <> C0) by (apply (near_nz _ (1 + eps)); [apply near_1pd; exact D11|lra]).
    unfold c_d1 in H1. fold T1 T2 T3 in H1. rewrite E11 in H1.
    destruct (Ceq_dec (o_sub O T1 T2 + T3)%C C0) as [Zs|Ns]; [|exfalso; apply (Cmult_neq_0 _ _ Ns N11); exact H1].
    rewrite <- Zs, E10, E3, E2, E1, E6, E5, E4, E9, E8, E7, R2C_2, R2C_9, R2C_27. unfold k1, k2, k3, pi1, pi2, pi3. ring. }
  set (d1x := (k1 - k2 + k3)%C).
  assert (Bd1 : Cmod d1x <= (X4 - 1) * (Cmod k1 + Cmod k2 + Cmod k3)).
  { replace d1x with ((k1 - k1 * pi1) + - (k2 - k2 * pi2) + (k3 - k3 * pi3))%C.
    2:{ unfold d1x. transitivity ((k1 - k2 + k3) - ((k1 * pi1 - k2 * pi2) + k3 * pi3))%C; [ring|rewrite Z; ring]. }
    eapply Rle_trans; [apply Cmod_tri3|]. rewrite Cmod_opp.
    pose proof (near_pert' k1 pi1 X4 N1). pose proof (near_pert' k2 pi2 X4 N2). pose proof (near_pert' k3 pi3 X4 N3). lra. }
  (* the returned value *)
  destruct (rel_mult eps _ _ He0 (Hsc a (INR 3))) as (e12 & D12 & E12).
  assert (N12 : (C1 + e12)%C <> C0) by (apply (near_nz _ (1 + eps)); [apply near_1pd; exact D12|lra]).
  assert (N3a : o_scale O a (INR 3) <> C0).
  { rewrite E12, R2C_3. repeat apply Cmult_neq_0; [exact Hnz | exact c3_neq0 | exact N12]. }
  destruct (rel_mult eps _ _ He0 (Hd (- b)%C (o_scale O a (INR 3)) N3a)) as (e13 & D13 & E13).
  set (rho := ((C1 + e13) * / (C1 + e12))%C).
  assert (Hr : near rho Y).
  { unfold rho, Y. apply near_mul; [apply near_1pd; exact D13 | apply near_inv; [apply near_1pd; exact D12 | lra]]. }
  set (x0 := (- b / (c3 * a))%C).
  assert (Er : c_r O a b = (x0 * rho)%C).
  { unfold c_r. rewrite E13, E12, R2C_3. unfold x0, rho. field. repeat split; first [exact N12 | exact Hnz | pair_nz]. }
  rewrite Er.
  assert (Ev : cval a b c d (x0 * rho)%C =
               (d1x / (c3 * c3 * c3 * a * a) + a * x0 * x0 * x0 * (rho * rho * rho - C1) + b * x0 * x0 * (rho * rho - C1)
                + c * x0 * (rho - C1))%C).
  { unfold cval, d1x, k1, k2, k3, x0. field. repeat split; first [exact Hnz | pair_nz]. }
  rewrite Ev.
  pose proof (near_mul _ _ _ _ Hr Hr) as Hr2. pose proof (near_mul _ _ _ _ Hr2 Hr) as Hr3.
  pose proof (near_lo _ _ Hr) as Lr.
  unfold near in Hr, Hr2, Hr3.
  set (A := Cmod a). set (Bm := Cmod b). set (Cm := Cmod c). set (Dm := Cmod d).
  assert (PA : 0 < A) by (now apply Cmod_gt_0).
  assert (PB : 0 <= Bm) by apply Cmod_ge_0. assert (PC : 0 <= Cm) by apply Cmod_ge_0. assert (PD : 0 <= Dm) by apply Cmod_ge_0.
  set (w := Bm / (3 * A)).
  assert (Pw : 0 <= w) by (unfold w, Rdiv; apply Rmult_le_pos; [exact PB | apply Rlt_le, Rinv_0_lt_compat; lra]).
  assert (Ew : Cmod x0 = w).
  { unfold x0. rewrite Cmod_div by (apply Cmult_neq_0; [exact c3_neq0 | exact Hnz]).
    rewrite Cmod_opp, Cmod_mult, Cmod_c3. reflexivity. }
  assert (N27 : (c3 * c3 * c3 * a * a)%C <> C0) by (repeat apply Cmult_neq_0; try exact c3_neq0; exact Hnz).
  set (h := X4 - 1) in *. set (r := Cmod rho) in *. set (g := 2 - Y) in *.
  destruct (numeric_cubic_final eps h Y (conj He0 He) ltac:(unfold h; lra) (conj Ylo Yhi)) as (Pg & F3 & F2 & F1 & F0).
  fold g in Pg, F3, F2, F1.
  assert (P1 : 0 <= Cm * w) by (apply Rmult_le_pos; lra).
  assert (P2 : 0 <= Bm * w * w) by (apply Rmult_le_pos; [apply Rmult_le_pos|]; lra).
  assert (P3 : 0 <= A * w * w * w) by (apply Rmult_le_pos; [apply Rmult_le_pos; [apply Rmult_le_pos|]|]; lra).
  (* upper bound of the residual *)
  assert (U : Cmod (d1x / (c3 * c3 * c3 * a * a) + a * x0 * x0 * x0 * (rho * rho * rho - C1) + b * x0 * x0 * (rho * rho - C1)
                    + c * x0 * (rho - C1))%C
              <= A * w * w * w * (2 * h + (Y * Y * Y - 1)) + Bm * w * w * (Y * Y - 1) + Cm * w * (h + (Y - 1)) + Dm * h).
  { eapply Rle_trans; [apply Cmod_tri4|].
    rewrite Cmod_div by exact N27. rewrite !Cmod_mult, Cmod_c3, Ew. fold A Bm Cm.
    assert (K1 : Cmod d1x / (3 * 3 * 3 * A * A) <= h * (2 * A * w * w * w + Cm * w + Dm)).
    { replace (h * (2 * A * w * w * w + Cm * w + Dm)) with (h * (2 * (Bm * Bm * Bm) + 9 * (A * Bm * Cm) + 27 * (A * A * Dm)) / (3 * 3 * 3 * A * A))
        by (unfold w; field; lra).
      unfold Rdiv. apply Rmult_le_compat_r; [apply Rlt_le, Rinv_0_lt_compat; repeat apply Rmult_lt_0_compat; lra|].
      eapply Rle_trans; [exact Bd1|]. apply Rmult_le_compat_l; [unfold h; lra|].
      unfold k1, k2, k3. rewrite !Cmod_mult, Cmod_c3, Cmod_c2. fold A Bm Cm Dm. lra. }
    assert (K2 : A * w * w * w * Cmod (rho * rho * rho - C1)%C <= A * w * w * w * (Y * Y * Y - 1)).
    { apply Rmult_le_compat_l; [exact P3|exact Hr3]. }
    assert (K3 : Bm * w * w * Cmod (rho * rho - C1)%C <= Bm * w * w * (Y * Y - 1)).
    { apply Rmult_le_compat_l; [exact P2|exact Hr2]. }
    assert (K4 : Cm * w * Cmod (rho - C1)%C <= Cm * w * (Y - 1)).
    { apply Rmult_le_compat_l; [exact P1|exact Hr]. }
    lra. }
  (* lower bound of the size *)
  assert (L : A * w * w * w * (g * g * g) + Bm * w * w * (g * g) + Cm * w * g + Dm <= csize a b c d (x0 * rho)%C).
  { unfold csize. rewrite Cmod_mult, Ew. fold A Bm Cm Dm r.
    assert (G1 : g <= r) by exact Lr.
    assert (G2 : g * g <= r * r) by (apply Rmult_le_compat; lra).
    assert (G3 : g * g * g <= r * r * r) by (apply Rmult_le_compat; nra).
    assert (A * w * w * w * (g * g * g) <= A * w * w * w * (r * r * r)) by (apply Rmult_le_compat_l; assumption).
    assert (Bm * w * w * (g * g) <= Bm * w * w * (r * r)) by (apply Rmult_le_compat_l; assumption).
    assert (Cm * w * g <= Cm * w * r) by (apply Rmult_le_compat_l; assumption).
    replace (A * (w * r) * (w * r) * (w * r)) with (A * w * w * w * (r * r * r)) by ring.
    replace (Bm * (w * r) * (w * r)) with (Bm * w * w * (r * r)) by ring.
    replace (Cm * (w * r)) with (Cm * w * r) by ring. lra. }
  pose proof (combine4 _ _ _ _ _ _ _ _ g (16 * eps) P3 P2 P1 PD Pg F3 F2 F1 F0) as K.
  assert (K' : 16 * eps * (A * w * w * w * (g * g * g) + Bm * w * w * (g * g) + Cm * w * g + Dm)
               <= 16 * eps * csize a b c d (x0 * rho)%C) by (apply Rmult_le_compat_l; [lra|exact L]).
  lra.
Qed.

(* ---------------------------------------------------------------- non-vacuity *)
(* in the perturbing arithmetic [pert_ops e] of Proofs/RootsRoundEx.v (every rounded operation = exact result times f = 1 + e),
   the cubic  x^3 - 3 x^2 + (3 / f) x + (2 f - 3)  -- close to (x - 1)^3, all coefficients non-zero, NOT a perfect cube --
   has computed d0 = d1 = 0: the triple-root branch is taken, r = 1 is returned, and the residual there is not zero *)
From OV Require Import Proofs.RootsRoundEx.

Lemma cubic_triple_branch_nonvacuous_lemma :
  let e := / 1024 in let f := 1 + e in
  let a := RtoC 1 in let b := RtoC (-3) in let c := RtoC (3 / f) in let d := RtoC (2 * f - 3) in
  0 <= e <= / 100 /\ std_model e (pert_ops e) /\ a <> C0 /\
  c_d0 (pert_ops e) a b c = C0 /\ c_d1 (pert_ops e) a b c d = C0 /\
  c_r (pert_ops e) a b = RtoC 1 /\ cval a b c d (RtoC 1) <> C0.
Proof.
  intros e f a b c d.
  assert (He : 0 <= e <= / 100) by (unfold e; lra).
  assert (Pf : 0 < f) by (unfold f, e; lra).
  split; [exact He|]. split; [apply pert_std_model; lra|].
  split; [intros H; apply RtoC_inj in H; lra|].
  split; [|split; [|split]].
  - unfold c_d0, a, b, c. cbn [o_sub o_mul o_scale pert_ops]. fold f.
    unfold RtoC, Cmult, Cminus, Cplus, Copp. cbn [fst snd INR]. f_equal; field; lra.
  - unfold c_d1, a, b, c, d. cbn [o_add o_sub o_mul o_scale pert_ops]. fold f. rewrite INR_27, INR_9.
    repeat (rewrite <- RtoC_mult || rewrite <- RtoC_minus || rewrite <- RtoC_plus).
    f_equal. cbn [INR]. field. lra.
  - unfold c_r, a, b. cbn [o_div o_scale pert_ops]. fold f.
    rewrite <- RtoC_opp, <- !RtoC_mult. rewrite <- RtoC_div by (cbn [INR]; nra). rewrite <- RtoC_mult.
    f_equal. cbn [INR]. field. lra.
  - unfold cval, a, b, c, d. rewrite <- !RtoC_mult, <- !RtoC_plus. intros H. apply RtoC_inj in H.
    assert (K : (1 * 1 * 1 * 1 + -3 * 1 * 1 + 3 / f * 1 + (2 * f - 3)) * f = (2 * f - 3) * (f - 1)) by (field; lra).
    rewrite H in K. unfold f, e in K. lra.
Qed.
