(* Proofs/SrcEqVector.v -- the hand-written model of src/vector/{functions,arithmetic}.rs (Model/Vector.v) IS the code:
   every definition s_<f> of gen/SrcVector.v (regenerated from the Rust source by driver/rust2coq.py on this run) equals
   its hand-written counterpart, for every arithmetic and every vector (all lengths, no well-formedness hypothesis).
   The model is written with map / combine / fold_left, the source with indexed loops, so most lemmas go through the
   loop characterisations of Proofs/SrcEqBase.v (push loop = mapM, in-place loop = mapMi, accumulator loop = fold_left).
   Where the model function is total (returns a value, not a `res`), the lemma also says that the source never panics. *)
From Coq Require Import List Arith ZArith Lia Bool.
From OV Require Import Base.Panic Base.Arith Model.Vector gen.SrcPrelude gen.SrcVector Proofs.SrcEqBase.
Import ListNotations.
Section SrcEqVector.
Context {A : Arith}.
Implicit Types (u w v : list (T A)) (x s : T A).

Lemma src_dot u w : s_dot u w = dot u w.
Proof.
  unfold s_dot, dot, dot_raw. destruct (length u =? length w) eqn:E; cbn [negb]; [|reflexivity].
  apply Nat.eqb_eq in E. unfold for_. rewrite Nat.sub_0_r.
  try (rewrite <- E, Nat.min_id).      (* `for (a, b) in u.iter().zip(w.iter())` runs to min(len u, len w): equal lengths here *)
  rewrite (for_from_ext _ _ _ (fun i acc => let* x := (let* a := rd u i in let* b := rd w i in Ok (mul a b)) in Ok (add acc x))).
  2:{ intros i s _. destruct (rd u i); cbn; [|reflexivity]. destruct (rd w i); reflexivity. }
  rewrite for_from_fold, mapM_rd2 by lia. rewrite mapM_pure. cbn [bind]. now rewrite fold_left_map.
Qed.

Lemma src_sum v : s_sum v = vsum v. Proof. reflexivity. Qed.
Lemma src_product v : s_product v = vproduct v. Proof. reflexivity. Qed.

Lemma src_sum_slice v (s e : nat) : s_sum_slice v s e = sum_slice v s e.
Proof.
  unfold s_sum_slice, sum_slice, slice.
  destruct (e <? s) eqn:G1; [reflexivity|]. destruct (length v <=? s) eqn:G2; [reflexivity|].
  destruct (length v <=? e) eqn:G3; [reflexivity|].
  apply Nat.ltb_ge in G1. apply Nat.leb_gt in G2, G3.
  unfold for_. rewrite for_from_fold. rewrite mapM_rd_seq by lia. reflexivity.
Qed.

Lemma src_product_slice v (s e : nat) : s_product_slice v s e = product_slice v s e.
Proof.
  unfold s_product_slice, product_slice, slice.
  destruct (e <? s) eqn:G1; [reflexivity|]. destruct (length v <=? s) eqn:G2; [reflexivity|].
  destruct (length v <=? e) eqn:G3; [reflexivity|].
  apply Nat.ltb_ge in G1. apply Nat.leb_gt in G2, G3.
  apply bind_ext; intros x0.
  unfold for_. rewrite for_from_fold. rewrite mapM_rd_seq by lia. reflexivity.
Qed.

Lemma src_norm_1 v : s_norm_1 v = Ok (norm_1 v).
Proof.
  unfold s_norm_1, norm_1, for_. rewrite Nat.sub_0_r.
  rewrite (for_from_fold (rd v) (fun acc x => add acc (abs x))), mapM_rd_all. reflexivity.
Qed.


Lemma map_const_seq {X Y} (l : list X) (y : Y) lo : map (fun _ => y) (seq lo (length l)) = map (fun _ => y) l.
Proof. revert lo; induction l as [|a t IH]; intros lo; cbn; [reflexivity|]. now rewrite IH. Qed.

Lemma src_assign v x : s_assign v x = Ok (vassign v x).
Proof.
  unfold s_assign, vassign, for_. rewrite Nat.sub_0_r.
  pose proof (for_from_tab (fun _ => Ok x) v []) as H. cbn [length app] in H.
  etransitivity; [exact H|]. rewrite mapM_pure. cbn [bind]. now rewrite map_const_seq.
Qed.

Lemma upd_loop_map v (f : T A -> T A) :
  for_from (length v) 0 (fun i v => let* a := rd v i in upd v i (f a)) v = Ok (map f v).
Proof.
  pose proof (for_from_upd (fun _ a => Ok (f a)) v []) as H. cbn [length app] in H.
  etransitivity; [|etransitivity; [exact H|]].
  - apply for_from_ext; intros i s _. destruct (rd s i); reflexivity.
  - rewrite (mapMi_const _ (fun a => Ok (f a))) by reflexivity. rewrite mapM_pure. reflexivity.
Qed.

Lemma src_vneg v : s_vneg v = Ok (vneg v).
Proof. unfold s_vneg, vneg, for_. rewrite Nat.sub_0_r. apply upd_loop_map. Qed.
Lemma src_vadd_scalar v s : s_vadd_scalar v s = Ok (vadd_scalar v s).
Proof. unfold s_vadd_scalar, vadd_scalar, for_. rewrite Nat.sub_0_r. apply (upd_loop_map v (fun x => add x s)). Qed.
Lemma src_vsub_scalar v s : s_vsub_scalar v s = Ok (vsub_scalar v s).
Proof. unfold s_vsub_scalar, vsub_scalar, for_. rewrite Nat.sub_0_r. apply (upd_loop_map v (fun x => sub x s)). Qed.
Lemma src_vmul_scalar v s : s_vmul_scalar v s = Ok (vmul_scalar v s).
Proof. unfold s_vmul_scalar, vmul_scalar, vscale, for_. rewrite Nat.sub_0_r. apply (upd_loop_map v (fun x => mul x s)). Qed.

Lemma src_vdiv_scalar v s : s_vdiv_scalar v s = vdiv_scalar v s.
Proof.
  unfold s_vdiv_scalar, vdiv_scalar, vdiv, for_. rewrite Nat.sub_0_r.
  pose proof (for_from_upd (fun _ a => div a s) v []) as H. cbn [length app] in H.
  etransitivity; [exact H|].
  rewrite (mapMi_const _ (fun a => div a s)) by reflexivity. apply bind_ret.
Qed.

(* push loops *)
Lemma push_loop1 v (G : T A -> res (T A)) :
  for_from (length v) 0 (fun i acc => let* a := rd v i in let* y := G a in Ok (acc ++ [y])) [] = mapM G v.
Proof.
  etransitivity; [|etransitivity; [exact (for_from_push (fun i => let* a := rd v i in G a) (length v) 0 [])|]].
  - apply for_from_ext; intros i s _. destruct (rd v i); reflexivity.
  - rewrite mapM_rd1. apply bind_ret.
Qed.

(* abs: the source either fills a vector of zeros in place (vec[i] = self[i].abs(): a tabulating loop) or pushes
   self[i].abs() onto an empty vector (a push loop); both are map abs *)
Lemma src_vabs v : s_vabs v = Ok (vabs v).
Proof.
  unfold s_vabs, vabs, for_. rewrite Nat.sub_0_r. cbv zeta.
  first
  [ pose proof (for_from_tab (fun i => let* x := rd v i in Ok (abs x)) (repeat zero (length v)) []) as H;
    rewrite repeat_length in H; cbn [length app] in H;
    (etransitivity; [|etransitivity; [exact H|]]);
    [ apply for_from_ext; intros i s _; destruct (rd v i); reflexivity
    | rewrite mapM_rd1, mapM_pure; reflexivity ]
  | (etransitivity; [|etransitivity; [exact (push_loop1 v (fun a => Ok (abs a)))|apply mapM_pure]]);
    apply for_from_ext; intros i s _; destruct (rd v i); reflexivity ].
Qed.

Lemma src_vscale v s : s_vscale v s = Ok (vscale v s).
Proof.
  unfold s_vscale, vscale, for_. rewrite Nat.sub_0_r.
  etransitivity; [exact (push_loop1 v (fun a => Ok (mul a s)))|]. apply mapM_pure.
Qed.
Lemma src_vscale_l s v : s_vscale_l s v = Ok (vscale_l s v).
Proof.
  unfold s_vscale_l, vscale_l, for_. rewrite Nat.sub_0_r.
  etransitivity; [exact (push_loop1 v (fun a => Ok (mul s a)))|]. apply mapM_pure.
Qed.
Lemma src_vdiv v s : s_vdiv v s = vdiv v s.
Proof. unfold s_vdiv, vdiv, for_. rewrite Nat.sub_0_r. exact (push_loop1 v (fun a => div a s)). Qed.

Lemma push_loop2 u w (f : T A -> T A -> T A) : length u = length w ->
  for_from (length u) 0 (fun i acc => let* a := rd u i in let* b := rd w i in Ok (acc ++ [f a b])) [] = Ok (zipw f u w).
Proof.
  intros E.
  etransitivity; [|etransitivity; [exact (for_from_push (fun i => let* a := rd u i in let* b := rd w i in Ok (f a b)) (length u) 0 [])|]].
  - apply for_from_ext; intros i s _. destruct (rd u i); cbn; [|reflexivity]. destruct (rd w i); reflexivity.
  - rewrite mapM_rd2 by lia. rewrite mapM_pure. reflexivity.
Qed.

Lemma src_vadd u w : s_vadd u w = vadd u w.
Proof.
  unfold s_vadd, vadd. destruct (length u =? length w) eqn:E; cbn [negb]; [|reflexivity].
  apply Nat.eqb_eq in E. unfold for_. rewrite Nat.sub_0_r. now apply push_loop2.
Qed.
Lemma src_vsub u w : s_vsub u w = vsub u w.
Proof.
  unfold s_vsub, vsub. destruct (length u =? length w) eqn:E; cbn [negb]; [|reflexivity].
  apply Nat.eqb_eq in E. unfold for_. rewrite Nat.sub_0_r. now apply push_loop2.
Qed.

Lemma upd_loop2 u w (f : T A -> T A -> T A) : length u = length w ->
  for_from (length u) 0 (fun i v => let* a := rd v i in let* b := rd w i in upd v i (f a b)) u = Ok (zipw f u w).
Proof.
  intros E.
  pose proof (for_from_upd (fun i a => let* b := rd w i in Ok (f a b)) u []) as H. cbn [length app] in H.
  etransitivity; [|etransitivity; [exact H|]].
  - apply for_from_ext; intros i s _. destruct (rd s i); cbn; [|reflexivity]. destruct (rd w i); reflexivity.
  - rewrite mapMi_rd by lia. rewrite mapM_pure. reflexivity.
Qed.
Lemma src_vadd_assign u w : s_vadd_assign u w = vadd_assign u w.
Proof.
  unfold s_vadd_assign, vadd_assign, vadd. destruct (length u =? length w) eqn:E; cbn [negb]; [|reflexivity].
  apply Nat.eqb_eq in E. unfold for_. rewrite Nat.sub_0_r. now apply upd_loop2.
Qed.
Lemma src_vsub_assign u w : s_vsub_assign u w = vsub_assign u w.
Proof.
  unfold s_vsub_assign, vsub_assign, vsub. destruct (length u =? length w) eqn:E; cbn [negb]; [|reflexivity].
  apply Nat.eqb_eq in E. unfold for_. rewrite Nat.sub_0_r. now apply upd_loop2.
Qed.
(* all of them at once: what a Props file pins as  model_is_source_<property>  *)
Definition model_is_source_Vector : Prop :=
  (forall u w, s_dot u w = dot u w) /\
  (forall v, s_sum v = vsum v) /\
  (forall v, s_product v = vproduct v) /\
  (forall v (s e : nat), s_sum_slice v s e = sum_slice v s e) /\
  (forall v (s e : nat), s_product_slice v s e = product_slice v s e) /\
  (forall v, s_norm_1 v = Ok (norm_1 v)) /\
  (forall v, s_vabs v = Ok (vabs v)) /\
  (forall v x, s_assign v x = Ok (vassign v x)) /\
  (forall v, s_vneg v = Ok (vneg v)) /\
  (forall v s, s_vadd_scalar v s = Ok (vadd_scalar v s)) /\
  (forall v s, s_vsub_scalar v s = Ok (vsub_scalar v s)) /\
  (forall v s, s_vmul_scalar v s = Ok (vmul_scalar v s)) /\
  (forall v s, s_vdiv_scalar v s = vdiv_scalar v s) /\
  (forall v s, s_vscale v s = Ok (vscale v s)) /\
  (forall s v, s_vscale_l s v = Ok (vscale_l s v)) /\
  (forall v s, s_vdiv v s = vdiv v s) /\
  (forall u w, s_vadd u w = vadd u w) /\
  (forall u w, s_vsub u w = vsub u w) /\
  (forall u w, s_vadd_assign u w = vadd_assign u w) /\
  (forall u w, s_vsub_assign u w = vsub_assign u w).
Lemma model_is_source_Vector_lemma : model_is_source_Vector.
Proof. exact (conj src_dot (conj src_sum (conj src_product (conj src_sum_slice (conj src_product_slice (conj src_norm_1 (conj src_vabs (conj src_assign (conj src_vneg (conj src_vadd_scalar (conj src_vsub_scalar (conj src_vmul_scalar (conj src_vdiv_scalar (conj src_vscale (conj src_vscale_l (conj src_vdiv (conj src_vadd (conj src_vsub (conj src_vadd_assign src_vsub_assign))))))))))))))))))). Qed.

End SrcEqVector.
