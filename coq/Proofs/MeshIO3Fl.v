(* Proofs/MeshIO3Fl.v -- the SECOND rounding of the real pipeline.  Mesh1D::read parses with
   f64::from_str, which rounds the decimal it reads to the nearest binary64; so on f64 data the
   value read back is  fl (rnd_fix N x)  where rnd_fix N is the decimal rounding of the formatter
   (Proofs/MeshIO3Fmt.v) and fl the rounding of the parser.  Here fl is an ARBITRARY function on
   the rationals (Section variable); what is needed of it is stated where it is needed:
     - nothing, for "the mesh read back is the written mesh with every entry replaced by
       fl (rnd_fix N entry)";
     - |fl d - d| < 10^-N / 2 at the decimals d that are printed, for "the second file is the first
       file and a second round trip changes nothing" -- the decimal printed for fl d is d again.
       With a relative error bound  |fl y - y| <= u |y|  (binary64: u = 2^-53, barring
       overflow/underflow) that is  u |d| < 10^-N / 2, i.e. |d| < 10^-N / (2u): for N = 6,
       |d| < 4.5e9;
     - or, with NO bound on the magnitude (Section Proj): the data lie in a set F and fl y is at
       least as close to y as every element of F (round to nearest onto the binary64 numbers).
       Then the parser's result on the decimal printed for x in F is at most as far from it as x,
       and at a tie the printed last digit is even, so it is printed as the same decimal again.
   That fl maps into the binary64 numbers is not used. *)
From Coq Require Import ZArith QArith Qabs Qcanon Lia Lqa Bool List Arith.
From OV Require Import Base.Panic.
From OV Require Import Base.Arith.
From OV Require Import Inst.QcInst.
From OV Require Import Model.Vector.
From OV Require Import Model.Matrix.
From OV Require Import Model.Mesh.
From OV Require Import Proofs.MeshBase.
From OV Require Import Proofs.MeshStore.
From OV Require Import Proofs.MeshIO.
From OV Require Import Proofs.MeshIO2.
From OV Require Import Proofs.MeshIO3.
From OV Require Import Proofs.MeshIO3Fmt.
From OV Require Import Proofs.MeshIO3Inst.
Import ListNotations.
Local Open Scope Q_scope.

(* ------------------------------------------------------------------ nearest integer, strictly *)
Lemma rneQ_near q n : Qabs (q - inject_Z n) < 1 # 2 -> rneQ q = n.
Proof.
  intros H. apply Qabs_Qlt_condition in H. destruct H as [H1 H2].
  pose proof (rneQ_err q) as [E1 E2].
  assert (L : (n < rneQ q + 1)%Z).
  { rewrite Zlt_Qlt. rewrite inject_Z_plus. change (inject_Z 1) with 1. lra. }
  assert (U : (rneQ q < n + 1)%Z).
  { rewrite Zlt_Qlt. rewrite inject_Z_plus. change (inject_Z 1) with 1. lra. }
  lia.
Qed.

(* at a tie: the even neighbour *)
Lemma rneQ_near_even q n : Qabs (q - inject_Z n) <= 1 # 2 -> Z.even n = true -> rneQ q = n.
Proof.
  intros H Hev. apply Qabs_Qle_condition in H. destruct H as [H1 H2].
  pose proof (rneQ_err q) as [E1 E2]. set (r := rneQ q) in *.
  assert (L : (n <= r + 1)%Z).
  { rewrite Zle_Qle. rewrite inject_Z_plus. change (inject_Z 1) with 1. lra. }
  assert (U : (r <= n + 1)%Z).
  { rewrite Zle_Qle. rewrite inject_Z_plus. change (inject_Z 1) with 1. lra. }
  destruct (Z.eq_dec r n) as [E|E]; [exact E|]. exfalso.
  assert (Hcase : r = (n + 1)%Z \/ r = (n - 1)%Z) by lia.
  assert (Hodd : Z.even r = false).
  { destruct Hcase as [-> | ->].
    - rewrite Z.even_add, Hev. reflexivity.
    - rewrite Z.even_sub, Hev. reflexivity. }
  assert (Htie : Qabs (inject_Z r - q) == 1 # 2).
  { destruct Hcase as [Er | Er].
    - assert (Ei : inject_Z r == inject_Z n + 1)
        by (rewrite Er, inject_Z_plus; reflexivity).
      assert (Eq : inject_Z r - q == 1 # 2) by lra. rewrite Eq. reflexivity.
    - assert (Ei : inject_Z r == inject_Z n - 1)
        by (rewrite Er; unfold Z.sub; rewrite inject_Z_plus; reflexivity).
      assert (Eq : inject_Z r - q == - (1 # 2)) by lra. rewrite Eq. reflexivity. }
  pose proof (rneQ_half_even q Htie) as Hev'. fold r in Hev'. congruence.
Qed.

(* a number within half a unit of the last digit of a decimal d = z / 10^N whose digits round to
   those of d prints as d *)
Lemma fmt_fixQ_close N z y :
  Qabs (y - inject_Z z / inject_Z (p10 N)) <= (1 # 2) / inject_Z (p10 N) ->
  fixn N y = Z.abs z ->
  fmt_fixQ N y = fmt_fixQ N (inject_Z z / inject_Z (p10 N)).
Proof.
  intros H Hn. pose proof (p10Q_pos N) as Hp. set (p := inject_Z (p10 N)) in *.
  set (h := (1 # 2) / p) in *. set (d := inject_Z z / p) in *.
  assert (Hh0 : 0 < h) by (unfold h; apply Qlt_shift_div_l; lra).
  assert (Hd : d * p == inject_Z z) by (unfold d; field; lra).
  assert (Ed : fmt_fixQ N d = FTok (z <? 0)%Z (Z.abs z)).
  { assert (E' : d == val_fix N (FTok (z <? 0)%Z (Z.abs z))).
    { unfold val_fix, d, p. cbn [ft_neg ft_int]. destruct (Z.ltb_spec z 0).
      - now rewrite Z.abs_neq, Z.opp_involutive by lia.
      - now rewrite Z.abs_eq by lia. }
    rewrite (fmt_fixQ_proper N _ _ E'). apply fmt_fixQ_canonical; [lia|].
    intros Hs. apply Z.ltb_lt in Hs. lia. }
  rewrite Ed. apply Qabs_Qle_condition in H. destruct H as [H1 H2].
  unfold fmt_fixQ. rewrite Hn. f_equal.
  assert (H2h : h * 2 * p == 1) by (unfold h; field; lra).
  destruct (Z.ltb_spec z 0) as [Hz|Hz].
  - destruct (Z.eqb_spec (Z.abs z) 0); [lia|]. cbn [negb]. rewrite andb_true_r.
    apply Qneg_true.
    assert (inject_Z z <= -1) by (change (-1) with (inject_Z (-1)); rewrite <- Zle_Qle; lia).
    assert (d * p <= - (h * 2 * p)) by (rewrite Hd, H2h; lra).
    assert (d <= - (h * 2)).
    { apply (Qmult_le_r _ _ p Hp). setoid_replace (- (h * 2) * p) with (- (h * 2 * p)) by ring. exact H0. }
    lra.
  - destruct (Z.eqb_spec (Z.abs z) 0) as [E|E]; cbn [negb]; [apply andb_false_r|].
    rewrite andb_true_r. apply Qneg_false.
    assert (1 <= inject_Z z) by (change 1 with (inject_Z 1); rewrite <- Zle_Qle; lia).
    assert (h * 2 * p <= d * p) by (rewrite Hd, H2h; lra).
    assert (h * 2 <= d) by (apply (Qmult_le_r _ _ p Hp); exact H0).
    lra.
Qed.

(* the digits of a number at distance a from the decimal d *)
Lemma scaled_dist N z y :
  Qabs (Qabs y * inject_Z (p10 N) - inject_Z (Z.abs z)) <=
  Qabs (y - inject_Z z / inject_Z (p10 N)) * inject_Z (p10 N).
Proof.
  pose proof (p10Q_pos N) as Hp. set (p := inject_Z (p10 N)) in *. set (d := inject_Z z / p).
  assert (Habs_d : Qabs d == inject_Z (Z.abs z) / p).
  { unfold d, Qdiv. rewrite Qabs_Qmult, (Qabs_pos (/ p)) by (apply Qlt_le_weak, Qinv_lt_0_compat; exact Hp).
    reflexivity. }
  setoid_replace (Qabs y * p - inject_Z (Z.abs z)) with ((Qabs y - Qabs d) * p)
    by (rewrite Habs_d; field; lra).
  rewrite Qabs_Qmult, (Qabs_pos p) by lra. apply Qmult_le_compat_r; [|lra].
  apply Qabs_Qle_condition. split.
  - pose proof (Qabs_triangle_reverse d y) as T. rewrite (Qabs_Qminus d y) in T. lra.
  - pose proof (Qabs_triangle_reverse y d) as T. lra.
Qed.

(* strictly within half a unit of the last digit of a decimal d: prints as d *)
Lemma fmt_fixQ_near N z y :
  Qabs (y - inject_Z z / inject_Z (p10 N)) < (1 # 2) / inject_Z (p10 N) ->
  fmt_fixQ N y = fmt_fixQ N (inject_Z z / inject_Z (p10 N)).
Proof.
  intros H. pose proof (p10Q_pos N) as Hp. apply fmt_fixQ_close; [lra|].
  unfold fixn. apply rneQ_near. eapply Qle_lt_trans; [apply scaled_dist|].
  setoid_replace (1 # 2) with ((1 # 2) / inject_Z (p10 N) * inject_Z (p10 N)) by (field; lra).
  apply Qmult_lt_r; assumption.
Qed.

(* exactly half a unit away from a decimal whose last digit is even: prints as it too *)
Lemma fmt_fixQ_near_even N z y :
  Qabs (y - inject_Z z / inject_Z (p10 N)) <= (1 # 2) / inject_Z (p10 N) -> Z.even z = true ->
  fmt_fixQ N y = fmt_fixQ N (inject_Z z / inject_Z (p10 N)).
Proof.
  intros H Hev. pose proof (p10Q_pos N) as Hp. apply fmt_fixQ_close; [exact H|].
  unfold fixn. apply rneQ_near_even.
  - eapply Qle_trans; [apply scaled_dist|].
    setoid_replace (1 # 2) with ((1 # 2) / inject_Z (p10 N) * inject_Z (p10 N)) by (field; lra).
    apply Qmult_le_compat_r; [exact H | lra].
  - destruct z; cbn [Z.abs]; exact Hev.
Qed.

(* ================================================================== a parser that rounds *)
Section Fl.
Variable fl : Qc -> Qc.

Definition parse_fix_fl (N : nat) (t : ftok) : res Qc := let* y := parse_fix N t in Ok (fl y).
Definition rnd_fix_fl (N : nat) (x : Qc) : Qc := fl (rnd_fix N x).

Lemma parse_fmt_fix_fl N x : parse_fix_fl N (fmt_fix N x) = Ok (rnd_fix_fl N x).
Proof. unfold parse_fix_fl. now rewrite parse_fmt_fix. Qed.

(* the decimal printed for x, as an integer over 10^N *)
Lemma rnd_fix_decimal N (x : Qc) : exists z : Z, rnd_fix N x == inject_Z z / inject_Z (p10 N).
Proof. eexists. unfold rnd_fix. rewrite Q2Qc_this. unfold val_fix. reflexivity. Qed.

Lemma fmt_rnd_fix_fl N (x : Qc) :
  Qabs (fl (rnd_fix N x) - rnd_fix N x) < (1 # 2) / inject_Z (p10 N) ->
  fmt_fix N (rnd_fix_fl N x) = fmt_fix N x.
Proof.
  intros H. rewrite <- (fmt_rnd_fix N x). destruct (rnd_fix_decimal N x) as (z & Ez).
  unfold fmt_fix, rnd_fix_fl. rewrite (fmt_fixQ_proper N _ _ Ez). apply fmt_fixQ_near.
  now rewrite <- Ez.
Qed.

Lemma rnd_fix_fl_err N (x : Qc) :
  Qabs (rnd_fix_fl N x - x) <= (1 # 2) / inject_Z (p10 N) + Qabs (fl (rnd_fix N x) - rnd_fix N x).
Proof.
  unfold rnd_fix_fl. pose proof (rnd_fix_err N x) as E.
  setoid_replace (fl (rnd_fix N x) - x) with ((fl (rnd_fix N x) - rnd_fix N x) + (rnd_fix N x - x))
    by ring.
  eapply Qle_trans; [apply Qabs_triangle|]. lra.
Qed.

Notation meshQ := (mesh1 AQ AQ).

(* the mesh read back: every entry rounded to N decimals, then by the parser -- no hypothesis on fl *)
Lemma file_roundtrip_fix_fl (N : nat) (m m0 : meshQ) :
  wf1 m -> m1_nvars m0 = m1_nvars m ->
  Forall (fun r => length r = m1_nvars m0) (m1_vars m0) ->
  (let* lines := @output1 AQ AQ ftok (fmt_fix N) (fmt_fix N) m in
   @read1 AQ ftok (parse_fix_fl N) m0 (concat lines)) = Ok (map_mesh1 (A:=AQ) (rnd_fix_fl N) m).
Proof.
  apply (read_layout_roundtrip_rounded (A:=AQ) ftok (fmt_fix N) (parse_fix_fl N) (rnd_fix_fl N)).
  apply parse_fmt_fix_fl.
Qed.

(* second file = first file, second round trip = identity, when the parser's rounding of every
   printed decimal stays strictly within half a unit of the last digit *)
Lemma file_roundtrip_fix_fl_twice (N : nat) (m m0 m1 : meshQ) :
  (forall x : Qc, In x (m1_nodes m ++ concat (m1_vars m)) ->
     Qabs (fl (rnd_fix N x) - rnd_fix N x) < (1 # 2) / inject_Z (p10 N)) ->
  wf1 m -> m1_nvars m0 = m1_nvars m -> m1_nvars m1 = m1_nvars m ->
  Forall (fun r => length r = m1_nvars m0) (m1_vars m0) ->
  Forall (fun r => length r = m1_nvars m1) (m1_vars m1) ->
  exists lines m',
    @output1 AQ AQ ftok (fmt_fix N) (fmt_fix N) m = Ok lines /\
    @read1 AQ ftok (parse_fix_fl N) m0 (concat lines) = Ok m' /\
    m' = map_mesh1 (A:=AQ) (rnd_fix_fl N) m /\
    @output1 AQ AQ ftok (fmt_fix N) (fmt_fix N) m' = Ok lines /\
    @read1 AQ ftok (parse_fix_fl N) m1 (concat lines) = Ok m'.
Proof.
  intros Hfl. apply (roundtrip_twice_on (A:=AQ) ftok (fmt_fix N) (parse_fix_fl N) (rnd_fix_fl N)).
  - intros x _. apply parse_fmt_fix_fl.
  - intros x Hx. apply fmt_rnd_fix_fl. now apply Hfl.
Qed.

(* with a relative error bound on the parser's rounding: entries below 10^-N / (2u) *)
Variable u : Q.
Hypothesis fl_rel : forall y : Qc, Qabs (fl y - y) <= u * Qabs y.

Lemma fl_close_of_rel N (x : Qc) :
  u * Qabs (rnd_fix N x) < (1 # 2) / inject_Z (p10 N) ->
  Qabs (fl (rnd_fix N x) - rnd_fix N x) < (1 # 2) / inject_Z (p10 N).
Proof. intros H. eapply Qle_lt_trans; [apply fl_rel | exact H]. Qed.

Lemma file_roundtrip_fix_fl_twice_rel (N : nat) (m m0 m1 : meshQ) :
  (forall x : Qc, In x (m1_nodes m ++ concat (m1_vars m)) ->
     u * Qabs (rnd_fix N x) < (1 # 2) / inject_Z (p10 N)) ->
  wf1 m -> m1_nvars m0 = m1_nvars m -> m1_nvars m1 = m1_nvars m ->
  Forall (fun r => length r = m1_nvars m0) (m1_vars m0) ->
  Forall (fun r => length r = m1_nvars m1) (m1_vars m1) ->
  exists lines m',
    @output1 AQ AQ ftok (fmt_fix N) (fmt_fix N) m = Ok lines /\
    @read1 AQ ftok (parse_fix_fl N) m0 (concat lines) = Ok m' /\
    m' = map_mesh1 (A:=AQ) (rnd_fix_fl N) m /\
    @output1 AQ AQ ftok (fmt_fix N) (fmt_fix N) m' = Ok lines /\
    @read1 AQ ftok (parse_fix_fl N) m1 (concat lines) = Ok m'.
Proof.
  intros Hb. apply file_roundtrip_fix_fl_twice. intros x Hx. apply fl_close_of_rel. now apply Hb.
Qed.

(* to the printed precision: |read back - written| <= 10^-N / 2 + u |printed decimal| *)
Lemma rnd_fix_fl_err_rel N (x : Qc) :
  Qabs (rnd_fix_fl N x - x) <= (1 # 2) / inject_Z (p10 N) + u * Qabs (rnd_fix N x).
Proof.
  eapply Qle_trans; [apply rnd_fix_fl_err|]. pose proof (fl_rel (rnd_fix N x)). lra.
Qed.

End Fl.

(* ------------------------------------------------------------------ two parsers that do round *)
(* to the nearest multiple of 2^-20 (ties to even): absolute error <= 2^-21 *)
Definition fl_bin20 (y : Qc) : Qc := Q2Qc (inject_Z (rneQ (y * inject_Z (2 ^ 20))) / inject_Z (2 ^ 20)).

Lemma fl_bin20_err (y : Qc) : Qabs (fl_bin20 y - y) <= 1 # 2097152.
Proof.
  unfold fl_bin20. rewrite Q2Qc_this. set (p := inject_Z (2 ^ 20)).
  assert (Hp : 0 < p) by reflexivity.
  setoid_replace (inject_Z (rneQ (y * p)) / p - y) with ((inject_Z (rneQ (y * p)) - y * p) / p)
    by (field; lra).
  unfold Qdiv. rewrite Qabs_Qmult, (Qabs_pos (/ p)) by (apply Qlt_le_weak, Qinv_lt_0_compat; exact Hp).
  setoid_replace (1 # 2097152) with ((1 # 2) * / p) by reflexivity.
  apply Qmult_le_compat_r; [apply rneQ_abs_err | apply Qlt_le_weak, Qinv_lt_0_compat; exact Hp].
Qed.

(* a relative perturbation of exactly u = 2^-30 *)
Definition fl_scale (y : Qc) : Qc := Q2Qc (y * (1 + (1 # 1073741824))).

Lemma fl_scale_rel (y : Qc) : Qabs (fl_scale y - y) <= (1 # 1073741824) * Qabs y.
Proof.
  unfold fl_scale. rewrite Q2Qc_this.
  setoid_replace (y * (1 + (1 # 1073741824)) - y) with ((1 # 1073741824) * y) by ring.
  rewrite Qabs_Qmult. apply Qle_refl.
Qed.

Example fl_bin20_run :
  meshQ_view (let* lines := @output1 AQ AQ ftok (fmt_fix 2) (fmt_fix 2) ex_r in
              @read1 AQ ftok (parse_fix_fl fl_bin20 2) ex_r0 (concat lines)) =
  meshQ_view (Ok (map_mesh1 (A:=AQ) (rnd_fix_fl fl_bin20 2) ex_r)) /\
  this (rnd_fix_fl fl_bin20 2 (q 1 3)) = 173015 # 524288 /\
  fmt_fix 2 (rnd_fix_fl fl_bin20 2 (q 1 3)) = FTok false 33.
Proof. split; [|split]; vm_compute; reflexivity. Qed.

(* ================================================================== a parser that rounds TO NEAREST
   onto a set F of representable numbers containing the data (binary64: F = the finite floats,
   fl = the correctly rounded from_str): no bound on the magnitude of the entries is needed.
   For x in F the parser's result fl d on the printed decimal d is at least as close to d as x is;
   so it is within half a unit of the last digit of d, and exactly half a unit away only if x was a
   tie -- and then the last digit of d is even, so the tie fl d is printed as d again. *)
Section Proj.
Variable fl : Qc -> Qc.
Variable F : Qc -> Prop.
Hypothesis fl_nearest : forall y f : Qc, F f -> Qabs (fl y - y) <= Qabs (f - y).

Lemma fmt_rnd_fix_proj N (x : Qc) : F x -> fmt_fix N (rnd_fix_fl fl N x) = fmt_fix N x.
Proof.
  intros HF. pose proof (p10Q_pos N) as Hp.
  rewrite <- (fmt_rnd_fix N x). unfold rnd_fix_fl, fmt_fix.
  pose proof (fl_nearest (rnd_fix N x) x HF) as Hnear.
  pose proof (rnd_fix_err N x) as Herr. rewrite (Qabs_Qminus (x : Q) (rnd_fix N x)) in Hnear.
  (* the printed decimal as z / 10^N, z = +- its digits *)
  set (n := fixn N x).
  set (z := if ft_neg (fmt_fix N x) then (- n)%Z else n).
  assert (Ez : rnd_fix N x == inject_Z z / inject_Z (p10 N)).
  { unfold rnd_fix. rewrite Q2Qc_this. unfold val_fix. reflexivity. }
  rewrite (fmt_fixQ_proper N (rnd_fix N x) _ Ez).
  destruct (Qlt_le_dec (Qabs (fl (rnd_fix N x) - rnd_fix N x)) ((1 # 2) / inject_Z (p10 N)))
    as [Hlt|Hge].
  - apply fmt_fixQ_near. now rewrite <- Ez.
  - apply fmt_fixQ_near_even; [rewrite <- Ez; lra|].
    assert (Htie : Qabs (rnd_fix N x - x) == (1 # 2) / inject_Z (p10 N)) by (apply Qle_antisym; lra).
    unfold rnd_fix in Htie. rewrite Q2Qc_this in Htie.
    pose proof (fix_tie_even N x Htie) as Hev. fold n in Hev.
    unfold z. destruct (ft_neg (fmt_fix N x)); [now rewrite Z.even_opp | exact Hev].
Qed.

Notation meshQ := (mesh1 AQ AQ).

Lemma file_roundtrip_fix_proj_twice (N : nat) (m m0 m1 : meshQ) :
  (forall x : Qc, In x (m1_nodes m ++ concat (m1_vars m)) -> F x) ->
  wf1 m -> m1_nvars m0 = m1_nvars m -> m1_nvars m1 = m1_nvars m ->
  Forall (fun r => length r = m1_nvars m0) (m1_vars m0) ->
  Forall (fun r => length r = m1_nvars m1) (m1_vars m1) ->
  exists lines m',
    @output1 AQ AQ ftok (fmt_fix N) (fmt_fix N) m = Ok lines /\
    @read1 AQ ftok (parse_fix_fl fl N) m0 (concat lines) = Ok m' /\
    m' = map_mesh1 (A:=AQ) (rnd_fix_fl fl N) m /\
    @output1 AQ AQ ftok (fmt_fix N) (fmt_fix N) m' = Ok lines /\
    @read1 AQ ftok (parse_fix_fl fl N) m1 (concat lines) = Ok m'.
Proof.
  intros HF. apply (roundtrip_twice_on (A:=AQ) ftok (fmt_fix N) (parse_fix_fl fl N) (rnd_fix_fl fl N)).
  - intros x _. apply parse_fmt_fix_fl.
  - intros x Hx. apply fmt_rnd_fix_proj. now apply HF.
Qed.

(* and every entry read back is within one unit of the last digit of the entry written
   (half a unit from the formatter, at most as much again from the parser) *)
Lemma rnd_fix_proj_err N (x : Qc) :
  F x -> Qabs (rnd_fix_fl fl N x - x) <= 1 / inject_Z (p10 N).
Proof.
  intros HF. pose proof (p10Q_pos N) as Hp.
  eapply Qle_trans; [apply rnd_fix_fl_err|].
  pose proof (fl_nearest (rnd_fix N x) x HF) as Hnear.
  rewrite (Qabs_Qminus (x : Q) (rnd_fix N x)) in Hnear.
  pose proof (rnd_fix_err N x) as Herr.
  setoid_replace (1 / inject_Z (p10 N)) with ((1 # 2) / inject_Z (p10 N) + (1 # 2) / inject_Z (p10 N))
    by (field; lra).
  lra.
Qed.

End Proj.

(* a witness: F = the multiples of 1/8 (three binary digits after the point), fl = nearest multiple
   of 1/8.  12.125 is a tie at two decimals: printed 12.12, read as 12.125 again. *)
Definition F8 (x : Qc) : Prop := exists k : Z, x == inject_Z k / 8.
Definition fl8 (y : Qc) : Qc := Q2Qc (inject_Z (rneQ (y * 8)) / 8).

Lemma fl8_nearest (y f : Qc) : F8 f -> Qabs (fl8 y - y) <= Qabs (f - y).
Proof.
  intros (k & Ek). unfold fl8. rewrite Q2Qc_this, Ek.
  set (r := rneQ (y * 8)).
  setoid_replace (inject_Z r / 8 - y) with ((inject_Z r - y * 8) / 8) by field.
  setoid_replace (inject_Z k / 8 - y) with ((inject_Z k - y * 8) / 8) by field.
  unfold Qdiv. rewrite !Qabs_Qmult. apply Qmult_le_compat_r; [|discriminate].
  (* the nearest integer is at least as near as any integer *)
  pose proof (rneQ_err (y * 8)) as [E1 E2]. fold r in E1, E2.
  destruct (Z.eq_dec k r) as [->|Hne]; [apply Qle_refl|].
  apply Qle_trans with (1 # 2); [apply rneQ_abs_err|].
  apply Qabs_case; intros Hs.
  - assert (r < k)%Z.
    { destruct (Z_lt_le_dec r k) as [L|L]; [exact L|]. exfalso.
      assert (k + 1 <= r)%Z by lia. rewrite Zle_Qle, inject_Z_plus in H. change (inject_Z 1) with 1 in H. lra. }
    assert (r + 1 <= k)%Z by lia. rewrite Zle_Qle, inject_Z_plus in H0. change (inject_Z 1) with 1 in H0. lra.
  - assert (k < r)%Z.
    { destruct (Z_lt_le_dec k r) as [L|L]; [exact L|]. exfalso.
      assert (r + 1 <= k)%Z by lia. rewrite Zle_Qle, inject_Z_plus in H. change (inject_Z 1) with 1 in H. lra. }
    assert (k + 1 <= r)%Z by lia. rewrite Zle_Qle, inject_Z_plus in H0. change (inject_Z 1) with 1 in H0. lra.
Qed.

Definition ex_f8 : mesh1 AQ AQ :=
  @mkM1 AQ Qc 1 [q 97 8; q (-3) 8; q 1000001 8] [[q 1 8]; [q 5 1]; [q (-7) 8]].

Example proj_run :
  (forall x : Qc, In x (m1_nodes ex_f8 ++ concat (m1_vars ex_f8)) -> F8 x) /\
  fmt_fix 2 (q 97 8) = FTok false 1212 /\
  this (rnd_fix_fl fl8 2 (q 97 8)) = 97 # 8 /\
  this (rnd_fix 2 (q 97 8)) = 303 # 25.
Proof.
  split; [|split; [|split]]; try (vm_compute; reflexivity).
  intros x Hx. cbn in Hx.
  repeat (destruct Hx as [<-|Hx];
          [first [ exists 97%Z; reflexivity | exists (-3)%Z; reflexivity | exists 1000001%Z; reflexivity
                 | exists 1%Z; reflexivity | exists 40%Z; reflexivity | exists (-7)%Z; reflexivity ]|]).
  destruct Hx.
Qed.
