(* Proofs/CFun.v -- stub, to be filled in *)
