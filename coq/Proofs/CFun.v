(* Proofs/CFun.v -- real-analysis lemmas about the model Model/CFun.v: modulus/argument decomposition,
   exp/ln, sqrt, principal ranges, powers, polar form. *)
From Coq Require Import Reals Lra.
From OV Require Import Model.CFun Proofs.CFunArg.
Local Open Scope R_scope.

(* ---------- pairs ---------- *)
Lemma C_eta (z : C) : z = (re z, im z).
Proof. destruct z; reflexivity. Qed.

Lemma C_ext (z : C) a b : a = re z -> b = im z -> (a, b) = z.
Proof. destruct z; cbn [re im fst snd]; intros; subst; reflexivity. Qed.

Lemma C_neq0 (z : C) : z <> czero <-> (re z <> 0 \/ im z <> 0).
Proof.
  destruct z as [x y]; unfold czero; cbn [re im fst snd]. split.
  - intros H. destruct (Req_dec x 0) as [Hx|Hx]; [|left; exact Hx].
    destruct (Req_dec y 0) as [Hy|Hy]; [|right; exact Hy].
    exfalso; apply H; subst; reflexivity.
  - intros [H|H] E; inversion E; contradiction.
Qed.

Lemma abs_sqr_nonneg z : 0 <= abs_sqr z.
Proof. unfold abs_sqr. nra. Qed.

Lemma abs_sqr_pos z : z <> czero -> 0 < abs_sqr z.
Proof. intros H. apply C_neq0 in H. unfold abs_sqr. destruct H; nra. Qed.

Lemma abs_sqr_neq0 z : z <> czero -> abs_sqr z <> 0.
Proof. intros H. apply abs_sqr_pos in H. lra. Qed.

Lemma cabs_pos z : z <> czero -> 0 < cabs z.
Proof. intros H. unfold cabs. apply sqrt_lt_R0, abs_sqr_pos, H. Qed.

Lemma cabs_nonneg z : 0 <= cabs z.
Proof. unfold cabs. apply sqrt_pos. Qed.

Lemma cabs_sqr z : cabs z * cabs z = abs_sqr z.
Proof. unfold cabs. apply sqrt_sqrt, abs_sqr_nonneg. Qed.

(* ---------- modulus / argument ---------- *)
Lemma sqrt_factor x y : 0 < x -> sqrt (x * x + y * y) = x * sqrt (1 + (y / x)²).
Proof.
  intros Hx.
  replace (x * x + y * y) with (x * x * (1 + (y / x)²)) by (unfold Rsqr; field; lra).
  rewrite sqrt_mult_alt by nra. rewrite sqrt_square by lra. reflexivity.
Qed.

Lemma sqrt_1_sqr_pos t : 0 < sqrt (1 + t²).
Proof. apply sqrt_lt_R0. unfold Rsqr. nra. Qed.

Lemma polar_xpos x y : 0 < x ->
  sqrt (x * x + y * y) * cos (atan (y / x)) = x /\ sqrt (x * x + y * y) * sin (atan (y / x)) = y.
Proof.
  intros Hx. rewrite sqrt_factor by assumption. rewrite cos_atan, sin_atan.
  pose proof (sqrt_1_sqr_pos (y / x)) as Hs.
  split; field; lra.
Qed.

Lemma atan_nonpos t : t <= 0 -> atan t <= 0.
Proof.
  intros [H|H].
  - left. rewrite <- atan_0. apply atan_increasing; assumption.
  - subst. rewrite atan_0. lra.
Qed.

Lemma atan_pos t : 0 < t -> 0 < atan t.
Proof. intros H. rewrite <- atan_0. apply atan_increasing; assumption. Qed.

Lemma div_neg_nonneg x y : x < 0 -> 0 <= y -> y / x <= 0.
Proof. intros Hx Hy. pose proof (Rinv_lt_0_compat x Hx). unfold Rdiv. nra. Qed.

Lemma div_neg_neg x y : x < 0 -> y < 0 -> 0 < y / x.
Proof. intros Hx Hy. pose proof (Rinv_lt_0_compat x Hx). unfold Rdiv. nra. Qed.

Lemma polar_decomp_lemma z : z <> czero ->
  cabs z * cos (arg z) = re z /\ cabs z * sin (arg z) = im z /\ - PI < arg z <= PI.
Proof.
  intros Hz. apply C_neq0 in Hz. destruct z as [x y]. unfold cabs, arg, abs_sqr in *. cbn [re im fst snd] in *.
  pose proof PI_RGT_0 as Hpi.
  destruct (Rtotal_order x 0) as [Hx | [Hx | Hx]].
  - (* x < 0 *)
    assert (Hnx : 0 < - x) by lra.
    destruct (polar_xpos (- x) (- y) Hnx) as [Hc Hs].
    replace (- x * - x + - y * - y) with (x * x + y * y) in Hc, Hs by ring.
    replace (- y / - x) with (y / x) in Hc, Hs by (field; lra).
    pose proof (atan_bound (y / x)) as Hb.
    destruct (Rle_dec 0 y) as [Hy | Hy].
    + rewrite atan2_xneg_ynonneg by assumption.
      rewrite neg_cos, neg_sin.
      pose proof (atan_nonpos _ (div_neg_nonneg x y Hx Hy)).
      repeat split; lra.
    + assert (Hy' : y < 0) by lra.
      rewrite atan2_xneg_yneg by assumption.
      replace (atan (y / x) - PI) with (- (PI - atan (y / x))) by ring.
      rewrite cos_neg, sin_neg.
      replace (PI - atan (y / x)) with (- atan (y / x) + PI) by ring.
      rewrite neg_cos, neg_sin, cos_neg, sin_neg.
      pose proof (atan_pos _ (div_neg_neg x y Hx Hy')).
      repeat split; lra.
  - (* x = 0 *)
    subst x. replace (0 * 0 + y * y) with (y * y) by ring.
    destruct Hz as [Hz | Hz]; [lra|].
    destruct (Rtotal_order y 0) as [Hy | [Hy | Hy]]; [| lra |].
    + rewrite atan2_x0_yneg by lra.
      rewrite cos_neg, sin_neg, cos_PI2, sin_PI2.
      replace (y * y) with (- y * - y) by ring. rewrite sqrt_square by lra.
      repeat split; lra.
    + rewrite atan2_x0_ypos by lra.
      rewrite cos_PI2, sin_PI2, sqrt_square by lra.
      repeat split; lra.
  - (* 0 < x *)
    rewrite atan2_xpos by assumption.
    destruct (polar_xpos x y Hx) as [Hc Hs].
    pose proof (atan_bound (y / x)) as Hb.
    repeat split; lra.
Qed.

Lemma arg_range z : - PI < arg z <= PI.
Proof.
  destruct (C_neq0 z) as [_ H].
  destruct (Req_dec (re z) 0) as [Hx|Hx]; [destruct (Req_dec (im z) 0) as [Hy|Hy]|].
  - unfold arg. rewrite Hx, Hy, atan2_0_0. pose proof PI_RGT_0. lra.
  - apply polar_decomp_lemma, H; right; exact Hy.
  - apply polar_decomp_lemma, H; left; exact Hx.
Qed.

(* z = |z| (cos (arg z), sin (arg z)) *)
Lemma polar_form z : z <> czero -> z = cmul_r (cos (arg z), sin (arg z)) (cabs z).
Proof.
  intros Hz. destruct (polar_decomp_lemma z Hz) as (Hc & Hs & _).
  rewrite (C_eta z) at 1. unfold cmul_r. cbn [re im fst snd].
  f_equal; lra.
Qed.

(* ---------- exp / ln ---------- *)
Lemma exp_ln_lemma z : z <> czero -> cexp (cln z) = z.
Proof.
  intros Hz. destruct (polar_decomp_lemma z Hz) as (Hc & Hs & _).
  unfold cexp, cln. cbn [re im fst snd].
  rewrite exp_ln by (apply cabs_pos, Hz).
  apply C_ext; assumption.
Qed.

Lemma im_ln_range_lemma z : - PI < im (cln z) <= PI.
Proof. unfold cln. cbn [im snd]. apply arg_range. Qed.

(* ---------- sqrt ---------- *)
Lemma re_sqrt_nonneg_lemma z : 0 <= re (csqrt z).
Proof.
  unfold csqrt. cbn [re fst].
  apply Rmult_le_pos; [apply sqrt_pos|].
  pose proof (arg_range z). apply cos_ge_0; lra.
Qed.

Lemma sqrt_sqr_lemma z : cmul (csqrt z) (csqrt z) = z.
Proof.
  destruct (C_neq0 z) as [_ H].
  assert (Hz : z = czero \/ z <> czero).
  { destruct (Req_dec (re z) 0) as [Hx|Hx]; [destruct (Req_dec (im z) 0) as [Hy|Hy]|].
    - left. rewrite (C_eta z), Hx, Hy. reflexivity.
    - right. apply H. right; exact Hy.
    - right. apply H. left; exact Hx. }
  destruct Hz as [Hz|Hz].
  - subst z. unfold csqrt, cmul, cabs, abs_sqr, czero. cbn [re im fst snd].
    replace (0 * 0 + 0 * 0) with 0 by ring. rewrite sqrt_0, sqrt_0. f_equal; ring.
  - destruct (polar_decomp_lemma z Hz) as (Hc & Hs & _).
    unfold csqrt, cmul. cbn [re im fst snd].
    set (t := arg z) in *. set (r := cabs z) in *.
    assert (Hr : sqrt r * sqrt r = r) by (apply sqrt_sqrt, cabs_nonneg).
    set (s := sqrt r) in *.
    assert (Hcos : cos t = cos (1 / 2 * t) * cos (1 / 2 * t) - sin (1 / 2 * t) * sin (1 / 2 * t)).
    { replace t with (1 / 2 * t + 1 / 2 * t) at 1 by field. apply cos_plus. }
    assert (Hsin : sin t = 2 * sin (1 / 2 * t) * cos (1 / 2 * t)).
    { replace t with (2 * (1 / 2 * t)) at 1 by field. apply sin_2a. }
    apply C_ext.
    + rewrite <- Hc, Hcos, <- Hr. ring.
    + rewrite <- Hs, Hsin, <- Hr. ring.
Qed.

(* ---------- powers ---------- *)
Lemma ln_abs_sqr z : z <> czero -> ln (abs_sqr z) = 2 * ln (cabs z).
Proof.
  intros Hz. rewrite <- cabs_sqr. pose proof (cabs_pos z Hz).
  rewrite ln_mult by assumption. ring.
Qed.

Lemma pow_is_exp_ln_lemma z w : z <> czero -> cpow z w = cexp (cmul w (cln z)).
Proof.
  intros Hz. unfold cpow, cexp, cmul, cln. cbn [re im fst snd].
  unfold Rpower. rewrite (ln_abs_sqr z Hz).
  rewrite <- exp_plus.
  replace (1 / 2 * re w * (2 * ln (cabs z)) + - im w * arg z)
    with (re w * ln (cabs z) - im w * arg z) by field.
  replace (re w * arg z + 1 / 2 * im w * (2 * ln (cabs z)))
    with (re w * arg z + im w * ln (cabs z)) by field.
  reflexivity.
Qed.

Lemma powf_is_pow_lemma z x : cpowf z x = cpow z (x, 0).
Proof.
  unfold cpowf, cpow. cbn [re im fst snd].
  replace (- 0 * arg z) with 0 by ring. rewrite exp_0.
  replace (x * arg z + 1 / 2 * 0 * ln (abs_sqr z)) with (x * arg z) by ring.
  f_equal; ring.
Qed.

(* ---------- polar form ---------- *)
Lemma polar_roundtrip_lemma z : z <> czero -> cpolar (cabs z) (arg z) = z.
Proof.
  intros Hz. destruct (polar_decomp_lemma z Hz) as (Hc & Hs & _).
  unfold cpolar. apply C_ext; assumption.
Qed.

Lemma cabs_polar r t : 0 <= r -> cabs (cpolar r t) = r.
Proof.
  intros Hr. unfold cabs, abs_sqr, cpolar. cbn [re im fst snd].
  replace (r * cos t * (r * cos t) + r * sin t * (r * sin t))
    with (r * r * ((sin t)² + (cos t)²)) by (unfold Rsqr; ring).
  rewrite sin2_cos2, Rmult_1_r. apply sqrt_square, Hr.
Qed.

(* an angle in (-PI, PI] is determined by its cosine and sine *)
Lemma angle_unique a b : - PI < a <= PI -> - PI < b <= PI -> cos a = cos b -> sin a = sin b -> a = b.
Proof.
  intros Ha Hb Hc Hs.
  assert (Hs0 : sin (a - b) = 0) by (rewrite sin_minus, Hc, Hs; ring).
  assert (Hc1 : cos (a - b) = 1).
  { rewrite cos_minus, Hc, Hs. pose proof (sin2_cos2 b) as H. unfold Rsqr in H. lra. }
  pose proof PI_RGT_0 as Hpi.
  destruct (Rle_dec 0 (a - b)) as [Hd|Hd].
  - destruct (sin_eq_O_2PI_0 (a - b)) as [H|[H|H]]; try lra.
    rewrite H, cos_PI in Hc1. lra.
  - assert (Hs0' : sin (b - a) = 0).
    { replace (b - a) with (- (a - b)) by ring. rewrite sin_neg, Hs0. ring. }
    assert (Hc1' : cos (b - a) = 1).
    { replace (b - a) with (- (a - b)) by ring. rewrite cos_neg. exact Hc1. }
    destruct (sin_eq_O_2PI_0 (b - a)) as [H|[H|H]]; try lra.
    rewrite H, cos_PI in Hc1'. lra.
Qed.

Lemma polar_neq0 r t : 0 < r -> cpolar r t <> czero.
Proof.
  intros Hr H. pose proof (cabs_polar r t (Rlt_le _ _ Hr)) as Ha.
  rewrite H in Ha. unfold cabs, abs_sqr, czero in Ha. cbn [re im fst snd] in Ha.
  replace (0 * 0 + 0 * 0) with 0 in Ha by ring. rewrite sqrt_0 in Ha. lra.
Qed.

Lemma arg_polar r t : 0 < r -> - PI < t <= PI -> arg (cpolar r t) = t.
Proof.
  intros Hr Ht.
  pose proof (polar_neq0 r t Hr) as Hz.
  destruct (polar_decomp_lemma _ Hz) as (Hc & Hs & Hrg).
  rewrite cabs_polar in Hc, Hs by lra.
  unfold cpolar in Hc at 2. unfold cpolar in Hs at 2. cbn [re im fst snd] in Hc, Hs.
  apply angle_unique; try assumption.
  - apply (Rmult_eq_reg_l r); lra.
  - apply (Rmult_eq_reg_l r); lra.
Qed.
