(* Proofs/LUReal.v -- the hypotheses of the C01/C02 theorems (FieldLaws, PivLaws) are met by the
   real numbers with Rabs and <, and by C = R[i] with Signed::abs = (|z|, 0) and the code's
   lexicographic PartialOrd (Model/Complex.v: CArith) -- proved, not assumed.  Stdlib style.
   (These instances use Coq's classical real numbers: the four standard axioms of Reals.) *)
From Coq Require Import List Reals Lra RealField Field_theory Ring_theory.
From OV Require Import Base.Panic Base.Arith Model.Complex Proofs.LUPrim.
Import ListNotations.

Definition Rltb (x y : R) : bool := if Rlt_dec x y then true else false.
Definition Rleb (x y : R) : bool := if Rle_dec x y then true else false.
Definition Reqb (x y : R) : bool := if Req_EM_T x y then true else false.

Definition AR : Arith := {|
  T := R; zero := 0%R; one := 1%R;
  add := Rplus; sub := Rminus; mul := Rmult; neg := Ropp; abs := Rabs;
  div := fun x y => if Reqb y 0%R then Panic DivZero else Ok (x * / y)%R;
  eqb := Reqb; ltb := Rltb; leb := Rleb |}.

Definition SAR : SArith := {| SA := AR; sqrt := R_sqrt.sqrt; of_nat := INR |}.

Lemma Reqb_spec (x y : R) : Reqb x y = true <-> x = y.
Proof. unfold Reqb. destruct (Req_EM_T x y); split; congruence. Qed.
Lemma Rltb_spec (x y : R) : Rltb x y = true <-> (x < y)%R.
Proof. unfold Rltb. destruct (Rlt_dec x y); split; auto; discriminate. Qed.
Lemma Rltb_false (x y : R) : Rltb x y = false <-> ~ (x < y)%R.
Proof. unfold Rltb. destruct (Rlt_dec x y); split; auto; try discriminate. contradiction. Qed.

Definition AR_FieldLaws : FieldLaws AR.
Proof.
  refine {| fl_inv := Rinv : AR -> AR |}.
  - exact Rfield.
  - exact Reqb_spec.
  - intros x y. reflexivity.
Defined.

Lemma AR_PivLaws : PivLaws AR.
Proof.
  split; cbn.
  - intros x. split.
    + intros H. destruct (Req_EM_T x 0) as [|Hn]; auto. now apply Rabs_no_R0 in Hn.
    + intros ->. apply Rabs_R0.
  - intros x Hx. apply Rltb_spec. now apply Rabs_pos_lt.
  - intros x. apply Rltb_false. intros H. pose proof (Rabs_pos x). lra.
Qed.

(* ---- C = R[i] as the code's Complex<f64> would be over exact reals ---- *)
Definition CR : Arith := CArith SAR.

Definition cinv (z : cplx AR) : cplx AR :=
  let d := (re z * re z + im z * im z)%R in @mkC AR (re z / d)%R (- im z / d)%R.

Lemma cplx_eq (a b c d : R) : a = c -> b = d -> @mkC AR a b = @mkC AR c d.
Proof. intros -> ->. reflexivity. Qed.

Lemma norm2_neq0 (a b : R) : @mkC AR a b <> @czero AR -> (a * a + b * b)%R <> 0%R.
Proof.
  intros H E. apply H. assert (a = 0)%R by nra. assert (b = 0)%R by nra. subst. reflexivity.
Qed.

Lemma CR_field : field_theory (@zero CR) one add mul sub neg (fun x y => mul x (cinv y)) cinv eq.
Proof.
  split.
  - split; cbn; intros; try destruct x as [a b]; try destruct y as [c d]; try destruct z as [e f];
      unfold cadd, cmul, csub, cneg, czero, cone; cbn; apply cplx_eq; ring.
  - cbn. unfold cone, czero. intros H. injection H as H. lra.
  - reflexivity.
  - cbn. intros [a b] H. pose proof (norm2_neq0 a b H).
    unfold cmul, cinv, cone; cbn. apply cplx_eq; field; auto.
Qed.

Lemma ceqb_spec (z w : cplx AR) : @ceqb AR z w = true <-> z = w.
Proof.
  destruct z as [a b], w as [c d]. unfold ceqb; cbn. rewrite Bool.andb_true_iff, !Reqb_spec. split.
  - intros [-> ->]. reflexivity.
  - intros H. injection H as -> ->. auto.
Qed.

Definition CR_FieldLaws : FieldLaws CR.
Proof.
  refine {| fl_inv := cinv : CR -> CR; fl_field := CR_field |}.
  - exact ceqb_spec.
  - intros [a b] [c d]. cbn. unfold cdiv, ceqb, czero, cmul, cinv; cbn. unfold Reqb.
    destruct (Req_EM_T c 0) as [Hc|Hc]; destruct (Req_EM_T d 0) as [Hd|Hd];
      destruct (Req_EM_T (c * c + d * d) 0) as [He|He]; cbn; subst;
      try reflexivity; try (exfalso; apply He; ring); try (exfalso; nra);
      f_equal; apply cplx_eq; field; auto.
Defined.

Lemma CR_PivLaws : PivLaws CR.
Proof.
  split; cbn.
  - intros [a b]. unfold abs_sqr, czero; cbn. split.
    + intros H. injection H as H.
      apply sqrt_eq_0 in H; [|nra]. assert (a = 0)%R by nra. assert (b = 0)%R by nra. subst. reflexivity.
    + intros H. injection H as -> ->. apply cplx_eq; auto.
      replace (0 * 0 + 0 * 0)%R with 0%R by ring. apply sqrt_0.
  - intros [a b] H. pose proof (norm2_neq0 a b H) as Hd.
    unfold cltb, abs_sqr, czero; cbn.
    assert (Hs : (0 < R_sqrt.sqrt (a * a + b * b))%R) by (apply sqrt_lt_R0; nra).
    replace (Reqb 0 (R_sqrt.sqrt (a * a + b * b))) with false.
    + cbn. now apply Rltb_spec.
    + symmetry. destruct (Reqb 0 (R_sqrt.sqrt (a * a + b * b))) eqn:E; auto. apply Reqb_spec in E. lra.
  - intros [a b]. unfold cltb, abs_sqr, czero; cbn.
    pose proof (sqrt_pos (a * a + b * b)) as Hs.
    destruct (Reqb (R_sqrt.sqrt (a * a + b * b)) 0); cbn; apply Rltb_false; lra.
Qed.
