(* Proofs/GuardsModelBand.v -- C20 entry contracts of the banded family (9 entries of src/banded.rs) on the
   model functions of Model/Banded.v.
   rejects_*: no well-formedness needed (the guards come first).
   accepts_*: over ANY arithmetic -- binary64 included, no ring law is used -- for every (n, m1, m2): the index
   arithmetic of the compact storage (slot m1 + j - i, the signed loop bounds of &B * &v) never leaves the buffer.
   Named preconditions:
     index / index_mut : i < n.  The band test of the code compares neither i nor j with n; an in-band pair with
                         j >= n addresses a padding slot of row i and IS accepted (returns that slot); an in-band pair
                         with i >= n falls off the buffer (Panic Index) -- the dontcare tuples of driver/guardtable.py.
     solve             : over a field, the complete outcome list for every size: the exact answer, or the division by
                         a zero pivot of its own factorisation (m1 <= n), or the index panic of the left shift (m1 > n).
   frame_*: stated on the raw compact storage (every slot, padding included), which is stronger than the
   dense-twin statements of C04. *)
From Coq Require Import ZArith Bool Lia ZifyBool List Arith.
From OV Require Import Base.Panic Base.Arith Model.Vector Model.Matrix Model.Banded gen.GuardTable Model.Guards
  Proofs.Guards Proofs.GuardsModelBase Proofs.Matrix Proofs.MatrixArith Proofs.MatrixSpec Proofs.Banded.
From OV Require Proofs.BandedComplete Proofs.BandedDet2Cor.
Import ListNotations.

Section BandContracts.
Context {A : Arith}.
Notation T := (T A).
Notation matrix := (matrix A).
Notation banded := (banded A).
Implicit Types B C : banded.

Notation Zn n := (Z.of_nat n).
Notation Zl l := (Z.of_nat (length l)).
Notation gB3 g B := (g (Zn (bn B)) (Zn (bm1 B)) (Zn (bm2 B))).

(* the receiver keeps its sizes and stays well-formed *)
Definition same_sizes B' B : Prop := wfB B' /\ bn B' = bn B /\ bm1 B' = bm1 B /\ bm2 B' = bm2 B.

Lemma wfB_wf B : wfB B -> wf (compact B) /\ rows (compact B) = bn B /\ cols (compact B) = bm1 B + bm2 B + 1.
Proof. intros H; exact H. Qed.

Lemma same_sizes_with_compact B c : wfB B -> wf c -> rows c = rows (compact B) -> cols c = cols (compact B) ->
  same_sizes (with_compact B c) B.
Proof.
  intros (W & R & C) Wc Rc Cc. unfold same_sizes, wfB, with_compact; cbn. repeat split; auto; congruence.
Qed.

(* ---------------- fill_band ---------------- *)
Lemma rejects_band_fill_band B (band : Z) x :
  gB3 g_band_fill_band B band = true -> band_fill_band B band x = Panic Guard.
Proof.
  intros H. g_true H guard_band_fill_band_lemma ok_band_fill_band. unfold band_fill_band. bdestr.
Qed.
Lemma accepts_band_fill_band B (band : Z) x : wfB B ->
  gB3 g_band_fill_band B band = false -> exists B', band_fill_band B band x = Ok B'.
Proof.
  intros Hw H. g_false H guard_band_fill_band_lemma ok_band_fill_band.
  destruct (wfB_wf B Hw) as (W & R & C).
  unfold band_fill_band.
  destruct ((band <? - Zn (bm1 B))%Z || (Zn (bm2 B) <? band)%Z) eqn:E; [exfalso; lia|].
  destruct (proj1 (fill_col_spec_lemma A (compact B) (Z.to_nat (Zn (bm1 B) + band)) x W)) as (c & Ec & _); [lia|].
  rewrite Ec. cbn [bind]. eauto.
Qed.
Lemma frame_band_fill_band B (band : Z) x B' : wfB B -> band_fill_band B band x = Ok B' ->
  same_sizes B' B /\
  forall i s, i < bn B -> s < bm1 B + bm2 B + 1 -> s <> Z.to_nat (Zn (bm1 B) + band) ->
    entry (compact B') i s = entry (compact B) i s.
Proof.
  intros Hw E. destruct (wfB_wf B Hw) as (W & R & C). unfold band_fill_band in E.
  destruct ((band <? - Zn (bm1 B))%Z || (Zn (bm2 B) <? band)%Z) eqn:Eg; [discriminate|].
  destruct (fill_col_spec_lemma A (compact B) (Z.to_nat (Zn (bm1 B) + band)) x W) as [Hok _].
  destruct Hok as (c & Ec & Wc & Rc & Cc & F); [lia|]. rewrite Ec in E. cbn [bind] in E. injection E as <-.
  split; [now apply same_sizes_with_compact|].
  intros i s Hi Hs Hne. cbn [compact with_compact]. rewrite F by lia.
  destruct (Nat.eqb_spec s (Z.to_nat (Zn (bm1 B) + band))); [lia|reflexivity].
Qed.

(* ---------------- index (read) ---------------- *)
Lemma rejects_band_index B i j : gB3 g_band_index B (Zn i) (Zn j) = true -> band_get B i j = Panic Guard.
Proof.
  intros H. g_true H guard_band_index_lemma ok_band_index. unfold band_get, out_of_band. bdestr.
Qed.
Lemma accepts_band_index B i j : wfB B -> i < bn B ->
  gB3 g_band_index B (Zn i) (Zn j) = false -> exists x, band_get B i j = Ok x.
Proof.
  intros Hw Hi H. g_false H guard_band_index_lemma ok_band_index.
  unfold band_get. destruct (out_of_band (bm1 B) (bm2 B) i j) eqn:E.
  - apply out_of_band_iff in E. exfalso; lia.
  - rewrite (mget_ok B i (band_slot (bm1 B) i j) Hw Hi); [eauto|]. unfold band_slot. lia.
Qed.

(* ---------------- index_mut (write of one element) ---------------- *)
Lemma rejects_band_index_mut B i j x : gB3 g_band_index_mut B (Zn i) (Zn j) = true -> band_set B i j x = Panic Guard.
Proof.
  intros H. g_true H guard_band_index_mut_lemma ok_band_index_mut. unfold band_set, out_of_band. bdestr.
Qed.
Lemma accepts_band_index_mut B i j x : wfB B -> i < bn B ->
  gB3 g_band_index_mut B (Zn i) (Zn j) = false -> exists B', band_set B i j x = Ok B'.
Proof.
  intros Hw Hi H. g_false H guard_band_index_mut_lemma ok_band_index_mut.
  destruct (wfB_wf B Hw) as (W & R & C).
  unfold band_set. destruct (out_of_band (bm1 B) (bm2 B) i j) eqn:E.
  - apply out_of_band_iff in E. exfalso; lia.
  - destruct (mset_spec_lemma A (compact B) i (band_slot (bm1 B) i j) x W) as (c & Ec & _);
      [lia | unfold band_slot; lia |]. rewrite Ec. cbn [bind]. eauto.
Qed.
Lemma frame_band_index_mut B i j x B' : wfB B -> i < bn B -> band_set B i j x = Ok B' ->
  same_sizes B' B /\
  forall i' s, i' < bn B -> s < bm1 B + bm2 B + 1 -> (i', s) <> (i, band_slot (bm1 B) i j) ->
    entry (compact B') i' s = entry (compact B) i' s.
Proof.
  intros Hw Hi E. destruct (wfB_wf B Hw) as (W & R & C). unfold band_set in E.
  destruct (out_of_band (bm1 B) (bm2 B) i j) eqn:Eo; [discriminate|].
  assert (Hs : band_slot (bm1 B) i j < cols (compact B)).
  { unfold out_of_band in Eo. unfold band_slot. rewrite C.
    destruct (Nat.ltb_spec (i + bm2 B) j); [discriminate|]. lia. }
  destruct (mset_spec_lemma A (compact B) i (band_slot (bm1 B) i j) x W) as (c & Ec & Wc & Rc & Cc & F); [lia|auto|].
  rewrite Ec in E. cbn [bind] in E. injection E as <-.
  split; [now apply same_sizes_with_compact|].
  intros i' s Hi' Hs' Hne. cbn [compact with_compact]. rewrite F by lia.
  destruct (Nat.eqb_spec i' i); destruct (Nat.eqb_spec s (band_slot (bm1 B) i j)); cbn [andb]; try reflexivity.
  subst. contradiction.
Qed.

(* ---------------- + - += -= (by reference) ---------------- *)
Notation g6 g B C := (g (Zn (bn B)) (Zn (bm1 B)) (Zn (bm2 B)) (Zn (bn C)) (Zn (bm1 C)) (Zn (bm2 C))).

Lemma compacts_conform B C : wfB B -> wfB C -> bn B = bn C -> bm1 B = bm1 C -> bm2 B = bm2 C ->
  wf (compact B) /\ wf (compact C) /\ rows (compact B) = rows (compact C) /\ cols (compact B) = cols (compact C).
Proof. intros (W & R & Cc) (W' & R' & Cc') E0 E1 E2. repeat split; auto; congruence. Qed.

Lemma guard3_pass {X} B C (k : res X) : bn B = bn C -> bm1 B = bm1 C -> bm2 B = bm2 C -> band_guard3 B C k = k.
Proof. intros E0 E1 E2. unfold band_guard3. rewrite E0, E1, E2, !Nat.eqb_refl. reflexivity. Qed.

Lemma rejects_band_add_ref B C : g6 g_band_add_ref B C = true -> band_add B C = Panic Guard.
Proof. intros H. g_true H guard_band_add_ref_lemma ok_band_add_ref. unfold band_add, band_guard3. bdestr. Qed.
Lemma accepts_band_add_ref B C : wfB B -> wfB C -> g6 g_band_add_ref B C = false ->
  exists R, band_add B C = Ok R /\ same_sizes R B.
Proof.
  intros HB HC H. g_false H guard_band_add_ref_lemma ok_band_add_ref.
  destruct (compacts_conform B C HB HC) as (W & W' & Er & Ec); [lia..|].
  unfold band_add. rewrite guard3_pass by lia.
  destruct (proj1 (madd_spec_lemma A _ _ W W') Er Ec) as (c & E & Wc & Rc & Cc & _). rewrite E. cbn [bind].
  eexists; split; [reflexivity|]. now apply same_sizes_with_compact.
Qed.

Lemma rejects_band_sub_ref B C : g6 g_band_sub_ref B C = true -> band_sub B C = Panic Guard.
Proof. intros H. g_true H guard_band_sub_ref_lemma ok_band_sub_ref. unfold band_sub, band_guard3. bdestr. Qed.
Lemma accepts_band_sub_ref B C : wfB B -> wfB C -> g6 g_band_sub_ref B C = false ->
  exists R, band_sub B C = Ok R /\ same_sizes R B.
Proof.
  intros HB HC H. g_false H guard_band_sub_ref_lemma ok_band_sub_ref.
  destruct (compacts_conform B C HB HC) as (W & W' & Er & Ec); [lia..|].
  unfold band_sub. rewrite guard3_pass by lia.
  destruct (proj1 (msub_spec_lemma A _ _ W W') Er Ec) as (c & E & Wc & Rc & Cc & _). rewrite E. cbn [bind].
  eexists; split; [reflexivity|]. now apply same_sizes_with_compact.
Qed.

Lemma rejects_band_add_assign_ref B C : g6 g_band_add_assign_ref B C = true -> band_add_assign B C = Panic Guard.
Proof.
  intros H. g_true H guard_band_add_assign_ref_lemma ok_band_add_assign_ref.
  unfold band_add_assign, band_guard3. bdestr.
Qed.
Lemma accepts_band_add_assign_ref B C : wfB B -> wfB C -> g6 g_band_add_assign_ref B C = false ->
  exists R, band_add_assign B C = Ok R /\ same_sizes R B.
Proof.
  intros HB HC H. g_false H guard_band_add_assign_ref_lemma ok_band_add_assign_ref.
  destruct (compacts_conform B C HB HC) as (W & W' & Er & Ec); [lia..|].
  unfold band_add_assign. rewrite guard3_pass by lia.
  destruct (proj1 (madd_assign_spec_lemma A _ _ W W') Er Ec) as (c & E & Wc & Rc & Cc & _). rewrite E. cbn [bind].
  eexists; split; [reflexivity|]. now apply same_sizes_with_compact.
Qed.

Lemma rejects_band_sub_assign_ref B C : g6 g_band_sub_assign_ref B C = true -> band_sub_assign B C = Panic Guard.
Proof.
  intros H. g_true H guard_band_sub_assign_ref_lemma ok_band_sub_assign_ref.
  unfold band_sub_assign, band_guard3. bdestr.
Qed.
Lemma accepts_band_sub_assign_ref B C : wfB B -> wfB C -> g6 g_band_sub_assign_ref B C = false ->
  exists R, band_sub_assign B C = Ok R /\ same_sizes R B.
Proof.
  intros HB HC H. g_false H guard_band_sub_assign_ref_lemma ok_band_sub_assign_ref.
  destruct (compacts_conform B C HB HC) as (W & W' & Er & Ec); [lia..|].
  unfold band_sub_assign. rewrite guard3_pass by lia.
  destruct (proj1 (msub_assign_spec_lemma A _ _ W W') Er Ec) as (c & E & Wc & Rc & Cc & _). rewrite E. cbn [bind].
  eexists; split; [reflexivity|]. now apply same_sizes_with_compact.
Qed.

(* ---------------- &B * &v: memory safety of the signed loop bounds, any arithmetic, every (n, m1, m2) ---------------- *)
Lemma rejects_band_mul_vec B (v : list T) : gB3 g_band_mul_vec B (Zl v) = true -> band_mul B v = Panic Guard.
Proof. intros H. g_true H guard_band_mul_vec_lemma ok_band_mul_vec. unfold band_mul. bdestr. Qed.

Lemma accepts_band_mul_vec B (v : list T) : wfB B -> gB3 g_band_mul_vec B (Zl v) = false ->
  exists w, band_mul B v = Ok w /\ length w = bn B.
Proof.
  intros Hw H. g_false H guard_band_mul_vec_lemma ok_band_mul_vec.
  destruct (wfB_wf B Hw) as (W & R & C). unfold wf in W.
  assert (Hv : length v = bn B) by lia.
  unfold band_mul. rewrite Hv, Nat.eqb_refl. cbn [negb].
  set (n := bn B) in *. set (mm := bm1 B + bm2 B + 1) in *.
  apply (for_inv (fun (_ : nat) (r : list T) => length r = n)); [lia | apply repeat_length |].
  intros i r Hi Hr.
  set (k := (Zn i - Zn (bm1 B))%Z).
  set (lo := Z.to_nat (Z.max 0 (- k))).
  set (hi := Z.to_nat (Z.min (Zn (bm1 B) + Zn (bm2 B) + 1) (Zn n - k))).
  destruct (Nat.le_gt_cases hi lo) as [Hle|Hlt].
  { rewrite for_empty by exact Hle. eauto. }
  apply (for_inv (fun (_ : nat) (r : list T) => length r = n)); [lia | exact Hr |].
  intros j r' Hj Hr'.
  rewrite (rd_ok r' i zero) by lia. cbn [bind].
  unfold mget. rewrite (rd_ok (buf (compact B)) (i * cols (compact B) + j) zero).
  2:{ rewrite W, R, C. apply flat_lt; [lia|]. unfold mm in *. lia. }
  cbn [bind]. rewrite (rd_ok v (Z.to_nat (Zn j + k)) zero) by lia. cbn [bind].
  rewrite upd_ok by lia. eexists; split; [reflexivity|]. rewrite upd_list_length. exact Hr'.
Qed.

(* ---------------- solve ---------------- *)
Lemma rejects_band_solve B (b : list T) : gB3 g_band_solve B (Zl b) = true -> band_solve B b = Panic Guard.
Proof.
  intros H. g_true H guard_band_solve_lemma ok_band_solve. unfold band_solve, band_solve_gen. bdestr.
Qed.

Lemma accepts_band_solve (FL : FieldLaws A) B (b : list T) : wfB B -> gB3 g_band_solve B (Zl b) = false ->
  (exists x, band_solve B b = Ok x /\ length x = bn B) \/
  (bm1 B <= bn B /\ band_solve B b = Panic DivZero) \/
  (bn B < bm1 B /\ band_solve B b = Panic Index).
Proof.
  intros Hw H. g_false H guard_band_solve_lemma ok_band_solve.
  destruct (BandedDet2Cor.band_solve_trichotomy_lemma FL B b Hw) as [(x & E & L & _)|[(Hm & E & _)|(Hm & E)]]; [lia|..].
  - left; eauto.
  - right; left; auto.
  - right; right; auto.
Qed.

Lemma accepts_band_solve_nonsingular (FL : FieldLaws A) (PL : BandedComplete.PivotLaws A) B (b : list T) :
  wfB B -> gB3 g_band_solve B (Zl b) = false -> bm1 B <= bn B -> BandedComplete.trivial_kernel B ->
  exists x, band_solve B b = Ok x.
Proof.
  intros Hw H Hm Hk. g_false H guard_band_solve_lemma ok_band_solve.
  destruct (BandedComplete.band_solve_complete_lemma FL PL B b Hw) as (x & E & _); auto; [lia|]. eauto.
Qed.

End BandContracts.
