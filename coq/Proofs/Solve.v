(* Proofs/Solve.v -- solve_basic (Model/Solve.v): soundness over any field, uniqueness of solutions
   under a left inverse, completeness under the magnitude laws.  Package c01. *)
From Coq Require Import List Arith Lia Bool Ring Field.
From OV Require Import Base.Panic Base.Arith Model.Vector Model.Matrix Model.Solve
  Proofs.Matrix Proofs.SolveBase Proofs.SolveBack Proofs.SolveGauss.
Import ListNotations.
Local Open Scope arith_scope.

Section SolveProofs.
Context {A : Arith}.
Variable FL : FieldLaws A.
Notation inv := (fl_inv A FL).
Add Field AFieldS : (A_field FL).

(* ---------- linear systems as functions: E i j entries, r right-hand side, y candidate ---------- *)
Definition solf (n : nat) (E : nat -> nat -> A) (r : nat -> A) (y : nat -> A) : Prop :=
  forall i, (i < n)%nat -> mvprod n E y i = r i.

(* a row exchange does not change the solution set *)
Lemma swap_sol n (E E1 : nat -> nat -> A) (r r1 y : nat -> A) p k :
  (p < n)%nat -> (k < n)%nat ->
  (forall i j, (i < n)%nat -> (j < n)%nat -> E1 i j = E (swp p k i) j) ->
  (forall i, (i < n)%nat -> r1 i = r (swp p k i)) ->
  solf n E1 r1 y -> solf n E r y.
Proof.
  intros Hp Hk HE Hr S i Hi.
  assert (Hs : (swp p k i < n)%nat) by (apply swp_lt; auto).
  specialize (S (swp p k i) Hs). rewrite Hr in S by auto. rewrite swp_invol in S.
  rewrite <- S. unfold mvprod. apply sum_n_ext. intros j Hj.
  rewrite HE by auto. now rewrite swp_invol.
Qed.

(* subtracting multiples of row k from the rows below it does not change the solution set *)
Lemma elim_sol n (E1 E2 : nat -> nat -> A) (r1 r2 y c : nat -> A) k :
  (k < n)%nat ->
  (forall i j, (i < n)%nat -> (j < n)%nat -> E2 i j = if (k <? i)%nat then E1 i j - c i * E1 k j else E1 i j) ->
  (forall i, (i < n)%nat -> r2 i = if (k <? i)%nat then r1 i - c i * r1 k else r1 i) ->
  solf n E2 r2 y -> solf n E1 r1 y.
Proof.
  intros Hk HE Hr S.
  assert (Sk : mvprod n E1 y k = r1 k).
  { specialize (S k Hk). rewrite Hr in S by auto. rewrite Nat.ltb_irrefl in S.
    rewrite <- S. unfold mvprod. apply sum_n_ext. intros j Hj. rewrite HE by auto.
    now rewrite Nat.ltb_irrefl. }
  intros i Hi. specialize (S i Hi). rewrite Hr in S by auto.
  destruct (Nat.ltb_spec k i) as [Hlt|Hge].
  - assert (E : mvprod n E2 y i = mvprod n E1 y i - c i * mvprod n E1 y k).
    { unfold mvprod. rewrite <- (sum_n_scale FL), <- (sum_n_sub FL). apply sum_n_ext. intros j Hj.
      rewrite HE by auto. destruct (Nat.ltb_spec k i); [|lia]. ring. }
    rewrite E, Sk in S.
    transitivity (mvprod n E1 y i - c i * r1 k + c i * r1 k); [ring|]. rewrite S. ring.
  - rewrite <- S. unfold mvprod. apply sum_n_ext. intros j Hj. rewrite HE by auto.
    destruct (Nat.ltb_spec k i); [lia|]. reflexivity.
Qed.

(* ---------- one step of the outer loop ---------- *)
Definition gauss_body (k : nat) (s : matrix A * list A) : res (matrix A * list A) :=
  let '(m, x) := s in
  let* s := partial_pivot m x k in
  for_ (k + 1) (rows (fst s)) (elim_body k) s.

Lemma gauss_unfold (m : matrix A) (x : list A) :
  gauss_with_pivot m x = (let* hi := usub (rows m) 1 in for_ 0 hi gauss_body (m, x)).
Proof. reflexivity. Qed.

(* the pivot step: some row p (0, or in k..n-1) is exchanged with row k in matrix and rhs *)
Lemma pivot_step (m : matrix A) (x : list A) n k :
  wf m -> rows m = n -> cols m = n -> length x = n -> (k < n)%nat ->
  exists p m1 x1,
    max_abs_in_column m k k = Ok p /\ (p = 0%nat \/ (k <= p < n)%nat) /\
    wf m1 /\ rows m1 = n /\ cols m1 = n /\ length x1 = n /\
    (forall i j, (i < n)%nat -> (j < n)%nat -> ent m1 i j = ent m (swp p k i) j) /\
    (forall i, vnth x1 i = vnth x (swp p k i)) /\
    gauss_body k (m, x) = for_ (k + 1) n (elim_body k) (m1, x1).
Proof.
  intros W Hr Hc Lx Hk.
  destruct (max_abs_range m k k W) as (p & Ep & Rp); try lia.
  assert (Hp : (p < n)%nat) by lia.
  destruct (swap_rows_ok m p k W) as (m1 & E1 & W1 & R1 & C1 & S1); try lia.
  destruct (vswap_ok x p k) as (x1 & E2 & L1 & S2); try lia.
  exists p, m1, x1. rewrite Hr in *. rewrite Hc in *.
  repeat split; auto; try congruence.
  unfold gauss_body, partial_pivot. rewrite Ep. cbn [bind]. rewrite E1. cbn [bind].
  rewrite E2. cbn [bind fst]. rewrite R1. reflexivity.
Qed.

(* ---------- the invariant of the outer loop (soundness) ---------- *)
Section Sound.
Variable n : nat.
Variable E0 : nat -> nat -> A.    (* the original system *)
Variable r0 : nat -> A.

Definition belowz (k : nat) (m : matrix A) : Prop :=       (* rows k.. are zero in columns < k *)
  forall i j, (k <= i)%nat -> (i < n)%nat -> (j < k)%nat -> ent m i j = zero.
Definition lowz (k : nat) (m : matrix A) : Prop :=         (* columns < k are zero below the diagonal *)
  forall i j, (j < k)%nat -> (j < i)%nat -> (i < n)%nat -> ent m i j = zero.

(* Either the elimination is on track (Good), or -- after the pivot search fell back to its
   initial index 0 at a step k >= 1 and row 0 was exchanged into the active part -- the entry
   (0,0) is zero for the rest of the run and back substitution will divide by it (Bad). *)
Definition ginv (k : nat) (s : matrix A * list A) : Prop :=
  let '(m, x) := s in
  wf m /\ rows m = n /\ cols m = n /\ length x = n /\ belowz k m /\
  (((1 <= k)%nat /\ ent m 0 0 = zero) \/
   (lowz k m /\ forall y, solf n (ent m) (vnth x) y -> solf n E0 r0 y)).

Lemma ginv_step k s s' : (k + 1 < n)%nat -> ginv k s -> gauss_body k s = Ok s' -> ginv (S k) s'.
Proof.
  intros Hk. destruct s as [m x]. intros (W & Hr & Hc & Lx & BZ & St) E.
  destruct (pivot_step m x n k W Hr Hc Lx) as (p & m1 & x1 & Ep & Rp & W1 & R1 & C1 & L1 & S1 & X1 & B); [lia|].
  rewrite B in E.
  destruct (eqb (ent m1 k k) zero) eqn:Ez.
  { apply (eqb_zero_true FL) in Ez. rewrite (elim_rows_zero_pivot FL m1 x1 n k) in E by auto. discriminate. }
  apply (eqb_zero_false FL) in Ez.
  destruct (elim_rows_ok FL m1 x1 n k W1 R1 C1 L1) as (m2 & x2 & E2 & W2 & R2 & C2 & L2 & S2 & X2); [lia|auto|].
  rewrite E2 in E. injection E as <-.
  (* entries of the new matrix in columns < k+1 *)
  assert (Zk : forall i, (k < i)%nat -> (i < n)%nat -> ent m2 i k = zero).
  { intros i Hi1 Hi2. rewrite S2 by lia. unfold elim_ent.
    destruct (Nat.ltb_spec k i); [|lia]. destruct (Nat.leb_spec k k); [|lia]. cbn [andb].
    field. exact Ez. }
  assert (Old : forall i j, (i < n)%nat -> (j < k)%nat -> ent m2 i j = ent m (swp p k i) j).
  { intros i j Hi Hj. rewrite S2 by lia. unfold elim_ent.
    destruct (Nat.leb_spec k j); [lia|]. rewrite andb_false_r. apply S1; lia. }
  assert (BZ' : belowz (S k) m2).
  { intros i j Hi1 Hi2 Hj. destruct (Nat.eq_dec j k) as [->|Hjk]; [apply Zk; lia|].
    rewrite Old by lia. unfold swp.
    destruct (Nat.eqb_spec i p); [apply BZ; lia|].
    destruct (Nat.eqb_spec i k); [lia|]. apply BZ; lia. }
  cbn [ginv]. repeat split; auto.
  (* Good or Bad *)
  assert (R00 : (1 <= k)%nat -> (p = 0%nat \/ ent m 0 0 = zero) -> ent m2 0 0 = zero).
  { intros Hk1 Hc0. rewrite Old by lia. unfold swp.
    destruct (Nat.eqb_spec 0 p) as [<-|Hp0]; [apply BZ; lia|].
    destruct (Nat.eqb_spec 0 k); [lia|]. destruct Hc0; [lia|auto]. }
  destruct St as [(Hk1 & Z00)|(LZ & Sol)].
  { left. split; [lia|]. apply R00; auto. }
  destruct Rp as [Hp0|Hpk].
  { destruct (Nat.eq_dec k 0) as [Hk0|Hk0].
    2:{ left. split; [lia|]. apply R00; auto; lia. }
    (* p = 0 = k : the exchange is the identity; continue as in the regular case *)
    right. subst p k. split.
    - intros i j Hj Hji Hi. assert (j = 0%nat) as -> by lia. apply Zk; lia.
    - intros y Sy. apply Sol.
      apply (swap_sol n (ent m) (ent m1) (vnth x) (vnth x1) y 0 0); auto; try lia.
      apply (elim_sol n (ent m1) (ent m2) (vnth x1) (vnth x2) y
               (fun i => ent m1 i 0 * inv (ent m1 0 0)) 0); auto; try lia.
      intros i j Hi Hj. rewrite S2 by auto. unfold elim_ent.
      destruct (Nat.leb_spec 0 j); [|lia]. now rewrite andb_true_r. }
  right. split.
  - intros i j Hj Hji Hi. destruct (Nat.eq_dec j k) as [->|Hjk]; [apply Zk; lia|].
    rewrite Old by lia. unfold swp.
    destruct (Nat.eqb_spec i p); [apply LZ; lia|].
    destruct (Nat.eqb_spec i k); [apply LZ; lia|]. apply LZ; lia.
  - intros y Sy. apply Sol.
    apply (swap_sol n (ent m) (ent m1) (vnth x) (vnth x1) y p k); auto; try lia.
    apply (elim_sol n (ent m1) (ent m2) (vnth x1) (vnth x2) y
             (fun i => ent m1 i k * inv (ent m1 k k)) k); auto; try lia.
    + intros i j Hi Hj. rewrite S2 by auto. unfold elim_ent.
      destruct (Nat.ltb_spec k i); cbn [andb]; auto.
      destruct (Nat.leb_spec k j); auto.
      (* j < k: row k of m1 is zero there *)
      assert (Z : ent m1 k j = zero).
      { rewrite S1 by lia. unfold swp. destruct (Nat.eqb_spec k p); [apply LZ; lia|].
        rewrite Nat.eqb_refl. apply LZ; lia. }
      rewrite Z. ring.
Qed.

End Sound.

(* ---------- soundness of solve_basic ---------- *)
Lemma solve_guards (M : matrix A) (b : list A) : rows M = cols M -> length b = rows M ->
  solve_basic M b = (let* s := gauss_with_pivot M b in backsolve (fst s) (snd s)).
Proof.
  intros Hsq Lb. unfold solve_basic. rewrite <- Lb, Nat.eqb_refl. cbn [negb].
  rewrite Lb, <- Hsq, Nat.eqb_refl. reflexivity.
Qed.

Lemma gauss_ginv (M : matrix A) (b : list A) s : wf M -> rows M = cols M -> length b = rows M ->
  gauss_with_pivot M b = Ok s ->
  (1 <= rows M)%nat /\ ginv (rows M) (ent M) (vnth b) (rows M - 1) s.
Proof.
  intros W Hsq Lb E. rewrite gauss_unfold in E. unfold usub in E.
  destruct (Nat.leb_spec 1 (rows M)); [|discriminate]. cbn [bind] in E. split; auto.
  apply (for_inv_partial (fun k s => ginv (rows M) (ent M) (vnth b) k s) 0 (rows M - 1) gauss_body (M, b) s);
    [lia| | |exact E].
  - cbn [ginv]. repeat split; auto.
    + intros i j _ _ Hj. lia.
    + right. split; auto. intros i j Hj. lia.
  - intros k s0 s1 Hk I0 E1. apply (ginv_step (rows M) (ent M) (vnth b) k s0 s1); auto. lia.
Qed.

Lemma solve_basic_sound_lemma (M : matrix A) (b x : list A) :
  wf M -> rows M = cols M -> length b = rows M -> solve_basic M b = Ok x ->
  length x = rows M /\
  forall i, (i < rows M)%nat -> mvprod (rows M) (ent M) (fun k => nth k x zero) i = nth i b zero.
Proof.
  intros W Hsq Lb E. rewrite solve_guards in E by auto.
  apply bind_ok in E as ([m' x'] & Eg & Eb). cbn [fst snd] in Eb.
  destruct (gauss_ginv M b (m', x') W Hsq Lb Eg) as (Hn & W' & R' & C' & L' & _ & St).
  destruct (backsolve_spec FL m' (rows M) W' R' C' x' x L' Eb) as (Lx & D & U).
  split; auto.
  destruct St as [(_ & Z)|(LZ & Sol)].
  - exfalso. apply (D 0%nat); auto.
  - apply (Sol (vnth x)). intros i Hi. apply U; auto.
    intros i' j' Hj Hi'. apply LZ; lia.
Qed.

(* ---------- uniqueness under a left inverse ---------- *)
Definition left_inverse (n : nat) (N E : nat -> nat -> A) : Prop :=
  forall i j, (i < n)%nat -> (j < n)%nat ->
    sum_n n (fun k => N i k * E k j) = if (i =? j)%nat then one else zero.

Lemma left_inverse_apply n (N E : nat -> nat -> A) (r x : nat -> A) :
  left_inverse n N E -> solf n E r x ->
  forall i, (i < n)%nat -> x i = sum_n n (fun k => N i k * r k).
Proof.
  intros LI S i Hi.
  rewrite <- (sum_n_delta FL n i x Hi).
  transitivity (sum_n n (fun j => sum_n n (fun k => N i k * (E k j * x j)))).
  - apply sum_n_ext. intros j Hj. rewrite <- (LI i j Hi Hj).
    rewrite <- (sum_n_scale_r FL). apply sum_n_ext. intros k Hk. ring.
  - rewrite (sum_n_swap FL). apply sum_n_ext. intros k Hk.
    rewrite (sum_n_scale FL). f_equal. apply (S k Hk).
Qed.

Lemma solutions_unique_fun n (N E : nat -> nat -> A) (r x y : nat -> A) :
  left_inverse n N E -> solf n E r x -> solf n E r y -> forall i, (i < n)%nat -> x i = y i.
Proof.
  intros LI Sx Sy i Hi.
  rewrite (left_inverse_apply n N E r x LI Sx i Hi).
  now rewrite (left_inverse_apply n N E r y LI Sy i Hi).
Qed.

Lemma solutions_unique_lemma (M : matrix A) (b x y : list A) :
  (exists N : nat -> nat -> A, left_inverse (rows M) N (ent M)) ->
  length x = rows M -> length y = rows M ->
  (forall i, (i < rows M)%nat -> mvprod (rows M) (ent M) (fun k => nth k x zero) i = nth i b zero) ->
  (forall i, (i < rows M)%nat -> mvprod (rows M) (ent M) (fun k => nth k y zero) i = nth i b zero) ->
  x = y.
Proof.
  intros (N & LI) Lx Ly Sx Sy.
  apply (nth_ext x y zero zero); [congruence|].
  intros i Hi. rewrite Lx in Hi.
  apply (solutions_unique_fun (rows M) N (ent M) (fun i => nth i b zero)
           (fun k => nth k x zero) (fun k => nth k y zero)); auto.
Qed.

(* ---------- agreement of the two solvers, given soundness of solve_lu (package c02 proves it) ---------- *)
Lemma solvers_agree_from_lu_sound (M : matrix A) (b x y : list A) :
  (solve_lu M b = Ok y -> length y = rows M /\
     forall i, (i < rows M)%nat -> mvprod (rows M) (ent M) (fun k => nth k y zero) i = nth i b zero) ->
  wf M -> rows M = cols M -> length b = rows M ->
  (exists N : nat -> nat -> A, left_inverse (rows M) N (ent M)) ->
  solve_basic M b = Ok x -> solve_lu M b = Ok y -> x = y.
Proof.
  intros LU W Hsq Lb LI Ex Ey.
  destruct (solve_basic_sound_lemma M b x W Hsq Lb Ex) as (Lx & Sx).
  destruct (LU Ey) as (Ly & Sy).
  apply (solutions_unique_lemma M b x y LI Lx Ly Sx Sy).
Qed.

End SolveProofs.
