(* Proofs/Solve.v -- stub, to be filled in *)
