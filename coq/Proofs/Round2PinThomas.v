(* Proofs/Round2PinThomas.v -- package round2, pin blocks for C05 (append to Props/C05.v).  Compiled copy of the blocks,
   in the scope context of Props/C05.v (nat_scope open, Reals imported, R_scope not open).
   ======================================================================================================
   C05 (tridiagonal solve), rounding half AT BINARY64 -- package round2.
   Proofs/TridiagRound.v (round one) proves the componentwise backward error of Thomas solve in the STANDARD MODEL of
   rounding.  The theorems below are about [tsolve (A := AF) t r] itself -- the primitive-float instance the
   correspondence check runs bit-exactly against the Rust code -- through Flocq's specification of the primitive
   operations; u64 = 2^-53, eta64 = 2^-1075, FR = real value of a float, ffinite = "is a finite float".
   Trace functions (float expressions in the data, Proofs/Round2Thomas.v):
     tbeta t k    the pivots        beta_0 = main_0,  beta_k = main_k - sub_(k-1) * gamma_k
     tgamma t k   the multipliers   gamma_k = sup_(k-1) / beta_(k-1)            (gamma_0 = 0)
     tnum t r k   the numerators    num_0 = r_0,  num_k = r_k - sub_(k-1) * y_(k-1)
     ty t r k     the forward sweep y_k = num_k / beta_k
   no_underflow v  :=  v = 0 \/ 2^-1022 <= |v|   (the exact product/quotient is not in the subnormal range).
   Ladder of results (every one for EVERY size n):
     thomas_backward_error_float             finite answer + finite pivots + no subnormal product/quotient -> exact row-wise
                                             perturbed system (3u,5u,5u,9u), any matrix
     thomas_dominant_backward_stable_float   the same for dominant matrices: |dT| <= (3u|a|, 5u|b|+9u|a|, 5u|c|)
     thomas_dominant_float_partial           dominant + entries scaled (|b|<=2^300, off-diagonals 0 or >=2^-300): never refused for
                                             ANY right-hand side; pivot/multiplier conditions discharged from the data
     thomas_backward_error_float_uf          gradual underflow allowed in the right-hand-side part: residual r_i + dr_i,
                                             |dr_i| <= 2^-1075 (1 + 2|a_i| + 3|beta_i|)
     thomas_dominant_float_uf_partial        dominant + scaled: finite answer -> backward stable up to |dr_i| <= 2^-1075 (1 + 11|b_i|)
     thomas_dominant_float_residual          the same conclusion as a row-wise residual bound (the quantity the oracle measures)
     thomas_dominant_float                   hypotheses ON THE DATA ONLY (entries finite, 2^-300 <= |b_i| <= 2^300, off-diagonals 0 or
                                             >= 2^-300, |r_i| <= 2^300, 2(|a_i|+|c_i|) <= |b_i|): solved, every x_i finite, backward stable
                                             up to 2^-1075 (1 + 11|b_i|) per row -- no overflow anywhere, underflow accounted for
   Unproved remainder: underflow in the MATRIX part (pivots/multipliers) is excluded (by hypothesis or by the scaling bounds), not
   analysed; for merely dominant systems (margin (1+u)/(1-u) instead of the factor 2) finiteness of the answer is a hypothesis.
   ====================================================================================================== *)
From Coq Require Import List Arith Bool ZArith QArith Qcanon Floats.
Local Open Scope nat_scope.
From OV Require Import Base.Panic Base.Arith Model.Vector Model.Matrix Model.Tridiag Inst.QcInst Inst.FloatInst Proofs.Tridiag Proofs.TridiagSolve Proofs.TridiagDet Proofs.TridiagTotal.
Import ListNotations.
From Coq Require Import Reals Lra.
From OV Require Import Proofs.TridiagTrace Proofs.TridiagRound.
(* ---- the blocks start here ---- *)
From Flocq Require Import Core.
From OV Require Import Proofs.ComplexRound Proofs.RoundDotFloat Proofs.Round2Thomas Proofs.Round2ThomasB.

(* Thomas solve at binary64, componentwise backward error: whenever solve answers x, every x_i and every pivot is finite and
   no product/quotient of the two sweeps is subnormal, the real values of x solve a nearby tridiagonal system EXACTLY, row by
   row:  a_i (1+ea) x_(i-1) + ( b_i (1+eb) + a_i gamma_i eg ) x_i + c_i (1+ec) x_(i+1) = r_i ,
   |ea| <= 3u, |eb| <= 5u, |ec| <= 5u, |eg| <= 9u, u = 2^-53.  A finite answer alone does not suffice (see
   thomas_finite_answer_hides_overflow_example below): the pivots must be finite. *)
Theorem thomas_backward_error_float : forall (t : tridiag AF) (r x : list pfloat),
  wfT t -> (1 <= tn t)%nat -> length r = tn t -> tsolve (A := AF) t r = Ok x ->
  (forall i, (i < tn t)%nat -> ffinite (nth i x 0%float)) ->
  (forall k, (k < tn t)%nat -> ffinite (tbeta t k)) ->
  (forall k, (k + 1 < tn t)%nat ->
     no_underflow (FR (nth k (tsup t) 0%float) / FR (tbeta t k))%R /\
     no_underflow (FR (nth k (tsub t) 0%float) * FR (tgamma t (k + 1)))%R) ->
  ((forall k, (k < tn t)%nat -> no_underflow (FR (tnum t r k) / FR (tbeta t k))%R) /\
  (forall k, (k + 1 < tn t)%nat ->
     no_underflow (FR (nth k (tsub t) 0%float) * FR (ty t r k))%R /\
     no_underflow (FR (tgamma t (k + 1)) * FR (nth (k + 1) x 0%float))%R)) ->
  length x = tn t /\
  forall i, (i < tn t)%nat -> exists ea eb ec eg : R,
    (Rabs ea <= 3 * u64 /\ Rabs eb <= 5 * u64 /\ Rabs ec <= 5 * u64 /\ Rabs eg <= 9 * u64 /\
     FR (nth i (0%float :: tsub t) 0%float) * (1 + ea) * FR (nth i (0%float :: x) 0%float)
     + (FR (nth i (tmain t) 0%float) * (1 + eb)
        + FR (nth i (0%float :: tsub t) 0%float) * FR (tgamma t i) * eg) * FR (nth i x 0%float)
     + FR (nth i (tsup t) 0%float) * (1 + ec) * FR (nth (i + 1) x 0%float) = FR (nth i r 0%float))%R.
Proof. intros t r x. exact (thomas_backward_error_float_lemma t r x). Qed.
Check thomas_backward_error_float : forall (t : tridiag AF) (r x : list pfloat),
  wfT t -> (1 <= tn t)%nat -> length r = tn t -> tsolve (A := AF) t r = Ok x ->
  (forall i, (i < tn t)%nat -> ffinite (nth i x 0%float)) ->
  (forall k, (k < tn t)%nat -> ffinite (tbeta t k)) ->
  (forall k, (k + 1 < tn t)%nat ->
     no_underflow (FR (nth k (tsup t) 0%float) / FR (tbeta t k))%R /\
     no_underflow (FR (nth k (tsub t) 0%float) * FR (tgamma t (k + 1)))%R) ->
  ((forall k, (k < tn t)%nat -> no_underflow (FR (tnum t r k) / FR (tbeta t k))%R) /\
  (forall k, (k + 1 < tn t)%nat ->
     no_underflow (FR (nth k (tsub t) 0%float) * FR (ty t r k))%R /\
     no_underflow (FR (tgamma t (k + 1)) * FR (nth (k + 1) x 0%float))%R)) ->
  length x = tn t /\
  forall i, (i < tn t)%nat -> exists ea eb ec eg : R,
    (Rabs ea <= 3 * u64 /\ Rabs eb <= 5 * u64 /\ Rabs ec <= 5 * u64 /\ Rabs eg <= 9 * u64 /\
     FR (nth i (0%float :: tsub t) 0%float) * (1 + ea) * FR (nth i (0%float :: x) 0%float)
     + (FR (nth i (tmain t) 0%float) * (1 + eb)
        + FR (nth i (0%float :: tsub t) 0%float) * FR (tgamma t i) * eg) * FR (nth i x 0%float)
     + FR (nth i (tsup t) 0%float) * (1 + ec) * FR (nth (i + 1) x 0%float) = FR (nth i r 0%float))%R.
Print Assumptions thomas_backward_error_float.
(* [[4,1,0],[1,4,1],[0,1,4]] x = [1,2,3] at binary64 (gamma_2 = 1/3.75, y_1 = 1.75/3.75, ... are inexact) *)
Example thomas_backward_error_float_nonvacuous :
  let t := exT_t in let r := exT_r in let x := exT_x in
  wfT t /\ (1 <= tn t)%nat /\ length r = tn t /\ tsolve (A := AF) t r = Ok x /\
  (forall i, (i < tn t)%nat -> ffinite (nth i x 0%float)) /\
  (forall k, (k < tn t)%nat -> ffinite (tbeta t k)) /\
  (forall k, (k + 1 < tn t)%nat ->
     no_underflow (FR (nth k (tsup t) 0%float) / FR (tbeta t k))%R /\
     no_underflow (FR (nth k (tsub t) 0%float) * FR (tgamma t (k + 1)))%R) /\
  (forall k, (k < tn t)%nat -> no_underflow (FR (tnum t r k) / FR (tbeta t k))%R) /\
  (forall k, (k + 1 < tn t)%nat ->
     no_underflow (FR (nth k (tsub t) 0%float) * FR (ty t r k))%R /\
     no_underflow (FR (tgamma t (k + 1)) * FR (nth (k + 1) x 0%float))%R).
Proof.
  cbv zeta. destruct exT_conditions as (W & Hn & Hr & Fx & Fb & UM & UQ & UR).
  split; [exact W|]. split; [exact Hn|]. split; [exact Hr|]. split; [exact exT_solve|]. split; [exact Fx|].
  split; [exact Fb|]. split; [exact UM|]. split; [exact UQ|exact UR].
Qed.

(* the same for strictly diagonally dominant systems (margin (1+u)/(1-u)): backward stability at binary64,
   (T + dT) x = r with |da_i| <= 3u |a_i|, |db_i| <= 5u |b_i| + 9u |a_i|, |dc_i| <= 5u |c_i| *)
Theorem thomas_dominant_backward_stable_float : forall (t : tridiag AF) (r x : list pfloat),
  wfT t -> (1 <= tn t)%nat -> length r = tn t ->
  (forall i, (i < tn t)%nat ->
     ((Rabs (FR (nth i (0%float :: tsub t) 0%float)) + Rabs (FR (nth i (tsup t) 0%float))) * (1 + u64)
      < Rabs (FR (nth i (tmain t) 0%float)) * (1 - u64))%R) ->
  tsolve (A := AF) t r = Ok x ->
  (forall i, (i < tn t)%nat -> ffinite (nth i x 0%float)) ->
  (forall k, (k < tn t)%nat -> ffinite (tbeta t k)) ->
  (forall k, (k + 1 < tn t)%nat ->
     no_underflow (FR (nth k (tsup t) 0%float) / FR (tbeta t k))%R /\
     no_underflow (FR (nth k (tsub t) 0%float) * FR (tgamma t (k + 1)))%R) ->
  ((forall k, (k < tn t)%nat -> no_underflow (FR (tnum t r k) / FR (tbeta t k))%R) /\
  (forall k, (k + 1 < tn t)%nat ->
     no_underflow (FR (nth k (tsub t) 0%float) * FR (ty t r k))%R /\
     no_underflow (FR (tgamma t (k + 1)) * FR (nth (k + 1) x 0%float))%R)) ->
  length x = tn t /\
  forall i, (i < tn t)%nat -> exists da db dc : R,
    (Rabs da <= 3 * u64 * Rabs (FR (nth i (0%float :: tsub t) 0%float)) /\
     Rabs db <= 5 * u64 * Rabs (FR (nth i (tmain t) 0%float)) + 9 * u64 * Rabs (FR (nth i (0%float :: tsub t) 0%float)) /\
     Rabs dc <= 5 * u64 * Rabs (FR (nth i (tsup t) 0%float)) /\
     (FR (nth i (0%float :: tsub t) 0%float) + da) * FR (nth i (0%float :: x) 0%float)
     + (FR (nth i (tmain t) 0%float) + db) * FR (nth i x 0%float)
     + (FR (nth i (tsup t) 0%float) + dc) * FR (nth (i + 1) x 0%float) = FR (nth i r 0%float))%R.
Proof. intros t r x. exact (thomas_dominant_backward_stable_float_lemma t r x). Qed.
Check thomas_dominant_backward_stable_float : forall (t : tridiag AF) (r x : list pfloat),
  wfT t -> (1 <= tn t)%nat -> length r = tn t ->
  (forall i, (i < tn t)%nat ->
     ((Rabs (FR (nth i (0%float :: tsub t) 0%float)) + Rabs (FR (nth i (tsup t) 0%float))) * (1 + u64)
      < Rabs (FR (nth i (tmain t) 0%float)) * (1 - u64))%R) ->
  tsolve (A := AF) t r = Ok x ->
  (forall i, (i < tn t)%nat -> ffinite (nth i x 0%float)) ->
  (forall k, (k < tn t)%nat -> ffinite (tbeta t k)) ->
  (forall k, (k + 1 < tn t)%nat ->
     no_underflow (FR (nth k (tsup t) 0%float) / FR (tbeta t k))%R /\
     no_underflow (FR (nth k (tsub t) 0%float) * FR (tgamma t (k + 1)))%R) ->
  ((forall k, (k < tn t)%nat -> no_underflow (FR (tnum t r k) / FR (tbeta t k))%R) /\
  (forall k, (k + 1 < tn t)%nat ->
     no_underflow (FR (nth k (tsub t) 0%float) * FR (ty t r k))%R /\
     no_underflow (FR (tgamma t (k + 1)) * FR (nth (k + 1) x 0%float))%R)) ->
  length x = tn t /\
  forall i, (i < tn t)%nat -> exists da db dc : R,
    (Rabs da <= 3 * u64 * Rabs (FR (nth i (0%float :: tsub t) 0%float)) /\
     Rabs db <= 5 * u64 * Rabs (FR (nth i (tmain t) 0%float)) + 9 * u64 * Rabs (FR (nth i (0%float :: tsub t) 0%float)) /\
     Rabs dc <= 5 * u64 * Rabs (FR (nth i (tsup t) 0%float)) /\
     (FR (nth i (0%float :: tsub t) 0%float) + da) * FR (nth i (0%float :: x) 0%float)
     + (FR (nth i (tmain t) 0%float) + db) * FR (nth i x 0%float)
     + (FR (nth i (tsup t) 0%float) + dc) * FR (nth (i + 1) x 0%float) = FR (nth i r 0%float))%R.
Print Assumptions thomas_dominant_backward_stable_float.
Example thomas_dominant_backward_stable_float_nonvacuous :
  let t := exT_t in let r := exT_r in let x := exT_x in
  wfT t /\ (1 <= tn t)%nat /\ length r = tn t /\
  (forall i, (i < tn t)%nat ->
     ((Rabs (FR (nth i (0%float :: tsub t) 0%float)) + Rabs (FR (nth i (tsup t) 0%float))) * (1 + u64)
      < Rabs (FR (nth i (tmain t) 0%float)) * (1 - u64))%R) /\
  tsolve (A := AF) t r = Ok x /\
  (forall i, (i < tn t)%nat -> ffinite (nth i x 0%float)) /\
  (forall k, (k < tn t)%nat -> ffinite (tbeta t k)) /\
  (forall k, (k + 1 < tn t)%nat ->
     no_underflow (FR (nth k (tsup t) 0%float) / FR (tbeta t k))%R /\
     no_underflow (FR (nth k (tsub t) 0%float) * FR (tgamma t (k + 1)))%R) /\
  (forall k, (k < tn t)%nat -> no_underflow (FR (tnum t r k) / FR (tbeta t k))%R) /\
  (forall k, (k + 1 < tn t)%nat ->
     no_underflow (FR (nth k (tsub t) 0%float) * FR (ty t r k))%R /\
     no_underflow (FR (tgamma t (k + 1)) * FR (nth (k + 1) x 0%float))%R).
Proof.
  cbv zeta. destruct exT_conditions as (W & Hn & Hr & Fx & Fb & UM & UQ & UR). destruct exT_data as (_ & _ & D).
  split; [exact W|]. split; [exact Hn|]. split; [exact Hr|]. split; [exact D|]. split; [exact exT_solve|].
  split; [exact Fx|]. split; [exact Fb|]. split; [exact UM|]. split; [exact UQ|exact UR].
Qed.

(* hypotheses ON THE DATA for the matrix part: all entries finite, |main_i| <= 2^300, every off-diagonal entry zero or at least
   2^-300 in magnitude, strict diagonal dominance with the rounding margin.  Then, for EVERY right-hand side (of any size n):
   no pivot and no multiplier overflows or underflows, solve never refuses, and if the answer is finite and no product/quotient
   of the right-hand-side part is subnormal, the answer is backward stable.
   PARTIAL (full statement: hypotheses on the data only, conclusion "solved, finite, backward stable"): finiteness of the answer and
   absence of underflow in the right-hand-side part remain hypotheses here; thomas_dominant_float below is the full statement for
   matrices dominant by the factor 2, thomas_dominant_float_uf_partial removes the underflow hypothesis for this class. *)
Theorem thomas_dominant_float_partial : forall (t : tridiag AF) (r : list pfloat),
  wfT t -> (1 <= tn t)%nat -> length r = tn t ->
  ((forall i, (i < tn t)%nat -> ffinite (nth i (tmain t) 0%float)) /\
   (forall i, (i + 1 < tn t)%nat -> ffinite (nth i (tsub t) 0%float) /\ ffinite (nth i (tsup t) 0%float))) ->
  ((forall i, (i < tn t)%nat -> (Rabs (FR (nth i (tmain t) 0%float)) <= bpow radix2 300)%R) /\
   (forall i, (i + 1 < tn t)%nat ->
      (FR (nth i (tsub t) 0%float) = 0%R \/ (bpow radix2 (-300) <= Rabs (FR (nth i (tsub t) 0%float)))%R) /\
      (FR (nth i (tsup t) 0%float) = 0%R \/ (bpow radix2 (-300) <= Rabs (FR (nth i (tsup t) 0%float)))%R))) ->
  (forall i, (i < tn t)%nat ->
     ((Rabs (FR (nth i (0%float :: tsub t) 0%float)) + Rabs (FR (nth i (tsup t) 0%float))) * (1 + u64)
      < Rabs (FR (nth i (tmain t) 0%float)) * (1 - u64))%R) ->
  exists x, tsolve (A := AF) t r = Ok x /\ length x = tn t /\
    ((forall i, (i < tn t)%nat -> ffinite (nth i x 0%float)) ->
  ((forall k, (k < tn t)%nat -> no_underflow (FR (tnum t r k) / FR (tbeta t k))%R) /\
  (forall k, (k + 1 < tn t)%nat ->
     no_underflow (FR (nth k (tsub t) 0%float) * FR (ty t r k))%R /\
     no_underflow (FR (tgamma t (k + 1)) * FR (nth (k + 1) x 0%float))%R)) ->
  forall i, (i < tn t)%nat -> exists da db dc : R,
    (Rabs da <= 3 * u64 * Rabs (FR (nth i (0%float :: tsub t) 0%float)) /\
     Rabs db <= 5 * u64 * Rabs (FR (nth i (tmain t) 0%float)) + 9 * u64 * Rabs (FR (nth i (0%float :: tsub t) 0%float)) /\
     Rabs dc <= 5 * u64 * Rabs (FR (nth i (tsup t) 0%float)) /\
     (FR (nth i (0%float :: tsub t) 0%float) + da) * FR (nth i (0%float :: x) 0%float)
     + (FR (nth i (tmain t) 0%float) + db) * FR (nth i x 0%float)
     + (FR (nth i (tsup t) 0%float) + dc) * FR (nth (i + 1) x 0%float) = FR (nth i r 0%float))%R).
Proof. intros t r. exact (thomas_dominant_float_partial_lemma t r). Qed.
Check thomas_dominant_float_partial : forall (t : tridiag AF) (r : list pfloat),
  wfT t -> (1 <= tn t)%nat -> length r = tn t ->
  ((forall i, (i < tn t)%nat -> ffinite (nth i (tmain t) 0%float)) /\
   (forall i, (i + 1 < tn t)%nat -> ffinite (nth i (tsub t) 0%float) /\ ffinite (nth i (tsup t) 0%float))) ->
  ((forall i, (i < tn t)%nat -> (Rabs (FR (nth i (tmain t) 0%float)) <= bpow radix2 300)%R) /\
   (forall i, (i + 1 < tn t)%nat ->
      (FR (nth i (tsub t) 0%float) = 0%R \/ (bpow radix2 (-300) <= Rabs (FR (nth i (tsub t) 0%float)))%R) /\
      (FR (nth i (tsup t) 0%float) = 0%R \/ (bpow radix2 (-300) <= Rabs (FR (nth i (tsup t) 0%float)))%R))) ->
  (forall i, (i < tn t)%nat ->
     ((Rabs (FR (nth i (0%float :: tsub t) 0%float)) + Rabs (FR (nth i (tsup t) 0%float))) * (1 + u64)
      < Rabs (FR (nth i (tmain t) 0%float)) * (1 - u64))%R) ->
  exists x, tsolve (A := AF) t r = Ok x /\ length x = tn t /\
    ((forall i, (i < tn t)%nat -> ffinite (nth i x 0%float)) ->
  ((forall k, (k < tn t)%nat -> no_underflow (FR (tnum t r k) / FR (tbeta t k))%R) /\
  (forall k, (k + 1 < tn t)%nat ->
     no_underflow (FR (nth k (tsub t) 0%float) * FR (ty t r k))%R /\
     no_underflow (FR (tgamma t (k + 1)) * FR (nth (k + 1) x 0%float))%R)) ->
  forall i, (i < tn t)%nat -> exists da db dc : R,
    (Rabs da <= 3 * u64 * Rabs (FR (nth i (0%float :: tsub t) 0%float)) /\
     Rabs db <= 5 * u64 * Rabs (FR (nth i (tmain t) 0%float)) + 9 * u64 * Rabs (FR (nth i (0%float :: tsub t) 0%float)) /\
     Rabs dc <= 5 * u64 * Rabs (FR (nth i (tsup t) 0%float)) /\
     (FR (nth i (0%float :: tsub t) 0%float) + da) * FR (nth i (0%float :: x) 0%float)
     + (FR (nth i (tmain t) 0%float) + db) * FR (nth i x 0%float)
     + (FR (nth i (tsup t) 0%float) + dc) * FR (nth (i + 1) x 0%float) = FR (nth i r 0%float))%R).
Print Assumptions thomas_dominant_float_partial.
Example thomas_dominant_float_partial_nonvacuous :
  let t := exT_t in let r := exT_r in let x := exT_x in
  wfT t /\ (1 <= tn t)%nat /\ length r = tn t /\
  ((forall i, (i < tn t)%nat -> ffinite (nth i (tmain t) 0%float)) /\
   (forall i, (i + 1 < tn t)%nat -> ffinite (nth i (tsub t) 0%float) /\ ffinite (nth i (tsup t) 0%float))) /\
  ((forall i, (i < tn t)%nat -> (Rabs (FR (nth i (tmain t) 0%float)) <= bpow radix2 300)%R) /\
   (forall i, (i + 1 < tn t)%nat ->
      (FR (nth i (tsub t) 0%float) = 0%R \/ (bpow radix2 (-300) <= Rabs (FR (nth i (tsub t) 0%float)))%R) /\
      (FR (nth i (tsup t) 0%float) = 0%R \/ (bpow radix2 (-300) <= Rabs (FR (nth i (tsup t) 0%float)))%R))) /\
  (forall i, (i < tn t)%nat ->
     ((Rabs (FR (nth i (0%float :: tsub t) 0%float)) + Rabs (FR (nth i (tsup t) 0%float))) * (1 + u64)
      < Rabs (FR (nth i (tmain t) 0%float)) * (1 - u64))%R) /\
  tsolve (A := AF) t r = Ok x /\
  (forall i, (i < tn t)%nat -> ffinite (nth i x 0%float)) /\
  (forall k, (k < tn t)%nat -> no_underflow (FR (tnum t r k) / FR (tbeta t k))%R) /\
  (forall k, (k + 1 < tn t)%nat ->
     no_underflow (FR (nth k (tsub t) 0%float) * FR (ty t r k))%R /\
     no_underflow (FR (tgamma t (k + 1)) * FR (nth (k + 1) x 0%float))%R).
Proof.
  cbv zeta. destruct exT_conditions as (W & Hn & Hr & Fx & Fb & UM & UQ & UR). destruct exT_data as (HF & HS & D).
  split; [exact W|]. split; [exact Hn|]. split; [exact Hr|]. split; [exact HF|]. split; [exact HS|]. split; [exact D|].
  split; [exact exT_solve|]. split; [exact Fx|]. split; [exact UQ|exact UR].
Qed.

(* gradual underflow allowed in the right-hand-side part (products sub*y, gamma*x and quotients num/beta may be subnormal or
   flush to zero): IEEE rounding obeys fl(v) = v(1+d) + e, |e| <= 2^-1075, and the row equations hold up to an ABSOLUTE residual
   |dr_i| <= 2^-1075 (1 + 2|a_i| + 3|beta_i|).  Only the matrix part must be free of underflow. *)
Theorem thomas_backward_error_float_uf : forall (t : tridiag AF) (r x : list pfloat),
  wfT t -> (1 <= tn t)%nat -> length r = tn t -> tsolve (A := AF) t r = Ok x ->
  (forall i, (i < tn t)%nat -> ffinite (nth i x 0%float)) ->
  (forall k, (k < tn t)%nat -> ffinite (tbeta t k)) ->
  (forall k, (k + 1 < tn t)%nat ->
     no_underflow (FR (nth k (tsup t) 0%float) / FR (tbeta t k))%R /\
     no_underflow (FR (nth k (tsub t) 0%float) * FR (tgamma t (k + 1)))%R) ->
  length x = tn t /\
  forall i, (i < tn t)%nat -> exists ea eb ec eg dr : R,
    (Rabs ea <= 3 * u64 /\ Rabs eb <= 5 * u64 /\ Rabs ec <= 5 * u64 /\ Rabs eg <= 9 * u64 /\
     Rabs dr <= eta64 * (1 + 2 * Rabs (FR (nth i (0%float :: tsub t) 0%float)) + 3 * Rabs (FR (tbeta t i))) /\
     FR (nth i (0%float :: tsub t) 0%float) * (1 + ea) * FR (nth i (0%float :: x) 0%float)
     + (FR (nth i (tmain t) 0%float) * (1 + eb)
        + FR (nth i (0%float :: tsub t) 0%float) * FR (tgamma t i) * eg) * FR (nth i x 0%float)
     + FR (nth i (tsup t) 0%float) * (1 + ec) * FR (nth (i + 1) x 0%float) = FR (nth i r 0%float) + dr)%R.
Proof. intros t r x. exact (thomas_backward_error_float_uf_lemma t r x). Qed.
Check thomas_backward_error_float_uf : forall (t : tridiag AF) (r x : list pfloat),
  wfT t -> (1 <= tn t)%nat -> length r = tn t -> tsolve (A := AF) t r = Ok x ->
  (forall i, (i < tn t)%nat -> ffinite (nth i x 0%float)) ->
  (forall k, (k < tn t)%nat -> ffinite (tbeta t k)) ->
  (forall k, (k + 1 < tn t)%nat ->
     no_underflow (FR (nth k (tsup t) 0%float) / FR (tbeta t k))%R /\
     no_underflow (FR (nth k (tsub t) 0%float) * FR (tgamma t (k + 1)))%R) ->
  length x = tn t /\
  forall i, (i < tn t)%nat -> exists ea eb ec eg dr : R,
    (Rabs ea <= 3 * u64 /\ Rabs eb <= 5 * u64 /\ Rabs ec <= 5 * u64 /\ Rabs eg <= 9 * u64 /\
     Rabs dr <= eta64 * (1 + 2 * Rabs (FR (nth i (0%float :: tsub t) 0%float)) + 3 * Rabs (FR (tbeta t i))) /\
     FR (nth i (0%float :: tsub t) 0%float) * (1 + ea) * FR (nth i (0%float :: x) 0%float)
     + (FR (nth i (tmain t) 0%float) * (1 + eb)
        + FR (nth i (0%float :: tsub t) 0%float) * FR (tgamma t i) * eg) * FR (nth i x 0%float)
     + FR (nth i (tsup t) 0%float) * (1 + ec) * FR (nth (i + 1) x 0%float) = FR (nth i r 0%float) + dr)%R.
Print Assumptions thomas_backward_error_float_uf.
(* the same matrix with r = [2^-1060; 0; 0]: y_0 = 2^-1062 and sub_0 * y_0 is subnormal (last conjunct), all hypotheses hold *)
Example thomas_backward_error_float_uf_nonvacuous :
  let t := exT_t in let r := exU_r in let x := exU_x in
  wfT t /\ (1 <= tn t)%nat /\ length r = tn t /\ tsolve (A := AF) t r = Ok x /\
  (forall i, (i < tn t)%nat -> ffinite (nth i x 0%float)) /\
  (forall k, (k < tn t)%nat -> ffinite (tbeta t k)) /\
  (forall k, (k + 1 < tn t)%nat ->
     no_underflow (FR (nth k (tsup t) 0%float) / FR (tbeta t k))%R /\
     no_underflow (FR (nth k (tsub t) 0%float) * FR (tgamma t (k + 1)))%R) /\
  ~ no_underflow (FR (nth 0 (tsub t) 0%float) * FR (ty t r 0))%R.
Proof.
  cbv zeta. destruct exT_conditions as (W & Hn & _ & _ & Fb & UM & _).
  split; [exact W|]. split; [exact Hn|]. split; [reflexivity|]. split; [exact exU_solve|]. split; [exact exU_finite|].
  split; [exact Fb|]. split; [exact UM|exact (proj2 exU_underflows)].
Qed.

(* dominant + scaled matrices (hypotheses on the data as in thomas_dominant_float_partial): a finite answer is backward stable up to the
   absolute residual |dr_i| <= 2^-1075 (1 + 11 |b_i|) -- no condition on the right-hand-side part of the computation is left.
   PARTIAL: finiteness of the answer remains a hypothesis (for the margin (1+u)/(1-u) the computed x is not bounded by the data). *)
Theorem thomas_dominant_float_uf_partial : forall (t : tridiag AF) (r : list pfloat),
  wfT t -> (1 <= tn t)%nat -> length r = tn t ->
  ((forall i, (i < tn t)%nat -> ffinite (nth i (tmain t) 0%float)) /\
   (forall i, (i + 1 < tn t)%nat -> ffinite (nth i (tsub t) 0%float) /\ ffinite (nth i (tsup t) 0%float))) ->
  ((forall i, (i < tn t)%nat -> (Rabs (FR (nth i (tmain t) 0%float)) <= bpow radix2 300)%R) /\
   (forall i, (i + 1 < tn t)%nat ->
      (FR (nth i (tsub t) 0%float) = 0%R \/ (bpow radix2 (-300) <= Rabs (FR (nth i (tsub t) 0%float)))%R) /\
      (FR (nth i (tsup t) 0%float) = 0%R \/ (bpow radix2 (-300) <= Rabs (FR (nth i (tsup t) 0%float)))%R))) ->
  (forall i, (i < tn t)%nat ->
     ((Rabs (FR (nth i (0%float :: tsub t) 0%float)) + Rabs (FR (nth i (tsup t) 0%float))) * (1 + u64)
      < Rabs (FR (nth i (tmain t) 0%float)) * (1 - u64))%R) ->
  exists x, tsolve (A := AF) t r = Ok x /\ length x = tn t /\
    ((forall i, (i < tn t)%nat -> ffinite (nth i x 0%float)) ->
  forall i, (i < tn t)%nat -> exists da db dc dr : R,
    (Rabs da <= 3 * u64 * Rabs (FR (nth i (0%float :: tsub t) 0%float)) /\
     Rabs db <= 5 * u64 * Rabs (FR (nth i (tmain t) 0%float)) + 9 * u64 * Rabs (FR (nth i (0%float :: tsub t) 0%float)) /\
     Rabs dc <= 5 * u64 * Rabs (FR (nth i (tsup t) 0%float)) /\
     Rabs dr <= eta64 * (1 + 11 * Rabs (FR (nth i (tmain t) 0%float))) /\
     (FR (nth i (0%float :: tsub t) 0%float) + da) * FR (nth i (0%float :: x) 0%float)
     + (FR (nth i (tmain t) 0%float) + db) * FR (nth i x 0%float)
     + (FR (nth i (tsup t) 0%float) + dc) * FR (nth (i + 1) x 0%float) = FR (nth i r 0%float) + dr)%R).
Proof. intros t r. exact (thomas_dominant_float_uf_partial_lemma t r). Qed.
Check thomas_dominant_float_uf_partial : forall (t : tridiag AF) (r : list pfloat),
  wfT t -> (1 <= tn t)%nat -> length r = tn t ->
  ((forall i, (i < tn t)%nat -> ffinite (nth i (tmain t) 0%float)) /\
   (forall i, (i + 1 < tn t)%nat -> ffinite (nth i (tsub t) 0%float) /\ ffinite (nth i (tsup t) 0%float))) ->
  ((forall i, (i < tn t)%nat -> (Rabs (FR (nth i (tmain t) 0%float)) <= bpow radix2 300)%R) /\
   (forall i, (i + 1 < tn t)%nat ->
      (FR (nth i (tsub t) 0%float) = 0%R \/ (bpow radix2 (-300) <= Rabs (FR (nth i (tsub t) 0%float)))%R) /\
      (FR (nth i (tsup t) 0%float) = 0%R \/ (bpow radix2 (-300) <= Rabs (FR (nth i (tsup t) 0%float)))%R))) ->
  (forall i, (i < tn t)%nat ->
     ((Rabs (FR (nth i (0%float :: tsub t) 0%float)) + Rabs (FR (nth i (tsup t) 0%float))) * (1 + u64)
      < Rabs (FR (nth i (tmain t) 0%float)) * (1 - u64))%R) ->
  exists x, tsolve (A := AF) t r = Ok x /\ length x = tn t /\
    ((forall i, (i < tn t)%nat -> ffinite (nth i x 0%float)) ->
  forall i, (i < tn t)%nat -> exists da db dc dr : R,
    (Rabs da <= 3 * u64 * Rabs (FR (nth i (0%float :: tsub t) 0%float)) /\
     Rabs db <= 5 * u64 * Rabs (FR (nth i (tmain t) 0%float)) + 9 * u64 * Rabs (FR (nth i (0%float :: tsub t) 0%float)) /\
     Rabs dc <= 5 * u64 * Rabs (FR (nth i (tsup t) 0%float)) /\
     Rabs dr <= eta64 * (1 + 11 * Rabs (FR (nth i (tmain t) 0%float))) /\
     (FR (nth i (0%float :: tsub t) 0%float) + da) * FR (nth i (0%float :: x) 0%float)
     + (FR (nth i (tmain t) 0%float) + db) * FR (nth i x 0%float)
     + (FR (nth i (tsup t) 0%float) + dc) * FR (nth (i + 1) x 0%float) = FR (nth i r 0%float) + dr)%R).
Print Assumptions thomas_dominant_float_uf_partial.
Example thomas_dominant_float_uf_partial_nonvacuous :
  let t := exT_t in let r := exU_r in let x := exU_x in
  wfT t /\ (1 <= tn t)%nat /\ length r = tn t /\
  ((forall i, (i < tn t)%nat -> ffinite (nth i (tmain t) 0%float)) /\
   (forall i, (i + 1 < tn t)%nat -> ffinite (nth i (tsub t) 0%float) /\ ffinite (nth i (tsup t) 0%float))) /\
  ((forall i, (i < tn t)%nat -> (Rabs (FR (nth i (tmain t) 0%float)) <= bpow radix2 300)%R) /\
   (forall i, (i + 1 < tn t)%nat ->
      (FR (nth i (tsub t) 0%float) = 0%R \/ (bpow radix2 (-300) <= Rabs (FR (nth i (tsub t) 0%float)))%R) /\
      (FR (nth i (tsup t) 0%float) = 0%R \/ (bpow radix2 (-300) <= Rabs (FR (nth i (tsup t) 0%float)))%R))) /\
  (forall i, (i < tn t)%nat ->
     ((Rabs (FR (nth i (0%float :: tsub t) 0%float)) + Rabs (FR (nth i (tsup t) 0%float))) * (1 + u64)
      < Rabs (FR (nth i (tmain t) 0%float)) * (1 - u64))%R) /\
  tsolve (A := AF) t r = Ok x /\
  (forall i, (i < tn t)%nat -> ffinite (nth i x 0%float)).
Proof.
  cbv zeta. destruct exT_conditions as (W & Hn & _). destruct exT_data as (HF & HS & D).
  split; [exact W|]. split; [exact Hn|]. split; [reflexivity|]. split; [exact HF|]. split; [exact HS|]. split; [exact D|].
  split; [exact exU_solve|exact exU_finite].
Qed.

(* HYPOTHESES ON THE DATA ONLY, every size n: entries finite, 2^-300 <= |main_i| <= 2^300, off-diagonal entries zero or >= 2^-300,
   |r_i| <= 2^300, dominance by the factor 2.  Then solve answers, every x_i is finite (no intermediate overflows: |y_k| <= 2^603,
   |x_k| <= 2^605, shown by induction along the two sweeps), and x is backward stable up to 2^-1075 (1 + 11|b_i|) per row. *)
Theorem thomas_dominant_float : forall (t : tridiag AF) (r : list pfloat),
  wfT t -> (1 <= tn t)%nat -> length r = tn t ->
  ((forall i, (i < tn t)%nat -> ffinite (nth i (tmain t) 0%float)) /\
   (forall i, (i + 1 < tn t)%nat -> ffinite (nth i (tsub t) 0%float) /\ ffinite (nth i (tsup t) 0%float))) ->
  ((forall i, (i < tn t)%nat -> (Rabs (FR (nth i (tmain t) 0%float)) <= bpow radix2 300)%R) /\
   (forall i, (i + 1 < tn t)%nat ->
      (FR (nth i (tsub t) 0%float) = 0%R \/ (bpow radix2 (-300) <= Rabs (FR (nth i (tsub t) 0%float)))%R) /\
      (FR (nth i (tsup t) 0%float) = 0%R \/ (bpow radix2 (-300) <= Rabs (FR (nth i (tsup t) 0%float)))%R))) ->
  (forall i, (i < tn t)%nat -> (bpow radix2 (-300) <= Rabs (FR (nth i (tmain t) 0%float)))%R) ->
  (forall i, (i < tn t)%nat ->
     (2 * (Rabs (FR (nth i (0%float :: tsub t) 0%float)) + Rabs (FR (nth i (tsup t) 0%float)))
      <= Rabs (FR (nth i (tmain t) 0%float)))%R) ->
  (forall i, (i < tn t)%nat -> ffinite (nth i r 0%float) /\ (Rabs (FR (nth i r 0%float)) <= bpow radix2 300)%R) ->
  exists x, tsolve (A := AF) t r = Ok x /\ length x = tn t /\
    (forall i, (i < tn t)%nat -> ffinite (nth i x 0%float)) /\
  forall i, (i < tn t)%nat -> exists da db dc dr : R,
    (Rabs da <= 3 * u64 * Rabs (FR (nth i (0%float :: tsub t) 0%float)) /\
     Rabs db <= 5 * u64 * Rabs (FR (nth i (tmain t) 0%float)) + 9 * u64 * Rabs (FR (nth i (0%float :: tsub t) 0%float)) /\
     Rabs dc <= 5 * u64 * Rabs (FR (nth i (tsup t) 0%float)) /\
     Rabs dr <= eta64 * (1 + 11 * Rabs (FR (nth i (tmain t) 0%float))) /\
     (FR (nth i (0%float :: tsub t) 0%float) + da) * FR (nth i (0%float :: x) 0%float)
     + (FR (nth i (tmain t) 0%float) + db) * FR (nth i x 0%float)
     + (FR (nth i (tsup t) 0%float) + dc) * FR (nth (i + 1) x 0%float) = FR (nth i r 0%float) + dr)%R.
Proof. intros t r W Hn Hr HF HS Bl SD Fr. exact (thomas_dominant_float_lemma t Hn HF HS Bl SD r W Hr Fr). Qed.
Check thomas_dominant_float : forall (t : tridiag AF) (r : list pfloat),
  wfT t -> (1 <= tn t)%nat -> length r = tn t ->
  ((forall i, (i < tn t)%nat -> ffinite (nth i (tmain t) 0%float)) /\
   (forall i, (i + 1 < tn t)%nat -> ffinite (nth i (tsub t) 0%float) /\ ffinite (nth i (tsup t) 0%float))) ->
  ((forall i, (i < tn t)%nat -> (Rabs (FR (nth i (tmain t) 0%float)) <= bpow radix2 300)%R) /\
   (forall i, (i + 1 < tn t)%nat ->
      (FR (nth i (tsub t) 0%float) = 0%R \/ (bpow radix2 (-300) <= Rabs (FR (nth i (tsub t) 0%float)))%R) /\
      (FR (nth i (tsup t) 0%float) = 0%R \/ (bpow radix2 (-300) <= Rabs (FR (nth i (tsup t) 0%float)))%R))) ->
  (forall i, (i < tn t)%nat -> (bpow radix2 (-300) <= Rabs (FR (nth i (tmain t) 0%float)))%R) ->
  (forall i, (i < tn t)%nat ->
     (2 * (Rabs (FR (nth i (0%float :: tsub t) 0%float)) + Rabs (FR (nth i (tsup t) 0%float)))
      <= Rabs (FR (nth i (tmain t) 0%float)))%R) ->
  (forall i, (i < tn t)%nat -> ffinite (nth i r 0%float) /\ (Rabs (FR (nth i r 0%float)) <= bpow radix2 300)%R) ->
  exists x, tsolve (A := AF) t r = Ok x /\ length x = tn t /\
    (forall i, (i < tn t)%nat -> ffinite (nth i x 0%float)) /\
  forall i, (i < tn t)%nat -> exists da db dc dr : R,
    (Rabs da <= 3 * u64 * Rabs (FR (nth i (0%float :: tsub t) 0%float)) /\
     Rabs db <= 5 * u64 * Rabs (FR (nth i (tmain t) 0%float)) + 9 * u64 * Rabs (FR (nth i (0%float :: tsub t) 0%float)) /\
     Rabs dc <= 5 * u64 * Rabs (FR (nth i (tsup t) 0%float)) /\
     Rabs dr <= eta64 * (1 + 11 * Rabs (FR (nth i (tmain t) 0%float))) /\
     (FR (nth i (0%float :: tsub t) 0%float) + da) * FR (nth i (0%float :: x) 0%float)
     + (FR (nth i (tmain t) 0%float) + db) * FR (nth i x 0%float)
     + (FR (nth i (tsup t) 0%float) + dc) * FR (nth (i + 1) x 0%float) = FR (nth i r 0%float) + dr)%R.
Print Assumptions thomas_dominant_float.
(* met by the matrix above with the UNDERFLOWING right-hand side r = [2^-1060; 0; 0] *)
Example thomas_dominant_float_nonvacuous :
  let t := exT_t in let r := exU_r in
  wfT t /\ (1 <= tn t)%nat /\ length r = tn t /\
  ((forall i, (i < tn t)%nat -> ffinite (nth i (tmain t) 0%float)) /\
   (forall i, (i + 1 < tn t)%nat -> ffinite (nth i (tsub t) 0%float) /\ ffinite (nth i (tsup t) 0%float))) /\
  ((forall i, (i < tn t)%nat -> (Rabs (FR (nth i (tmain t) 0%float)) <= bpow radix2 300)%R) /\
   (forall i, (i + 1 < tn t)%nat ->
      (FR (nth i (tsub t) 0%float) = 0%R \/ (bpow radix2 (-300) <= Rabs (FR (nth i (tsub t) 0%float)))%R) /\
      (FR (nth i (tsup t) 0%float) = 0%R \/ (bpow radix2 (-300) <= Rabs (FR (nth i (tsup t) 0%float)))%R))) /\
  (forall i, (i < tn t)%nat -> (bpow radix2 (-300) <= Rabs (FR (nth i (tmain t) 0%float)))%R) /\
  (forall i, (i < tn t)%nat ->
     (2 * (Rabs (FR (nth i (0%float :: tsub t) 0%float)) + Rabs (FR (nth i (tsup t) 0%float)))
      <= Rabs (FR (nth i (tmain t) 0%float)))%R) /\
  (forall i, (i < tn t)%nat -> ffinite (nth i r 0%float) /\ (Rabs (FR (nth i r 0%float)) <= bpow radix2 300)%R) /\
  ~ no_underflow (FR (nth 0 (tsub t) 0%float) * FR (ty t r 0))%R.
Proof.
  cbv zeta. destruct exT_conditions as (W & Hn & _). destruct exT_data as (HF & HS & _).
  destruct exT_data_strong as (_ & Bl & SD). destruct exU_underflows as (Fr & U).
  split; [exact W|]. split; [exact Hn|]. split; [reflexivity|]. split; [exact HF|]. split; [exact HS|]. split; [exact Bl|].
  split; [exact SD|]. split; [exact Fr|exact U].
Qed.

(* ... and by a family of EVERY size: tridiag(1, 4, 1) of order n with right-hand side (1, ..., 1); hence solve answers it with
   finite components at binary64 for every n >= 1 *)
Example thomas_dominant_float_nonvacuous_all_n : forall n, (1 <= n)%nat ->
  let t := lapT n in let r := repeat 1%float n in
  (wfT t /\ (1 <= tn t)%nat /\ length r = tn t /\
  ((forall i, (i < tn t)%nat -> ffinite (nth i (tmain t) 0%float)) /\
   (forall i, (i + 1 < tn t)%nat -> ffinite (nth i (tsub t) 0%float) /\ ffinite (nth i (tsup t) 0%float))) /\
  ((forall i, (i < tn t)%nat -> (Rabs (FR (nth i (tmain t) 0%float)) <= bpow radix2 300)%R) /\
   (forall i, (i + 1 < tn t)%nat ->
      (FR (nth i (tsub t) 0%float) = 0%R \/ (bpow radix2 (-300) <= Rabs (FR (nth i (tsub t) 0%float)))%R) /\
      (FR (nth i (tsup t) 0%float) = 0%R \/ (bpow radix2 (-300) <= Rabs (FR (nth i (tsup t) 0%float)))%R))) /\
  (forall i, (i < tn t)%nat -> (bpow radix2 (-300) <= Rabs (FR (nth i (tmain t) 0%float)))%R) /\
  (forall i, (i < tn t)%nat ->
     (2 * (Rabs (FR (nth i (0%float :: tsub t) 0%float)) + Rabs (FR (nth i (tsup t) 0%float)))
      <= Rabs (FR (nth i (tmain t) 0%float)))%R) /\
  (forall i, (i < tn t)%nat -> ffinite (nth i r 0%float) /\ (Rabs (FR (nth i r 0%float)) <= bpow radix2 300)%R)) /\
  exists x, tsolve (A := AF) t r = Ok x /\ length x = n /\ forall i, (i < n)%nat -> ffinite (nth i x 0%float).
Proof. intros n Hn. cbv zeta. split; [exact (lapT_hyps n Hn)|exact (lapT_solved n Hn)]. Qed.

(* the same in the form a numerical oracle measures: the residual of the computed solution, row by row; with
   |a_i| + |b_i| + |c_i| <= ||T||_inf it is at most 14 u ||T||_inf ||x||_inf + 2^-1075 (1 + 11|b_i|), u = 2^-53 = 1.1e-16
   (driver/c05.py allows 1e-11 (||T|| ||x|| + ||r||), about 6400 times more) *)
Theorem thomas_dominant_float_residual : forall (t : tridiag AF) (r : list pfloat),
  wfT t -> (1 <= tn t)%nat -> length r = tn t ->
  ((forall i, (i < tn t)%nat -> ffinite (nth i (tmain t) 0%float)) /\
   (forall i, (i + 1 < tn t)%nat -> ffinite (nth i (tsub t) 0%float) /\ ffinite (nth i (tsup t) 0%float))) ->
  ((forall i, (i < tn t)%nat -> (Rabs (FR (nth i (tmain t) 0%float)) <= bpow radix2 300)%R) /\
   (forall i, (i + 1 < tn t)%nat ->
      (FR (nth i (tsub t) 0%float) = 0%R \/ (bpow radix2 (-300) <= Rabs (FR (nth i (tsub t) 0%float)))%R) /\
      (FR (nth i (tsup t) 0%float) = 0%R \/ (bpow radix2 (-300) <= Rabs (FR (nth i (tsup t) 0%float)))%R))) ->
  (forall i, (i < tn t)%nat -> (bpow radix2 (-300) <= Rabs (FR (nth i (tmain t) 0%float)))%R) ->
  (forall i, (i < tn t)%nat ->
     (2 * (Rabs (FR (nth i (0%float :: tsub t) 0%float)) + Rabs (FR (nth i (tsup t) 0%float)))
      <= Rabs (FR (nth i (tmain t) 0%float)))%R) ->
  (forall i, (i < tn t)%nat -> ffinite (nth i r 0%float) /\ (Rabs (FR (nth i r 0%float)) <= bpow radix2 300)%R) ->
  exists x, tsolve (A := AF) t r = Ok x /\ length x = tn t /\
    (forall i, (i < tn t)%nat -> ffinite (nth i x 0%float)) /\
  forall i, (i < tn t)%nat ->
    (Rabs (FR (nth i r 0%float)
           - (FR (nth i (0%float :: tsub t) 0%float) * FR (nth i (0%float :: x) 0%float)
              + FR (nth i (tmain t) 0%float) * FR (nth i x 0%float)
              + FR (nth i (tsup t) 0%float) * FR (nth (i + 1) x 0%float)))
     <= u64 * (3 * Rabs (FR (nth i (0%float :: tsub t) 0%float)) * Rabs (FR (nth i (0%float :: x) 0%float))
               + (5 * Rabs (FR (nth i (tmain t) 0%float)) + 9 * Rabs (FR (nth i (0%float :: tsub t) 0%float)))
                 * Rabs (FR (nth i x 0%float))
               + 5 * Rabs (FR (nth i (tsup t) 0%float)) * Rabs (FR (nth (i + 1) x 0%float)))
        + eta64 * (1 + 11 * Rabs (FR (nth i (tmain t) 0%float))))%R.
Proof. intros t r. exact (thomas_dominant_float_residual_lemma t r). Qed.
Check thomas_dominant_float_residual : forall (t : tridiag AF) (r : list pfloat),
  wfT t -> (1 <= tn t)%nat -> length r = tn t ->
  ((forall i, (i < tn t)%nat -> ffinite (nth i (tmain t) 0%float)) /\
   (forall i, (i + 1 < tn t)%nat -> ffinite (nth i (tsub t) 0%float) /\ ffinite (nth i (tsup t) 0%float))) ->
  ((forall i, (i < tn t)%nat -> (Rabs (FR (nth i (tmain t) 0%float)) <= bpow radix2 300)%R) /\
   (forall i, (i + 1 < tn t)%nat ->
      (FR (nth i (tsub t) 0%float) = 0%R \/ (bpow radix2 (-300) <= Rabs (FR (nth i (tsub t) 0%float)))%R) /\
      (FR (nth i (tsup t) 0%float) = 0%R \/ (bpow radix2 (-300) <= Rabs (FR (nth i (tsup t) 0%float)))%R))) ->
  (forall i, (i < tn t)%nat -> (bpow radix2 (-300) <= Rabs (FR (nth i (tmain t) 0%float)))%R) ->
  (forall i, (i < tn t)%nat ->
     (2 * (Rabs (FR (nth i (0%float :: tsub t) 0%float)) + Rabs (FR (nth i (tsup t) 0%float)))
      <= Rabs (FR (nth i (tmain t) 0%float)))%R) ->
  (forall i, (i < tn t)%nat -> ffinite (nth i r 0%float) /\ (Rabs (FR (nth i r 0%float)) <= bpow radix2 300)%R) ->
  exists x, tsolve (A := AF) t r = Ok x /\ length x = tn t /\
    (forall i, (i < tn t)%nat -> ffinite (nth i x 0%float)) /\
  forall i, (i < tn t)%nat ->
    (Rabs (FR (nth i r 0%float)
           - (FR (nth i (0%float :: tsub t) 0%float) * FR (nth i (0%float :: x) 0%float)
              + FR (nth i (tmain t) 0%float) * FR (nth i x 0%float)
              + FR (nth i (tsup t) 0%float) * FR (nth (i + 1) x 0%float)))
     <= u64 * (3 * Rabs (FR (nth i (0%float :: tsub t) 0%float)) * Rabs (FR (nth i (0%float :: x) 0%float))
               + (5 * Rabs (FR (nth i (tmain t) 0%float)) + 9 * Rabs (FR (nth i (0%float :: tsub t) 0%float)))
                 * Rabs (FR (nth i x 0%float))
               + 5 * Rabs (FR (nth i (tsup t) 0%float)) * Rabs (FR (nth (i + 1) x 0%float)))
        + eta64 * (1 + 11 * Rabs (FR (nth i (tmain t) 0%float))))%R.
Print Assumptions thomas_dominant_float_residual.
Example thomas_dominant_float_residual_nonvacuous :   (* same instances as thomas_dominant_float_nonvacuous *)
  let t := exT_t in let r := exU_r in
  wfT t /\ (1 <= tn t)%nat /\ length r = tn t /\
  ((forall i, (i < tn t)%nat -> ffinite (nth i (tmain t) 0%float)) /\
   (forall i, (i + 1 < tn t)%nat -> ffinite (nth i (tsub t) 0%float) /\ ffinite (nth i (tsup t) 0%float))) /\
  ((forall i, (i < tn t)%nat -> (Rabs (FR (nth i (tmain t) 0%float)) <= bpow radix2 300)%R) /\
   (forall i, (i + 1 < tn t)%nat ->
      (FR (nth i (tsub t) 0%float) = 0%R \/ (bpow radix2 (-300) <= Rabs (FR (nth i (tsub t) 0%float)))%R) /\
      (FR (nth i (tsup t) 0%float) = 0%R \/ (bpow radix2 (-300) <= Rabs (FR (nth i (tsup t) 0%float)))%R))) /\
  (forall i, (i < tn t)%nat -> (bpow radix2 (-300) <= Rabs (FR (nth i (tmain t) 0%float)))%R) /\
  (forall i, (i < tn t)%nat ->
     (2 * (Rabs (FR (nth i (0%float :: tsub t) 0%float)) + Rabs (FR (nth i (tsup t) 0%float)))
      <= Rabs (FR (nth i (tmain t) 0%float)))%R) /\
  (forall i, (i < tn t)%nat -> ffinite (nth i r 0%float) /\ (Rabs (FR (nth i r 0%float)) <= bpow radix2 300)%R).
Proof.
  cbv zeta. destruct exT_conditions as (W & Hn & _). destruct exT_data as (HF & HS & _).
  destruct exT_data_strong as (_ & Bl & SD). destruct exU_underflows as (Fr & _).
  split; [exact W|]. split; [exact Hn|]. split; [reflexivity|]. split; [exact HF|]. split; [exact HS|]. split; [exact Bl|].
  split; [exact SD|exact Fr].
Qed.

(* why the pivots must be finite: sub = [-2^1023], main = [1; 2^1023], sup = [1], r = [1; 1].  beta_1 = 2^1023 + 2^1023 = +inf,
   y_1 = 2^1023 / inf = 0, and solve answers the FINITE vector [1; 0]; the true solution is close to [1/2; 1/2]. *)
Example thomas_finite_answer_hides_overflow_example :
  let t := @mkT AF [(-0x1p1023)%float] [1%float; 0x1p1023%float] [1%float] 2 in
  tsolve (A := AF) t [1%float; 1%float] = Ok [1%float; 0%float] /\ tbeta t 1 = infinity.
Proof. exact thomas_finite_answer_hides_overflow. Qed.
