(* Proofs/MeshInterp.v -- Mesh1D<f64,f64>::get_interpolated_vars (Model/Mesh.v: interp1) over R.
   On a node list that is strictly increasing with gaps wider than twice the snapping window:
   at a node the nodal values are returned; at a point of a cell that is at least the window
   away from the cell's two nodes the linear interpolant of that cell is returned.
   (The loop tests EVERY cell and the last matching one wins; the spacing hypothesis is what
   makes "the last matching cell" the right one.) *)
From Coq Require Import List Arith Lia Bool Reals Lra.
From OV Require Import Base.Panic.
From OV Require Import Base.Arith.
From OV Require Import Model.Vector.
From OV Require Import Model.Mesh.
From OV Require Import Proofs.MeshBase.
Import ListNotations.
Local Open Scope R_scope.

(* expose the real operations behind the record projections of AR *)
Ltac arR :=
  change (T AR) with R in *;
  change (@add AR) with Rplus in *; change (@sub AR) with Rminus in *;
  change (@mul AR) with Rmult in *; change (@zero AR) with 0 in *;
  change (@div AR) with Rdiv' in *; change (@ltb AR) with Rltb in *;
  change (@abs AR) with Rabs' in *.

(* ------------------------------------------------------------------ spacing of the nodes *)
Definition spaced (snap : R) (xs : list R) : Prop :=
  forall k, (k + 1 < length xs)%nat -> nth k xs 0 + 2 * snap < nth (k + 1) xs 0.

Lemma spaced_lt snap xs i j :
  0 <= snap -> spaced snap xs -> (i < j)%nat -> (j < length xs)%nat ->
  nth i xs 0 + 2 * snap < nth j xs 0.
Proof.
  intros Hs Hsp Hij. induction j as [|j IH]; [lia|]. intros Hj.
  assert (Hstep : nth j xs 0 + 2 * snap < nth (S j) xs 0).
  { replace (S j) with (j + 1)%nat by lia. apply Hsp. lia. }
  destruct (Nat.eq_dec i j) as [->|Hne]; [exact Hstep|].
  assert (nth i xs 0 + 2 * snap < nth j xs 0) by (apply IH; lia). lra.
Qed.

Lemma spaced_le snap xs i j :
  0 <= snap -> spaced snap xs -> (i <= j)%nat -> (j < length xs)%nat ->
  nth i xs 0 <= nth j xs 0.
Proof.
  intros Hs Hsp Hij Hj. destruct (Nat.eq_dec i j) as [->|Hne]; [lra|].
  assert (nth i xs 0 + 2 * snap < nth j xs 0) by (apply (spaced_lt snap); auto; lia). lra.
Qed.

(* ------------------------------------------------------------------ the cell test over R *)
Lemma Rltb_t x y : x < y -> Rltb x y = true.
Proof. apply Rltb_true. Qed.
Lemma Rltb_f x y : y <= x -> Rltb x y = false.
Proof. apply Rltb_false. Qed.

Lemma in_cell_inside snap xl xr x : xl < x -> x < xr -> @in_cell AR snap xl xr x = true.
Proof.
  intros H1 H2. unfold in_cell, gtb. arR.
  rewrite (Rltb_t xl x H1), (Rltb_t x xr H2). reflexivity.
Qed.

Lemma in_cell_left snap xl xr : 0 < snap -> @in_cell AR snap xl xr xl = true.
Proof.
  intros Hs. unfold in_cell, gtb. arR.
  rewrite (Rltb_t (Rabs' (xl - xl)) snap).
  - now rewrite orb_true_r.
  - rewrite Rabs'_Rabs. replace (xl - xl) with 0 by lra. now rewrite Rabs_R0.
Qed.

Lemma in_cell_right snap xl xr : 0 < snap -> @in_cell AR snap xl xr xr = true.
Proof.
  intros Hs. unfold in_cell, gtb. arR.
  rewrite (Rltb_t (Rabs' (xr - xr)) snap).
  - now rewrite orb_true_r.
  - rewrite Rabs'_Rabs. replace (xr - xr) with 0 by lra. now rewrite Rabs_R0.
Qed.

(* a cell lying at least the window to the right of x does not match *)
Lemma in_cell_beyond snap xl xr x :
  0 <= snap -> x + snap <= xl -> x + snap <= xr -> @in_cell AR snap xl xr x = false.
Proof.
  intros Hs H1 H2. unfold in_cell, gtb. arR.
  rewrite (Rltb_f xl x) by lra. cbn [andb orb].
  rewrite !Rabs'_Rabs.
  rewrite (Rltb_f (Rabs (xl - x)) snap) by (rewrite Rabs_right; lra).
  rewrite (Rltb_f (Rabs (xr - x)) snap) by (rewrite Rabs_right; lra).
  reflexivity.
Qed.

(* ------------------------------------------------------------------ the line of one cell *)
Definition lerp_row (xl xr x : R) (L Rr : list R) : list R :=
  map (fun p => fst p + (snd p - fst p) / (xr - xl) * (x - xl)) (combine L Rr).

Lemma lerp_row_left xl xr (L Rr : list R) :
  length L = length Rr -> lerp_row xl xr xl L Rr = L.
Proof.
  revert Rr; induction L as [|l L IH]; intros [|r Rr] Hlen; cbn in Hlen; try discriminate.
  - reflexivity.
  - unfold lerp_row in *. cbn [combine map fst snd]. rewrite IH by lia. f_equal.
    unfold Rdiv. ring.
Qed.

Lemma lerp_row_right xl xr (L Rr : list R) :
  length L = length Rr -> xr <> xl -> lerp_row xl xr xr L Rr = Rr.
Proof.
  intros Hlen Hne. revert Rr Hlen; induction L as [|l L IH]; intros [|r Rr] Hlen;
    cbn in Hlen; try discriminate.
  - reflexivity.
  - unfold lerp_row in *. cbn [combine map fst snd]. rewrite IH by lia. f_equal.
    field. lra.
Qed.

Lemma mapM_Rdiv (h : R) (l : list R) :
  h <> 0 -> mapM (fun x => Rdiv' x h) l = Ok (map (fun x => x / h) l).
Proof.
  intros Hh. induction l as [|a l IH]; cbn [mapM map]; [reflexivity|].
  rewrite Rdiv'_ok by exact Hh. cbn [bind]. rewrite IH. reflexivity.
Qed.

Lemma zipw_length (f : R -> R -> R) (u v : list R) :
  length (@zipw AR f u v) = Nat.min (length u) (length v).
Proof. unfold zipw. now rewrite map_length, combine_length. Qed.

Lemma lerp_zip xl xr x (L Rr : list R) :
  @zipw AR Rplus L (map (fun d => d * (x - xl)) (map (fun d => d / (xr - xl)) (@zipw AR Rminus Rr L)))
  = lerp_row xl xr x L Rr.
Proof.
  revert Rr; induction L as [|l L IH]; intros [|r Rr]; try reflexivity.
  unfold zipw, lerp_row in *. cbn [combine map fst snd]. now rewrite IH.
Qed.

(* left + ((right - left) / (xr - xl)) * (x - xl) with the guarded Vector operators *)
Lemma line_closed xl xr x (L Rr : list R) :
  length L = length Rr -> xr <> xl ->
  (let* d := @vsub AR Rr L in
   let* deriv := @vdiv AR d (xr - xl) in
   @vadd AR L (vscale deriv (x - xl))) = Ok (lerp_row xl xr x L Rr).
Proof.
  intros Hlen Hne. unfold vsub, vdiv, vadd, vscale. arR.
  rewrite Hlen, Nat.eqb_refl. cbn [bind].
  rewrite mapM_Rdiv by lra. cbn [bind].
  rewrite !map_length, zipw_length, Hlen, Nat.min_id, Nat.eqb_refl.
  now rewrite lerp_zip.
Qed.

Section Interp.
Variable m : mesh1 AR R.
Notation nodes := (m1_nodes m).
Notation vars := (m1_vars m).
Notation xs k := (nth k (m1_nodes m) 0).
Notation row k := (nth k (m1_vars m) []).

Lemma row_length k : wf1 m -> (k < length nodes)%nat -> length (row k) = m1_nvars m.
Proof.
  intros [Hlen HF] Hk. arR. rewrite Forall_forall in HF. apply HF. apply nth_In. lia.
Qed.

Lemma get_nodes_vars1_ok k :
  wf1 m -> (k < length nodes)%nat -> @get_nodes_vars1 AR R m k = Ok (row k).
Proof.
  intros [Hlen HF] Hk. unfold get_nodes_vars1. arR.
  destruct (Nat.leb_spec (length nodes) k) as [|_]; [lia|].
  apply rd_ok. lia.
Qed.

Lemma cell_line_closed k xl xr x :
  wf1 m -> (k + 1 < length nodes)%nat -> xr <> xl ->
  @cell_line AR m k xl xr x = Ok (lerp_row xl xr x (row k) (row (k + 1))).
Proof.
  intros Hwf Hk Hne. unfold cell_line. arR.
  rewrite (get_nodes_vars1_ok k) by (auto; lia). cbn [bind].
  rewrite (get_nodes_vars1_ok (k + 1)) by (auto; lia). cbn [bind].
  apply line_closed; [|exact Hne].
  rewrite !row_length by (auto; lia). reflexivity.
Qed.

(* the value the code computes in cell k *)
Definition cellv (k : nat) (x : R) : list R :=
  lerp_row (xs k) (xs (k + 1)) x (row k) (row (k + 1)).

(* the loop: the LAST matching cell determines the result *)
Lemma interp_loop_last snap x k :
  wf1 m ->
  (forall j, (j + 1 < length nodes)%nat -> xs (j + 1) <> xs j) ->
  (k + 1 < length nodes)%nat ->
  @in_cell AR snap (xs k) (xs (k + 1)) x = true ->
  (forall j, (k < j)%nat -> (j + 1 < length nodes)%nat ->
             @in_cell AR snap (xs j) (xs (j + 1)) x = false) ->
  @interp1 AR snap m x = Ok (cellv k x).
Proof.
  intros Hwf Hne Hk Hin Hout. unfold interp1, usub. arR.
  destruct (Nat.leb_spec 1 (length nodes)) as [_|]; [|lia]. cbn [bind].
  match goal with |- for_ 0 ?n ?b ?s = _ =>
    destruct (for_inv (fun i r => (k < i)%nat -> r = cellv k x) 0 n b s) as (s' & E & Hs)
  end.
  - lia.
  - intros Hk0. lia.
  - intros i r Hi HI.
    rewrite (rd_ok nodes i 0) by lia. cbn [bind].
    rewrite (rd_ok nodes (i + 1) 0) by lia. cbn [bind].
    destruct (@in_cell AR snap (xs i) (xs (i + 1)) x) eqn:Ein.
    + rewrite cell_line_closed by (auto; try lia; apply Hne; lia).
      eexists; split; [reflexivity|]. intros Hki.
      destruct (Nat.eq_dec i k) as [->|Hik]; [reflexivity|].
      rewrite Hout in Ein by lia. discriminate.
    + eexists; split; [reflexivity|]. intros Hki.
      destruct (Nat.eq_dec i k) as [->|Hik]; [congruence|].
      apply HI. lia.
  - rewrite E. f_equal. apply Hs. lia.
Qed.

Lemma spaced_ne snap :
  0 <= snap -> spaced snap nodes ->
  forall j, (j + 1 < length nodes)%nat -> xs (j + 1) <> xs j.
Proof. intros Hs Hsp j Hj. specialize (Hsp j Hj). lra. Qed.

(* I1: at a node the nodal values are returned *)
Lemma interp_at_node snap k :
  0 < snap -> wf1 m -> (2 <= length nodes)%nat -> spaced snap nodes ->
  (k < length nodes)%nat ->
  @interp1 AR snap m (xs k) = Ok (row k).
Proof.
  intros Hs Hwf Hn Hsp Hk.
  assert (Hne := spaced_ne snap (Rlt_le _ _ Hs) Hsp).
  destruct (Nat.eq_dec k (length nodes - 1)) as [Hlast|Hnl].
  - (* the last node: cell n-2 matches by its right end and is the last cell *)
    rewrite (interp_loop_last snap (xs k) (k - 1)); auto; try lia.
    + unfold cellv. replace (k - 1 + 1)%nat with k by lia.
      rewrite lerp_row_right; [reflexivity| |].
      * rewrite !row_length by (auto; lia). reflexivity.
      * replace k with (k - 1 + 1)%nat at 1 by lia. apply Hne. lia.
    + replace (k - 1 + 1)%nat with k by lia. apply in_cell_right. exact Hs.
  - (* an interior or the first node: cell k matches by its left end; later cells lie beyond *)
    rewrite (interp_loop_last snap (xs k) k); auto; try lia.
    + unfold cellv. rewrite lerp_row_left; [reflexivity|].
      rewrite !row_length by (auto; lia). reflexivity.
    + apply in_cell_left. exact Hs.
    + intros j Hkj Hj.
      assert (xs k + 2 * snap < xs j) by (apply (spaced_lt snap); auto; lia || lra).
      assert (xs k + 2 * snap < xs (j + 1)) by (apply (spaced_lt snap); auto; lia || lra).
      apply in_cell_beyond; lra.
Qed.

(* I2: inside cell k, at least the window away from its two nodes, the linear interpolant of
   cell k is returned *)
Lemma interp_in_cell snap k x :
  0 < snap -> wf1 m -> spaced snap nodes -> (k + 1 < length nodes)%nat ->
  xs k + snap <= x -> x <= xs (k + 1) - snap ->
  @interp1 AR snap m x = Ok (lerp_row (xs k) (xs (k + 1)) x (row k) (row (k + 1))).
Proof.
  intros Hs Hwf Hsp Hk Hlo Hhi.
  assert (Hne := spaced_ne snap (Rlt_le _ _ Hs) Hsp).
  rewrite (interp_loop_last snap x k); auto.
  - apply in_cell_inside; lra.
  - intros j Hkj Hj.
    assert (xs (k + 1) <= xs j) by (apply (spaced_le snap); auto; lia || lra).
    assert (xs j + 2 * snap < xs (j + 1)) by (apply Hsp; lia).
    apply in_cell_beyond; lra.
Qed.

(* the degenerate sizes: `self.nodes.size() - 1` underflows on the empty mesh (debug profile);
   a one-node mesh has no cell and the zero vector is returned *)
Lemma interp1_empty snap x :
  length nodes = 0%nat -> @interp1 AR snap m x = Panic Underflow.
Proof. intros H. unfold interp1, usub. arR. rewrite H. reflexivity. Qed.

Lemma interp1_single snap x :
  length nodes = 1%nat -> @interp1 AR snap m x = Ok (repeat 0 (m1_nvars m)).
Proof. intros H. unfold interp1, usub. arR. rewrite H. reflexivity. Qed.

End Interp.

(* ------------------------------------------------------------------ I3: at the constant of the code *)
Lemma snapR_pos : 0 < snapR.
Proof. unfold snapR. cbn. lra. Qed.

Lemma interp_at_node_snapR (m : mesh1 AR R) k :
  wf1 m -> (2 <= length (m1_nodes m))%nat -> spaced snapR (m1_nodes m) ->
  (k < length (m1_nodes m))%nat ->
  @interp1 AR snapR m (nth k (m1_nodes m) 0) = Ok (nth k (m1_vars m) []).
Proof. intros. apply interp_at_node; auto. exact snapR_pos. Qed.

Lemma interp_in_cell_snapR (m : mesh1 AR R) k x :
  wf1 m -> spaced snapR (m1_nodes m) -> (k + 1 < length (m1_nodes m))%nat ->
  nth k (m1_nodes m) 0 + snapR <= x -> x <= nth (k + 1) (m1_nodes m) 0 - snapR ->
  @interp1 AR snapR m x =
    Ok (lerp_row (nth k (m1_nodes m) 0) (nth (k + 1) (m1_nodes m) 0) x
          (nth k (m1_vars m) []) (nth (k + 1) (m1_vars m) [])).
Proof. intros. apply interp_in_cell; auto. exact snapR_pos. Qed.

(* ------------------------------------------------------------------ non-vacuity *)
Definition ex_imesh : mesh1 AR R := mkM1 (A:=AR) 1 [0; 1; 3] [[5]; [7]; [11]].

Lemma ex_imesh_spaced : spaced snapR (m1_nodes ex_imesh).
Proof.
  intros [|[|k]] Hk; cbn in Hk; try lia; unfold snapR; cbn; lra.
Qed.

Example interp_at_node_nonvacuous :
  0 < snapR /\ wf1 ex_imesh /\ (2 <= length (m1_nodes ex_imesh))%nat /\
  spaced snapR (m1_nodes ex_imesh) /\ (1 < length (m1_nodes ex_imesh))%nat /\
  @interp1 AR snapR ex_imesh 1 = Ok [7].
Proof.
  assert (Hwf : wf1 ex_imesh) by (split; [reflexivity | repeat constructor]).
  repeat split; try apply Hwf; try (cbn; lia); try exact snapR_pos; try exact ex_imesh_spaced.
  apply (interp_at_node_snapR ex_imesh 1); auto; try (cbn; lia). exact ex_imesh_spaced.
Qed.

Example interp_in_cell_nonvacuous :
  0 < snapR /\ wf1 ex_imesh /\ spaced snapR (m1_nodes ex_imesh) /\
  (1 + 1 < length (m1_nodes ex_imesh))%nat /\
  nth 1 (m1_nodes ex_imesh) 0 + snapR <= 2 /\ 2 <= nth (1 + 1) (m1_nodes ex_imesh) 0 - snapR /\
  @interp1 AR snapR ex_imesh 2 = Ok [9].
Proof.
  assert (Hwf : wf1 ex_imesh) by (split; [reflexivity | repeat constructor]).
  assert (Hlo : nth 1 (m1_nodes ex_imesh) 0 + snapR <= 2) by (unfold snapR; cbn; lra).
  assert (Hhi : 2 <= nth (1 + 1) (m1_nodes ex_imesh) 0 - snapR) by (unfold snapR; cbn; lra).
  repeat split; try apply Hwf; try (cbn; lia); try exact snapR_pos; try exact ex_imesh_spaced;
    try assumption.
  rewrite (interp_in_cell_snapR ex_imesh 1 2); auto; try (cbn; lia); try exact ex_imesh_spaced.
  unfold lerp_row. cbn. f_equal. f_equal. lra.
Qed.
