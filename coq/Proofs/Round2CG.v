(* Proofs/Round2CG.v -- package round2, C08: the DRIFT CLAUSE of the property ("up to the rounding drift of the residual
   recurrence, proportional to machine epsilon, the iteration count, ||A|| and the largest iterate") as a theorem about the
   model's [solve_cg] (Model/Iter.v) run in the STANDARD MODEL of floating-point arithmetic (Base/RoundModel.v extended by a
   rounded square root, the SArith [SARm] of Proofs/RoundNorm2.v): the SAME Gallina function the correspondence check runs
   at Qc and at the IEEE primitive floats.

   Setting.  n = order; a i j = the entries of the real matrix A, (A f)_i = Sum_j a i j f_j exact;  NA >= ||A||_2
   (N2(A f) <= NA N2 f);  [mulA] = the computed matrix-vector product of the solver, accurate to eA normwise:
   N2(mulA v - A v) <= eA N2 v  (for the CSC/dense products of the model eA = gam_m || |A| ||_2, Proofs/RoundSparse.v,
   RoundMatvec.v);  2 (n+1) u < 1.   rho = u/(1-u),  kap = 1/(1 - gam_{n+1}),  t_X g = the model's own ghost trace
   (largest COMPUTED 2-norm of an iterate or update term: what the C08 oracle reads from the float model).

     cg_drift_lemma :  solve_cg .. = Ok (IOk k, x, g)  ->
        (1-rho)^(k+1) || (b - A x) - r_k ||_2  <=  (4k+1) [ (rho NA + eA) kap t_X + rho ||b||_2 ]
     (r_k = g_t g, the recurrence residual the last convergence test used);  also for the Err(resid) exit with k = max_iter.
     cg_ok_means_solved_rounded_lemma :  solve_cg .. = Ok (IOk k, x, g)  ->
        || b - A x ||_2 <= tol kap (1+rho) (1+gam_{n+1}) ||b||'  +  (4k+1) [ ... ] / (1-rho)^(k+1)

   The per-update analysis is Proofs/Round2CGNorm.v ([axpy_drift], [start_drift]); here: the link to the model, the
   invariant of the loop and the closed form. *)
From Coq Require Import List Arith Lia Bool Reals Lra Psatz.
From OV Require Import Base.Panic Base.Arith Base.RoundModel Model.Vector Model.Iter
  Proofs.Vector Proofs.Iter Proofs.RoundDot Proofs.RoundNorm2 Proofs.Round2CGNorm.
Import ListNotations.
Local Open Scope R_scope.

(* a list of reals read as a vector: component k, 0 beyond the end *)
Definition vf (v : list R) : nat -> R := fun k => nth k v 0.
Notation len := (@length R).

(* the closed form of the recurrence  (1-r) G' <= G + 4 W *)
Lemma drift_algebra (i : nat) (G G' W W' r : R) :
  0 <= r < 1 -> (1 <= i)%nat ->
  (1 - r) ^ i * G <= (4 * INR i - 3) * W -> (1 - r) * G' <= G + 4 * W' -> W <= W' -> 0 <= W' ->
  (1 - r) ^ S i * G' <= (4 * INR (S i) - 3) * W'.
Proof.
  intros Hr Hi HG Hs HW HW'. cbn [pow]. rewrite S_INR.
  assert (P : 0 < (1 - r) ^ i) by (apply pow_lt; lra).
  assert (P1 : (1 - r) ^ i <= 1).
  { clear -Hr. induction i as [|i IH]; cbn [pow]; [lra|]. assert (0 < (1 - r) ^ i) by (apply pow_lt; lra). nra. }
  assert (Hi' : 1 <= INR i) by (change 1 with (INR 1); apply le_INR; exact Hi).
  assert (E1 : (1 - r) ^ i * ((1 - r) * G') <= (1 - r) ^ i * (G + 4 * W')) by (apply Rmult_le_compat_l; lra).
  assert (E2 : (4 * INR i - 3) * W <= (4 * INR i - 3) * W') by (apply Rmult_le_compat_l; lra).
  assert (E3 : (1 - r) ^ i * W' <= W') by nra.
  nra.
Qed.

Section Drift.
Variable u : R.
Hypothesis u_range : 0 <= u < 1.
Variables fadd fsub fmul fdiv : R -> R -> R.
Variable fsqrt : R -> R.
Hypothesis fadd_ok : forall x y, exists d, Rabs d <= u /\ fadd x y = (x + y) * (1 + d).
Hypothesis fsub_ok : forall x y, exists d, Rabs d <= u /\ fsub x y = (x - y) * (1 + d).
Hypothesis fmul_ok : forall x y, exists d, Rabs d <= u /\ fmul x y = x * y * (1 + d).
Hypothesis fdiv_ok : forall x y, y <> 0 -> exists d, Rabs d <= u /\ fdiv x y = x / y * (1 + d).
Hypothesis fadd_0_mul : forall a b, fadd 0 (fmul a b) = fmul a b.
Hypothesis fsqrt_ok : forall x, 0 <= x -> exists d, Rabs d <= u /\ fsqrt x = R_sqrt.sqrt x * (1 + d).

Notation SAm := (SARm fadd fsub fmul fdiv fsqrt).
Notation rho := (rho u).

Variable n : nat.
Hypothesis n_small : 2 * INR (n + 1) * u < 1.

Definition gN : R := gam u (n + 1).
Definition kap : R := / (1 - gN).

Lemma n1_ge1 : 1 <= INR (n + 1).
Proof. change 1 with (INR 1). apply le_INR. lia. Qed.

Lemma u_half : 0 <= u < / 2.
Proof using u_range n_small. pose proof n1_ge1. split; [lra|nra]. Qed.

Lemma nu_lt1 : INR (n + 1) * u < 1.
Proof using u_range n_small. lra. Qed.

Lemma gN_range : 0 <= gN < 1.
Proof using u_range n_small.
  split; [apply (gam_nonneg u u_range); exact nu_lt1|].
  unfold gN, gam. pose proof n1_ge1. set (m := INR (n + 1) * u) in *.
  assert (0 <= m < / 2) by (unfold m; split; nra).
  apply (Rmult_lt_reg_r (1 - m)); [lra|]. unfold Rdiv. rewrite Rmult_assoc, Rinv_l by lra. lra.
Qed.

Lemma kap_ge1 : 1 <= kap.
Proof using u_range n_small.
  pose proof gN_range. unfold kap. rewrite <- Rinv_1 at 1. apply Rinv_le_contravar; lra.
Qed.

(* the computed Euclidean norm of the model against the real one *)
Lemma norm2_bounds (v : list R) : len v = n ->
  0 <= norm2 (A := SAm) v /\ N2 n (vf v) <= kap * norm2 (A := SAm) v /\ norm2 (A := SAm) v <= (1 + gN) * N2 n (vf v).
Proof using u_range n_small fadd_ok fmul_ok fadd_0_mul fsqrt_ok.
  intros L. pose proof gN_range as G.
  destruct (norm_2_relative_error_lemma u u_range fadd fsub fmul fdiv fsqrt fadd_ok fmul_ok fadd_0_mul fsqrt_ok v)
    as (th & Hth & E).
  { rewrite L. exact nu_lt1. }
  change (norm_2 (F := SAm) Rabs v) with (norm2 (A := SAm) v) in E.
  change (R_sqrt.sqrt (Rsum (len v) (fun k => nth k v 0 * nth k v 0))) with (N2 (len v) (vf v)) in E.
  rewrite L in E, Hth. fold gN in Hth.
  assert (Hth' : - gN <= th <= gN) by (unfold Rabs in Hth; destruct (Rcase_abs th); lra).
  pose proof (N2_nonneg n (vf v)) as P. rewrite E.
  split; [nra|]. split; [|nra].
  unfold kap. apply (Rmult_le_reg_l (1 - gN)); [lra|].
  rewrite <- Rmult_assoc, Rinv_r, Rmult_1_l by lra. nra.
Qed.

(* ---------------------------------------------------------------- the matrix and the computed product *)
Variable a : nat -> nat -> R.
Variables NA eA : R.
Hypothesis NA_nonneg : 0 <= NA.
Hypothesis eA_nonneg : 0 <= eA.
Hypothesis NA_ok : forall f, N2 n (Ax n a f) <= NA * N2 n f.
Variable mulA : list R -> res (list R).
Hypothesis MV : forall v, len v = n -> exists w, mulA v = Ok w /\ len w = n /\
  N2 n (fun i => vf w i - Ax n a (vf v) i) <= eA * N2 n (vf v).

(* the gap between the true residual and a recurrence residual r; one unit of drift *)
Definition gap (b x r : list R) : R := N2 n (fun k => vf b k - Ax n a (vf x) k - vf r k).
Definition Wd (b : list R) (tx : R) : R := (rho * NA + eA) * (kap * tx) + rho * N2 n (vf b).

Lemma Wd_mono b t t' : t <= t' -> Wd b t <= Wd b t'.
Proof using u_range n_small NA_nonneg eA_nonneg.
  intros H. unfold Wd. pose proof (rho_range u u_half). pose proof kap_ge1.
  assert (kap * t <= kap * t') by (apply Rmult_le_compat_l; lra).
  assert (0 <= rho * NA + eA) by nra. nra.
Qed.

Lemma Wd_nonneg b t : 0 <= t -> 0 <= Wd b t.
Proof using u_range n_small NA_nonneg eA_nonneg.
  intros H. unfold Wd. pose proof (rho_range u u_half). pose proof kap_ge1. pose proof (N2_nonneg n (vf b)).
  assert (0 <= kap * t) by nra. assert (0 <= rho * NA + eA) by nra. nra.
Qed.

Lemma zipw_len (f : R -> R -> R) (x y : list R) :
  len x = n -> len y = n -> len (zipw (A := SAm) f x y) = n.
Proof.
  intros Hx Hy. unfold zipw. rewrite map_length, combine_length.
  change (Nat.min (@length R x) (@length R y) = n). rewrite Hx, Hy. apply Nat.min_id.
Qed.

Lemma vscale_len (p : list R) c : len p = n -> len (vscale (A := SAm) p c) = n.
Proof. intros H. unfold vscale. rewrite map_length. exact H. Qed.
Lemma vscale_l_len (p : list R) c : len p = n -> len (vscale_l (A := SAm) c p) = n.
Proof. intros H. unfold vscale_l. rewrite map_length. exact H. Qed.

Lemma vf_zipw (f : R -> R -> R) (x y : list R) k :
  (k < n)%nat -> len x = n -> len y = n -> vf (zipw (A := SAm) f x y) k = f (vf x k) (vf y k).
Proof.
  intros Hk Hx Hy. unfold vf. change 0 with (@zero SAm). apply (nth_zipw (A := SAm)).
  - change (k < @length R x)%nat. lia.
  - change (k < @length R y)%nat. lia.
Qed.

(* v * s and s * v, componentwise in the model arithmetic *)
Lemma scaled_r (p : list R) alpha k : (k < len p)%nat ->
  exists d, Rabs d <= u /\ vf (vscale (A := SAm) p alpha) k = alpha * vf p k * (1 + d).
Proof using fmul_ok.
  intros Hk. unfold vf, vscale. rewrite (nth_map_lt (A := SAm)) by exact Hk.
  destruct (fmul_ok (nth k p 0) alpha) as (d & Hd & E). exists d. split; [exact Hd|].
  transitivity (nth k p 0 * alpha * (1 + d)); [exact E|ring].
Qed.

Lemma scaled_l (p : list R) alpha k : (k < len p)%nat ->
  exists d, Rabs d <= u /\ vf (vscale_l (A := SAm) alpha p) k = alpha * vf p k * (1 + d).
Proof using fmul_ok.
  intros Hk. unfold vf, vscale_l. rewrite (nth_map_lt (A := SAm)) by exact Hk.
  destruct (fmul_ok alpha (nth k p 0)) as (d & Hd & E). exists d. split; [exact Hd|].
  exact E.
Qed.

(* one update  x' = x + uu,  r' = r - w  with uu ~ alpha p, w ~ alpha q, q = mulA p *)
Lemma update_drift (b x r p q uu w : list R) (alpha tX : R) :
  len x = n -> len r = n -> len p = n -> len uu = n -> len w = n ->
  mulA p = Ok q ->
  (forall k, (k < n)%nat -> exists d, Rabs d <= u /\ vf uu k = alpha * vf p k * (1 + d)) ->
  (forall k, (k < n)%nat -> exists d, Rabs d <= u /\ vf w k = alpha * vf q k * (1 + d)) ->
  norm2 (A := SAm) uu <= tX -> norm2 (A := SAm) (zipw (A := SAm) fadd x uu) <= tX ->
  (1 - rho) * gap b (zipw (A := SAm) fadd x uu) (zipw (A := SAm) fsub r w) <= gap b x r + 4 * Wd b tX.
Proof using u_range n_small fadd_ok fsub_ok fmul_ok fadd_0_mul fsqrt_ok NA_nonneg eA_nonneg NA_ok MV.
  intros Lx Lr Lp Lu Lw Eq Hu Hw HXu HXx.
  destruct (MV p Lp) as (q' & Eq' & Lq & Hq). rewrite Eq in Eq'. injection Eq' as <-.
  set (x' := zipw (A := SAm) fadd x uu) in *. set (r' := zipw (A := SAm) fsub r w).
  assert (Lx' : len x' = n) by (unfold x'; apply zipw_len; assumption).
  destruct (norm2_bounds uu Lu) as (Pu & Bu & _). destruct (norm2_bounds x' Lx') as (Px & Bx & _).
  pose proof kap_ge1 as K1.
  assert (HXu' : N2 n (vf uu) <= kap * tX) by (apply Rle_trans with (kap * norm2 (A := SAm) uu); [exact Bu|nra]).
  assert (HXx' : N2 n (vf x') <= kap * tX) by (apply Rle_trans with (kap * norm2 (A := SAm) x'); [exact Bx|nra]).
  assert (Hx : forall k, (k < n)%nat -> exists d, Rabs d <= u /\ vf x' k = (vf x k + vf uu k) * (1 + d)).
  { intros k Hk. unfold x'. rewrite vf_zipw by assumption. apply fadd_ok. }
  assert (Hr : forall k, (k < n)%nat -> exists d, Rabs d <= u /\ vf r' k = (vf r k - vf w k) * (1 + d)).
  { intros k Hk. unfold r'. rewrite vf_zipw by assumption. apply fsub_ok. }
  pose proof (axpy_drift u u_half n (N2 n) (N2_nonneg n) (N2_tri n) (N2_le n) a NA NA_nonneg NA_ok
                (vf b) (vf x) (vf r) (vf p) (vf q) (vf uu) (vf w) (vf x') (vf r') alpha eA (kap * tX)
                eA_nonneg Hq Hu Hw Hx Hr HXu' HXx') as D.
  unfold gap. pose proof (rho_range u u_half) as Rr. pose proof (N2_nonneg n (vf b)) as Pb.
  assert (PY : 0 <= kap * tX) by nra. set (Y := kap * tX) in *.
  unfold Wd. fold Y.
  assert (0 <= eA * Y) by nra. assert (rho * (eA * Y) <= eA * Y) by nra. assert (0 <= rho * N2 n (vf b)) by nra.
  assert (0 <= rho * (eA * Y)) by nra.
  lra.
Qed.

(* the first residual *)
Lemma first_drift (b x0 ax : list R) :
  len x0 = n -> mulA x0 = Ok ax -> len b = n ->
  (1 - rho) * gap b x0 (zipw (A := SAm) fsub b ax) <= Wd b (norm2 (A := SAm) x0).
Proof using u_range n_small fadd_ok fsub_ok fmul_ok fadd_0_mul fsqrt_ok NA_nonneg eA_nonneg NA_ok MV.
  intros Lx Eax Lb. destruct (MV x0 Lx) as (ax' & E' & Lax & Hq). rewrite Eax in E'. injection E' as <-.
  destruct (norm2_bounds x0 Lx) as (P0 & B0 & _).
  assert (Hr : forall k, (k < n)%nat -> exists d, Rabs d <= u /\
            vf (zipw (A := SAm) fsub b ax) k = (vf b k - vf ax k) * (1 + d)).
  { intros k Hk. rewrite vf_zipw by assumption. apply fsub_ok. }
  exact (start_drift u u_half n (N2 n) (N2_nonneg n) (N2_tri n) (N2_le n) a NA NA_nonneg NA_ok
           (vf b) (vf x0) (vf ax) (vf (zipw (A := SAm) fsub b ax)) eA (kap * norm2 (A := SAm) x0)
           eA_nonneg Hq Hr B0).
Qed.

(* the ghost maximum *)
Lemma tmax_ge (x y : R) : x <= tmax (A := SAm) x y /\ y <= tmax (A := SAm) x y.
Proof. unfold tmax. cbn. destruct (Rlt_dec x y); lra. Qed.

(* what every exit of a solver is shown to satisfy: k completed iterations *)
Definition drift_post (b : list R) (k : nat) (x : list R) (g : ghost SAm) : Prop :=
  len x = n /\ len (g_t g) = n /\ 0 <= t_X (g_X g) /\
  (1 - rho) ^ (k + 1) * gap b x (g_t g) <= (4 * INR k + 1) * Wd b (t_X (g_X g)).

(* ---------------------------------------------------------------- CG *)
Definition cg_I (b : list R) (i : nat) (s : cg_st (A := SAm)) : Prop :=
  (1 <= i)%nat /\ len (cg_x s) = n /\ len (cg_r s) = n /\ len (cg_z s) = n /\ len (cg_p s) = n /\
  0 <= t_X (cg_X s) /\
  (1 - rho) ^ i * gap b (cg_x s) (cg_r s) <= (4 * INR i - 3) * Wd b (t_X (cg_X s)).

Lemma cg_body_drift b tol normb i s out :
  cg_I b i s -> cg_body (A := SAm) mulA n tol normb i s = Ok out ->
  match out with
  | Continue s' => cg_I b (S i) s'
  | Return (res, x, g) => res = IOk i /\ drift_post b i x g
  end.
Proof using u_range n_small fadd_ok fsub_ok fmul_ok fadd_0_mul fsqrt_ok NA_nonneg eA_nonneg NA_ok MV.
  intros (Hi & Lx & Lr & Lz & Lp & PX & HG) H. unfold cg_body in H.
  apply bind_ok in H as (z & Ez & H). apply (ident_pre_Ok (A := SAm)) in Ez as (-> & _); [|exact Lz].
  apply bind_ok in H as (rh & _ & H).
  apply bind_ok in H as (p & Ep & H).
  assert (Lp' : len p = n).
  { destruct (i =? 1)%nat.
    - injection Ep as <-. exact Lr.
    - apply bind_ok in Ep as (beta & _ & Ep). apply (vadd_Ok (A := SAm)) in Ep as (L & ->).
      apply zipw_len; [exact Lr|apply vscale_len; exact Lp]. }
  apply bind_ok in H as (q & Eq & H). apply bind_ok in H as (pq & _ & H). apply bind_ok in H as (alpha & _ & H).
  cbv zeta in H.
  apply bind_ok in H as (x' & Ex & H). apply (vadd_Ok (A := SAm)) in Ex as (Lxu & ->).
  apply bind_ok in H as (r' & Er & H). apply (vsub_Ok (A := SAm)) in Er as (Lrw & ->).
  apply bind_ok in H as (resid & Eres & H).
  set (uu := vscale (A := SAm) p alpha) in *. set (w := vscale (A := SAm) q alpha) in *.
  assert (Lu : len uu = n) by (unfold uu; apply vscale_len; exact Lp').
  assert (Lw : len w = n) by (change (len (cg_r s) = len w) in Lrw; lia).
  assert (Lq : len q = n) by (unfold w, vscale in Lw; rewrite map_length in Lw; exact Lw).
  set (x' := zipw (A := SAm) (@add SAm) (cg_x s) uu) in *.
  set (r' := zipw (A := SAm) (@sub SAm) (cg_r s) w) in *.
  set (tX' := tmax (A := SAm) (tmax (A := SAm) (t_X (cg_X s)) (norm2 (A := SAm) uu)) (norm2 (A := SAm) x')).
  destruct (tmax_ge (t_X (cg_X s)) (norm2 (A := SAm) uu)) as (M1 & M2).
  destruct (tmax_ge (tmax (A := SAm) (t_X (cg_X s)) (norm2 (A := SAm) uu)) (norm2 (A := SAm) x')) as (M3 & M4).
  fold tX' in M3, M4.
  assert (Hstep : (1 - rho) * gap b x' r' <= gap b (cg_x s) (cg_r s) + 4 * Wd b tX').
  { apply (update_drift b (cg_x s) (cg_r s) p q uu w alpha tX'); auto.
    - intros k Hk. apply scaled_r. lia.
    - intros k Hk. apply scaled_r. lia.
    - lra. }
  assert (Lx' : len x' = n) by (unfold x'; apply zipw_len; assumption).
  assert (Lr' : len r' = n) by (unfold r'; apply zipw_len; assumption).
  destruct (norm2_bounds x' Lx') as (Px & _ & _).
  assert (Hnew : (1 - rho) ^ S i * gap b x' r' <= (4 * INR (S i) - 3) * Wd b tX').
  { apply (drift_algebra i (gap b (cg_x s) (cg_r s)) (gap b x' r') (Wd b (t_X (cg_X s))) (Wd b tX') rho);
      auto using (rho_range u u_half).
    - apply Wd_mono. lra.
    - apply Wd_nonneg. lra. }
  destruct (leb resid tol); injection H as <-.
  - split; [reflexivity|]. unfold drift_post. cbn [g_t g_X]. split; [exact Lx'|]. split; [exact Lr'|].
    change (t_X (see (track (pivot (cg_X s) (cosq pq p q)) uu x') resid tol)) with tX'.
    split; [lra|]. replace (i + 1)%nat with (S i) by lia. rewrite S_INR in Hnew. lra.
  - unfold cg_I. cbn [cg_x cg_r cg_z cg_p cg_X]. split; [lia|].
    split; [exact Lx'|]. split; [exact Lr'|]. split; [exact Lr|]. split; [exact Lp'|].
    split; [change (0 <= tX'); lra|exact Hnew].
Qed.

Theorem cg_drift_any (b x0 : list R) cols max tol res x g :
  solve_cg (A := SAm) mulA n cols b x0 max tol = Ok (res, x, g) ->
  exists k, (k <= max)%nat /\ drift_post b k x g /\
            (forall k', res = IOk k' -> k' = k) /\ (forall e, res = IErr e -> k = max).
Proof using u_range n_small fadd_ok fsub_ok fmul_ok fadd_0_mul fsqrt_ok NA_nonneg eA_nonneg NA_ok MV.
  unfold solve_cg. intros H.
  apply bind_ok in H as (tt' & Eg & H). apply (guards_Ok (A := SAm)) in Eg as (Hb & Hc & Hx).
  cbv zeta in H.
  apply bind_ok in H as (ax & Eax & H). apply bind_ok in H as (r & Er & H).
  apply (vsub_Ok (A := SAm)) in Er as (Lbax & ->).
  apply bind_ok in H as (resid & Eres & H).
  change (n = len b) in Hb. change (len b = len x0) in Hx.
  assert (Lx0 : len x0 = n) by lia. assert (Lb : len b = n) by lia.
  change (len b = len ax) in Lbax. assert (Lax : len ax = n) by lia.
  set (r0 := zipw (A := SAm) (@sub SAm) b ax) in *.
  assert (S0 : (1 - rho) * gap b x0 r0 <= Wd b (norm2 (A := SAm) x0)) by exact (first_drift b x0 ax Lx0 Eax Lb).
  assert (Lr0 : len r0 = n) by (unfold r0; apply zipw_len; assumption).
  destruct (leb resid tol).
  - injection H as <- <- <-. exists 0%nat. split; [lia|]. split; [|split; [congruence|discriminate]].
    unfold drift_post. cbn [g_t g_X t_X trace0]. split; [exact Lx0|]. split; [exact Lr0|].
    destruct (norm2_bounds x0 Lx0) as (P0 & _). split; [exact P0|]. cbn [Nat.add pow INR]. lra.
  - set (s0 := mkCG (A := SAm) x0 r0 (zeros (A := SAm) n) (zeros (A := SAm) n) (@one SAm) resid (trace0 (A := SAm) x0 resid tol)) in *.
    assert (I0 : cg_I b 1 s0).
    { unfold cg_I, s0. cbn [cg_x cg_r cg_z cg_p cg_X t_X trace0]. split; [lia|].
      rewrite !(zeros_length (A := SAm)). destruct (norm2_bounds x0 Lx0) as (P0 & _).
      repeat split; auto. cbn [pow INR]. lra. }
    destruct (iloop_char (A := SAm) (cg_body (A := SAm) mulA n tol (nz (A := SAm) (norm2 (A := SAm) b))) (cg_final (A := SAm))
                (cg_I b)
                (fun i s s' HI Eb => cg_body_drift b tol _ i s (Continue s') HI Eb)
                max 1%nat s0 (res, x, g) I0 H)
      as [(i & s & Hi & HI & Eb)|(s & HI & Ef)].
    + pose proof (cg_body_drift b tol _ i s (Return (res, x, g)) HI Eb) as (-> & HP).
      exists i. split; [lia|]. split; [exact HP|]. split; [congruence|discriminate].
    + unfold cg_final in Ef. injection Ef as -> -> ->. exists max. split; [lia|].
      destruct HI as (_ & Lx & Lr & _ & _ & PX & HG). split; [|split; [discriminate|reflexivity]].
      unfold drift_post. cbn [g_t g_X]. split; [exact Lx|]. split; [exact Lr|]. split; [exact PX|].
      replace (max + 1)%nat with (1 + max)%nat by lia.
      replace (4 * INR (1 + max) - 3) with (4 * INR max + 1) in HG by (rewrite plus_INR; cbn [INR]; ring).
      exact HG.
Qed.

Theorem cg_drift_lemma (b x0 : list R) cols max tol k x g :
  solve_cg (A := SAm) mulA n cols b x0 max tol = Ok (IOk k, x, g) ->
  (k <= max)%nat /\ drift_post b k x g.
Proof using u_range n_small fadd_ok fsub_ok fmul_ok fadd_0_mul fsqrt_ok NA_nonneg eA_nonneg NA_ok MV.
  intros H. destruct (cg_drift_any b x0 cols max tol _ x g H) as (k' & Hk & HP & Hok & _).
  rewrite (Hok k eq_refl). auto.
Qed.

Theorem cg_drift_err_lemma (b x0 : list R) cols max tol e x g :
  solve_cg (A := SAm) mulA n cols b x0 max tol = Ok (IErr e, x, g) -> drift_post b max x g.
Proof using u_range n_small fadd_ok fsub_ok fmul_ok fadd_0_mul fsqrt_ok NA_nonneg eA_nonneg NA_ok MV.
  intros H. destruct (cg_drift_any b x0 cols max tol _ x g H) as (k' & Hk & HP & _ & Herr).
  rewrite <- (Herr e eq_refl). exact HP.
Qed.

(* ---------------------------------------------------------------- the invariant counted in UPDATES (for the other solvers) *)
Definition dr (j : nat) (G W : R) : Prop := (1 - rho) ^ (j + 1) * G <= (4 * INR j + 1) * W.

Lemma drift_post_dr b k x g :
  drift_post b k x g <->
  len x = n /\ len (g_t g) = n /\ 0 <= t_X (g_X g) /\ dr k (gap b x (g_t g)) (Wd b (t_X (g_X g))).
Proof. unfold drift_post, dr. tauto. Qed.

Lemma dr_step j G G' W W' :
  dr j G W -> (1 - rho) * G' <= G + 4 * W' -> W <= W' -> 0 <= W' -> dr (S j) G' W'.
Proof using u_range n_small.
  unfold dr. intros H Hs HW HW'.
  replace (S j + 1)%nat with (S (S j)) by lia.
  replace (4 * INR (S j) + 1) with (4 * INR (S (S j)) - 3) by (rewrite !S_INR; ring).
  apply (drift_algebra (S j) G G' W W' rho); auto using (rho_range u u_half); [lia|].
  replace (S j) with (j + 1)%nat by lia.
  replace (4 * INR (j + 1) - 3) with (4 * INR j + 1) by (rewrite plus_INR; cbn [INR]; ring). exact H.
Qed.

Lemma dr_weaken j G W : 0 <= G -> 0 <= W -> dr j G W -> dr (S j) G W.
Proof using u_range n_small.
  unfold dr. intros HG HW H. pose proof (rho_range u u_half) as Rr.
  replace (S j + 1)%nat with (S (j + 1)) by lia. cbn [pow]. rewrite S_INR.
  assert (P : 0 < (1 - rho) ^ (j + 1)) by (apply pow_lt; lra). pose proof (pos_INR j).
  assert (0 <= (1 - rho) ^ (j + 1) * G) by nra.
  assert ((1 - rho) * ((1 - rho) ^ (j + 1) * G) <= (1 - rho) ^ (j + 1) * G) by nra.
  nra.
Qed.

Lemma gap_nonneg b x r : 0 <= gap b x r.
Proof. apply N2_nonneg. Qed.

(* one update, in the counted form *)
Lemma update_dr j (b x r p q uu w : list R) (alpha tX tX' : R) :
  len x = n -> len r = n -> len p = n -> len uu = n -> len w = n ->
  mulA p = Ok q ->
  (forall k, (k < n)%nat -> exists d, Rabs d <= u /\ vf uu k = alpha * vf p k * (1 + d)) ->
  (forall k, (k < n)%nat -> exists d, Rabs d <= u /\ vf w k = alpha * vf q k * (1 + d)) ->
  tX <= tX' -> norm2 (A := SAm) uu <= tX' -> norm2 (A := SAm) (zipw (A := SAm) fadd x uu) <= tX' ->
  dr j (gap b x r) (Wd b tX) ->
  dr (S j) (gap b (zipw (A := SAm) fadd x uu) (zipw (A := SAm) fsub r w)) (Wd b tX').
Proof using u_range n_small fadd_ok fsub_ok fmul_ok fadd_0_mul fsqrt_ok NA_nonneg eA_nonneg NA_ok MV.
  intros Lx Lr Lp Lu Lw Eq Hu Hw Ht HXu HXx H.
  apply (dr_step j (gap b x r) _ (Wd b tX) (Wd b tX') H).
  - apply (update_drift b x r p q uu w alpha tX'); assumption.
  - apply Wd_mono. exact Ht.
  - apply Wd_nonneg. destruct (norm2_bounds uu Lu) as (P & _). lra.
Qed.

Variable mulAT : list R -> res (list R).

(* ---------------------------------------------------------------- BiCG *)
Definition bi_I (b : list R) (i : nat) (s : bicg_st (A := SAm)) : Prop :=
  (1 <= i)%nat /\ len (bi_x s) = n /\ len (bi_r s) = n /\ len (bi_rr s) = n /\ len (bi_z s) = n /\
  len (bi_zz s) = n /\ len (bi_p s) = n /\ len (bi_pp s) = n /\ bi_z s = bi_r s /\
  dr (i - 1) (gap b (bi_x s) (bi_r s)) (Wd b (t_X (bi_X s))).

Lemma bicg_body_drift b itol tol bnrm i s out :
  bi_I b i s -> bicg_body (A := SAm) mulA mulAT n itol tol bnrm i s = Ok out ->
  match out with
  | Continue s' => bi_I b (S i) s'
  | Return (res, x, g) => res = IOk i /\ drift_post b i x g
  end.
Proof using u_range n_small fadd_ok fsub_ok fmul_ok fadd_0_mul fsqrt_ok NA_nonneg eA_nonneg NA_ok MV.
  intros (Hi & Lx & Lr & Lrr & Lz & Lzz & Lp & Lpp & Ezr & HG) H. unfold bicg_body in H.
  apply bind_ok in H as (zz & Ez & H). apply (ident_pre_Ok (A := SAm)) in Ez as (-> & _); [|exact Lzz].
  apply bind_ok in H as (rho1 & _ & H).
  apply bind_ok in H as (ppp & Ep & H). destruct ppp as (p, pp).
  assert (Lp' : len p = n /\ len pp = n).
  { destruct (i =? 1)%nat.
    - injection Ep as <- <-. split; assumption.
    - apply bind_ok in Ep as (beta & _ & Ep). apply bind_ok in Ep as (p1 & Ep1 & Ep). apply bind_ok in Ep as (pp1 & Epp1 & Ep).
      injection Ep as <- <-.
      apply (vadd_Ok (A := SAm)) in Ep1 as (_ & ->). apply (vadd_Ok (A := SAm)) in Epp1 as (_ & ->).
      split; apply zipw_len; auto using vscale_len. }
  destruct Lp' as (Lp' & Lpp').
  apply bind_ok in H as (z0 & Eq & H). apply bind_ok in H as (zpp & _ & H). apply bind_ok in H as (alpha & _ & H).
  apply bind_ok in H as (zz' & _ & H). cbv zeta in H.
  apply bind_ok in H as (x' & Ex & H). apply (vadd_Ok (A := SAm)) in Ex as (Lxu & ->).
  apply bind_ok in H as (r' & Er & H). apply (vsub_Ok (A := SAm)) in Er as (Lrw & ->).
  apply bind_ok in H as (rr' & Err & H). apply (vsub_Ok (A := SAm)) in Err as (Lrrw & ->).
  set (uu := vscale (A := SAm) p alpha) in *. set (w := vscale (A := SAm) z0 alpha) in *.
  assert (Lu : len uu = n) by (unfold uu; apply vscale_len; exact Lp').
  assert (Lw : len w = n) by (change (len (bi_r s) = len w) in Lrw; lia).
  assert (Lq : len z0 = n) by (unfold w, vscale in Lw; rewrite map_length in Lw; exact Lw).
  assert (Lzz' : len zz' = n).
  { change (len (bi_rr s) = len (vscale (A := SAm) zz' alpha)) in Lrrw. unfold vscale in Lrrw.
    rewrite map_length in Lrrw. change (len (bi_rr s) = len zz') in Lrrw. lia. }
  apply bind_ok in H as (z & Ezn & H). apply (ident_pre_Ok (A := SAm)) in Ezn as (-> & _); [|exact Lq].
  apply bind_ok in H as (err1 & _ & H). apply bind_ok in H as (err & _ & H).
  set (x' := zipw (A := SAm) (@add SAm) (bi_x s) uu) in *.
  set (r' := zipw (A := SAm) (@sub SAm) (bi_r s) w) in *.
  set (tX' := tmax (A := SAm) (tmax (A := SAm) (t_X (bi_X s)) (norm2 (A := SAm) uu)) (norm2 (A := SAm) x')).
  destruct (tmax_ge (t_X (bi_X s)) (norm2 (A := SAm) uu)) as (M1 & M2).
  destruct (tmax_ge (tmax (A := SAm) (t_X (bi_X s)) (norm2 (A := SAm) uu)) (norm2 (A := SAm) x')) as (M3 & M4).
  fold tX' in M3, M4.
  assert (Hnew : dr (S (i - 1)) (gap b x' r') (Wd b tX')).
  { apply (update_dr (i - 1) b (bi_x s) (bi_r s) p z0 uu w alpha (t_X (bi_X s)) tX'); auto; try lra.
    - intros k Hk. apply scaled_r. lia.
    - intros k Hk. apply scaled_r. lia. }
  replace (S (i - 1)) with i in Hnew by lia.
  assert (Lx' : len x' = n) by (unfold x'; apply zipw_len; assumption).
  assert (Lr' : len r' = n) by (unfold r'; apply zipw_len; assumption).
  assert (Lrr' : len (zipw (A := SAm) (@sub SAm) (bi_rr s) (vscale (A := SAm) zz' alpha)) = n)
    by (apply zipw_len; auto using vscale_len).
  destruct (leb err tol); injection H as <-.
  - split; [reflexivity|]. apply drift_post_dr. cbn [g_t g_X].
    split; [exact Lx'|]. split; [destruct (itol =? 2)%nat; exact Lr'|].
    split; [destruct (norm2_bounds x' Lx') as (Px & _); change (0 <= tX'); lra|].
    destruct (itol =? 2)%nat; exact Hnew.
  - unfold bi_I. cbn [bi_x bi_r bi_rr bi_z bi_zz bi_p bi_pp bi_X]. split; [lia|].
    repeat split; auto. replace (S i - 1)%nat with i by lia. exact Hnew.
Qed.

Lemma bicg_start_inv itol cols (b x r z : list R) bnrm :
  bicg_start (A := SAm) mulA n cols itol b x = Ok (r, bnrm, z) ->
  len b = n /\ len x = n /\ exists ax, mulA x = Ok ax /\ r = zipw (A := SAm) fsub b ax /\ z = r.
Proof.
  unfold bicg_start. intros H.
  apply bind_ok in H as (tt' & Eg & H). apply (guards_Ok (A := SAm)) in Eg as (Hb & Hc & Hx).
  change (n = len b) in Hb. change (len b = len x) in Hx.
  apply bind_ok in H as (ax & Eax & H). apply bind_ok in H as (r0 & Er & H).
  apply (vsub_Ok (A := SAm)) in Er as (Lbax & ->). change (len b = len ax) in Lbax.
  apply bind_ok in H as (bz & Ebz & H). injection H as <- <- <-.
  split; [lia|]. split; [lia|]. exists ax. split; [exact Eax|]. split; [reflexivity|].
  assert (Lr0 : len (zipw (A := SAm) (@sub SAm) b ax) = n) by (apply zipw_len; lia).
  destruct (itol =? 1)%nat.
  - cbv zeta in Ebz. apply bind_ok in Ebz as (z1 & Ez & Ebz).
    apply (ident_pre_Ok (A := SAm)) in Ez as (-> & _); [|apply (zeros_length (A := SAm))].
    injection Ebz as <-. reflexivity.
  - destruct (itol =? 2)%nat; [|discriminate].
    apply bind_ok in Ebz as (z1 & Ez & Ebz).
    apply (ident_pre_Ok (A := SAm)) in Ez as (-> & Lb'); [|apply (zeros_length (A := SAm))].
    cbv zeta in Ebz. apply bind_ok in Ebz as (z2 & Ez2 & Ebz).
    apply (ident_pre_Ok (A := SAm)) in Ez2 as (-> & _); [|exact Lb'].
    injection Ebz as <-. reflexivity.
Qed.

Theorem bicg_drift_lemma (b x0 : list R) cols itol max tol k x g :
  solve_bicg (A := SAm) mulA mulAT n cols itol b x0 max tol = Ok (IOk k, x, g) ->
  (k <= max)%nat /\ drift_post b k x g.
Proof using u_range n_small fadd_ok fsub_ok fmul_ok fadd_0_mul fsqrt_ok NA_nonneg eA_nonneg NA_ok MV.
  unfold solve_bicg. intros H.
  apply bind_ok in H as (st & Est & H). destruct st as ((r, bnrm), z).
  apply bicg_start_inv in Est as (Lb & Lx0 & ax & Eax & -> & ->).
  cbv zeta in H. apply bind_ok in H as (err & _ & H).
  set (r0 := zipw (A := SAm) fsub b ax) in *.
  assert (Lax : len ax = n) by (destruct (MV x0 Lx0) as (ax' & E' & L' & _); rewrite Eax in E'; injection E' as <-; exact L').
  assert (S0 : (1 - rho) * gap b x0 r0 <= Wd b (norm2 (A := SAm) x0)) by exact (first_drift b x0 ax Lx0 Eax Lb).
  assert (Lr0 : len r0 = n) by (unfold r0; apply zipw_len; assumption).
  assert (D0 : dr 0 (gap b x0 r0) (Wd b (norm2 (A := SAm) x0))) by (unfold dr; cbn [Nat.add pow INR]; lra).
  destruct (leb err tol).
  - injection H as <- <- <-. split; [lia|]. apply drift_post_dr. cbn [g_t g_X t_X trace0].
    destruct (norm2_bounds x0 Lx0) as (P0 & _). auto.
  - set (s0 := mkBI (A := SAm) x0 r0 r0 r0 (zeros (A := SAm) n) (zeros (A := SAm) n) (zeros (A := SAm) n) (@one SAm) err
                 (trace0 (A := SAm) x0 err tol)) in *.
    assert (I0 : bi_I b 1 s0).
    { unfold bi_I, s0. cbn [bi_x bi_r bi_rr bi_z bi_zz bi_p bi_pp bi_X t_X trace0]. split; [lia|].
      rewrite !(zeros_length (A := SAm)). repeat split; auto. }
    destruct (iloop_char (A := SAm) (bicg_body (A := SAm) mulA mulAT n itol tol (nz (A := SAm) bnrm)) (bicg_final (A := SAm) itol)
                (bi_I b)
                (fun i s s' HI Eb => bicg_body_drift b itol tol _ i s (Continue s') HI Eb)
                max 1%nat s0 (IOk k, x, g) I0 H)
      as [(i & s & Hi & HI & Eb)|(s & HI & Ef)].
    + pose proof (bicg_body_drift b itol tol _ i s (Return (IOk k, x, g)) HI Eb) as (E & HP).
      injection E as ->. split; [lia|exact HP].
    + unfold bicg_final in Ef. discriminate Ef.
Qed.

(* ---------------------------------------------------------------- BiCGSTAB: two updates per iteration *)
Definition st_I (b : list R) (i : nat) (s : stab_st (A := SAm)) : Prop :=
  (1 <= i)%nat /\ len (st_x s) = n /\ len (st_r s) = n /\ len (st_phat s) = n /\ len (st_shat s) = n /\
  0 <= t_X (st_X s) /\
  dr (2 * (i - 1)) (gap b (st_x s) (st_r s)) (Wd b (t_X (st_X s))).

Lemma stab_body_drift b rtilde tol normb i s out :
  st_I b i s -> stab_body (A := SAm) mulA n rtilde tol normb i s = Ok out ->
  match out with
  | Continue s' => st_I b (S i) s'
  | Return (res, x, g) => (forall k, res = IOk k -> k = i) /\ drift_post b (2 * i) x g
  end.
Proof using u_range n_small fadd_ok fsub_ok fmul_ok fadd_0_mul fsqrt_ok NA_nonneg eA_nonneg NA_ok MV.
  intros (Hi & Lx & Lr & Lph & Lsh & PX & HG) H. unfold stab_body in H.
  assert (HG2 : dr (2 * i) (gap b (st_x s) (st_r s)) (Wd b (t_X (st_X s)))).
  { replace (2 * i)%nat with (S (S (2 * (i - 1)))) by lia.
    apply dr_weaken; [apply gap_nonneg|apply Wd_nonneg; exact PX|].
    apply dr_weaken; [apply gap_nonneg|apply Wd_nonneg; exact PX|exact HG]. }
  apply bind_ok in H as (rho1 & _ & H).
  destruct (eqb rho1 zero).
  { apply bind_ok in H as (e & _ & H). injection H as <-. split; [discriminate|].
    apply drift_post_dr. cbn [g_t g_X]. auto. }
  apply bind_ok in H as (p & Ep & H).
  assert (Lp : len p = n).
  { destruct (i =? 1)%nat.
    - injection Ep as <-. exact Lr.
    - apply bind_ok in Ep as (q1 & _ & Ep). apply bind_ok in Ep as (q2 & _ & Ep). cbv zeta in Ep.
      apply bind_ok in Ep as (w0 & _ & Ep). apply (vadd_Ok (A := SAm)) in Ep as (L & ->).
      change (len (st_r s) = len (vscale_l (A := SAm) (@mul SAm q1 q2) w0)) in L.
      apply zipw_len; [exact Lr|lia]. }
  apply bind_ok in H as (phat & Eph & H). apply (ident_pre_Ok (A := SAm)) in Eph as (-> & _); [|exact Lph].
  apply bind_ok in H as (v & Ev & H). apply bind_ok in H as (rv & _ & H). apply bind_ok in H as (alpha & _ & H).
  apply bind_ok in H as (sv & Esv & H). apply (vsub_Ok (A := SAm)) in Esv as (Lsv & ->).
  apply bind_ok in H as (resid & _ & H). cbv zeta in H.
  set (w1 := vscale (A := SAm) v alpha) in *.
  assert (Lw1 : len w1 = n) by (change (len (st_r s) = len w1) in Lsv; lia).
  assert (Lv : len v = n) by (unfold w1, vscale in Lw1; rewrite map_length in Lw1; exact Lw1).
  set (sv := zipw (A := SAm) (@sub SAm) (st_r s) w1) in *.
  assert (Lsv' : len sv = n) by (unfold sv; apply zipw_len; assumption).
  destruct (leb resid tol).
  { (* the half-step exit: x + phat*alpha with residual sv *)
    apply bind_ok in H as (x' & Ex & H). apply (vadd_Ok (A := SAm)) in Ex as (_ & ->). injection H as <-.
    set (uu := vscale (A := SAm) p alpha) in *.
    assert (Lu : len uu = n) by (unfold uu; apply vscale_len; exact Lp).
    set (x' := zipw (A := SAm) (@add SAm) (st_x s) uu) in *.
    set (tX' := tmax (A := SAm) (tmax (A := SAm) (t_X (st_X s)) (norm2 (A := SAm) uu)) (norm2 (A := SAm) x')).
    destruct (tmax_ge (t_X (st_X s)) (norm2 (A := SAm) uu)) as (M1 & M2).
    destruct (tmax_ge (tmax (A := SAm) (t_X (st_X s)) (norm2 (A := SAm) uu)) (norm2 (A := SAm) x')) as (M3 & M4).
    fold tX' in M3, M4.
    assert (Hnew : dr (S (2 * (i - 1))) (gap b x' sv) (Wd b tX')).
    { apply (update_dr (2 * (i - 1)) b (st_x s) (st_r s) p v uu w1 alpha (t_X (st_X s)) tX'); auto; try lra.
      - intros k Hk. apply scaled_r. lia.
      - intros k Hk. apply scaled_r. lia. }
    assert (Lx' : len x' = n) by (unfold x'; apply zipw_len; assumption).
    split; [intros k E; injection E as <-; reflexivity|].
    apply drift_post_dr. cbn [g_t g_X]. split; [exact Lx'|]. split; [exact Lsv'|].
    destruct (norm2_bounds x' Lx') as (Px & _). split; [change (0 <= tX'); lra|].
    replace (2 * i)%nat with (S (S (2 * (i - 1)))) by lia.
    apply dr_weaken; [apply gap_nonneg|apply Wd_nonneg; change (0 <= tX'); lra|exact Hnew]. }
  apply bind_ok in H as (shat & Esh & H). apply (ident_pre_Ok (A := SAm)) in Esh as (-> & _); [|exact Lsh].
  apply bind_ok in H as (t & Et & H). apply bind_ok in H as (ts & _ & H). apply bind_ok in H as (tdt & _ & H).
  apply bind_ok in H as (omega & _ & H). cbv zeta in H.
  apply bind_ok in H as (x1 & Ex1 & H). apply (vadd_Ok (A := SAm)) in Ex1 as (_ & ->).
  apply bind_ok in H as (x2 & Ex2 & H). apply (vadd_Ok (A := SAm)) in Ex2 as (_ & ->).
  apply bind_ok in H as (r2 & Er2 & H). apply (vsub_Ok (A := SAm)) in Er2 as (Lr2 & ->).
  apply bind_ok in H as (resid2 & _ & H).
  set (u1 := vscale_l (A := SAm) alpha p) in *.
  assert (Lu1 : len u1 = n) by (unfold u1; apply vscale_l_len; exact Lp).
  set (x1 := zipw (A := SAm) (@add SAm) (st_x s) u1) in *.
  assert (Lx1 : len x1 = n) by (unfold x1; apply zipw_len; assumption).
  set (u2 := vscale_l (A := SAm) omega sv) in *.
  assert (Lu2 : len u2 = n) by (unfold u2; apply vscale_l_len; exact Lsv').
  set (x2 := zipw (A := SAm) (@add SAm) x1 u2) in *.
  assert (Lx2 : len x2 = n) by (unfold x2; apply zipw_len; assumption).
  set (w2 := vscale (A := SAm) t omega) in *.
  assert (Lw2 : len w2 = n) by (change (len sv = len w2) in Lr2; lia).
  assert (Lt : len t = n) by (unfold w2, vscale in Lw2; rewrite map_length in Lw2; exact Lw2).
  set (r2 := zipw (A := SAm) (@sub SAm) sv w2) in *.
  assert (Lr2' : len r2 = n) by (unfold r2; apply zipw_len; assumption).
  set (tX1 := tmax (A := SAm) (tmax (A := SAm) (t_X (st_X s)) (norm2 (A := SAm) u1)) (norm2 (A := SAm) x1)).
  set (tX2 := tmax (A := SAm) (tmax (A := SAm) tX1 (norm2 (A := SAm) u2)) (norm2 (A := SAm) x2)).
  destruct (tmax_ge (t_X (st_X s)) (norm2 (A := SAm) u1)) as (M1 & M2).
  destruct (tmax_ge (tmax (A := SAm) (t_X (st_X s)) (norm2 (A := SAm) u1)) (norm2 (A := SAm) x1)) as (M3 & M4).
  fold tX1 in M3, M4.
  destruct (tmax_ge tX1 (norm2 (A := SAm) u2)) as (M5 & M6).
  destruct (tmax_ge (tmax (A := SAm) tX1 (norm2 (A := SAm) u2)) (norm2 (A := SAm) x2)) as (M7 & M8).
  fold tX2 in M7, M8.
  assert (H1 : dr (S (2 * (i - 1))) (gap b x1 sv) (Wd b tX1)).
  { apply (update_dr (2 * (i - 1)) b (st_x s) (st_r s) p v u1 w1 alpha (t_X (st_X s)) tX1); auto; try lra.
    - intros k Hk. apply scaled_l. lia.
    - intros k Hk. apply scaled_r. lia. }
  assert (H2 : dr (S (S (2 * (i - 1)))) (gap b x2 r2) (Wd b tX2)).
  { apply (update_dr (S (2 * (i - 1))) b x1 sv sv t u2 w2 omega tX1 tX2); auto; try lra.
    - intros k Hk. apply scaled_l. lia.
    - intros k Hk. apply scaled_r. lia. }
  replace (S (S (2 * (i - 1)))) with (2 * i)%nat in H2 by lia.
  destruct (norm2_bounds x2 Lx2) as (Px2 & _ & _).
  destruct (ltb resid2 tol).
  { injection H as <-. split; [intros k E; injection E as <-; reflexivity|].
    apply drift_post_dr. cbn [g_t g_X]. split; [exact Lx2|]. split; [exact Lr2'|].
    split; [change (0 <= tX2); lra|exact H2]. }
  destruct (eqb omega zero).
  { injection H as <-. split; [discriminate|]. apply drift_post_dr. cbn [g_t g_X]. split; [exact Lx2|]. split; [exact Lr2'|].
    split; [change (0 <= tX2); lra|exact H2]. }
  injection H as <-. unfold st_I. cbn [st_x st_r st_phat st_shat st_X]. split; [lia|].
  split; [exact Lx2|]. split; [exact Lr2'|]. split; [exact Lp|]. split; [exact Lsv'|].
  split; [change (0 <= tX2); lra|].
  replace (2 * (S i - 1))%nat with (2 * i)%nat by lia. exact H2.
Qed.

Theorem bicgstab_drift_lemma (b x0 : list R) cols max tol k x g :
  solve_bicgstab (A := SAm) mulA n cols b x0 max tol = Ok (IOk k, x, g) ->
  (k <= max)%nat /\ drift_post b (2 * k) x g.
Proof using u_range n_small fadd_ok fsub_ok fmul_ok fadd_0_mul fsqrt_ok NA_nonneg eA_nonneg NA_ok MV.
  unfold solve_bicgstab. intros H.
  apply bind_ok in H as (tt' & Eg & H). apply (guards_Ok (A := SAm)) in Eg as (Hb & Hc & Hx).
  cbv zeta in H.
  apply bind_ok in H as (ax & Eax & H). apply bind_ok in H as (r & Er & H).
  apply (vsub_Ok (A := SAm)) in Er as (Lbax & ->).
  apply bind_ok in H as (resid & Eres & H).
  change (n = len b) in Hb. change (len b = len x0) in Hx.
  assert (Lx0 : len x0 = n) by lia. assert (Lb : len b = n) by lia.
  change (len b = len ax) in Lbax. assert (Lax : len ax = n) by lia.
  set (r0 := zipw (A := SAm) (@sub SAm) b ax) in *.
  assert (S0 : (1 - rho) * gap b x0 r0 <= Wd b (norm2 (A := SAm) x0)) by exact (first_drift b x0 ax Lx0 Eax Lb).
  assert (Lr0 : len r0 = n) by (unfold r0; apply zipw_len; assumption).
  assert (D0 : dr 0 (gap b x0 r0) (Wd b (norm2 (A := SAm) x0))) by (unfold dr; cbn [Nat.add pow INR]; lra).
  destruct (norm2_bounds x0 Lx0) as (P0 & _ & _).
  destruct (leb resid tol).
  - injection H as <- <- <-. split; [lia|]. apply drift_post_dr. cbn [g_t g_X t_X trace0 Nat.mul]. auto.
  - set (s0 := mkST (A := SAm) x0 r0 (zeros (A := SAm) n) (zeros (A := SAm) n) (zeros (A := SAm) n) (zeros (A := SAm) n)
                 (@one SAm) (@one SAm) (@one SAm) resid (trace0 (A := SAm) x0 resid tol)) in *.
    assert (I0 : st_I b 1 s0).
    { unfold st_I, s0. cbn [st_x st_r st_phat st_shat st_X t_X trace0]. split; [lia|].
      rewrite !(zeros_length (A := SAm)). repeat split; auto. }
    destruct (iloop_char (A := SAm) (stab_body (A := SAm) mulA n r0 tol (nz (A := SAm) (norm2 (A := SAm) b))) (stab_final (A := SAm))
                (st_I b)
                (fun i s s' HI Eb => stab_body_drift b r0 tol _ i s (Continue s') HI Eb)
                max 1%nat s0 (IOk k, x, g) I0 H)
      as [(i & s & Hi & HI & Eb)|(s & HI & Ef)].
    + pose proof (stab_body_drift b r0 tol _ i s (Return (IOk k, x, g)) HI Eb) as (E & HP).
      rewrite (E k eq_refl). split; [lia|exact HP].
    + unfold stab_final in Ef. discriminate Ef.
Qed.

(* ---------------------------------------------------------------- Ok means solved, with the drift *)
Definition nzR (y : R) : R := if Req_EM_T y 0 then 1 else y.

(* a passed convergence test bounds the REAL norm of the recurrence residual *)
Lemma passed_bound (b : list R) tol (g : ghost SAm) :
  len b = n -> len (g_t g) = n -> passed (A := SAm) b tol g ->
  0 <= tol /\ N2 n (vf (g_t g)) <= tol * (kap * (1 + rho) * (1 + gN)) * nzR (N2 n (vf b)).
Proof using u_range n_small fadd_ok fmul_ok fdiv_ok fadd_0_mul fsqrt_ok.
  intros Lb Lr (resid & Ed & Ht).
  destruct (norm2_bounds b Lb) as (Pb & Bb1 & Bb2). destruct (norm2_bounds (g_t g) Lr) as (Pr & Br1 & _).
  pose proof gN_range as G. pose proof kap_ge1 as K1. pose proof (rho_range u u_half) as Rr.
  pose proof (N2_nonneg n (vf b)) as PNb. pose proof (N2_nonneg n (vf (g_t g))) as PNr.
  set (nb := nz (A := SAm) (norm2 (A := SAm) b)) in *.
  assert (Hnb : 0 < nb /\ nb <= (1 + gN) * nzR (N2 n (vf b))).
  { unfold nb, nz, nzR. cbn [eqb zero one SA SARm ARm].
    destruct (Req_EM_T (norm2 (A := SAm) b) 0) as [Z|NZ].
    - destruct (Req_EM_T (N2 n (vf b)) 0) as [Z'|NZ']; [split; lra|].
      exfalso. apply NZ'. assert (N2 n (vf b) <= 0) by (rewrite Z in Bb1; lra). lra.
    - destruct (Req_EM_T (N2 n (vf b)) 0) as [Z'|NZ'].
      + exfalso. rewrite Z' in Bb2. apply NZ. lra.
      + split; lra. }
  destruct Hnb as (Pnb & Hnb).
  cbn [div SA SARm ARm] in Ed. injection Ed as Er.
  destruct (fdiv_ok (norm2 (A := SAm) (g_t g)) nb ltac:(lra)) as (d & Hd & E).
  assert (Hd' : - u <= d <= u) by (unfold Rabs in Hd; destruct (Rcase_abs d); lra).
  pose proof u_half as Uh.
  assert (Hle : fdiv (norm2 (A := SAm) (g_t g)) nb <= tol).
  { change (fdiv (norm2 (A := SAm) (g_t g)) nb = resid) in Er. rewrite Er.
    destruct Ht as [Ht|Ht]; cbn [leb ltb SA SARm ARm] in Ht.
    - destruct (Rle_dec resid tol); [assumption|discriminate].
    - destruct (Rlt_dec resid tol); [lra|discriminate]. }
  rewrite E in Hle.
  assert (Pq : 0 <= norm2 (A := SAm) (g_t g) / nb).
  { unfold Rdiv. apply Rmult_le_pos; [exact Pr|]. apply Rlt_le, Rinv_0_lt_compat. exact Pnb. }
  assert (Ptol : 0 <= tol) by nra.
  split; [exact Ptol|].
  (* norm2 r <= tol nb (1 + rho) *)
  assert (H1 : norm2 (A := SAm) (g_t g) / nb <= tol * (1 + rho)).
  { rewrite (rho_1p u Uh). apply (Rmult_le_reg_r (1 - u)); [lra|].
    rewrite Rmult_assoc, Rinv_l by lra. nra. }
  assert (H2 : norm2 (A := SAm) (g_t g) <= tol * (1 + rho) * nb).
  { apply (Rmult_le_reg_r (/ nb)); [now apply Rinv_0_lt_compat|].
    rewrite (Rmult_assoc (tol * (1 + rho))), Rinv_r by lra. unfold Rdiv in H1. lra. }
  apply Rle_trans with (kap * norm2 (A := SAm) (g_t g)); [exact Br1|].
  apply Rle_trans with (kap * (tol * (1 + rho) * nb)); [apply Rmult_le_compat_l; lra|].
  apply Rle_trans with (kap * (tol * (1 + rho) * ((1 + gN) * nzR (N2 n (vf b))))).
  - apply Rmult_le_compat_l; [lra|]. apply Rmult_le_compat_l; [nra|exact Hnb].
  - apply Req_le. ring.
Qed.

(* from the gap and a passed test to the true residual *)
Lemma solved_from_post (b : list R) tol k x (g : ghost SAm) :
  len b = n -> drift_post b k x g -> passed (A := SAm) b tol g ->
  N2 n (fun i => vf b i - Ax n a (vf x) i)
    <= tol * (kap * (1 + rho) * (1 + gN)) * nzR (N2 n (vf b))
       + (4 * INR k + 1) * Wd b (t_X (g_X g)) / (1 - rho) ^ (k + 1).
Proof using u_range n_small fadd_ok fmul_ok fdiv_ok fadd_0_mul fsqrt_ok.
  intros Lb (Lx & Lr & _ & HG) HP. destruct (passed_bound b tol g Lb Lr HP) as (_ & Hr).
  pose proof (rho_range u u_half) as Rr.
  assert (P : 0 < (1 - rho) ^ (k + 1)) by (apply pow_lt; lra).
  assert (HG' : gap b x (g_t g) <= (4 * INR k + 1) * Wd b (t_X (g_X g)) / (1 - rho) ^ (k + 1)).
  { apply (Rmult_le_reg_l ((1 - rho) ^ (k + 1))); [exact P|].
    replace ((1 - rho) ^ (k + 1) * ((4 * INR k + 1) * Wd b (t_X (g_X g)) / (1 - rho) ^ (k + 1)))
      with ((4 * INR k + 1) * Wd b (t_X (g_X g))) by (field; lra).
    exact HG. }
  apply Rle_trans with (N2 n (vf (g_t g)) + gap b x (g_t g)); [|lra].
  unfold gap.
  rewrite (N_ext n (N2 n) (N2_le n) (fun i => vf b i - Ax n a (vf x) i)
             (fun i => vf (g_t g) i + (vf b i - Ax n a (vf x) i - vf (g_t g) i))) by (intros; ring).
  apply N2_tri.
Qed.

Theorem cg_ok_means_solved_rounded_lemma (b x0 : list R) cols max tol k x g :
  solve_cg (A := SAm) mulA n cols b x0 max tol = Ok (IOk k, x, g) ->
  (k <= max)%nat /\
  N2 n (fun i => vf b i - Ax n a (vf x) i)
    <= tol * (kap * (1 + rho) * (1 + gN)) * nzR (N2 n (vf b))
       + (4 * INR k + 1) * Wd b (t_X (g_X g)) / (1 - rho) ^ (k + 1).
Proof using u_range n_small fadd_ok fsub_ok fmul_ok fdiv_ok fadd_0_mul fsqrt_ok NA_nonneg eA_nonneg NA_ok MV.
  intros H. destruct (cg_drift_lemma b x0 cols max tol k x g H) as (Hk & HP). split; [exact Hk|].
  assert (Lb : len b = n).
  { unfold solve_cg in H. apply bind_ok in H as (tt' & Eg & _). apply (guards_Ok (A := SAm)) in Eg as (Hb & _).
    change (n = len b) in Hb. lia. }
  apply (solved_from_post b tol k x g Lb HP).
  exact (proj2 (run_ok_inv (A := SAm) mulA mulA n cols CG b x0 max tol k x g H)).
Qed.

(* ---------------------------------------------------------------- one statement for CG, BiCG, BiCGSTAB *)
Definition updates (sv : solver) (k : nat) : nat := match sv with BiCGSTAB => (2 * k)%nat | _ => k end.

Theorem run_drift_lemma sv (b x0 : list R) cols max tol k x g :
  sv <> QMR -> run (A := SAm) mulA mulAT n cols sv b x0 max tol = Ok (IOk k, x, g) ->
  (k <= max)%nat /\ drift_post b (updates sv k) x g.
Proof using u_range n_small fadd_ok fsub_ok fmul_ok fadd_0_mul fsqrt_ok NA_nonneg eA_nonneg NA_ok MV.
  intros Hq H. destruct sv as [|itol| |]; cbn [run updates] in *.
  - exact (cg_drift_lemma b x0 cols max tol k x g H).
  - exact (bicg_drift_lemma b x0 cols itol max tol k x g H).
  - exact (bicgstab_drift_lemma b x0 cols max tol k x g H).
  - congruence.
Qed.

Lemma run_len_b sv (b x0 : list R) cols max tol o :
  run (A := SAm) mulA mulAT n cols sv b x0 max tol = Ok o -> len b = n.
Proof.
  intros H.
  assert (G : exists t, guards (A := SAm) n cols b x0 = Ok t).
  { destruct sv as [|itol| |]; cbn [run] in H.
    - unfold solve_cg in H. apply bind_ok in H as (t & E & _). now exists t.
    - unfold solve_bicg in H. apply bind_ok in H as (st & E & _). unfold bicg_start in E.
      apply bind_ok in E as (t & E & _). now exists t.
    - unfold solve_bicgstab in H. apply bind_ok in H as (t & E & _). now exists t.
    - unfold solve_qmr in H. apply bind_ok in H as (t & E & _). now exists t. }
  destruct G as (t & E). apply (guards_Ok (A := SAm)) in E as (Hb & _). change (n = len b) in Hb. lia.
Qed.

Theorem run_ok_means_solved_rounded_lemma sv (b x0 : list R) cols max tol k x g :
  sv <> QMR -> run (A := SAm) mulA mulAT n cols sv b x0 max tol = Ok (IOk k, x, g) ->
  (k <= max)%nat /\
  N2 n (fun i => vf b i - Ax n a (vf x) i)
    <= tol * (kap * (1 + rho) * (1 + gN)) * nzR (N2 n (vf b))
       + (4 * INR (updates sv k) + 1) * Wd b (t_X (g_X g)) / (1 - rho) ^ (updates sv k + 1).
Proof using u_range n_small fadd_ok fsub_ok fmul_ok fdiv_ok fadd_0_mul fsqrt_ok NA_nonneg eA_nonneg NA_ok MV.
  intros Hq H. destruct (run_drift_lemma sv b x0 cols max tol k x g Hq H) as (Hk & HP). split; [exact Hk|].
  apply (solved_from_post b tol (updates sv k) x g (run_len_b sv b x0 cols max tol _ H) HP).
  exact (proj2 (run_ok_inv (A := SAm) mulA mulAT n cols sv b x0 max tol k x g H)).
Qed.

(* ---------------------------------------------------------------- the oracle's allowance, as a corollary.
   driver/c08.py accepts an Ok answer when  ||b - A x|| <= tol ||b||' + 64 (k+1) eps (||A|| X + ||b||),  eps = 2u.
   With the product accurate to  eA <= c u NA  and the amplification  amp = kap (1+rho) / (1-rho)^(j+1)  (1 + O((j+n) u)):
   the allowance is implied as soon as  (4j+1) (1+c) amp <= 128 (k+1). *)
Definition amp (j : nat) : R := kap * (1 + rho) / (1 - rho) ^ (j + 1).

Lemma drift_le_allowance (b : list R) (j k : nat) (c tX : R) :
  0 <= c -> eA <= c * (u * NA) -> 0 <= tX ->
  (4 * INR j + 1) * (1 + c) * amp j <= 128 * INR (k + 1) ->
  (4 * INR j + 1) * Wd b tX / (1 - rho) ^ (j + 1) <= 64 * INR (k + 1) * (2 * u) * (NA * tX + N2 n (vf b)).
Proof using u_range n_small NA_nonneg eA_nonneg.
  intros Hc He HtX Ha. pose proof (rho_range u u_half) as Rr. pose proof kap_ge1 as K1. pose proof u_half as Uh.
  pose proof (N2_nonneg n (vf b)) as PB. set (B := N2 n (vf b)) in *.
  assert (P : 0 < (1 - rho) ^ (j + 1)) by (apply pow_lt; lra).
  assert (Pi : 0 < / (1 - rho) ^ (j + 1)) by now apply Rinv_0_lt_compat.
  pose proof (pos_INR j) as Pj.
  assert (Eru : rho = u * (1 + rho)) by (symmetry; apply (rho_u u Uh)).
  (* Wd <= (1+c) u (1+rho) kap (NA tX + B) *)
  assert (HW : Wd b tX <= (1 + c) * (u * (1 + rho) * kap) * (NA * tX + B)).
  { unfold Wd. fold B.
    assert (H1 : rho * NA + eA <= (1 + c) * (u * (1 + rho)) * NA).
    { rewrite Eru at 1. assert (0 <= u * NA) by nra. assert (0 <= c * (u * NA) * rho) by nra. nra. }
    assert (0 <= kap * tX) by nra.
    assert (H2 : (rho * NA + eA) * (kap * tX) <= (1 + c) * (u * (1 + rho)) * NA * (kap * tX))
      by (apply Rmult_le_compat_r; assumption).
    assert (H3 : rho * B <= (1 + c) * (u * (1 + rho) * kap) * B).
    { rewrite Eru at 1. assert (0 <= u * (1 + rho) * B) by nra.
      assert (u * (1 + rho) * B <= u * (1 + rho) * B * kap) by nra.
      assert (0 <= c * (u * (1 + rho) * kap * B)) by (repeat apply Rmult_le_pos; lra). nra. }
    nra. }
  assert (HS : 0 <= NA * tX + B) by nra.
  unfold Rdiv.
  apply Rle_trans with ((4 * INR j + 1) * ((1 + c) * (u * (1 + rho) * kap) * (NA * tX + B)) * / (1 - rho) ^ (j + 1)).
  - apply Rmult_le_compat_r; [lra|]. apply Rmult_le_compat_l; [lra|exact HW].
  - replace ((4 * INR j + 1) * ((1 + c) * (u * (1 + rho) * kap) * (NA * tX + B)) * / (1 - rho) ^ (j + 1))
      with (((4 * INR j + 1) * (1 + c) * amp j) * (u * (NA * tX + B))) by (unfold amp; field; lra).
    replace (64 * INR (k + 1) * (2 * u) * (NA * tX + B)) with ((128 * INR (k + 1)) * (u * (NA * tX + B))) by ring.
    apply Rmult_le_compat_r; [nra|exact Ha].
Qed.

Theorem run_ok_means_solved_allowance_lemma sv (b x0 : list R) cols max tol k x g (c : R) :
  sv <> QMR -> 0 <= c -> eA <= c * (u * NA) ->
  (4 * INR (updates sv k) + 1) * (1 + c) * amp (updates sv k) <= 128 * INR (k + 1) ->
  run (A := SAm) mulA mulAT n cols sv b x0 max tol = Ok (IOk k, x, g) ->
  N2 n (fun i => vf b i - Ax n a (vf x) i)
    <= tol * (kap * (1 + rho) * (1 + gN)) * nzR (N2 n (vf b))
       + 64 * INR (k + 1) * (2 * u) * (NA * t_X (g_X g) + N2 n (vf b)).
Proof using u_range n_small fadd_ok fsub_ok fmul_ok fdiv_ok fadd_0_mul fsqrt_ok NA_nonneg eA_nonneg NA_ok MV.
  intros Hq Hc He Ha H.
  destruct (run_ok_means_solved_rounded_lemma sv b x0 cols max tol k x g Hq H) as (_ & HB).
  eapply Rle_trans; [exact HB|]. apply Rplus_le_compat_l.
  apply (drift_le_allowance b (updates sv k) k c); auto.
  (* the ghost maximum is nonnegative: it dominates the computed norm of x *)
  destruct (run_drift_lemma sv b x0 cols max tol k x g Hq H) as (_ & (_ & _ & PX & _)). exact PX.
Qed.

End Drift.
