(* Proofs/IterSparseR.v -- the bridge of Proofs/IterSparse.v over the real numbers with the standard
   square root (SAR of Proofs/IterR.v): for every well-formed CSC storage,
   Ok k  =>  ||b - A x||_2 <= tol * ||b||'   as an inequality between reals. *)
From Coq Require Import List Arith Lia Reals Lra.
From OV Require Import Base.Panic Base.Arith Model.Vector Model.Matrix Model.Sparse Model.Iter
  Proofs.SparseBase Proofs.SparseMul Proofs.Iter Proofs.IterField Proofs.IterR Proofs.IterSparse Proofs.IterSparseErr.
Import ListNotations.
Local Open Scope R_scope.

Definition AR_RingLaws : RingLaws AR := FL_RingLaws AR_FieldLaws.

Theorem run_sparse_ok_solved_R sv (s : sparse AR) (b x0 : list R) max (tol : R) k x g : wfS s ->
  @run_sparse SAR sv s b x0 max tol = Ok (IOk k, x, g) ->
  @norm2 SAR (@zipw AR Rminus b (@sp_apply AR s x)) <= tol * @nz SAR (@norm2 SAR b).
Proof.
  intros Hwf H.
  destruct (@run_sparse_ok_solved SAR AR_FieldLaws sv s b x0 max tol k x g Hwf H) as (resid & Ed & Ht).
  pose proof (nz_R_pos _ (norm2_R_nonneg b)) as Hpos.
  apply R_div_Ok in Ed as (Hnz & ->).
  assert (Hle : @norm2 SAR (@zipw AR Rminus b (@sp_apply AR s x)) * / @nz SAR (@norm2 SAR b) <= tol).
  { destruct Ht as [Ht | Ht]; [apply R_leb_true in Ht; exact Ht | apply R_ltb_true in Ht; exact (Rlt_le _ _ Ht)]. }
  apply (Rmult_le_compat_r _ _ _ (Rlt_le _ _ Hpos)) in Hle.
  rewrite Rmult_assoc, Rinv_l, Rmult_1_r in Hle by lra. exact Hle.
Qed.

(* the concrete real storage of Proofs/IterR.v is well formed (non-vacuity of the hypothesis) *)
Lemma exr_s_wf : wfS exr_s.
Proof.
  unfold wfS, exr_s; cbn [sp_rows sp_cols sp_nonzero sp_val sp_row_index sp_col_start length nth Nat.add].
  repeat split; try reflexivity.
  - intros j Hj. do 2 (destruct j as [|j]; [cbn [nth Nat.add]; lia|]). lia.
  - intros k Hk. do 4 (destruct k as [|k]; [cbn [nth]; lia|]). lia.
Qed.

Lemma R_leb_false' (x y : R) : R_leb x y = false -> y < x.
Proof. unfold R_leb. destruct (Rle_dec x y); [discriminate | lra]. Qed.
Lemma R_ltb_false (x y : R) : R_ltb x y = false -> y <= x.
Proof. unfold R_ltb. destruct (Rlt_dec x y); [discriminate | lra]. Qed.

(* Err(e): e IS the true relative residual ||b - A x|| / ||b||' of the returned x, and a run that exhausted its
   budget reports a value that is not below tol *)
Theorem run_sparse_err_true_residual_R sv (s : sparse AR) (b x0 : list R) max (tol : R) e x g : wfS s ->
  @run_sparse SAR sv s b x0 max tol = Ok (IErr e, x, g) ->
  e = @norm2 SAR (@zipw AR Rminus b (@sp_apply AR s x)) * / @nz SAR (@norm2 SAR b) /\
  (g_exit g = 2%nat -> tol <= e).
Proof.
  intros Hwf H.
  destruct (@run_sparse_err_true_residual SAR AR_FieldLaws sv s b x0 max tol e x g Hwf H) as (Ed & Ht).
  apply R_div_Ok in Ed as (_ & ->). split; [reflexivity|].
  intros Hx. destruct (Ht Hx) as [Hl|Hl].
  - apply R_leb_false' in Hl. lra.
  - apply R_ltb_false in Hl. exact Hl.
Qed.
