(* Proofs/MatNormLawsStruct.v -- structural laws tying the matrix norms of Model/MatNorms.v to the vector norms of
   Model/Vector.v, for EVERY arithmetic (no ring, order or field law: they hold bit for bit at the float instance):
     - the j-th column sum of norm_1 is the vector 1-norm of get_col(j); the i-th row sum of norm_inf that of get_row(i);
     - norm_frob is the vector 2-norm of the flat buffer (with the same |.|), norm_p the fold of the buffer;
   so norm_1 / norm_inf are "the largest vector 1-norm of a column / row" and every statement about the vector
   norms transfers.  (Package matnorm.) *)
From Coq Require Import List Arith Lia Bool ZArith.
From OV Require Import Base.Panic Base.Arith Model.Vector Model.Matrix Model.MatNorms Proofs.Matrix Proofs.MatNorms.
Import ListNotations.

Section Struct.
Context {SS : SArith}.
Notation A := (SA SS).
Notation T := (T A).

Lemma fold_sum_acc_gen (F : T -> T) (v : list T) a :
  fold_left (fun acc x => add acc (F x)) v a = sum_acc a (length v) (fun k => F (nth k v zero)).
Proof.
  revert a; induction v as [|x v IH]; intros a; [reflexivity|].
  cbn [fold_left length]. rewrite sum_acc_shift. cbn [nth]. apply IH.
Qed.

Lemma norm_1_sum_n (v : list T) : norm_1 v = sum_n (length v) (fun k => abs (nth k v zero)).
Proof. unfold norm_1. rewrite <- sum_acc_zero. apply (fold_sum_acc_gen abs). Qed.

Lemma colsum_get_col_lemma (m : matrix A) j : wf m -> j < cols m ->
  exists v, get_col m j = Ok v /\ length v = rows m /\ colsum m j = norm_1 v.
Proof.
  intros Hw Hj. destruct (get_col_msp _ _ _ m j (msp_self m Hw) Hj) as (v & E & Hl & He).
  exists v. split; [exact E|]. split; [exact Hl|].
  rewrite norm_1_sum_n, Hl. unfold colsum. apply sum_n_ext. intros i Hi. now rewrite He.
Qed.

Lemma rowsum_get_row_lemma (m : matrix A) i : wf m -> i < rows m ->
  exists v, get_row m i = Ok v /\ length v = cols m /\ rowsum m i = norm_1 v.
Proof.
  intros Hw Hi. destruct (get_row_msp _ _ _ m i (msp_self m Hw) Hi) as (v & E & Hl & He).
  exists v. split; [exact E|]. split; [exact Hl|].
  rewrite norm_1_sum_n, Hl. unfold rowsum. apply sum_n_ext. intros j Hj. now rewrite He.
Qed.

Lemma mnorm_frob_norm_2_lemma (m : matrix A) : wf m -> mnorm_frob m = Ok (norm_2 abs (buf m)).
Proof.
  intros Hw. rewrite (mnorm_frob_lemma m Hw). unfold norm_2. do 2 f_equal.
  rewrite <- sum_acc_zero. symmetry. apply (fold_sum_acc_gen (fun x => mul (abs x) (abs x))).
Qed.

Lemma mnorm_p_fold_lemma (pw root : T -> T) (m : matrix A) : wf m ->
  mnorm_p pw root m = Ok (root (fold_left (fun acc x => add acc (pw (abs x))) (buf m) zero)).
Proof.
  intros Hw. rewrite (mnorm_p_lemma pw root m Hw). do 2 f_equal.
  rewrite <- sum_acc_zero. symmetry. apply (fold_sum_acc_gen (fun x => pw (abs x))).
Qed.

End Struct.
