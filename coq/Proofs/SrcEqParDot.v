(* Proofs/SrcEqParDot.v -- Vector<f64>::dot_f64 (src/vector/vec_f64.rs), regenerated from the source of this run as
   gen/SrcParDot.v: the partition arithmetic (chunk_size = size / num_threads, start / end per worker, checked slicing),
   the workers as values, the sum in join order -- against the hand-written model Model/ParDot.v (package C16):

       s_dot_f64 t v w = pardot t v w        for every arithmetic, every worker count t (0 included), all v, w.

   (the scheduling is not part of a value translation; Proofs/ParDot.v proves run_sched sigma = pardot for every completion
   order sigma) *)
From Coq Require Import List Arith ZArith Lia Bool.
From OV Require Import Base.Panic Base.Arith Model.Vector Model.ParDot gen.SrcPrelude gen.SrcParDot Proofs.SrcEqBase.
Import ListNotations.

Section SrcEqParDot.
Context {A : Arith}.
Local Notation TA := (T A).

(* the spawned closure: result = 0; for i in 0..a.len() { result += a[i] * b[i] } *)
Definition worker (a b : list TA) : res TA :=
  for_ 0 (length a) (fun i r => let* x := rd a i in let* y := rd b i in Ok (add r (mul x y))) zero.

Lemma worker_eq (a b : list TA) : length a <= length b -> worker a b = Ok (dot_raw a b).
Proof.
  intros H. unfold worker, dot_raw, for_. rewrite Nat.sub_0_r.
  rewrite (for_from_ext _ _ _ (fun i acc => let* x := (let* p := rd a i in let* q := rd b i in Ok (mul p q)) in Ok (add acc x))).
  2:{ intros i s _. destruct (rd a i); cbn; [|reflexivity]. destruct (rd b i); reflexivity. }
  rewrite for_from_fold, mapM_rd2 by lia. rewrite mapM_pure. cbn [bind]. now rewrite fold_left_map.
Qed.

Lemma subslice_length {Y} (v : list Y) s e a : subslice v s e = Ok a -> length a = e - s.
Proof.
  unfold subslice. destruct (s <=? e) eqn:E1; [|discriminate]. destruct (e <=? length v) eqn:E2; [|discriminate].
  intros E; injection E as <-. apply Nat.leb_le in E1, E2. rewrite firstn_length, skipn_length. lia.
Qed.

Lemma mapM_bind_map {Y Z W} (G : Y -> res Z) (h : Z -> W) l :
  mapM (fun i => let* j := G i in Ok (h j)) l = let* js := mapM G l in Ok (map h js).
Proof.
  induction l as [|i t IH]; cbn [mapM bind map]; [reflexivity|].
  destruct (G i) as [j|k]; cbn [bind]; [|reflexivity]. rewrite IH.
  destruct (mapM G t); reflexivity.
Qed.

Lemma mapM_inv {Y Z} (G : Y -> res Z) (P : Z -> Prop) l js :
  (forall i j, G i = Ok j -> P j) -> mapM G l = Ok js -> Forall P js.
Proof.
  intros HP. revert js; induction l as [|i t IH]; cbn [mapM]; intros js E.
  - injection E as <-. constructor.
  - destruct (G i) as [j|k] eqn:Ej; cbn [bind] in E; [|discriminate].
    destruct (mapM G t) as [js'|k]; cbn [bind] in E; [|discriminate]. injection E as <-.
    constructor; [eapply HP; eauto | apply IH; reflexivity].
Qed.

(* the join loop over workers that all returned *)
Lemma join_loop (js : list (list TA * list TA)) (acc : TA) :
  Forall (fun j => length (fst j) <= length (snd j)) js ->
  for_in (map (fun j => worker (fst j) (snd j)) js)
         (fun h r => let* x := join_unwrap h in Ok (add r x)) acc
  = Ok (fold_left (fun acc j => add acc (work j)) js acc).
Proof.
  intros H; revert acc; induction H as [|j js Hj _ IH]; intros acc; cbn [map for_in fold_left]; [reflexivity|].
  rewrite worker_eq by exact Hj. cbn [join_unwrap bind]. apply IH.
Qed.

Lemma src_dot_f64 (t : nat) (v w : list TA) : s_dot_f64 t v w = pardot t v w.
Proof.
  unfold s_dot_f64, pardot. destruct (length v =? length w) eqn:E; cbn [negb]; [|reflexivity].
  unfold udiv. destruct (t =? 0) eqn:Et; cbn [bind]; [reflexivity|]. apply Nat.eqb_neq in Et.
  unfold jobs.
  transitivity (let* ths := (let* js := mapM (job v w t) (seq 0 t) in Ok (map (fun j => worker (fst j) (snd j)) js)) in
                for_in ths (fun h r => let* x := join_unwrap h in Ok (add r x)) zero).
  - apply bind_ext2; [|reflexivity].
    unfold for_. rewrite Nat.sub_0_r.
    rewrite (for_from_ext _ _ _ (fun i acc => let* x := (let* j := job v w t i in Ok (worker (fst j) (snd j))) in Ok (acc ++ [x]))).
    2:{ intros i ths Hi. rewrite usub_ok by lia. cbn [bind].
        unfold job, chunk_bounds. cbv zeta. rewrite !bind_assoc. apply bind_ext; intros a.
        rewrite !bind_assoc. apply bind_ext; intros b. reflexivity. }
    rewrite for_from_push. cbn [app]. rewrite mapM_bind_map, bind_assoc. apply bind_ext; intros js. reflexivity.
  - rewrite bind_assoc. apply bind_ext_ok; intros js Ejs. cbn [bind]. apply join_loop.
    refine (mapM_inv (job v w t) _ _ _ _ Ejs). intros i [a b]. unfold job. destruct (chunk_bounds (length v) t i) as [s0 e0].
    destruct (subslice v s0 e0) as [a'|] eqn:Ea; cbn [bind]; [|discriminate].
    destruct (subslice w s0 e0) as [b'|] eqn:Eb; cbn [bind]; [|discriminate].
    intros Ej; injection Ej as <- <-. cbn [fst snd].
    rewrite (subslice_length _ _ _ _ Ea), (subslice_length _ _ _ _ Eb). lia.
Qed.

Definition model_is_source_ParDot : Prop :=
  forall (t : nat) (v w : list TA), s_dot_f64 t v w = pardot t v w.
Lemma model_is_source_ParDot_lemma : model_is_source_ParDot.
Proof. exact src_dot_f64. Qed.

End SrcEqParDot.
