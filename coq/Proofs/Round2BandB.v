(* Proofs/Round2BandB.v -- package round2.  The two substitution phases of the banded compact-LU solve of Model/Banded.v
   in the STANDARD MODEL of floating-point arithmetic (Base/RoundModel.v; the same Gallina [back_step] / [fwd_step]
   instantiated at [ARm]), from the traces of Proofs/Round2Band.v:

     sfold_round :  the fold  s - a_0 v_0 - a_1 v_1 - ...  of c terms  =  P (s - Sum_t a_t v_t W_t),
                    P a product of c rounding factors, W_t of t+1                      (Higham Lemma 8.2/8.4)
     band_backsolve_backward_error_lemma :  the computed x satisfies, row by row and EXACTLY,
           Sum_{k < l_i} (au[i][k] + dU_ik) x_{i+k} = y_i ,   |dU_ik| <= gam (l_i) |au[i][k]| ,  l_i = min mm (n-i)
       -- the constant depends on the BANDWIDTH mm = m1 + m2 + 1 (l_i <= mm), not on the dimension n (Higham Thm 8.5 for
       the band); hypotheses: mm u < 1 and nonzero pivots au[i][0].
     band_forward_backward_error_lemma :  the computed y of the forward phase (with the recorded row exchanges)
       satisfies, row by row and exactly,
           (1 + dd_r) y_r + Sum_{t < c_r} (a_{r,t} + dL_{r,t}) y_{j_{r,t}} = b_{fperm r}
           |dd_r| <= gam c_r ,  |dL_{r,t}| <= gam c_r |a_{r,t}| ,   c_r = number of updates the entry received
       i.e. (L + dL) y = P b with the unit lower triangular L whose row r holds the multipliers [fhist r].
       With partial pivoting c_r <= r only (the L factor of a band matrix is not banded: an entry exchanged downwards
       stays in the windows); WITHOUT exchanges c_r = min r m1 and row r is  al[j][r-j-1], j = r - c_r .. r-1
       ([band_forward_noswap_backward_error_lemma], constant gam m1).
     band_lu_backward_error_lemma :  the main loop of decompose (Higham Thm 9.3 for the compact band LU with partial pivoting),
       row by row and exactly, with h = fhist r = [(a_t, j_t)] the multipliers of row r of L, c_r = length h, Uc the dense
       reading of the computed au, D0 the dense reading of the matrix the loop started from:
           (1 + dd) U_(r,c) + Sum_t (a_t + dL_t) Uc(j_t, c) = D0(fperm r, c)     c = r .. r+mm-1 ,  |dd|, |dL_t|/|a_t| <= gam c_r
           Sum_(t' <= t) (a_t' + dL_t') Uc(j_t', j_t) = D0(fperm r, j_t)         for every stage j_t of the history, gam (t+1)
       i.e.  L U = P B + dB ,  |dB| <= gam(c_r) |L||U|  in rows.  Hypothesis: the computed pivots are nonzero.
     band_solve_backward_error_lemma :  band_solve B b = Ok x  ->  with the factors (au, al, index) decompose computed:
       (U + dU) x = y ,  (L + dL) y = P b ,  L U = P B + dB  (B = the dense twin of the banded matrix), all row-wise, as above,
       provided the computed pivots are nonzero (division by a zero pivot does not panic in the rounded reals).
     band_solve_single_backward_error_lemma (Higham Thm 9.4):  the three statements multiplied out,
           (B + dB) x = b   row by row (rows listed through the permutation fperm of the computed exchanges),
           |dB| <= (3 gam N + gam N ^2) |L||U| ,   N >= m1+m2+1 and N >= every c_r
       L = the unit lower triangular matrix whose row r is fhist r ([Ld]), U = the dense reading of au ([Uc]).  Without
       exchanges N = m1+m2+1 is admissible: the constant depends on the bandwidth only.
   The constants refer to the COMPUTED factors au, al, index; |L||U| is not compared with |B| (no growth-factor bound). *)
From Coq Require Import List Arith Lia Reals Lra Psatz Bool.
From OV Require Import Base.Panic Base.Arith Base.RoundModel Model.Vector Model.Matrix Model.Banded
  Proofs.Matrix Proofs.Banded Proofs.BandedLU Proofs.RoundDot Proofs.RoundMatvec Proofs.RoundBacksolve Proofs.RoundSolveLU
  Proofs.Round2Band.
Import ListNotations.
Local Open Scope R_scope.

Lemma nth_map_seq_gen {X} (f : nat -> X) a len t d : (t < len)%nat -> nth t (map f (seq a len)) d = f (a + t)%nat.
Proof.
  intros Ht. rewrite (nth_indep _ d (f 0%nat)) by now rewrite map_length, seq_length.
  rewrite map_nth, seq_nth by exact Ht. reflexivity.
Qed.

Section RoundBand.
Variable u : R.
Hypothesis u_range : 0 <= u < 1.
Variables fadd fsub fmul fdiv : R -> R -> R.
Hypothesis fsub_ok : forall x y, exists d, Rabs d <= u /\ fsub x y = (x - y) * (1 + d).
Hypothesis fmul_ok : forall x y, exists d, Rabs d <= u /\ fmul x y = x * y * (1 + d).
Hypothesis fdiv_ok : forall x y, y <> 0 -> exists d, Rabs d <= u /\ fdiv x y = x / y * (1 + d).

Notation AR := (ARm fadd fsub fmul fdiv).
Notation bnd := (bnd u).
Notation gam := (gam u).

(* ---------------------------------------------------------------- the fold in the standard model *)
Lemma sfold_round (l : list (R * R)) (s : R) :
  exists P W, bnd (length l) P /\ (forall t, (t < length l)%nat -> bnd (t + 1) (W t)) /\
    (sfold (A := AR) l s : R)
    = P * (s - Rsum (length l) (fun t => fst (nth t l (0, 0)) * snd (nth t l (0, 0)) * W t)).
Proof using u_range fsub_ok fmul_ok.
  revert s. induction l as [|[a v] l IH]; intros s.
  - exists 1, (fun _ => 1). split; [apply bnd_0|]. split; [intros; cbn in *; lia|].
    change (s = 1 * (s - 0)). ring.
  - change (sfold (A := AR) ((a, v) :: l) s) with (sfold (A := AR) l (fsub s (fmul a v))).
    destruct (fmul_bnd u u_range fmul fmul_ok a v) as (em & Hem & Em).
    destruct (fsub_bnd u u_range fsub fsub_ok s (fmul a v)) as (es & Hes & Es).
    destruct (IH (fsub s (fmul a v))) as (P & W & HP' & HW & E).
    exists (P * es), (fun t => match t with O => em | S t' => W t' / es end).
    cbn [length]. split; [replace (S (length l)) with (length l + 1)%nat by lia; now apply bnd_mul|]. split.
    { intros [|t'] Ht; [exact Hem|]. replace (S t' + 1)%nat with ((t' + 1) + 1)%nat by lia.
      apply bnd_div; [exact u_range|apply HW; lia|exact Hes]. }
    rewrite E, Es, Em, Rsum_shift. cbn [nth fst snd].
    rewrite (Rsum_ext (length l)
               (fun k => fst (nth k l (0, 0)) * snd (nth k l (0, 0)) * (W k / es))
               (fun k => / es * (fst (nth k l (0, 0)) * snd (nth k l (0, 0)) * W k))).
    2:{ intros k Hk. pose proof (bnd_nz u u_range _ _ Hes). field. assumption. }
    rewrite Rsum_scal. pose proof (bnd_nz u u_range _ _ Hes). field. assumption.
Qed.

(* one row of a perturbed triangular system out of one fold:  v D = sfold l s,  D a product of c' rounding factors *)
Lemma sfold_row (l : list (R * R)) (s v D : R) (c' N : nat) :
  bnd c' D -> v * D = sfold (A := AR) l s -> (length l + c' <= N)%nat -> INR N * u < 1 ->
  exists (dd : R) (d : nat -> R),
    Rabs dd <= gam N /\
    (forall t, (t < length l)%nat -> Rabs (d t) <= gam N * Rabs (fst (nth t l (0, 0)))) /\
    v * (1 + dd) + Rsum (length l) (fun t => (fst (nth t l (0, 0)) + d t) * snd (nth t l (0, 0))) = s.
Proof using u_range fsub_ok fmul_ok.
  intros HD E HN Hu.
  destruct (sfold_round l s) as (P & W & HP & HW & EP).
  pose proof (bnd_nz u u_range _ _ HP) as Pnz.
  exists (D / P - 1), (fun t => fst (nth t l (0, 0)) * (W t - 1)). split; [|split].
  - apply (bnd_gam u u_range); [|exact Hu]. apply (bnd_mono u u_range (c' + length l)); [lia|].
    apply bnd_div; assumption.
  - intros t Ht. rewrite Rabs_mult, Rmult_comm. apply Rmult_le_compat_r; [apply Rabs_pos|].
    apply (bnd_gam u u_range); [|exact Hu]. apply (bnd_mono u u_range (t + 1)); [lia|now apply HW].
  - rewrite (Rsum_ext (length l) _ (fun t => fst (nth t l (0, 0)) * snd (nth t l (0, 0)) * W t)) by (intros; ring).
    assert (E2 : v * D = P * (s - Rsum (length l) (fun t => fst (nth t l (0, 0)) * snd (nth t l (0, 0)) * W t)))
      by (rewrite E; exact EP).
    replace (v * (1 + (D / P - 1))) with (v * D / P) by (field; exact Pnz).
    rewrite E2. field. exact Pnz.
Qed.

(* ---------------------------------------------------------------- back substitution: Higham Theorem 8.5 for the band *)
Lemma length_bterms (au : matrix AR) mm i l (x : list R) :
  @length (R * R) (bterms (A := AR) au mm i l x) = (l - 1)%nat.
Proof. unfold bterms. now rewrite map_length, seq_length. Qed.

Lemma nth_bterms (au : matrix AR) mm i l (x : list R) t : (t < l - 1)%nat ->
  nth t (bterms (A := AR) au mm i l x) (0, 0) = (mat_at (A := AR) au mm i (S t), nth (S t + i) x 0).
Proof. intros Ht. unfold bterms. now rewrite nth_map_seq_gen by exact Ht. Qed.

Theorem band_backsolve_backward_error_lemma (au : matrix AR) (mm n : nat) (y x : list R) (lf : nat) :
  cols au = mm -> (1 <= mm)%nat -> length y = n -> INR mm * u < 1 ->
  (forall i, (i < n)%nat -> mat_at (A := AR) au mm i 0 <> 0) ->
  for_rev 0 n (back_step (A := AR) mm au) (y, 1%nat) = Ok (x, lf) ->
  length x = n /\
  exists dU : nat -> nat -> R,
    (forall i k, (i < n)%nat -> (k < bwin mm n i)%nat ->
       Rabs (dU i k) <= gam (bwin mm n i) * Rabs (mat_at (A := AR) au mm i k)) /\
    forall i, (i < n)%nat ->
      Rsum (bwin mm n i) (fun k => (mat_at (A := AR) au mm i k + dU i k) * nth (i + k) x 0) = nth i y 0.
Proof using u_range fsub_ok fmul_ok fdiv_ok.
  intros Hc Hmm Ly Hu Dg E.
  destruct (band_back_trace_lemma (A := AR) au mm n y x lf Hc Hmm Ly E) as (Lx & Tr). split; [exact Lx|].
  destruct (fin_choice (fun _ : nat => 0)
              (fun i (d : nat -> R) =>
                 (forall k, (k < bwin mm n i)%nat -> Rabs (d k) <= gam (bwin mm n i) * Rabs (mat_at (A := AR) au mm i k)) /\
                 Rsum (bwin mm n i) (fun k => (mat_at (A := AR) au mm i k + d k) * nth (i + k) x 0) = nth i y 0) n)
    as (F & HF).
  2:{ exists F. split; [intros i k Hi Hk; now apply (proj1 (HF i Hi))|intros i Hi; exact (proj2 (HF i Hi))]. }
  intros i Hi. specialize (Tr i Hi). set (l := bwin mm n i) in *.
  assert (Hl1 : (1 <= l)%nat) by (unfold l, bwin; lia).
  assert (Hlm : (l <= mm)%nat) by (unfold l, bwin; lia).
  assert (Hul : INR l * u < 1).
  { pose proof (le_INR _ _ Hlm) as Hlm'. destruct u_range as [U0 _].
    assert (0 <= (INR mm - INR l) * u) by (apply Rmult_le_pos; lra). lra. }
  set (a0 := mat_at (A := AR) au mm i 0) in *.
  assert (D0 : a0 <> 0) by (apply Dg; exact Hi).
  change (@zero AR) with 0 in Tr.
  set (tl := bterms (A := AR) au mm i l x) in *.
  change (Ok (fdiv (bacc (A := AR) au mm i l x (nth i y 0)) a0) = Ok (nth i x 0)) in Tr. injection Tr as Tr.
  destruct (fdiv_bnd u u_range fdiv fdiv_ok (bacc (A := AR) au mm i l x (nth i y 0)) a0 D0) as (ed & Hed & Ed).
  pose proof (bnd_nz u u_range _ _ Hed) as Enz.
  assert (Erow : a0 * nth i x 0 * / ed = sfold (A := AR) tl (nth i y 0)).
  { rewrite <- Tr, Ed. unfold bacc. fold tl. field. split; assumption. }
  assert (Ltl : @length (R * R) tl = (l - 1)%nat) by apply length_bterms.
  destruct (sfold_row tl (nth i y 0) (a0 * nth i x 0) (/ ed) 1 l
              (bnd_inv u u_range _ _ Hed) Erow ltac:(lia) Hul) as (dd & d & Hdd & Hd & Es).
  exists (fun k => match k with O => a0 * dd | S t => d t end). split.
  - intros [|t] Hk.
    + fold a0. rewrite Rabs_mult, Rmult_comm. apply Rmult_le_compat_r; [apply Rabs_pos|exact Hdd].
    + specialize (Hd t ltac:(lia)). unfold tl in Hd. rewrite nth_bterms in Hd by lia. exact Hd.
  - replace l with (S (l - 1)) by lia. rewrite Rsum_shift. rewrite Nat.add_0_r. fold a0.
    rewrite <- Es. rewrite Ltl. f_equal; [ring|].
    apply Rsum_ext. intros t Ht. unfold tl. rewrite nth_bterms by lia. cbn [fst snd].
    now replace (S t + i)%nat with (i + S t)%nat by lia.
Qed.

(* ---------------------------------------------------------------- the forward phase: (L + dL) y = P b *)
Lemma length_fterms (h : list (R * nat)) (y : list R) : @length (R * R) (fterms (A := AR) h y) = length h.
Proof. unfold fterms. now rewrite map_length. Qed.

Lemma nth_fterms (h : list (R * nat)) (y : list R) t : (t < length h)%nat ->
  nth t (fterms (A := AR) h y) (0, 0) = (fst (nth t h (0, 0%nat)), nth (snd (nth t h (0, 0%nat))) y 0).
Proof.
  intros Ht. pose (f := fun p : R * nat => (fst p, nth (snd p) y 0)).
  change (nth t (map f h) (0, 0) = f (nth t h (0, 0%nat))).
  rewrite (nth_indep (map f h) (0, 0) (f (0, 0%nat))) by now rewrite map_length.
  apply map_nth.
Qed.

(* one row of the forward phase out of its trace *)
Lemma fwd_row (h : list (R * nat)) (y : list R) (s v : R) :
  v = sfold (A := AR) (fterms (A := AR) h y) s -> INR (length h) * u < 1 ->
  exists (dd : R) (dL : nat -> R),
    Rabs dd <= gam (length h) /\
    (forall t, (t < length h)%nat -> Rabs (dL t) <= gam (length h) * Rabs (fst (nth t h (0, 0%nat)))) /\
    (1 + dd) * v
    + Rsum (length h) (fun t => (fst (nth t h (0, 0%nat)) + dL t) * nth (snd (nth t h (0, 0%nat))) y 0) = s.
Proof using u_range fsub_ok fmul_ok.
  intros Tr Hu.
  assert (E1 : v * 1 = sfold (A := AR) (fterms (A := AR) h y) s) by (rewrite Rmult_1_r; exact Tr).
  destruct (sfold_row (fterms (A := AR) h y) s v 1 0 (length h) (bnd_0 u) E1
              ltac:(rewrite length_fterms; lia) Hu) as (dd & d & Hdd & Hd & Es).
  rewrite length_fterms in Hd, Es.
  exists dd, d. split; [exact Hdd|]. split.
  - intros t Ht. specialize (Hd t Ht). rewrite nth_fterms in Hd by exact Ht. exact Hd.
  - rewrite <- Es. f_equal; [ring|]. apply Rsum_ext. intros t Ht. now rewrite nth_fterms by exact Ht.
Qed.

Theorem band_forward_backward_error_lemma (al : matrix AR) (index : list nat) (n m1 : nat) (b y : list R) (lf : nat) :
  cols al = m1 -> (m1 <= n)%nat -> length b = n ->
  (forall k, (k < n)%nat -> (k + 1 <= nth k index 0%nat)%nat) ->
  for_ 0 n (fwd_step (A := AR) n al index) (b, m1) = Ok (y, lf) ->
  length y = n /\
  forall r, (r < n)%nat ->
    let h : list (R * nat) := fhist (A := AR) n m1 al index n r in
    (length h <= r)%nat /\
    (forall t, (t < length h)%nat -> (snd (nth t h (0%R, 0%nat)) < r)%nat) /\
    (INR (length h) * u < 1 ->
     exists (dd : R) (dL : nat -> R),
       Rabs dd <= gam (length h) /\
       (forall t, (t < length h)%nat -> Rabs (dL t) <= gam (length h) * Rabs (fst (nth t h (0, 0%nat)))) /\
       (1 + dd) * nth r y 0
       + Rsum (length h) (fun t => (fst (nth t h (0, 0%nat)) + dL t) * nth (snd (nth t h (0, 0%nat))) y 0)
       = nth (fperm index n r) b 0).
Proof using u_range fsub_ok fmul_ok.
  intros Hc Hm Lb Hix E.
  destruct (band_fwd_trace_lemma (A := AR) al index n m1 b y lf Hc Hm Lb Hix E) as (Ly & Tr). split; [exact Ly|].
  intros r Hr. cbn zeta. split; [exact (fhist_final_length (A := AR) n m1 al index r Hix Hr)|]. split.
  - intros t Ht. apply (fhist_final_tags (A := AR) n m1 al index r); [exact Hix|exact Hr|]. now apply nth_In.
  - intros Hu. apply fwd_row; [exact (Tr r)|exact Hu].
Qed.

(* without row exchanges (index[k] = k+1, e.g. matrices for which the pivot search never leaves the diagonal):
   L is the unit lower BAND matrix L_(r,j) = al[j][r-j-1], r - m1 <= j < r, and the constant is gam (min r m1) <= gam m1 *)
Theorem band_forward_noswap_backward_error_lemma (al : matrix AR) (index : list nat) (n m1 : nat) (b y : list R) (lf : nat) :
  cols al = m1 -> (m1 <= n)%nat -> length b = n -> INR m1 * u < 1 ->
  (forall k, (k < n)%nat -> nth k index 0%nat = (k + 1)%nat) ->
  for_ 0 n (fwd_step (A := AR) n al index) (b, m1) = Ok (y, lf) ->
  length y = n /\
  forall r, (r < n)%nat ->
    exists (dd : R) (dL : nat -> R),
      Rabs dd <= gam (Nat.min r m1) /\
      (forall t, (t < Nat.min r m1)%nat ->
         Rabs (dL t) <= gam (Nat.min r m1)
                        * Rabs (mat_at (A := AR) al m1 (r - Nat.min r m1 + t) (r - (r - Nat.min r m1 + t) - 1))) /\
      (1 + dd) * nth r y 0
      + Rsum (Nat.min r m1)
          (fun t => (mat_at (A := AR) al m1 (r - Nat.min r m1 + t) (r - (r - Nat.min r m1 + t) - 1) + dL t)
                    * nth (r - Nat.min r m1 + t) y 0)
      = nth r b 0.
Proof using u_range fsub_ok fmul_ok.
  intros Hc Hm Lb Hu Hix E.
  assert (Hix' : forall k, (k < n)%nat -> (k + 1 <= nth k index 0%nat)%nat) by (intros k Hk; rewrite Hix by exact Hk; lia).
  destruct (band_fwd_trace_lemma (A := AR) al index n m1 b y lf Hc Hm Lb Hix' E) as (Ly & Tr). split; [exact Ly|].
  intros r Hr. specialize (Tr r).
  rewrite (fperm_noswap index n n r Hix (le_n n)) in Tr.
  rewrite (fhist_noswap (A := AR) n m1 al index r Hix Hr) in Tr.
  set (c := Nat.min r m1) in *.
  set (h := map (fun j => (mat_at (A := AR) al m1 j (r - j - 1), j)) (seq (r - c) c)) in *.
  assert (Lh : @length (R * nat) h = c) by (unfold h; now rewrite map_length, seq_length).
  assert (Nh : forall t, (t < c)%nat -> nth t h (0, 0%nat)
               = (mat_at (A := AR) al m1 (r - c + t) (r - (r - c + t) - 1), (r - c + t)%nat)).
  { intros t Ht. unfold h. now rewrite nth_map_seq_gen by exact Ht. }
  assert (Huc : INR (@length (R * nat) h) * u < 1).
  { rewrite Lh. assert (Hcm : (c <= m1)%nat) by (unfold c; lia). pose proof (le_INR _ _ Hcm) as Hcm'.
    destruct u_range as [U0 _]. assert (0 <= (INR m1 - INR c) * u) by (apply Rmult_le_pos; lra). lra. }
  destruct (fwd_row h y (nth r b 0) (nth r y 0) Tr Huc) as (dd & dL & Hdd & HdL & Es).
  rewrite Lh in Hdd, HdL, Es.
  exists dd, dL. split; [exact Hdd|]. split.
  - intros t Ht. specialize (HdL t Ht). rewrite Nh in HdL by exact Ht. exact HdL.
  - rewrite <- Es. f_equal. apply Rsum_ext. intros t Ht. now rewrite Nh by exact Ht.
Qed.

End RoundBand.

(* ================================================================ the factorisation in the standard model *)
(* components of the t-th element of a list of flagged (coefficient, value) pairs *)
Definition kb (l : list (bool * (R * R))) (t : nat) : bool := fst (nth t l (false, (0, 0))).
Definition ka (l : list (bool * (R * R))) (t : nat) : R := fst (snd (nth t l (false, (0, 0)))).
Definition kv (l : list (bool * (R * R))) (t : nat) : R := snd (snd (nth t l (false, (0, 0)))).

Section RoundBandLU.
Variable u : R.
Hypothesis u_range : 0 <= u < 1.
Variables fadd fsub fmul fdiv : R -> R -> R.
Hypothesis fsub_ok : forall x y, exists d, Rabs d <= u /\ fsub x y = (x - y) * (1 + d).
Hypothesis fmul_ok : forall x y, exists d, Rabs d <= u /\ fmul x y = x * y * (1 + d).
Hypothesis fdiv_ok : forall x y, y <> 0 -> exists d, Rabs d <= u /\ fdiv x y = x / y * (1 + d).

Notation AR := (ARm fadd fsub fmul fdiv).
Notation bnd := (bnd u).
Notation gam := (gam u).

(* the fold over the flagged pairs only: a skipped pair costs no operation *)
Lemma sfoldk_round (l : list (bool * (R * R))) (s : R) :
  exists P W, bnd (length l) P /\ (forall t, (t < length l)%nat -> bnd (t + 1) (W t)) /\
    (sfold (A := AR) (map snd (filter fst l)) s : R)
    = P * (s - Rsum (length l) (fun t => if kb l t then ka l t * kv l t * W t else 0)).
Proof using u_range fsub_ok fmul_ok.
  revert s. induction l as [|[[|] [a v]] l IH]; intros s.
  - exists 1, (fun _ => 1). split; [apply bnd_0|]. split; [intros; cbn in *; lia|].
    change (s = 1 * (s - 0)). ring.
  - cbn [filter fst map snd].
    change (sfold (A := AR) ((a, v) :: map snd (filter fst l)) s)
      with (sfold (A := AR) (map snd (filter fst l)) (fsub s (fmul a v))).
    destruct (fmul_bnd u u_range fmul fmul_ok a v) as (em & Hem & Em).
    destruct (fsub_bnd u u_range fsub fsub_ok s (fmul a v)) as (es & Hes & Es).
    destruct (IH (fsub s (fmul a v))) as (P & W & HP' & HW & E).
    exists (P * es), (fun t => match t with O => em | S t' => W t' / es end).
    cbn [length]. split; [replace (S (length l)) with (length l + 1)%nat by lia; now apply bnd_mul|]. split.
    { intros [|t'] Ht; [exact Hem|]. replace (S t' + 1)%nat with ((t' + 1) + 1)%nat by lia.
      apply bnd_div; [exact u_range|apply HW; lia|exact Hes]. }
    rewrite E, Es, Em, Rsum_shift. unfold kb, ka, kv. cbn [nth fst snd].
    fold (kb l). fold (ka l). fold (kv l).
    rewrite (Rsum_ext (length l)
               (fun k => if fst (nth k l (false, (0, 0)))
                         then fst (snd (nth k l (false, (0, 0)))) * snd (snd (nth k l (false, (0, 0)))) * (W k / es) else 0)
               (fun k => / es * (if kb l k then ka l k * kv l k * W k else 0))).
    2:{ intros k Hk. unfold kb, ka, kv. cbv beta. pose proof (bnd_nz u u_range _ _ Hes).
        destruct (fst (nth k l (false, (0, 0)))). field; assumption. ring. }
    rewrite Rsum_scal. pose proof (bnd_nz u u_range _ _ Hes). unfold kb, ka, kv. field. assumption.
  - cbn [filter fst map snd].
    destruct (IH s) as (P & W & HP' & HW & E).
    exists P, (fun t => match t with O => 1 | S t' => W t' end).
    cbn [length]. split; [apply (bnd_mono u u_range (length l)); [lia|exact HP']|]. split.
    { intros [|t'] Ht; [apply bnd_1; exact u_range|].
      apply (bnd_mono u u_range (t' + 1)); [lia|apply HW; lia]. }
    rewrite E, Rsum_shift. unfold kb, ka, kv. cbn [nth fst snd]. f_equal. ring_simplify. reflexivity.
Qed.

Lemma sfoldk_row (l : list (bool * (R * R))) (s v D : R) (c' N : nat) :
  bnd c' D -> v * D = sfold (A := AR) (map snd (filter fst l)) s -> (length l + c' <= N)%nat -> INR N * u < 1 ->
  exists (dd : R) (d : nat -> R),
    Rabs dd <= gam N /\
    (forall t, (t < length l)%nat -> Rabs (d t) <= gam N * Rabs (ka l t)) /\
    v * (1 + dd) + Rsum (length l) (fun t => if kb l t then (ka l t + d t) * kv l t else 0) = s.
Proof using u_range fsub_ok fmul_ok.
  intros HD E HN Hu.
  destruct (sfoldk_round l s) as (P & W & HP & HW & EP).
  pose proof (bnd_nz u u_range _ _ HP) as Pnz.
  exists (D / P - 1), (fun t => ka l t * (W t - 1)). split; [|split].
  - apply (bnd_gam u u_range); [|exact Hu]. apply (bnd_mono u u_range (c' + length l)); [lia|].
    apply bnd_div; assumption.
  - intros t Ht. rewrite Rabs_mult, Rmult_comm. apply Rmult_le_compat_r; [apply Rabs_pos|].
    apply (bnd_gam u u_range); [|exact Hu]. apply (bnd_mono u u_range (t + 1)); [lia|now apply HW].
  - rewrite (Rsum_ext (length l) _ (fun t => if kb l t then ka l t * kv l t * W t else 0))
      by (intros t Ht; destruct (kb l t); ring).
    assert (E2 : v * D = P * (s - Rsum (length l) (fun t => if kb l t then ka l t * kv l t * W t else 0)))
      by (rewrite E; exact EP).
    replace (v * (1 + (D / P - 1))) with (v * D / P) by (field; exact Pnz).
    rewrite E2. field. exact Pnz.
Qed.

(* the flagged pairs of a history against column c *)
Definition kterms (au : matrix AR) (mm c : nat) (h : list (R * nat)) : list (bool * (R * R)) :=
  map (fun p => ((c - snd p <? mm)%nat, (fst p, mat_at (A := AR) au mm (snd p) (c - snd p)))) h.

Lemma uterms_kterms (au : matrix AR) mm c (h : list (R * nat)) :
  uterms (A := AR) mm au c h = map snd (filter fst (kterms au mm c h)).
Proof.
  unfold uterms, kterms. change (Arith.T AR) with R. induction h as [|p h IH]; [reflexivity|]. cbn [filter map fst snd].
  destruct (c - snd p <? mm)%nat; cbn [map snd filter fst]; [f_equal|]; exact IH.
Qed.

Lemma length_kterms au mm c (h : list (R * nat)) : length (kterms au mm c h) = length h.
Proof. unfold kterms. apply map_length. Qed.

Lemma nth_kterms au mm c (h : list (R * nat)) t : (t < length h)%nat ->
  nth t (kterms au mm c h) (false, (0, 0))
  = ((c - snd (nth t h (0%R, 0%nat)) <? mm)%nat,
     (fst (nth t h (0, 0%nat)), mat_at (A := AR) au mm (snd (nth t h (0, 0%nat))) (c - snd (nth t h (0%R, 0%nat)))%nat)).
Proof.
  intros Ht. pose (f := fun p : R * nat => ((c - snd p <? mm)%nat, (fst p, mat_at (A := AR) au mm (snd p) (c - snd p)))).
  change (nth t (map f h) (false, (0, 0)) = f (nth t h (0, 0%nat))).
  rewrite (nth_indep (map f h) (false, (0, 0)) (f (0, 0%nat))) by now rewrite map_length.
  apply map_nth.
Qed.

(* the dense reading of the computed upper factor: row j holds the columns j .. j+mm-1 *)
Definition Uc (au : matrix AR) (mm j c : nat) : R :=
  if ((j <=? c) && (c - j <? mm))%nat then mat_at (A := AR) au mm j (c - j) else 0.

Lemma Req_zero_eqb (x : AR) : eqb x zero = true -> x = zero.
Proof. cbn. destruct (Req_EM_T x 0); [auto|discriminate]. Qed.

(* Higham Theorem 9.3 for the compact band factorisation, row by row *)
Theorem band_lu_backward_error_lemma (n mm m1 : nat) (au0 al0 : matrix AR) (index0 : list nat) (d0 : R)
        (au al : matrix AR) (index : list nat) (d : R) (lf : nat) :
  cols au0 = mm -> cols al0 = m1 -> (1 <= mm)%nat -> (m1 <= n)%nat ->
  for_ 0 n (dec_step (A := AR) false n mm) (au0, al0, index0, d0, m1) = Ok (au, al, index, d, lf) ->
  (forall k, (k < n)%nat -> mat_at (A := AR) au mm k 0 <> 0) ->
  forall r, (r < n)%nat ->
    let h : list (R * nat) := fhist (A := AR) n m1 al index n r in
    INR (length h) * u < 1 ->
    (forall s, (s < mm)%nat ->
       exists (dd : R) (dL : nat -> R),
         Rabs dd <= gam (length h) /\
         (forall t, (t < length h)%nat -> Rabs (dL t) <= gam (length h) * Rabs (fst (nth t h (0, 0%nat)))) /\
         (1 + dd) * mat_at (A := AR) au mm r s
         + Rsum (length h) (fun t => (fst (nth t h (0, 0%nat)) + dL t) * Uc au mm (snd (nth t h (0, 0%nat))) (r + s))
         = D0 (A := AR) mm m1 au0 (fperm index n r) (r + s)) /\
    (forall t, (t < length h)%nat ->
       exists dL : nat -> R,
         (forall t', (t' <= t)%nat -> Rabs (dL t') <= gam (t + 1) * Rabs (fst (nth t' h (0, 0%nat)))) /\
         Rsum (S t) (fun t' => (fst (nth t' h (0, 0%nat)) + dL t')
                               * Uc au mm (snd (nth t' h (0, 0%nat))) (snd (nth t h (0%R, 0%nat))))
         = D0 (A := AR) mm m1 au0 (fperm index n r) (snd (nth t h (0%R, 0%nat)))).
Proof using u_range fsub_ok fmul_ok fdiv_ok.
  intros Hc Hcl Hmm Hm1 E Hpiv r Hr h Hu.
  destruct (band_dec_trace_lemma (A := AR) Req_zero_eqb n mm m1 au0 al0 index0 d0 au al index d lf Hc Hcl Hmm Hm1 E)
    as (Hc' & Hcl' & Hix & Hcond).
  destruct (Hcond Hpiv) as (Hrow & Hlok). clear Hcond.
  assert (Hix' : forall k, (k < n)%nat -> (k + 1 <= nth k index 0%nat)%nat) by (intros k Hk; apply Hix; exact Hk).
  assert (Htag : forall t, (t < length h)%nat -> (snd (nth t h (0%R, 0%nat)) < r)%nat).
  { intros t Ht. apply (fhist_final_tags (A := AR) n m1 al index r); [exact Hix'|exact Hr|]. now apply nth_In. }
  split.
  - intros s Hs. pose proof (Hrow r s Hr Hs) as Tr. fold h in Tr.
    rewrite uterms_kterms in Tr. change (Arith.T AR) with R in Tr.
    assert (E1 : mat_at (A := AR) au mm r s * 1
                 = sfold (A := AR) (map snd (filter fst (kterms au mm (r + s) h)))
                     (D0 (A := AR) mm m1 au0 (fperm index n r) (r + s))) by (rewrite Rmult_1_r; exact Tr).
    destruct (sfoldk_row (kterms au mm (r + s) h) _ _ 1 0 (length h) (bnd_0 u) E1
                ltac:(rewrite length_kterms; lia) Hu) as (dd & dL & Hdd & HdL & Es).
    rewrite length_kterms in HdL, Es.
    exists dd, dL. split; [exact Hdd|]. split.
    + intros t Ht. specialize (HdL t Ht). unfold ka in HdL. rewrite nth_kterms in HdL by exact Ht. exact HdL.
    + rewrite <- Es. f_equal; [ring|]. apply Rsum_ext. intros t Ht.
      unfold kb, ka, kv. rewrite nth_kterms by exact Ht. cbn [fst snd]. unfold Uc.
      pose proof (Htag t Ht) as Hj.
      replace (snd (nth t h (0%R, 0%nat)) <=? r + s)%nat with true by (symmetry; apply Nat.leb_le; lia).
      cbn [andb]. destruct (r + s - snd (nth t h (0%R, 0%nat)) <? mm)%nat; ring.
  - intros t Ht. pose proof (Hlok r Hr t Ht) as Lk. fold h in Lk. cbn zeta in Lk.
    change (@zero AR) with 0 in Lk. change (Arith.T AR) with R in Lk.
    set (j := snd (nth t h (0, 0%nat))) in *. set (a := fst (nth t h (0, 0%nat))) in *.
    rewrite uterms_kterms in Lk.
    set (X := sfold (A := AR) (map snd (filter fst (kterms au mm j (firstn t h))))
                (D0 (A := AR) mm m1 au0 (fperm index n r) j)) in *.
    set (U := mat_at (A := AR) au mm j 0) in *.
    change (Ok (fdiv X U) = Ok a) in Lk. injection Lk as Lk.
    assert (HU : U <> 0) by (apply Hpiv; pose proof (Htag t Ht); unfold j; lia).
    destruct (fdiv_bnd u u_range fdiv fdiv_ok X U HU) as (ed & Hed & Ed).
    pose proof (bnd_nz u u_range _ _ Hed) as Enz.
    assert (E1 : a * U * / ed = X) by (rewrite <- Lk, Ed; field; split; assumption).
    assert (Lf : length (firstn t h) = t) by (rewrite firstn_length; lia).
    assert (Hut : INR (t + 1) * u < 1).
    { assert (Hle : (t + 1 <= length h)%nat) by lia. pose proof (le_INR _ _ Hle) as Hle'.
      destruct u_range as [U0 _]. assert (0 <= (INR (length h) - INR (t + 1)) * u) by (apply Rmult_le_pos; lra). lra. }
    destruct (sfoldk_row (kterms au mm j (firstn t h)) _ (a * U) (/ ed) 1 (t + 1)
                (bnd_inv u u_range _ _ Hed) E1 ltac:(rewrite length_kterms, Lf; lia) Hut) as (dd & dL & Hdd & HdL & Es).
    rewrite length_kterms, Lf in HdL, Es.
    exists (fun t' => if (t' <? t)%nat then dL t' else a * dd). split.
    + intros t' Ht'. destruct (Nat.ltb_spec t' t) as [L|G].
      * specialize (HdL t' L). unfold ka in HdL. rewrite nth_kterms in HdL by (rewrite Lf; exact L).
        rewrite nth_firstn_lt in HdL by exact L. exact HdL.
      * assert (t' = t) as -> by lia. fold a. rewrite Rabs_mult, Rmult_comm.
        apply Rmult_le_compat_r; [apply Rabs_pos|exact Hdd].
    + cbn [Rsum]. rewrite Nat.ltb_irrefl. fold a. rewrite <- Es. rewrite Rplus_comm. f_equal.
      * unfold Uc. fold j. rewrite Nat.leb_refl, Nat.sub_diag.
        replace (0 <? mm)%nat with true by (symmetry; apply Nat.ltb_lt; lia). cbn [andb]. fold U. ring.
      * apply Rsum_ext. intros t' Ht'. destruct (Nat.ltb_spec t' t) as [_|]; [|lia].
        unfold kb, ka, kv. rewrite nth_kterms by (rewrite Lf; exact Ht'). cbn [fst snd].
        rewrite !nth_firstn_lt by exact Ht'. unfold Uc.
        assert (Hs : (snd (nth t' h (0%R, 0%nat)) < j)%nat)
          by exact (fhist_sorted (A := AR) n m1 al index n r t' t Ht' Ht).
        replace (snd (nth t' h (0%R, 0%nat)) <=? j)%nat with true by (symmetry; apply Nat.leb_le; lia).
        cbn [andb]. destruct (j - snd (nth t' h (0%R, 0%nat)) <? mm)%nat; ring.
Qed.

End RoundBandLU.

(* ================================================================ the factorisation without exchanges *)
Section RoundBandNoswap.
Variable u : R.
Hypothesis u_range : 0 <= u < 1.
Variables fadd fsub fmul fdiv : R -> R -> R.
Hypothesis fsub_ok : forall x y, exists d, Rabs d <= u /\ fsub x y = (x - y) * (1 + d).
Hypothesis fmul_ok : forall x y, exists d, Rabs d <= u /\ fmul x y = x * y * (1 + d).
Hypothesis fdiv_ok : forall x y, y <> 0 -> exists d, Rabs d <= u /\ fdiv x y = x / y * (1 + d).

Notation AR := (ARm fadd fsub fmul fdiv).
Notation gam := (gam u).
Notation Uc := (Uc fadd fsub fmul fdiv).

(* the factorisation when the pivot search never leaves the diagonal (index[k] = k+1): the band LU without pivoting,
   L_(r,j) = al[j][r-j-1] for r - m1 <= j < r, and the constant depends on the bandwidth only: gam (min r m1) <= gam m1 *)
Theorem band_lu_noswap_backward_error_lemma (n mm m1 : nat) (au0 al0 : matrix AR) (index0 : list nat) (d0 : R)
        (au al : matrix AR) (index : list nat) (d : R) (lf : nat) :
  cols au0 = mm -> cols al0 = m1 -> (1 <= mm)%nat -> (m1 <= n)%nat -> INR m1 * u < 1 ->
  for_ 0 n (dec_step (A := AR) false n mm) (au0, al0, index0, d0, m1) = Ok (au, al, index, d, lf) ->
  (forall k, (k < n)%nat -> mat_at (A := AR) au mm k 0 <> 0) ->
  (forall k, (k < n)%nat -> nth k index 0%nat = (k + 1)%nat) ->
  forall r, (r < n)%nat ->
    (forall s, (s < mm)%nat ->
       exists (dd : R) (dL : nat -> R),
         Rabs dd <= gam (Nat.min r m1) /\
         (forall t, (t < Nat.min r m1)%nat ->
            Rabs (dL t) <= gam (Nat.min r m1)
                           * Rabs (mat_at (A := AR) al m1 (r - Nat.min r m1 + t) (r - (r - Nat.min r m1 + t) - 1))) /\
         (1 + dd) * mat_at (A := AR) au mm r s
         + Rsum (Nat.min r m1)
             (fun t => (mat_at (A := AR) al m1 (r - Nat.min r m1 + t) (r - (r - Nat.min r m1 + t) - 1) + dL t)
                       * Uc au mm (r - Nat.min r m1 + t) (r + s))
         = D0 (A := AR) mm m1 au0 r (r + s)) /\
    (forall t, (t < Nat.min r m1)%nat ->
       exists dL : nat -> R,
         (forall t', (t' <= t)%nat ->
            Rabs (dL t') <= gam (t + 1)
                            * Rabs (mat_at (A := AR) al m1 (r - Nat.min r m1 + t') (r - (r - Nat.min r m1 + t') - 1))) /\
         Rsum (S t)
           (fun t' => (mat_at (A := AR) al m1 (r - Nat.min r m1 + t') (r - (r - Nat.min r m1 + t') - 1) + dL t')
                      * Uc au mm (r - Nat.min r m1 + t') (r - Nat.min r m1 + t))
         = D0 (A := AR) mm m1 au0 r (r - Nat.min r m1 + t)).
Proof using u_range fsub_ok fmul_ok fdiv_ok.
  intros Hc Hcl Hmm Hm1 Hu E Hpiv Hix r Hr.
  pose proof (band_lu_backward_error_lemma u u_range fadd fsub fmul fdiv fsub_ok fmul_ok fdiv_ok
                n mm m1 au0 al0 index0 d0 au al index d lf Hc Hcl Hmm Hm1 E Hpiv r Hr) as HLU.
  cbn zeta in HLU. rewrite (fperm_noswap index n n r Hix (le_n n)) in HLU.
  rewrite (fhist_noswap (A := AR) n m1 al index r Hix Hr) in HLU.
  set (c := Nat.min r m1) in *.
  set (h := map (fun j => (mat_at (A := AR) al m1 j (r - j - 1), j)) (seq (r - c) c)) in *.
  assert (Lh : @length (R * nat) h = c) by (unfold h; now rewrite map_length, seq_length).
  assert (Nh : forall t, (t < c)%nat -> nth t h (0, 0%nat)
               = (mat_at (A := AR) al m1 (r - c + t) (r - (r - c + t) - 1), (r - c + t)%nat)).
  { intros t Ht. unfold h. now rewrite nth_map_seq_gen by exact Ht. }
  assert (Huc : INR (@length (R * nat) h) * u < 1).
  { rewrite Lh. assert (Hcm : (c <= m1)%nat) by (unfold c; lia). pose proof (le_INR _ _ Hcm) as Hcm'.
    destruct u_range as [U0 _]. assert (0 <= (INR m1 - INR c) * u) by (apply Rmult_le_pos; lra). lra. }
  destruct (HLU Huc) as (HU & HL). rewrite Lh in HU, HL. change (Arith.T AR) with R in *. split.
  - intros s Hs. destruct (HU s Hs) as (dd & dL & H1 & H2 & H3). exists dd, dL.
    split; [exact H1|]. split.
    + intros t Ht. specialize (H2 t Ht). rewrite Nh in H2 by exact Ht. exact H2.
    + rewrite <- H3. f_equal. apply Rsum_ext. intros t Ht. now rewrite Nh by exact Ht.
  - intros t Ht. destruct (HL t Ht) as (dL & H1 & H2). exists dL. split.
    + intros t' Ht'. specialize (H1 t' Ht'). rewrite Nh in H1 by lia. exact H1.
    + rewrite (Nh t Ht) in H2. cbn [snd] in H2. rewrite <- H2. apply Rsum_ext. intros t' Ht'.
      now rewrite Nh by lia.
Qed.

End RoundBandNoswap.

(* ================================================================ band_solve as a whole: the three statements for the
   factors the solver computed itself *)
Section RoundBandSolve.
Variable u : R.
Hypothesis u_range : 0 <= u < 1.
Variables fadd fsub fmul fdiv : R -> R -> R.
Hypothesis fsub_ok : forall x y, exists d, Rabs d <= u /\ fsub x y = (x - y) * (1 + d).
Hypothesis fmul_ok : forall x y, exists d, Rabs d <= u /\ fmul x y = x * y * (1 + d).
Hypothesis fdiv_ok : forall x y, y <> 0 -> exists d, Rabs d <= u /\ fdiv x y = x / y * (1 + d).

Notation AR := (ARm fadd fsub fmul fdiv).
Notation gam := (gam u).
Notation Uc := (Uc fadd fsub fmul fdiv).

Theorem band_solve_backward_error_lemma (B : banded AR) (b x : list R) :
  wfB B -> length b = bn B -> (bm1 B <= bn B)%nat -> band_solve B b = Ok x ->
  exists (au al : matrix AR) (index : list nat) (y : list R),
    (exists d : R, decompose_gen (A := AR) false B (compact B) (mat_new (A := AR) (bn B) (bm1 B) 0) (repeat 0%nat (bn B))
                 = Ok (au, al, index, d)) /\
    length y = bn B /\ length x = bn B /\
    (forall k, (k < bn B)%nat -> (k + 1 <= nth k index 0%nat <= Nat.min (k + 1 + bm1 B) (bn B))%nat) /\
    ((forall k, (k < bn B)%nat -> mat_at (A := AR) au (bm1 B + bm2 B + 1) k 0 <> 0) ->
     (INR (bm1 B + bm2 B + 1) * u < 1 ->
      exists dU : nat -> nat -> R,
        (forall i k, (i < bn B)%nat -> (k < bwin (bm1 B + bm2 B + 1) (bn B) i)%nat ->
           Rabs (dU i k) <= gam (bwin (bm1 B + bm2 B + 1) (bn B) i) * Rabs (mat_at (A := AR) au (bm1 B + bm2 B + 1) i k)) /\
        forall i, (i < bn B)%nat ->
          Rsum (bwin (bm1 B + bm2 B + 1) (bn B) i)
            (fun k => (mat_at (A := AR) au (bm1 B + bm2 B + 1) i k + dU i k) * nth (i + k) x 0) = nth i y 0) /\
     forall r, (r < bn B)%nat ->
       let h : list (R * nat) := fhist (A := AR) (bn B) (bm1 B) al index (bn B) r in
       (length h <= r)%nat /\
       (forall t, (t < length h)%nat -> (snd (nth t h (0%R, 0%nat)) < r)%nat) /\
       (INR (length h) * u < 1 ->
        (exists (dd : R) (dL : nat -> R),
           Rabs dd <= gam (length h) /\
           (forall t, (t < length h)%nat -> Rabs (dL t) <= gam (length h) * Rabs (fst (nth t h (0, 0%nat)))) /\
           (1 + dd) * nth r y 0
           + Rsum (length h) (fun t => (fst (nth t h (0, 0%nat)) + dL t) * nth (snd (nth t h (0, 0%nat))) y 0)
           = nth (fperm index (bn B) r) b 0) /\
        (forall s, (s < bm1 B + bm2 B + 1)%nat ->
           exists (dd : R) (dL : nat -> R),
             Rabs dd <= gam (length h) /\
             (forall t, (t < length h)%nat -> Rabs (dL t) <= gam (length h) * Rabs (fst (nth t h (0, 0%nat)))) /\
             (1 + dd) * mat_at (A := AR) au (bm1 B + bm2 B + 1) r s
             + Rsum (length h) (fun t => (fst (nth t h (0, 0%nat)) + dL t)
                                         * Uc au (bm1 B + bm2 B + 1) (snd (nth t h (0, 0%nat))) (r + s))
             = dense_entry B (fperm index (bn B) r) (r + s)) /\
        (forall t, (t < length h)%nat ->
           exists dL : nat -> R,
             (forall t', (t' <= t)%nat -> Rabs (dL t') <= gam (t + 1) * Rabs (fst (nth t' h (0, 0%nat)))) /\
             Rsum (S t) (fun t' => (fst (nth t' h (0, 0%nat)) + dL t')
                                   * Uc au (bm1 B + bm2 B + 1) (snd (nth t' h (0, 0%nat))) (snd (nth t h (0%R, 0%nat))))
             = dense_entry B (fperm index (bn B) r) (snd (nth t h (0%R, 0%nat)))))).
Proof using u_range fsub_ok fmul_ok fdiv_ok.
  intros Hwf Hb Hm1 E.
  destruct (band_solve_phases_lemma (A := AR) B b x (Req_zero_eqb fadd fsub fmul fdiv) Hwf Hb Hm1 E)
    as (au0 & au & al & index & d & y & l1 & l2 & l3 & Es & El & Ef & Eb & Hc0 & Hc & Hcl & Ly & Hix & HD).
  set (n := bn B) in *. set (m1 := bm1 B) in *. set (mm := (bm1 B + bm2 B + 1)%nat) in *.
  assert (Hmm : (1 <= mm)%nat) by (unfold mm; lia).
  exists au, al, index, y. split.
  { exists d. unfold decompose_gen. fold m1 mm n. change (@zero AR) with 0 in Es, El.
    rewrite Es. cbn [bind]. change (@one AR) with 1 in El. change (@zero AR) with 0. change (@one AR) with 1.
    rewrite El. reflexivity. }
  split; [exact Ly|].
  assert (Hix' : forall k, (k < n)%nat -> (k + 1 <= nth k index 0%nat)%nat) by (intros k Hk; apply Hix; exact Hk).
  destruct (band_back_trace_lemma (A := AR) au mm n y x l3 Hc Hmm Ly Eb) as (Lx & _).
  split; [exact Lx|]. split; [exact Hix|].
  intros Hpiv. split.
  - intros Hu.
    exact (proj2 (band_backsolve_backward_error_lemma u u_range fadd fsub fmul fdiv fsub_ok fmul_ok fdiv_ok
                    au mm n y x l3 Hc Hmm Ly Hu Hpiv Eb)).
  - intros r Hr.
    destruct (band_forward_backward_error_lemma u u_range fadd fsub fmul fdiv fsub_ok fmul_ok
                al index n m1 b y l2 Hcl Hm1 Hb Hix' Ef) as (_ & HF).
    destruct (HF r Hr) as (HF1 & HF2 & HF3). cbn zeta in HF1, HF2, HF3. cbn zeta.
    split; [exact HF1|]. split; [exact HF2|]. intros Hu. split; [exact (HF3 Hu)|].
    pose proof (band_lu_backward_error_lemma u u_range fadd fsub fmul fdiv fsub_ok fmul_ok fdiv_ok
                  n mm m1 au0 (mat_new (A := AR) n m1 0) (repeat 0%nat n) 1 au al index d l1 Hc0 eq_refl Hmm Hm1 El Hpiv r Hr Hu)
      as (HU & HL).
    split.
    + intros s Hs. destruct (HU s Hs) as (dd & dL & H1 & H2 & H3). exists dd, dL.
      split; [exact H1|]. split; [exact H2|]. rewrite <- HD. exact H3.
    + intros t Ht. destruct (HL t Ht) as (dL & H1 & H2). exists dL. split; [exact H1|]. rewrite <- HD. exact H2.
Qed.

End RoundBandSolve.

(* ================================================================ one perturbed system: Higham Theorem 9.4 for the band *)

(* ---------------------------------------------------------------- real-number bookkeeping *)
Lemma Rsum_window n lo len (f : nat -> R) : (lo + len <= n)%nat ->
  Rsum n (fun k => if ((lo <=? k) && (k <? lo + len))%nat then f (k - lo)%nat else 0) = Rsum len f.
Proof.
  induction len as [|len IH]; intros H.
  - cbn [Rsum]. apply Rsum_zero. intros k Hk.
    destruct (Nat.leb_spec lo k); destruct (Nat.ltb_spec k (lo + 0)); cbn [andb]; try reflexivity; lia.
  - cbn [Rsum]. rewrite <- IH by lia.
    rewrite <- (Rsum_pick n (lo + len) (f len)) by lia. rewrite <- Rsum_plus. apply Rsum_ext. intros k Hk.
    destruct (Nat.eqb_spec (lo + len) k) as [<-|Ne].
    + replace (lo <=? lo + len)%nat with true by (symmetry; apply Nat.leb_le; lia).
      replace (lo + len <? lo + S len)%nat with true by (symmetry; apply Nat.ltb_lt; lia).
      rewrite Nat.ltb_irrefl. cbn [andb]. replace (lo + len - lo)%nat with len by lia. ring.
    + destruct (Nat.leb_spec lo k); cbn [andb]; [|ring].
      destruct (Nat.ltb_spec k (lo + S len)); destruct (Nat.ltb_spec k (lo + len)); try lia; ring.
Qed.

(* a row given by a run of c coefficients ending left of the diagonal, and a diagonal entry *)
Lemma row_dense n r c (coef : nat -> R) (dg : R) (G : nat -> R) : (c <= r)%nat -> (r < n)%nat ->
  Rsum n (fun k => (if (k <? r)%nat then (if (r - c <=? k)%nat then coef (k - (r - c))%nat else 0)
                    else if (k =? r)%nat then dg else 0) * G k)
  = dg * G r + Rsum c (fun t => coef t * G (r - c + t)%nat).
Proof.
  intros Hc Hr.
  rewrite <- (Rsum_window n (r - c) c (fun t => coef t * G (r - c + t)%nat)) by lia.
  rewrite <- (Rsum_pick n r (dg * G r)) by lia. rewrite <- Rsum_plus. apply Rsum_ext. intros k Hk.
  destruct (Nat.ltb_spec k r) as [L|L].
  - destruct (Nat.eqb_spec r k); [lia|].
    replace (k <? r - c + c)%nat with true by (symmetry; apply Nat.ltb_lt; lia). rewrite andb_true_r.
    destruct (Nat.leb_spec (r - c) k); [|ring]. replace (r - c + (k - (r - c)))%nat with k by lia. ring.
  - replace (k <? r - c + c)%nat with false by (symmetry; apply Nat.ltb_ge; lia). rewrite andb_false_r.
    rewrite (Nat.eqb_sym k r). destruct (Nat.eqb_spec r k) as [->|]; ring.
Qed.

Lemma lu_term_bound_add (L U dL dU E g : R) :
  0 <= g -> Rabs dL <= g * Rabs L -> Rabs dU <= g * Rabs U -> Rabs E <= g * (Rabs L * Rabs U) ->
  Rabs ((L + dL) * (U + dU) - (L * U + E)) <= (3 * g + g * g) * (Rabs L * Rabs U).
Proof.
  intros Hg HL HU HE.
  replace ((L + dL) * (U + dU) - (L * U + E)) with (- E + dL * U + L * dU + dL * dU) by ring.
  eapply Rle_trans; [apply Rabs_triang|]. eapply Rle_trans; [apply Rplus_le_compat_r, Rabs_triang|].
  eapply Rle_trans; [apply Rplus_le_compat_r, Rplus_le_compat_r, Rabs_triang|].
  rewrite Rabs_Ropp, !Rabs_mult.
  pose proof (Rabs_pos L). pose proof (Rabs_pos U). pose proof (Rabs_pos dL). pose proof (Rabs_pos dU).
  assert (PLU : 0 <= Rabs L * Rabs U) by (apply Rmult_le_pos; assumption).
  assert (Rabs dL * Rabs U <= g * (Rabs L * Rabs U)).
  { rewrite <- Rmult_assoc. apply Rmult_le_compat_r; assumption. }
  assert (Rabs L * Rabs dU <= g * (Rabs L * Rabs U)).
  { replace (g * (Rabs L * Rabs U)) with (Rabs L * (g * Rabs U)) by ring. apply Rmult_le_compat_l; assumption. }
  assert (Rabs dL * Rabs dU <= g * g * (Rabs L * Rabs U)).
  { apply Rle_trans with ((g * Rabs L) * (g * Rabs U)); [|right; ring].
    apply Rmult_le_compat; assumption. }
  lra.
Qed.

(* (L + dL) y = b', (U + dU) x = y, L U = B + (entrywise small)  ==>  (B + dB) x = b' *)
Lemma lu_assemble n (L U dL dU Bm : nat -> nat -> R) (x y bb : nat -> R) (g : R) :
  0 <= g ->
  (forall r k, (r < n)%nat -> (k < n)%nat -> Rabs (dL r k) <= g * Rabs (L r k)) ->
  (forall k c, (k < n)%nat -> (c < n)%nat -> Rabs (dU k c) <= g * Rabs (U k c)) ->
  (forall r, (r < n)%nat -> Rsum n (fun k => (L r k + dL r k) * y k) = bb r) ->
  (forall k, (k < n)%nat -> Rsum n (fun c => (U k c + dU k c) * x c) = y k) ->
  (forall r c, (r < n)%nat -> (c < n)%nat ->
     exists E : nat -> R, (forall k, (k < n)%nat -> Rabs (E k) <= g * (Rabs (L r k) * Rabs (U k c))) /\
       Bm r c = Rsum n (fun k => L r k * U k c + E k)) ->
  exists dB : nat -> nat -> R,
    (forall r c, (r < n)%nat -> (c < n)%nat ->
       Rabs (dB r c) <= (3 * g + g * g) * Rsum n (fun k => Rabs (L r k) * Rabs (U k c))) /\
    forall r, (r < n)%nat -> Rsum n (fun c => (Bm r c + dB r c) * x c) = bb r.
Proof.
  intros Hg HdL HdU RowsL RowsU Hfac.
  exists (fun r c => Rsum n (fun k => (L r k + dL r k) * (U k c + dU k c)) - Bm r c). split.
  - intros r c Hr Hc. destruct (Hfac r c Hr Hc) as (E & HE & Ef). rewrite Ef, <- Rsum_minus.
    eapply Rle_trans; [apply Rsum_abs|]. rewrite <- Rsum_scal. apply Rsum_le. intros k Hk.
    apply lu_term_bound_add; [exact Hg|now apply HdL|now apply HdU|now apply HE].
  - intros r Hr.
    rewrite (Rsum_ext n _ (fun c => Rsum n (fun k => (L r k + dL r k) * ((U k c + dU k c) * x c)))).
    2:{ intros c Hc. replace (Bm r c + (Rsum n (fun k => (L r k + dL r k) * (U k c + dU k c)) - Bm r c))
          with (Rsum n (fun k => (L r k + dL r k) * (U k c + dU k c))) by ring.
        rewrite Rmult_comm, <- Rsum_scal. apply Rsum_ext. intros k Hk. ring. }
    rewrite <- (Rsum_swap n n (fun k c => (L r k + dL r k) * ((U k c + dU k c) * x c))).
    rewrite (Rsum_ext n _ (fun k => (L r k + dL r k) * y k)).
    2:{ intros k Hk. rewrite Rsum_scal. f_equal. exact (RowsU k Hk). }
    exact (RowsL r Hr).
Qed.

(* row r of the unit lower triangular factor, from its history (consecutive stages ending at r - 1) *)
Definition Ld (h : list (R * nat)) (r k : nat) : R :=
  if (k <? r)%nat then (if (r - length h <=? k)%nat then fst (nth (k - (r - length h)) h (0, 0%nat)) else 0)
  else if (k =? r)%nat then 1 else 0.

Section RoundBandSingle.
Variable u : R.
Hypothesis u_range : 0 <= u < 1.
Variables fadd fsub fmul fdiv : R -> R -> R.
Hypothesis fsub_ok : forall x y, exists d, Rabs d <= u /\ fsub x y = (x - y) * (1 + d).
Hypothesis fmul_ok : forall x y, exists d, Rabs d <= u /\ fmul x y = x * y * (1 + d).
Hypothesis fdiv_ok : forall x y, y <> 0 -> exists d, Rabs d <= u /\ fdiv x y = x / y * (1 + d).

Notation AR := (ARm fadd fsub fmul fdiv).
Notation gam := (gam u).
Notation Uc := (Uc fadd fsub fmul fdiv).

Lemma gam_le_N (a N : nat) : (a <= N)%nat -> INR N * u < 1 -> gam a <= gam N /\ INR a * u < 1.
Proof using u_range.
  intros Ha HN. split; [now apply (gam_mono u u_range)|].
  pose proof (le_INR _ _ Ha) as Ha'. destruct u_range as [U0 _].
  assert (0 <= (INR N - INR a) * u) by (apply Rmult_le_pos; lra). lra.
Qed.

(* Higham Theorem 9.4 for the banded solver: one perturbed system *)
Theorem band_solve_single_backward_error_lemma (B : banded AR) (b x : list R) (N : nat) :
  wfB B -> length b = bn B -> (bm1 B <= bn B)%nat -> band_solve B b = Ok x ->
  exists (au al : matrix AR) (index : list nat),
    (exists d : R, decompose_gen (A := AR) false B (compact B) (mat_new (A := AR) (bn B) (bm1 B) 0) (repeat 0%nat (bn B))
                   = Ok (au, al, index, d)) /\
    ((forall k, (k < bn B)%nat -> mat_at (A := AR) au (bm1 B + bm2 B + 1) k 0 <> 0) ->
     (bm1 B + bm2 B + 1 <= N)%nat ->
     (forall r, (r < bn B)%nat -> (length (fhist (A := AR) (bn B) (bm1 B) al index (bn B) r) <= N)%nat) ->
     INR N * u < 1 ->
     (forall r, (r < bn B)%nat -> (fperm index (bn B) r < bn B)%nat) /\
     (forall r r', fperm index (bn B) r = fperm index (bn B) r' -> r = r') /\
     exists dB : nat -> nat -> R,
       (forall r c, (r < bn B)%nat -> (c < bn B)%nat ->
          Rabs (dB r c) <= (3 * gam N + gam N * gam N)
                           * Rsum (bn B) (fun k => Rabs (Ld (fhist (A := AR) (bn B) (bm1 B) al index (bn B) r) r k)
                                                   * Rabs (Uc au (bm1 B + bm2 B + 1) k c))) /\
       forall r, (r < bn B)%nat ->
         Rsum (bn B) (fun c => (dense_entry B (fperm index (bn B) r) c + dB r c) * nth c x 0)
         = nth (fperm index (bn B) r) b 0).
Proof using u_range fsub_ok fmul_ok fdiv_ok.
  intros Hwf Hb Hm1 E.
  destruct (band_solve_phases_lemma (A := AR) B b x (Req_zero_eqb fadd fsub fmul fdiv) Hwf Hb Hm1 E)
    as (au0 & au & al & index & d & y & l1 & l2 & l3 & Es & El & Ef & Eb & Hc0 & Hc & Hcl & Ly & Hix & HD).
  set (n := bn B) in *. set (m1 := bm1 B) in *. set (mm := (bm1 B + bm2 B + 1)%nat) in *.
  assert (Hmm : (1 <= mm)%nat) by (unfold mm; lia).
  exists au, al, index. split.
  { exists d. unfold decompose_gen. fold m1 mm n. change (@zero AR) with 0 in Es, El.
    rewrite Es. cbn [bind]. change (@one AR) with 1 in El. change (@zero AR) with 0. change (@one AR) with 1.
    rewrite El. reflexivity. }
  intros Hpiv HmmN HcN HN.
  assert (Hix' : forall k, (k < n)%nat -> (k + 1 <= nth k index 0%nat)%nat) by (intros k Hk; apply Hix; exact Hk).
  pose proof (gam_nonneg u u_range N HN) as Hg.
  split; [intros r Hr; exact (proj1 (band_history_origin_lemma (A := AR) n m1 al index r Hix Hr))|].
  split; [intros r r'; apply fperm_inj|].
  (* the three row-wise statements *)
  destruct (gam_le_N mm N HmmN HN) as (GmmN & Hum).
  destruct (band_backsolve_backward_error_lemma u u_range fadd fsub fmul fdiv fsub_ok fmul_ok fdiv_ok
              au mm n y x l3 Hc Hmm Ly Hum Hpiv Eb) as (Lx & dU & HdU & RowsU).
  destruct (band_forward_backward_error_lemma u u_range fadd fsub fmul fdiv fsub_ok fmul_ok
              al index n m1 b y l2 Hcl Hm1 Hb Hix' Ef) as (_ & HF).
  pose (hh := fun r => (fhist (A := AR) n m1 al index n r : list (R * nat))).
  pose (cc := fun r => length (hh r)).
  assert (Hshape : forall r, (r < n)%nat -> (cc r <= r)%nat /\
            forall t, (t < cc r)%nat -> snd (nth t (hh r) (0, 0%nat)) = (r - cc r + t)%nat).
  { intros r Hr. exact (band_history_shape_lemma (A := AR) n m1 al index r Hix Hr). }
  destruct (fin_choice (0, fun _ : nat => 0)
              (fun r (F : R * (nat -> R)) =>
                 Rabs (fst F) <= gam (cc r) /\
                 (forall t, (t < cc r)%nat -> Rabs (snd F t) <= gam (cc r) * Rabs (fst (nth t (hh r) (0, 0%nat)))) /\
                 (1 + fst F) * nth r y 0
                 + Rsum (cc r) (fun t => (fst (nth t (hh r) (0, 0%nat)) + snd F t) * nth (snd (nth t (hh r) (0, 0%nat))) y 0)
                 = nth (fperm index n r) b 0) n) as (FL & HFL).
  { intros r Hr. destruct (HF r Hr) as (_ & _ & HF3). cbn zeta in HF3.
    destruct (HF3 (proj2 (gam_le_N _ N (HcN r Hr) HN))) as (dd & dL & H1 & H2 & H3).
    exists (dd, dL). cbn [fst snd]. split; [exact H1|]. split; [exact H2|exact H3]. }
  pose (L := fun r k => Ld (hh r) r k).
  pose (dL := fun r k => if (k <? r)%nat then (if (r - cc r <=? k)%nat then snd (FL r) (k - (r - cc r))%nat else 0)
                         else if (k =? r)%nat then fst (FL r) else 0).
  pose (U := fun k c => Uc au mm k c).
  pose (dUd := fun k c => if ((k <=? c) && (c <? k + bwin mm n k))%nat then dU k (c - k)%nat else 0).
  destruct (lu_assemble n L U dL dUd (fun r c => dense_entry B (fperm index n r) c)
              (fun c => nth c x 0) (fun k => nth k y 0) (fun r => nth (fperm index n r) b 0) (gam N) Hg)
    as (dB & HdB & Heq).
  - (* |dL| *)
    intros r k Hr Hk. unfold dL, L, Ld. fold (cc r).
    destruct (HFL r Hr) as (H1 & H2 & _).
    assert (GN : gam (cc r) <= gam N) by exact (proj1 (gam_le_N _ N (HcN r Hr) HN)).
    destruct (Nat.ltb_spec k r).
    + destruct (Nat.leb_spec (r - cc r) k).
      * eapply Rle_trans; [apply H2; destruct (Hshape r Hr); lia|].
        apply Rmult_le_compat_r; [apply Rabs_pos|exact GN].
      * rewrite Rabs_R0. pose proof (Rabs_pos 0). nra.
    + destruct (Nat.eqb_spec k r).
      * rewrite Rabs_R1, Rmult_1_r. lra.
      * rewrite Rabs_R0. lra.
  - (* |dU| *)
    intros k c Hk Hc'. unfold dUd, U, Uc.
    destruct (Nat.leb_spec k c) as [L1|L1]; cbn [andb]; [|rewrite Rabs_R0; pose proof (Rabs_pos 0); nra].
    destruct (Nat.ltb_spec c (k + bwin mm n k)) as [L2|L2].
    + assert (L3 : (c - k < bwin mm n k)%nat) by lia.
      replace (c - k <? mm)%nat with true by (symmetry; apply Nat.ltb_lt; unfold bwin in L3; lia).
      eapply Rle_trans; [apply (HdU k (c - k)%nat Hk L3)|].
      apply Rmult_le_compat_r; [apply Rabs_pos|]. apply (gam_mono u u_range); [unfold bwin; lia|exact HN].
    + destruct (c - k <? mm)%nat; rewrite Rabs_R0; pose proof (Rabs_pos (mat_at (A := AR) au mm k (c - k)));
        pose proof (Rabs_pos 0); nra.
  - (* (L + dL) y = P b *)
    intros r Hr. destruct (HFL r Hr) as (_ & _ & H3). destruct (Hshape r Hr) as (Hcr & Htag).
    rewrite <- H3.
    pose (coef := fun t => fst (nth t (hh r) (0, 0%nat)) + snd (FL r) t). pose (G := fun k => nth k y 0).
    rewrite (Rsum_ext n _ (fun k => (if (k <? r)%nat
                                     then (if (r - cc r <=? k)%nat then coef (k - (r - cc r))%nat else 0)
                                     else if (k =? r)%nat then 1 + fst (FL r) else 0) * G k)).
    2:{ intros k Hk. unfold L, Ld, dL, coef, G. fold (cc r).
        destruct (k <? r)%nat; [destruct (r - cc r <=? k)%nat; ring|destruct (k =? r)%nat; ring]. }
    rewrite (row_dense n r (cc r) coef (1 + fst (FL r)) G Hcr Hr). unfold coef, G. f_equal.
    apply Rsum_ext. intros t Ht. now rewrite Htag by exact Ht.
  - (* (U + dU) x = y *)
    intros k Hk. cbv beta. etransitivity; [|exact (RowsU k Hk)].
    etransitivity; [|apply (Rsum_window n k (bwin mm n k)
                              (fun s => (mat_at (A := AR) au mm k s + dU k s) * nth (k + s) x 0)); unfold bwin; lia].
    apply Rsum_ext. intros c Hc'. unfold U, dUd, Uc.
    destruct (Nat.leb_spec k c) as [L1|L1]; cbn [andb]; [|ring].
    destruct (Nat.ltb_spec c (k + bwin mm n k)) as [L2|L2].
    + replace (c - k <? mm)%nat with true by (symmetry; apply Nat.ltb_lt; unfold bwin in L2; lia).
      replace (k + (c - k))%nat with c by lia. ring.
    + replace (c - k <? mm)%nat with false by (symmetry; apply Nat.ltb_ge; unfold bwin in L2; lia). ring.
  - (* L U = P B + small, entry by entry *)
    intros r c Hr Hc'. cbv beta. destruct (Hshape r Hr) as (Hcr & Htag).
    assert (GN : gam (cc r) <= gam N) by exact (proj1 (gam_le_N _ N (HcN r Hr) HN)).
    assert (Hur : INR (cc r) * u < 1) by exact (proj2 (gam_le_N _ N (HcN r Hr) HN)).
    assert (HcrN : (cc r <= N)%nat) by exact (HcN r Hr).
    pose proof (band_lu_backward_error_lemma u u_range fadd fsub fmul fdiv fsub_ok fmul_ok fdiv_ok
                  n mm m1 au0 (mat_new (A := AR) n m1 0) (repeat 0%nat n) 1 au al index d l1 Hc0 eq_refl Hmm Hm1 El Hpiv r Hr Hur)
      as (HU & HL).
    destruct (band_history_origin_lemma (A := AR) n m1 al index r Hix Hr) as (_ & Or1 & Or2').
    assert (Or2 : (r - cc r = 0 \/ r - cc r + m1 <= fperm index n r)%nat) by exact Or2'. clear Or2'.
    assert (Uz : forall k, (c < k)%nat -> U k c = 0).
    { intros k Hk. unfold U, Uc. replace (k <=? c)%nat with false by (symmetry; apply Nat.leb_gt; lia). reflexivity. }
    assert (Lz : forall k, (r < k)%nat -> L r k = 0).
    { intros k Hk. unfold L, Ld. replace (k <? r)%nat with false by (symmetry; apply Nat.ltb_ge; lia).
      destruct (Nat.eqb_spec k r); [lia|reflexivity]. }
    assert (Lz2 : forall k, (k < r - cc r)%nat -> L r k = 0).
    { intros k Hk. unfold L, Ld. fold (cc r). replace (k <? r)%nat with true by (symmetry; apply Nat.ltb_lt; lia).
      replace (r - cc r <=? k)%nat with false by (symmetry; apply Nat.leb_gt; lia). reflexivity. }
    destruct (Nat.lt_ge_cases c r) as [Cl|Cr]; [destruct (Nat.lt_ge_cases c (r - cc r)) as [Cl2|Cl2]|
                                                destruct (Nat.lt_ge_cases c (r + mm)) as [Cr2|Cr2]].
    + (* left of the history: structural zero *)
      exists (fun _ => 0). split; [intros k Hk; rewrite Rabs_R0; apply Rmult_le_pos; [exact Hg|apply Rmult_le_pos; apply Rabs_pos]|].
      rewrite Rsum_zero.
      * rewrite <- HD. unfold D0. destruct Or2 as [Z|G]; [lia|].
        replace (fperm index n r - m1 <=? c)%nat with false by (symmetry; apply Nat.leb_gt; lia). reflexivity.
      * intros k Hk. destruct (Nat.lt_ge_cases k (r - cc r)); [rewrite Lz2 by lia; ring|rewrite Uz by lia; ring].
    + (* a stage of the history: the multiplier equation *)
      set (t := (c - (r - cc r))%nat).
      assert (Ht : (t < cc r)%nat) by (unfold t; lia).
      destruct (HL t Ht) as (dLt & B1 & B2). fold (hh r) in B1, B2.
      rewrite (Htag t Ht) in B2. replace (r - cc r + t)%nat with c in B2 by (unfold t; lia).
      exists (fun k => if ((r - cc r <=? k) && (k <? r - cc r + S t))%nat then dLt (k - (r - cc r))%nat * U k c else 0).
      split.
      * intros k Hk. destruct (Nat.leb_spec (r - cc r) k); cbn [andb];
          [|rewrite Rabs_R0; apply Rmult_le_pos; [exact Hg|apply Rmult_le_pos; apply Rabs_pos]].
        destruct (Nat.ltb_spec k (r - cc r + S t));
          [|rewrite Rabs_R0; apply Rmult_le_pos; [exact Hg|apply Rmult_le_pos; apply Rabs_pos]].
        rewrite Rabs_mult, <- Rmult_assoc. apply Rmult_le_compat_r; [apply Rabs_pos|].
        unfold L, Ld. fold (cc r). replace (k <? r)%nat with true by (symmetry; apply Nat.ltb_lt; unfold t in *; lia).
        replace (r - cc r <=? k)%nat with true by (symmetry; apply Nat.leb_le; lia).
        eapply Rle_trans; [apply (B1 (k - (r - cc r))%nat); lia|].
        apply Rmult_le_compat_r; [apply Rabs_pos|]. apply (gam_mono u u_range); [lia|exact HN].
      * etransitivity; [symmetry; apply HD|]. etransitivity; [symmetry; exact B2|].
        rewrite <- (Rsum_window n (r - cc r) (S t)
                      (fun t' => (fst (nth t' (hh r) (0, 0%nat)) + dLt t') * Uc au mm (snd (nth t' (hh r) (0, 0%nat))) c))
          by (unfold t; lia).
        apply Rsum_ext. intros k Hk.
        destruct (Nat.leb_spec (r - cc r) k); cbn [andb].
        -- destruct (Nat.ltb_spec k (r - cc r + S t)).
           ++ rewrite Htag by (unfold t in *; lia). replace (r - cc r + (k - (r - cc r)))%nat with k by lia.
              unfold L, Ld, U. fold (cc r). replace (k <? r)%nat with true by (symmetry; apply Nat.ltb_lt; unfold t in *; lia).
              replace (r - cc r <=? k)%nat with true by (symmetry; apply Nat.leb_le; lia). ring.
           ++ rewrite Uz by (unfold t in *; lia). ring.
        -- rewrite Lz2 by lia. ring.
    + (* the stored part of row r of U *)
      destruct (HU (c - r)%nat ltac:(lia)) as (dd & dLu & B1 & B2 & B3). fold (hh r) (cc r) in B1, B2, B3.
      replace (r + (c - r))%nat with c in B3 by lia.
      exists (fun k => (if (k <? r)%nat then (if (r - cc r <=? k)%nat then dLu (k - (r - cc r))%nat else 0)
                        else if (k =? r)%nat then dd else 0) * U k c).
      split.
      * intros k Hk. rewrite Rabs_mult, <- Rmult_assoc. apply Rmult_le_compat_r; [apply Rabs_pos|].
        unfold L, Ld. fold (cc r). destruct (Nat.ltb_spec k r).
        -- destruct (Nat.leb_spec (r - cc r) k); [|rewrite Rabs_R0; pose proof (Rabs_pos 0); nra].
           eapply Rle_trans; [apply B2; lia|]. apply Rmult_le_compat_r; [apply Rabs_pos|exact GN].
        -- destruct (Nat.eqb_spec k r); [rewrite Rabs_R1, Rmult_1_r; lra|rewrite Rabs_R0; lra].
      * etransitivity; [symmetry; apply HD|]. etransitivity; [symmetry; exact B3|].
        pose (coef := fun t => fst (nth t (hh r) (0, 0%nat)) + dLu t). pose (G := fun k => U k c).
        rewrite (Rsum_ext n _ (fun k => (if (k <? r)%nat
                                         then (if (r - cc r <=? k)%nat then coef (k - (r - cc r))%nat else 0)
                                         else if (k =? r)%nat then 1 + dd else 0) * G k)).
        2:{ intros k Hk. unfold L, Ld, coef, G. fold (cc r).
            destruct (k <? r)%nat; [destruct (r - cc r <=? k)%nat; ring|destruct (k =? r)%nat; ring]. }
        rewrite (row_dense n r (cc r) coef (1 + dd) G Hcr Hr). unfold coef, G. f_equal.
        -- unfold U, Uc. replace (r <=? c)%nat with true by (symmetry; apply Nat.leb_le; lia).
           replace (c - r <? mm)%nat with true by (symmetry; apply Nat.ltb_lt; lia). reflexivity.
        -- apply Rsum_ext. intros t Ht. now rewrite Htag by exact Ht.
    + (* right of the stored part: structural zero *)
      exists (fun _ => 0). split; [intros k Hk; rewrite Rabs_R0; apply Rmult_le_pos; [exact Hg|apply Rmult_le_pos; apply Rabs_pos]|].
      rewrite Rsum_zero.
      * rewrite <- HD. unfold D0. change (m1 + bm2 B + 1)%nat with mm.
        replace (c - (fperm index n r - m1) <? mm)%nat with false by (symmetry; apply Nat.ltb_ge; unfold mm in *; lia).
        now rewrite andb_false_r.
      * intros k Hk. destruct (Nat.le_gt_cases k r) as [Kr|Kr]; [|rewrite Lz by lia; ring].
        unfold U, Uc. replace (c - k <? mm)%nat with false by (symmetry; apply Nat.ltb_ge; lia).
        rewrite andb_false_r. ring.
  - exists dB. split; [exact HdB|exact Heq].
Qed.

End RoundBandSingle.

Section RoundBandSingleNoswap.
Variable u : R.
Hypothesis u_range : 0 <= u < 1.
Variables fadd fsub fmul fdiv : R -> R -> R.
Hypothesis fsub_ok : forall x y, exists d, Rabs d <= u /\ fsub x y = (x - y) * (1 + d).
Hypothesis fmul_ok : forall x y, exists d, Rabs d <= u /\ fmul x y = x * y * (1 + d).
Hypothesis fdiv_ok : forall x y, y <> 0 -> exists d, Rabs d <= u /\ fdiv x y = x / y * (1 + d).

Notation AR := (ARm fadd fsub fmul fdiv).
Notation gam := (gam u).
Notation Uc := (Uc fadd fsub fmul fdiv).

(* when the pivot search never left the diagonal: the classical statement for a band solver without pivoting,
   (B + dB) x = b with |dB| <= gam (3 (m1+m2+1)) |L||U| -- the constant depends on the bandwidth only *)
Theorem band_solve_noswap_single_backward_error_lemma (B : banded AR) (b x : list R) :
  wfB B -> length b = bn B -> (bm1 B <= bn B)%nat -> band_solve B b = Ok x ->
  INR (3 * (bm1 B + bm2 B + 1)) * u < 1 ->
  exists (au al : matrix AR) (index : list nat),
    (exists d : R, decompose_gen (A := AR) false B (compact B) (mat_new (A := AR) (bn B) (bm1 B) 0) (repeat 0%nat (bn B))
                   = Ok (au, al, index, d)) /\
    ((forall k, (k < bn B)%nat -> mat_at (A := AR) au (bm1 B + bm2 B + 1) k 0 <> 0) ->
     (forall k, (k < bn B)%nat -> nth k index 0%nat = (k + 1)%nat) ->
     exists dB : nat -> nat -> R,
       (forall r c, (r < bn B)%nat -> (c < bn B)%nat ->
          Rabs (dB r c) <= gam (3 * (bm1 B + bm2 B + 1))
                           * Rsum (bn B) (fun k => Rabs (Ld (fhist (A := AR) (bn B) (bm1 B) al index (bn B) r) r k)
                                                   * Rabs (Uc au (bm1 B + bm2 B + 1) k c))) /\
       forall r, (r < bn B)%nat ->
         Rsum (bn B) (fun c => (dense_entry B r c + dB r c) * nth c x 0) = nth r b 0).
Proof using u_range fsub_ok fmul_ok fdiv_ok.
  intros Hwf Hb Hm1 E H3.
  destruct (band_solve_single_backward_error_lemma u u_range fadd fsub fmul fdiv fsub_ok fmul_ok fdiv_ok
              B b x (bm1 B + bm2 B + 1) Hwf Hb Hm1 E) as (au & al & index & Hdec & Hmain).
  exists au, al, index. split; [exact Hdec|]. intros Hpiv Hix.
  set (mm := (bm1 B + bm2 B + 1)%nat) in *.
  assert (HN : INR mm * u < 1).
  { rewrite mult_INR in H3. cbn [INR] in H3. pose proof (pos_INR mm). destruct u_range as [U0 _]. nra. }
  assert (Hc : forall r, (r < bn B)%nat -> (length (fhist (A := AR) (bn B) (bm1 B) al index (bn B) r) <= mm)%nat).
  { intros r Hr. rewrite (fhist_noswap (A := AR) (bn B) (bm1 B) al index r Hix Hr).
    rewrite map_length, seq_length. unfold mm. lia. }
  destruct (Hmain Hpiv (le_n mm) Hc HN) as (_ & _ & dB & HdB & Heq).
  exists dB. split.
  - intros r c Hr Hc'. eapply Rle_trans; [apply (HdB r c Hr Hc')|].
    apply Rmult_le_compat_r.
    + apply Rsum_nonneg. intros k Hk. apply Rmult_le_pos; apply Rabs_pos.
    + apply (gam_three u u_range mm H3).
  - intros r Hr. pose proof (Heq r Hr) as Hq. rewrite (fperm_noswap index (bn B) (bn B) r Hix (le_n _)) in Hq. exact Hq.
Qed.

End RoundBandSingleNoswap.
