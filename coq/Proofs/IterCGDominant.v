(* Proofs/IterCGDominant.v -- round two, package iter2: a sufficient condition for positive definiteness that can
   be read off the entries: a real symmetric matrix that is STRICTLY DIAGONALLY DOMINANT with a positive
   diagonal ( a_ii > sum_{j <> i} |a_ij| ) is positive definite.  Hence (Proofs/IterCGSparse.v) on every such
   CSC storage the model's CG and BiCG answer Ok within n iterations over R: the part of the class "strictly
   diagonally dominant systems" of property C09 on which exact-arithmetic convergence is provable. *)
From Coq Require Import List Arith Lia Bool Reals Lra.
From OV Require Import Base.Panic Base.Arith Model.Vector Model.Matrix Model.Sparse Model.Iter
  Proofs.SparseBase Proofs.SparseMul Proofs.Iter Proofs.IterField Proofs.IterR Proofs.IterSparse Proofs.IterSparseR
  Proofs.IterCGVec Proofs.IterCG Proofs.IterCGR Proofs.IterCGSparse.
Import ListNotations.
Local Open Scope R_scope.

(* sums over R *)
Definition sumR (n : nat) (f : nat -> R) : R := @sum_n AR n f.

Lemma sumR_S n f : sumR (S n) f = sumR n f + f n.
Proof. reflexivity. Qed.
Lemma sumR_0 f : sumR 0 f = 0.
Proof. reflexivity. Qed.
Lemma sumR_ext n f g : (forall k, (k < n)%nat -> f k = g k) -> sumR n f = sumR n g.
Proof. exact (@sum_n_ext AR n f g). Qed.
Lemma sumR_le n f g : (forall k, (k < n)%nat -> f k <= g k) -> sumR n f <= sumR n g.
Proof.
  induction n as [|n IH]; intros H; [rewrite !sumR_0; lra|].
  rewrite !sumR_S. specialize (H n (Nat.lt_succ_diag_r n)) as Hn.
  assert (sumR n f <= sumR n g) by (apply IH; intros; apply H; lia). lra.
Qed.
Lemma sumR_plus n f g : sumR n (fun k => f k + g k) = sumR n f + sumR n g.
Proof. induction n as [|n IH]; [rewrite !sumR_0; lra|]. rewrite !sumR_S, IH. lra. Qed.
Lemma sumR_scal n c f : sumR n (fun k => c * f k) = c * sumR n f.
Proof. induction n as [|n IH]; [rewrite !sumR_0; lra|]. rewrite !sumR_S, IH. lra. Qed.
Lemma sumR_zero n : sumR n (fun _ => 0) = 0.
Proof. induction n as [|n IH]; [reflexivity|]. rewrite sumR_S, IH. lra. Qed.
Lemma sumR_delta n p v : (p < n)%nat -> sumR n (fun i => if (p =? i)%nat then v else 0) = v.
Proof.
  induction n as [|n IH]; intros H; [lia|]. rewrite sumR_S.
  destruct (Nat.eqb_spec p n) as [->|Hne].
  - rewrite (sumR_ext n _ (fun _ => 0)); [rewrite sumR_zero; lra|].
    intros k Hk. destruct (Nat.eqb_spec n k); [lia | reflexivity].
  - rewrite IH by lia. lra.
Qed.
Lemma sumR_swap n m (f : nat -> nat -> R) :
  sumR n (fun i => sumR m (fun j => f i j)) = sumR m (fun j => sumR n (fun i => f i j)).
Proof. exact (@sum_n_swap AR AR_RingLaws n m f). Qed.
Lemma sumR_nonneg n f : (forall k, (k < n)%nat -> 0 <= f k) -> 0 <= sumR n f.
Proof. intros H. rewrite <- (sumR_zero n). now apply sumR_le. Qed.
Lemma sumR_pos n f p : (forall k, (k < n)%nat -> 0 <= f k) -> (p < n)%nat -> 0 < f p -> 0 < sumR n f.
Proof.
  induction n as [|n IH]; intros H Hp Hfp; [lia|]. rewrite sumR_S.
  assert (0 <= sumR n f) by (apply sumR_nonneg; intros; apply H; lia).
  destruct (Nat.eq_dec p n) as [->|Hne]; [lra|].
  assert (0 < sumR n f) by (apply IH; [intros; apply H; lia | lia | exact Hfp]).
  specialize (H n (Nat.lt_succ_diag_r n)). lra.
Qed.

(* the off-diagonal absolute row sum *)
Definition offdiag (E : nat -> nat -> R) (n i : nat) : R :=
  sumR n (fun j => if (i =? j)%nat then 0 else Rabs (E i j)).

Lemma cross_term_bound (a x y : R) : - (Rabs a * (x * x + y * y)) / 2 <= x * a * y.
Proof.
  pose proof (Rle_0_sqr (x - y)) as H1. pose proof (Rle_0_sqr (x + y)) as H2. unfold Rsqr in H1, H2.
  unfold Rabs. destruct (Rcase_abs a) as [Ha|Ha].
  - assert (0 <= (- a) * ((x - y) * (x - y))) by (apply Rmult_le_pos; lra). nra.
  - assert (0 <= a * ((x + y) * (x + y))) by (apply Rmult_le_pos; lra). nra.
Qed.

Section Quad.
Variables (E : nat -> nat -> R) (n : nat).
Hypothesis SYM : forall i j, (i < n)%nat -> (j < n)%nat -> E i j = E j i.

(* sum_i sum_j x_i a_ij x_j  >=  sum_i x_i^2 (a_ii - sum_{j<>i} |a_ij|) *)
Lemma quad_lower_bound (x : nat -> R) :
  sumR n (fun i => x i * x i * (E i i - offdiag E n i)) <=
  sumR n (fun i => sumR n (fun j => x i * E i j * x j)).
Proof.
  set (D := fun i j : nat => if (i =? j)%nat then E i i * (x i * x i) else 0).
  set (P := fun i j : nat => if (i =? j)%nat then 0 else Rabs (E i j) * (x i * x i)).
  set (Q := fun i j : nat => if (i =? j)%nat then 0 else Rabs (E i j) * (x j * x j)).
  (* termwise *)
  assert (Hterm : forall i j, D i j + (- / 2) * P i j + (- / 2) * Q i j <= x i * E i j * x j).
  { intros i j. unfold D, P, Q. destruct (Nat.eqb_spec i j) as [->|Hne]; [lra|].
    pose proof (cross_term_bound (E i j) (x i) (x j)). lra. }
  assert (HQ : sumR n (fun i => sumR n (fun j => Q i j)) = sumR n (fun i => sumR n (fun j => P i j))).
  { rewrite sumR_swap. apply sumR_ext. intros i Hi. apply sumR_ext. intros j Hj.
    unfold P, Q. rewrite (Nat.eqb_sym j i). destruct (i =? j)%nat; [reflexivity|]. rewrite (SYM j i) by auto. reflexivity. }
  assert (HD : forall i, (i < n)%nat -> sumR n (fun j => D i j) = E i i * (x i * x i)).
  { intros i Hi. unfold D. now apply sumR_delta. }
  assert (HP : forall i, sumR n (fun j => P i j) = x i * x i * offdiag E n i).
  { intros i. unfold offdiag. rewrite <- sumR_scal. apply sumR_ext. intros j _. unfold P.
    destruct (i =? j)%nat; lra. }
  apply Rle_trans with (sumR n (fun i => sumR n (fun j => D i j + (- / 2) * P i j + (- / 2) * Q i j))).
  - apply Req_le.
    rewrite (sumR_ext n (fun i => sumR n (fun j => D i j + (- / 2) * P i j + (- / 2) * Q i j))
                        (fun i => sumR n (fun j => D i j) + (- / 2) * sumR n (fun j => P i j) + (- / 2) * sumR n (fun j => Q i j))).
    2:{ intros i Hi. rewrite !sumR_plus, !sumR_scal. reflexivity. }
    rewrite !sumR_plus, !sumR_scal, HQ.
    rewrite <- sumR_scal, <- !sumR_plus. apply sumR_ext. intros i Hi. rewrite HD, HP by auto. lra.
  - apply sumR_le. intros i Hi. apply sumR_le. intros j Hj. apply Hterm.
Qed.
End Quad.

Lemma all_zero_or_nonzero (v : list R) : forall n, length v = n ->
  (forall k, (k < n)%nat -> nth k v 0 = 0) \/ (exists p, (p < n)%nat /\ nth p v 0 <> 0).
Proof.
  induction v as [|a v IH]; intros n Hn.
  - left. intros k Hk. cbn in Hn. lia.
  - destruct n as [|n]; [discriminate Hn|]. injection Hn as Hn.
    destruct (Req_EM_T a 0) as [->|Ha].
    + destruct (IH n Hn) as [Hall|(p & Hp & Hvp)].
      * left. intros [|k] Hk; [reflexivity|]. cbn. apply Hall. lia.
      * right. exists (S p). split; [lia | exact Hvp].
    + right. exists 0%nat. split; [lia | exact Ha].
Qed.

(* symmetric, strictly diagonally dominant, positive diagonal  =>  positive definite *)
Theorem sdd_quadratic_form_pos (E : nat -> nat -> R) n (v : list R) :
  length v = n -> (forall i j, (i < n)%nat -> (j < n)%nat -> E i j = E j i) ->
  (forall i, (i < n)%nat -> offdiag E n i < E i i) -> v <> repeat 0 n ->
  0 < @dot_raw AR v (@dmulv AR E n n v).
Proof.
  intros Hv SYM SDD Hne.
  assert (Eq : @dot_raw AR v (@dmulv AR E n n v) =
               sumR n (fun i => sumR n (fun j => nth i v 0 * E i j * nth j v 0))).
  { rewrite (dot_raw_sum AR_RingLaws) by (unfold dmulv; now rewrite map_length, seq_length).
    cbn [T AR]. rewrite Hv. apply sumR_ext. intros i Hi. unfold dmulv. rewrite nth_map_seq by auto.
    change (@mul AR) with Rmult. change (@zero AR) with 0.
    change (@sum_n AR n (fun j => E i j * nth j v 0)) with (sumR n (fun j => E i j * nth j v 0)).
    rewrite <- sumR_scal. apply sumR_ext. intros j _. ring. }
  rewrite Eq.
  eapply Rlt_le_trans; [|apply (quad_lower_bound E n SYM (fun i => nth i v 0))].
  (* some coordinate is nonzero *)
  assert (Hex : exists p, (p < n)%nat /\ nth p v 0 <> 0).
  { destruct (all_zero_or_nonzero v n Hv) as [Hall|Hex]; [|exact Hex]. exfalso. apply Hne.
    apply (nth_ext _ _ 0 0); [now rewrite repeat_length|].
    intros k Hk. rewrite nth_repeat. apply Hall. rewrite <- Hv. exact Hk. }
  destruct Hex as (p & Hp & Hvp).
  apply (sumR_pos n _ p); auto.
  - intros k Hk. specialize (SDD k Hk). apply Rmult_le_pos; [nra | lra].
  - specialize (SDD p Hp). apply Rmult_lt_0_compat; [nra | lra].
Qed.

(* ---- for the implementation's matrix type ---- *)
Definition sp_sdd_pos (s : sparse AR) : Prop :=
  forall i, (i < sp_rows s)%nat -> offdiag (@sp_entry AR s) (sp_rows s) i < @sp_entry AR s i i.

Theorem sdd_sym_posdef (s : sparse AR) :
  sp_rows s = sp_cols s -> sp_symmetric s -> sp_sdd_pos s -> sp_posdef s.
Proof.
  intros Hsq Hsym Hsdd v Hv Hne. unfold sp_apply. rewrite <- Hsq in *.
  apply sdd_quadratic_form_pos; auto.
  intros i j Hi Hj. apply Hsym; auto. now rewrite <- Hsq.
Qed.

(* CG and BiCG on symmetric strictly diagonally dominant storage with a positive diagonal: Ok within n iterations, solved *)
Theorem cg_terminates_sdd_sparse_R (s : sparse AR) (b x0 : list R) max tol :
  wfS s -> sp_rows s = sp_cols s -> sp_symmetric s -> sp_sdd_pos s ->
  length b = sp_rows s -> length x0 = sp_rows s -> 0 <= tol -> (sp_rows s <= max)%nat ->
  exists k x g, @run_sparse SAR CG s b x0 max tol = Ok (IOk k, x, g) /\ (k <= sp_rows s)%nat /\
    @norm2 SAR (@zipw AR Rminus b (@sp_apply AR s x)) <= tol * @nz SAR (@norm2 SAR b).
Proof.
  intros Hwf Hsq Hsym Hsdd. apply cg_terminates_spd_sparse_R; auto. now apply sdd_sym_posdef.
Qed.

Theorem bicg_terminates_sdd_sparse_R (s : sparse AR) itol (b x0 : list R) max tol :
  wfS s -> sp_rows s = sp_cols s -> sp_symmetric s -> sp_sdd_pos s -> itol = 1%nat \/ itol = 2%nat ->
  length b = sp_rows s -> length x0 = sp_rows s -> 0 <= tol -> (sp_rows s <= max)%nat ->
  exists k x g, @run_sparse SAR (BiCG itol) s b x0 max tol = Ok (IOk k, x, g) /\ (k <= sp_rows s)%nat /\
    @norm2 SAR (@zipw AR Rminus b (@sp_apply AR s x)) <= tol * @nz SAR (@norm2 SAR b).
Proof.
  intros Hwf Hsq Hsym Hsdd. apply bicg_terminates_spd_sparse_R; auto. now apply sdd_sym_posdef.
Qed.
