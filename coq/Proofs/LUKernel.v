(* Proofs/LUKernel.v -- nonsingular (= has a left inverse) matrices over an abstract field:
   no diagonal entry of U is zero, so inverse returns, and what it returns is the two-sided inverse.
   This is the statement of C02 for "every nonsingular matrix" at Qc, R and C without mathcomp.
   tri_solve / zero_subcolumn_kernel follow package c01's Proofs/SolveComplete.v (same argument:
   an upper-triangular matrix with a zero on its diagonal has a nonzero kernel vector).
   Stdlib style only. *)
From Coq Require Import List Arith Lia Bool Ring Ring_theory Field_theory.
From OV Require Import Base.Panic Base.Arith Model.Vector Model.Matrix Model.Solve
  Proofs.Matrix Proofs.LUPrim Proofs.LUSum Proofs.LU Proofs.LUSolve Proofs.LUInv Proofs.LUInvC Proofs.LUPanic Proofs.LUSolveC.
Import ListNotations.
Local Open Scope arith_scope.

Section Kernel.
Context {A : Arith} (FL : FieldLaws A) (PL : PivLaws A).
Add Ring Ar : (A_ring FL).
Notation matrix := (matrix A).
Notation inv := (LUSum.inv FL).

Definition left_inverse (n : nat) (N E : nat -> nat -> A) : Prop :=
  forall i j, i < n -> j < n -> mprod n N E i j = delta i j.
Definition injf (n : nat) (E : nat -> nat -> A) : Prop :=
  forall y, (forall i, i < n -> mvprod n E y i = zero) -> forall i, i < n -> y i = zero.

Lemma sum_n_split a b (f : nat -> A) :
  sum_n (a + b) f = sum_n a f + sum_n b (fun t => f (a + t)%nat).
Proof.
  induction b as [|b IH]; cbn [sum_n].
  - rewrite Nat.add_0_r. cbn. ring.
  - replace (a + S b)%nat with (S (a + b)) by lia. cbn [sum_n]. rewrite IH. ring.
Qed.

(* x = N r whenever E x = r and N is a left inverse of E *)
Lemma left_inverse_apply n (N E : nat -> nat -> A) (r x : nat -> A) :
  left_inverse n N E -> (forall i, i < n -> mvprod n E x i = r i) ->
  forall i, i < n -> x i = mvprod n N r i.
Proof.
  intros LI S i Hi.
  transitivity (mvprod n (mprod n N E) x i).
  - unfold mvprod. rewrite <- (sum_n_delta_l FL n i x Hi). apply sum_n_ext.
    intros j Hj. now rewrite LI.
  - rewrite (mprod_mvprod FL). unfold mvprod at 1 3. apply sum_n_ext. intros k Hk. now rewrite S.
Qed.

Lemma left_inverse_injf n (N E : nat -> nat -> A) : left_inverse n N E -> injf n E.
Proof.
  intros LI y S i Hi. rewrite (left_inverse_apply n N E (fun _ => zero) y LI S i Hi).
  unfold mvprod. apply (sum_n_zero FL). intros k Hk. ring.
Qed.

(* an upper-triangular k x k system with nonzero diagonal has a solution *)
Lemma tri_solve k (E : nat -> nat -> A) (c : nat -> A) :
  (forall i j, j < i -> i < k -> E i j = zero) ->
  (forall j, j < k -> E j j <> zero) ->
  exists z : nat -> A, forall i, i < k -> sum_n k (fun j => E i j * z j) = c i.
Proof.
  revert c. induction k as [|k IH]; intros c U D.
  - exists (fun _ => zero). intros i Hi. lia.
  - set (zk := c k * inv (E k k)).
    destruct (IH (fun i => c i - E i k * zk)) as (z' & Hz').
    { intros i j Hj Hi. apply U; lia. }
    { intros j Hj. apply D; lia. }
    exists (fun j => if j =? k then zk else z' j).
    intros i Hi. cbn [sum_n]. rewrite Nat.eqb_refl.
    assert (E1 : sum_n k (fun j => E i j * (if j =? k then zk else z' j)) = sum_n k (fun j => E i j * z' j)).
    { apply sum_n_ext. intros j Hj. destruct (Nat.eqb_spec j k); [lia|reflexivity]. }
    rewrite E1. destruct (Nat.eq_dec i k) as [->|Hik].
    + rewrite (sum_n_zero FL) by (intros j Hj; rewrite U by lia; ring).
      unfold zk. assert (Ip : inv (E k k) * E k k = one) by (apply (inv_l FL); apply D; lia).
      transitivity (c k * (inv (E k k) * E k k)); [ring|]. rewrite Ip. ring.
    + rewrite Hz' by lia. ring.
Qed.

(* echelon form with nonzero diagonal in the first k columns and a zero sub-column k: a kernel vector with y k = -1 *)
Lemma zero_subcolumn_kernel n k (E : nat -> nat -> A) :
  k < n ->
  (forall i j, j < k -> j < i -> i < n -> E i j = zero) ->
  (forall j, j < k -> E j j <> zero) ->
  (forall i, k <= i -> i < n -> E i k = zero) ->
  ~ injf n E.
Proof.
  intros Hk LZ D Z Inj.
  destruct (tri_solve k E (fun i => E i k)) as (z & Hz).
  { intros i j Hj Hi. apply LZ; lia. }
  { exact D. }
  set (y := fun j => if j <? k then z j else if j =? k then neg one else zero).
  assert (S : forall i, i < n -> mvprod n E y i = zero).
  { intros i Hi. unfold mvprod.
    replace n with (k + (1 + (n - k - 1)))%nat at 1 by lia.
    rewrite sum_n_split, (sum_n_split 1). cbn [sum_n]. rewrite Nat.add_0_r.
    assert (P1 : sum_n k (fun j => E i j * y j) = sum_n k (fun j => E i j * z j)).
    { apply sum_n_ext. intros j Hj. unfold y. destruct (Nat.ltb_spec j k); [reflexivity|lia]. }
    assert (P2 : y k = neg one).
    { unfold y. destruct (Nat.ltb_spec k k); [lia|]. now rewrite Nat.eqb_refl. }
    assert (P3 : sum_n (n - k - 1) (fun t => E i (k + (1 + t))%nat * y (k + (1 + t))%nat) = zero).
    { apply (sum_n_zero FL). intros t Ht. unfold y.
      destruct (Nat.ltb_spec (k + (1 + t)) k); [lia|].
      destruct (Nat.eqb_spec (k + (1 + t)) k); [lia|]. ring. }
    rewrite P1, P2, P3.
    destruct (Nat.lt_ge_cases i k) as [Hlt|Hge].
    - rewrite (Hz i Hlt). ring.
    - rewrite (sum_n_zero FL) by (intros j Hj; rewrite LZ by lia; ring).
      rewrite (Z i) by lia. ring. }
  specialize (Inj y S k Hk). unfold y in Inj.
  destruct (Nat.ltb_spec k k); [lia|]. rewrite Nat.eqb_refl in Inj.
  apply (one_neq_zero FL).
  transitivity (@neg A (neg one)); [ring|]. rewrite Inj. ring.
Qed.

(* an injective upper-triangular matrix has no zero on its diagonal *)
Lemma upper_diag_nonzero (LU : matrix) n : injf n (upper LU) -> forall k, k < n -> ent LU k k <> zero.
Proof.
  intros Inj k. induction k as [k IH] using lt_wf_ind. intros Hk Hz.
  apply (zero_subcolumn_kernel n k (upper LU)); auto.
  - intros i j Hj Hji Hi. unfold upper. replace (i <=? j) with false by (symmetry; apply Nat.leb_gt; lia). reflexivity.
  - intros j Hj. unfold upper. rewrite Nat.leb_refl. apply IH; lia.
  - intros i Hki Hi. unfold upper. destruct (Nat.eq_dec i k) as [->|Hn].
    + now rewrite Nat.leb_refl.
    + replace (i <=? k) with false by (symmetry; apply Nat.leb_gt; lia). reflexivity.
Qed.

(* injectivity passes from M to the upper factor of P M = L U *)
Lemma lu_injf (M LU : matrix) n sw : swaps_ok n sw ->
  (forall r c, r < n -> c < n -> ent M (perm_of sw r) c = mprod n (unit_lower LU) (upper LU) r c) ->
  injf n (ent M) -> injf n (upper LU).
Proof.
  intros Hs HI Inj y Sy. apply Inj. intros i Hi.
  destruct (perm_of_surj n sw i Hs Hi) as (r & Hr & <-).
  apply (lu_combine FL M LU n (perm_of sw) (fun _ => zero) y (fun _ => zero)); auto.
  intros r' Hr'. unfold mvprod. apply (sum_n_zero FL). intros k Hk. ring.
Qed.

(* C02 for every nonsingular matrix, over any field with a magnitude *)
Lemma inverse_nonsingular_shape (M : matrix) n (Nf : nat -> nat -> A) : shape M n n ->
  left_inverse n Nf (ent M) ->
  exists N, inverse M = Ok N /\ shape N n n /\
    (forall i j, i < n -> j < n -> ent N i j = Nf i j) /\
    (forall i j, i < n -> j < n -> mprod n (ent M) (ent N) i j = delta i j) /\
    (forall i j, i < n -> j < n -> mprod n (ent N) (ent M) i j = delta i j).
Proof.
  intros SH LI.
  assert (Hd : forall LU piv P, lu_decomp M = Ok (LU, piv, P) -> forall i, i < n -> ent LU i i <> zero).
  { intros LU piv P E.
    destruct (lu_decomp_ok FL PL M n SH) as (LU' & piv' & P' & sw & E' & _ & _ & (_ & Hs & _) & HI).
    rewrite E in E'. injection E' as <- <- <-.
    apply upper_diag_nonzero. apply (lu_injf M LU n sw Hs HI). now apply (left_inverse_injf n Nf). }
  destruct (inverse_complete_diag FL PL M n SH Hd) as (N & EN).
  destruct (inverse_shape_right FL PL M N n SH EN) as (SN & HR).
  assert (HE : forall i j, i < n -> j < n -> ent N i j = Nf i j).
  { intros i j Hi Hj.
    rewrite (left_inverse_apply n Nf (ent M) (fun k => delta k j) (fun k => ent N k j) LI); auto.
    - unfold mvprod. rewrite <- (sum_n_pick FL n j (fun k => Nf i k) Hj). apply sum_n_ext.
      intros k Hk. unfold delta. destruct (Nat.eqb_spec k j); ring.
    - intros r Hr. now apply HR. }
  exists N. repeat split; auto; try apply SN.
  intros i j Hi Hj. rewrite <- (LI i j Hi Hj). unfold mprod. apply sum_n_ext. intros k Hk.
  now rewrite HE.
Qed.

Lemma inverse_nonsingular_lemma (M : matrix) (Nf : nat -> nat -> A) : wf M -> rows M = cols M ->
  left_inverse (rows M) Nf (ent M) ->
  exists N, inverse M = Ok N /\ shape N (rows M) (rows M) /\
    (forall i j, i < rows M -> j < rows M -> ent N i j = Nf i j) /\
    (forall i j, i < rows M -> j < rows M -> mprod (rows M) (ent M) (ent N) i j = delta i j) /\
    (forall i j, i < rows M -> j < rows M -> mprod (rows M) (ent N) (ent M) i j = delta i j).
Proof. intros W E. apply inverse_nonsingular_shape. split; auto. Qed.

(* and the determinant of a nonsingular matrix is a nonzero value *)
Lemma determinant_nonsingular_lemma (M : matrix) (Nf : nat -> nat -> A) : wf M -> rows M = cols M ->
  left_inverse (rows M) Nf (ent M) -> exists d, determinant M = Ok d /\ d <> zero.
Proof.
  intros W Esq LI.
  assert (SH : shape M (rows M) (rows M)) by (split; auto).
  destruct (determinant_eq FL PL M (rows M) SH) as (LU & piv & P & sw & E & _ & _ & (_ & Hs & _) & HI & Hdet).
  eexists; split; [exact Hdet|].
  assert (Hd : forall i, i < rows M -> ent LU i i <> zero).
  { apply upper_diag_nonzero. apply (lu_injf M LU (rows M) sw Hs HI). now apply (left_inverse_injf _ Nf). }
  assert (Hp : prod_n (rows M) (fun i => ent LU i i) <> zero).
  { revert Hd. generalize (rows M). intros n. induction n as [|n IH]; intros Hd; cbn [prod_n].
    - apply (one_neq_zero FL).
    - intros Hz. apply (mul_eq_zero FL) in Hz as [Hz|Hz]; [apply IH; auto | apply (Hd n); auto]. }
  destruct (Nat.even piv); auto.
  intros Hz. apply Hp. transitivity (- - prod_n (rows M) (fun i => ent LU i i)); [ring|]. rewrite Hz. ring.
Qed.

(* C01 completeness of the LU solver over any field with a magnitude: a left inverse makes solve_lu return (order >= 1) *)
Lemma solve_lu_nonsingular_lemma (M : matrix) (b : list A) (Nf : nat -> nat -> A) : wf M -> rows M = cols M ->
  1 <= rows M -> length b = rows M -> left_inverse (rows M) Nf (ent M) ->
  exists x, solve_lu M b = Ok x.
Proof.
  intros W Esq Hn Hb LI.
  assert (SH : shape M (rows M) (rows M)) by (split; auto).
  apply (solve_lu_complete_diag FL PL M (rows M) b SH Hb Hn).
  intros LU piv P E.
  destruct (lu_decomp_ok FL PL M (rows M) SH) as (LU' & piv' & P' & sw & E' & _ & _ & (_ & Hs & _) & HI).
  rewrite E in E'. injection E' as <- <- <-.
  apply upper_diag_nonzero. apply (lu_injf M LU (rows M) sw Hs HI). now apply (left_inverse_injf _ Nf).
Qed.

(* singular input over any field with a magnitude: if M has no right inverse the code's determinant is exactly 0
   (contrapositive of: a nonzero determinant makes inverse return, and what it returns is a right inverse) *)
Lemma determinant_singular_field_lemma (M : matrix) : wf M -> rows M = cols M ->
  ~ (exists Nf : nat -> nat -> A, forall i j, i < rows M -> j < rows M -> mprod (rows M) (ent M) Nf i j = delta i j) ->
  determinant M = Ok zero.
Proof.
  intros W Esq Hno.
  destruct (determinant_total_lemma FL PL M W Esq) as (d & Hd). rewrite Hd. f_equal.
  destruct (eqb d zero) eqn:E0; [now apply (fl_eqb A FL)|].
  apply (eqb_false_neq FL) in E0. exfalso. apply Hno.
  destruct (inverse_complete_lemma FL PL M d W Esq Hd E0) as (N & EN).
  destruct (inverse_right_lemma FL PL M N W Esq EN) as (_ & HR).
  exists (ent N). exact HR.
Qed.

End Kernel.
