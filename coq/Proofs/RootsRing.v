(* Proofs/RootsRing.v -- what laguer's inner loop and the forward deflation compute, over any
   commutative ring (RingLaws on KK; nothing is assumed of RR, of the oracles, of the comparisons). *)
From Coq Require Import List Arith Bool Lia Ring.
From OV Require Import Base.Panic Base.Arith Model.Complex gen.Params Model.Roots Proofs.Roots Proofs.RootsMore.
Import ListNotations.

Section Ring.
Context (RA : RootArith) (RL : RingLaws (KK RA)).
Notation K := (T (KK RA)).
Local Open Scope arith_scope.

Lemma Krt : ring_theory (@zero (KK RA)) one add mul sub neg eq.
Proof. exact (rl_ring _ RL). Qed.
Add Ring Kring : Krt.

(* ---- specification: the polynomial with coefficient list l (index = power) and its first three
        Taylor coefficients at x, by the textbook recursion  P = c + X Q ---- *)
Fixpoint ev (l : list K) (x : K) : K :=
  match l with [] => zero | c :: p => c + x * ev p x end.
Fixpoint dv (l : list K) (x : K) : K :=            (* P'(x):   P' = Q + X Q' *)
  match l with [] => zero | c :: p => ev p x + x * dv p x end.
Fixpoint hv (l : list K) (x : K) : K :=            (* P''(x)/2:  P''/2 = Q' + X Q''/2 *)
  match l with [] => zero | c :: p => dv p x + x * hv p x end.
Fixpoint tv (l : list K) (x t : K) : K :=          (* the rest of the Taylor expansion *)
  match l with [] => zero | c :: p => hv p x + (x + t) * tv p x t end.

(* the running error bound the inner loop accumulates next to p(x):
   err(a_m) = |a_m| ;  err(c + X Q) = |(c + X Q)(x)| + |x| * err(Q)   (values of the partial Horner sums) *)
Fixpoint errv (l : list K) (x : K) : RR RA :=
  match l with
  | [] => zero
  | c :: p => match p with
              | [] => kabs RA c
              | _ => add (kabs RA (ev l x)) (mul (kabs RA x) (errv p x))
              end
  end.

(* ev, dv, hv ARE p(x), p'(x), p''(x)/2: the Taylor expansion at x, valid in every commutative ring *)
Lemma taylor_lemma l x t :
  ev l (x + t) = ev l x + t * dv l x + t * t * hv l x + t * t * t * tv l x t.
Proof. induction l as [|c p IH]; cbn [ev dv hv tv]; [ring | rewrite IH; ring]. Qed.

(* index-based view used by the loop invariants *)
Fixpoint pev (f : nat -> K) (lo n : nat) (t : K) : K :=
  match n with 0 => zero | S n' => f lo + t * pev f (S lo) n' t end.
Fixpoint pdv (f : nat -> K) (lo n : nat) (t : K) : K :=
  match n with 0 => zero | S n' => pev f (S lo) n' t + t * pdv f (S lo) n' t end.
Fixpoint phv (f : nat -> K) (lo n : nat) (t : K) : K :=
  match n with 0 => zero | S n' => pdv f (S lo) n' t + t * phv f (S lo) n' t end.

Fixpoint perr (f : nat -> K) (lo n : nat) (t : K) : RR RA :=
  match n with
  | 0 => zero
  | S n' => match n' with
            | 0 => kabs RA (f lo)
            | _ => add (kabs RA (pev f lo n t)) (mul (kabs RA t) (perr f (S lo) n' t))
            end
  end.

Lemma pev_map f lo n t : pev f lo n t = ev (map f (seq lo n)) t.
Proof. revert lo; induction n as [|n IH]; intros lo; cbn; [reflexivity | now rewrite IH]. Qed.
Lemma pdv_map f lo n t : pdv f lo n t = dv (map f (seq lo n)) t.
Proof. revert lo; induction n as [|n IH]; intros lo; cbn; [reflexivity | now rewrite IH, pev_map]. Qed.
Lemma phv_map f lo n t : phv f lo n t = hv (map f (seq lo n)) t.
Proof. revert lo; induction n as [|n IH]; intros lo; cbn; [reflexivity | now rewrite IH, pdv_map]. Qed.

Lemma perr_map f lo n t : perr f lo n t = errv (map f (seq lo n)) t.
Proof.
  revert lo; induction n as [|n IH]; intros lo; [reflexivity|].
  destruct n as [|n]; [reflexivity|].
  change (perr f lo (S (S n)) t) with (add (kabs RA (pev f lo (S (S n)) t)) (mul (kabs RA t) (perr f (S lo) (S n) t))).
  rewrite IH, pev_map. reflexivity.
Qed.

Lemma map_nth_seq (l : list K) lo n : lo + n <= length l ->
  map (fun i => nth i l zero) (seq lo n) = firstn n (skipn lo l).
Proof.
  revert lo l; induction n as [|n IH]; intros lo l H; cbn [seq map]; [now rewrite firstn_O|].
  rewrite IH by lia.
  assert (Hs : skipn lo l = nth lo l zero :: skipn (S lo) l).
  { clear IH. revert l H; induction lo as [|lo IHlo]; intros l H.
    - destruct l; cbn in *; [lia | reflexivity].
    - destruct l as [|h tl]; cbn in H; [lia|]. cbn [skipn nth]. apply IHlo. lia. }
  rewrite Hs. reflexivity.
Qed.

Lemma pev_ext f g lo n t : (forall i, lo <= i < lo + n -> f i = g i) -> pev f lo n t = pev g lo n t.
Proof.
  revert lo; induction n as [|n IH]; intros lo H; cbn; [reflexivity|].
  rewrite H by lia. rewrite IH; [reflexivity|]. intros i Hi. apply H. lia.
Qed.

Definition ix (l : list K) : nat -> K := fun i => nth i l zero.

(* ---------- laguer's inner loop ---------- *)
Lemma horner3_index a m x b err d f :
  horner3 RA a m x = Ok (b, err, d, f) ->
  m < length a /\ b = pev (ix a) 0 (m + 1) x /\ d = pdv (ix a) 0 (m + 1) x /\ f = phv (ix a) 0 (m + 1) x /\
  err = perr (ix a) 0 (m + 1) x.
Proof.
  unfold horner3. intros E. set (g := ix a).
  apply bind_ok in E as (am & Eam & E).
  apply (rd_Ok_inv _ _ _ zero) in Eam as (Hm & Ham).
  split; [exact Hm|].
  unfold for_rev in E. rewrite Nat.sub_0_r in E.
  pose (I := fun (k : nat) (s : K * (T (SA (RR RA))) * K * K) =>
     let '(b, e, d, f) := s in
     b = pev g k (m + 1 - k) x /\ d = pdv g k (m + 1 - k) x /\ f = phv g k (m + 1 - k) x /\
     e = perr g k (m + 1 - k) x).
  apply (for_rev_from_inv_partial I) in E.
  - unfold I in E. rewrite Nat.sub_0_r in E. exact E.
  - unfold I. replace (m + 1 - m)%nat with (1)%nat by lia. cbn [pev pdv phv perr]. change (g m) with (nth m a zero). rewrite <- Ham.
    repeat split; try ring.
  - intros k [[[b0 e0] d0] f0] [[[b1 e1] d1] f1] Hk HI Eb. unfold I in *.
    destruct HI as (Hb & Hd & Hf & He).
    unfold horner_body in Eb. cbn [Nat.add] in Eb.
    apply bind_ok in Eb as (aj & Eaj & Eb).
    apply (rd_Ok_inv _ _ _ zero) in Eaj as (_ & Haj).
    injection Eb as <- <- <- <-.
    replace (m + 1 - k)%nat with ((S (S (m - S k))))%nat by lia.
    replace (m + 1 - S k)%nat with ((S (m - S k)))%nat in Hb, Hd, Hf, He by lia.
    change (perr g k (S (S (m - S k))) x)
      with (add (kabs RA (pev g k (S (S (m - S k))) x)) (mul (kabs RA x) (perr g (S k) (S (m - S k)) x))).
    cbn [pev pdv phv] in *.
    rewrite <- Hb, <- Hd, <- Hf, <- He. change (g k) with (nth k a zero). rewrite <- Haj.
    assert (Eb' : x * b0 + aj = aj + x * b0) by ring.
    repeat split; try ring. now rewrite Eb'.
Qed.

Lemma horner_triple_lemma a m x b err d f :
  (m + 1)%nat = length a -> horner3 RA a m x = Ok (b, err, d, f) ->
  b = ev a x /\ d = dv a x /\ f = hv a x /\ err = errv a x.
Proof.
  intros Hm E. apply horner3_index in E. destruct E as (_ & Hb & Hd & Hf & He). unfold ix in Hb, Hd, Hf, He.
  rewrite pev_map in Hb. rewrite pdv_map in Hd. rewrite phv_map in Hf. rewrite perr_map in He.
  rewrite map_nth_seq in Hb, Hd, Hf, He by lia.
  rewrite Hm in Hb, Hd, Hf, He. cbn [skipn] in Hb, Hd, Hf, He. rewrite firstn_all in Hb, Hd, Hf, He.
  auto.
Qed.

(* the meaning of the code's convergence test: |p(x)| <= EPS-scaled running error bound *)
Lemma conv_test_meaning a x :
  1 <= length a -> OV.Proofs.RootsMore.conv_test RA a (length a - 1) x ->
  leb (kabs RA (ev a x)) (mul (errv a x) (reps RA)) = true.
Proof.
  intros Ha (b & err & d & f & E & Ht).
  apply horner_triple_lemma in E; [|lia]. destruct E as (-> & _ & _ & ->). exact Ht.
Qed.

Lemma laguer_converged_meaning a x l :
  laguer RA a x = Ok l -> lwhy l = Converged ->
  leb (kabs RA (ev a (lx l))) (mul (errv a (lx l)) (reps RA)) = true.
Proof.
  intros E Hw.
  assert (Ha : 1 <= length a).
  { unfold laguer in E. apply bind_ok in E as (m & Em & _). unfold usub in Em.
    destruct (Nat.leb_spec 1 (length a)); [assumption | discriminate]. }
  apply conv_test_meaning; [exact Ha|]. eapply laguer_converged_lemma; eauto.
Qed.

Lemma polished_converged_meaning coeffs rs tr j l :
  poly_solve RA coeffs true = Ok (rs, tr) -> j < length coeffs - 1 ->
  nth_error tr (length tr - (length coeffs - 1) + j) = Some l -> lwhy l = Converged ->
  leb (kabs RA (ev coeffs (nth j rs zero))) (mul (errv coeffs (nth j rs zero)) (reps RA)) = true.
Proof.
  intros E Hj Hl Hw. apply conv_test_meaning; [lia|].
  exact (polished_converged_lemma RA coeffs rs tr j l E Hj Hl Hw).
Qed.

(* ---------- forward deflation ---------- *)
Lemma deflate_index ad j x ad' r :
  deflate RA ad j x = Ok (ad', r) ->
  j + 1 < length ad /\ length ad' = length ad /\
  (forall i, j < i -> ix ad' i = ix ad i) /\
  ix ad' j = ix ad (j + 1) /\
  forall t, pev (ix ad) 0 (j + 2) t = (t - x) * pev (ix ad') 0 (j + 1) t + r.
Proof.
  unfold deflate. intros E. set (g := ix ad).
  apply bind_ok in E as (b0 & Eb0 & E).
  apply (rd_Ok_inv _ _ _ zero) in Eb0 as (Hj & Hb0).
  split; [exact Hj|].
  unfold for_rev in E. rewrite Nat.sub_0_r in E.
  pose (I := fun (k : nat) (s : list K * K) =>
     let '(adk, bk) := s in
     length adk = length ad /\
     (forall i, i < k \/ j < i -> nth i adk zero = g i) /\
     ((k = j + 1)%nat /\ bk = g (j + 1)%nat \/ k <= j /\ nth j adk zero = g (j + 1)%nat) /\
     forall t, pev g k (j + 2 - k) t = (t - x) * pev (fun i => nth i adk zero) k (j + 1 - k) t + bk).
  apply (for_rev_from_inv_partial I) in E.
  - unfold I in E. destruct E as (HL & Hfr & Hlead & Hp). rewrite !Nat.sub_0_r in Hp.
    split; [exact HL|]. split; [|split; [|exact Hp]].
    + intros i Hi. apply Hfr. now right.
    + destruct Hlead as [(Hk & _)|(_ & Hl)]; [lia | exact Hl].
  - unfold I. split; [reflexivity|]. split; [reflexivity|]. split; [left; split; [reflexivity | exact Hb0]|].
    intros t. replace (j + 2 - (j + 1))%nat with (1)%nat by lia. replace (j + 1 - (j + 1))%nat with (0)%nat by lia.
    cbn [pev]. change (g (j + 1)%nat) with (nth (j + 1) ad zero). rewrite <- Hb0. ring.
  - intros k [adk bk] [adk1 bk1] Hk HI Eb. unfold I in *.
    destruct HI as (HL & Hfr & Hlead & Hp).
    unfold deflate_body in Eb. cbn [Nat.add] in Eb.
    apply bind_ok in Eb as (c & Ec & Eb).
    apply (rd_Ok_inv _ _ _ zero) in Ec as (Hk' & Hc).
    apply bind_ok in Eb as (adu & Eu & Eb).
    apply upd_Ok_inv in Eu as (_ & ->).
    injection Eb as <- <-.
    split; [now rewrite upd_list_length|].
    split; [|split].
    + intros i Hi. rewrite nth_upd_list by exact Hk'.
      destruct (Nat.eqb_spec i k); [lia|]. apply Hfr. lia.
    + right. rewrite nth_upd_list by exact Hk'.
      destruct Hlead as [(Hkj & Hbk)|(Hkj & Hl)].
      * assert (k = j) by lia. subst k. rewrite Nat.eqb_refl. split; [lia | exact Hbk].
      * destruct (Nat.eqb_spec j k); [lia|]. split; [lia | exact Hl].
    + intros t.
      replace (j + 2 - k)%nat with ((S (j + 2 - S k)))%nat by lia.
      replace (j + 1 - k)%nat with ((S (j + 1 - S k)))%nat by lia.
      cbn [pev]. rewrite Hp.
      rewrite nth_upd_list by exact Hk'. rewrite Nat.eqb_refl.
      rewrite (pev_ext (fun i => nth i (upd_list adk k bk) zero) (fun i => nth i adk zero)).
      * rewrite Hc. rewrite (Hfr k) by lia. ring.
      * intros i Hi. rewrite nth_upd_list by exact Hk'.
        destruct (Nat.eqb_spec i k); [lia | reflexivity].
Qed.

Lemma nth_skipn_add (l : list K) k n d : nth n (skipn k l) d = nth (k + n) l d.
Proof.
  revert l; induction k as [|k IH]; intros l; [reflexivity|].
  destruct l as [|h tl]; cbn [skipn Nat.add nth]; [now destruct n | apply IH].
Qed.

Lemma deflate_spec_lemma ad j x ad' r :
  deflate RA ad j x = Ok (ad', r) ->
  length ad' = length ad /\ skipn (j + 1) ad' = skipn (j + 1) ad /\
  (forall t, ev (firstn (j + 2) ad) t = (t - x) * ev (firstn (j + 1) ad') t + r) /\
  r = ev (firstn (j + 2) ad) x.
Proof.
  intros E. apply deflate_index in E. destruct E as (Hj & HL & Hfr & _ & Hp). unfold ix in Hfr, Hp.
  assert (Hev : forall t, ev (firstn (j + 2) ad) t = (t - x) * ev (firstn (j + 1) ad') t + r).
  { intros t. specialize (Hp t). rewrite !pev_map in Hp.
    rewrite !map_nth_seq in Hp by lia. cbn [skipn] in Hp. exact Hp. }
  split; [exact HL|]. split; [|split; [exact Hev|]].
  - apply nth_ext with (d := zero) (d' := zero).
    + rewrite !skipn_length. lia.
    + intros n Hn. rewrite !nth_skipn_add. apply Hfr. lia.
  - rewrite (Hev x). ring.
Qed.

Lemma deflate_lead ad j x ad' r :
  deflate RA ad j x = Ok (ad', r) -> nth j ad' zero = nth (j + 1) ad zero.
Proof. intros E. apply deflate_index in E. destruct E as (_ & _ & _ & Hl & _). exact Hl. Qed.

(* ---------- the whole deflation phase of poly_solve ---------- *)
(* p recomposed from the values found and the residuals, in the order they were found (index n-1 first):
   p(t) = (t - x_{n-1}) * ( (t - x_{n-2}) * ( ... ((t - x_0) * w + r_0) ... ) + r_{n-2} ) + r_{n-1} *)
Fixpoint comp (L : list (K * K)) (w t : K) : K :=
  match L with [] => w | (x, r) :: L' => (t - x) * comp L' w t + r end.

Lemma comp_app L x r w t : comp (L ++ [(x, r)]) w t = comp L ((t - x) * w + r) t.
Proof. induction L as [|[y s] L IH]; cbn [comp app]; [reflexivity | now rewrite IH]. Qed.

(* with all residuals zero, comp is the product of the linear factors *)
Fixpoint linprod (xs : list K) (t : K) : K :=
  match xs with [] => one | x :: xs' => (t - x) * linprod xs' t end.
Lemma comp_exact L w t : Forall (fun xr => snd xr = zero) L -> comp L w t = linprod (map fst L) t * w.
Proof.
  induction 1 as [|[x r] L Hr _ IH]; cbn [comp linprod map fst]; [ring|].
  cbn in Hr. rewrite Hr, IH. ring.
Qed.

Lemma skipn_upd_list_ge (l : list K) i v k : i < k -> skipn k (upd_list l i v) = skipn k l.
Proof.
  revert i k; induction l as [|h tl IH]; intros i k H; [now destruct i, k|].
  destruct k as [|k]; [lia|]. destruct i as [|i]; cbn [upd_list skipn]; [reflexivity|]. apply IH. lia.
Qed.
Lemma skipn_upd_list_at (l : list K) i v : i < length l -> skipn i (upd_list l i v) = v :: skipn (S i) l.
Proof.
  revert i; induction l as [|h tl IH]; intros i H; cbn in H; [lia|].
  destruct i as [|i]; cbn [upd_list skipn]; [reflexivity|]. apply IH. lia.
Qed.

Lemma ev_firstn1 (l : list K) t : 0 < length l -> ev (firstn 1 l) t = nth 0 l zero.
Proof. destruct l as [|h tl]; cbn; [lia | intros _; ring]. Qed.

Lemma deflation_phase_lemma coeffs roots0 ad rs tr :
  let n := (length coeffs - 1)%nat in
  1 <= length coeffs -> length roots0 = n ->
  for_rev 0 n (solve_body RA) (coeffs, roots0, []) = Ok (ad, rs, tr) ->
  exists L : list (K * K),
    map fst L = rev rs /\ length rs = n /\
    map fst L = map (fun l => snap RA (lx l)) tr /\
    forall t, ev coeffs t = comp L (nth n coeffs zero) t.
Proof.
  intros n H1 Hr0 E. unfold for_rev in E. rewrite Nat.sub_0_r in E.
  pose (I := fun (k : nat) (s : list K * list K * list (lres K)) =>
     let '(adk, rk, tk) := s in
     length adk = length coeffs /\ length rk = n /\ nth k adk zero = nth n coeffs zero /\
     exists L : list (K * K),
       map fst L = rev (skipn k rk) /\ map fst L = map (fun l => snap RA (lx l)) tk /\
       forall t, ev coeffs t = comp L (ev (firstn (k + 1) adk) t) t).
  apply (for_rev_from_inv_partial I) in E.
  - unfold I in E. destruct E as (HLa & HLr & Hlead & L & HL1 & HL2 & Hp).
    exists L. cbn [skipn] in HL1. repeat split; auto.
    intros t. rewrite (Hp t). rewrite ev_firstn1 by lia. now rewrite Hlead.
  - unfold I. split; [reflexivity|]. split; [exact Hr0|]. split; [reflexivity|].
    exists []. split.
    + rewrite skipn_all2 by lia. reflexivity.
    + split; [reflexivity|]. intros t. cbn [comp].
      replace (n + 1)%nat with (length coeffs) by lia. now rewrite firstn_all.
  - intros k [[adk rk] tk] [[adk1 rk1] tk1] Hk HI Eb. unfold I in *.
    destruct HI as (HLa & HLr & Hlead & L & HL1 & HL2 & Hp).
    unfold solve_body in Eb. cbn [Nat.add] in Eb.
    apply bind_ok in Eb as (adv & Eadv & Eb).
    unfold take_checked in Eadv. destruct (k + 2 <=? length adk) eqn:Hlen; [|discriminate].
    injection Eadv as <-.
    apply bind_ok in Eb as (l & _ & Eb).
    apply bind_ok in Eb as (r' & Er & Eb). apply upd_Ok_inv in Er as (Hkr & ->).
    apply bind_ok in Eb as ([ad' r] & Ed & Eb). injection Eb as <- <- <-. cbn [fst].
    pose proof (deflate_lead _ _ _ _ _ Ed) as Hl'.
    apply deflate_spec_lemma in Ed. destruct Ed as (HL' & _ & Hev & _).
    split; [congruence|]. split; [now rewrite upd_list_length|].
    split; [rewrite Hl'; replace (k + 1)%nat with (S k) by lia; exact Hlead|].
    exists (L ++ [(snap RA (lx l), r)]). split; [|split].
    + rewrite map_app. cbn [map fst]. rewrite HL1.
      rewrite skipn_upd_list_at by exact Hkr. cbn [rev]. reflexivity.
    + rewrite !map_app. cbn [map fst]. now rewrite HL2.
    + intros t. rewrite comp_app. rewrite (Hp t).
      replace (S k + 1)%nat with (k + 2)%nat by lia. now rewrite (Hev t).
Qed.

(* poly_solve without refinement on degree >= 4 IS the deflation phase *)
Lemma poly_solve_is_deflation coeffs rs tr :
  3 < length coeffs - 1 -> poly_solve RA coeffs false = Ok (rs, tr) ->
  exists ad, for_rev 0 (length coeffs - 1) (solve_body RA) (coeffs, repeat zero (length coeffs - 1), []) = Ok (ad, rs, tr).
Proof.
  intros Hn E. unfold poly_solve in E.
  apply bind_ok in E as (degree & Ed & E).
  unfold usub in Ed. destruct (1 <=? length coeffs) eqn:H1; [|discriminate]. injection Ed as <-.
  set (n := (length coeffs - 1)%nat) in *.
  destruct (Nat.eqb_spec n 0); [lia|]. destruct (Nat.eqb_spec n 1); [lia|].
  destruct (Nat.eqb_spec n 2); [lia|]. destruct (Nat.eqb_spec n 3); [lia|].
  cbn [bind] in E.
  destruct (Nat.ltb_spec 3 n); [|lia].
  apply bind_ok in E as ([r4 t4] & E4 & E). injection E as <- <-.
  apply bind_ok in E4 as ([[ad rr] tt] & Ef & E4). injection E4 as <- <-.
  exists ad. exact Ef.
Qed.

Lemma deflation_recomposes_lemma coeffs rs tr :
  3 < length coeffs - 1 -> poly_solve RA coeffs false = Ok (rs, tr) ->
  exists L : list (K * K),
    map fst L = rev rs /\ map fst L = map (fun l => snap RA (lx l)) tr /\
    (forall t, ev coeffs t = comp L (nth (length coeffs - 1) coeffs zero) t) /\
    (Forall (fun xr => snd xr = zero) L ->
     forall t, ev coeffs t = linprod (rev rs) t * nth (length coeffs - 1) coeffs zero).
Proof.
  intros Hn E. destruct (poly_solve_is_deflation _ _ _ Hn E) as (ad & Ef).
  apply deflation_phase_lemma in Ef; [|lia | apply repeat_length].
  destruct Ef as (L & H1 & _ & H2 & H3).
  exists L. repeat split; auto.
  intros Hz t. rewrite (H3 t), comp_exact by exact Hz. now rewrite H1.
Qed.

End Ring.
