(* Proofs/RootsRing.v -- what laguer's inner loop and the forward deflation compute, over any
   commutative ring (RingLaws on KK; nothing is assumed of RR, of the oracles, of the comparisons). *)
From Coq Require Import List Arith Bool Lia Ring.
From OV Require Import Base.Panic Base.Arith Model.Complex gen.Params Model.Roots.
Import ListNotations.

Section Ring.
Context (RA : RootArith) (RL : RingLaws (KK RA)).
Notation K := (T (KK RA)).
Local Open Scope arith_scope.

Lemma Krt : ring_theory (@zero (KK RA)) one add mul sub neg eq.
Proof. exact (rl_ring _ RL). Qed.
Add Ring Kring : Krt.

(* ---- specification: the polynomial with coefficient list l (index = power) and its first three
        Taylor coefficients at x, by the textbook recursion  P = c + X Q ---- *)
Fixpoint ev (l : list K) (x : K) : K :=
  match l with [] => zero | c :: p => c + x * ev p x end.
Fixpoint dv (l : list K) (x : K) : K :=            (* P'(x):   P' = Q + X Q' *)
  match l with [] => zero | c :: p => ev p x + x * dv p x end.
Fixpoint hv (l : list K) (x : K) : K :=            (* P''(x)/2:  P''/2 = Q' + X Q''/2 *)
  match l with [] => zero | c :: p => dv p x + x * hv p x end.
Fixpoint tv (l : list K) (x t : K) : K :=          (* the rest of the Taylor expansion *)
  match l with [] => zero | c :: p => hv p x + (x + t) * tv p x t end.

(* ev, dv, hv ARE p(x), p'(x), p''(x)/2: the Taylor expansion at x, valid in every commutative ring *)
Lemma taylor_lemma l x t :
  ev l (x + t) = ev l x + t * dv l x + t * t * hv l x + t * t * t * tv l x t.
Proof. induction l as [|c p IH]; cbn [ev dv hv tv]; [ring | rewrite IH; ring]. Qed.

(* index-based view used by the loop invariants *)
Fixpoint pev (f : nat -> K) (lo n : nat) (t : K) : K :=
  match n with 0 => zero | S n' => f lo + t * pev f (S lo) n' t end.
Fixpoint pdv (f : nat -> K) (lo n : nat) (t : K) : K :=
  match n with 0 => zero | S n' => pev f (S lo) n' t + t * pdv f (S lo) n' t end.
Fixpoint phv (f : nat -> K) (lo n : nat) (t : K) : K :=
  match n with 0 => zero | S n' => pdv f (S lo) n' t + t * phv f (S lo) n' t end.

Lemma pev_map f lo n t : pev f lo n t = ev (map f (seq lo n)) t.
Proof. revert lo; induction n as [|n IH]; intros lo; cbn; [reflexivity | now rewrite IH]. Qed.
Lemma pdv_map f lo n t : pdv f lo n t = dv (map f (seq lo n)) t.
Proof. revert lo; induction n as [|n IH]; intros lo; cbn; [reflexivity | now rewrite IH, pev_map]. Qed.
Lemma phv_map f lo n t : phv f lo n t = hv (map f (seq lo n)) t.
Proof. revert lo; induction n as [|n IH]; intros lo; cbn; [reflexivity | now rewrite IH, pdv_map]. Qed.

Lemma map_nth_seq (l : list K) lo n : lo + n <= length l ->
  map (fun i => nth i l zero) (seq lo n) = firstn n (skipn lo l).
Proof.
  revert lo l; induction n as [|n IH]; intros lo l H; cbn [seq map]; [now rewrite firstn_O|].
  rewrite IH by lia.
  assert (Hs : skipn lo l = nth lo l zero :: skipn (S lo) l).
  { clear IH. revert l H; induction lo as [|lo IHlo]; intros l H.
    - destruct l; cbn in *; [lia | reflexivity].
    - destruct l as [|h tl]; cbn in H; [lia|]. cbn [skipn nth]. apply IHlo. lia. }
  rewrite Hs. reflexivity.
Qed.

Lemma pev_ext f g lo n t : (forall i, lo <= i < lo + n -> f i = g i) -> pev f lo n t = pev g lo n t.
Proof.
  revert lo; induction n as [|n IH]; intros lo H; cbn; [reflexivity|].
  rewrite H by lia. rewrite IH; [reflexivity|]. intros i Hi. apply H. lia.
Qed.

Definition ix (l : list K) : nat -> K := fun i => nth i l zero.

(* ---------- laguer's inner loop ---------- *)
Lemma horner3_index a m x b err d f :
  horner3 RA a m x = Ok (b, err, d, f) ->
  m < length a /\ b = pev (ix a) 0 (m + 1) x /\ d = pdv (ix a) 0 (m + 1) x /\ f = phv (ix a) 0 (m + 1) x.
Proof.
  unfold horner3. intros E. set (g := ix a).
  apply bind_ok in E as (am & Eam & E).
  apply (rd_Ok_inv _ _ _ zero) in Eam as (Hm & Ham).
  split; [exact Hm|].
  unfold for_rev in E. rewrite Nat.sub_0_r in E.
  pose (I := fun (k : nat) (s : K * (T (SA (RR RA))) * K * K) =>
     let '(b, _, d, f) := s in
     b = pev g k (m + 1 - k) x /\ d = pdv g k (m + 1 - k) x /\ f = phv g k (m + 1 - k) x).
  apply (for_rev_from_inv_partial I) in E.
  - unfold I in E. rewrite Nat.sub_0_r in E. exact E.
  - unfold I. replace (m + 1 - m)%nat with (1)%nat by lia. cbn [pev pdv phv]. change (g m) with (nth m a zero). rewrite <- Ham.
    repeat split; ring.
  - intros k [[[b0 e0] d0] f0] [[[b1 e1] d1] f1] Hk HI Eb. unfold I in *.
    destruct HI as (Hb & Hd & Hf).
    unfold horner_body in Eb. cbn [Nat.add] in Eb.
    apply bind_ok in Eb as (aj & Eaj & Eb).
    apply (rd_Ok_inv _ _ _ zero) in Eaj as (_ & Haj).
    injection Eb as <- _ <- <-.
    replace (m + 1 - k)%nat with ((S (m + 1 - S k)))%nat by lia. cbn [pev pdv phv].
    rewrite <- Hb, <- Hd, <- Hf. change (g k) with (nth k a zero). rewrite <- Haj.
    repeat split; ring.
Qed.

Lemma horner_triple_lemma a m x b err d f :
  (m + 1)%nat = length a -> horner3 RA a m x = Ok (b, err, d, f) ->
  b = ev a x /\ d = dv a x /\ f = hv a x.
Proof.
  intros Hm E. apply horner3_index in E. destruct E as (_ & Hb & Hd & Hf). unfold ix in Hb, Hd, Hf.
  rewrite pev_map in Hb. rewrite pdv_map in Hd. rewrite phv_map in Hf.
  rewrite map_nth_seq in Hb, Hd, Hf by lia.
  rewrite Hm in Hb, Hd, Hf. cbn [skipn] in Hb, Hd, Hf. rewrite firstn_all in Hb, Hd, Hf.
  auto.
Qed.

(* ---------- forward deflation ---------- *)
Lemma deflate_index ad j x ad' r :
  deflate RA ad j x = Ok (ad', r) ->
  j + 1 < length ad /\ length ad' = length ad /\
  (forall i, j < i -> ix ad' i = ix ad i) /\
  forall t, pev (ix ad) 0 (j + 2) t = (t - x) * pev (ix ad') 0 (j + 1) t + r.
Proof.
  unfold deflate. intros E. set (g := ix ad).
  apply bind_ok in E as (b0 & Eb0 & E).
  apply (rd_Ok_inv _ _ _ zero) in Eb0 as (Hj & Hb0).
  split; [exact Hj|].
  unfold for_rev in E. rewrite Nat.sub_0_r in E.
  pose (I := fun (k : nat) (s : list K * K) =>
     let '(adk, bk) := s in
     length adk = length ad /\
     (forall i, i < k \/ j < i -> nth i adk zero = g i) /\
     forall t, pev g k (j + 2 - k) t = (t - x) * pev (fun i => nth i adk zero) k (j + 1 - k) t + bk).
  apply (for_rev_from_inv_partial I) in E.
  - unfold I in E. destruct E as (HL & Hfr & Hp). rewrite !Nat.sub_0_r in Hp.
    split; [exact HL|]. split; [|exact Hp].
    intros i Hi. apply Hfr. now right.
  - unfold I. split; [reflexivity|]. split; [reflexivity|].
    intros t. replace (j + 2 - (j + 1))%nat with (1)%nat by lia. replace (j + 1 - (j + 1))%nat with (0)%nat by lia.
    cbn [pev]. change (g (j + 1)%nat) with (nth (j + 1) ad zero). rewrite <- Hb0. ring.
  - intros k [adk bk] [adk1 bk1] Hk HI Eb. unfold I in *.
    destruct HI as (HL & Hfr & Hp).
    unfold deflate_body in Eb. cbn [Nat.add] in Eb.
    apply bind_ok in Eb as (c & Ec & Eb).
    apply (rd_Ok_inv _ _ _ zero) in Ec as (Hk' & Hc).
    apply bind_ok in Eb as (adu & Eu & Eb).
    apply upd_Ok_inv in Eu as (_ & ->).
    injection Eb as <- <-.
    split; [now rewrite upd_list_length|].
    split.
    + intros i Hi. rewrite nth_upd_list by exact Hk'.
      destruct (Nat.eqb_spec i k); [lia|]. apply Hfr. lia.
    + intros t.
      replace (j + 2 - k)%nat with ((S (j + 2 - S k)))%nat by lia.
      replace (j + 1 - k)%nat with ((S (j + 1 - S k)))%nat by lia.
      cbn [pev]. rewrite Hp.
      rewrite nth_upd_list by exact Hk'. rewrite Nat.eqb_refl.
      rewrite (pev_ext (fun i => nth i (upd_list adk k bk) zero) (fun i => nth i adk zero)).
      * rewrite Hc. rewrite (Hfr k) by lia. ring.
      * intros i Hi. rewrite nth_upd_list by exact Hk'.
        destruct (Nat.eqb_spec i k); [lia | reflexivity].
Qed.

Lemma nth_skipn_add (l : list K) k n d : nth n (skipn k l) d = nth (k + n) l d.
Proof.
  revert l; induction k as [|k IH]; intros l; [reflexivity|].
  destruct l as [|h tl]; cbn [skipn Nat.add nth]; [now destruct n | apply IH].
Qed.

Lemma deflate_spec_lemma ad j x ad' r :
  deflate RA ad j x = Ok (ad', r) ->
  length ad' = length ad /\ skipn (j + 1) ad' = skipn (j + 1) ad /\
  (forall t, ev (firstn (j + 2) ad) t = (t - x) * ev (firstn (j + 1) ad') t + r) /\
  r = ev (firstn (j + 2) ad) x.
Proof.
  intros E. apply deflate_index in E. destruct E as (Hj & HL & Hfr & Hp). unfold ix in Hfr, Hp.
  assert (Hev : forall t, ev (firstn (j + 2) ad) t = (t - x) * ev (firstn (j + 1) ad') t + r).
  { intros t. specialize (Hp t). rewrite !pev_map in Hp.
    rewrite !map_nth_seq in Hp by lia. cbn [skipn] in Hp. exact Hp. }
  split; [exact HL|]. split; [|split; [exact Hev|]].
  - apply nth_ext with (d := zero) (d' := zero).
    + rewrite !skipn_length. lia.
    + intros n Hn. rewrite !nth_skipn_add. apply Hfr. lia.
  - rewrite (Hev x). ring.
Qed.

End Ring.
