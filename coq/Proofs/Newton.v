(* Proofs/Newton.v -- lemmas about Model/Newton.v: the six solve methods (C17, termination half:
   any user function, any arithmetic) and the finite-difference Jacobian (C18). *)
From Coq Require Import List Arith Lia Bool.
From OV Require Import Base.Panic Base.Arith Model.Complex Model.Vector Model.Matrix Model.Solve
  Model.Newton Proofs.Matrix Proofs.NewtonLoop.
Import ListNotations.

(* destruct a chain of binds in a hypothesis  H : (let* x := e in ...) = Ok r *)
Ltac inv_bind H :=
  repeat match type of H with
  | bind ?e ?f = Ok ?r =>
      let x := fresh "x" in let E := fresh "E" in
      apply bind_ok in H as (x & E & H)
  end.

(* ====================================================================================== *)
(* small list / matrix facts (kept local: prefixed nw_)                                     *)
(* ====================================================================================== *)
Lemma nw_zipw_length {A : Arith} (g : A -> A -> A) (u v : list A) :
  length u = length v -> length (zipw g u v) = length u.
Proof. intros H. unfold zipw. rewrite map_length, combine_length. lia. Qed.

Lemma nw_vsub_length {A : Arith} (u v w : list A) : vsub u v = Ok w -> length w = length u /\ length v = length u.
Proof.
  unfold vsub. destruct (Nat.eqb_spec (length u) (length v)) as [E|]; [|discriminate].
  intros H; injection H as <-. split; [now apply nw_zipw_length|auto].
Qed.

Lemma nw_vsub_ok {A : Arith} (u v : list A) : length u = length v -> vsub u v = Ok (zipw sub u v).
Proof. intros H. unfold vsub. now apply Nat.eqb_eq in H as ->. Qed.

Lemma nw_mapM_length {Y Z} (g : Y -> res Z) l l' : mapM g l = Ok l' -> length l' = length l.
Proof.
  revert l'; induction l as [|y t IH]; cbn; intros l' H.
  - now injection H as <-.
  - inv_bind H. injection H as <-. cbn. f_equal. auto.
Qed.

Lemma nw_mapM_total {Y Z} (g : Y -> res Z) l :
  (forall y, exists z, g y = Ok z) -> exists l', mapM g l = Ok l'.
Proof.
  intros Hg. induction l as [|y t [t' IH]]; cbn; [eauto|].
  destruct (Hg y) as [z ->]. cbn. rewrite IH. cbn. eauto.
Qed.

Lemma nw_upd_list_same {Y} (l : list Y) i d : upd_list l i (nth i l d) = l.
Proof.
  revert i; induction l as [|h t IH]; intros [|i]; cbn; auto. now rewrite IH.
Qed.

Lemma nw_upd_list_twice {Y} (l : list Y) i a b : upd_list (upd_list l i a) i b = upd_list l i b.
Proof.
  revert i; induction l as [|h t IH]; intros [|i]; cbn; auto. now rewrite IH.
Qed.

Section MatFacts.
Context {A : Arith}.

Lemma nw_mset_shape (m : matrix A) i j x m' :
  mset m i j x = Ok m' -> rows m' = rows m /\ cols m' = cols m /\ length (buf m') = length (buf m).
Proof.
  unfold mset. intros H. inv_bind H. injection H as <-. cbn.
  apply upd_Ok_inv in E as [_ ->]. now rewrite upd_list_length.
Qed.

Lemma nw_set_col_shape (m : matrix A) c v m' :
  set_col m c v = Ok m' -> rows m' = rows m /\ cols m' = cols m /\ length (buf m') = length (buf m).
Proof.
  unfold set_col.
  destruct (negb (length v =? rows m)); [discriminate|].
  destruct (cols m <=? c); [discriminate|].
  intros H.
  eapply (for_inv_partial (fun _ (s : matrix A) =>
           rows s = rows m /\ cols s = cols m /\ length (buf s) = length (buf m))) in H;
    auto; [lia|].
  intros i s s1 _ (R & C & B) Hb. inv_bind Hb. apply nw_mset_shape in Hb as (R1 & C1 & B1).
  repeat split; congruence.
Qed.

(* the repaired column setter accepts every column of the matrix *)
Lemma nw_set_col_total (m : matrix A) c v :
  wf m -> length v = rows m -> c < cols m -> exists m', set_col m c v = Ok m'.
Proof.
  intros W Lv Hc. unfold set_col.
  apply Nat.eqb_eq in Lv as Lv'. rewrite Lv'. cbn [negb].
  destruct (Nat.leb_spec (cols m) c) as [?|_]; [lia|].
  destruct (for_inv (fun _ (s : matrix A) =>
              rows s = rows m /\ cols s = cols m /\ length (buf s) = length (buf m))
              0 (rows m) (fun i m0 => let* x := rd v i in mset m0 i c x) m) as (m' & E & _);
    [lia|auto| |eauto].
  intros i s Hi (R & C & B).
  rewrite (rd_ok v i zero) by lia. cbn.
  unfold mset. rewrite upd_ok.
  - cbn. eexists; split; [reflexivity|]. cbn. rewrite upd_list_length. auto.
  - rewrite B, C. unfold wf in W. rewrite W. nia.
Qed.

End MatFacts.

(* ====================================================================================== *)
(* C17: the passes of the six methods                                                      *)
(* ====================================================================================== *)
Section Steps.
Context (O : NOps).
Notation A := (NA O).
Notation R := (NR O).

(* ---- scalar pass: exactly three calls, at current + delta, current - delta, current ---- *)
Lemma scalar_step_calls tl dl (f : A -> res A) x x' b e :
  scalar_step O tl dl f x = Ok (x', b, e) ->
  e = [add x (emb O dl); sub x (emb O dl); x].
Proof.
  unfold scalar_step. intros H. inv_bind H. now injection H as _ _ <-.
Qed.

(* the value of one scalar pass, spelled out *)
Lemma scalar_step_inv tl dl (f : A -> res A) x x' b e :
  scalar_step O tl dl f x = Ok (x', b, e) ->
  exists fp fm deriv fc dx,
    f (add x (emb O dl)) = Ok fp /\ f (sub x (emb O dl)) = Ok fm /\
    divr O (sub fp fm) (mul (two O) dl) = Ok deriv /\ f x = Ok fc /\ div fc deriv = Ok dx /\
    x' = sub x dx /\ b = leb (mag O dx) tl.
Proof.
  unfold scalar_step. intros H. inv_bind H. injection H as <- <- _.
  do 5 eexists. repeat split; eauto.
Qed.

(* ---- Jacobian: one call at the point, then one per coordinate ---- *)
Lemma jacobian_tr_calls_length (f : list A -> res (list A)) x d st J evs :
  jacobian_tr O f x d = Ok (st, J, evs) -> length evs = S (length x).
Proof.
  unfold jacobian_tr. intros H. inv_bind H.
  apply (for_inv_partial (fun i (s : list A * matrix A * list (list A)) => length (snd s) = S i)
           0 (length x) _ _ _ (Nat.le_0_l _)) in H; auto.
  intros i [[s j] ev] s1 _ Hi Hb. cbn in Hi. unfold jac_body in Hb. inv_bind Hb.
  injection Hb as <-. cbn. rewrite app_length. cbn. lia.
Qed.

Lemma jacobian_calls_length (f : list A -> res (list A)) x d J evs :
  jacobian O f x d = Ok (J, evs) -> length evs = S (length x).
Proof.
  unfold jacobian. intros H. inv_bind H. destruct x0 as [[st J'] ev]. injection H as _ <-.
  eapply jacobian_tr_calls_length; eauto.
Qed.

(* ---- finite-difference system pass: n + 2 calls, the length of the iterate is kept ---- *)
Lemma sys_step_calls tl dl (f : list A -> res (list A)) x x' b e :
  sys_step O tl dl f x = Ok (x', b, e) -> length x' = length x /\ length e = length x + 2.
Proof.
  unfold sys_step. intros H. inv_bind H. injection H as <- _ <-.
  destruct x2 as [J ev]. apply jacobian_calls_length in E1.
  unfold vsub_assign in E3. apply nw_vsub_length in E3 as [L _].
  split; [exact L|]. cbn. lia.
Qed.

(* the value of one system pass, spelled out *)
Lemma sys_step_inv tl dl (f : list A -> res (list A)) x x' b e :
  sys_step O tl dl f x = Ok (x', b, e) ->
  exists fv maxres J jev dx,
    f x = Ok fv /\ norm_inf O fv = Ok maxres /\ jacobian O f x (emb O dl) = Ok (J, jev) /\
    solve_basic J fv = Ok dx /\ length dx = length x /\
    x' = zipw sub x dx /\ b = leb maxres tl /\ e = x :: jev.
Proof.
  unfold sys_step. intros H. inv_bind H. injection H as <- <- <-. destruct x2 as [J jev].
  unfold vsub_assign, vsub in E3. destruct (Nat.eqb_spec (length x) (length x3)) as [L|]; [|discriminate].
  injection E3 as <-. exists x0, x1, J, jev, x3. repeat split; auto.
Qed.

Lemma sysjac_step_inv tl (f : list A -> res (list A)) jac x x' b e :
  sysjac_step O tl f jac x = Ok (x', b, e) ->
  exists fv maxres J dx,
    f x = Ok fv /\ norm_inf O fv = Ok maxres /\ jac x = Ok J /\
    solve_basic J fv = Ok dx /\ length dx = length x /\
    x' = zipw sub x dx /\ b = leb maxres tl.
Proof.
  unfold sysjac_step. intros H. inv_bind H. injection H as <- <- _.
  unfold vsub_assign, vsub in E3. destruct (Nat.eqb_spec (length x) (length x3)) as [L|]; [|discriminate].
  injection E3 as <-. exists x0, x1, x2, x3. repeat split; auto.
Qed.

(* ---- supplied-Jacobian pass: one call of func and one of jac, both at the iterate ---- *)
Lemma sysjac_step_calls tl (f : list A -> res (list A)) jac x x' b e :
  sysjac_step O tl f jac x = Ok (x', b, e) -> e = [CF x; CJ x].
Proof.
  unfold sysjac_step. intros H. inv_bind H. now injection H as _ _ <-.
Qed.

Definition is_CF {X} (c : call X) : bool := match c with CF _ => true | CJ _ => false end.
Definition is_CJ {X} (c : call X) : bool := match c with CF _ => false | CJ _ => true end.

(* ====================================================================================== *)
(* C17 P1: bounded work                                                                    *)
(* ====================================================================================== *)
Lemma newton_scalar_bounded_lemma (c : ncfg R A) (f : A -> res A) r evs :
  newton_scalar O c f = Ok (r, evs) -> length evs <= 3 * max_iter c.
Proof.
  unfold newton_scalar. apply (nloop_calls_le _ (fun _ => True)); auto.
  intros x x' b e _ H. apply scalar_step_calls in H as ->. cbn. auto.
Qed.

Lemma newton_scalar_err_calls_lemma (c : ncfg R A) (f : A -> res A) x evs :
  newton_scalar O c f = Ok (NErr x, evs) -> length evs = 3 * max_iter c.
Proof.
  unfold newton_scalar. apply (nloop_err_calls _ (fun _ => True)); auto.
  intros y y' b e _ H. apply scalar_step_calls in H as ->. cbn. auto.
Qed.

Lemma newton_sys_bounded_lemma (c : ncfg R (list A)) (f : list A -> res (list A)) r evs :
  newton_sys O c f = Ok (r, evs) -> length evs <= (length (guess c) + 2) * max_iter c.
Proof.
  unfold newton_sys. apply (nloop_calls_le _ (fun x => length x = length (guess c))); auto.
  intros x x' b e L H. apply sys_step_calls in H as [L1 L2]. split; lia.
Qed.

Lemma newton_sysjac_bounded_lemma (c : ncfg R (list A)) (f : list A -> res (list A)) jac r evs :
  newton_sysjac O c f jac = Ok (r, evs) ->
  length (filter is_CF evs) <= max_iter c /\ length (filter is_CJ evs) <= max_iter c.
Proof.
  unfold newton_sysjac. intros H. split.
  - replace (max_iter c) with (1 * max_iter c) by lia.
    eapply (nloop_count_le _ is_CF); [|exact H].
    intros x x' b e Hs. apply sysjac_step_calls in Hs as ->. cbn. auto.
  - replace (max_iter c) with (1 * max_iter c) by lia.
    eapply (nloop_count_le _ is_CJ); [|exact H].
    intros x x' b e Hs. apply sysjac_step_calls in Hs as ->. cbn. auto.
Qed.

(* ====================================================================================== *)
(* C17 P1: the result depends on the function only through its values at the call points    *)
(* ====================================================================================== *)
Lemma scalar_step_congr tl dl (f g : A -> res A) x r :
  scalar_step O tl dl f x = Ok r -> Forall (fun p => f p = g p) (snd r) -> scalar_step O tl dl g x = Ok r.
Proof.
  intros H Ha. destruct r as [[x' b] e]. pose proof (scalar_step_calls _ _ _ _ _ _ _ H) as ->.
  cbn in Ha. inversion Ha as [|? ? G1 Ha1]; subst. inversion Ha1 as [|? ? G2 Ha2]; subst.
  inversion Ha2 as [|? ? G3 _]; subst.
  unfold scalar_step in *. now rewrite <- G1, <- G2, <- G3.
Qed.

Lemma newton_scalar_local_lemma (c : ncfg R A) (f g : A -> res A) r evs :
  newton_scalar O c f = Ok (r, evs) -> (forall p, In p evs -> f p = g p) ->
  newton_scalar O c g = Ok (r, evs).
Proof.
  unfold newton_scalar. intros H Hin.
  eapply (nloop_congr _ _ (fun p => f p = g p)) with (e := evs).
  - intros x r0. apply scalar_step_congr.
  - exact H.
  - reflexivity.
  - apply Forall_forall. exact Hin.
Qed.

Lemma sysjac_step_congr tl (f g : list A -> res (list A)) (jf jg : list A -> res (matrix A)) x r :
  sysjac_step O tl f jf x = Ok r ->
  Forall (fun c => match c with CF p => f p = g p | CJ p => jf p = jg p end) (snd r) ->
  sysjac_step O tl g jg x = Ok r.
Proof.
  intros H Ha. destruct r as [[x' b] e]. pose proof (sysjac_step_calls _ _ _ _ _ _ _ H) as ->.
  cbn in Ha. inversion Ha as [|? ? G1 Ha1]; subst. inversion Ha1 as [|? ? G2 _]; subst.
  unfold sysjac_step in *. now rewrite <- G1, <- G2.
Qed.

Lemma newton_sysjac_local_lemma (c : ncfg R (list A)) (f g : list A -> res (list A)) jf jg r evs :
  newton_sysjac O c f jf = Ok (r, evs) ->
  (forall p, In (CF p) evs -> f p = g p) -> (forall p, In (CJ p) evs -> jf p = jg p) ->
  newton_sysjac O c g jg = Ok (r, evs).
Proof.
  unfold newton_sysjac. intros H Hf Hj.
  eapply (nloop_congr _ _ (fun c => match c with CF p => f p = g p | CJ p => jf p = jg p end)) with (e := evs).
  - intros x r0. apply sysjac_step_congr.
  - exact H.
  - reflexivity.
  - apply Forall_forall. intros [p|p] Hp; auto.
Qed.

(* ---- the same for the finite-difference systems: the Jacobian loop records every point at
        which it calls func, so agreement on the recorded points is enough ---- *)
Lemma for_from_congr {S} (Good : S -> Prop) (body body' : nat -> S -> res S) :
  (forall i s s1, body i s = Ok s1 -> Good s1 -> Good s /\ body' i s = Ok s1) ->
  forall n lo s s', for_from n lo body s = Ok s' -> Good s' -> Good s /\ for_from n lo body' s = Ok s'.
Proof.
  intros Hb. induction n as [|n IH]; intros lo s s' H G; cbn in *.
  - injection H as <-. auto.
  - apply bind_ok in H as (s1 & E1 & H). destruct (IH _ _ _ H G) as [G1 H1].
    destruct (Hb _ _ _ E1 G1) as [G0 E1']. split; auto. rewrite E1'. exact H1.
Qed.

Lemma jacobian_congr (f g : list A -> res (list A)) x d r :
  jacobian O f x d = Ok r -> Forall (fun p => f p = g p) (snd r) -> jacobian O g x d = Ok r.
Proof.
  unfold jacobian. intros H Ha. inv_bind H. destruct x0 as [[st J] ev]. injection H as <-.
  cbn in Ha. unfold jacobian_tr in *. inv_bind E. rename x0 into f0.
  unfold for_ in *.
  assert (Hbody : forall i (s s1 : list A * matrix A * list (list A)),
            jac_body O f f0 d i s = Ok s1 -> Forall (fun p => f p = g p) (snd s1) ->
            Forall (fun p => f p = g p) (snd s) /\ jac_body O g f0 d i s = Ok s1).
  { intros i [[s j] e] s1 Hb G. unfold jac_body in Hb. inv_bind Hb. injection Hb as <-.
    cbn in G. apply Forall_app in G as [G1 G2]. inversion G2 as [|? ? Gx _]; subst.
    split; [exact G1|]. unfold jac_body. rewrite E1. cbn [bind]. rewrite E2. cbn [bind].
    rewrite <- Gx, E3. cbn [bind]. rewrite E4. cbn [bind]. rewrite E5. cbn [bind].
    rewrite E6. cbn [bind]. rewrite E7. cbn [bind]. rewrite E8. reflexivity. }
  destruct (for_from_congr (fun s : list A * matrix A * list (list A) =>
              Forall (fun p => f p = g p) (snd s)) _ _ Hbody _ _ _ _ E Ha) as [G0 E'].
  cbn in G0. inversion G0 as [|? ? Gx _]; subst. rewrite <- Gx, E0. cbn [bind].
  rewrite E'. reflexivity.
Qed.

Lemma sys_step_congr tl dl (f g : list A -> res (list A)) x r :
  sys_step O tl dl f x = Ok r -> Forall (fun p => f p = g p) (snd r) -> sys_step O tl dl g x = Ok r.
Proof.
  intros H Ha. destruct r as [[x' b] e]. unfold sys_step in H. inv_bind H. injection H as <- <- <-.
  cbn in Ha. inversion Ha as [|? ? Gx Ga]; subst.
  unfold sys_step. rewrite <- Gx, E. cbn [bind]. rewrite E0. cbn [bind].
  rewrite (jacobian_congr f g x (emb O dl) x2 E1 Ga). cbn [bind]. rewrite E2. cbn [bind].
  rewrite E3. reflexivity.
Qed.

Lemma newton_sys_local_lemma (c : ncfg R (list A)) (f g : list A -> res (list A)) r evs :
  newton_sys O c f = Ok (r, evs) -> (forall p, In p evs -> f p = g p) ->
  newton_sys O c g = Ok (r, evs).
Proof.
  unfold newton_sys. intros H Hin.
  eapply (nloop_congr _ _ (fun p => f p = g p)) with (e := evs).
  - intros x r0. apply sys_step_congr.
  - exact H.
  - reflexivity.
  - apply Forall_forall. exact Hin.
Qed.

End Steps.

(* ====================================================================================== *)
(* C18                                                                                      *)
(* ====================================================================================== *)
Section Jacobian.
Context (O : NOps).
Notation A := (NA O).

(* ---- shape: m x n for every m, n (uses the repaired set_col: column i < n = cols) ---- *)
Lemma jacobian_shape_lemma (f : list A -> res (list A)) (x : list A) (d : A) (m : nat) :
  (forall y, length y = length x -> exists v, f y = Ok v /\ length v = m) ->
  (forall a : A, exists q, div a d = Ok q) ->
  exists J evs, jacobian O f x d = Ok (J, evs) /\
                wf J /\ rows J = m /\ cols J = length x /\ length evs = S (length x).
Proof.
  intros Hf Hd. unfold jacobian, jacobian_tr.
  destruct (Hf x eq_refl) as (f0 & -> & L0). cbn [bind]. rewrite L0.
  set (n := length x).
  destruct (for_inv (fun i (s : list A * matrix A * list (list A)) =>
              let '(st, J, ev) := s in
              length st = n /\ wf J /\ rows J = m /\ cols J = n /\ length ev = S i)
              0 n (jac_body O f f0 d) (x, mat_new m n zero, [x])) as ([[st J] ev] & E & I);
    [lia| | |].
  - repeat split; auto. unfold wf, mat_new; cbn. now rewrite repeat_length.
  - intros i [[st J] ev] Hi (Ls & W & Rw & Cl & Le). unfold jac_body.
    rewrite (rd_ok st i zero) by lia. cbn [bind].
    rewrite upd_ok by lia. cbn [bind].
    destruct (Hf (upd_list st i (add (nth i st zero) d))) as (fnew & -> & Ln);
      [rewrite upd_list_length; exact Ls|]. cbn [bind].
    rewrite (rd_ok _ i zero) by (rewrite upd_list_length; lia). cbn [bind].
    rewrite upd_ok by (rewrite upd_list_length; lia). cbn [bind].
    rewrite nw_vsub_ok by lia. cbn [bind].
    destruct (nw_mapM_total (fun a => div a d) (zipw sub fnew f0) Hd) as (col & Ec).
    unfold vdiv. rewrite Ec. cbn [bind].
    assert (Lc : length col = m).
    { apply nw_mapM_length in Ec. rewrite Ec, nw_zipw_length; lia. }
    destruct (nw_set_col_total J i col W) as (J' & EJ); [lia|lia|].
    rewrite EJ. cbn [bind]. eexists; split; [reflexivity|].
    apply nw_set_col_shape in EJ as (R1 & C1 & B1).
    repeat split.
    + now rewrite !upd_list_length.
    + unfold wf in *. rewrite B1, R1, C1. exact W.
    + congruence.
    + congruence.
    + rewrite app_length. cbn. lia.
  - rewrite E. cbn. destruct I as (_ & W & Rw & Cl & Le).
    exists J, ev. repeat split; auto.
Qed.

(* partial-correctness form, for an arbitrary (possibly panicking, possibly ragged) function *)
Lemma jacobian_shape_partial (f : list A -> res (list A)) (x : list A) (d : A) J evs :
  jacobian O f x d = Ok (J, evs) ->
  exists f0, f x = Ok f0 /\ rows J = length f0 /\ cols J = length x /\
             length (buf J) = length f0 * length x.
Proof.
  unfold jacobian. intros H. inv_bind H. destruct x0 as [[st J'] ev]. injection H as <- _.
  unfold jacobian_tr in E. inv_bind E. exists x0. split; auto.
  eapply (for_inv_partial (fun _ (s : list A * matrix A * list (list A)) =>
            rows (snd (fst s)) = length x0 /\ cols (snd (fst s)) = length x /\
            length (buf (snd (fst s))) = length x0 * length x)) in E; auto; [lia| |].
  - cbn. now rewrite repeat_length.
  - intros i [[s j] e] s1 _ (R1 & C1 & B1) Hb. cbn in R1, C1, B1.
    unfold jac_body in Hb. inv_bind Hb. injection Hb as <-. cbn.
    apply nw_set_col_shape in E8 as (R2 & C2 & B2). repeat split; congruence.
Qed.

End Jacobian.

(* ---- call points: x, x + d e_0, ..., x + d e_{n-1}; each coordinate restored (ring) ---- *)
Section JacobianCalls.
Context (O : NOps) (RL : RingLaws (NA O)).
Notation A := (NA O).
Add Ring Aring : (rl_ring A RL).

(* x + d e_j *)
Definition perturbed (x : list A) (d : A) (j : nat) : list A := upd_list x j (add (nth j x zero) d).

Lemma jacobian_tr_calls (f : list A -> res (list A)) (x : list A) (d : A) st J evs :
  jacobian_tr O f x d = Ok (st, J, evs) ->
  st = x /\ evs = x :: map (perturbed x d) (seq 0 (length x)).
Proof.
  unfold jacobian_tr. intros H. inv_bind H.
  apply (for_inv_partial (fun i (s : list A * matrix A * list (list A)) =>
           fst (fst s) = x /\ snd s = x :: map (perturbed x d) (seq 0 i))
           0 (length x) _ _ _ (Nat.le_0_l _)) in H; auto.
  intros i [[s j] ev] s1 Hi (Hs & He) Hb. cbn in Hs, He. subst s ev.
  unfold jac_body in Hb. inv_bind Hb. injection Hb as <-. cbn [fst snd].
  apply (rd_Ok_inv _ _ _ zero) in E0 as [Li ->].
  apply upd_Ok_inv in E1 as [_ ->].
  apply (rd_Ok_inv _ _ _ zero) in E3 as [_ ->].
  apply upd_Ok_inv in E4 as [_ ->].
  rewrite (nth_upd_list x i i _ zero Li), Nat.eqb_refl, nw_upd_list_twice.
  replace (sub (add (nth i x zero) d) d) with (nth i x zero) by ring.
  rewrite nw_upd_list_same. split; auto.
  rewrite seq_S, map_app. cbn. reflexivity.
Qed.

Lemma jacobian_calls_lemma (f : list A -> res (list A)) (x : list A) (d : A) J evs :
  jacobian O f x d = Ok (J, evs) -> evs = x :: map (perturbed x d) (seq 0 (length x)).
Proof.
  unfold jacobian. intros H. inv_bind H. destruct x0 as [[st J'] ev]. injection H as _ <-.
  now apply jacobian_tr_calls in E as [_ ->].
Qed.

End JacobianCalls.
