(* Proofs/TridiagBridge.v -- mathcomp bridge for C05: the continuant of three diagonals is the
   determinant (mathcomp's \det) of the tridiagonal matrix, by Laplace expansion along the last row
   and then along the last column of the remaining minor; hence Tridiagonal::det of the model equals
   \det of the dense twin over every field (every commutative ring, in fact). *)
From mathcomp Require Import all_ssreflect all_algebra.
From mathcomp Require Import zify.
From OV Require Import Base.Panic Base.Arith Model.Vector Model.Matrix Model.Tridiag Proofs.Tridiag Proofs.TridiagDet.
Set Implicit Arguments. Unset Strict Implicit. Unset Printing Implicit Defensive.
Import GRing.Theory.
Local Open Scope ring_scope.

Section Cont.
Variable R : comRingType.
Variables a b c : nat -> R.

Definition tdm n : 'M[R]_n :=
  \matrix_(i, j) (if (i : nat) == j then b i else if (i : nat) == j.+1 then a j
                  else if i.+1 == (j : nat) then c i else 0).

Lemma tdmE n (i j : 'I_n) : tdm n i j =
  (if (i : nat) == j then b i else if (i : nat) == j.+1 then a j else if i.+1 == (j : nat) then c i else 0).
Proof. by rewrite mxE. Qed.

Lemma minor_last n : row' ord_max (col' ord_max (tdm n.+2)) = tdm n.+1.
Proof.
apply/matrixP => i j; rewrite !mxE.
by rewrite !lift_max.
Qed.

Lemma sign_same (k : nat) : (-1) ^+ (k + k) = 1 :> R.
Proof. by rewrite -signr_odd addnn odd_double. Qed.
Lemma sign_succ (k : nat) : (-1) ^+ (k.+1 + k) = -1 :> R.
Proof. by rewrite -signr_odd addSn addnn /= odd_double expr1. Qed.

Lemma minor_sub n :
  \det (row' ord_max (col' (widen_ord (leqnSn n.+1) ord_max) (tdm n.+2))) = c n * \det (tdm n).
Proof.
set j1 := widen_ord _ _.
have Ej1 : (j1 : nat) = n by [].
rewrite (expand_det_col _ ord_max) big_ord_recr /=.
rewrite big1 ?add0r; last first.
  move=> i _; rewrite !mxE.
  have Hi := ltn_ord i.
  have -> : (lift ord_max (widen_ord (leqnSn n) i) : nat) = i by rewrite lift_max.
  have -> : (lift j1 ord_max : nat) = n.+1 by rewrite /= /bump leqnn.
  do 3 (case: eqP => [E|_]; first by lia).
  by rewrite mul0r.
rewrite !mxE.
have -> : (lift ord_max (@ord_max n) : nat) = n by rewrite lift_max.
have -> : (lift j1 ord_max : nat) = n.+1 by rewrite /= /bump leqnn.
rewrite (_ : n == n.+1 = false); last by lia.
rewrite (_ : n == n.+2 = false); last by lia.
rewrite eqxx /cofactor sign_same mul1r; congr (_ * \det _).
apply/matrixP => i j; rewrite !mxE.
have Hi := ltn_ord i; have Hj := ltn_ord j.
have -> : (lift ord_max (lift ord_max i) : nat) = i by rewrite !lift_max.
have -> : (lift j1 (lift ord_max j) : nat) = j.
  have Hj' : (j < n)%N by [].
  have Hnj : (n <= j)%N = false by rewrite leqNgt Hj'.
  by rewrite /= /bump Hnj add0n Hnj.
by [].
Qed.

Lemma det_tdm_rec n : \det (tdm n.+2) = b n.+1 * \det (tdm n.+1) - a n * c n * \det (tdm n).
Proof.
rewrite (expand_det_row _ ord_max) big_ord_recr big_ord_recr /=.
rewrite big1 ?add0r; last first.
  move=> i _; rewrite tdmE /=.
  have Hi := ltn_ord i.
  do 3 (case: eqP => [E|_]; first by lia).
  by rewrite mul0r.
rewrite /cofactor minor_last minor_sub !tdmE /=.
rewrite (_ : n.+1 == n = false); last by lia.
rewrite !eqxx sign_same sign_succ mul1r addrC.
by rewrite mulN1r mulrN mulrA.
Qed.

Fixpoint Kp (n : nat) : R * R :=
  if n is m.+1 then let p := Kp m in (p.2, b m.+1 * p.2 - a m * c m * p.1) else (1, b 0).
Definition K n := (Kp n).1.

Lemma det_tdm n : \det (tdm n) = K n.
Proof.
suff: \det (tdm n) = K n /\ \det (tdm n.+1) = K n.+1 by case.
elim: n => [|n [IH1 IH2]].
  split; first by rewrite det_mx00.
  by rewrite det_mx11 tdmE eqxx.
split=> //.
by rewrite det_tdm_rec IH1 IH2.
Qed.

End Cont.

(* ---------- an Arith whose carrier and ring operations are those of a mathcomp field ---------- *)
Definition ArithOfField (F : fieldType) (abs' : F -> F) (ltb' leb' : F -> F -> bool) : Arith :=
  {| T := F; zero := 0; one := 1;
     add := +%R; sub := fun x y => x - y; mul := *%R; neg := -%R;
     abs := abs';
     div := fun x y => if y == 0 then Panic DivZero else Ok (x / y);
     eqb := fun x y => x == y; ltb := ltb'; leb := leb' |}.

Section Bridge.
Variable F : fieldType.
Variables (abs' : F -> F) (ltb' leb' : F -> F -> bool).
Notation AF := (ArithOfField abs' ltb' leb').
Variable t : tridiag AF.

Let sa (k : nat) : F := List.nth k (tsub t) 0.
Let sb (k : nat) : F := List.nth k (tmain t) 0.
Let sc (k : nat) : F := List.nth k (tsup t) 0.

(* the dense twin as a mathcomp matrix *)
Definition dense_mx : 'M[F]_(tn t) := \matrix_(i, j) (dense t i j : F).

Lemma dense_mx_tdm : dense_mx = tdm sa sb sc (tn t).
Proof.
apply/matrixP => i j; rewrite !mxE /dense.
case: (PeanoNat.Nat.eqb_spec i j) => [->|Hij]; first by rewrite eqxx.
rewrite (_ : (i : nat) == j = false); last by apply/eqP.
case: (PeanoNat.Nat.eqb_spec i (j + 1)) => [->|Hij1]; first by rewrite addn1 eqxx.
rewrite (_ : (i : nat) == j.+1 = false); last by apply/eqP; rewrite -addn1.
case: (PeanoNat.Nat.eqb_spec (i + 1) j) => [<-|Hij2]; first by rewrite addn1 eqxx.
by rewrite (_ : i.+1 == (j : nat) = false) //; apply/eqP; rewrite -addn1.
Qed.

Lemma cont_pair_Kp k : cont_pair t k = Kp sa sb sc k.
Proof.
elim: k => [|k IH] /=; first by rewrite mulr1.
by rewrite IH.
Qed.

Lemma tdet_is_det_lemma : wfT t -> (1 <= tn t)%coq_nat -> tdet t = Ok (\det dense_mx).
Proof.
move=> W Hn; rewrite (tdet_continuant t W Hn) dense_mx_tdm det_tdm.
by rewrite /continuant /K cont_pair_Kp.
Qed.

End Bridge.
