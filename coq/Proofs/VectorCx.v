(* Proofs/VectorCx.v -- Vector<Complex<T>>::{conj, real} (src/vector/vec_cmplx.rs) entry by entry (C15). *)
From Coq Require Import List Arith Lia Ring_theory Ring.
From OV Require Import Base.Panic Base.Arith Model.Complex Model.Vector.
Import ListNotations.

Section Cx.
Context {F : SArith}.
Hypothesis RL : RingLaws F.
Add Ring FRingCx : (rl_ring F RL).

Lemma conj_conj (z : cplx F) : conj (conj z) = z.
Proof. destruct z as [a b]. unfold conj; cbn. f_equal. ring. Qed.

(* conj and real keep the length and act entry by entry; conj is an involution and does not change real parts *)
Lemma conj_real_spec_lemma (v : list (cplx F)) :
  length (vconj v) = length v /\ length (vreal v) = length v /\
  (forall i d, i < length v -> nth i (vconj v) (conj d) = conj (nth i v d)) /\
  (forall i d, i < length v -> nth i (vreal v) (re d) = re (nth i v d)) /\
  vconj (vconj v) = v /\ vreal (vconj v) = vreal v.
Proof.
  unfold vconj, vreal. rewrite !map_length. split; [reflexivity|]. split; [reflexivity|].
  split; [intros i d _; apply map_nth|]. split; [intros i d _; apply (map_nth (@re F))|].
  split.
  - rewrite map_map. rewrite <- (map_id v) at 2. apply map_ext. intros z. apply conj_conj.
  - rewrite map_map. apply map_ext. intros z. reflexivity.
Qed.

End Cx.
