(* Proofs/VectorFloat.v -- C15 over IEEE binary64: "reductions match their definitions exactly on exactly-representable
   data".  For integer-valued f64 data whose partial sums stay below 2^53 in absolute value, the float instance of
   dot and of sum_slice returns exactly the integer value of the definition (no rounding occurs at any step).
   Built on the exactness invariant of Proofs/ParDotFloat.v (Flocq's Bplus_correct / Bmult_correct). *)
From Coq Require Import ZArith Reals Floats Lia List Bool Arith.
From Flocq Require Import Core.Core IEEE754.BinarySingleNaN IEEE754.PrimFloat.
From OV Require Import Base.Panic Base.Arith Model.Vector Model.ParDot Proofs.ParDot Proofs.ParDotFloat Inst.FloatInst.
Import ListNotations.
Local Open Scope Z_scope.

Lemma dot_exact_float_lemma (v w : list PrimFloat.float) (zs ws : list Z) :
  Forall2 ExactW v zs -> Forall2 ExactW w ws -> length zs = length ws -> zadot zs ws < 2 ^ 53 ->
  exists x, dot (A := AF) v w = Ok x /\ ExactW x (zdot zs ws).
Proof.
  intros Hv Hw Hl Hb.
  assert (Lv : length v = length w).
  { rewrite (Forall2_len _ _ _ Hv), (Forall2_len _ _ _ Hw). exact Hl. }
  rewrite (dot_ok (A := AF) v w Lv). eexists; split; [reflexivity|].
  change (dot_raw (A := AF) v w) with (dot_from (A := AF) 0%float v w).
  replace (zdot zs ws) with (0 + zdot zs ws) by lia.
  apply (proj1 (dot_from_exact v w zs ws 0%float 0 Hv Hw Exact_zero Hb)).
Qed.

Fixpoint zsuml (zs : list Z) : Z := match zs with [] => 0 | z :: r => z + zsuml r end.
Fixpoint zasuml (zs : list Z) : Z := match zs with [] => 0 | z :: r => Z.abs z + zasuml r end.

Lemma zasuml_nonneg zs : 0 <= zasuml zs.
Proof. induction zs; cbn; lia. Qed.

Lemma sum_from_exact (v : list PrimFloat.float) zs acc a :
  Forall2 ExactW v zs -> Exact acc a -> Z.abs a + zasuml zs < 2 ^ 53 ->
  Exact (fold_left (@add AF) v acc) (a + zsuml zs).
Proof.
  intros Hv; revert acc a. induction Hv as [|x z v zs Hx Hv IH]; intros acc a Ha Hb; cbn [fold_left zsuml zasuml] in *.
  - now rewrite Z.add_0_r.
  - pose proof (zasuml_nonneg zs).
    assert (Hs : Exact (acc + x)%float (a + z)) by (apply Exact_add; auto; lia).
    specialize (IH _ _ Hs ltac:(lia)). replace (a + (z + zsuml zs)) with (a + z + zsuml zs) by lia. exact IH.
Qed.

Lemma slice_Forall2 {X Y} (R : X -> Y -> Prop) (l : list X) (m : list Y) s e :
  Forall2 R l m -> Forall2 R (slice l s e) (slice m s e).
Proof. intros H. unfold slice. now apply Forall2_firstn, Forall2_skipn. Qed.

Lemma zasuml_firstn_le n zs : zasuml (firstn n zs) <= zasuml zs.
Proof. revert n; induction zs as [|z r IH]; intros [|n]; cbn; try lia. pose proof (zasuml_nonneg r). lia. specialize (IH n). lia. Qed.
Lemma zasuml_skipn_le n zs : zasuml (skipn n zs) <= zasuml zs.
Proof. revert n; induction zs as [|z r IH]; intros [|n]; cbn; try lia. specialize (IH n). lia. Qed.

Lemma sum_slice_Ok_inv {A : Arith} (v : list A) s e x :
  sum_slice v s e = Ok x -> x = fold_left add (slice v s e) zero.
Proof.
  unfold sum_slice. destruct (e <? s)%nat; [discriminate|]. destruct (length v <=? s)%nat; [discriminate|].
  destruct (length v <=? e)%nat; [discriminate|]. intros E. now injection E.
Qed.

(* sum_slice on integer-valued data: whenever it returns, the value is exactly the integer sum of the slice *)
Lemma sum_slice_exact_float_lemma (v : list PrimFloat.float) (zs : list Z) s e x :
  Forall2 ExactW v zs -> zasuml zs < 2 ^ 53 -> sum_slice (A := AF) v s e = Ok x ->
  ExactW x (zsuml (slice zs s e)).
Proof.
  intros Hv Hb E. apply (sum_slice_Ok_inv (A := AF)) in E. subst x.
  replace (zsuml (slice zs s e)) with (0 + zsuml (slice zs s e)) by lia.
  apply (proj1 (sum_from_exact (slice v s e) (slice zs s e) 0%float 0 (slice_Forall2 _ _ _ s e Hv) Exact_zero
                 ltac:(unfold slice; pose proof (zasuml_firstn_le (e + 1 - s) (skipn s zs));
                       pose proof (zasuml_skipn_le s zs); cbn; lia))).
Qed.

(* concrete data for the examples of Props/C15.v *)
Definition ex15_v : list PrimFloat.float := [3; -2; 5; 0; 7]%float.
Definition ex15_z : list Z := [3; -2; 5; 0; 7]%Z.
Lemma ex15_exact : Forall2 ExactW ex15_v ex15_z.
Proof. repeat constructor; exactw. Qed.
