(* Proofs/Round2BandC.v -- package round2.  Concrete banded data in the rounding arithmetic AFlx (Proofs/RoundFlx.v:
   round-to-nearest-even, 53 bits, every operation rounds) on which the substitution phases of the banded solve
   answer: the non-vacuity witnesses of the pinned theorems of Proofs/Round2Band.v / Round2BandB.v. *)
From Coq Require Import List Arith ZArith QArith Qcanon Reals Lra Lia.
From OV Require Import Base.Panic Base.Arith Base.RoundModel Model.Vector Model.Matrix Model.Banded Inst.QcInst
  Proofs.Banded Proofs.BandedLU Proofs.RoundFlx Proofs.Round2Band Proofs.Round2BandB.
Import ListNotations.
Local Open Scope R_scope.

(* a compact upper factor with mm = 2 (diagonal, one superdiagonal): rows [3 1], [3 1], [3 .] ; 1/3 is inexact *)
Definition exb_au : matrix AFlx := @mkM AFlx [3; 1; 3; 1; 3; 0] 3 2.
Definition exb_y : list R := [1; 1; 1].

Lemma exb_back : exists x lf, for_rev 0 3 (back_step (A := AFlx) 2 exb_au) (exb_y, 1%nat) = Ok (x, lf).
Proof. eexists; eexists; reflexivity. Qed.

Lemma exb_pivots : forall i, (i < 3)%nat -> mat_at (A := AFlx) exb_au 2 i 0 <> 0.
Proof. intros [|[|[|i]]] Hi; try lia; cbn; lra. Qed.

Lemma exb_size2 : INR 2 * ux < 1.
Proof. cbn [INR]. pose proof ux_small. lra. Qed.

(* multipliers of a 3x3 system with m1 = 1 and the exchange record of a factorisation that swapped rows 0 and 1 at
   stage 0 (index is 1-based) *)
Definition exb_al : matrix AFlx := @mkM AFlx [/ 3; / 3; 0] 3 1.
Definition exb_index : list nat := [2%nat; 2%nat; 3%nat].
Definition exb_index0 : list nat := [1%nat; 2%nat; 3%nat].
Definition exb_b : list R := [1; 2; 3].

Lemma exb_fwd : exists y lf, for_ 0 3 (fwd_step (A := AFlx) 3 exb_al exb_index) (exb_b, 1%nat) = Ok (y, lf).
Proof. eexists; eexists; reflexivity. Qed.

Lemma exb_fwd0 : exists y lf, for_ 0 3 (fwd_step (A := AFlx) 3 exb_al exb_index0) (exb_b, 1%nat) = Ok (y, lf).
Proof. eexists; eexists; reflexivity. Qed.

Lemma exb_index_ok : forall k, (k < 3)%nat -> (k + 1 <= nth k exb_index 0%nat)%nat.
Proof. intros [|[|[|k]]] Hk; cbn; lia. Qed.

Lemma exb_index0_ok : forall k, (k < 3)%nat -> nth k exb_index0 0%nat = (k + 1)%nat.
Proof. intros [|[|[|k]]] Hk; try lia; reflexivity. Qed.

(* the exchange is visible in the permutation and in the histories: position 0 receives b_1, position 1 receives b_0
   updated once (at stage 0), position 2 is updated once (at stage 1) *)
Lemma exb_fperm : map (fperm exb_index 3) [0%nat; 1%nat; 2%nat] = [1%nat; 0%nat; 2%nat].
Proof. reflexivity. Qed.

Lemma exb_fhist_len : map (fun r => length (fhist (A := AFlx) 3 1 exb_al exb_index 3 r)) [0%nat; 1%nat; 2%nat]
                      = [0%nat; 1%nat; 1%nat].
Proof. reflexivity. Qed.

Lemma exb_size1 : INR 1 * ux < 1.
Proof. cbn [INR]. pose proof ux_small. lra. Qed.

(* ---------------------------------------------------------------- band_solve itself, run in AFlx *)

Lemma rndx_pos_bounds x : 0 <= x -> x * (1 - / 1024) <= rndx x <= x * (1 + / 1024).
Proof.
  intros Hx. destruct (rndx_rel x) as (d & Hd & ->). pose proof ux_small.
  assert (- ux <= d <= ux) by (unfold Rabs in Hd; destruct (Rcase_abs d); lra).
  split; nra.
Qed.

(* the 2x2 system [[1,3],[2,1]] x = [1,2] stored as a band with m1 = m2 = 1: the pivot search exchanges the rows *)
Definition exs_B : banded AFlx := @mkB AFlx 2 1 1 (@mkM AFlx [0; 1; 3; 2; 1; 0] 2 3).
Definition exs_b : list R := [1; 2].
Definition exs_m : R := xdiv 1 2.
Definition exs_p1 : R := xsub 3 (xmul exs_m 1).
Definition exs_au : matrix AFlx := @mkM AFlx [2; 1; 0; exs_p1; xsub 0 (xmul exs_m 0); 0] 2 3.
Definition exs_al : matrix AFlx := @mkM AFlx [exs_m; 0] 2 1.
Definition exs_index : list nat := [2%nat; 2%nat].

Lemma exs_p1_nz : exs_p1 <> 0.
Proof.
  unfold exs_p1, exs_m, xsub, xmul, xdiv. apply rndx_nz.
  pose proof (rndx_pos_bounds (1 / 2) ltac:(lra)) as [Q1 Q2].
  pose proof (rndx_pos_bounds (rndx (1 / 2) * 1) ltac:(lra)) as [T1 T2]. lra.
Qed.

Ltac exs_step :=
  cbn; rewrite ?Rabs_R0, ?(Rabs_pos_eq 1), ?(Rabs_pos_eq 2), ?(Rabs_pos_eq 3) by lra;
  match goal with
  | |- context [Rlt_dec ?a ?b] => destruct (Rlt_dec a b); try (exfalso; lra)
  | |- context [Req_EM_T ?a ?b] =>
      let e := fresh "e" in destruct (Req_EM_T a b) as [e|_]; [exfalso; first [lra | exact (exs_p1_nz e)]|]
  end.

Lemma exs_decompose :
  decompose_gen false exs_B (compact exs_B) (@mat_new AFlx 2 1 0) (repeat 0%nat 2) = Ok (exs_au, exs_al, exs_index, - (1)).
Proof.
  unfold decompose_gen, exs_B, exs_au, exs_al, exs_index. repeat exs_step. reflexivity.
Qed.

Lemma exs_solve : exists x, band_solve exs_B exs_b = Ok x.
Proof.
  eexists. unfold band_solve, band_solve_gen.
  change (negb (bn exs_B =? length exs_b)%nat) with false. cbv iota.
  change (decompose_gen false exs_B (compact exs_B) (mat_new (bn exs_B) (bm1 exs_B) zero) (repeat 0%nat (bn exs_B)))
    with (decompose_gen false exs_B (compact exs_B) (@mat_new AFlx 2 1 0) (repeat 0%nat 2)).
  rewrite exs_decompose. reflexivity.
Qed.

Lemma exs_pivots : forall k, (k < 2)%nat -> mat_at (A := AFlx) exs_au 3 k 0 <> 0.
Proof.
  intros [|[|k]] Hk; try lia.
  - cbn. lra.
  - exact exs_p1_nz.
Qed.

(* the main loop alone, from the shifted work matrix *)

Definition exs_au0 : matrix AFlx := @mkM AFlx [1; 3; 0; 2; 1; 0] 2 3.

Lemma exs_loop :
  for_ 0 2 (dec_step (A := AFlx) false 2 3) (exs_au0, @mat_new AFlx 2 1 0, repeat 0%nat 2, 1, 1%nat)
  = Ok (exs_au, exs_al, exs_index, - (1), 2%nat).
Proof. unfold exs_au0, exs_au, exs_al, exs_index. repeat exs_step. reflexivity. Qed.

Lemma exs_wf : wfB exs_B.
Proof. unfold wfB, wfM, exs_B. cbn. repeat split. Qed.

Lemma exs_hz : forall z : AFlx, eqb z zero = true -> z = zero.
Proof. exact (Req_zero_eqb xadd xsub xmul xdiv). Qed.

Lemma exs_hist_small : forall r, (r < 2)%nat -> INR (length (fhist (A := AFlx) 2 1 exs_al exs_index 2 r)) * ux < 1.
Proof. intros [|[|r]] Hr; try lia; cbn; pose proof ux_small; lra. Qed.

Lemma exs_size3 : INR 3 * ux < 1.
Proof. cbn [INR]. pose proof ux_small. lra. Qed.


(* the main loop without an exchange: [[2,1],[1,3]], shifted work matrix rows [2 1 0], [1 3 0] *)
Definition exn_au0 : matrix AFlx := @mkM AFlx [2; 1; 0; 1; 3; 0] 2 3.
Definition exn_p1 : R := xsub 3 (xmul exs_m 1).
Definition exn_au : matrix AFlx := @mkM AFlx [2; 1; 0; exn_p1; xsub 0 (xmul exs_m 0); 0] 2 3.
Definition exn_al : matrix AFlx := @mkM AFlx [exs_m; 0] 2 1.

Lemma exn_loop :
  for_ 0 2 (dec_step (A := AFlx) false 2 3) (exn_au0, @mat_new AFlx 2 1 0, repeat 0%nat 2, 1, 1%nat)
  = Ok (exn_au, exn_al, [1%nat; 2%nat], 1, 2%nat).
Proof. unfold exn_au0, exn_au, exn_al, exn_p1. repeat exs_step. reflexivity. Qed.

Lemma exn_pivots : forall k, (k < 2)%nat -> mat_at (A := AFlx) exn_au 3 k 0 <> 0.
Proof.
  intros [|[|k]] Hk; try lia.
  - cbn. lra.
  - exact exs_p1_nz.
Qed.

Lemma exs_hist_le3 : forall r, (r < 2)%nat -> (length (fhist (A := AFlx) 2 1 exs_al exs_index 2 r) <= 3)%nat.
Proof. intros [|[|r]] Hr; try lia; cbn; lia. Qed.


(* [[2,1],[1,3]] x = [1,2] as a band with m1 = m2 = 1: no exchange *)
Definition exn_B : banded AFlx := @mkB AFlx 2 1 1 (@mkM AFlx [0; 2; 1; 1; 3; 0] 2 3).

Lemma exn_decompose :
  decompose_gen false exn_B (compact exn_B) (@mat_new AFlx 2 1 0) (repeat 0%nat 2) = Ok (exn_au, exn_al, [1%nat; 2%nat], 1).
Proof. unfold decompose_gen, exn_B, exn_au, exn_al, exn_p1. repeat exs_step. reflexivity. Qed.

Lemma exn_solve : exists x, band_solve exn_B exs_b = Ok x.
Proof.
  eexists. unfold band_solve, band_solve_gen.
  change (negb (bn exn_B =? length exs_b)%nat) with false. cbv iota.
  change (decompose_gen false exn_B (compact exn_B) (mat_new (bn exn_B) (bm1 exn_B) zero) (repeat 0%nat (bn exn_B)))
    with (decompose_gen false exn_B (compact exn_B) (@mat_new AFlx 2 1 0) (repeat 0%nat 2)).
  rewrite exn_decompose. reflexivity.
Qed.

Lemma exn_wf : wfB exn_B.
Proof. unfold wfB, wfM, exn_B. cbn. repeat split. Qed.

Lemma exn_size9 : INR (3 * 3) * ux < 1.
Proof. cbn [Nat.mul Nat.add INR]. pose proof ux_small. lra. Qed.

(* ---------------------------------------------------------------- exact rationals: how long a history can get *)
Local Close Scope R_scope.
Local Open Scope nat_scope.

(* tridiag(sub = 2, diag = 1, sup = 1) of size 6 (m1 = m2 = 1): every stage exchanges, the first row travels down to the
   last position and is updated at every stage -- the number of updates of a row is NOT bounded by m1 under pivoting *)
Definition exq_B : banded AQ :=
  @mkB AQ 6 1 1 (@mkM AQ (concat (repeat [q 2 1; q 1 1; q 1 1] 6)) 6 3).

Definition hist_lengths (r : res (matrix AQ * matrix AQ * list nat * AQ)) : list nat :=
  match r with
  | Ok (_, al, index, _) => map (fun r => length (fhist (A := AQ) 6 1 al index 6 r)) (seq 0 6)
  | Panic _ => []
  end.
Definition hist_perm (r : res (matrix AQ * matrix AQ * list nat * AQ)) : list nat :=
  match r with
  | Ok (_, _, index, _) => map (fperm index 6) (seq 0 6)
  | Panic _ => []
  end.

Lemma exq_history_grows :
  hist_lengths (decompose_gen false exq_B (compact exq_B) (mat_new 6 1 zero) (repeat 0%nat 6)) = [0; 0; 0; 0; 0; 5]%nat /\
  hist_perm (decompose_gen false exq_B (compact exq_B) (mat_new 6 1 zero) (repeat 0%nat 6)) = [1; 2; 3; 4; 5; 0]%nat.
Proof. split; vm_compute; reflexivity. Qed.
