(* Proofs/Round2BandC.v -- package round2.  Concrete banded data in the rounding arithmetic AFlx (Proofs/RoundFlx.v:
   round-to-nearest-even, 53 bits, every operation rounds) on which the substitution phases of the banded solve
   answer: the non-vacuity witnesses of the pinned theorems of Proofs/Round2Band.v / Round2BandB.v. *)
From Coq Require Import List Arith Reals Lra Lia.
From OV Require Import Base.Panic Base.Arith Base.RoundModel Model.Vector Model.Matrix Model.Banded
  Proofs.Banded Proofs.BandedLU Proofs.RoundFlx Proofs.Round2Band Proofs.Round2BandB.
Import ListNotations.
Local Open Scope R_scope.

(* a compact upper factor with mm = 2 (diagonal, one superdiagonal): rows [3 1], [3 1], [3 .] ; 1/3 is inexact *)
Definition exb_au : matrix AFlx := @mkM AFlx [3; 1; 3; 1; 3; 0] 3 2.
Definition exb_y : list R := [1; 1; 1].

Lemma exb_back : exists x lf, for_rev 0 3 (back_step (A := AFlx) 2 exb_au) (exb_y, 1%nat) = Ok (x, lf).
Proof. eexists; eexists; reflexivity. Qed.

Lemma exb_pivots : forall i, (i < 3)%nat -> mat_at (A := AFlx) exb_au 2 i 0 <> 0.
Proof. intros [|[|[|i]]] Hi; try lia; cbn; lra. Qed.

Lemma exb_size2 : INR 2 * ux < 1.
Proof. cbn [INR]. pose proof ux_small. lra. Qed.

(* multipliers of a 3x3 system with m1 = 1 and the exchange record of a factorisation that swapped rows 0 and 1 at
   stage 0 (index is 1-based) *)
Definition exb_al : matrix AFlx := @mkM AFlx [/ 3; / 3; 0] 3 1.
Definition exb_index : list nat := [2%nat; 2%nat; 3%nat].
Definition exb_index0 : list nat := [1%nat; 2%nat; 3%nat].
Definition exb_b : list R := [1; 2; 3].

Lemma exb_fwd : exists y lf, for_ 0 3 (fwd_step (A := AFlx) 3 exb_al exb_index) (exb_b, 1%nat) = Ok (y, lf).
Proof. eexists; eexists; reflexivity. Qed.

Lemma exb_fwd0 : exists y lf, for_ 0 3 (fwd_step (A := AFlx) 3 exb_al exb_index0) (exb_b, 1%nat) = Ok (y, lf).
Proof. eexists; eexists; reflexivity. Qed.

Lemma exb_index_ok : forall k, (k < 3)%nat -> (k + 1 <= nth k exb_index 0%nat)%nat.
Proof. intros [|[|[|k]]] Hk; cbn; lia. Qed.

Lemma exb_index0_ok : forall k, (k < 3)%nat -> nth k exb_index0 0%nat = (k + 1)%nat.
Proof. intros [|[|[|k]]] Hk; try lia; reflexivity. Qed.

(* the exchange is visible in the permutation and in the histories: position 0 receives b_1, position 1 receives b_0
   updated once (at stage 0), position 2 is updated once (at stage 1) *)
Lemma exb_fperm : map (fperm exb_index 3) [0%nat; 1%nat; 2%nat] = [1%nat; 0%nat; 2%nat].
Proof. reflexivity. Qed.

Lemma exb_fhist_len : map (fun r => length (fhist (A := AFlx) 3 1 exb_al exb_index 3 r)) [0%nat; 1%nat; 2%nat]
                      = [0%nat; 1%nat; 1%nat].
Proof. reflexivity. Qed.

Lemma exb_size1 : INR 1 * ux < 1.
Proof. cbn [INR]. pose proof ux_small. lra. Qed.
