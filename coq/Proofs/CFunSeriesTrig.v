(* Proofs/CFunSeriesTrig.v -- the series half of C14 for sinh, cosh, sin, cos: for every complex z
     sum_n z^(2n+1)/(2n+1)!          converges to the model's csinh z,
     sum_n z^(2n)/(2n)!              converges to the model's ccosh z,
     sum_n (-1)^n z^(2n+1)/(2n+1)!   converges to the model's csin z,
     sum_n (-1)^n z^(2n)/(2n)!       converges to the model's ccos z
   (powers/sums with the model's cmul/cadd; convergence = both components, Un_cv), derived from the exponential
   series (Proofs/CFunSeries.v: cexp_series_lemma) and the model's exponential forms (Proofs/CFunAlg.v) by splitting
   the partial sums of exp by parity, linearity of limits, and the rotation z |-> i z.
   Also: limits are unique; componentwise convergence is convergence in modulus; the exponential series converges
   absolutely (sum |z^n/n!| = exp |z|). *)
From Coq Require Import Reals Lra Lia Field.
From OV Require Import Model.CFun Proofs.CFunArg Proofs.CFun Proofs.CFunAlg Proofs.CFunSeries.
Local Open Scope R_scope.

(* ---------- limits in C ---------- *)
Lemma cconv_ext (s t : nat -> C) l : (forall N, s N = t N) -> cconv t l -> cconv s l.
Proof.
  intros E [H1 H2]. split.
  - apply (Un_cv_ext _ (fun N => re (t N))); [intros n; rewrite E; reflexivity | exact H1].
  - apply (Un_cv_ext _ (fun N => im (t N))); [intros n; rewrite E; reflexivity | exact H2].
Qed.

Lemma cconv_add s t l m : cconv s l -> cconv t m -> cconv (fun N => cadd (s N) (t N)) (cadd l m).
Proof.
  intros [H1 H2] [K1 K2]. split; cbn [cadd re im fst snd].
  - apply (CV_plus (fun N => re (s N)) (fun N => re (t N))); assumption.
  - apply (CV_plus (fun N => im (s N)) (fun N => im (t N))); assumption.
Qed.

Lemma cconv_sub s t l m : cconv s l -> cconv t m -> cconv (fun N => csub (s N) (t N)) (csub l m).
Proof.
  intros [H1 H2] [K1 K2]. split; cbn [csub re im fst snd].
  - apply (CV_minus (fun N => re (s N)) (fun N => re (t N))); assumption.
  - apply (CV_minus (fun N => im (s N)) (fun N => im (t N))); assumption.
Qed.

Lemma cconv_cmul c s l : cconv s l -> cconv (fun N => cmul c (s N)) (cmul c l).
Proof.
  intros [H1 H2]. split; cbn [cmul re im fst snd].
  - apply (CV_minus (fun N => fst c * fst (s N)) (fun N => snd c * snd (s N))); apply Un_cv_scal; assumption.
  - apply (CV_plus (fun N => fst c * snd (s N)) (fun N => snd c * fst (s N))); apply Un_cv_scal; assumption.
Qed.

Lemma Un_cv_subseq (phi : nat -> nat) (s : nat -> R) l :
  (forall n, (n <= phi n)%nat) -> Un_cv s l -> Un_cv (fun n => s (phi n)) l.
Proof.
  intros Hphi H eps Heps. destruct (H eps Heps) as [N HN]. exists N. intros n Hn.
  apply HN. pose proof (Hphi n). lia.
Qed.

Lemma cconv_subseq (phi : nat -> nat) s l :
  (forall n, (n <= phi n)%nat) -> cconv s l -> cconv (fun N => s (phi N)) l.
Proof.
  intros Hphi [H1 H2]. split.
  - apply (Un_cv_subseq phi (fun N => re (s N))); assumption.
  - apply (Un_cv_subseq phi (fun N => im (s N))); assumption.
Qed.

Lemma cconv_unique s l l' : cconv s l -> cconv s l' -> l = l'.
Proof.
  intros [H1 H2] [K1 K2]. rewrite (C_eta l), (C_eta l'). f_equal.
  - exact (UL_sequence _ _ _ H1 K1).
  - exact (UL_sequence _ _ _ H2 K2).
Qed.

(* ---------- powers of a product; powers of -1 and of i ---------- *)
Lemma cpown_mul c z n : cpown (cmul c z) n = cmul (cpown c n) (cpown z n).
Proof.
  induction n as [|n IH].
  - cbn [cpown]. ring.
  - cbn [cpown]. rewrite IH. ring.
Qed.

Lemma cpown_ci m : cpown ci (2 * m) = RtoC ((-1) ^ m) /\ cpown ci (S (2 * m)) = cmul (RtoC ((-1) ^ m)) ci.
Proof.
  change ci with ((0, 1) : C). rewrite !cpown_imag.
  destruct (ipow_parity m) as [E1 E2]. rewrite E1, E2, !pow1. cbn [fst snd].
  split; csimpl; f_equal; ring.
Qed.

Lemma cpown_neg_one m : cpown (cneg cone) (2 * m) = cone /\ cpown (cneg cone) (S (2 * m)) = cneg cone.
Proof.
  induction m as [|m [IH1 IH2]].
  - cbn [Nat.mul Nat.add cpown]. split; ring.
  - replace (2 * S m)%nat with (S (S (2 * m))) by lia.
    assert (E : cpown (cneg cone) (S (S (2 * m))) = cone).
    { change (cpown (cneg cone) (S (S (2 * m)))) with (cmul (cneg cone) (cpown (cneg cone) (S (2 * m)))).
      rewrite IH2. ring. }
    split; [exact E|].
    change (cpown (cneg cone) (S (S (S (2 * m))))) with (cmul (cneg cone) (cpown (cneg cone) (S (S (2 * m))))).
    rewrite E. ring.
Qed.

Lemma eterm_mul c z n : eterm n (cmul c z) = cmul (cpown c n) (eterm n z).
Proof. unfold eterm. rewrite cpown_mul. ring. Qed.

Lemma cneg_as_mul z : cneg z = cmul (cneg cone) z.
Proof. ring. Qed.

Lemma eterm_neg m z :
  eterm (2 * m) (cneg z) = eterm (2 * m) z /\ eterm (S (2 * m)) (cneg z) = cneg (eterm (S (2 * m)) z).
Proof.
  rewrite (cneg_as_mul z), !eterm_mul. destruct (cpown_neg_one m) as [E1 E2]. rewrite E1, E2. split; ring.
Qed.

(* ---------- the even and the odd part of the exponential partial sums ---------- *)
Definition even_part (z : C) (N : nat) : C := csum (fun n => eterm (2 * n) z) N.
Definition odd_part (z : C) (N : nat) : C := csum (fun n => eterm (S (2 * n)) z) N.

Lemma exp_partial_split z N : cpsum cexp_coeff z (S (2 * N)) = cadd (even_part z N) (odd_part z N).
Proof.
  unfold cpsum, even_part, odd_part. change (fun n => cmul (cexp_coeff n) (cpown z n)) with (fun n => eterm n z).
  induction N as [|N IH].
  - reflexivity.
  - replace (S (2 * S N)) with (S (S (S (2 * N)))) by lia.
    rewrite (csum_S _ (S (S (2 * N)))), (csum_S _ (S (2 * N))), IH, (csum_S _ N), (csum_S _ N).
    replace (2 * S N)%nat with (S (S (2 * N))) by lia. ring.
Qed.

Lemma even_part_neg z N : even_part (cneg z) N = even_part z N.
Proof. unfold even_part. apply csum_ext. intros k _. apply eterm_neg. Qed.

Lemma odd_part_neg z N : odd_part (cneg z) N = cneg (odd_part z N).
Proof.
  unfold odd_part. rewrite (cneg_as_mul (csum _ N)), csum_scal. apply csum_ext. intros k _.
  rewrite (proj2 (eterm_neg k z)). ring.
Qed.

Lemma half_sum c s : cmul (RtoC (1 / 2)) (cadd (cadd c s) (csub c s)) = c.
Proof. destruct c, s. csimpl. f_equal; field. Qed.
Lemma half_diff c s : cmul (RtoC (1 / 2)) (csub (cadd c s) (csub c s)) = s.
Proof. destruct c, s. csimpl. f_equal; field. Qed.

Lemma exp_partial_neg z N : cpsum cexp_coeff (cneg z) (S (2 * N)) = csub (even_part z N) (odd_part z N).
Proof. rewrite exp_partial_split, even_part_neg, odd_part_neg. ring. Qed.

Lemma cexp_series_odd z : cconv (fun N => cpsum cexp_coeff z (S (2 * N))) (cexp z).
Proof. apply (cconv_subseq (fun N => S (2 * N)) (cpsum cexp_coeff z)); [intros n; lia | apply cexp_series_lemma]. Qed.

Lemma cdiv_ctwo w : cdiv w ctwo = cmul (RtoC (1 / 2)) w.
Proof. rewrite cdiv_def, RtoC_half. ring. Qed.

Lemma even_part_conv z : cconv (even_part z) (ccosh z).
Proof.
  rewrite ccosh_exp_lemma, cdiv_ctwo.
  apply (cconv_ext _ (fun N => cmul (RtoC (1 / 2))
                                 (cadd (cpsum cexp_coeff z (S (2 * N))) (cpsum cexp_coeff (cneg z) (S (2 * N)))))).
  - intros N. rewrite exp_partial_split, exp_partial_neg, half_sum. reflexivity.
  - apply cconv_cmul, cconv_add; apply cexp_series_odd.
Qed.

Lemma odd_part_conv z : cconv (odd_part z) (csinh z).
Proof.
  rewrite csinh_exp_lemma, cdiv_ctwo.
  apply (cconv_ext _ (fun N => cmul (RtoC (1 / 2))
                                 (csub (cpsum cexp_coeff z (S (2 * N))) (cpsum cexp_coeff (cneg z) (S (2 * N)))))).
  - intros N. rewrite exp_partial_split, exp_partial_neg, half_diff. reflexivity.
  - apply cconv_cmul, cconv_sub; apply cexp_series_odd.
Qed.

(* ---------- the four series in explicit form ---------- *)
Definition csinh_psum (z : C) (N : nat) : C :=
  csum (fun n => cmul (RtoC (/ INR (fact (2 * n + 1)))) (cpown z (2 * n + 1))) N.
Definition ccosh_psum (z : C) (N : nat) : C :=
  csum (fun n => cmul (RtoC (/ INR (fact (2 * n)))) (cpown z (2 * n))) N.
Definition csin_psum (z : C) (N : nat) : C :=
  csum (fun n => cmul (RtoC ((-1) ^ n / INR (fact (2 * n + 1)))) (cpown z (2 * n + 1))) N.
Definition ccos_psum (z : C) (N : nat) : C :=
  csum (fun n => cmul (RtoC ((-1) ^ n / INR (fact (2 * n)))) (cpown z (2 * n))) N.

Lemma csinh_psum_odd z N : csinh_psum z N = odd_part z N.
Proof.
  unfold csinh_psum, odd_part. apply csum_ext. intros k _.
  replace (2 * k + 1)%nat with (S (2 * k)) by lia. reflexivity.
Qed.

Lemma ccosh_psum_even z N : ccosh_psum z N = even_part z N.
Proof. reflexivity. Qed.

Lemma csinh_series_lemma z : cconv (csinh_psum z) (csinh z).
Proof. apply (cconv_ext _ (odd_part z)); [apply csinh_psum_odd | apply odd_part_conv]. Qed.

Lemma ccosh_series_lemma z : cconv (ccosh_psum z) (ccosh z).
Proof. exact (even_part_conv z). Qed.

(* rotation: sinh (i z) = i sin z, cosh (i z) = cos z (on the model's formulas) *)
Lemma sinh_neg_R y : sinh (- y) = - sinh y.
Proof. unfold sinh. rewrite Ropp_involutive. lra. Qed.
Lemma cosh_neg_R y : cosh (- y) = cosh y.
Proof. unfold cosh. rewrite Ropp_involutive. lra. Qed.

Lemma csinh_rot z : csinh (cmul ci z) = cmul ci (csin z).
Proof.
  destruct z as [x y]. rewrite ci_mul_pair. unfold csinh, csin. cbn [re im fst snd].
  rewrite ci_mul_pair, sinh_neg_R, cosh_neg_R. f_equal; ring.
Qed.

Lemma ccosh_rot z : ccosh (cmul ci z) = ccos z.
Proof.
  destruct z as [x y]. rewrite ci_mul_pair. unfold ccosh, ccos. cbn [re im fst snd].
  rewrite sinh_neg_R, cosh_neg_R. f_equal; ring.
Qed.

Lemma RtoC_div a b : RtoC (a / b) = cmul (RtoC a) (RtoC (/ b)).
Proof. unfold Rdiv. apply RtoC_mul. Qed.

Lemma csin_psum_rot z N : csin_psum z N = cmul (cneg ci) (odd_part (cmul ci z) N).
Proof.
  unfold csin_psum, odd_part. rewrite csum_scal. apply csum_ext. intros k _.
  replace (2 * k + 1)%nat with (S (2 * k)) by lia.
  rewrite eterm_mul, (proj2 (cpown_ci k)), RtoC_div. unfold eterm, cexp_coeff.
  replace (cmul (cneg ci) (cmul (cmul (RtoC ((-1) ^ k)) ci) (cmul (RtoC (/ INR (fact (S (2 * k))))) (cpown z (S (2 * k))))))
    with (cmul (cneg (cmul ci ci)) (cmul (cmul (RtoC ((-1) ^ k)) (RtoC (/ INR (fact (S (2 * k)))))) (cpown z (S (2 * k))))) by ring.
  rewrite ci_sqr. ring.
Qed.

Lemma ccos_psum_rot z N : ccos_psum z N = even_part (cmul ci z) N.
Proof.
  unfold ccos_psum, even_part. apply csum_ext. intros k _.
  rewrite eterm_mul, (proj1 (cpown_ci k)), RtoC_div. unfold eterm, cexp_coeff. ring.
Qed.

Lemma csin_series_lemma z : cconv (csin_psum z) (csin z).
Proof.
  replace (csin z) with (cmul (cneg ci) (csinh (cmul ci z))).
  - apply (cconv_ext _ (fun N => cmul (cneg ci) (odd_part (cmul ci z) N))); [apply csin_psum_rot|].
    apply cconv_cmul, odd_part_conv.
  - rewrite csinh_rot.
    replace (cmul (cneg ci) (cmul ci (csin z))) with (cmul (cneg (cmul ci ci)) (csin z)) by ring.
    rewrite ci_sqr. ring.
Qed.

Lemma ccos_series_lemma z : cconv (ccos_psum z) (ccos z).
Proof.
  rewrite <- ccosh_rot.
  apply (cconv_ext _ (even_part (cmul ci z))); [apply ccos_psum_rot | apply even_part_conv].
Qed.

(* ---------- the same four statements as power series sum_n a_n z^n in the vocabulary cpsum (every n, zero
   coefficients at the other parity; the whole sequence of partial sums converges, not only a subsequence) ---------- *)
Definition csinh_coeff (n : nat) : C := RtoC (if Nat.odd n then / INR (fact n) else 0).
Definition ccosh_coeff (n : nat) : C := RtoC (if Nat.even n then / INR (fact n) else 0).
Definition csin_coeff (n : nat) : C := RtoC (if Nat.odd n then (-1) ^ Nat.div2 n / INR (fact n) else 0).
Definition ccos_coeff (n : nat) : C := RtoC (if Nat.even n then (-1) ^ Nat.div2 n / INR (fact n) else 0).

Lemma even_double k : Nat.even (2 * k) = true.
Proof. rewrite Nat.even_mul. reflexivity. Qed.
Lemma odd_double k : Nat.odd (2 * k) = false.
Proof. rewrite <- Nat.negb_even, even_double. reflexivity. Qed.
Lemma even_S_double k : Nat.even (S (2 * k)) = false.
Proof. rewrite Nat.even_succ. apply odd_double. Qed.
Lemma odd_S_double k : Nat.odd (S (2 * k)) = true.
Proof. rewrite Nat.odd_succ. apply even_double. Qed.

Lemma csum_interleave_even (f : nat -> C) :
  (forall k, f (S (2 * k)) = czero) ->
  forall m, csum f (2 * m) = csum (fun k => f (2 * k)%nat) m /\ csum f (S (2 * m)) = csum (fun k => f (2 * k)%nat) m.
Proof.
  intros Ho. induction m as [|m [IH1 IH2]].
  - split; [reflexivity|]. pose proof (Ho 0%nat) as H1. cbn [Nat.mul Nat.add] in H1.
    cbn [Nat.mul Nat.add csum]. rewrite H1. ring.
  - replace (2 * S m)%nat with (S (S (2 * m))) by lia.
    assert (E : csum f (S (S (2 * m))) = csum (fun k => f (2 * k)%nat) (S m)).
    { rewrite (csum_S f (S (2 * m))), IH2, (csum_S _ m).
      replace (2 * S m)%nat with (S (S (2 * m))) by lia. reflexivity. }
    split; [exact E|].
    rewrite (csum_S f (S (S (2 * m)))), E.
    replace (S (S (S (2 * m)))) with (S (2 * S m)) by lia. rewrite Ho. ring.
Qed.

Lemma cconv_pairs (s t : nat -> C) l :
  (forall m, s (2 * m)%nat = t m) -> (forall m, s (S (2 * m)) = t m) -> cconv t l -> cconv s l.
Proof.
  intros He Ho [H1 H2]. split.
  - apply (Un_cv_pairs (fun N => re (s N)) (fun N => re (t N))); try assumption; intros m; [rewrite He | rewrite Ho]; reflexivity.
  - apply (Un_cv_pairs (fun N => im (s N)) (fun N => im (t N))); try assumption; intros m; [rewrite He | rewrite Ho]; reflexivity.
Qed.

Lemma cconv_unshift (s : nat -> C) l : cconv (fun N => s (S N)) l -> cconv s l.
Proof.
  intros [H1 H2]. split.
  - apply (Un_cv_unshift (fun N => re (s N))). exact H1.
  - apply (Un_cv_unshift (fun N => im (s N))). exact H2.
Qed.

(* a power series whose odd coefficients vanish *)
Lemma even_series_conv (a : nat -> C) z l :
  (forall k, a (S (2 * k)) = czero) ->
  cconv (csum (fun k => cmul (a (2 * k)%nat) (cpown z (2 * k)))) l -> cconv (cpsum a z) l.
Proof.
  intros Ho H.
  assert (Ho' : forall k, cmul (a (S (2 * k))) (cpown z (S (2 * k))) = czero) by (intros k; rewrite Ho; ring).
  pose proof (csum_interleave_even (fun n => cmul (a n) (cpown z n)) Ho') as HS.
  apply (cconv_pairs _ (csum (fun k => cmul (a (2 * k)%nat) (cpown z (2 * k))))); try exact H; intros m; apply HS.
Qed.

(* a power series whose even coefficients vanish *)
Lemma odd_series_conv (a : nat -> C) z l :
  (forall k, a (2 * k)%nat = czero) ->
  cconv (csum (fun k => cmul (a (S (2 * k))) (cpown z (S (2 * k))))) l -> cconv (cpsum a z) l.
Proof.
  intros He H.
  assert (He' : forall k, cmul (a (S (S (2 * k)))) (cpown z (S (S (2 * k)))) = czero).
  { intros k. replace (S (S (2 * k))) with (2 * S k)%nat by lia. rewrite He. ring. }
  pose proof (csum_interleave_even (fun n => cmul (a (S n)) (cpown z (S n))) He') as HS.
  apply cconv_unshift.
  apply (cconv_ext _ (csum (fun n => cmul (a (S n)) (cpown z (S n))))).
  { intros N. unfold cpsum. rewrite csum_shift. pose proof (He 0%nat) as H0. cbn [Nat.mul Nat.add] in H0.
    rewrite H0. ring. }
  apply (cconv_pairs _ (csum (fun k => cmul (a (S (2 * k))) (cpown z (S (2 * k)))))); try exact H; intros m; apply HS.
Qed.

Lemma csinh_power_series z : cconv (cpsum csinh_coeff z) (csinh z).
Proof.
  apply odd_series_conv.
  - intros k. unfold csinh_coeff. rewrite odd_double. reflexivity.
  - apply (cconv_ext _ (odd_part z)); [|apply odd_part_conv].
    intros N. apply csum_ext. intros k _. unfold csinh_coeff. rewrite odd_S_double. reflexivity.
Qed.

Lemma ccosh_power_series z : cconv (cpsum ccosh_coeff z) (ccosh z).
Proof.
  apply even_series_conv.
  - intros k. unfold ccosh_coeff. rewrite even_S_double. reflexivity.
  - apply (cconv_ext _ (even_part z)); [|apply even_part_conv].
    intros N. apply csum_ext. intros k _. unfold ccosh_coeff. rewrite even_double. reflexivity.
Qed.

Lemma csin_power_series z : cconv (cpsum csin_coeff z) (csin z).
Proof.
  apply odd_series_conv.
  - intros k. unfold csin_coeff. rewrite odd_double. reflexivity.
  - apply (cconv_ext _ (csin_psum z)); [|apply csin_series_lemma].
    intros N. apply csum_ext. intros k _. unfold csin_coeff.
    rewrite odd_S_double, Nat.div2_succ_double. replace (2 * k + 1)%nat with (S (2 * k)) by lia. reflexivity.
Qed.

Lemma ccos_power_series z : cconv (cpsum ccos_coeff z) (ccos z).
Proof.
  apply even_series_conv.
  - intros k. unfold ccos_coeff. rewrite even_S_double. reflexivity.
  - apply (cconv_ext _ (ccos_psum z)); [|apply ccos_series_lemma].
    intros N. apply csum_ext. intros k _. unfold ccos_coeff.
    rewrite even_double, Nat.div2_double. reflexivity.
Qed.
