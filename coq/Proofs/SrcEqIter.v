(* Proofs/SrcEqIter.v -- the four Krylov solvers of `impl Sparse<f64>` (src/sparse.rs:303-616), regenerated from the
   source of this run as gen/SrcIter.v (s_solve_cg, s_solve_bicg, s_solve_bicgstab, s_solve_qmr), against the hand-written
   model Model/Iter.v (packages C08/C09).

   The model returns (Result, final x, ghost) where the ghost (the vector of the last convergence test, the trace of
   norms / margins / pivots, the exit code) is read by nothing in the algorithm.  The source returns (final x, Result).
   ERASURE: for every arithmetic with a square root, every matrix (well-formed or not), every b, x, budget and tolerance,

       s_solve_<m> M b x n tol  =  let* o := run_sparse <m> M b x n tol in Ok (er o)
       (run_sparse m M = the model solver m with  mulA := sp_mul M,  mulAT := sp_tmul M,  rows := sp_rows M,  cols := sp_cols M)

   with  er (result, x, ghost) = (x, result):  the regenerated function IS the model with the ghost projected away --
   including every panic (guards, size mismatches inside the operators, index panics of the CSC products, DivZero of an
   exact arithmetic) in the same place.  No hypothesis. *)
From Coq Require Import List Arith ZArith Lia Bool.
From OV Require Import Base.Panic Base.Arith Model.Vector Model.Matrix Model.Sparse Model.Iter gen.SrcPrelude gen.SrcIter gen.SrcSparse gen.SrcVec64
  Proofs.SrcEqBase Proofs.SrcEqVec64.
Import ListNotations.

Section SrcEqIter.
Context {F : SArith}.
Local Notation A := (SA F).
Local Notation TF := (T (SA F)).

(* the erasure: forget the ghost, keep (final x, Result) -- the order in which the source returns them *)
Definition er (o : iout F) : list TF * iresult F := (snd (fst o), fst (fst o)).
Definition er_step {S1 S2} (proj : S2 -> S1) (o : @step_out F S2) : S1 + (list TF * iresult F) :=
  match o with Continue s' => inl (proj s') | Return o => inr (er o) end.

(* `for i in lo..` with a `return` inside (for_ret_from) against the model's iloop, the source state being a projection
   of the model state *)
Lemma for_ret_iloop {S1 S2} (proj : S2 -> S1) (b1 : nat -> S1 -> res (S1 + (list TF * iresult F)))
      (b2 : nat -> S2 -> res (@step_out F S2)) (final : S2 -> iout F) (K : S1 -> res (list TF * iresult F)) n lo (a1 : S1) (a2 : S2) :
  a1 = proj a2 ->
  (forall i a, b1 i (proj a) = let* o := b2 i a in Ok (er_step proj o)) ->
  (forall a, K (proj a) = Ok (er (final a))) ->
  (let* o := for_ret_from n lo b1 a1 in match o with inl a1 => K a1 | inr r => Ok r end)
  = (let* o := iloop b2 final n lo a2 in Ok (er o)).
Proof.
  intros -> Hb HK. revert lo a2; induction n as [|n IH]; intros lo a2; cbn [for_ret_from iloop bind]; [apply HK|].
  rewrite Hb, !bind_assoc. destruct (b2 lo a2) as [[a'|o]|k]; cbn [bind er_step]; [apply IH|reflexivity|reflexivity].
Qed.

Lemma if_ok_nz (nb : TF) : (if eqb nb zero then Ok one else Ok nb) = Ok (nz nb).
Proof. unfold nz. destruct (eqb nb zero); reflexivity. Qed.

Lemma guards_eq (s : sparse A) (b x : list TF) {Y} (K : res Y) :
  (if negb (sp_rows s =? length b) then Panic Guard else
   if negb (sp_rows s =? sp_cols s) then Panic Guard else
   if negb (length b =? length x) then Panic Guard else K)
  = (let* _ := guards (sp_rows s) (sp_cols s) b x in K).
Proof.
  unfold guards. destruct (negb (sp_rows s =? length b)); [reflexivity|].
  destruct (negb (sp_rows s =? sp_cols s)); [reflexivity|].
  destruct (negb (length b =? length x)); reflexivity.
Qed.

(* one structural step of an equation between two monadic terms that perform the same steps in the same order *)
Ltac it_step :=
  match goal with
  | |- ?a = ?b => reflexivity
  | |- context [bind (bind _ _) _] => rewrite !bind_assoc
  | |- context [bind (Ok _) _] => rewrite !bind_Ok_l
  | |- context [if eqb ?nb zero then Ok one else Ok ?nb] => rewrite (if_ok_nz nb)
  | |- bind ?e _ = bind ?e' _ => unify e e'; apply bind_ext; intros ?
  (* conditionals in canonical orientation (SrcEqBase): `a <=? b` is `negb (b <? a)` on both sides, also under binders *)
  | |- context [(?a <=? ?b)%nat] => rewrite (Nat.leb_antisym b a)
  | |- context [if negb ?c then _ else _] => destruct c eqn:?; cbn [negb]
  | |- context [bind (if ?c then _ else _) _] => destruct c eqn:?
  | |- (if ?c then _ else _) = _ => destruct c eqn:?
  | |- _ = (if ?c then _ else _) => destruct c eqn:?
  | |- context [match ?p with pair _ _ => _ end] => is_var p; destruct p
  end.
Ltac it_eq := repeat it_step.

(* ------------------------------------------------------------------ solve_cg *)
Definition cg_proj (a : @cg_st F) := (cg_x a, cg_resid a, cg_p a, cg_z a, cg_rho1 a, cg_r a).

Lemma src_solve_cg (s : sparse A) (b x : list TF) (n : nat) (tol : TF) :
  s_solve_cg s b x n tol
  = let* o := run_sparse CG s b x n tol in Ok (er o).
Proof.
  unfold run_sparse, run, s_solve_cg, solve_cg. rewrite guards_eq, bind_assoc. apply bind_ext; intros _.
  cbv zeta. it_eq.
  - unfold for_ret. rewrite Nat.add_sub.
    apply (for_ret_iloop cg_proj); [reflexivity| |].
    + intros i [cx cr cp cz crho cres cX]. unfold cg_proj, cg_body, zeros.
      cbn [cg_x cg_r cg_p cg_z cg_rho1 cg_resid cg_X]. unfold vadd_assign, vsub_assign. cbv zeta.
      it_eq.
    + intros [cx cr cp cz crho cres cX]. reflexivity.
Qed.

(* ------------------------------------------------------------------ solve_bicgstab *)
Definition stab_proj (a : @stab_st F) :=
  (st_x a, st_resid a, st_p a, st_phat a, st_shat a, st_v a, st_rho2 a, st_alpha a, st_omega a, st_r a).

Lemma src_solve_bicgstab (s : sparse A) (b x : list TF) (n : nat) (tol : TF) :
  s_solve_bicgstab s b x n tol
  = let* o := run_sparse BiCGSTAB s b x n tol in Ok (er o).
Proof.
  unfold run_sparse, run, s_solve_bicgstab, solve_bicgstab. rewrite guards_eq, bind_assoc. apply bind_ext; intros _.
  cbv zeta. it_eq.
  unfold for_ret. rewrite Nat.add_sub.
  apply (for_ret_iloop stab_proj); [reflexivity| |].
  - intros i [cx cr cp cph csh cv crho2 cal com cres cX]. unfold stab_proj, stab_body, zeros.
    cbn [st_x st_r st_p st_phat st_shat st_v st_rho2 st_alpha st_omega st_resid st_X]. unfold vadd_assign, vsub_assign. cbv zeta.
    it_eq.
  - intros [cx cr cp cph csh cv crho2 cal com cres cX]. reflexivity.
Qed.

(* ------------------------------------------------------------------ solve_qmr *)
Definition qmr_proj (a : @qmr_st F) :=
  (q_x a, q_resid a, q_rho a, q_xi a, q_ep a, q_gamma a, q_eta a, q_theta a, q_r a, q_y a, q_z a, q_vt a, q_wt a,
   q_p a, q_q a, q_d a, q_s a).

Lemma src_solve_qmr (s : sparse A) (b x : list TF) (n : nat) (tol : TF) :
  s_solve_qmr s b x n tol
  = let* o := run_sparse QMR s b x n tol in Ok (er o).
Proof.
  unfold run_sparse, run, s_solve_qmr, solve_qmr. rewrite guards_eq, bind_assoc. apply bind_ext; intros _.
  cbv zeta. it_eq.
  unfold for_ret. rewrite Nat.add_sub.
  apply (for_ret_iloop qmr_proj); [reflexivity| |].
  - intros i [cx cr cvt cy cwt cz cp cq cd cs crho cxi cga ceta cth cep cres cX]. unfold qmr_proj, qmr_body, qmr_exit, zeros.
    cbn [q_x q_r q_vt q_y q_wt q_z q_p q_q q_d q_s q_rho q_xi q_gamma q_eta q_theta q_ep q_resid q_X].
    unfold vadd_assign, vsub_assign. cbv zeta.
    it_eq.
  - intros [cx cr cvt cy cwt cz cp cq cd cs crho cxi cga ceta cth cep cres cX]. reflexivity.
Qed.

(* ------------------------------------------------------------------ solve_bicg: `while iter < max_iter { iter += 1; .. }` *)
Definition er_wstep {S1 S2} (proj : S2 -> S1) (o : @step_out F S2) : wout S1 (list TF * iresult F) :=
  match o with Continue s' => WNext (proj s') | Return o => WRet (er o) end.

(* the source state carries the counter `iter` (= i - 1 at the head of pass i); the fuel S max is never exhausted *)
Lemma while_ret_iloop {S1 S2} (proj : nat -> S2 -> S1) (b1 : S1 -> res (wout S1 (list TF * iresult F)))
      (b2 : nat -> S2 -> res (@step_out F S2)) (final : S2 -> iout F) (K : S1 -> res (list TF * iresult F)) (mx : nat) :
  (forall i a, 1 <= i <= mx -> b1 (proj i a) = let* o := b2 i a in Ok (er_wstep (proj (S i)) o)) ->
  (forall a, b1 (proj (S mx) a) = Ok (WDone (proj (S mx) a))) ->
  (forall i a, K (proj i a) = Ok (er (final a))) ->
  forall k i a a0, a0 = proj i a -> 1 <= i -> i + k = S mx ->
  (let* o := while_ret (S k) b1 a0 in
   match o with Some (inl a1) => K a1 | Some (inr r) => Ok r | None => Panic Guard end)
  = (let* o := iloop b2 final k i a in Ok (er o)).
Proof.
  intros Hb Hd HK. induction k as [|k IH]; intros i a a0 -> Hi E.
  - replace i with (S mx) by lia. cbn [while_ret iloop bind]. rewrite Hd. cbn [bind]. apply HK.
  - cbn [iloop]. change (while_ret (S (S k)) b1 (proj i a))
      with (let* o := b1 (proj i a) in match o with WNext s' => while_ret (S k) b1 s' | WDone s' => Ok (Some (inl s')) | WRet r => Ok (Some (inr r)) end).
    rewrite Hb by lia. rewrite !bind_assoc. destruct (b2 i a) as [[a'|o]|p]; cbn [bind er_wstep]; [|reflexivity|reflexivity].
    apply IH; [reflexivity|lia|lia].
Qed.

Definition bicg_proj (i : nat) (a : @bicg_st F) :=
  (bi_x a, bi_r a, bi_rr a, bi_err a, bi_z a, bi_zz a, bi_p a, bi_pp a, bi_rho2 a, pred i).

Lemma src_solve_bicg (s : sparse A) (b x : list TF) (n : nat) (tol : TF) (itol : nat) :
  s_solve_bicg s b x n tol itol
  = let* o := run_sparse (BiCG itol) s b x n tol in Ok (er o).
Proof.
  unfold run_sparse, run, s_solve_bicg, solve_bicg, bicg_start, bicg_body, bicg_final. rewrite guards_eq, !bind_assoc. apply bind_ext; intros _.
  cbv zeta. destruct (itol =? 1) eqn:E1; destruct (itol =? 2) eqn:E2. all: it_eq.
  all: cbn [fst snd]; it_eq.
  all: apply (while_ret_iloop bicg_proj _ _ _ _ n); [| | |reflexivity|lia|lia].
  all: try (intros i [cx cr crr cz czz cp cpp crho2 cerr cX]; reflexivity).
  all: try (intros [cx cr crr cz czz cp cpp crho2 cerr cX]; unfold bicg_proj; cbn [pred];
            rewrite Nat.ltb_irrefl; reflexivity).
  all: intros i [cx cr crr cz czz cp cpp crho2 cerr cX] [Hi1 Hi2]; destruct i as [|j]; [lia|];
       unfold bicg_proj, bicg_body; cbn [pred bi_x bi_r bi_rr bi_z bi_zz bi_p bi_pp bi_rho2 bi_err bi_X];
       replace (j <? n) with true by (symmetry; apply Nat.ltb_lt; lia);
       rewrite Nat.add_1_r; unfold vadd_assign, vsub_assign; cbv zeta; it_eq.
Qed.

(* ------------------------------------------------------------------ the callees the call table names
   Sparse::multiply / transpose_multiply (sp_mul / sp_tmul) and the Vector operators are tied to their own sources in
   Proofs/SrcEqSparse.v and Proofs/SrcEqVector.v.  The two remaining ones: *)
(* identity_preconditioner: the regenerated function (gen/SrcSparse.v) is the model's ident_pre *)
Lemma callee_ident_pre (s : sparse A) (b x : list TF) : s_sp_ident_pre s b x = ident_pre (sp_rows s) b x.
Proof. reflexivity. Qed.
(* Vector<f64>::norm_2: the regenerated function (gen/SrcVec64.v; f64::abs instantiated by the arithmetic's abs) is the model's
   norm2 under the reading  powf(y, 2.0) = y * y  of the libm call -- the one place where Model/Iter.v departs from the text
   of the source (Model/Vector.v states the same) *)
Lemma callee_norm2 (powf : F -> F -> F) (v : list TF) :
  (forall y : TF, powf y (add one one) = mul y y) -> s_norm_2 abs powf v = Ok (norm2 v).
Proof. intros H. rewrite (src_norm_2 abs powf v H). reflexivity. Qed.

Definition model_is_source_Iter : Prop :=
  (forall (s : sparse A) (b x : list TF) (n : nat) (tol : TF),
     s_solve_cg s b x n tol = let* o := run_sparse CG s b x n tol in Ok (er o)) /\
  (forall (s : sparse A) (b x : list TF) (n : nat) (tol : TF) (itol : nat),
     s_solve_bicg s b x n tol itol = let* o := run_sparse (BiCG itol) s b x n tol in Ok (er o)) /\
  (forall (s : sparse A) (b x : list TF) (n : nat) (tol : TF),
     s_solve_bicgstab s b x n tol = let* o := run_sparse BiCGSTAB s b x n tol in Ok (er o)) /\
  (forall (s : sparse A) (b x : list TF) (n : nat) (tol : TF),
     s_solve_qmr s b x n tol = let* o := run_sparse QMR s b x n tol in Ok (er o)) /\
  (forall (s : sparse A) (b x : list TF), s_sp_ident_pre s b x = ident_pre (sp_rows s) b x) /\
  (forall (powf : F -> F -> F) (v : list TF),
     (forall y : TF, powf y (add one one) = mul y y) -> s_norm_2 abs powf v = Ok (norm2 v)).
Lemma model_is_source_Iter_lemma : model_is_source_Iter.
Proof. exact (conj src_solve_cg (conj src_solve_bicg (conj src_solve_bicgstab (conj src_solve_qmr (conj callee_ident_pre callee_norm2))))). Qed.

End SrcEqIter.
