(* Proofs/BandedDet.v -- band_det = (+-1) * product of the pivots of the same factorisation band_solve uses:
   it always answers, it vanishes exactly when a pivot does, hence it is nonzero on every nonsingular band
   (magnitude rule), and a nonzero determinant makes the solver answer for every right-hand side. *)
From Coq Require Import List Arith Lia ZArith Bool Ring_theory Ring Field_theory Field.
From OV Require Import Base.Panic Base.Arith Model.Vector Model.Matrix Model.Banded
                       Proofs.Banded Proofs.BandedLU Proofs.BandedTotal Proofs.BandedComplete.
Import ListNotations.
Local Open Scope nat_scope.

Section Det.
Context {A : Arith}.
Notation T := (T A).
Notation matrix := (matrix A).
Notation banded := (banded A).
Variable FL : FieldLaws A.
Let RL : RingLaws A := RingLaws_of_Field FL.
Add Field AFld3 : (fl_field A FL).
Notation inv := (fl_inv A FL).

Lemma mul_integral (x y : T) : mul x y = zero -> x = zero \/ y = zero.
Proof.
  intros H. destruct (eqb x zero) eqn:E; [left; now apply (fl_eqb A FL)|right].
  apply (eqb_false_neq FL) in E.
  transitivity (mul (inv x) (mul x y)); [field; auto|]. rewrite H. ring.
Qed.

Lemma neg_nonzero (x : T) : x <> zero -> neg x <> zero.
Proof. intros H E. apply H. transitivity (neg (neg x)); [ring|]. rewrite E. ring. Qed.

(* the sign variable only ever changes sign *)
Lemma dec_step_sign n mm k (au al : matrix) (index : list nat) (d : T) l
      (au' al' : matrix) (index' : list nat) (d' : T) l' :
  dec_step false n mm k (au, al, index, d, l) = Ok (au', al', index', d', l') -> d' = d \/ d' = neg d.
Proof.
  intros H. unfold dec_step in H.
  apply bind_ok in H as ([dum p] & _ & H). apply bind_ok in H as (index1 & _ & H).
  apply bind_ok in H as (au1 & _ & H). apply bind_ok in H as ([au2 d2] & E2 & H).
  apply bind_ok in H as ([au3 al3] & _ & H). injection H as <- <- <- <- <-.
  destruct (negb (p =? k)).
  - apply bind_ok in E2 as (a & _ & E2). injection E2 as <- <-. now right.
  - injection E2 as <- <-. now left.
Qed.

Lemma dec_loop_sign n mm rem k (s sN : @dec_state A) :
  for_from rem k (dec_step false n mm) s = Ok sN ->
  snd (fst s) <> zero -> snd (fst sN) <> zero.
Proof.
  intros H H0.
  refine (for_from_inv_partial (fun _ (st : @dec_state A) => snd (fst st) <> zero) rem k _ s sN H0 _ H).
  intros i [[[[a b] ix] d] l] [[[[a1 b1] ix1] d1] l1] _ Hd E. cbn [fst snd] in *.
  apply dec_step_sign in E as [->| ->]; auto. now apply neg_nonzero.
Qed.

(* the product loop of det *)
Lemma det_loop n mm (au : matrix) (d : T) :
  okM n mm au -> 1 <= mm ->
  exists dd, for_ 0 n (fun i dd => let* a := mget au i 0 in Ok (mul dd a)) d = Ok dd /\
    (dd = zero <-> d = zero \/ exists i, i < n /\ mat_at au mm i 0 = zero).
Proof.
  intros Hau Hmm.
  destruct (for_inv (fun k (dd : T) => dd = zero <-> d = zero \/ exists i, i < k /\ mat_at au mm i 0 = zero) 0 n
              (fun i dd => let* a := mget au i 0 in Ok (mul dd a)) d) as (dd & E & Hdd); [lia| | |eauto].
  - split; [now left|]. intros [H|(i & Hi & _)]; [auto|lia].
  - intros k dd Hk Hdd.
    destruct (mget_total n mm au k 0) as (a & Ea); auto; try lia. rewrite Ea. cbn [bind].
    apply (mget_Ok_inv _ mm) in Ea as (-> & _); [|apply Hau].
    eexists; split; [reflexivity|]. split.
    + intros H. apply mul_integral in H as [H|H].
      * apply Hdd in H as [H|(i & Hi & Hz)]; [now left|right; exists i; split; auto; lia].
      * right. exists k. split; auto.
    + intros [H|(i & Hi & Hz)].
      * assert (dd = zero) by (apply Hdd; now left). subst dd. ring.
      * destruct (Nat.eq_dec i k) as [->|Hne]; [rewrite Hz; ring|].
        assert (dd = zero) by (apply Hdd; right; exists i; split; auto; lia). subst dd. ring.
Qed.

(* band_det always answers; it is zero exactly when the factorisation has a zero pivot *)
Lemma band_det_pivots (B : banded) :
  wfB B -> bm1 B <= bn B ->
  exists dd auN alN indexN dN,
    band_det B = Ok dd /\
    decompose_gen false B (compact B) (mat_new (bn B) (bm1 B) zero) (repeat 0 (bn B)) = Ok (auN, alN, indexN, dN) /\
    (dd = zero <-> exists i, i < bn B /\ mat_at auN (bm1 B + bm2 B + 1) i 0 = zero).
Proof.
  intros (HwfM & Hrows & Hcols) Hm1. unfold band_det, band_det_gen.
  set (n := bn B) in *. set (m1 := bm1 B) in *. set (mm := m1 + bm2 B + 1) in *.
  assert (Hmm : 1 <= mm) by (unfold mm; lia).
  assert (Hau : okM n mm (compact B)).
  { split; auto. unfold wfM in HwfM. now rewrite HwfM, Hrows, Hcols. }
  unfold decompose_gen. fold m1 mm n.
  destruct (shift_rows_total n mm m1 (compact B)) as (au0 & -> & Hau0); auto; [unfold mm; lia|]. cbn [bind].
  destruct (dec_loop_total FL n mm m1 (au0, mat_new n m1 zero, repeat 0 n, one, m1)) as (sN & E & HN); auto.
  { unfold okS. split; [auto|]. split; [split; cbn; [auto|now rewrite repeat_length]|].
    split; [now rewrite repeat_length|]. split; [lia|]. intros i Hi; lia. }
  rewrite E. cbn [bind].
  assert (Hd : snd (fst sN) <> zero).
  { unfold for_ in E. rewrite Nat.sub_0_r in E. apply (dec_loop_sign _ _ _ _ _ _ E). cbn [fst snd].
    exact (one_neq_zero FL). }
  destruct sN as [[[[auN alN] indexN] dN] lN]. destruct HN as (HauN & _). cbn [fst snd] in Hd. cbn [bind].
  destruct (det_loop n mm auN dN HauN Hmm) as (dd & -> & Hdd).
  exists dd, auN, alN, indexN, dN. split; [reflexivity|]. split; [reflexivity|].
  rewrite Hdd. split; [intros [H|H]; [contradiction|auto]|auto].
Qed.

Variable PL : PivotLaws A.

Lemma decompose_pivots_nonzero (B : banded) (auN alN : matrix) (indexN : list nat) (dN : T) :
  wfB B -> bm1 B <= bn B -> trivial_kernel B ->
  decompose_gen false B (compact B) (mat_new (bn B) (bm1 B) zero) (repeat 0 (bn B)) = Ok (auN, alN, indexN, dN) ->
  forall i, i < bn B -> mat_at auN (bm1 B + bm2 B + 1) i 0 <> zero.
Proof.
  intros Hwf Hm1 Hker Edec i Hi. unfold decompose_gen in Edec.
  apply bind_ok in Edec as (au0 & Eshift & Edec).
  apply bind_ok in Edec as ([[[[auN' alN'] indexN'] dN'] lN'] & Eloop & Edec). injection Edec as <- <- <- <-.
  pose proof Hwf as (_ & _ & Hcols).
  apply (shift_rows_Ok_inv _ _ (bm1 B + bm2 B + 1) (bm1 B)) in Eshift as (Hc0 & Hau0); auto; [|lia].
  unfold for_ in Eloop. rewrite Nat.sub_0_r in Eloop.
  assert (Hl0 : bm1 B = Nat.min (0 + bm1 B) (bn B)) by lia.
  assert (Eloop' : for_from (bn B) 0 (dec_step false (bn B) (bm1 B + bm2 B + 1))
            (au0, mat_new (bn B) (bm1 B) zero, repeat 0 (bn B), one, Nat.min (0 + bm1 B) (bn B))
            = Ok (auN', alN', indexN', dN', lN')) by (rewrite <- Hl0; exact Eloop).
  exact (pivots_nonzero FL PL B au0 Hwf Hm1 Hker Hc0 Hau0 (bn B) (Nat.le_refl _) _ _ _ _ _ Eloop' i Hi).
Qed.

(* what is proved of the determinant (see Props/C04.v, band_det_spec_partial) *)
Lemma band_det_spec_partial_lemma (B : banded) :
  wfB B -> bm1 B <= bn B ->
  exists dd, band_det B = Ok dd /\
    (dd <> zero -> forall b, length b = bn B ->
       exists x, band_solve B b = Ok x /\ length x = bn B /\ dense_mulv B x = b) /\
    (trivial_kernel B -> dd <> zero).
Proof.
  intros Hwf Hm1.
  destruct (band_det_pivots B Hwf Hm1) as (dd & auN & alN & indexN & dN & Edet & Edec & Hdd).
  exists dd. split; [exact Edet|]. split.
  - intros Hnz b Hb.
    destruct (band_solve_total_lemma FL B b Hwf Hb Hm1) as [(x & E)|(_ & auN' & alN' & indexN' & dN' & Edec' & Hz)].
    + exists x. split; auto. now apply (band_solve_sound_lemma FL B b x).
    + exfalso. rewrite Edec in Edec'. injection Edec' as <- <- <- <-. apply Hnz. now apply Hdd.
  - intros Hker Hz. apply Hdd in Hz as (i & Hi & Hz).
    exact (decompose_pivots_nonzero B auN alN indexN dN Hwf Hm1 Hker Edec i Hi Hz).
Qed.

End Det.

(* statements pinned in Props/C04.v *)
Lemma band_solve_exact_or_refuses_lemma {A : Arith} (FL : FieldLaws A) (B : banded A) (b : list A) :
  wfB B -> length b = bn B -> bm1 B <= bn B ->
  (exists x, band_solve B b = Ok x /\ length x = bn B /\ dense_mulv B x = b) \/
  (band_solve B b = Panic DivZero /\
   exists auN alN indexN dN,
     decompose_gen false B (compact B) (mat_new (bn B) (bm1 B) zero) (repeat 0 (bn B)) = Ok (auN, alN, indexN, dN) /\
     exists i, i < bn B /\ mat_at auN (bm1 B + bm2 B + 1) i 0 = zero).
Proof.
  intros Hwf Hb Hm1. destruct (band_solve_total_lemma FL B b Hwf Hb Hm1) as [(x & E)|H]; [left|now right].
  exists x. split; auto. now apply (band_solve_sound_lemma FL B b x).
Qed.

(* ---- on a nonsingular band the solution does not depend on padding ---- *)
Section Unique.
Context {A : Arith}.
Notation T := (T A).
Notation banded := (banded A).
Variable FL : FieldLaws A.
Variable PL : PivotLaws A.
Add Field AFld4 : (fl_field A FL).

Lemma sum_n_sub n (f g : nat -> T) :
  sum_n n (fun u => sub (f u) (g u)) = sub (sum_n n f) (sum_n n g).
Proof. induction n as [|n IH]; cbn; [ring|]. rewrite IH. ring. Qed.

Lemma dense_mulv_same (B B' : banded) (x : list T) :
  same_in_matrix_slots B B' -> dense_mulv B' x = dense_mulv B x.
Proof.
  intros HS. pose proof HS as (_ & Hn & _). unfold dense_mulv. rewrite Hn.
  apply map_ext_in. intros i Hi. apply in_seq in Hi.
  apply sum_n_ext. intros j Hj. now rewrite (dense_entry_same B B') by (auto; lia).
Qed.

Lemma solution_unique (B : banded) (b x x' : list T) :
  trivial_kernel B -> length x = bn B -> length x' = bn B ->
  dense_mulv B x = b -> dense_mulv B x' = b -> x = x'.
Proof.
  intros Hker Hx Hx' H H'. set (n := bn B) in *.
  set (z := map (fun j => sub (nth j x zero) (nth j x' zero)) (seq 0 n)).
  assert (Hz : z = repeat zero n).
  { apply Hker; [unfold z; now rewrite map_length, seq_length|].
    apply (nth_ext _ _ zero zero).
    - unfold dense_mulv. now rewrite map_length, seq_length, repeat_length.
    - unfold dense_mulv. rewrite map_length, seq_length. fold n. intros i Hi.
      rewrite nth_map_seq by auto. rewrite nth_repeat.
      rewrite (sum_n_ext n _ (fun j => sub (mul (dense_entry B i j) (nth j x zero))
                                           (mul (dense_entry B i j) (nth j x' zero)))).
      2:{ intros j Hj. unfold z. rewrite nth_map_seq by auto. ring. }
      rewrite sum_n_sub.
      assert (E : forall v, dense_mulv B v = b -> sum_n n (fun j => mul (dense_entry B i j) (nth j v zero)) = nth i b zero).
      { intros v Hv. rewrite <- Hv. unfold dense_mulv. fold n. now rewrite nth_map_seq by auto. }
      rewrite (E x H), (E x' H'). ring. }
  apply (nth_ext _ _ zero zero); [congruence|].
  intros j Hj. rewrite Hx in Hj.
  assert (Hzj : nth j z zero = zero) by (rewrite Hz; apply nth_repeat).
  unfold z in Hzj. rewrite nth_map_seq in Hzj by auto.
  transitivity (add (sub (nth j x zero) (nth j x' zero)) (nth j x' zero)); [ring|]. rewrite Hzj. ring.
Qed.

Lemma band_solve_padding_lemma (B : banded) (b : list T) :
  wfB B -> length b = bn B -> bm1 B <= bn B -> trivial_kernel B ->
  forall B', same_in_matrix_slots B B' -> band_solve B' b = band_solve B b.
Proof.
  intros Hwf Hb Hm1 Hker B' HS. pose proof HS as (Hwf' & Hn & H1 & H2 & _).
  assert (Hker' : trivial_kernel B').
  { intros x Hx Hx0. rewrite Hn in *. apply Hker; auto. now rewrite <- (dense_mulv_same B B'). }
  destruct (band_solve_complete_lemma FL PL B b Hwf Hb Hm1 Hker) as (x & E & Hxl & Hx).
  destruct (band_solve_complete_lemma FL PL B' b Hwf') as (x' & E' & Hxl' & Hx'); auto; try congruence.
  rewrite E, E'. f_equal. symmetry.
  apply (solution_unique B b x x'); auto; try congruence.
  now rewrite <- (dense_mulv_same B B').
Qed.

End Unique.
