(* Proofs/RoundBanded.v -- the banded matrix-vector product of Model/Banded.v ([band_mul]: for every row the slots of
   the compact storage that lie inside the matrix, accumulated left to right) "to rounding accuracy".

   1. [band_mul_rows], over ANY arithmetic: row i of the result is the sum, in slot order, of the
      [row_cnt B i] <= m1 + m2 + 1 products  cslot B i s * v[s + i - m1]  (Proofs/Banded.v's loop normal form, without
      the ring law that pads the sum to the full dense row).
   2. Standard model (the same Gallina [band_mul] at ARm):
        band_mul_backward_error_lemma : fl(B v)_i = Sum_k b_{i,k} (1 + th_k) v_k ,  |th_k| <= gam (row_cnt B i)
      -- the constant depends on the BANDWIDTH m1 + m2 + 1, not on the dimension n;
        band_mul_forward_error_lemma  : the corresponding forward bound.
   3. The primitive-float instance (IEEE binary64) through Flocq: band_mul_backward_error_float_lemma, for every finite
      component whose products do not underflow.
   The "to rounding accuracy" half of the product claim of C04.  Not covered: band_solve / band_det (the compact LU with
   its shifting storage), and the standard model for the remaining operations at the floats. *)
From Coq Require Import ZArith Reals Lra Lia List Floats Bool Arith.
From OV Require Import Base.Panic Base.Arith Base.RoundModel Model.Vector Model.Matrix Model.Banded Inst.FloatInst
  Proofs.Matrix Proofs.Banded Proofs.ComplexRound Proofs.RoundDot Proofs.RoundDotFloat.
Import ListNotations.

(* ================================================================ 1. over any arithmetic *)
Section BandRows.
Context {A : Arith}.
Notation T := (T A).
Notation banded := (banded A).

Definition band_row (B : banded) (v : list T) (i : nat) : T :=
  sum_n (row_cnt B i) (fun k => row_term B v i (row_lo B i + k)).

Lemma band_mul_rows (B : banded) (v : list T) :
  wfB B -> length v = bn B -> band_mul B v = Ok (map (band_row B v) (seq 0 (bn B))).
Proof.
  intros Hwf Hv. unfold band_mul. rewrite Hv, Nat.eqb_refl. cbn [negb].
  set (n := bn B) in *.
  match goal with |- for_ 0 n ?body _ = _ => set (body0 := body) end.
  destruct (for_inv (fun i r => r = map (band_row B v) (seq 0 i) ++ repeat zero (n - i)) 0 n body0 (repeat zero n))
    as (r & E & Hr).
  - lia.
  - cbn. now rewrite Nat.sub_0_r.
  - intros i r Hi ->. unfold body0.
    set (r0 := map (band_row B v) (seq 0 i) ++ repeat zero (n - i)).
    assert (Hlen1 : length (map (band_row B v) (seq 0 i)) = i) by now rewrite map_length, seq_length.
    assert (Hlen : length r0 = n).
    { unfold r0. rewrite app_length, Hlen1, repeat_length. lia. }
    assert (Hnth : nth i r0 zero = zero).
    { unfold r0. rewrite app_nth2 by lia. rewrite Hlen1, Nat.sub_diag.
      destruct (n - i) eqn:En; [lia|]. reflexivity. }
    assert (Hlo : Z.to_nat (Z.max 0 (- (Z.of_nat i - Z.of_nat (bm1 B)))) = row_lo B i)
      by (unfold row_lo; lia).
    assert (Hhi : Z.to_nat (Z.min (Z.of_nat (bm1 B) + Z.of_nat (bm2 B) + 1)
                              (Z.of_nat n - (Z.of_nat i - Z.of_nat (bm1 B)))) = row_lo B i + row_cnt B i)
      by (unfold row_lo, row_cnt; fold n; lia).
    rewrite Hlo, Hhi. unfold for_.
    replace (row_lo B i + row_cnt B i - row_lo B i) with (row_cnt B i) by lia.
    rewrite (acc_loop i (row_term B v i)).
    + eexists; split; [reflexivity|].
      rewrite Hnth, acc_from_sum. fold (band_row B v i).
      unfold r0. destruct (n - i) as [|d] eqn:En; [lia|]. cbn [repeat].
      rewrite (upd_list_app_mid' _ _ _ _ i Hlen1).
      rewrite seq_S, map_app. cbn [map]. rewrite <- app_assoc. cbn [app].
      replace (n - S i) with d by lia. reflexivity.
    + lia.
    + intros s r' Hs Hr'.
      assert (Hs' : s < bm1 B + bm2 B + 1) by (unfold row_lo, row_cnt in Hs; fold n in Hs; lia).
      rewrite (rd_ok r' i zero) by auto. cbn [bind].
      rewrite Proofs.Banded.mget_ok by (auto; lia). cbn [bind].
      assert (Hcol : Z.to_nat (Z.of_nat s + (Z.of_nat i - Z.of_nat (bm1 B))) = s + i - bm1 B)
        by (unfold row_lo in Hs; lia).
      rewrite Hcol.
      rewrite (rd_ok v (s + i - bm1 B) zero).
      2:{ rewrite Hv. unfold row_lo, row_cnt in Hs. fold n in Hs. lia. }
      cbn [bind]. rewrite upd_ok by auto. reflexivity.
  - rewrite E. f_equal. rewrite Hr, Nat.sub_diag. cbn. now rewrite app_nil_r.
Qed.

Lemma row_cnt_le_bandwidth (B : banded) i : row_cnt B i <= bm1 B + bm2 B + 1.
Proof. unfold row_cnt. lia. Qed.

Lemma band_mul_Ok_rows (B : banded) (v w : list T) : wfB B -> band_mul B v = Ok w ->
  length v = bn B /\ length w = bn B /\ forall i, i < bn B -> nth i w zero = band_row B v i.
Proof.
  intros Hwf E.
  assert (Lv : length v = bn B).
  { unfold band_mul in E. match type of E with (if negb ?c then _ else _) = _ => destruct c eqn:G end;
      cbn [negb] in E; [|discriminate]. apply Nat.eqb_eq in G. symmetry. exact G. }
  rewrite (band_mul_rows B v Hwf Lv) in E. injection E as <-.
  split; [exact Lv|]. split; [now rewrite map_length, seq_length|].
  intros i Hi. rewrite (nth_indep _ zero (band_row B v 0)) by (rewrite map_length, seq_length; exact Hi).
  rewrite (map_nth (band_row B v) (seq 0 (bn B)) 0 i). now rewrite seq_nth.
Qed.

End BandRows.

(* ================================================================ 2. the standard model *)
Local Open Scope R_scope.

Section RoundBanded.
Variable u : R.
Hypothesis u_range : 0 <= u < 1.
Variables fadd fsub fmul fdiv : R -> R -> R.
Hypothesis fadd_ok : forall x y, exists d, Rabs d <= u /\ fadd x y = (x + y) * (1 + d).
Hypothesis fmul_ok : forall x y, exists d, Rabs d <= u /\ fmul x y = x * y * (1 + d).
Hypothesis fadd_0_mul : forall a b, fadd 0 (fmul a b) = fmul a b.

Notation AR := (ARm fadd fsub fmul fdiv).
Notation gam := (gam u).

(* the k-th in-matrix entry of row i (slot row_lo + k, i.e. column k + (i - m1)) and the vector entry it multiplies *)
Definition bslot (B : banded AR) (i k : nat) : R := cslot (A := AR) B i (row_lo B i + k).
Definition bcol (B : banded AR) (i k : nat) : nat := (row_lo B i + k + i - bm1 B)%nat.

Theorem band_mul_backward_error_lemma (B : banded AR) (v w : list R) :
  wfB B -> band_mul B v = Ok w ->
  length w = bn B /\
  forall i, (i < bn B)%nat -> INR (row_cnt B i) * u < 1 ->
    exists th : nat -> R,
      (forall k, (k < row_cnt B i)%nat -> Rabs (th k) <= gam (row_cnt B i)) /\
      nth i w 0 = Rsum (row_cnt B i) (fun k => bslot B i k * (1 + th k) * nth (bcol B i k) v 0).
Proof using u_range fadd_ok fmul_ok fadd_0_mul.
  intros Hwf E. destruct (band_mul_Ok_rows (A := AR) B v w Hwf E) as (Lv & Lw & Hrow). split; [exact Lw|].
  intros i Hi Hn.
  assert (Ei : nth i w 0 = sum_n (A := AR) (row_cnt B i) (fun k => fmul (bslot B i k) (nth (bcol B i k) v 0)))
    by exact (Hrow i Hi).
  destruct (sum_prod_round u u_range fadd fsub fmul fdiv fadd_ok fmul_ok fadd_0_mul (row_cnt B i)
              (fun k => bslot B i k) (fun k => nth (bcol B i k) v 0)) as (W & HW & EW).
  exists (fun k => W k - 1). split.
  - intros k Hk. apply (bnd_gam u u_range); [now apply HW|exact Hn].
  - etransitivity; [exact Ei|]. etransitivity; [exact EW|]. apply Rsum_ext. intros k Hk. ring.
Qed.

Theorem band_mul_forward_error_lemma (B : banded AR) (v w : list R) :
  wfB B -> band_mul B v = Ok w ->
  forall i, (i < bn B)%nat -> INR (row_cnt B i) * u < 1 ->
    Rabs (nth i w 0 - Rsum (row_cnt B i) (fun k => bslot B i k * nth (bcol B i k) v 0))
      <= gam (row_cnt B i) * Rsum (row_cnt B i) (fun k => Rabs (bslot B i k) * Rabs (nth (bcol B i k) v 0)).
Proof using u_range fadd_ok fmul_ok fadd_0_mul.
  intros Hwf E i Hi Hn. destruct (band_mul_backward_error_lemma B v w Hwf E) as (_ & H).
  destruct (H i Hi Hn) as (th & Hth & ->). rewrite <- Rsum_minus.
  rewrite (Rsum_ext _ _ (fun k => (bslot B i k * nth (bcol B i k) v 0) * th k)) by (intros; ring).
  eapply Rle_trans; [apply Rsum_pert_le; exact Hth|].
  apply Rmult_le_compat_l; [now apply (gam_nonneg u u_range)|].
  apply Req_le, Rsum_ext. intros k Hk. apply Rabs_mult.
Qed.

End RoundBanded.

(* ================================================================ 3. the primitive floats *)
Definition fbslot (B : banded AF) (i k : nat) : R := FR (cslot (A := AF) B i (row_lo B i + k)).
Definition fbcol (B : banded AF) (i k : nat) : nat := (row_lo B i + k + i - bm1 B)%nat.

Theorem band_mul_backward_error_float_lemma (B : banded AF) (v w : list pfloat) :
  wfB B -> band_mul (A := AF) B v = Ok w ->
  length w = bn B /\
  forall i, (i < bn B)%nat -> ffinite (nth i w 0%float) ->
    (forall k, (k < row_cnt B i)%nat -> no_underflow (fbslot B i k * FR (nth (fbcol B i k) v 0%float))) ->
    INR (row_cnt B i) * u64 < 1 ->
    exists th : nat -> R,
      (forall k, (k < row_cnt B i)%nat -> Rabs (th k) <= g64 (row_cnt B i)) /\
      FR (nth i w 0%float) = Rsum (row_cnt B i) (fun k => fbslot B i k * (1 + th k) * FR (nth (fbcol B i k) v 0%float)).
Proof.
  intros Hwf E. destruct (band_mul_Ok_rows (A := AF) B v w Hwf E) as (Lv & Lw & Hrow). split; [exact Lw|].
  intros i Hi Fi Hu Hn.
  assert (Ei : nth i w 0%float
               = sum_n (A := AF) (row_cnt B i)
                   (fun k => (cslot (A := AF) B i (row_lo B i + k) * nth (fbcol B i k) v 0%float)%float))
    by exact (Hrow i Hi).
  rewrite Ei in Fi |- *.
  pose proof (sum_n_float_transfer (row_cnt B i) (fun k => cslot (A := AF) B i (row_lo B i + k))
                (fun k => nth (fbcol B i k) v 0%float) Fi Hu) as ET.
  destruct (sum_prod_round u64 u64_range Fadd Fsub Fmul Fdiv Fadd_ok Fmul_ok Fadd_0_mul (row_cnt B i)
              (fun k => fbslot B i k) (fun k => FR (nth (fbcol B i k) v 0%float))) as (W & HW & EW).
  exists (fun k => W k - 1). split.
  - intros k Hk. apply (bnd_gam u64 u64_range); [now apply HW|exact Hn].
  - etransitivity; [exact ET|]. etransitivity; [exact EW|]. apply Rsum_ext. intros k Hk. ring.
Qed.
