(* Proofs/SrcEqCanon.v -- the canonicalisations of driver/rust2coq.py (round four, header items C1, C2, C3, C7) as THEOREMS about
   the loop combinators: the term the translator now emits for a counter `while` (a `for_` / `for_ret` / `for_rev`) equals the
   term the table-driven translation of the same `while` would have been (while_ret with a state that carries the counter),
   for every body, every state and every fuel that suffices.  Nothing here mentions a particular function of the crate: the
   side conditions of the translator (the body does not assign the counter; the bound is invariant) are what makes the body a
   function `nat -> S -> res ..` of the counter value and the bound a constant `hi`. *)
From Coq Require Import List Arith ZArith Lia Bool.
From OV Require Import Base.Panic gen.SrcPrelude.
Import ListNotations.

Section Canon.
Context {S R : Type}.

(* ------------------------------------------------------------------ C1, first form:  while i < hi { BODY; i += 1; } *)
Definition while_up_body (hi : nat) (body : nat -> S -> res (S + R)) (st : nat * S) : res (wout (nat * S) R) :=
  let '(i, s) := st in
  if i <? hi
  then let* o := body i s in
       Ok (match o with inl s' => WNext (Datatypes.S i, s') | inr r => WRet r end)
  else Ok (WDone (i, s)).

Lemma counter_up_while_is_for_ret (hi : nat) (body : nat -> S -> res (S + R)) :
  forall fuel lo s, hi - lo < fuel ->
  while_ret fuel (while_up_body hi body) (lo, s)
  = let* o := for_ret lo hi body s in
    Ok (Some (match o with inl s' => inl (Nat.max lo hi, s') | inr r => inr r end)).
Proof.
  induction fuel as [|f IH]; intros lo s Hf; [lia|].
  cbn [while_ret]. unfold while_up_body at 1. unfold for_ret.
  destruct (Nat.ltb_spec lo hi) as [L|L].
  - replace (hi - lo) with (Datatypes.S (hi - Datatypes.S lo)) by lia. cbn [for_ret_from].
    rewrite !bind_assoc. destruct (body lo s) as [[s'|r]|k]; cbn [bind]; [|reflexivity|reflexivity].
    rewrite IH by lia. unfold for_ret.
    replace (Nat.max (Datatypes.S lo) hi) with (Nat.max lo hi) by lia. reflexivity.
  - replace (hi - lo) with 0 by lia. cbn [for_ret_from bind].
    replace (Nat.max lo hi) with lo by lia. reflexivity.
Qed.
End Canon.

Section Canon2.
Context {S : Type}.

(* the same without an early return: the body answers a state *)
Definition while_up_body0 (hi : nat) (body : nat -> S -> res S) (st : nat * S) : res (wout (nat * S) unit) :=
  let '(i, s) := st in
  if i <? hi then let* s' := body i s in Ok (WNext (Datatypes.S i, s')) else Ok (WDone (i, s)).

Lemma counter_up_while_is_for (hi : nat) (body : nat -> S -> res S) :
  forall fuel lo s, hi - lo < fuel ->
  while_ret fuel (while_up_body0 hi body) (lo, s)
  = let* s' := for_ lo hi body s in Ok (Some (inl (Nat.max lo hi, s'))).
Proof.
  induction fuel as [|f IH]; intros lo s Hf; [lia|].
  cbn [while_ret]. unfold while_up_body0 at 1. unfold for_.
  destruct (Nat.ltb_spec lo hi) as [L|L].
  - replace (hi - lo) with (Datatypes.S (hi - Datatypes.S lo)) by lia. cbn [for_from].
    rewrite !bind_assoc. destruct (body lo s) as [s'|k]; cbn [bind]; [|reflexivity].
    rewrite IH by lia. unfold for_.
    replace (Nat.max (Datatypes.S lo) hi) with (Nat.max lo hi) by lia. reflexivity.
  - replace (hi - lo) with 0 by lia. cbn [for_from bind].
    replace (Nat.max lo hi) with lo by lia. reflexivity.
Qed.

(* C1, second form:  while i < hi { i += 1; BODY }  -- BODY sees the incremented counter *)
Definition while_up1_body (hi : nat) (body : nat -> S -> res S) (st : nat * S) : res (wout (nat * S) unit) :=
  let '(i, s) := st in
  if i <? hi then let i1 := (i + 1)%nat in let* s' := body i1 s in Ok (WNext (i1, s')) else Ok (WDone (i, s)).

Lemma counter_up1_while_is_for (hi : nat) (body : nat -> S -> res S) :
  forall fuel lo s, hi - lo < fuel ->
  while_ret fuel (while_up1_body hi body) (lo, s)
  = let* s' := for_ lo hi (fun k s => let i1 := (k + 1)%nat in body i1 s) s in Ok (Some (inl (Nat.max lo hi, s'))).
Proof.
  intros fuel lo s Hf.
  rewrite <- (counter_up_while_is_for hi (fun k s => let i1 := (k + 1)%nat in body i1 s) fuel lo s Hf).
  clear Hf. revert lo s. induction fuel as [|f IH]; intros lo s; [reflexivity|].
  cbn [while_ret]. unfold while_up1_body at 1, while_up_body0 at 1. cbv zeta.
  destruct (lo <? hi); cbn [bind]; [|reflexivity].
  rewrite !bind_assoc. destruct (body (lo + 1) s) as [s'|k]; cbn [bind]; [|reflexivity].
  replace (lo + 1) with (Datatypes.S lo) by lia. apply IH.
Qed.

(* ------------------------------------------------------------------ C1, third form:  while i > lo { i -= 1; BODY } *)
Definition while_down_body (lo : nat) (body : nat -> S -> res S) (st : nat * S) : res (wout (nat * S) unit) :=
  let '(i, s) := st in
  if lo <? i
  then let* i' := usub i 1 in let* s' := body i' s in Ok (WNext (i', s'))
  else Ok (WDone (i, s)).

Lemma counter_down_while_is_for_rev (lo : nat) (body : nat -> S -> res S) :
  forall fuel hi s, hi - lo < fuel ->
  while_ret fuel (while_down_body lo body) (hi, s)
  = let* s' := for_rev lo hi body s in Ok (Some (inl (Nat.min hi lo, s'))).
Proof.
  induction fuel as [|f IH]; intros hi s Hf; [lia|].
  cbn [while_ret]. unfold while_down_body at 1. unfold for_rev.
  destruct (Nat.ltb_spec lo hi) as [L|L].
  - replace (hi - lo) with (Datatypes.S (hi - 1 - lo)) by lia. cbn [for_rev_from].
    unfold usub. replace (1 <=? hi) with true by (symmetry; apply Nat.leb_le; lia). cbn [bind].
    replace (lo + (hi - 1 - lo)) with (hi - 1) by lia.
    rewrite !bind_assoc. destruct (body (hi - 1) s) as [s'|k]; cbn [bind]; [|reflexivity].
    rewrite IH by lia. unfold for_rev.
    replace (Nat.min (hi - 1) lo) with (Nat.min hi lo) by lia. reflexivity.
  - replace (hi - lo) with 0 by lia. cbn [for_rev_from bind].
    replace (Nat.min hi lo) with hi by lia. reflexivity.
Qed.

(* ------------------------------------------------------------------ C2:  for k in 0..n { let i = n - 1 - k; BODY } *)
Lemma countdown_for_from (n : nat) (body : nat -> S -> res S) :
  forall m lo s, lo + m = n ->
  for_from m lo (fun k s => let* a := usub n 1 in let* i := usub a k in body i s) s = for_rev_from m 0 body s.
Proof.
  induction m as [|m IH]; intros lo s E; [reflexivity|].
  cbn [for_from for_rev_from]. unfold usub at 1 2.
  replace (1 <=? n) with true by (symmetry; apply Nat.leb_le; lia). cbn [bind].
  replace (lo <=? n - 1) with true by (symmetry; apply Nat.leb_le; lia). cbn [bind].
  replace (n - 1 - lo) with (0 + m) by lia.
  destruct (body (0 + m) s) as [s'|k]; cbn [bind]; [|reflexivity].
  apply IH. lia.
Qed.

Lemma countdown_for_is_for_rev (n : nat) (body : nat -> S -> res S) (s : S) :
  for_ 0 n (fun k s => let* a := usub n 1 in let* i := usub a k in body i s) s = for_rev 0 n body s.
Proof. unfold for_, for_rev. rewrite Nat.sub_0_r. apply countdown_for_from. lia. Qed.
End Canon2.

(* ------------------------------------------------------------------ C7: negation normal form on nat comparisons *)
Lemma nnf_ltb (a b : nat) : negb (a <? b) = (b <=? a).
Proof. rewrite Nat.leb_antisym. reflexivity. Qed.
Lemma nnf_leb (a b : nat) : negb (a <=? b) = (b <? a).
Proof. rewrite Nat.ltb_antisym. reflexivity. Qed.
Lemma nnf_eqb (a b : nat) : negb (negb (a =? b)) = (a =? b).
Proof. apply negb_involutive. Qed.
Lemma nnf_andb (x y : bool) : negb (x && y) = negb x || negb y.
Proof. apply negb_andb. Qed.
Lemma nnf_orb (x y : bool) : negb (x || y) = negb x && negb y.
Proof. apply negb_orb. Qed.

(* ------------------------------------------------------------------ invariance of the bounds under element writes *)
Lemma upd_keeps_length {X} (l l' : list X) i x : upd l i x = Ok l' -> length l' = length l.
Proof.
  unfold upd. destruct (i <? length l); [|discriminate]. intros E; injection E as <-. apply upd_list_length.
Qed.

From OV Require Import Base.Arith Model.Matrix.
Lemma mset_keeps_shape {A : Arith} (m m' : matrix A) i j (x : T A) :
  mset m i j x = Ok m' -> rows m' = rows m /\ cols m' = cols m /\ length (buf m') = length (buf m).
Proof.
  unfold mset. destruct (upd (buf m) (i * cols m + j) x) as [b|k] eqn:E; cbn [bind]; [|discriminate].
  intros E'; injection E' as <-. cbn [rows cols buf]. repeat split. eapply upd_keeps_length; eauto.
Qed.
