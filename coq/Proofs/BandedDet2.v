(* Proofs/BandedDet2.v -- band_det is the determinant of the dense twin, relative to ANY function [Det] on
   n x n tables that has the three textbook properties of a determinant which the elimination uses:
     Det_ext    it depends on the entries i, j < n only;
     Det_stage  exchanging the rows k and p (k <= p) and then subtracting multiples m_i of the new row k from
                rows i > k multiplies it by -1 if p <> k, by 1 otherwise;
     Det_upper  on an upper triangular table it is the product of the diagonal.
   (Bridge/BandDet.v shows that mathcomp's \det has them, over every field.)
   Stage invariant (the one of Proofs/BandedLU.v, read entry by entry instead of against a vector x): at the
   start of stage k the work matrix au, row i read at its alignment column c_of m1 k i, is an n x n table
   [full au mm m1 k]; stage k exchanges two rows of this table and subtracts multiples of row k from the window
   rows (the slot that drops out on the left is a_i0 - (a_i0/a_k0) a_k0 = 0).  The table of stage 0 is the dense
   twin, the table of stage n is upper triangular with the pivots au[i,0] on its diagonal, and the sign variable
   d changes sign exactly at the exchanges. *)
From Coq Require Import List Arith Lia ZArith Bool Ring_theory Ring Field_theory Field.
From OV Require Import Base.Panic Base.Arith Model.Vector Model.Matrix Model.Banded
                       Proofs.Banded Proofs.BandedLU Proofs.BandedTotal Proofs.BandedComplete Proofs.BandedDet.
Import ListNotations.
Local Open Scope nat_scope.

Section Det2.
Context {A : Arith}.
Notation T := (T A).
Notation matrix := (matrix A).
Notation banded := (banded A).
Variable FL : FieldLaws A.
Let RL : RingLaws A := RingLaws_of_Field FL.
Add Field AFld5 : (fl_field A FL).
Notation inv := (fl_inv A FL).

(* product of f 0 .. f (n-1), in the order of the loop of det *)
Fixpoint pivprod (n : nat) (f : nat -> T) : T :=
  match n with 0 => one | S m => mul (pivprod m f) (f m) end.

Lemma pivprod_ext n (f g : nat -> T) : (forall i, i < n -> f i = g i) -> pivprod n f = pivprod n g.
Proof.
  induction n as [|n IH]; intros H; [reflexivity|]. cbn [pivprod]. rewrite IH by (intros; apply H; lia).
  now rewrite H by lia.
Qed.

(* the work matrix as an n x n table: row i covers the columns c .. c+mm-1, c its alignment column at stage k *)
Definition full (au : matrix) (mm m1 k i j : nat) : T :=
  if (c_of m1 k i <=? j) && (j <? c_of m1 k i + mm) then mat_at au mm i (j - c_of m1 k i) else zero.

(* ---- the product loop of det computes d * (product of the slots (i,0)) ---- *)
Lemma det_loop_value n mm (au : matrix) (d dd : T) :
  cols au = mm ->
  for_ 0 n (fun i dd => let* a := mget au i 0 in Ok (mul dd a)) d = Ok dd ->
  dd = mul d (pivprod n (fun i => mat_at au mm i 0)).
Proof.
  intros Hc H.
  refine (for_inv_partial (fun k (x : T) => x = mul d (pivprod k (fun i => mat_at au mm i 0)))
            0 n _ d dd (Nat.le_0_l _) _ _ H).
  - cbn. ring.
  - intros k x x1 Hk -> E. apply bind_ok in E as (a & Ea & E).
    apply (mget_Ok_inv _ mm) in Ea as (-> & _); auto.
    injection E as <-. cbn [pivprod]. ring.
Qed.

(* ---- the sign variable and the exchange index of one stage ---- *)
Lemma dec_step_d_index n mm k (au al : matrix) (index : list nat) (d : T) l
      (au' al' : matrix) (index' : list nat) (d' : T) l' :
  dec_step false n mm k (au, al, index, d, l) = Ok (au', al', index', d', l') ->
  exists p, k < length index /\ index' = upd_list index k (p + 1) /\ d' = if p =? k then d else neg d.
Proof.
  intros H. unfold dec_step in H.
  apply bind_ok in H as ([dum p] & _ & H). apply bind_ok in H as (index1 & Ei & H).
  apply upd_Ok_inv in Ei as (Hk & ->).
  apply bind_ok in H as (au1 & _ & H). apply bind_ok in H as ([au2 d2] & E2 & H).
  apply bind_ok in H as ([au3 al3] & _ & H). injection H as <- <- <- <- <-.
  exists p. split; auto. split; auto.
  destruct (Nat.eqb_spec p k) as [->|Hpk]; cbn [negb] in E2.
  - now injection E2 as <- <-.
  - apply bind_ok in E2 as (a & _ & E2). now injection E2 as <- <-.
Qed.

(* the multiplier column of stage k: zero outside the window *)
Definition mvec (a2 : nat -> nat -> T) (k l' i : nat) : T :=
  if (k <? i) && (i <? l') then mult_f FL a2 k i else zero.

Lemma swp_k k p : swp k p k = p.
Proof. unfold swp. now rewrite Nat.eqb_refl. Qed.

Lemma swp_out k p i : i <> k -> i <> p -> swp k p i = i.
Proof. intros H1 H2. unfold swp. destruct (Nat.eqb_spec i k); [congruence|]. destruct (Nat.eqb_spec i p); congruence. Qed.

Lemma c_of_win m1 k r : k <= r <= k + m1 -> c_of m1 k r = k.
Proof. intros H. unfold c_of. destruct (Nat.ltb_spec r k); [lia|]. destruct (Nat.ltb_spec r (k + m1)); lia. Qed.

Lemma c_of_low m1 k r : r < k -> c_of m1 k r = r.
Proof. intros H. unfold c_of. destruct (Nat.ltb_spec r k); lia. Qed.

Lemma c_of_high m1 k r : k + m1 <= r -> c_of m1 k r = r - m1.
Proof. intros H. unfold c_of. destruct (Nat.ltb_spec r k); [lia|]. destruct (Nat.ltb_spec r (k + m1)); lia. Qed.

(* ---- one stage with a nonzero pivot, entry by entry ---- *)
Lemma stage_full n mm m1 k p l' (au au' : matrix) :
  1 <= mm -> k < n -> l' = Nat.min (k + 1 + m1) n -> (p = k \/ (k < p /\ p < l')) ->
  let a2 := fun i s => mat_at au mm (swp k p i) s in
  a2 k 0 <> zero ->
  (forall i s, s < mm -> mat_at au' mm i s = if (k <? i) && (i <? l') then elim_f FL a2 mm k i s else a2 i s) ->
  forall i j, i < n -> j < n ->
    full au' mm m1 (k + 1) i j =
    sub (full au mm m1 k (swp k p i) j) (mul (mvec a2 k l' i) (full au mm m1 k p j)).
Proof.
  intros Hmm Hkn Hl' Hp a2 Hk0 Hau' i j Hi Hj.
  assert (Hcp : c_of m1 k p = k) by (apply c_of_win; lia).
  unfold full, mvec. rewrite Hcp.
  destruct (Nat.lt_ge_cases i k) as [Hlt|Hge]; [|destruct (Nat.eq_dec i k) as [->|Hne];
    [|destruct (Nat.lt_ge_cases i l') as [Hin|Hout]]].
  - (* finished rows *)
    rewrite swp_out by lia. rewrite !c_of_low by lia.
    replace (k <? i) with false by (symmetry; apply Nat.ltb_ge; lia). cbn [andb].
    destruct ((i <=? j) && (j <? i + mm)) eqn:Ec.
    + apply andb_true_iff in Ec as (E1 & E2). apply Nat.leb_le in E1. apply Nat.ltb_lt in E2.
      rewrite Hau' by lia. replace (k <? i) with false by (symmetry; apply Nat.ltb_ge; lia). cbn [andb].
      unfold a2. rewrite swp_out by lia. ring.
    + ring.
  - (* the pivot row *)
    rewrite swp_k, Hcp. rewrite c_of_low by lia. rewrite Nat.ltb_irrefl. cbn [andb].
    destruct ((k <=? j) && (j <? k + mm)) eqn:Ec.
    + apply andb_true_iff in Ec as (E1 & E2). apply Nat.leb_le in E1. apply Nat.ltb_lt in E2.
      rewrite Hau' by lia. rewrite Nat.ltb_irrefl. cbn [andb]. unfold a2. rewrite swp_k. ring.
    + ring.
  - (* rows of the window *)
    assert (Hwin : (k <? i) && (i <? l') = true) by (apply andb_true_iff; split; apply Nat.ltb_lt; lia).
    rewrite Hwin.
    assert (Hcr : c_of m1 k (swp k p i) = k).
    { apply c_of_win. unfold swp. destruct (Nat.eqb_spec i k); [lia|]. destruct (Nat.eqb_spec i p); lia. }
    rewrite Hcr. rewrite (c_of_win m1 (k + 1) i) by lia.
    change (mat_at au mm (swp k p i)) with (a2 i).
    replace (mat_at au mm p) with (a2 k) by (unfold a2; now rewrite swp_k).
    destruct (Nat.lt_ge_cases j k) as [Hjk|Hjk].
    { replace (k + 1 <=? j) with false by (symmetry; apply Nat.leb_gt; lia).
      replace (k <=? j) with false by (symmetry; apply Nat.leb_gt; lia). cbn [andb]. ring. }
    destruct (Nat.eq_dec j k) as [->|Hjne].
    { replace (k + 1 <=? k) with false by (symmetry; apply Nat.leb_gt; lia).
      rewrite Nat.leb_refl. replace (k <? k + mm) with true by (symmetry; apply Nat.ltb_lt; lia).
      cbn [andb]. rewrite Nat.sub_diag. unfold mult_f. rewrite (neq_eqb_false FL _ _ Hk0).
      field. exact Hk0. }
    replace (k + 1 <=? j) with true by (symmetry; apply Nat.leb_le; lia).
    replace (k <=? j) with true by (symmetry; apply Nat.leb_le; lia). cbn [andb].
    destruct (Nat.ltb_spec j (k + mm)) as [Hjm|Hjm].
    + replace (j <? k + 1 + mm) with true by (symmetry; apply Nat.ltb_lt; lia).
      rewrite Hau' by lia. rewrite Hwin. unfold elim_f.
      replace (j - (k + 1) <? mm - 1) with true by (symmetry; apply Nat.ltb_lt; lia).
      replace (j - (k + 1) + 1) with (j - k) by lia. reflexivity.
    + destruct (Nat.ltb_spec j (k + 1 + mm)) as [Hjm'|Hjm'].
      * rewrite Hau' by lia. rewrite Hwin. unfold elim_f.
        replace (j - (k + 1) <? mm - 1) with false by (symmetry; apply Nat.ltb_ge; lia). ring.
      * ring.
  - (* rows not yet reached *)
    rewrite swp_out by lia. rewrite !c_of_high by lia.
    replace (i <? l') with false by (symmetry; apply Nat.ltb_ge; lia). rewrite andb_false_r.
    destruct ((i - m1 <=? j) && (j <? i - m1 + mm)) eqn:Ec.
    + apply andb_true_iff in Ec as (E1 & E2). apply Nat.leb_le in E1. apply Nat.ltb_lt in E2.
      rewrite Hau' by lia. replace (i <? l') with false by (symmetry; apply Nat.ltb_ge; lia).
      rewrite andb_false_r. unfold a2. rewrite swp_out by lia. ring.
    + ring.
Qed.

(* ---- the table of stage 0 is the dense twin ---- *)
Lemma full_init (B : banded) (au0 : matrix) i j :
  i < bn B -> j < bn B ->
  (forall r s, s < bm1 B + bm2 B + 1 ->
     mat_at au0 (bm1 B + bm2 B + 1) r s = shifted (compact B) (bm1 B + bm2 B + 1) (bm1 B) r s) ->
  full au0 (bm1 B + bm2 B + 1) (bm1 B) 0 i j = dense_entry B i j.
Proof.
  intros Hi Hj Hau0. unfold full, dense_entry, in_band, out_of_band, cslot, band_slot.
  set (m1 := bm1 B) in *. set (m2 := bm2 B) in *. set (mm := m1 + m2 + 1) in *.
  destruct (Nat.lt_ge_cases i m1) as [Hlt|Hge].
  - rewrite (c_of_win m1 0 i) by lia. cbn [Nat.add]. rewrite Nat.sub_0_r.
    replace (0 <=? j) with true by reflexivity. cbn [andb].
    replace (j + m1 <? i) with false by (symmetry; apply Nat.ltb_ge; lia). rewrite orb_false_r.
    destruct (Nat.ltb_spec j mm) as [Hjm|Hjm].
    + rewrite Hau0 by auto. unfold shifted. replace (i <? m1) with true by (symmetry; apply Nat.ltb_lt; lia).
      destruct (Nat.ltb_spec j (mm - (m1 - i))); destruct (Nat.ltb_spec (i + m2) j); cbn [negb]; try (unfold mm in *; lia); auto.
      unfold mat_at. f_equal. lia.
    + replace (i + m2 <? j) with true by (symmetry; apply Nat.ltb_lt; unfold mm in *; lia). reflexivity.
  - rewrite (c_of_high m1 0 i) by lia.
    destruct (Nat.leb_spec (i - m1) j) as [Hlo|Hlo]; cbn [andb].
    + replace (j + m1 <? i) with false by (symmetry; apply Nat.ltb_ge; lia). rewrite orb_false_r.
      destruct (Nat.ltb_spec j (i - m1 + mm)); destruct (Nat.ltb_spec (i + m2) j); cbn [negb]; try (unfold mm in *; lia); auto.
      rewrite Hau0 by lia. unfold shifted. replace (i <? m1) with false by (symmetry; apply Nat.ltb_ge; lia).
      unfold mat_at. f_equal. lia.
    + replace (j + m1 <? i) with true by (symmetry; apply Nat.ltb_lt; lia). rewrite orb_true_r. reflexivity.
Qed.

(* ---- the table of stage n is upper triangular, with the pivots on the diagonal ---- *)
Lemma full_final n mm m1 (au : matrix) i j :
  1 <= mm -> i < n -> (j < i -> full au mm m1 n i j = zero) /\ full au mm m1 n i i = mat_at au mm i 0.
Proof.
  intros Hmm Hi. unfold full. rewrite c_of_low by lia. split.
  - intros Hji. replace (i <=? j) with false by (symmetry; apply Nat.leb_gt; lia). reflexivity.
  - rewrite Nat.leb_refl. replace (i <? i + mm) with true by (symmetry; apply Nat.ltb_lt; lia).
    cbn [andb]. now rewrite Nat.sub_diag.
Qed.

(* ------------------------------------------------------------------ relative to an abstract determinant *)
Section Abs.
Variable B : banded.
Variable Det : (nat -> nat -> T) -> T.
Hypothesis Det_ext : forall f g : nat -> nat -> T,
  (forall i j, i < bn B -> j < bn B -> f i j = g i j) -> Det f = Det g.
Hypothesis Det_stage : forall (f : nat -> nat -> T) (k p : nat) (m : nat -> T),
  k < bn B -> p < bn B -> k <= p -> (forall i, i <= k -> m i = zero) ->
  Det (fun i j => sub (f (swp k p i) j) (mul (m i) (f p j))) = if p =? k then Det f else neg (Det f).
Hypothesis Det_upper : forall f : nat -> nat -> T,
  (forall i j, i < bn B -> j < i -> f i j = zero) -> Det f = pivprod (bn B) (fun i => f i i).

Notation n := (bn B).

(* all the stages k .. n-1: d * Det(table) is invariant as long as the pivots are nonzero *)
Lemma dec_det mm m1 : 1 <= mm -> m1 <= n ->
  forall rem k (au al : matrix) (index : list nat) (d : T) (auN alN : matrix) (indexN : list nat) (dN : T) lN,
  k + rem = n -> cols au = mm -> cols al = m1 ->
  for_from rem k (dec_step false n mm) (au, al, index, d, Nat.min (k + m1) n) = Ok (auN, alN, indexN, dN, lN) ->
  (forall i, k <= i < n -> mat_at auN mm i 0 <> zero) ->
  mul d (Det (full au mm m1 k)) = mul dN (Det (full auN mm m1 n)).
Proof.
  intros Hmm Hm1. induction rem as [|rem IH];
    intros k au al index d auN alN indexN dN lN Hk Hc Hcl Hdec Hpiv.
  - cbn in Hdec. injection Hdec as <- <- <- <- <-. now replace k with n by lia.
  - cbn [for_from] in Hdec.
    apply bind_ok in Hdec as ([[[[au1 al1] index1] d1] l1] & E1 & Hdec).
    assert (Hln : lnext n (Nat.min (k + m1) n) <= k + 1 + m1) by (rewrite lnext_min by auto; lia).
    pose proof (dec_step_frame FL n mm m1 k _ _ _ _ _ _ _ _ _ _ Hc Hcl Hmm Hln E1) as (Hc1 & Hcl1 & Hl1 & _).
    rewrite lnext_min in Hl1 by auto. subst l1.
    pose proof (dec_loop_frame FL n mm m1 rem (S k) (au1, al1, index1, d1, Nat.min (k + 1 + m1) n)
                  (auN, alN, indexN, dN, lN)) as HF.
    cbn beta iota in HF. cbn [fst snd] in HF.
    specialize (HF Hc1 Hcl1 Hmm).
    replace (S k + m1) with (k + 1 + m1) in HF by lia. specialize (HF eq_refl Hm1 Hdec).
    destruct HF as (HcN & HclN & _ & HauN & _ & _).
    assert (Hpk : mat_at au1 mm k 0 <> zero).
    { rewrite <- HauN by lia. apply Hpiv. lia. }
    destruct (dec_step_Ok_inv FL n mm m1 k _ _ _ _ _ _ _ _ _ _ Hc Hcl Hmm Hln E1 Hpk)
      as (p & Hp & _ & _ & _ & Hki & Hix1 & Ha2 & Hau1 & _).
    cbn zeta in Ha2, Hau1.
    destruct (dec_step_d_index _ _ _ _ _ _ _ _ _ _ _ _ _ E1) as (p' & _ & Hix1' & Hd1).
    assert (Hpp : p' = p).
    { assert (E : nth k (upd_list index k (p' + 1)) 0 = nth k (upd_list index k (p + 1)) 0) by congruence.
      rewrite !nth_upd_list, Nat.eqb_refl in E by auto. lia. }
    subst p'.
    (* induction hypothesis for the stages after k *)
    assert (Hnext : mul d1 (Det (full au1 mm m1 (S k))) = mul dN (Det (full auN mm m1 n))).
    { apply (IH (S k) au1 al1 index1 d1 auN alN indexN dN lN); auto; try lia.
      - now replace (S k + m1) with (k + 1 + m1) by lia.
      - intros i Hi. apply Hpiv. lia. }
    rewrite <- Hnext.
    set (a2 := fun i s => mat_at au mm (swp k p i) s) in *.
    assert (Hst : Det (full au1 mm m1 (S k)) =
                  Det (fun i j => sub (full au mm m1 k (swp k p i) j)
                                      (mul (mvec a2 k (Nat.min (k + 1 + m1) n) i) (full au mm m1 k p j)))).
    { apply Det_ext. intros i j Hi Hj. replace (S k) with (k + 1) by lia.
      apply (stage_full n mm m1 k p (Nat.min (k + 1 + m1) n) au au1); auto; lia. }
    rewrite Hst, (Det_stage (full au mm m1 k) k p).
    + rewrite Hd1. destruct (p =? k); ring.
    + lia.
    + lia.
    + lia.
    + intros i Hi. unfold mvec. replace (k <? i) with false by (symmetry; apply Nat.ltb_ge; lia). reflexivity.
Qed.

(* nonzero pivots: det is Det of the dense twin *)
Lemma band_det_nonsing (dd : T) (auN alN : matrix) (indexN : list nat) (dN : T) :
  wfB B -> bm1 B <= n ->
  band_det B = Ok dd ->
  decompose_gen false B (compact B) (mat_new n (bm1 B) zero) (repeat 0 n) = Ok (auN, alN, indexN, dN) ->
  (forall i, i < n -> mat_at auN (bm1 B + bm2 B + 1) i 0 <> zero) ->
  dd = Det (dense_entry B).
Proof.
  intros Hwf Hm1 Edet Edec Hpiv. pose proof Hwf as (_ & _ & Hcols).
  unfold band_det, band_det_gen in Edet. rewrite Edec in Edet. cbn [bind] in Edet.
  set (m1 := bm1 B) in *. set (mm := m1 + bm2 B + 1) in *.
  assert (Hmm : 1 <= mm) by (unfold mm; lia).
  unfold decompose_gen in Edec. fold m1 mm in Edec.
  apply bind_ok in Edec as (au0 & Eshift & Edec).
  apply bind_ok in Edec as ([[[[auN' alN'] indexN'] dN'] lN'] & Eloop & Edec). injection Edec as <- <- <- <-.
  apply (shift_rows_Ok_inv _ _ mm m1) in Eshift as (Hc0 & Hau0); auto; [|unfold mm; lia].
  unfold for_ in Eloop. rewrite Nat.sub_0_r in Eloop.
  assert (Hl0 : m1 = Nat.min (0 + m1) n) by lia.
  assert (Eloop' : for_from n 0 (dec_step false n mm)
                     (au0, mat_new n m1 zero, repeat 0 n, one, Nat.min (0 + m1) n) = Ok (auN', alN', indexN', dN', lN'))
    by (rewrite <- Hl0; exact Eloop).
  pose proof (dec_loop_frame FL n mm m1 n 0 (au0, mat_new n m1 zero, repeat 0 n, one, m1)
                (auN', alN', indexN', dN', lN')) as HF.
  cbn beta iota in HF. cbn [fst snd] in HF.
  specialize (HF Hc0 eq_refl Hmm Hl0 Hm1 Eloop). destruct HF as (HcN & _).
  pose proof (dec_det mm m1 Hmm Hm1 n 0 au0 (mat_new n m1 zero) (repeat 0 n) one auN' alN' indexN' dN' lN'
                eq_refl Hc0 eq_refl Eloop' (fun i Hi => Hpiv i (proj2 Hi))) as Hall.
  rewrite (det_loop_value n mm auN' dN' dd HcN Edet).
  rewrite (Det_ext (dense_entry B) (full au0 mm m1 0)).
  2:{ intros i j Hi Hj. symmetry. now apply full_init. }
  transitivity (mul one (Det (full au0 mm m1 0))); [|ring].
  rewrite Hall. f_equal. rewrite (Det_upper (full auN' mm m1 n)).
  - apply pivprod_ext. intros i Hi. symmetry. now apply (full_final n mm m1 auN' i i).
  - intros i j Hi Hji. now apply (full_final n mm m1 auN' i j).
Qed.

Variable PL : PivotLaws A.
Hypothesis Det_kernel : Det (dense_entry B) <> zero -> trivial_kernel B.

(* singular twins included: a zero pivot means a nontrivial kernel (Proofs/BandedComplete.v), hence Det = 0 = det *)
Lemma band_det_abs : wfB B -> bm1 B <= n -> band_det B = Ok (Det (dense_entry B)).
Proof.
  intros Hwf Hm1.
  destruct (band_det_pivots FL B Hwf Hm1) as (dd & auN & alN & indexN & dN & Edet & Edec & Hdd).
  rewrite Edet. f_equal.
  destruct (eqb dd zero) eqn:Ez.
  - apply (fl_eqb A FL) in Ez. subst dd.
    destruct (eqb (Det (dense_entry B)) zero) eqn:Ez2; [symmetry; now apply (fl_eqb A FL)|].
    exfalso. apply (eqb_false_neq FL) in Ez2.
    destruct (proj1 Hdd eq_refl) as (i & Hi & Hz).
    exact (decompose_pivots_nonzero FL PL B auN alN indexN dN Hwf Hm1 (Det_kernel Ez2) Edec i Hi Hz).
  - apply (eqb_false_neq FL) in Ez.
    apply (band_det_nonsing dd auN alN indexN dN); auto.
    intros i Hi Hz. apply Ez. apply Hdd. now exists i.
Qed.

End Abs.
End Det2.
