(* Proofs/GuardsModelNative.v -- C20, the 13 entry points that have NO explicit guard in the source and are protected
   by std's own bounds checks (`native` entries of driver/guardtable.py: there is no g_<entry>; the documented range
   is the table's `spec`).  On the model functions: outside the range the call panics natively -- Panic Index (Vec
   indexing / Vec::insert), Panic Unwrap (`pop().unwrap()` on an empty vector), or, through the guarded accessors the
   cross sections are built from, the Mesh2D range rejection -- and returns nothing; inside the range it returns; the
   writing ones change only what they address. *)
From Coq Require Import List Arith Lia Bool.
From OV Require Import Base.Panic Base.Arith Model.Vector Model.Matrix Model.Banded Model.Mesh
  Proofs.Matrix Proofs.Banded Proofs.MeshBase Proofs.MeshStore Proofs.GuardsModelMesh.
Import ListNotations.

Section NativeVec.
Context {A : Arith}.
Notation T := (T A).
Implicit Types v : list T.

(* Index / IndexMut of Vector *)
Lemma native_vec_index v i :
  (length v <= i -> vget v i = Panic Index) /\ (i < length v -> vget v i = Ok (nth i v zero)).
Proof. split; intros H; unfold vget; [now apply rd_panic | now apply rd_ok]. Qed.

Lemma native_vec_index_mut v i x :
  (length v <= i -> vset v i x = Panic Index) /\
  (i < length v -> exists v', vset v i x = Ok v' /\ length v' = length v /\ nth i v' zero = x /\
                              forall j, j <> i -> nth j v' zero = nth j v zero).
Proof.
  split; intros H; unfold vset, upd.
  - destruct (Nat.ltb_spec i (length v)); [lia|reflexivity].
  - destruct (Nat.ltb_spec i (length v)); [|lia]. eexists; split; [reflexivity|].
    split; [apply upd_list_length|]. split.
    + rewrite nth_upd_list by exact H. now rewrite Nat.eqb_refl.
    + intros j Hj. rewrite nth_upd_list by exact H. destruct (Nat.eqb_spec j i); [lia|reflexivity].
Qed.

(* swap(i, j) *)
Lemma native_vec_swap v i j :
  (length v <= i \/ length v <= j -> vswap v i j = Panic Index) /\
  (i < length v -> j < length v ->
     exists v', vswap v i j = Ok v' /\ length v' = length v /\
       forall k, k <> i -> k <> j -> nth k v' zero = nth k v zero).
Proof.
  split.
  - intros H. unfold vswap.
    destruct (Nat.lt_ge_cases i (length v)) as [Hi|Hi]; [|now rewrite rd_panic].
    rewrite (rd_ok v i zero) by exact Hi. cbn [bind]. destruct H as [H|H]; [lia|]. now rewrite rd_panic.
  - intros Hi Hj. unfold vswap.
    rewrite (rd_ok v i zero), (rd_ok v j zero) by assumption. cbn [bind].
    rewrite upd_ok by exact Hi. cbn [bind]. rewrite upd_ok by (rewrite upd_list_length; exact Hj).
    eexists; split; [reflexivity|]. split; [now rewrite !upd_list_length|].
    intros k Hki Hkj. rewrite nth_upd_list by (rewrite upd_list_length; exact Hj).
    destruct (Nat.eqb_spec k j); [lia|]. rewrite nth_upd_list by exact Hi.
    destruct (Nat.eqb_spec k i); [lia|reflexivity].
Qed.

(* insert(pos, x): pos = len is allowed (append) *)
Lemma native_vec_insert v pos x :
  (length v < pos -> vinsert v pos x = Panic Index) /\
  (pos <= length v -> exists v', vinsert v pos x = Ok v' /\ length v' = S (length v)).
Proof.
  split; intros H; unfold vinsert.
  - destruct (Nat.leb_spec pos (length v)); [lia|reflexivity].
  - destruct (Nat.leb_spec pos (length v)); [|lia]. eexists; split; [reflexivity|].
    rewrite app_length. cbn [length]. rewrite firstn_length, skipn_length. lia.
Qed.

(* pop(): `self.vec.pop().unwrap()` *)
Lemma native_vec_pop v :
  (length v = 0 -> vpop v = Panic Unwrap) /\
  (1 <= length v -> exists v' x, vpop v = Ok (v', x) /\ v = v' ++ [x]).
Proof.
  split; intros H; unfold vpop.
  - destruct v; [reflexivity|discriminate].
  - destruct (rev v) as [|x r] eqn:E.
    + apply (f_equal (@length T)) in E. rewrite rev_length in E. cbn in E. lia.
    + exists (rev r), x. split; [reflexivity|].
      rewrite <- (rev_involutive v), E. reflexivity.
Qed.

End NativeVec.

Section NativeBand.
Context {A : Arith}.
Notation banded := (banded A).

(* Banded Index with a row beyond the matrix (the diagonal pair (i,i) passes the band test for every i) *)
Lemma native_band_index_rows (B : banded) i : wfB B ->
  (bn B <= i -> band_get B i i = Panic Index) /\ (i < bn B -> exists x, band_get B i i = Ok x).
Proof.
  intros Hw. pose proof Hw as (W & R & C). unfold wfM in W.
  assert (Eo : out_of_band (bm1 B) (bm2 B) i i = false).
  { unfold out_of_band. destruct (Nat.ltb_spec (i + bm2 B) i); [lia|]. destruct (Nat.ltb_spec (i + bm1 B) i); [lia|]. reflexivity. }
  split; intros H; unfold band_get; rewrite Eo.
  - unfold mget. apply rd_panic. rewrite W, R, C. unfold band_slot. nia.
  - rewrite (mget_ok B i (band_slot (bm1 B) i i) Hw H); [eauto|]. unfold band_slot. lia.
Qed.

End NativeBand.

Section NativeMesh.
Context {A : Arith} {X : Type}.
Notation T := (T A).
Notation mesh1 := (mesh1 A X).
Notation mesh2 := (mesh2 A X).

(* Mesh1D: Index, IndexMut (whole variable vector of a node), coord *)
Lemma native_mesh1_index (m : mesh1) node : wf1 m ->
  (length (m1_nodes m) <= node -> index1 m node = Panic Index) /\
  (node < length (m1_nodes m) -> exists v, index1 m node = Ok v /\ length v = m1_nvars m).
Proof.
  intros W. split; intros H.
  - unfold index1. apply rd_panic. destruct W as (L & _). lia.
  - destruct (index1_ok m node W H) as (E & L). eauto.
Qed.

Lemma native_mesh1_index_mut (m : mesh1) node (v : list T) : wf1 m ->
  (length (m1_nodes m) <= node -> index1_set m node v = Panic Index) /\
  (node < length (m1_nodes m) ->
     exists m', index1_set m node v = Ok m' /\ m1_nodes m' = m1_nodes m /\ m1_nvars m' = m1_nvars m /\
       index1 m' node = Ok v /\ forall node', node' <> node -> index1 m' node' = index1 m node').
Proof.
  intros (L & F). split; intros H; unfold index1_set, upd.
  - destruct (Nat.ltb_spec node (length (m1_vars m))); [lia|reflexivity].
  - destruct (Nat.ltb_spec node (length (m1_vars m))) as [Hn|]; [|lia]. cbn [bind].
    eexists; split; [reflexivity|]. cbn [m1_nodes m1_nvars]. split; [reflexivity|]. split; [reflexivity|].
    unfold index1; cbn [m1_vars]. split.
    + rewrite rd_upd_list by exact Hn. now rewrite Nat.eqb_refl.
    + intros node' Hne. rewrite rd_upd_list by exact Hn. destruct (Nat.eqb_spec node node'); [lia|reflexivity].
Qed.

Lemma native_mesh1_coord (m : mesh1) node :
  (length (m1_nodes m) <= node -> coord1 m node = Panic Index) /\
  (node < length (m1_nodes m) -> exists x, coord1 m node = Ok x).
Proof.
  split; intros H; unfold coord1; [now apply rd_panic|].
  unfold rd. destruct (nth_error (m1_nodes m) node) eqn:E; [eauto|]. apply nth_error_None in E. lia.
Qed.

Lemma rd_some {Y} (l : list Y) i : i < length l -> exists y, rd l i = Ok y.
Proof. intros H. unfold rd. destruct (nth_error l i) eqn:E; [eauto|]. apply nth_error_None in E. lia. Qed.

(* Mesh2D::coord *)
Lemma native_mesh2_coord (m : mesh2) i j : wf2 m ->
  (m2_nx m <= i \/ m2_ny m <= j -> coord2 m i j = Panic Index) /\
  (i < m2_nx m -> j < m2_ny m -> exists p, coord2 m i j = Ok p).
Proof.
  intros (Hx & Hy & _). split.
  - intros H. unfold coord2.
    destruct (Nat.lt_ge_cases i (m2_nx m)) as [Hi|Hi]; [|rewrite rd_panic by lia; reflexivity].
    destruct (rd_some (m2_x m) i) as (px & ->); [lia|]. cbn [bind]. rewrite rd_panic by lia. reflexivity.
  - intros Hi Hj. unfold coord2.
    destruct (rd_some (m2_x m) i) as (px & ->); [lia|]. destruct (rd_some (m2_y m) j) as (py & ->); [lia|].
    cbn [bind]. eauto.
Qed.

(* cross sections: built through the guarded accessors, so an out-of-range node is reported by the Mesh2D range
   rejection of the FIRST accessor call (it needs at least one node in the other direction: with none the loop is
   empty and an empty Mesh1D is returned whatever the argument -- the table enumerates the other size from 1) *)
Lemma for_first_panics {S} (n : nat) (body : nat -> S -> res S) (s : S) k :
  1 <= n -> body 0 s = Panic k -> for_ 0 n body s = Panic k.
Proof. intros Hn E. unfold for_. rewrite Nat.sub_0_r. destruct n; [lia|]. cbn [for_from]. now rewrite E. Qed.

Lemma native_mesh2_cross_section_xnode (m : mesh2) i : wf2 m -> 1 <= m2_ny m ->
  (m2_nx m <= i -> exists k, cross_section_xnode m i = Panic k /\ guard_or_empty_underflow m k) /\
  (i < m2_nx m -> exists s, cross_section_xnode m i = Ok s /\ wf1 s /\ m1_nodes s = m2_y m).
Proof.
  intros W Hy. split; intros H.
  - destruct (range_guard2_rejects m i 0) as (k & E & Hk); [auto|]. exists k. split; [|exact Hk].
    unfold cross_section_xnode. apply for_first_panics; [exact Hy|]. unfold get_nodes_vars2. now rewrite E.
  - destruct (cross_section_xnode_spec m i W H) as (s & E & W1 & N & _). eauto.
Qed.

Lemma native_mesh2_cross_section_ynode (m : mesh2) j : wf2 m -> 1 <= m2_nx m ->
  (m2_ny m <= j -> exists k, cross_section_ynode m j = Panic k /\ guard_or_empty_underflow m k) /\
  (j < m2_ny m -> exists s, cross_section_ynode m j = Ok s /\ wf1 s /\ m1_nodes s = m2_x m).
Proof.
  intros W Hx. split; intros H.
  - destruct (range_guard2_rejects m 0 j) as (k & E & Hk); [auto|]. exists k. split; [|exact Hk].
    unfold cross_section_ynode. apply for_first_panics; [exact Hx|]. unfold get_nodes_vars2. now rewrite E.
  - destruct (cross_section_ynode_spec m j W H) as (s & E & W1 & N & _). eauto.
Qed.

(* apply(func, var): writes vars[i*ny+j][var] for every node; a variable index beyond nvars falls off the node's
   variable vector at the first node (non-empty mesh; the user function is assumed to return there) *)
Lemma native_mesh2_apply (func : X -> X -> res T) (m : mesh2) var : wf2 m -> 1 <= m2_nx m -> 1 <= m2_ny m ->
  (m2_nvars m <= var -> (forall x y, exists v, func x y = Ok v) -> apply2 func m var = Panic Index) /\
  (var < m2_nvars m -> (forall x y, exists v, func x y = Ok v) ->
     exists m', apply2 func m var = Ok m' /\ wf2 m' /\ shape2_eq m' m).
Proof.
  intros W Hx Hy. pose proof W as (Ex & Ey & Hlen & Hall). split; intros H Hf.
  - unfold apply2.
    rewrite (for_first_panics (m2_nx m) _ (m2_vars m) Index Hx); [reflexivity|].
    destruct (rd_some (m2_x m) 0) as (px & ->); [lia|]. cbn [bind].
    apply for_first_panics; [exact Hy|].
    destruct (rd_some (m2_y m) 0) as (py & ->); [lia|]. cbn [bind].
    destruct (Hf px py) as (v & ->). cbn [bind]. unfold set_elem.
    assert (H0 : 0 * m2_ny m + 0 < length (m2_vars m)) by (rewrite Hlen; nia).
    rewrite (rd_ok (m2_vars m) _ []) by exact H0. cbn [bind].
    unfold upd. pose proof (Forall_nth_lt _ _ _ [] Hall H0) as Lr. cbn beta in Lr.
    destruct (Nat.ltb_spec var (length (nth (0 * m2_ny m + 0) (m2_vars m) []))); [lia|reflexivity].
  - assert (Hfn : exists f : nat -> nat -> T, forall i j, i < m2_nx m -> j < m2_ny m ->
              exists x y, nth_error (m2_x m) i = Some x /\ nth_error (m2_y m) j = Some y /\ func x y = Ok (f i j)).
    { (* choose the values along the node lists; default (never used) = the value at node (0,0) *)
      destruct (rd_some (m2_x m) 0) as (x0 & E0); [lia|]. destruct (rd_some (m2_y m) 0) as (y0 & E1); [lia|].
      exists (fun i j => match func (nth i (m2_x m) x0) (nth j (m2_y m) y0) with Ok v => v | Panic _ => zero end).
      intros i j Hi Hj. exists (nth i (m2_x m) x0), (nth j (m2_y m) y0).
      split; [apply nth_error_nth'; lia|]. split; [apply nth_error_nth'; lia|].
      destruct (Hf (nth i (m2_x m) x0) (nth j (m2_y m) y0)) as (v & ->). reflexivity. }
    destruct Hfn as (f & Hfn).
    destruct (apply2_spec func f m var W H Hfn) as (m' & E & W' & S' & _). eauto.
Qed.

End NativeMesh.
