(* Proofs/GuardsModelAtomic.v -- "nothing else is written": for every MUTATING checked entry point and EVERY well-formed
   receiver / operand (no hypothesis on the arguments at all), the model function has exactly two possible outcomes:
   the guard panic raised on entry (no state is returned: the receiver is the one the caller passed in), or a returned
   state.  There is no third outcome -- in particular no index / underflow panic part-way through the writing loop,
   which in the implementation would leave a half-written receiver behind.  (Corollaries of rejects_/accepts_ by case
   analysis on the regenerated guard; Mesh2D: the entry rejection may be the checked `nx - 1` on an empty mesh.) *)
From Coq Require Import ZArith Bool Lia List Arith.
From OV Require Import Base.Panic Base.Arith Model.Vector Model.Matrix Model.Banded Model.Tridiag Model.Sparse Model.Mesh Model.Poly
  gen.GuardTable Proofs.GuardsModelBase.
From OV Require Import Proofs.GuardsModelVec Proofs.GuardsModelMat Proofs.GuardsModelBand Proofs.GuardsModelTri
  Proofs.GuardsModelSparse Proofs.GuardsModelMesh Proofs.GuardsModelPoly.
From OV Require Proofs.Matrix Proofs.Banded Proofs.Tridiag Proofs.SparseBase Proofs.MeshBase.
Import ListNotations.

Local Notation guard_or_ok r := (r = Panic Guard \/ exists s', r = Ok s') (only parsing).

Ltac by_guard g := let E := fresh "E" in destruct g eqn:E; [left | right].

Section Atomic.
Context {A : Arith}.
Notation T := (T A).

Lemma atomic_vec_add_assign (u v : list T) : guard_or_ok (vadd_assign u v).
Proof.
  destruct (g_vec_add_assign (Z.of_nat (length u)) (Z.of_nat (length v))) eqn:E.
  - left. now apply rejects_vec_add_assign.
  - right. destruct (accepts_vec_add_assign u v E) as (r & Er & _). eauto.
Qed.
Lemma atomic_vec_sub_assign (u v : list T) : guard_or_ok (vsub_assign u v).
Proof.
  destruct (g_vec_sub_assign (Z.of_nat (length u)) (Z.of_nat (length v))) eqn:E.
  - left. now apply rejects_vec_sub_assign.
  - right. destruct (accepts_vec_sub_assign u v E) as (r & Er & _). eauto.
Qed.

Lemma atomic_mat_set_row (m : matrix A) row v : Matrix.wf m -> guard_or_ok (set_row m row v).
Proof.
  intros W. by_guard (g_mat_set_row (Z.of_nat (rows m)) (Z.of_nat (cols m)) (Z.of_nat row) (Z.of_nat (length v)));
    [apply rejects_mat_set_row; exact E | apply accepts_mat_set_row; assumption].
Qed.
Lemma atomic_mat_set_col (m : matrix A) col v : Matrix.wf m -> guard_or_ok (set_col m col v).
Proof.
  intros W. by_guard (g_mat_set_col (Z.of_nat (rows m)) (Z.of_nat (cols m)) (Z.of_nat col) (Z.of_nat (length v)));
    [apply rejects_mat_set_col; exact E | apply accepts_mat_set_col; assumption].
Qed.
Lemma atomic_mat_fill_row (m : matrix A) row x : Matrix.wf m -> guard_or_ok (fill_row m row x).
Proof.
  intros W. by_guard (g_mat_fill_row (Z.of_nat (rows m)) (Z.of_nat (cols m)) (Z.of_nat row));
    [apply rejects_mat_fill_row; exact E | apply accepts_mat_fill_row; assumption].
Qed.
Lemma atomic_mat_fill_col (m : matrix A) col x : Matrix.wf m -> guard_or_ok (fill_col m col x).
Proof.
  intros W. by_guard (g_mat_fill_col (Z.of_nat (rows m)) (Z.of_nat (cols m)) (Z.of_nat col));
    [apply rejects_mat_fill_col; exact E | apply accepts_mat_fill_col; assumption].
Qed.
Lemma atomic_mat_swap_rows (m : matrix A) r1 r2 : Matrix.wf m -> guard_or_ok (swap_rows m r1 r2).
Proof.
  intros W. by_guard (g_mat_swap_rows (Z.of_nat (rows m)) (Z.of_nat (cols m)) (Z.of_nat r1) (Z.of_nat r2));
    [apply rejects_mat_swap_rows; exact E | apply accepts_mat_swap_rows; assumption].
Qed.
Lemma atomic_mat_delete_row (m : matrix A) row : Matrix.wf m -> guard_or_ok (delete_row m row).
Proof.
  intros W. by_guard (g_mat_delete_row (Z.of_nat (rows m)) (Z.of_nat (cols m)) (Z.of_nat row));
    [apply rejects_mat_delete_row; exact E | apply accepts_mat_delete_row; assumption].
Qed.
Lemma atomic_mat_add_assign (a b : matrix A) : Matrix.wf a -> Matrix.wf b -> guard_or_ok (madd_assign a b).
Proof.
  intros Wa Wb.
  destruct (g_mat_add_assign_ref (Z.of_nat (rows a)) (Z.of_nat (cols a)) (Z.of_nat (rows b)) (Z.of_nat (cols b))) eqn:E.
  - left. now apply rejects_mat_add_assign_ref.
  - right. destruct (accepts_mat_add_assign_ref a b Wa Wb E) as (m' & Em & _). eauto.
Qed.
Lemma atomic_mat_sub_assign (a b : matrix A) : Matrix.wf a -> Matrix.wf b -> guard_or_ok (msub_assign a b).
Proof.
  intros Wa Wb.
  destruct (g_mat_sub_assign_ref (Z.of_nat (rows a)) (Z.of_nat (cols a)) (Z.of_nat (rows b)) (Z.of_nat (cols b))) eqn:E.
  - left. now apply rejects_mat_sub_assign_ref.
  - right. destruct (accepts_mat_sub_assign_ref a b Wa Wb E) as (m' & Em & _). eauto.
Qed.

Lemma atomic_band_fill_band (B : banded A) (band : Z) x : Banded.wfB B -> guard_or_ok (band_fill_band B band x).
Proof.
  intros W. by_guard (g_band_fill_band (Z.of_nat (bn B)) (Z.of_nat (bm1 B)) (Z.of_nat (bm2 B)) band);
    [apply rejects_band_fill_band; exact E | apply accepts_band_fill_band; assumption].
Qed.
(* IndexMut of Banded: for rows of the matrix (i < n; the band test does not look at n, see entry_contract_banded) *)
Lemma atomic_band_index_mut (B : banded A) i j x : Banded.wfB B -> i < bn B -> guard_or_ok (band_set B i j x).
Proof.
  intros W Hi. by_guard (g_band_index_mut (Z.of_nat (bn B)) (Z.of_nat (bm1 B)) (Z.of_nat (bm2 B)) (Z.of_nat i) (Z.of_nat j));
    [apply rejects_band_index_mut; exact E | apply accepts_band_index_mut; assumption].
Qed.
Lemma atomic_band_add_assign (B C : banded A) : Banded.wfB B -> Banded.wfB C -> guard_or_ok (band_add_assign B C).
Proof.
  intros WB WC.
  destruct (g_band_add_assign_ref (Z.of_nat (bn B)) (Z.of_nat (bm1 B)) (Z.of_nat (bm2 B)) (Z.of_nat (bn C)) (Z.of_nat (bm1 C)) (Z.of_nat (bm2 C))) eqn:E.
  - left. now apply rejects_band_add_assign_ref.
  - right. destruct (accepts_band_add_assign_ref B C WB WC E) as (R & ER & _). eauto.
Qed.
Lemma atomic_band_sub_assign (B C : banded A) : Banded.wfB B -> Banded.wfB C -> guard_or_ok (band_sub_assign B C).
Proof.
  intros WB WC.
  destruct (g_band_sub_assign_ref (Z.of_nat (bn B)) (Z.of_nat (bm1 B)) (Z.of_nat (bm2 B)) (Z.of_nat (bn C)) (Z.of_nat (bm1 C)) (Z.of_nat (bm2 C))) eqn:E.
  - left. now apply rejects_band_sub_assign_ref.
  - right. destruct (accepts_band_sub_assign_ref B C WB WC E) as (R & ER & _). eauto.
Qed.

Lemma atomic_tri_index_mut (t : tridiag A) i j x : Tridiag.wfT t -> guard_or_ok (tset t i j x).
Proof.
  intros W. by_guard (g_tri_index_mut (Z.of_nat (tn t)) (Z.of_nat i) (Z.of_nat j));
    [apply rejects_tri_index_mut; exact E | apply accepts_tri_index_mut; assumption].
Qed.

Lemma atomic_sp_insert (s : sparse A) row col v : SparseBase.wfS s -> guard_or_ok (sp_insert s row col v).
Proof.
  intros W. destruct (g_sp_insert (Z.of_nat (sp_rows s)) (Z.of_nat (sp_cols s)) (Z.of_nat row) (Z.of_nat col)) eqn:E.
  - left. now apply rejects_sp_insert.
  - right. destruct (accepts_sp_insert s row col v W E) as (s' & Es & _). eauto.
Qed.

Lemma atomic_poly_index_mut (p : list T) i x : guard_or_ok (pindex_set p i x).
Proof.
  destruct (g_poly_index_mut (Z.of_nat (length p)) (Z.of_nat i)) eqn:E.
  - left. now apply rejects_poly_index_mut.
  - right. now apply accepts_poly_index_mut.
Qed.

End Atomic.

Section AtomicMesh.
Context {A : Arith} {X : Type}.
Lemma atomic_mesh1_set_nodes_vars (m : mesh1 A X) node (v : list A) : MeshBase.wf1 m -> guard_or_ok (set_nodes_vars1 m node v).
Proof.
  intros W. by_guard (g_mesh1_set_nodes_vars (Z.of_nat (length (m1_nodes m))) (Z.of_nat (m1_nvars m)) (Z.of_nat node) (Z.of_nat (length v)));
    [apply (@rejects_mesh1_set_nodes_vars A X); exact E | apply (@accepts_mesh1_set_nodes_vars A X); assumption].
Qed.
Lemma atomic_mesh2_set_nodes_vars (m : mesh2 A X) i j (v : list A) : MeshBase.wf2 m ->
  (exists k, set_nodes_vars2 m i j v = Panic k /\ guard_or_empty_underflow m k) \/ exists m', set_nodes_vars2 m i j v = Ok m'.
Proof.
  intros W.
  destruct (g_mesh2_set_nodes_vars (Z.of_nat (m2_nx m)) (Z.of_nat (m2_ny m)) (Z.of_nat (m2_nvars m)) (Z.of_nat i) (Z.of_nat j) (Z.of_nat (length v))) eqn:E.
  - left. now apply rejects_mesh2_set_nodes_vars.
  - right. now apply accepts_mesh2_set_nodes_vars.
Qed.
End AtomicMesh.
