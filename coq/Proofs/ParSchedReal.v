(* Proofs/ParSchedReal.v -- the interleaving semantics is not accidentally restrictive: EVERY permutation sigma of
   the workers is the completion order of some maximal execution (spawn everybody; let the workers run to completion
   one after the other in the order sigma; join).  With Proofs/ParSchedOrder.v: the completion orders of the
   maximal executions are exactly the permutations of 0..t-1, so sched_deterministic quantifies over at least
   everything schedule_independent (Props/C16.v) does.  Any arithmetic. *)
From Coq Require Import List Arith Lia Permutation Bool.
From OV Require Import Base.Panic Base.Arith Model.Vector Model.ParDot Model.ParSched
  Proofs.ParDot Proofs.ParSched Proofs.ParSchedOrder.
Import ListNotations.

Lemma upd_list_app_mid {X} (l1 l2 : list X) x y : upd_list (l1 ++ x :: l2) (length l1) y = l1 ++ y :: l2.
Proof. induction l1 as [|h tl IH]; cbn; auto. now rewrite IH. Qed.

Lemma upd_list_twice {X} (l : list X) k x y : upd_list (upd_list l k x) k y = upd_list l k y.
Proof. revert k; induction l as [|h tl IH]; intros [|k]; cbn; auto. now rewrite IH. Qed.

Lemma nth_error_map_seq {X} (f : nat -> X) o n k :
  nth_error (map f (seq o n)) k = if k <? n then Some (f (o + k)) else None.
Proof.
  revert o k; induction n as [|n IH]; intros o [|k]; cbn [seq map nth_error]; auto.
  - now rewrite Nat.add_0_r.
  - rewrite IH. change (S k <? S n) with (k <? n). destruct (k <? n); auto. f_equal. f_equal. lia.
Qed.

Section Real.
Context {A : Arith}.
Notation T := (T A).
Variables (v w : list T) (t : nat).
Hypothesis Ht : 1 <= t.
Hypothesis Hl : length v = length w.

Notation fire := (fire v w t).
Notation exec := (exec v w t).
Notation terminal := (terminal v w t).
Notation init := (sched_init (A := A) t).
Notation Inv := (Inv v w t).
Notation completions := (completions v w t).
Notation part := (part v w t).
Notation wok := (wok v w t).
Notation wrem := (wrem v t).

Definition run0 (k : nat) : @wstate A := WRun (slice_of v t k) (slice_of w t k) 0 zero.

Lemma completions_app sch1 sch2 s :
  completions (sch1 ++ sch2) s =
  match exec sch1 s with Some s1 => completions sch1 s ++ completions sch2 s1 | None => completions sch1 s end.
Proof.
  revert s; induction sch1 as [|th r IH]; intros s; cbn [app ParSched.completions ParSched.exec]; auto.
  destruct (fire th s) as [s1|]; [|reflexivity]. rewrite IH.
  destruct th as [|k]; [reflexivity|].
  destruct (nth_error (ws s) k) as [x|]; [|reflexivity].
  destruct (finishes x); [|reflexivity]. destruct (exec r s1); reflexivity.
Qed.

(* phase 1: main spawns everybody *)
Lemma spawn_all d : forall i, i + d = t ->
  exec (repeat Main d) (mkState (MSpawn i) (map run0 (seq 0 i) ++ repeat WIdle d))
    = Some (mkState (MSpawn t) (map run0 (seq 0 t))) /\
  completions (repeat Main d) (mkState (MSpawn i) (map run0 (seq 0 i) ++ repeat WIdle d)) = [].
Proof.
  induction d as [|d IH]; intros i Hi.
  - cbn [repeat ParSched.exec ParSched.completions]. rewrite app_nil_r. replace i with t by lia. auto.
  - cbn [repeat ParSched.exec ParSched.completions ParSched.fire main ws].
    assert (Hlt : i < t) by lia. apply Nat.ltb_lt in Hlt as Hb. rewrite Hb.
    rewrite (job_ok v w t i Ht Hlt Hl).
    change (WRun (slice_of v t i) (slice_of w t i) 0 zero) with (run0 i).
    assert (E : upd_list (map run0 (seq 0 i) ++ WIdle :: repeat WIdle d) i (run0 i)
                = map run0 (seq 0 (S i)) ++ repeat WIdle d).
    { pose proof (upd_list_app_mid (map run0 (seq 0 i)) (repeat WIdle d) WIdle (run0 i)) as H.
      rewrite map_length, seq_length in H. rewrite H.
      rewrite seq_S, map_app, <- app_assoc. reflexivity. }
    rewrite E. apply IH. lia.
Qed.

(* phase 2: one worker runs alone until it has published its result *)
Lemma run_worker d : forall s k x, nth_error (ws s) k = Some x -> wok k x -> wrem k x = S d ->
  exec (repeat (Wk k) (S d)) s = Some (mkState (main s) (upd_list (ws s) k (WDone (part k)))) /\
  completions (repeat (Wk k) (S d)) s = [k].
Proof.
  induction d as [|d IH]; intros s k x Ek Hx Hr.
  - destruct x as [|a b n acc|r| |]; cbn [Proofs.ParSched.wrem] in Hr; try discriminate; try contradiction.
    assert (Hn : (n <? length a) = false) by (apply Nat.ltb_ge; lia).
    assert (Hw : wstep (WRun a b n acc) = Some (WDone acc)) by (cbn [wstep]; now rewrite Hn).
    destruct (wstep_spec v w t Ht Hl k _ _ Hx Hw) as (Hd & _ & _). cbn [Proofs.ParSched.wok] in Hd. subst acc.
    cbn [repeat ParSched.exec ParSched.completions ParSched.fire]. rewrite Ek, Hw. cbn [finishes]. rewrite Hn. auto.
  - destruct (wstep_enabled v w t k x Hx) as [[x' Ex]| ->]; [|discriminate].
    destruct (wstep_spec v w t Ht Hl k x x' Hx Ex) as (Hx' & Hr' & _).
    assert (Hf : finishes x = false).
    { destruct x as [|a b n acc|r| |]; try reflexivity. cbn [finishes Proofs.ParSched.wrem] in *.
      apply negb_false_iff. apply Nat.ltb_lt. lia. }
    change (repeat (Wk k) (S (S d))) with (Wk k :: repeat (Wk k) (S d)).
    cbn [ParSched.exec ParSched.completions ParSched.fire]. rewrite Ek, Ex, Hf.
    assert (Hk : k < length (ws s)) by (apply nth_error_Some; congruence).
    destruct (IH (mkState (main s) (upd_list (ws s) k x')) k x') as [E1 E2].
    + cbn [ws]. rewrite nth_error_upd_list by exact Hk. now rewrite Nat.eqb_refl.
    + exact Hx'.
    + lia.
    + cbn [ws main] in *. rewrite upd_list_twice in E1. auto.
Qed.

Lemma wok_run0 k : wok k (run0 k) /\ wrem k (run0 k) = S (length (slice_of v t k)).
Proof. unfold run0; cbn. repeat split; lia. Qed.

Definition all_run (sigma : list nat) : list tid :=
  flat_map (fun k => repeat (Wk k) (S (length (slice_of v t k)))) sigma.

Definition done_after (sigma : list nat) (l : list (@wstate A)) : list (@wstate A) :=
  fold_left (fun l k => upd_list l k (WDone (part k))) sigma l.

Lemma run_sigma sigma : NoDup sigma -> forall s,
  (forall k, In k sigma -> nth_error (ws s) k = Some (run0 k)) ->
  exec (all_run sigma) s = Some (mkState (main s) (done_after sigma (ws s))) /\
  completions (all_run sigma) s = sigma.
Proof.
  induction 1 as [|k rest Hnin ND IH]; intros s Hs.
  - destruct s; auto.
  - unfold all_run; cbn [flat_map]. fold (all_run rest).
    destruct (wok_run0 k) as [Hx Hr].
    destruct (run_worker _ s k (run0 k) (Hs k (or_introl eq_refl)) Hx Hr) as [E1 E2].
    rewrite exec_app, completions_app, E1, E2.
    destruct (IH (mkState (main s) (upd_list (ws s) k (WDone (part k))))) as [E3 E4].
    + intros k' Hk'. cbn [ws]. assert (k' <> k) by (intros ->; contradiction).
      assert (Hk : k < length (ws s)) by (apply nth_error_Some; rewrite (Hs k (or_introl eq_refl)); discriminate).
      rewrite nth_error_upd_list by exact Hk. apply Nat.eqb_neq in H as ->. apply Hs. now right.
    + rewrite E3, E4. cbn [main ws done_after fold_left]. auto.
Qed.

Lemma done_after_nth sigma : forall l k, (forall j, In j sigma -> j < length l) ->
  nth_error (done_after sigma l) k =
  if in_dec Nat.eq_dec k sigma then Some (WDone (part k)) else nth_error l k.
Proof.
  induction sigma as [|j rest IH]; intros l k Hj; [reflexivity|].
  cbn [done_after fold_left]. fold (done_after rest (upd_list l j (WDone (part j)))).
  rewrite IH by (intros j' H'; rewrite upd_list_length; apply Hj; now right).
  assert (Hjl : j < length l) by (apply Hj; now left).
  destruct (in_dec Nat.eq_dec k rest) as [Hr|Hr]; destruct (in_dec Nat.eq_dec k (j :: rest)) as [Hc|Hc]; auto.
  - exfalso; apply Hc; now right.
  - rewrite nth_error_upd_list by exact Hjl. destruct (Nat.eqb_spec k j) as [->|Hne]; [reflexivity|].
    destruct Hc as [Hc|Hc]; [congruence|contradiction].
  - rewrite nth_error_upd_list by exact Hjl. destruct (Nat.eqb_spec k j) as [->|Hne]; [|reflexivity].
    exfalso; apply Hc; now left.
Qed.

Lemma Inv_ret_terminal s r : Inv s -> main s = MRet r -> terminal s.
Proof.
  intros [HL HM] Er th. rewrite Er in HM. destruct HM as [_ HW].
  destruct th as [|k]; cbn [ParSched.fire]; [now rewrite Er|].
  destruct (nth_error (ws s) k) as [x|] eqn:E; [|reflexivity]. now rewrite (HW k x E).
Qed.

Lemma sched_realises_every_order_exec sigma : Permutation sigma (seq 0 t) ->
  exists sch s', exec sch init = Some s' /\ terminal s' /\ completions sch init = sigma.
Proof.
  intros HP.
  assert (ND : NoDup sigma) by (apply (Permutation_NoDup (Permutation_sym HP)), seq_NoDup).
  assert (Hin : forall k, In k sigma <-> k < t).
  { intros k. split; intros H.
    - apply (Permutation_in _ HP) in H. apply in_seq in H. lia.
    - apply (Permutation_in _ (Permutation_sym HP)). apply in_seq. lia. }
  (* phase 1 *)
  destruct (spawn_all t 0 eq_refl) as [P1 C1]. cbn [seq map app] in P1, C1. fold init in P1, C1.
  set (s1 := mkState (MSpawn t) (map run0 (seq 0 t))) in *.
  (* phase 2 *)
  destruct (run_sigma sigma ND s1) as [P2 C2].
  { intros k Hk. apply Hin in Hk. cbn [ws s1]. rewrite nth_error_map_seq.
    apply Nat.ltb_lt in Hk as ->. reflexivity. }
  set (s2 := mkState (main s1) (done_after sigma (ws s1))) in *.
  assert (E12 : exec (repeat Main t ++ all_run sigma) init = Some s2) by (now rewrite exec_app, P1).
  destruct (exec_Inv v w t Ht Hl _ init s2 (Inv_init v w t Ht Hl) E12) as [HI2 _].
  (* phase 3: any maximal continuation; nobody is left to finish *)
  destruct (Inv_extends v w t Ht Hl s2 HI2) as (sch3 & s' & P3 & HT & _).
  exists ((repeat Main t ++ all_run sigma) ++ sch3), s'. split; [|split; [exact HT|]].
  - now rewrite exec_app, E12.
  - rewrite completions_app, E12, completions_app, P1, C1, C2. cbn [app].
    destruct (completions_spec v w t Ht Hl sch3 s2 s' HI2 P3) as (_ & _ & Spec).
    destruct (completions sch3 s2) as [|k0 rest0] eqn:E3; [now rewrite app_nil_r|].
    exfalso. destruct (proj1 (Spec k0) (or_introl eq_refl)) as [F0 F1].
    destruct (exec_Inv v w t Ht Hl sch3 s2 s' HI2 P3) as [[HL' _] _].
    assert (Hk0 : k0 < t).
    { unfold finb in F1. destruct (nth_error (ws s') k0) eqn:E; [|discriminate].
      assert (k0 < length (ws s')) by (apply nth_error_Some; congruence). lia. }
    unfold finb in F0. cbn [ws s2 s1] in F0. rewrite done_after_nth in F0.
    + destruct (in_dec Nat.eq_dec k0 sigma) as [_|Hn]; [discriminate|]. apply Hn. now apply Hin.
    + intros j Hj. rewrite map_length, seq_length. now apply Hin.
Qed.

End Real.
