(* Proofs/CFunSeries.v -- the series half of C14 for the exponential: for every complex z the partial sums of
   sum_n z^n / n!  (powers and sums formed with the model's cmul / cadd of Model/CFun.v) converge, component by
   component, to the model's cexp z = (exp x cos y, exp x sin y).

   Route: (1) finite sums / natural powers in the ring C and the binomial theorem in the scaled form
              (a+b)^n/n! = sum_{k<=n} a^k/k! * b^(n-k)/(n-k)!;
          (2) powers of a real number and of a purely imaginary number; the component series of sum (iy)^n/n! are
              the standard library's defining series of cos y and sin y with zeros interleaved;
          (3) z = x + iy: the components of z^n/n! are the Cauchy products of the real series x^k/k! with the two
              component series of (2); Coquelicot's Mertens theorem [is_series_mult] for absolutely convergent real
              series gives the limits exp x * cos y and exp x * sin y.
   The definitions below (cpown, csum, cpsum, cconv) are specification vocabulary, not models of source code. *)
From Coq Require Import Reals Lra Lia Field.
From Coquelicot Require Import Hierarchy Series.
From OV Require Import Model.CFun Proofs.CFunArg Proofs.CFun Proofs.CFunAlg.
Local Open Scope R_scope.

(* ---------- vocabulary ---------- *)
Fixpoint cpown (z : C) (n : nat) : C :=
  match n with O => cone | S k => cmul z (cpown z k) end.

(* sum_{n <= N} f n, with the model's addition *)
Fixpoint csum (f : nat -> C) (N : nat) : C :=
  match N with O => f O | S k => cadd (csum f k) (f (S k)) end.

(* partial sum of the power series sum a_n z^n *)
Definition cpsum (a : nat -> C) (z : C) (N : nat) : C :=
  csum (fun n => cmul (a n) (cpown z n)) N.

(* convergence in C = convergence of both components (standard library's Un_cv) *)
Definition cconv (s : nat -> C) (l : C) : Prop :=
  Un_cv (fun N => re (s N)) (re l) /\ Un_cv (fun N => im (s N)) (im l).

Definition cexp_coeff (n : nat) : C := RtoC (/ INR (fact n)).
Definition eterm (n : nat) (z : C) : C := cmul (cexp_coeff n) (cpown z n).

(* ---------- finite sums ---------- *)
Lemma csum_S f N : csum f (S N) = cadd (csum f N) (f (S N)).
Proof. reflexivity. Qed.

Lemma csum_shift f N : csum f (S N) = cadd (f O) (csum (fun k => f (S k)) N).
Proof.
  induction N as [|N IH].
  - reflexivity.
  - rewrite (csum_S f (S N)), IH, (csum_S (fun k => f (S k)) N). ring.
Qed.

Lemma csum_scal c f N : cmul c (csum f N) = csum (fun k => cmul c (f k)) N.
Proof.
  induction N as [|N IH].
  - reflexivity.
  - rewrite !csum_S, <- IH. ring.
Qed.

Lemma csum_add f g N : cadd (csum f N) (csum g N) = csum (fun k => cadd (f k) (g k)) N.
Proof.
  induction N as [|N IH].
  - reflexivity.
  - rewrite !csum_S, <- IH. ring.
Qed.

Lemma csum_ext f g N : (forall k, (k <= N)%nat -> f k = g k) -> csum f N = csum g N.
Proof.
  induction N as [|N IH]; intros H.
  - cbn [csum]. apply H. lia.
  - rewrite !csum_S, IH, (H (S N)) by (intros; try apply H; lia). reflexivity.
Qed.

Lemma re_csum f N : re (csum f N) = sum_f_R0 (fun n => re (f n)) N.
Proof.
  induction N as [|N IH].
  - reflexivity.
  - rewrite csum_S. cbn [sum_f_R0]. rewrite <- IH. reflexivity.
Qed.

Lemma im_csum f N : im (csum f N) = sum_f_R0 (fun n => im (f n)) N.
Proof.
  induction N as [|N IH].
  - reflexivity.
  - rewrite csum_S. cbn [sum_f_R0]. rewrite <- IH. reflexivity.
Qed.

(* ---------- real scalars ---------- *)
Lemma RtoC_mul a b : RtoC (a * b) = cmul (RtoC a) (RtoC b).
Proof. csimpl; f_equal; ring. Qed.
Lemma RtoC_add a b : RtoC (a + b) = cadd (RtoC a) (RtoC b).
Proof. csimpl; f_equal; ring. Qed.
Lemma RtoC_0 : RtoC 0 = czero.
Proof. reflexivity. Qed.

Lemma cmul_RtoC_cancel r u v : r <> 0 -> cmul (RtoC r) u = cmul (RtoC r) v -> u = v.
Proof.
  intros Hr H. destruct u as [u1 u2], v as [v1 v2]. revert H. csimpl. intros H.
  inversion H as [[E1 E2]]. f_equal; apply (Rmult_eq_reg_l r); try exact Hr; lra.
Qed.

(* ---------- the terms z^n / n! and the scaled binomial theorem ---------- *)
Lemma INR_S_neq0 n : INR (S n) <> 0.
Proof. apply not_0_INR. discriminate. Qed.

Lemma cexp_coeff_S n : cexp_coeff (S n) = cmul (RtoC (/ INR (S n))) (cexp_coeff n).
Proof.
  unfold cexp_coeff. rewrite <- RtoC_mul. f_equal.
  change (fact (S n)) with (S n * fact n)%nat. rewrite mult_INR.
  field. split; [apply INR_fact_neq_0 | apply INR_S_neq0].
Qed.

(* (n+1) * z^(n+1)/(n+1)! = z * z^n/n! *)
Lemma eterm_S n z : cmul (RtoC (INR (S n))) (eterm (S n) z) = cmul z (eterm n z).
Proof.
  unfold eterm. rewrite cexp_coeff_S. cbn [cpown].
  replace (cmul (RtoC (INR (S n))) (cmul (cmul (RtoC (/ INR (S n))) (cexp_coeff n)) (cmul z (cpown z n))))
    with (cmul (cmul (RtoC (INR (S n))) (RtoC (/ INR (S n)))) (cmul z (cmul (cexp_coeff n) (cpown z n)))) by ring.
  rewrite <- RtoC_mul, Rinv_r by apply INR_S_neq0. rewrite RtoC_1. ring.
Qed.

Lemma eterm_0 z : eterm 0 z = cone.
Proof. unfold eterm, cexp_coeff. cbn [cpown fact INR]. rewrite Rinv_1, RtoC_1. ring. Qed.

Lemma eterm_binomial a b n :
  eterm n (cadd a b) = csum (fun k => cmul (eterm k a) (eterm (n - k) b)) n.
Proof.
  induction n as [|n IH].
  - cbn [csum Nat.sub]. rewrite !eterm_0. ring.
  - apply (cmul_RtoC_cancel (INR (S n))); [apply INR_S_neq0|].
    rewrite eterm_S, IH.
    (* split (a+b) * sum into the two shifted sums *)
    assert (HA : cmul a (csum (fun k => cmul (eterm k a) (eterm (n - k) b)) n)
                 = csum (fun j => cmul (RtoC (INR j)) (cmul (eterm j a) (eterm (S n - j) b))) (S n)).
    { rewrite csum_shift. cbv beta. change (INR 0) with 0. rewrite RtoC_0, csum_scal.
      replace (cmul czero (cmul (eterm 0 a) (eterm (S n - 0) b))) with czero by ring.
      replace (cadd czero (csum (fun k => cmul (RtoC (INR (S k))) (cmul (eterm (S k) a) (eterm (S n - S k) b))) n))
        with (csum (fun k => cmul (RtoC (INR (S k))) (cmul (eterm (S k) a) (eterm (S n - S k) b))) n) by ring.
      apply csum_ext. intros k _. cbn [Nat.sub].
      replace (cmul (RtoC (INR (S k))) (cmul (eterm (S k) a) (eterm (n - k) b)))
        with (cmul (cmul (RtoC (INR (S k))) (eterm (S k) a)) (eterm (n - k) b)) by ring.
      rewrite eterm_S. ring. }
    assert (HB : cmul b (csum (fun k => cmul (eterm k a) (eterm (n - k) b)) n)
                 = csum (fun j => cmul (RtoC (INR (S n - j))) (cmul (eterm j a) (eterm (S n - j) b))) (S n)).
    { rewrite csum_S. cbv beta. rewrite Nat.sub_diag. change (INR 0) with 0. rewrite RtoC_0, csum_scal.
      replace (cmul czero (cmul (eterm (S n) a) (eterm 0 b))) with czero by ring.
      replace (cadd (csum (fun j => cmul (RtoC (INR (S n - j))) (cmul (eterm j a) (eterm (S n - j) b))) n) czero)
        with (csum (fun j => cmul (RtoC (INR (S n - j))) (cmul (eterm j a) (eterm (S n - j) b))) n) by ring.
      apply csum_ext. intros k Hk. rewrite (Nat.sub_succ_l k n Hk).
      replace (cmul (RtoC (INR (S (n - k)))) (cmul (eterm k a) (eterm (S (n - k)) b)))
        with (cmul (eterm k a) (cmul (RtoC (INR (S (n - k)))) (eterm (S (n - k)) b))) by ring.
      rewrite eterm_S. ring. }
    replace (cmul (cadd a b) (csum (fun k => cmul (eterm k a) (eterm (n - k) b)) n))
      with (cadd (cmul a (csum (fun k => cmul (eterm k a) (eterm (n - k) b)) n))
                 (cmul b (csum (fun k => cmul (eterm k a) (eterm (n - k) b)) n))) by ring.
    rewrite HA, HB, csum_add, csum_scal. apply csum_ext. intros j Hj.
    replace (INR (S n)) with (INR j + INR (S n - j)) by (rewrite <- plus_INR; f_equal; lia).
    rewrite RtoC_add. ring.
Qed.

(* ---------- powers on the two axes ---------- *)
Lemma cpown_real x n : cpown (x, 0) n = (x ^ n, 0).
Proof.
  induction n as [|n IH].
  - reflexivity.
  - cbn [cpown pow]. rewrite IH. csimpl. f_equal; ring.
Qed.

(* i^n as a pair of reals *)
Fixpoint ipow (n : nat) : R * R :=
  match n with O => (1, 0) | S k => (- snd (ipow k), fst (ipow k)) end.

Lemma cpown_imag y n : cpown (0, y) n = (fst (ipow n) * y ^ n, snd (ipow n) * y ^ n).
Proof.
  induction n as [|n IH].
  - cbn [cpown ipow pow fst snd]. unfold cone. f_equal; ring.
  - cbn [cpown ipow pow fst snd]. rewrite IH. csimpl. f_equal; ring.
Qed.

Lemma ipow_parity m : ipow (2 * m) = ((-1) ^ m, 0) /\ ipow (S (2 * m)) = (0, (-1) ^ m).
Proof.
  induction m as [|m [IH1 IH2]].
  - cbn [Nat.mul Nat.add ipow pow fst snd]. split; f_equal; ring.
  - replace (2 * S m)%nat with (S (S (2 * m))) by lia.
    assert (E : ipow (S (S (2 * m))) = ((-1) ^ S m, 0)).
    { change (ipow (S (S (2 * m)))) with (- snd (ipow (S (2 * m))), fst (ipow (S (2 * m)))).
      rewrite IH2. cbn [fst snd pow]. f_equal; ring. }
    split; [exact E|].
    change (ipow (S (S (S (2 * m))))) with (- snd (ipow (S (S (2 * m)))), fst (ipow (S (S (2 * m))))).
    rewrite E. cbn [fst snd]. f_equal; ring.
Qed.

Lemma ipow_bound n : Rabs (fst (ipow n)) <= 1 /\ Rabs (snd (ipow n)) <= 1.
Proof.
  induction n as [|n [IH1 IH2]].
  - cbn [ipow fst snd]. rewrite Rabs_R1, Rabs_R0. lra.
  - cbn [ipow fst snd]. rewrite Rabs_Ropp. lra.
Qed.

(* the real series x^n/n!, and the two component series of (iy)^n/n! *)
Definition expq (x : R) (n : nat) : R := / INR (fact n) * x ^ n.
Definition cosq (y : R) (n : nat) : R := fst (ipow n) * expq y n.
Definition sinq (y : R) (n : nat) : R := snd (ipow n) * expq y n.

Lemma eterm_real x n : eterm n (x, 0) = (expq x n, 0).
Proof. unfold eterm, cexp_coeff, expq. rewrite cpown_real. csimpl. f_equal; ring. Qed.

Lemma eterm_imag y n : eterm n (0, y) = (cosq y n, sinq y n).
Proof. unfold eterm, cexp_coeff, cosq, sinq, expq. rewrite cpown_imag. csimpl. f_equal; ring. Qed.

(* components of z^n/n! as Cauchy products of real sequences *)
Lemma eterm_components x y n :
  re (eterm n (x, y)) = sum_f_R0 (fun k => expq x k * cosq y (n - k)) n /\
  im (eterm n (x, y)) = sum_f_R0 (fun k => expq x k * sinq y (n - k)) n.
Proof.
  replace (x, y) with (cadd (x, 0) (0, y)) by (csimpl; f_equal; ring).
  rewrite eterm_binomial, re_csum, im_csum.
  split; apply sum_eq; intros k _; rewrite eterm_real, eterm_imag; csimpl; ring.
Qed.

(* ---------- the component series of (iy)^n/n! are the defining series of cos and sin ---------- *)
Lemma cosq_terms y k : cosq y (2 * k) = cos_n k * Rsqr y ^ k /\ cosq y (S (2 * k)) = 0.
Proof.
  unfold cosq. destruct (ipow_parity k) as [E1 E2]. rewrite E1, E2. cbn [fst snd]. split; [|ring].
  unfold expq, cos_n. rewrite pow_Rsqr. field. apply INR_fact_neq_0.
Qed.

Lemma sinq_terms y k : sinq y (2 * k) = 0 /\ sinq y (S (2 * k)) = y * (sin_n k * Rsqr y ^ k).
Proof.
  unfold sinq. destruct (ipow_parity k) as [E1 E2]. rewrite E1, E2. cbn [fst snd]. split; [ring|].
  unfold expq, sin_n. replace (2 * k + 1)%nat with (S (2 * k)) by lia.
  cbn [pow]. rewrite pow_Rsqr. field. apply INR_fact_neq_0.
Qed.

Lemma sum_interleave_even (a t : nat -> R) :
  (forall k, a (2 * k)%nat = t k) -> (forall k, a (S (2 * k)) = 0) ->
  forall m, sum_f_R0 a (2 * m) = sum_f_R0 t m /\ sum_f_R0 a (S (2 * m)) = sum_f_R0 t m.
Proof.
  intros He Ho. induction m as [|m [IH1 IH2]].
  - pose proof (He 0%nat) as H0. pose proof (Ho 0%nat) as H1. cbn [Nat.mul Nat.add] in H0, H1.
    cbn [Nat.mul Nat.add sum_f_R0]. rewrite H0, H1. split; ring.
  - replace (2 * S m)%nat with (S (S (2 * m))) by lia.
    assert (E : sum_f_R0 a (S (S (2 * m))) = sum_f_R0 t (S m)).
    { cbn [sum_f_R0]. cbn [sum_f_R0] in IH2. rewrite IH2.
      replace (S (S (2 * m))) with (2 * S m)%nat by lia. rewrite He. reflexivity. }
    split; [exact E|].
    change (sum_f_R0 a (S (S (S (2 * m))))) with (sum_f_R0 a (S (S (2 * m))) + a (S (S (S (2 * m))))).
    rewrite E. replace (S (S (S (2 * m)))) with (S (2 * S m)) by lia. rewrite Ho. ring.
Qed.

Lemma Un_cv_ext (s t : nat -> R) l : (forall n, s n = t n) -> Un_cv t l -> Un_cv s l.
Proof. intros E H eps Heps. destruct (H eps Heps) as [N HN]. exists N. intros n Hn. rewrite E. apply HN, Hn. Qed.

Lemma Un_cv_pairs (s t : nat -> R) l :
  (forall m, s (2 * m)%nat = t m) -> (forall m, s (S (2 * m)) = t m) -> Un_cv t l -> Un_cv s l.
Proof.
  intros He Ho H eps Heps. destruct (H eps Heps) as [N HN]. exists (2 * N)%nat. intros n Hn.
  destruct (Nat.Even_or_Odd n) as [[m Em]|[m Em]]; subst n.
  - rewrite He. apply HN. lia.
  - replace (2 * m + 1)%nat with (S (2 * m)) by lia. rewrite Ho. apply HN. lia.
Qed.

Lemma Un_cv_unshift (s : nat -> R) l : Un_cv (fun n => s (S n)) l -> Un_cv s l.
Proof.
  intros H eps Heps. destruct (H eps Heps) as [N HN]. exists (S N). intros n Hn.
  destruct n as [|n]; [lia|]. apply HN. lia.
Qed.

Lemma Un_cv_scal c (s : nat -> R) l : Un_cv s l -> Un_cv (fun n => c * s n) (c * l).
Proof.
  intros H. apply (CV_mult (fun _ => c) s c l); [|exact H].
  intros eps Heps. exists 0%nat. intros n _. unfold R_dist. rewrite Rminus_diag_eq, Rabs_R0 by reflexivity. exact Heps.
Qed.

Lemma exp_series_R x : infinite_sum (expq x) (exp x).
Proof. unfold exp. destruct (exist_exp x) as [l Hl]. exact Hl. Qed.

Lemma cosq_series y : infinite_sum (cosq y) (cos y).
Proof.
  assert (Hc : infinite_sum (fun i => cos_n i * Rsqr y ^ i) (cos y)).
  { unfold cos. destruct (exist_cos (Rsqr y)) as [l Hl]. exact Hl. }
  pose proof (sum_interleave_even (cosq y) (fun i => cos_n i * Rsqr y ^ i)
                (fun k => proj1 (cosq_terms y k)) (fun k => proj2 (cosq_terms y k))) as HS.
  apply (Un_cv_pairs (sum_f_R0 (cosq y)) (sum_f_R0 (fun i => cos_n i * Rsqr y ^ i))).
  - intros m. apply HS.
  - intros m. apply HS.
  - exact Hc.
Qed.

Lemma sum_f_R0_scal_l c (f : nat -> R) N : sum_f_R0 (fun i => c * f i) N = c * sum_f_R0 f N.
Proof. induction N as [|N IH]; cbn [sum_f_R0]; [reflexivity | rewrite IH; ring]. Qed.

Lemma sinq_series y : infinite_sum (sinq y) (sin y).
Proof.
  assert (Hs : Un_cv (sum_f_R0 (fun i => y * (sin_n i * Rsqr y ^ i))) (sin y)).
  { apply (Un_cv_ext _ (fun N => y * sum_f_R0 (fun i => sin_n i * Rsqr y ^ i) N)).
    - intros N. apply sum_f_R0_scal_l.
    - unfold sin. destruct (exist_sin (Rsqr y)) as [l Hl]. apply Un_cv_scal. exact Hl. }
  (* the shifted sequence n |-> sinq y (S n) has its non-zero terms at the even places; sinq y 0 = 0 *)
  assert (Ho : forall k, sinq y (S (S (2 * k))) = 0).
  { intros k. replace (S (S (2 * k))) with (2 * S k)%nat by lia. apply sinq_terms. }
  pose proof (sum_interleave_even (fun n => sinq y (S n)) (fun i => y * (sin_n i * Rsqr y ^ i))
                (fun k => proj2 (sinq_terms y k)) Ho) as HS.
  assert (H0 : sinq y 0 = 0) by apply (proj1 (sinq_terms y 0)).
  apply Un_cv_unshift.
  apply (Un_cv_ext _ (sum_f_R0 (fun k => sinq y (S k)))).
  { intros n. rewrite (decomp_sum (sinq y) (S n)) by lia. rewrite H0. cbn [pred]. ring. }
  apply (Un_cv_pairs _ (sum_f_R0 (fun i => y * (sin_n i * Rsqr y ^ i)))).
  - intros m. apply HS.
  - intros m. apply HS.
  - exact Hs.
Qed.

(* ---------- absolute convergence, and the Cauchy product (Coquelicot's Mertens theorem for real series) ---------- *)
Lemma expq_abs x n : Rabs (expq x n) = expq (Rabs x) n.
Proof.
  unfold expq. rewrite Rabs_mult, RPow_abs. f_equal.
  apply Rabs_pos_eq. left. apply Rinv_0_lt_compat, INR_fact_lt_0.
Qed.

Lemma expq_abs_ex x : Series.ex_series (fun n => Rabs (expq x n)).
Proof.
  exists (exp (Rabs x)). apply (Series.is_series_ext (expq (Rabs x))).
  - intros n. symmetry. apply expq_abs.
  - apply Series.is_series_Reals, exp_series_R.
Qed.

Lemma dominated_abs_ex (a : nat -> R) y :
  (forall n, Rabs (a n) <= expq (Rabs y) n) -> Series.ex_series (fun n => Rabs (a n)).
Proof.
  intros H.
  apply (Series.ex_series_le (K := Hierarchy.R_AbsRing) (V := Hierarchy.R_CompleteNormedModule)
           (fun n => Rabs (a n)) (expq (Rabs y))).
  - intros n. change (Rabs (Rabs (a n)) <= expq (Rabs y) n). rewrite Rabs_Rabsolu. apply H.
  - exists (exp (Rabs y)). apply Series.is_series_Reals, exp_series_R.
Qed.

Lemma expq_nonneg x n : 0 <= expq (Rabs x) n.
Proof. rewrite <- expq_abs. apply Rabs_pos. Qed.

Lemma cosq_abs_ex y : Series.ex_series (fun n => Rabs (cosq y n)).
Proof.
  apply (dominated_abs_ex _ y). intros n. unfold cosq. rewrite Rabs_mult, expq_abs.
  rewrite <- (Rmult_1_l (expq (Rabs y) n)) at 2.
  apply Rmult_le_compat_r; [apply expq_nonneg | apply ipow_bound].
Qed.

Lemma sinq_abs_ex y : Series.ex_series (fun n => Rabs (sinq y n)).
Proof.
  apply (dominated_abs_ex _ y). intros n. unfold sinq. rewrite Rabs_mult, expq_abs.
  rewrite <- (Rmult_1_l (expq (Rabs y) n)) at 2.
  apply Rmult_le_compat_r; [apply expq_nonneg | apply ipow_bound].
Qed.

Lemma cauchy_product_R (a b : nat -> R) la lb :
  infinite_sum a la -> infinite_sum b lb ->
  Series.ex_series (fun n => Rabs (a n)) -> Series.ex_series (fun n => Rabs (b n)) ->
  infinite_sum (fun n => sum_f_R0 (fun k => a k * b (n - k)%nat) n) (la * lb).
Proof.
  intros Ha Hb Haa Hbb. apply Series.is_series_Reals.
  apply Series.is_series_mult; try assumption; apply Series.is_series_Reals; assumption.
Qed.

(* ---------- the exponential series ---------- *)
Lemma cexp_series_lemma (z : C) : cconv (cpsum cexp_coeff z) (cexp z).
Proof.
  destruct z as [x y]. unfold cconv, cexp. cbn [re im fst snd].
  split.
  - apply (Un_cv_ext _ (sum_f_R0 (fun n => sum_f_R0 (fun k => expq x k * cosq y (n - k)) n))).
    + intros N. unfold cpsum. rewrite re_csum. apply sum_eq. intros n _.
      apply (proj1 (eterm_components x y n)).
    + apply (cauchy_product_R (expq x) (cosq y)).
      * apply exp_series_R. * apply cosq_series. * apply expq_abs_ex. * apply cosq_abs_ex.
  - apply (Un_cv_ext _ (sum_f_R0 (fun n => sum_f_R0 (fun k => expq x k * sinq y (n - k)) n))).
    + intros N. unfold cpsum. rewrite im_csum. apply sum_eq. intros n _.
      apply (proj2 (eterm_components x y n)).
    + apply (cauchy_product_R (expq x) (sinq y)).
      * apply exp_series_R. * apply sinq_series. * apply expq_abs_ex. * apply sinq_abs_ex.
Qed.
