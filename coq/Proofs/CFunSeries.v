(* Proofs/CFunSeries.v -- the series half of C14 for the exponential: for every complex z the partial sums of
   sum_n z^n / n!  (powers and sums formed with the model's cmul / cadd of Model/CFun.v) converge, component by
   component, to the model's cexp z = (exp x cos y, exp x sin y).

   Route: (1) finite sums / natural powers in the ring C and the binomial theorem in the scaled form
              (a+b)^n/n! = sum_{k<=n} a^k/k! * b^(n-k)/(n-k)!;
          (2) powers of a real number and of a purely imaginary number; the component series of sum (iy)^n/n! are
              the standard library's defining series of cos y and sin y with zeros interleaved;
          (3) z = x + iy: the components of z^n/n! are the Cauchy products of the real series x^k/k! with the two
              component series of (2); Coquelicot's Mertens theorem [is_series_mult] for absolutely convergent real
              series gives the limits exp x * cos y and exp x * sin y.
   The definitions below (cpown, csum, cpsum, cconv) are specification vocabulary, not models of source code. *)
From Coq Require Import Reals Lra Lia Field.
From Coquelicot Require Hierarchy Series Lim_seq.
From OV Require Import Model.CFun Proofs.CFunArg Proofs.CFun Proofs.CFunAlg.
Local Open Scope R_scope.

(* ---------- vocabulary ---------- *)
Fixpoint cpown (z : C) (n : nat) : C :=
  match n with O => cone | S k => cmul z (cpown z k) end.

(* sum_{n <= N} f n, with the model's addition *)
Fixpoint csum (f : nat -> C) (N : nat) : C :=
  match N with O => f O | S k => cadd (csum f k) (f (S k)) end.

(* partial sum of the power series sum a_n z^n *)
Definition cpsum (a : nat -> C) (z : C) (N : nat) : C :=
  csum (fun n => cmul (a n) (cpown z n)) N.

(* convergence in C = convergence of both components (standard library's Un_cv) *)
Definition cconv (s : nat -> C) (l : C) : Prop :=
  Un_cv (fun N => re (s N)) (re l) /\ Un_cv (fun N => im (s N)) (im l).

Definition cexp_coeff (n : nat) : C := RtoC (/ INR (fact n)).
Definition eterm (n : nat) (z : C) : C := cmul (cexp_coeff n) (cpown z n).

(* ---------- finite sums ---------- *)
Lemma csum_S f N : csum f (S N) = cadd (csum f N) (f (S N)).
Proof. reflexivity. Qed.

Lemma csum_shift f N : csum f (S N) = cadd (f O) (csum (fun k => f (S k)) N).
Proof.
  induction N as [|N IH].
  - reflexivity.
  - rewrite (csum_S f (S N)), IH, (csum_S (fun k => f (S k)) N). ring.
Qed.

Lemma csum_scal c f N : cmul c (csum f N) = csum (fun k => cmul c (f k)) N.
Proof.
  induction N as [|N IH].
  - reflexivity.
  - rewrite !csum_S, <- IH. ring.
Qed.

Lemma csum_add f g N : cadd (csum f N) (csum g N) = csum (fun k => cadd (f k) (g k)) N.
Proof.
  induction N as [|N IH].
  - reflexivity.
  - rewrite !csum_S, <- IH. ring.
Qed.

Lemma csum_ext f g N : (forall k, (k <= N)%nat -> f k = g k) -> csum f N = csum g N.
Proof.
  induction N as [|N IH]; intros H.
  - cbn [csum]. apply H. lia.
  - rewrite !csum_S, IH, (H (S N)) by (intros; try apply H; lia). reflexivity.
Qed.

Lemma re_csum f N : re (csum f N) = sum_f_R0 (fun n => re (f n)) N.
Proof.
  induction N as [|N IH].
  - reflexivity.
  - rewrite csum_S. cbn [sum_f_R0]. rewrite <- IH. reflexivity.
Qed.

Lemma im_csum f N : im (csum f N) = sum_f_R0 (fun n => im (f n)) N.
Proof.
  induction N as [|N IH].
  - reflexivity.
  - rewrite csum_S. cbn [sum_f_R0]. rewrite <- IH. reflexivity.
Qed.

(* ---------- real scalars ---------- *)
Lemma RtoC_mul a b : RtoC (a * b) = cmul (RtoC a) (RtoC b).
Proof. csimpl; f_equal; ring. Qed.
Lemma RtoC_add a b : RtoC (a + b) = cadd (RtoC a) (RtoC b).
Proof. csimpl; f_equal; ring. Qed.
Lemma RtoC_0 : RtoC 0 = czero.
Proof. reflexivity. Qed.

Lemma cmul_RtoC_cancel r u v : r <> 0 -> cmul (RtoC r) u = cmul (RtoC r) v -> u = v.
Proof.
  intros Hr H. destruct u as [u1 u2], v as [v1 v2]. revert H. csimpl. intros H.
  inversion H as [[E1 E2]]. f_equal; apply (Rmult_eq_reg_l r); try exact Hr; lra.
Qed.

(* ---------- the terms z^n / n! and the scaled binomial theorem ---------- *)
Lemma INR_S_neq0 n : INR (S n) <> 0.
Proof. apply not_0_INR. discriminate. Qed.

Lemma cexp_coeff_S n : cexp_coeff (S n) = cmul (RtoC (/ INR (S n))) (cexp_coeff n).
Proof.
  unfold cexp_coeff. rewrite <- RtoC_mul. f_equal.
  change (fact (S n)) with (S n * fact n)%nat. rewrite mult_INR.
  field. split; [apply INR_fact_neq_0 | apply INR_S_neq0].
Qed.

(* (n+1) * z^(n+1)/(n+1)! = z * z^n/n! *)
Lemma eterm_S n z : cmul (RtoC (INR (S n))) (eterm (S n) z) = cmul z (eterm n z).
Proof.
  unfold eterm. rewrite cexp_coeff_S. cbn [cpown].
  replace (cmul (RtoC (INR (S n))) (cmul (cmul (RtoC (/ INR (S n))) (cexp_coeff n)) (cmul z (cpown z n))))
    with (cmul (cmul (RtoC (INR (S n))) (RtoC (/ INR (S n)))) (cmul z (cmul (cexp_coeff n) (cpown z n)))) by ring.
  rewrite <- RtoC_mul, Rinv_r by apply INR_S_neq0. rewrite RtoC_1. ring.
Qed.

Lemma eterm_0 z : eterm 0 z = cone.
Proof. unfold eterm, cexp_coeff. cbn [cpown fact INR]. rewrite Rinv_1, RtoC_1. ring. Qed.

Lemma eterm_binomial a b n :
  eterm n (cadd a b) = csum (fun k => cmul (eterm k a) (eterm (n - k) b)) n.
Proof.
  induction n as [|n IH].
  - cbn [csum Nat.sub]. rewrite !eterm_0. ring.
  - apply (cmul_RtoC_cancel (INR (S n))); [apply INR_S_neq0|].
    rewrite eterm_S, IH.
    (* split (a+b) * sum into the two shifted sums *)
    assert (HA : cmul a (csum (fun k => cmul (eterm k a) (eterm (n - k) b)) n)
                 = csum (fun j => cmul (RtoC (INR j)) (cmul (eterm j a) (eterm (S n - j) b))) (S n)).
    { rewrite csum_shift. cbv beta. change (INR 0) with 0. rewrite RtoC_0, csum_scal.
      replace (cmul czero (cmul (eterm 0 a) (eterm (S n - 0) b))) with czero by ring.
      replace (cadd czero (csum (fun k => cmul (RtoC (INR (S k))) (cmul (eterm (S k) a) (eterm (S n - S k) b))) n))
        with (csum (fun k => cmul (RtoC (INR (S k))) (cmul (eterm (S k) a) (eterm (S n - S k) b))) n) by ring.
      apply csum_ext. intros k _. cbn [Nat.sub].
      replace (cmul (RtoC (INR (S k))) (cmul (eterm (S k) a) (eterm (n - k) b)))
        with (cmul (cmul (RtoC (INR (S k))) (eterm (S k) a)) (eterm (n - k) b)) by ring.
      rewrite eterm_S. ring. }
    assert (HB : cmul b (csum (fun k => cmul (eterm k a) (eterm (n - k) b)) n)
                 = csum (fun j => cmul (RtoC (INR (S n - j))) (cmul (eterm j a) (eterm (S n - j) b))) (S n)).
    { rewrite csum_S. cbv beta. rewrite Nat.sub_diag. change (INR 0) with 0. rewrite RtoC_0, csum_scal.
      replace (cmul czero (cmul (eterm (S n) a) (eterm 0 b))) with czero by ring.
      replace (cadd (csum (fun j => cmul (RtoC (INR (S n - j))) (cmul (eterm j a) (eterm (S n - j) b))) n) czero)
        with (csum (fun j => cmul (RtoC (INR (S n - j))) (cmul (eterm j a) (eterm (S n - j) b))) n) by ring.
      apply csum_ext. intros k Hk. rewrite (Nat.sub_succ_l k n Hk).
      replace (cmul (RtoC (INR (S (n - k)))) (cmul (eterm k a) (eterm (S (n - k)) b)))
        with (cmul (eterm k a) (cmul (RtoC (INR (S (n - k)))) (eterm (S (n - k)) b))) by ring.
      rewrite eterm_S. ring. }
    replace (cmul (cadd a b) (csum (fun k => cmul (eterm k a) (eterm (n - k) b)) n))
      with (cadd (cmul a (csum (fun k => cmul (eterm k a) (eterm (n - k) b)) n))
                 (cmul b (csum (fun k => cmul (eterm k a) (eterm (n - k) b)) n))) by ring.
    rewrite HA, HB, csum_add, csum_scal. apply csum_ext. intros j Hj.
    replace (INR (S n)) with (INR j + INR (S n - j)) by (rewrite <- plus_INR; f_equal; lia).
    rewrite RtoC_add. ring.
Qed.
