(* Proofs/Round2CGNorm.v -- package round2, C08 (drift of the residual recurrence), part 1: the analysis of ONE update
        x' = fl(x + fl(alpha p)),   r' = fl(r - fl(alpha q)),   q = computed A p
   of a Krylov solver in the standard model of floating-point arithmetic (Base/RoundModel.v), normwise, for ANY monotone
   seminorm N on vectors (functions nat -> R read on the indices below n):

     axpy_drift :  (1 - rho) N(d') <= N(d) + (eA (1 + 2 rho) + 4 rho NA) X + rho N(b)
         d  = b - A x  - r    (the gap between the true residual and the recurrence residual before the update)
         d' = b - A x' - r'   (after),   rho = u / (1 - u),
         NA : N(A f) <= NA N(f),   eA : N(q - A p) <= eA N(p)   (accuracy of the computed product),
         X  : bounds N(fl(alpha p)) and N(x').

   Vectors are functions nat -> R, the matrix is its entries a i j, A f = Sum_j a i j f j (exact real sums).
   [N2 n] (the Euclidean norm on the first n components) is such a seminorm ([N2_nonneg], [N2_tri], [N2_le]). *)
From Coq Require Import List Arith Lia Reals Lra Psatz.
From OV Require Import Base.Panic Base.Arith Base.RoundModel.
From OV Require Proofs.VectorR.
Import ListNotations.
Local Open Scope R_scope.

(* ---------------------------------------------------------------- one rounding, read backwards *)
Section Back.
Variable u : R.
Hypothesis u_half : 0 <= u < / 2.

Definition rho : R := u / (1 - u).

Lemma rho_range : 0 <= rho < 1.
Proof using u_half.
  unfold rho. split.
  - apply Rmult_le_pos; [lra|]. apply Rlt_le, Rinv_0_lt_compat. lra.
  - apply (Rmult_lt_reg_r (1 - u)); [lra|]. unfold Rdiv. rewrite Rmult_assoc, Rinv_l by lra. lra.
Qed.

Lemma rho_u : u * (1 + rho) = rho.
Proof using u_half. unfold rho. field. lra. Qed.

Lemma rho_1p : 1 + rho = / (1 - u).
Proof using u_half. unfold rho. field. lra. Qed.

(* z = y (1 + d), |d| <= u :  |z - y| <= rho |z|,  |z - y| <= u |y|,  |y| <= (1 + rho) |z| *)
Lemma rel_back z y d : Rabs d <= u -> z = y * (1 + d) ->
  Rabs (z - y) <= rho * Rabs z /\ Rabs (z - y) <= u * Rabs y /\ Rabs y <= (1 + rho) * Rabs z.
Proof using u_half.
  intros Hd E.
  assert (Hd' : - u <= d <= u) by (unfold Rabs in Hd; destruct (Rcase_abs d); lra).
  assert (P : 0 < 1 + d) by lra.
  assert (Ez : Rabs z = Rabs y * (1 + d)) by (rewrite E, Rabs_mult, (Rabs_pos_eq (1 + d)); lra).
  assert (Ed : Rabs (z - y) = Rabs y * Rabs d).
  { replace (z - y) with (y * d) by (rewrite E; ring). apply Rabs_mult. }
  pose proof (Rabs_pos y) as Py. pose proof (Rabs_pos d) as Pd.
  assert (Hy : Rabs y <= (1 + rho) * Rabs z).
  { rewrite rho_1p, Ez. apply (Rmult_le_reg_l (1 - u)); [lra|].
    rewrite <- Rmult_assoc, Rinv_r by lra. nra. }
  split; [|split; [rewrite Ed; nra|exact Hy]].
  rewrite Ed. apply Rle_trans with (u * Rabs y); [nra|].
  apply Rle_trans with (u * ((1 + rho) * Rabs z)); [pose proof (Rabs_pos z); nra|].
  rewrite <- Rmult_assoc, rho_u. lra.
Qed.

End Back.

(* ---------------------------------------------------------------- the update under a monotone seminorm *)
Section Seminorm.
Variable u : R.
Hypothesis u_half : 0 <= u < / 2.
Notation rho := (rho u).

Variable n : nat.
Variable N : (nat -> R) -> R.
Hypothesis N_nonneg : forall f, 0 <= N f.
Hypothesis N_tri : forall f g, N (fun k => f k + g k) <= N f + N g.
Hypothesis N_le : forall c f g, 0 <= c -> (forall k, (k < n)%nat -> Rabs (f k) <= c * Rabs (g k)) -> N f <= c * N g.

Lemma N_le1 f g : (forall k, (k < n)%nat -> Rabs (f k) <= Rabs (g k)) -> N f <= N g.
Proof using N_le.
  intros H. rewrite <- (Rmult_1_l (N g)). apply N_le; [lra|]. intros k Hk. specialize (H k Hk). lra.
Qed.

Lemma N_ext f g : (forall k, (k < n)%nat -> f k = g k) -> N f = N g.
Proof using N_le.
  intros H. apply Rle_antisym; apply N_le1; intros k Hk; rewrite (H k Hk); lra.
Qed.

Lemma N_sub f g : N (fun k => f k - g k) <= N f + N g.
Proof using N_le N_tri.
  apply Rle_trans with (N f + N (fun k => - g k)); [apply (N_tri f (fun k => - g k))|].
  assert (N (fun k => - g k) <= N g) by (apply N_le1; intros k _; rewrite Rabs_Ropp; lra). lra.
Qed.

(* the matrix *)
Variable a : nat -> nat -> R.
Definition Ax (f : nat -> R) : nat -> R := fun i => Rsum n (fun j => a i j * f j).

Lemma Ax_sub2 f g h i : Ax (fun j => f j - g j - h j) i = Ax f i - Ax g i - Ax h i.
Proof. unfold Ax. rewrite <- !Rsum_minus. apply Rsum_ext. intros j _. ring. Qed.

Lemma Ax_sub_scal f g c i : Ax (fun j => f j - c * g j) i = Ax f i - c * Ax g i.
Proof. unfold Ax. rewrite <- Rsum_scal, <- Rsum_minus. apply Rsum_ext. intros j _. ring. Qed.

Lemma Ax_scal g c i : Ax (fun j => c * g j) i = c * Ax g i.
Proof. unfold Ax. rewrite <- Rsum_scal. apply Rsum_ext. intros j _. ring. Qed.

Lemma Ax_ext f g i : (forall j, (j < n)%nat -> f j = g j) -> Ax f i = Ax g i.
Proof. intros H. unfold Ax. apply Rsum_ext. intros j Hj. now rewrite H. Qed.

Variable NA : R.
Hypothesis NA_nonneg : 0 <= NA.
Hypothesis NA_ok : forall f, N (Ax f) <= NA * N f.

Lemma axpy_drift (b x r p q uu w x' r' : nat -> R) (alpha eA X : R) :
  0 <= eA ->
  N (fun k => q k - Ax p k) <= eA * N p ->
  (forall k, (k < n)%nat -> exists d, Rabs d <= u /\ uu k = alpha * p k * (1 + d)) ->
  (forall k, (k < n)%nat -> exists d, Rabs d <= u /\ w k = alpha * q k * (1 + d)) ->
  (forall k, (k < n)%nat -> exists d, Rabs d <= u /\ x' k = (x k + uu k) * (1 + d)) ->
  (forall k, (k < n)%nat -> exists d, Rabs d <= u /\ r' k = (r k - w k) * (1 + d)) ->
  N uu <= X -> N x' <= X ->
  (1 - rho) * N (fun k => b k - Ax x' k - r' k)
    <= N (fun k => b k - Ax x k - r k) + (eA * (1 + 2 * rho) + 4 * rho * NA) * X + rho * N b.
Proof using u_half N_nonneg N_tri N_le NA_nonneg NA_ok.
  intros HeA Hq Hu Hw Hx Hr HXu HXx.
  pose proof (rho_range u u_half) as Rr.
  set (d := fun k => b k - Ax x k - r k). set (d' := fun k => b k - Ax x' k - r' k).
  set (T1 := fun k => alpha * (q k - Ax p k)).
  set (T2 := fun k => w k - alpha * q k).
  set (eu := fun j => uu j - alpha * p j).
  set (ex := fun j => x' j - x j - uu j).
  set (T5 := fun k => r' k - (r k - w k)).
  (* the pieces *)
  assert (Buu : forall k, (k < n)%nat ->
            Rabs (eu k) <= rho * Rabs (uu k) /\ Rabs (alpha * p k) <= (1 + rho) * Rabs (uu k)).
  { intros k Hk. destruct (Hu k Hk) as (dl & Hd & E).
    destruct (rel_back u u_half (uu k) (alpha * p k) dl Hd E) as (B1 & _ & B3). split; assumption. }
  assert (Nap : Rabs alpha * N p <= (1 + rho) * N uu).
  { destruct (Req_dec alpha 0) as [Z|NZ].
    - rewrite Z, Rabs_R0, Rmult_0_l. apply Rmult_le_pos; [lra|apply N_nonneg].
    - assert (Pa : 0 < Rabs alpha) by now apply Rabs_pos_lt.
      assert (Hp : N p <= (1 + rho) / Rabs alpha * N uu).
      { apply N_le.
        - apply Rmult_le_pos; [lra|]. apply Rlt_le, Rinv_0_lt_compat. exact Pa.
        - intros k Hk. destruct (Buu k Hk) as (_ & B). rewrite Rabs_mult in B.
          apply (Rmult_le_reg_l (Rabs alpha)); [exact Pa|].
          replace (Rabs alpha * ((1 + rho) / Rabs alpha * Rabs (uu k))) with ((1 + rho) * Rabs (uu k))
            by (field; lra).
          exact B. }
      apply Rle_trans with (Rabs alpha * ((1 + rho) / Rabs alpha * N uu));
        [apply Rmult_le_compat_l; [lra|exact Hp]|].
      apply Req_le. field. lra. }
  assert (B1 : N T1 <= eA * ((1 + rho) * N uu)).
  { apply Rle_trans with (Rabs alpha * N (fun k => q k - Ax p k)).
    - apply N_le; [apply Rabs_pos|]. intros k _. unfold T1. rewrite Rabs_mult. lra.
    - apply Rle_trans with (Rabs alpha * (eA * N p)); [apply Rmult_le_compat_l; [apply Rabs_pos|exact Hq]|].
      replace (Rabs alpha * (eA * N p)) with (eA * (Rabs alpha * N p)) by ring.
      apply Rmult_le_compat_l; assumption. }
  assert (Bap : N (fun k => alpha * p k) <= (1 + rho) * N uu).
  { apply N_le; [lra|]. intros k Hk. apply (Buu k Hk). }
  assert (Baq : N (fun k => alpha * q k) <= (NA + eA) * ((1 + rho) * N uu)).
  { rewrite (N_ext (fun k => alpha * q k) (fun k => Ax (fun j => alpha * p j) k + T1 k)).
    2:{ intros k _. unfold T1. rewrite Ax_scal. ring. }
    eapply Rle_trans; [apply N_tri|].
    pose proof (NA_ok (fun j => alpha * p j)) as H1.
    assert (NA * N (fun j => alpha * p j) <= NA * ((1 + rho) * N uu)) by (apply Rmult_le_compat_l; assumption).
    lra. }
  assert (B2 : N T2 <= rho * (NA + eA) * N uu).
  { apply Rle_trans with (u * N (fun k => alpha * q k)).
    - apply N_le; [lra|]. intros k Hk. destruct (Hw k Hk) as (dl & Hd & E).
      destruct (rel_back u u_half (w k) (alpha * q k) dl Hd E) as (_ & B & _). exact B.
    - apply Rle_trans with (u * ((NA + eA) * ((1 + rho) * N uu)));
        [apply Rmult_le_compat_l; [lra|exact Baq]|].
      replace (u * ((NA + eA) * ((1 + rho) * N uu))) with ((u * (1 + rho)) * (NA + eA) * N uu) by ring.
      rewrite (rho_u u u_half). lra. }
  assert (B3 : N (Ax eu) <= NA * (rho * N uu)).
  { eapply Rle_trans; [apply NA_ok|]. apply Rmult_le_compat_l; [exact NA_nonneg|].
    apply N_le; [lra|]. intros k Hk. apply (Buu k Hk). }
  assert (B4 : N (Ax ex) <= NA * (rho * N x')).
  { eapply Rle_trans; [apply NA_ok|]. apply Rmult_le_compat_l; [exact NA_nonneg|].
    apply N_le; [lra|]. intros k Hk. destruct (Hx k Hk) as (dl & Hd & E).
    destruct (rel_back u u_half (x' k) (x k + uu k) dl Hd E) as (B & _ & _).
    unfold ex. replace (x' k - x k - uu k) with (x' k - (x k + uu k)) by ring. exact B. }
  assert (B5 : N T5 <= rho * N r').
  { apply N_le; [lra|]. intros k Hk. destruct (Hr k Hk) as (dl & Hd & E).
    destruct (rel_back u u_half (r' k) (r k - w k) dl Hd E) as (B & _ & _). exact B. }
  assert (Br : N r' <= N b + NA * N x' + N d').
  { rewrite (N_ext r' (fun k => (b k - Ax x' k) - d' k)) by (intros k _; unfold d'; ring).
    eapply Rle_trans; [apply N_sub|].
    pose proof (N_sub b (Ax x')) as H1. pose proof (NA_ok x') as H2. lra. }
  (* the identity and the triangle inequality *)
  assert (Bd : N d' <= N d + N T1 + N T2 + N (Ax eu) + N (Ax ex) + N T5).
  { rewrite (N_ext d' (fun k => (((d k + T1 k) + T2 k) - Ax eu k) - Ax ex k - T5 k)).
    2:{ intros k _. unfold d', d, T1, T2, T5, eu, ex. rewrite Ax_sub_scal, Ax_sub2. ring. }
    eapply Rle_trans; [apply (N_sub (fun k => d k + T1 k + T2 k - Ax eu k - Ax ex k) T5)|].
    apply Rplus_le_compat_r.
    eapply Rle_trans; [apply (N_sub (fun k => d k + T1 k + T2 k - Ax eu k) (Ax ex))|].
    apply Rplus_le_compat_r.
    eapply Rle_trans; [apply (N_sub (fun k => d k + T1 k + T2 k) (Ax eu))|].
    apply Rplus_le_compat_r.
    eapply Rle_trans; [apply (N_tri (fun k => d k + T1 k) T2)|].
    apply Rplus_le_compat_r. apply N_tri. }
  pose proof (N_nonneg uu) as P1. pose proof (N_nonneg x') as P2. pose proof (N_nonneg d') as P3.
  pose proof (N_nonneg b) as P4.
  assert (M1 : eA * ((1 + rho) * N uu) <= eA * ((1 + rho) * X)) by (apply Rmult_le_compat_l; [lra|nra]).
  assert (M2 : rho * (NA + eA) * N uu <= rho * (NA + eA) * X) by (apply Rmult_le_compat_l; [nra|lra]).
  assert (M3 : NA * (rho * N uu) <= NA * (rho * X)) by (apply Rmult_le_compat_l; [lra|nra]).
  assert (M4 : NA * (rho * N x') <= NA * (rho * X)) by (apply Rmult_le_compat_l; [lra|nra]).
  assert (M5 : rho * N r' <= rho * (N b + NA * X + N d')).
  { apply Rmult_le_compat_l; [lra|]. assert (NA * N x' <= NA * X) by (apply Rmult_le_compat_l; lra). lra. }
  fold d d'. lra.
Qed.

(* the first residual  r0 = fl(b - ax),  ax = computed A x0 *)
Lemma start_drift (b x ax r0 : nat -> R) (eA X : R) :
  0 <= eA ->
  N (fun k => ax k - Ax x k) <= eA * N x ->
  (forall k, (k < n)%nat -> exists d, Rabs d <= u /\ r0 k = (b k - ax k) * (1 + d)) ->
  N x <= X ->
  (1 - rho) * N (fun k => b k - Ax x k - r0 k) <= (rho * NA + eA) * X + rho * N b.
Proof using u_half N_nonneg N_tri N_le NA_nonneg NA_ok.
  intros HeA Hq Hr HX. pose proof (rho_range u u_half) as Rr.
  set (d := fun k => b k - Ax x k - r0 k).
  set (e0 := fun k => ax k - Ax x k). set (T5 := fun k => r0 k - (b k - ax k)).
  assert (B5 : N T5 <= rho * N r0).
  { apply N_le; [lra|]. intros k Hk. destruct (Hr k Hk) as (dl & Hd & E).
    destruct (rel_back u u_half (r0 k) (b k - ax k) dl Hd E) as (B & _ & _). exact B. }
  assert (Br : N r0 <= N b + NA * N x + N d).
  { rewrite (N_ext r0 (fun k => (b k - Ax x k) - d k)) by (intros k _; unfold d; ring).
    eapply Rle_trans; [apply N_sub|].
    pose proof (N_sub b (Ax x)) as H1. pose proof (NA_ok x) as H2. lra. }
  assert (Bd : N d <= N e0 + N T5).
  { rewrite (N_ext d (fun k => e0 k - T5 k)) by (intros k _; unfold d, e0, T5; ring). apply N_sub. }
  pose proof (N_nonneg x) as P1. pose proof (N_nonneg d) as P3. pose proof (N_nonneg b) as P4.
  assert (M1 : eA * N x <= eA * X) by (apply Rmult_le_compat_l; lra).
  assert (M5 : rho * N r0 <= rho * (N b + NA * X + N d)).
  { apply Rmult_le_compat_l; [lra|]. assert (NA * N x <= NA * X) by (apply Rmult_le_compat_l; lra). lra. }
  fold d. unfold e0 in Bd. lra.
Qed.

End Seminorm.

(* ---------------------------------------------------------------- the Euclidean norm on the first n components *)
Definition N2 (n : nat) (f : nat -> R) : R := R_sqrt.sqrt (Rsum n (fun k => f k * f k)).

Lemma ssq_nonneg n f : 0 <= Rsum n (fun k => f k * f k).
Proof. apply Rsum_nonneg. intros k _. nra. Qed.

Lemma N2_nonneg n f : 0 <= N2 n f.
Proof. apply sqrt_pos. Qed.

Lemma Rsum_cs n (f g : nat -> R) :
  Rsum n (fun k => f k * g k) * Rsum n (fun k => f k * g k) <= Rsum n (fun k => f k * f k) * Rsum n (fun k => g k * g k).
Proof.
  induction n as [|n IH]; cbn [Rsum]; [lra|].
  rewrite (Rplus_comm (Rsum n (fun k => f k * g k))), (Rplus_comm (Rsum n (fun k => f k * f k))),
    (Rplus_comm (Rsum n (fun k => g k * g k))).
  apply VectorR.cs_step; [apply ssq_nonneg|apply ssq_nonneg|exact IH].
Qed.

Lemma N2_tri n f g : N2 n (fun k => f k + g k) <= N2 n f + N2 n g.
Proof.
  unfold N2.
  rewrite (Rsum_ext n (fun k => (f k + g k) * (f k + g k)) (fun k => (f k * f k + 2 * (f k * g k)) + g k * g k))
    by (intros; ring).
  rewrite !Rsum_plus, Rsum_scal.
  pose proof (ssq_nonneg n f) as HA. pose proof (ssq_nonneg n g) as HB. pose proof (Rsum_cs n f g) as CS.
  set (A := Rsum n (fun k => f k * f k)) in *. set (B := Rsum n (fun k => g k * g k)) in *.
  set (C := Rsum n (fun k => f k * g k)) in *.
  pose proof (sqrt_pos A) as HP. pose proof (sqrt_pos B) as HQ.
  pose proof (sqrt_sqrt A HA) as EP. pose proof (sqrt_sqrt B HB) as EQ.
  set (P := R_sqrt.sqrt A) in *. set (Q := R_sqrt.sqrt B) in *.
  assert (HC : C <= P * Q).
  { destruct (Rle_dec C (P * Q)) as [|Hn]; auto. exfalso.
    assert (P * Q < C) by lra. assert (0 <= P * Q) by nra.
    assert ((P * Q) * (P * Q) < C * C) by nra.
    replace ((P * Q) * (P * Q)) with ((P * P) * (Q * Q)) in * by ring. rewrite EP, EQ in *. lra. }
  rewrite <- (sqrt_square (P + Q)) by lra.
  apply sqrt_le_1_alt. nra.
Qed.

Lemma N2_le n c f g : 0 <= c -> (forall k, (k < n)%nat -> Rabs (f k) <= c * Rabs (g k)) -> N2 n f <= c * N2 n g.
Proof.
  intros Hc H. unfold N2.
  rewrite <- (sqrt_square c) at 1 by exact Hc. rewrite <- sqrt_mult_alt by nra.
  apply sqrt_le_1_alt. rewrite <- Rsum_scal. apply Rsum_le. intros k Hk. specialize (H k Hk).
  rewrite <- (VectorR.abs_sq (f k)), <- (VectorR.abs_sq (g k)).
  pose proof (Rabs_pos (f k)). pose proof (Rabs_pos (g k)). nra.
Qed.
