(* Proofs/NewtonSys.v -- C17, convergence half for affine systems over a field:
   Newton<Vec64>::solve / solve_jacobian on x -> Mx + c reach an exact root after at most two
   passes (the finite-difference Jacobian of an affine map is M exactly: Proofs/NewtonJac.v).

   The step solver enters through ONE explicit premise, the soundness statement of C01
   (solve_basic A M b = Ok x -> M x = b, DESIGN Appendix E `solve_basic_sound`), which belongs to
   another package; it is a hypothesis of the theorem, not an assumption of the development. *)
From Coq Require Import List Arith Lia Bool Ring_theory Field_theory Ring Field.
From OV Require Import Base.Panic Base.Arith Model.Vector Model.Matrix Model.Solve Model.Newton
  Proofs.Matrix Proofs.NewtonLoop Proofs.Newton Proofs.NewtonJac.
Import ListNotations.

Section AffineSystems.
Context (O : NOps) (FL : FieldLaws (NA O)).
Notation A := (NA O).
Notation R := (NR O).
Add Field Afield2 : (fl_field A FL).

(* (M v)_i as the textbook sum *)
Definition mv (M : matrix A) (v : list A) (i : nat) : A :=
  sum_n (cols M) (fun k => mul (ment O M i k) (nth k v zero)).

(* C01, solve_basic_sound (Appendix E), in the notation of this file *)
Definition solve_basic_sound_stmt : Prop :=
  forall (M : matrix A) (b x : list A), wf M -> rows M = cols M -> length b = rows M ->
    solve_basic M b = Ok x -> length x = rows M /\ forall i, i < rows M -> mv M x i = nth i b zero.

Context (M : matrix A) (c0 : list A) (tl dl : R).
Hypothesis HW : wf M.
Hypothesis Hsq : rows M = cols M.
Hypothesis Hd : emb O dl <> zero.
(* what the stopping test needs from the order: |0| < |0| is false and |0| <= tol *)
Hypothesis Hlt : ltb (mag O zero) (mag O zero) = false.
Hypothesis Hle : leb (mag O zero) tl = true.

Let f (p : list A) : res (list A) := Ok (aff O M c0 p).

Definition is_root (x : list A) : Prop := forall i, i < rows M -> nth i (aff O M c0 x) zero = zero.

Lemma sum_n_zipw_sub (a : nat -> A) (u v : list A) n :
  n <= length u -> n <= length v ->
  sum_n n (fun k => mul (a k) (nth k (zipw sub u v) zero)) =
  sub (sum_n n (fun k => mul (a k) (nth k u zero))) (sum_n n (fun k => mul (a k) (nth k v zero))).
Proof.
  induction n as [|n IH]; intros Hu Hv; cbn [sum_n]; [ring|].
  rewrite IH by lia. rewrite nw_zipw_nth by lia. ring.
Qed.

(* one Newton update with ANY dx solving M dx = f(x) lands on a root *)
Lemma update_is_root x dx :
  length x = cols M -> length dx = rows M ->
  (forall i, i < rows M -> mv M dx i = nth i (aff O M c0 x) zero) ->
  is_root (zipw sub x dx).
Proof.
  intros Lx Ldx Hdx i Hi. rewrite aff_nth by exact Hi.
  rewrite sum_n_zipw_sub by lia.
  specialize (Hdx i Hi). unfold mv in Hdx. rewrite Hdx, aff_nth by exact Hi. ring.
Qed.

(* the residual norm of a vector of zeros is |0| *)
Lemma norm_inf_zeros (v : list A) :
  0 < length v -> (forall i, i < length v -> nth i v zero = zero) -> norm_inf O v = Ok (mag O zero).
Proof.
  intros Hn Hz. unfold norm_inf. rewrite (rd_ok v 0 zero) by exact Hn. cbn [bind]. rewrite Hz by exact Hn.
  destruct (for_inv (fun _ (r : R) => r = mag O zero) 1 (length v)
             (fun i r => let* x := rd v i in if ltb r (mag O x) then Ok (mag O x) else Ok r)
             (mag O zero)) as (r & E & ->); [lia|reflexivity| |exact E].
  intros i r Hi ->. rewrite (rd_ok v i zero) by lia. cbn [bind]. rewrite Hz by lia.
  rewrite Hlt. eauto.
Qed.

Lemma norm_inf_nonempty (v : list A) r : norm_inf O v = Ok r -> 0 < length v.
Proof.
  unfold norm_inf. destruct v; [cbn; discriminate|cbn; lia].
Qed.

Section WithSolver.
Hypothesis Hsolve : solve_basic_sound_stmt.

(* ---- finite-difference variant ---- *)
Lemma sys_pass_affine x x' b e :
  length x = cols M -> sys_step O tl dl f x = Ok (x', b, e) ->
  length x' = cols M /\ is_root x' /\ (is_root x -> b = true).
Proof.
  intros Lx H. apply sys_step_inv in H as (fv & mr & J & jev & dx & Ef & En & EJ & Es & Ldx & -> & -> & _).
  injection Ef as <-.
  destruct (jacobian_affine_eq O FL M c0 x (emb O dl) Hd HW Lx) as (evs' & EJ').
  unfold f in EJ. rewrite EJ' in EJ. injection EJ as <- _.
  destruct (Hsolve M _ dx HW Hsq (aff_length O M c0 x) Es) as [Ldx' Hdx].
  split; [rewrite nw_zipw_length; lia|]. split.
  - apply update_is_root; auto.
  - intros Hr. rewrite norm_inf_zeros in En.
    + injection En as <-. exact Hle.
    + apply norm_inf_nonempty in En. exact En.
    + rewrite aff_length. exact Hr.
Qed.

Lemma newton_sys_affine_lemma n x0 r evs :
  length x0 = cols M -> 2 <= n ->
  newton_sys O (mkCfg tl dl n x0) f = Ok (r, evs) ->
  exists x, r = NOk x /\ is_root x.
Proof.
  intros L0 Hn H. unfold newton_sys in H. cbn [tol delta max_iter guess] in H.
  destruct n as [|[|n]]; try lia. cbn [nloop] in H.
  apply bind_ok in H as ([[x1 b1] e1] & E1 & H).
  destruct (sys_pass_affine _ _ _ _ L0 E1) as (L1 & R1 & _).
  destruct b1. { injection H as <- _. eauto. }
  apply bind_ok in H as ([[x2 b2] e2] & E2 & H).
  destruct (sys_pass_affine _ _ _ _ L1 E2) as (L2 & R2 & Hb). rewrite (Hb R1) in H.
  injection H as <- _. eauto.
Qed.

(* ---- supplied (exact) Jacobian  jac(x) = M ---- *)
Lemma sysjac_pass_affine x x' b e :
  length x = cols M -> sysjac_step O tl f (fun _ => Ok M) x = Ok (x', b, e) ->
  length x' = cols M /\ is_root x' /\ (is_root x -> b = true).
Proof.
  intros Lx H. apply sysjac_step_inv in H as (fv & mr & J & dx & Ef & En & EJ & Es & Ldx & -> & ->).
  injection Ef as <-. injection EJ as <-.
  destruct (Hsolve M _ dx HW Hsq (aff_length O M c0 x) Es) as [Ldx' Hdx].
  split; [rewrite nw_zipw_length; lia|]. split.
  - apply update_is_root; auto.
  - intros Hr. rewrite norm_inf_zeros in En.
    + injection En as <-. exact Hle.
    + apply norm_inf_nonempty in En. exact En.
    + rewrite aff_length. exact Hr.
Qed.

Lemma newton_sysjac_affine_lemma n x0 r evs :
  length x0 = cols M -> 2 <= n ->
  newton_sysjac O (mkCfg tl dl n x0) f (fun _ => Ok M) = Ok (r, evs) ->
  exists x, r = NOk x /\ is_root x.
Proof.
  intros L0 Hn H. unfold newton_sysjac in H. cbn [tol delta max_iter guess] in H.
  destruct n as [|[|n]]; try lia. cbn [nloop] in H.
  apply bind_ok in H as ([[x1 b1] e1] & E1 & H).
  destruct (sysjac_pass_affine _ _ _ _ L0 E1) as (L1 & R1 & _).
  destruct b1. { injection H as <- _. eauto. }
  apply bind_ok in H as ([[x2 b2] e2] & E2 & H).
  destruct (sysjac_pass_affine _ _ _ _ L1 E2) as (L2 & R2 & Hb). rewrite (Hb R1) in H.
  injection H as <- _. eauto.
Qed.

End WithSolver.
End AffineSystems.
