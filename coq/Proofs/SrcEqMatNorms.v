(* Proofs/SrcEqMatNorms.v -- the norms of `impl Matrix<f64>` (src/matrix/functions.rs), regenerated from the source of this
   run as gen/SrcMatNorms.v, against the hand-written model Model/MatNorms.v (package C03): norm_1, norm_inf, norm_max are
   the model functions as they stand; norm_p is the model's accumulation mnorm_p_sum at pw x = powf(x, p), followed by
   1.0 / p and powf(sum, 1/p) (libm powf is a parameter); norm_frob = norm_p(2.0), and it is the model's mnorm_frob under the
   model's stated reading of the two libm calls (powf(x, 2) = x * x, powf(s, 1/2) = sqrt s) -- here explicit hypotheses. *)
From Coq Require Import List Arith ZArith Lia Bool.
From OV Require Import Base.Panic Base.Arith Model.Vector Model.Matrix Model.MatNorms gen.SrcPrelude gen.SrcMatNorms Proofs.SrcEqBase.
Import ListNotations.

Section SrcEqMatNorms.
Context {F : SArith}.
Variable powf : F -> F -> F.
Local Notation A := (SA F).
Local Notation two := (add (@one A) (@one A)).

Lemma src_mnorm_1 (m : matrix A) : s_mnorm_1 m = mnorm_1 m.
Proof. reflexivity. Qed.
Lemma src_mnorm_inf (m : matrix A) : s_mnorm_inf m = mnorm_inf m.
Proof. reflexivity. Qed.
Lemma src_mnorm_max (m : matrix A) : s_mnorm_max m = mnorm_max m.
Proof. reflexivity. Qed.
Lemma src_mnorm_p (m : matrix A) (p : T A) :
  s_mnorm_p powf m p = let* s := mnorm_p_sum (fun x => powf x p) m in let* ip := div one p in Ok (powf s ip).
Proof. reflexivity. Qed.
Lemma src_mnorm_p_root (m : matrix A) (p ip : T A) :
  div one p = Ok ip -> s_mnorm_p powf m p = mnorm_p (fun x => powf x p) (fun s => powf s ip) m.
Proof. intros E. rewrite src_mnorm_p. unfold mnorm_p. apply bind_ext; intros s. rewrite E. reflexivity. Qed.
Lemma src_mnorm_frob (m : matrix A) : s_mnorm_frob powf m = s_mnorm_p powf m two.
Proof. reflexivity. Qed.
Lemma src_mnorm_frob_model (m : matrix A) (half : T A) :
  div one two = Ok half -> (forall x, powf x two = mul x x) -> (forall s, powf s half = sqrt s) ->
  s_mnorm_frob powf m = mnorm_frob m.
Proof.
  intros E H2 Hh. rewrite src_mnorm_frob, src_mnorm_p. unfold mnorm_frob.
  assert (EQ : mnorm_p_sum (fun x => powf x two) m = mnorm_p_sum (fun x => mul x x) m).
  { unfold mnorm_p_sum. apply for_ext; intros i s Hi. apply for_ext; intros j s' Hj.
    apply bind_ext; intros x. now rewrite H2. }
  rewrite EQ. apply bind_ext; intros s. rewrite E. cbn [bind]. now rewrite Hh.
Qed.

Definition model_is_source_MatNorms : Prop :=
  (forall m : matrix A, s_mnorm_1 m = mnorm_1 m) /\
  (forall m : matrix A, s_mnorm_inf m = mnorm_inf m) /\
  (forall m : matrix A, s_mnorm_max m = mnorm_max m) /\
  (forall (m : matrix A) (p : T A),
     s_mnorm_p powf m p = let* s := mnorm_p_sum (fun x => powf x p) m in let* ip := div one p in Ok (powf s ip)) /\
  (forall m : matrix A, s_mnorm_frob powf m = s_mnorm_p powf m two) /\
  (forall (m : matrix A) (half : T A),
     div one two = Ok half -> (forall x, powf x two = mul x x) -> (forall s, powf s half = sqrt s) ->
     s_mnorm_frob powf m = mnorm_frob m).
Lemma model_is_source_MatNorms_lemma : model_is_source_MatNorms.
Proof. exact (conj src_mnorm_1 (conj src_mnorm_inf (conj src_mnorm_max (conj src_mnorm_p (conj src_mnorm_frob src_mnorm_frob_model))))). Qed.

End SrcEqMatNorms.
