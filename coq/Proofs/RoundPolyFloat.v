(* Proofs/RoundPolyFloat.v -- Horner evaluation at the PRIMITIVE-FLOAT instance ([peval] of Model/Poly.v at AF, IEEE
   binary64), through Flocq: Higham's (5.3) for the floats themselves.

     peval_backward_error_float_lemma :  peval (A := AF) p x = Ok r, r finite, no product  acc * x  underflows  ->
        FR r = Sum_i FR a_i (1 + th_i) (FR x)^i ,   |th_i| <= gam (2d),  u = 2^-53,  d = degree

   [horner_partial p x k] is the accumulator after k steps of the loop (a float expression in p and x), so the
   no-underflow condition is about computable values.  Method: a finite final accumulator forces every intermediate
   to be finite (no overflow), each operation is then the correctly rounded exact one, hence the float run maps under
   FR to the run of the SAME [peval] in the total standard-model arithmetic A64r (Proofs/RoundDotFloat.v), to which
   Proofs/RoundPoly.v applies.  Not covered: underflowing products, overflow. *)
From Coq Require Import ZArith Reals Lra Lia List Floats Bool Arith.
From Flocq Require Import Core BinarySingleNaN PrimFloat.
From OV Require Import Base.Panic Base.Arith Base.RoundModel Model.Poly Inst.FloatInst
  Proofs.ComplexRound Proofs.RoundDotFloat Proofs.RoundPoly.
Import ListNotations.
Local Open Scope R_scope.

Definition hloopF (x : pfloat) (rest : list pfloat) (acc : pfloat) : pfloat :=
  fold_left (fun acc a => (acc * x + a)%float) rest acc.

(* the accumulator after k steps of the Horner loop of peval p x *)
Definition horner_partial (p : list pfloat) (x : pfloat) (k : nat) : pfloat :=
  hloopF x (firstn k (tl (rev p))) (hd 0%float (rev p)).

Lemma FR_0' : FR 0%float = 0.
Proof. reflexivity. Qed.

Lemma nth_map_FR' (l : list pfloat) k : nth k (map FR l) 0 = FR (nth k l 0%float).
Proof. rewrite <- FR_0' at 1. apply map_nth. Qed.

Lemma hloop_float_transfer (x : pfloat) (rest : list pfloat) (acc : pfloat) :
  ffinite (hloopF x rest acc) ->
  (forall k, (k < length rest)%nat -> no_underflow (FR (hloopF x (firstn k rest) acc) * FR x)) ->
  FR (hloopF x rest acc) = hloop Fadd Fmul (FR x) (map FR rest) (FR acc).
Proof.
  revert acc. induction rest as [|a rest IH]; intros acc Hf Hu; [reflexivity|].
  change (hloopF x (a :: rest) acc) with (hloopF x rest (acc * x + a)%float) in *.
  assert (Hu' : forall k, (k < length rest)%nat ->
            no_underflow (FR (hloopF x (firstn k rest) (acc * x + a)%float) * FR x)).
  { intros k Hk. exact (Hu (S k) ltac:(cbn; lia)). }
  rewrite (IH _ Hf Hu').
  change (hloop Fadd Fmul (FR x) (map FR (a :: rest)) (FR acc))
    with (hloop Fadd Fmul (FR x) (map FR rest) (Fadd (Fmul (FR acc) (FR x)) (FR a))).
  f_equal.
  (* the accumulator of the rest of the run is finite: invert the two operations of this step *)
  assert (Fa : ffinite (acc * x + a)%float).
  { clear IH Hu Hu'. revert Hf. generalize (acc * x + a)%float. induction rest as [|b rest IHr]; intros s Hs; [exact Hs|].
    change (hloopF x (b :: rest) s) with (hloopF x rest (s * x + b)%float) in Hs.
    specialize (IHr _ Hs). destruct (fadd_finite_inv _ _ IHr) as (Fp & _ & _).
    destruct (fmul_finite_inv _ _ Fp) as (Fs & _ & _). exact Fs. }
  destruct (fadd_finite_inv _ _ Fa) as (Fp & _ & Es). destruct (fmul_finite_inv _ _ Fp) as (_ & _ & Ep).
  pose proof (Hu 0%nat ltac:(cbn; lia)) as U0. cbn [firstn hloopF fold_left] in U0.
  rewrite (Fmul_nounder _ _ U0). rewrite Fadd_fmt by (apply FR_fmt || apply rnd64_fmt).
  rewrite Es, Ep. reflexivity.
Qed.

Lemma peval_float_transfer (p : list pfloat) (x r : pfloat) :
  peval (A := AF) p x = Ok r -> ffinite r ->
  (forall k, (k < length p - 1)%nat -> no_underflow (FR (horner_partial p x k) * FR x)) ->
  peval (A := A64r) (map FR p) (FR x) = Ok (FR r).
Proof.
  intros E Fr Hu. unfold peval in *. rewrite <- map_rev.
  unfold horner_partial in Hu.
  change (T AF) with pfloat in E. destruct (rev p) as [|c rest] eqn:Er; [discriminate|].
  assert (Lr : length rest = (length p - 1)%nat).
  { rewrite <- (rev_length p), Er. cbn. lia. }
  cbn [map]. f_equal.
  change (Ok (hloopF x rest c) = Ok r) in E. injection E as <-.
  cbn [tl hd] in Hu. rewrite <- Lr in Hu. symmetry.
  exact (hloop_float_transfer x rest c Fr Hu).
Qed.

Theorem peval_backward_error_float_lemma (p : list pfloat) (x r : pfloat) :
  peval (A := AF) p x = Ok r -> ffinite r ->
  (forall k, (k < length p - 1)%nat -> no_underflow (FR (horner_partial p x k) * FR x)) ->
  INR (2 * (length p - 1)) * u64 < 1 ->
  exists th : nat -> R,
    (forall i, (i < length p)%nat -> Rabs (th i) <= g64 (2 * (length p - 1))) /\
    FR r = Rsum (length p) (fun i => FR (nth i p 0%float) * (1 + th i) * FR x ^ i).
Proof.
  intros E Fr Hu Hn. pose proof (peval_float_transfer p x r E Fr Hu) as Er.
  destruct (peval_backward_error_lemma u64 u64_range Fadd Fsub Fmul Fdiv Fadd_ok Fmul_ok (map FR p) (FR x) (FR r)
              ltac:(rewrite map_length; exact Hn) Er) as (th & Hth & Ev).
  rewrite map_length in Hth, Ev. exists th. split; [exact Hth|].
  rewrite Ev. apply Rsum_ext. intros i Hi. now rewrite nth_map_FR'.
Qed.

Theorem peval_forward_error_float_lemma (p : list pfloat) (x r : pfloat) :
  peval (A := AF) p x = Ok r -> ffinite r ->
  (forall k, (k < length p - 1)%nat -> no_underflow (FR (horner_partial p x k) * FR x)) ->
  INR (2 * (length p - 1)) * u64 < 1 ->
  Rabs (FR r - Rsum (length p) (fun i => FR (nth i p 0%float) * FR x ^ i))
    <= g64 (2 * (length p - 1)) * Rsum (length p) (fun i => Rabs (FR (nth i p 0%float)) * Rabs (FR x) ^ i).
Proof.
  intros E Fr Hu Hn. destruct (peval_backward_error_float_lemma p x r E Fr Hu Hn) as (th & Hth & ->).
  rewrite <- Rsum_minus.
  rewrite (Rsum_ext _ _ (fun i => (FR (nth i p 0%float) * FR x ^ i) * th i)) by (intros; ring).
  eapply Rle_trans; [apply Rsum_pert_le; exact Hth|].
  apply Rmult_le_compat_l; [now apply (gam_nonneg u64 u64_range)|].
  apply Req_le, Rsum_ext. intros i Hi. now rewrite Rabs_mult, RPow_abs.
Qed.
