(* Proofs/LUQc.v -- the exact-tier instance AQ (Qc) meets PivLaws; concrete non-vacuity inputs. *)
From Coq Require Import List ZArith QArith Qcanon Lia.
From OV Require Import Base.Panic Base.Arith Inst.QcInst Model.Vector Model.Matrix Model.Solve
  Proofs.Matrix Proofs.LUPrim.
Import ListNotations.

Lemma Qc_ltb_lt (x y : Qc) : Qc_ltb x y = true <-> (x < y)%Qc.
Proof. unfold Qc_ltb. rewrite Qclt_alt. destruct (x ?= y)%Qc; split; congruence. Qed.

Lemma Qc_ltb_nlt (x y : Qc) : Qc_ltb x y = false <-> ~ (x < y)%Qc.
Proof. rewrite <- Qc_ltb_lt. destruct (Qc_ltb x y); split; congruence. Qed.

Lemma Qc_neg_pos (x : Qc) : (x < 0)%Qc -> (0 < - x)%Qc.
Proof. intros H. apply Qclt_minus_iff in H. now rewrite Qcplus_0_l in H. Qed.

Lemma AQ_PivLaws : PivLaws AQ.
Proof.
  split; cbn; unfold Qc_abs.
  - intros x. destruct (Qc_ltb x 0) eqn:E.
    + apply Qc_ltb_lt in E. split.
      * intros H. rewrite <- (Qcopp_involutive x), H. reflexivity.
      * intros ->. reflexivity.
    + tauto.
  - intros x Hx. apply Qc_ltb_lt. destruct (Qc_ltb x 0) eqn:E.
    + apply Qc_ltb_lt in E. now apply Qc_neg_pos.
    + apply Qc_ltb_nlt in E. apply Qcnot_lt_le in E. apply Qcle_lt_or_eq in E.
      destruct E as [E|E]; auto. exfalso. apply Hx. now symmetry.
  - intros x. apply Qc_ltb_nlt. destruct (Qc_ltb x 0) eqn:E.
    + apply Qc_ltb_lt in E. apply Qc_neg_pos in E. intros H.
      apply (Qclt_not_eq 0 0); [|reflexivity]. eapply Qclt_trans; eauto.
    + now apply Qc_ltb_nlt in E.
Qed.

(* the non-vacuity matrix of C01/C02: zero leading entry, two row exchanges *)
Definition M3 : matrix AQ := @mkM AQ [q 0 1; q 2 1; q 1 1;  q 1 1; q 1 1; q 0 1;  q 2 1; q 0 1; q 3 1] 3 3.
Definition b3 : list AQ := [q 1 1; q 2 1; q 3 1].
