(* Proofs/PinTest_quadround.v -- compiled copy of Props/pending/C10_quadround.v.txt behind the header of Props/C10.v: proves that the pending blocks compile in that context. *)
From Coq Require Import List Arith.
From OV Require Import Base.Panic Base.Arith gen.Params Model.Roots
                       Proofs.Roots Proofs.RootsMore Proofs.RootsSafe Proofs.RootsRing Proofs.RootsField Proofs.RootsExamples.
Import ListNotations.
(* ================= the FLOAT half for the closed forms, in the standard model of rounding (package quadround) =================
   degree 1 and 2 completely; degree 3: the triple-root branch, and the Cardano branch under the hypotheses that exclude KF-C10-F.
   Proofs/RootsRound.v: the model's poly_solve / quadratic_solve instantiated at [RoundRAo eps O]: Complex<f64> = C = R * R
   (Coquelicot), every ROUNDED complex operation an arbitrary function with normwise relative error eps ([std_model eps O]:
   + - * / , Complex * f64, and Complex::sqrt with relative error eps with respect to SOME square root); negation, conjugation,
   .real, the comparisons `>= 0.0` / `== zero` and the literals 4.0 1.0 -1.0 0.5 exact, as in IEEE arithmetic; every other
   operation of the arithmetic (O : RoundOps) arbitrary.  NO hypothesis on the discriminant: cancellation in b^2 - 4ac does not
   harm the residual (normwise backward error of ONE root); the sign choice of the code is PROVED to avoid cancellation in
   b + sgn * sqrt(disc), with the rounded product conj(b) * sqrt(disc) the code tests.
   NO UNDERFLOW, NO OVERFLOW: [std_model eps O] demands the relative error bound at EVERY argument, so it is a statement about an
   arithmetic with an unbounded exponent range (binary64 satisfies it only on operands whose exact results stay in the normal
   range); [quad_ops_ok eps O a b c] (theorem quadratic_residual_local) demands it exactly at the arguments of the (at most) twelve
   rounded operations performed on the input (a, b, c) -- for binary64: none of these operations underflows or overflows.  Every
   theorem below carries one of the two hypotheses, and that is what excludes the recorded class KF-C10-H
   (findings/C10-closed-form-scale.md: on the real code 1e-30 (x-1)(x-2)(x-3) gives NaN, 1e-85 (x-1)(x-2) gives 1.5 and 1.333,
   because Complex::sqrt / pow / abs / div square their argument's components): see the Example
   quadratic_hypotheses_exclude_KF_C10_H_example -- an arithmetic whose sqrt flushes small arguments to 0, as the code's does,
   violates quad_ops_ok, returns the same wrong values and violates the bound.
   The simultaneous COMPONENTWISE form (both values roots of ONE quadratic with |db| <= k eps |b|) is false -- see
   quadratic_componentwise_simultaneous_refuted_example below (b = 0: the two returned values do not sum to 0); the true simultaneous
   statement is quadratic_simultaneous_backward_error. *)
From Coq Require Import Reals.
From Coquelicot Require Import Complex.
From OV Require Import Proofs.RoundFlx Proofs.RootsRound Proofs.RootsRoundEx Proofs.RootsRoundFwd Proofs.RootsRoundCubic Proofs.RootsRoundCardano Proofs.RootsRoundFlx.

(* degree 1: the returned value is the exact root of c1 x + c0 (1 + d), |d| <= eps (one negation, exact; one division) *)
Theorem linear_root_backward_error : forall (eps : R) (O : RoundOps) (c0 c1 : C),
  (0 <= eps)%R -> std_model eps O -> c1 <> RtoC 0 ->
  exists r d : C, poly_solve (RoundRAo eps O) [c0; c1] false = Ok ([r], []) /\
    (Cmod d <= eps)%R /\ (c1 * r + c0 * (RtoC 1 + d))%C = RtoC 0.
Proof. intros eps O c0 c1. exact (linear_root_backward_error_lemma eps O c0 c1). Qed.
Check linear_root_backward_error : forall (eps : R) (O : RoundOps) (c0 c1 : C),
  (0 <= eps)%R -> std_model eps O -> c1 <> RtoC 0 ->
  exists r d : C, poly_solve (RoundRAo eps O) [c0; c1] false = Ok ([r], []) /\
    (Cmod d <= eps)%R /\ (c1 * r + c0 * (RtoC 1 + d))%C = RtoC 0.
Print Assumptions linear_root_backward_error.

(* degree 2, residual form: |a x^2 + b x + c| <= 16 eps (|a||x|^2 + |b||x| + |c|) for BOTH returned values, every a <> 0, b, c
   (std_model: relative error eps at EVERY argument = no underflow, no overflow: the class KF-C10-H is outside the hypothesis) *)
Theorem quadratic_residual_bound : forall (eps : R) (O : RoundOps) (a b c : C),
  (0 <= eps <= / 100)%R -> std_model eps O -> a <> RtoC 0 ->
  exists r0 r1 : C, poly_solve (RoundRAo eps O) [c; b; a] false = Ok ([r0; r1], []) /\
    forall x : C, x = r0 \/ x = r1 ->
      (Cmod (a * x * x + b * x + c)%C <= 16 * eps * (Cmod a * Cmod x * Cmod x + Cmod b * Cmod x + Cmod c))%R.
Proof. intros eps O a b c. exact (quadratic_residual_bound_lemma eps O a b c). Qed.
Check quadratic_residual_bound : forall (eps : R) (O : RoundOps) (a b c : C),
  (0 <= eps <= / 100)%R -> std_model eps O -> a <> RtoC 0 ->
  exists r0 r1 : C, poly_solve (RoundRAo eps O) [c; b; a] false = Ok ([r0; r1], []) /\
    forall x : C, x = r0 \/ x = r1 ->
      (Cmod (a * x * x + b * x + c)%C <= 16 * eps * (Cmod a * Cmod x * Cmod x + Cmod b * Cmod x + Cmod c))%R.
Print Assumptions quadratic_residual_bound.

(* the same bound from the LOCAL hypotheses only: [quad_ops_ok eps O a b c] (Proofs/RootsRound.v) says that each of the at most
   twelve rounded operations quadratic_solve performs ON THIS INPUT -- b*b, a*4.0, (4a)*c, the subtraction, sqrt(disc),
   conj(b)*sqrt(disc), sqrt(disc)*sgn, the addition, the scaling by -0.5, q/a and (when q <> 0) c/q -- has normwise relative
   error eps at the arguments that occur; nothing is assumed about any other argument, so an arithmetic with a bounded
   exponent range qualifies on the inputs that stay in range *)
Theorem quadratic_residual_local : forall (eps : R) (O : RoundOps) (a b c : C),
  (0 <= eps <= / 100)%R -> a <> RtoC 0 -> quad_ops_ok eps O a b c ->
  exists r0 r1 : C, poly_solve (RoundRAo eps O) [c; b; a] false = Ok ([r0; r1], []) /\
    forall x : C, x = r0 \/ x = r1 ->
      (Cmod (a * x * x + b * x + c)%C <= 16 * eps * (Cmod a * Cmod x * Cmod x + Cmod b * Cmod x + Cmod c))%R.
Proof. intros eps O a b c. exact (quadratic_residual_local_lemma eps O a b c). Qed.
Check quadratic_residual_local : forall (eps : R) (O : RoundOps) (a b c : C),
  (0 <= eps <= / 100)%R -> a <> RtoC 0 -> quad_ops_ok eps O a b c ->
  exists r0 r1 : C, poly_solve (RoundRAo eps O) [c; b; a] false = Ok ([r0; r1], []) /\
    forall x : C, x = r0 \/ x = r1 ->
      (Cmod (a * x * x + b * x + c)%C <= 16 * eps * (Cmod a * Cmod x * Cmod x + Cmod b * Cmod x + Cmod c))%R.
Print Assumptions quadratic_residual_local.
Example quadratic_residual_local_nonvacuous :
  (0 <= / 1024 <= / 100)%R /\ RtoC 1 <> RtoC 0 /\ quad_ops_ok (/ 1024) (pert_ops (/ 1024)) (RtoC 1) (RtoC (-5)) (RtoC 2).
Proof. exact quad_ops_ok_nonvacuous. Qed.
(* strictly more general than the global form: [sat_ops e] = the perturbing arithmetic whose products of modulus > 1000 "overflow"
   (0 is returned) is NOT an instance of std_model, yet on x^2 - 5x + 2 every operation performed stays in range *)
Example quadratic_residual_local_bounded_range_nonvacuous :
  let e := (/ 1024)%R in
  (0 <= e <= / 100)%R /\ RtoC 1 <> RtoC 0 /\ ~ std_model e (sat_ops e) /\ quad_ops_ok e (sat_ops e) (RtoC 1) (RtoC (-5)) (RtoC 2).
Proof. exact sat_ops_ok_lemma. Qed.

(* ... and the backward form from the same local hypotheses: if none of the operations performed on (a, b, c) leaves the range in
   which it has relative error eps, each returned value is an exact root of a quadratic within 16 eps, coefficient by coefficient *)
Theorem quadratic_backward_error_local : forall (eps : R) (O : RoundOps) (a b c : C),
  (0 <= eps <= / 100)%R -> a <> RtoC 0 -> quad_ops_ok eps O a b c ->
  exists r0 r1 : C, poly_solve (RoundRAo eps O) [c; b; a] false = Ok ([r0; r1], []) /\
    forall x : C, x = r0 \/ x = r1 ->
      exists da db dc : C,
        (Cmod da <= 16 * eps * Cmod a)%R /\ (Cmod db <= 16 * eps * Cmod b)%R /\ (Cmod dc <= 16 * eps * Cmod c)%R /\
        ((a + da) * x * x + (b + db) * x + (c + dc))%C = RtoC 0.
Proof. intros eps O a b c. exact (quadratic_backward_local_lemma eps O a b c). Qed.
Check quadratic_backward_error_local : forall (eps : R) (O : RoundOps) (a b c : C),
  (0 <= eps <= / 100)%R -> a <> RtoC 0 -> quad_ops_ok eps O a b c ->
  exists r0 r1 : C, poly_solve (RoundRAo eps O) [c; b; a] false = Ok ([r0; r1], []) /\
    forall x : C, x = r0 \/ x = r1 ->
      exists da db dc : C,
        (Cmod da <= 16 * eps * Cmod a)%R /\ (Cmod db <= 16 * eps * Cmod b)%R /\ (Cmod dc <= 16 * eps * Cmod c)%R /\
        ((a + da) * x * x + (b + db) * x + (c + dc))%C = RtoC 0.
Print Assumptions quadratic_backward_error_local.
(* non-vacuity: quadratic_residual_local_nonvacuous, quadratic_residual_local_bounded_range_nonvacuous above *)

(* ... and both returned values at once (the statement of quadratic_simultaneous_backward_error below) from the local hypotheses *)
Theorem quadratic_simultaneous_backward_error_local : forall (eps : R) (O : RoundOps) (a b c : C),
  (0 <= eps <= / 100)%R -> a <> RtoC 0 -> quad_ops_ok eps O a b c ->
  exists r0 r1 db dc : C, poly_solve (RoundRAo eps O) [c; b; a] false = Ok ([r0; r1], []) /\
    (forall x : C, (a * x * x + (b + db) * x + (c + dc))%C = (a * (x - r0) * (x - r1))%C) /\
    (Cmod dc <= (2 * eps + eps * eps) * Cmod c)%R /\
    (Cmod db * Cmod db <= (16 * eps) * (16 * eps) * (Cmod b * Cmod b + 4 * (Cmod a * Cmod c)))%R.
Proof. intros eps O a b c. exact (quadratic_simultaneous_local_lemma eps O a b c). Qed.
Check quadratic_simultaneous_backward_error_local : forall (eps : R) (O : RoundOps) (a b c : C),
  (0 <= eps <= / 100)%R -> a <> RtoC 0 -> quad_ops_ok eps O a b c ->
  exists r0 r1 db dc : C, poly_solve (RoundRAo eps O) [c; b; a] false = Ok ([r0; r1], []) /\
    (forall x : C, (a * x * x + (b + db) * x + (c + dc))%C = (a * (x - r0) * (x - r1))%C) /\
    (Cmod dc <= (2 * eps + eps * eps) * Cmod c)%R /\
    (Cmod db * Cmod db <= (16 * eps) * (16 * eps) * (Cmod b * Cmod b + 4 * (Cmod a * Cmod c)))%R.
Print Assumptions quadratic_simultaneous_backward_error_local.

(* the hypothesis is what excludes the range failures KF-C10-H: [flush_ops e] = the perturbing arithmetic whose Complex::sqrt returns 0
   for arguments of modulus <= 1 (the real Complex::sqrt does so below 1e-162, where re^2 + im^2 underflows).  On (x^2 - 3x + 2)/10
   (discriminant 0.01) quad_ops_ok FAILS -- 0 is within eps of no square root of a non-zero number --, the model returns
   -b/2a (1+e)^3 = 1.5 (1+e)^3 as on the real code for 1e-85 (x-1)(x-2), and the bound of quadratic_residual_local is violated *)
Example quadratic_hypotheses_exclude_KF_C10_H_example :
  let e := (/ 4096)%R in let a := RtoC (/ 10) in let b := RtoC (-3 / 10) in let c := RtoC (2 / 10) in
  ~ quad_ops_ok e (flush_ops e) a b c /\
  exists r0 r1 : C, poly_solve (RoundRAo e (flush_ops e)) [c; b; a] false = Ok ([r0; r1], []) /\
    ~ (Cmod (a * r0 * r0 + b * r0 + c)%C <= 16 * e * (Cmod a * Cmod r0 * Cmod r0 + Cmod b * Cmod r0 + Cmod c))%R.
Proof. exact flush_excluded_4096. Qed.

(* degree 2, backward form: each returned value is an EXACT root of a quadratic whose three coefficients are within 16 eps,
   relatively and componentwise (the perturbation depends on the root) *)
Theorem quadratic_backward_error : forall (eps : R) (O : RoundOps) (a b c : C),
  (0 <= eps <= / 100)%R -> std_model eps O -> a <> RtoC 0 ->
  exists r0 r1 : C, poly_solve (RoundRAo eps O) [c; b; a] false = Ok ([r0; r1], []) /\
    forall x : C, x = r0 \/ x = r1 ->
      exists da db dc : C,
        (Cmod da <= 16 * eps * Cmod a)%R /\ (Cmod db <= 16 * eps * Cmod b)%R /\ (Cmod dc <= 16 * eps * Cmod c)%R /\
        ((a + da) * x * x + (b + db) * x + (c + dc))%C = RtoC 0.
Proof. intros eps O a b c. exact (quadratic_backward_error_lemma eps O a b c). Qed.
Check quadratic_backward_error : forall (eps : R) (O : RoundOps) (a b c : C),
  (0 <= eps <= / 100)%R -> std_model eps O -> a <> RtoC 0 ->
  exists r0 r1 : C, poly_solve (RoundRAo eps O) [c; b; a] false = Ok ([r0; r1], []) /\
    forall x : C, x = r0 \/ x = r1 ->
      exists da db dc : C,
        (Cmod da <= 16 * eps * Cmod a)%R /\ (Cmod db <= 16 * eps * Cmod b)%R /\ (Cmod dc <= 16 * eps * Cmod c)%R /\
        ((a + da) * x * x + (b + db) * x + (c + dc))%C = RtoC 0.
Print Assumptions quadratic_backward_error.

(* degree 2, BOTH returned values at once: they are the two roots of a x^2 + (b + db) x + (c + dc) (a unperturbed) with
   |dc| <= (2 eps + eps^2) |c| and |db| <= 16 eps sqrt(|b|^2 + 4|a||c|) -- normwise in the scaling of the quadratic; a bound
   relative to |b| alone is not attainable (quadratic_componentwise_simultaneous_refuted_example below) *)
Theorem quadratic_simultaneous_backward_error : forall (eps : R) (O : RoundOps) (a b c : C),
  (0 <= eps <= / 100)%R -> std_model eps O -> a <> RtoC 0 ->
  exists r0 r1 db dc : C, poly_solve (RoundRAo eps O) [c; b; a] false = Ok ([r0; r1], []) /\
    (forall x : C, (a * x * x + (b + db) * x + (c + dc))%C = (a * (x - r0) * (x - r1))%C) /\
    (Cmod dc <= (2 * eps + eps * eps) * Cmod c)%R /\
    (Cmod db * Cmod db <= (16 * eps) * (16 * eps) * (Cmod b * Cmod b + 4 * (Cmod a * Cmod c)))%R.
Proof. intros eps O a b c. exact (quadratic_simultaneous_backward_lemma eps O a b c). Qed.
Check quadratic_simultaneous_backward_error : forall (eps : R) (O : RoundOps) (a b c : C),
  (0 <= eps <= / 100)%R -> std_model eps O -> a <> RtoC 0 ->
  exists r0 r1 db dc : C, poly_solve (RoundRAo eps O) [c; b; a] false = Ok ([r0; r1], []) /\
    (forall x : C, (a * x * x + (b + db) * x + (c + dc))%C = (a * (x - r0) * (x - r1))%C) /\
    (Cmod dc <= (2 * eps + eps * eps) * Cmod c)%R /\
    (Cmod db * Cmod db <= (16 * eps) * (16 * eps) * (Cmod b * Cmod b + 4 * (Cmod a * Cmod c)))%R.
Print Assumptions quadratic_simultaneous_backward_error.

(* degree 2, in the measure of the failing-input search of driver/c10.py: |p(x)| / (max |a_k| max(1,|x|)^2) <= 48 eps *)
Theorem quadratic_search_measure_bound : forall (eps : R) (O : RoundOps) (a b c : C) (M : R),
  (0 <= eps <= / 100)%R -> std_model eps O -> a <> RtoC 0 -> (Cmod a <= M)%R -> (Cmod b <= M)%R -> (Cmod c <= M)%R ->
  exists r0 r1 : C, poly_solve (RoundRAo eps O) [c; b; a] false = Ok ([r0; r1], []) /\
    forall x : C, x = r0 \/ x = r1 ->
      (Cmod (a * x * x + b * x + c)%C <= 48 * eps * (M * (Rmax 1 (Cmod x) * Rmax 1 (Cmod x))))%R.
Proof. intros eps O a b c M. exact (quadratic_search_measure_bound_lemma eps O a b c M). Qed.
Check quadratic_search_measure_bound : forall (eps : R) (O : RoundOps) (a b c : C) (M : R),
  (0 <= eps <= / 100)%R -> std_model eps O -> a <> RtoC 0 -> (Cmod a <= M)%R -> (Cmod b <= M)%R -> (Cmod c <= M)%R ->
  exists r0 r1 : C, poly_solve (RoundRAo eps O) [c; b; a] false = Ok ([r0; r1], []) /\
    forall x : C, x = r0 \/ x = r1 ->
      (Cmod (a * x * x + b * x + c)%C <= 48 * eps * (M * (Rmax 1 (Cmod x) * Rmax 1 (Cmod x))))%R.
Print Assumptions quadratic_search_measure_bound.

(* the repaired branch `q == zero` in rounded arithmetic: taken if and only if b = c = 0, and then the values returned are
   [0; 0], the exact roots of a x^2; otherwise the product of the two returned values is c / a to within two roundings *)
Theorem quadratic_q0_backward : forall (eps : R) (O : RoundOps) (a b c : C),
  (0 <= eps <= / 100)%R -> std_model eps O -> a <> RtoC 0 ->
  let q := q_q (o_add O) (o_sub O) (o_mul O) (o_scale O) (o_sqrt O) a b c in
  (q = RtoC 0 <-> b = RtoC 0 /\ c = RtoC 0) /\
  (q = RtoC 0 -> poly_solve (RoundRAo eps O) [c; b; a] false = Ok ([RtoC 0; RtoC 0], [])) /\
  (q <> RtoC 0 -> exists r0 r1 d : C, poly_solve (RoundRAo eps O) [c; b; a] false = Ok ([r0; r1], []) /\
                   (Cmod d <= 2 * eps + eps * eps)%R /\ (r0 * r1)%C = (c / a * (RtoC 1 + d))%C).
Proof. intros eps O a b c. exact (quadratic_q0_backward_lemma eps O a b c). Qed.
Check quadratic_q0_backward : forall (eps : R) (O : RoundOps) (a b c : C),
  (0 <= eps <= / 100)%R -> std_model eps O -> a <> RtoC 0 ->
  let q := q_q (o_add O) (o_sub O) (o_mul O) (o_scale O) (o_sqrt O) a b c in
  (q = RtoC 0 <-> b = RtoC 0 /\ c = RtoC 0) /\
  (q = RtoC 0 -> poly_solve (RoundRAo eps O) [c; b; a] false = Ok ([RtoC 0; RtoC 0], [])) /\
  (q <> RtoC 0 -> exists r0 r1 d : C, poly_solve (RoundRAo eps O) [c; b; a] false = Ok ([r0; r1], []) /\
                   (Cmod d <= 2 * eps + eps * eps)%R /\ (r0 * r1)%C = (c / a * (RtoC 1 + d))%C).
Print Assumptions quadratic_q0_backward.
(* non-vacuity of the theorems above: eps = 1/1024 is admissible and [pert_ops (1/1024)] (every rounded operation returns
   the exact result times 1 + 1/1024; Complex::sqrt = the principal square root times 1 + 1/1024) satisfies std_model and is
   really inexact: fl(1 * 1) <> 1 *)
Example quadratic_backward_error_nonvacuous :
  (0 <= / 1024 <= / 100)%R /\ std_model (/ 1024) (pert_ops (/ 1024)) /\ o_mul (pert_ops (/ 1024)) (RtoC 1) (RtoC 1) <> RtoC 1.
Proof. exact pert_nonvacuous. Qed.
(* why the theorems are stated per root: in that arithmetic, on x^2 - 1 (b = 0) the two returned values do not sum to 0, so NO
   quadratic a' x^2 + 0 x + c' with a' <> 0 -- the only ones allowed by |db| <= k eps |b| = 0 -- has both of them as roots *)
Example quadratic_componentwise_simultaneous_refuted_example :
  exists r0 r1 : C, poly_solve (RoundRAo (/ 1024) (pert_ops (/ 1024))) [RtoC (-1); RtoC 0; RtoC 1] false = Ok ([r0; r1], []) /\
    (r0 + r1)%C <> RtoC 0 /\ r0 <> r1 /\
    forall a' c' : C, a' <> RtoC 0 ->
      ~ ((a' * r0 * r0 + RtoC 0 * r0 + c')%C = RtoC 0 /\ (a' * r1 * r1 + RtoC 0 * r1 + c')%C = RtoC 0).
Proof. exact quadratic_componentwise_simultaneous_refuted_1024. Qed.

(* ---- forward error (Proofs/RootsRoundFwd.v).  o_sh O a b c is the value Complex::sqrt returned for the COMPUTED discriminant,
   qdisc a b c = b*b - a*4*c the exact one.  GIVEN an accurate discriminant -- |sh^2 - disc| <= eta |disc|; the discriminant may
   suffer cancellation (b^2 ~ 4ac), then eta is not O(eps) and the hypothesis says so -- both returned values have relative
   error 6 eps + 2 eta with respect to the two exact roots (the textbook result for q = -(b + sgn sqrt(disc))/2, q/a, c/q) *)
Theorem quadratic_forward_error : forall (eps : R) (O : RoundOps) (a b c : C) (eta : R),
  (0 <= eps <= / 100)%R -> std_model eps O -> a <> RtoC 0 -> (0 <= eta <= / 6)%R ->
  (Cmod (o_sh O a b c * o_sh O a b c - qdisc a b c)%C <= eta * Cmod (qdisc a b c))%R ->
  exists r0 r1 x0 x1 : C, poly_solve (RoundRAo eps O) [c; b; a] false = Ok ([r0; r1], []) /\
    (forall x : C, (a * x * x + b * x + c)%C = (a * (x - x0) * (x - x1))%C) /\
    (Cmod (r0 - x0)%C <= (6 * eps + 2 * eta) * Cmod x0)%R /\ (Cmod (r1 - x1)%C <= (6 * eps + 2 * eta) * Cmod x1)%R.
Proof. intros eps O a b c eta. exact (quadratic_forward_lemma eps O a b c eta). Qed.
Check quadratic_forward_error : forall (eps : R) (O : RoundOps) (a b c : C) (eta : R),
  (0 <= eps <= / 100)%R -> std_model eps O -> a <> RtoC 0 -> (0 <= eta <= / 6)%R ->
  (Cmod (o_sh O a b c * o_sh O a b c - qdisc a b c)%C <= eta * Cmod (qdisc a b c))%R ->
  exists r0 r1 x0 x1 : C, poly_solve (RoundRAo eps O) [c; b; a] false = Ok ([r0; r1], []) /\
    (forall x : C, (a * x * x + b * x + c)%C = (a * (x - x0) * (x - x1))%C) /\
    (Cmod (r0 - x0)%C <= (6 * eps + 2 * eta) * Cmod x0)%R /\ (Cmod (r1 - x1)%C <= (6 * eps + 2 * eta) * Cmod x1)%R.
Print Assumptions quadratic_forward_error.
Example quadratic_forward_error_nonvacuous :
  (0 <= / 1024 <= / 100)%R /\ std_model (/ 1024) (pert_ops (/ 1024)) /\ RtoC 1 <> RtoC 0 /\ (0 <= 15.33 * / 1024 <= / 6)%R /\
  disc_accurate (pert_ops (/ 1024)) (RtoC 1) (RtoC (-5)) (RtoC 2) (15.33 * / 1024).
Proof. exact forward_nonvacuous. Qed.

(* the hypothesis discharged in general: with kD >= (|b|^2 + 4|a||c|) / |b^2 - 4ac|, the condition number of the discriminant (large
   near a double root), the computed discriminant is accurate to 5.11 eps kD, hence -- no hypothesis left but 5.11 eps kD <= 1/6 --
   both returned values have relative error (6 + 10.22 kD) eps: the conditioning statement of the textbook *)
Theorem quadratic_forward_error_conditioned : forall (eps : R) (O : RoundOps) (a b c : C) (kD : R),
  (0 <= eps <= / 100)%R -> std_model eps O -> a <> RtoC 0 -> (0 <= kD)%R ->
  (Cmod b * Cmod b + 4 * (Cmod a * Cmod c) <= kD * Cmod (qdisc a b c))%R -> (5.11 * eps * kD <= / 6)%R ->
  exists r0 r1 x0 x1 : C, poly_solve (RoundRAo eps O) [c; b; a] false = Ok ([r0; r1], []) /\
    (forall x : C, (a * x * x + b * x + c)%C = (a * (x - x0) * (x - x1))%C) /\
    (Cmod (r0 - x0)%C <= (6 + 10.22 * kD) * eps * Cmod x0)%R /\ (Cmod (r1 - x1)%C <= (6 + 10.22 * kD) * eps * Cmod x1)%R.
Proof. intros eps O a b c kD. exact (quadratic_forward_conditioned_lemma eps O a b c kD). Qed.
Check quadratic_forward_error_conditioned : forall (eps : R) (O : RoundOps) (a b c : C) (kD : R),
  (0 <= eps <= / 100)%R -> std_model eps O -> a <> RtoC 0 -> (0 <= kD)%R ->
  (Cmod b * Cmod b + 4 * (Cmod a * Cmod c) <= kD * Cmod (qdisc a b c))%R -> (5.11 * eps * kD <= / 6)%R ->
  exists r0 r1 x0 x1 : C, poly_solve (RoundRAo eps O) [c; b; a] false = Ok ([r0; r1], []) /\
    (forall x : C, (a * x * x + b * x + c)%C = (a * (x - x0) * (x - x1))%C) /\
    (Cmod (r0 - x0)%C <= (6 + 10.22 * kD) * eps * Cmod x0)%R /\ (Cmod (r1 - x1)%C <= (6 + 10.22 * kD) * eps * Cmod x1)%R.
Print Assumptions quadratic_forward_error_conditioned.
(* non-vacuity: quadratic_forward_error_dominant_nonvacuous below (kD = 3) *)

(* the same from the LOCAL hypotheses (quad_ops_ok: no operation performed on (a, b, c) leaves the range in which it has relative
   error eps -- for binary64: no underflow, no overflow on this input; KF-C10-H excluded) *)
Theorem quadratic_forward_error_conditioned_local : forall (eps : R) (O : RoundOps) (a b c : C) (kD : R),
  (0 <= eps <= / 100)%R -> a <> RtoC 0 -> quad_ops_ok eps O a b c -> (0 <= kD)%R ->
  (Cmod b * Cmod b + 4 * (Cmod a * Cmod c) <= kD * Cmod (qdisc a b c))%R -> (5.11 * eps * kD <= / 6)%R ->
  exists r0 r1 x0 x1 : C, poly_solve (RoundRAo eps O) [c; b; a] false = Ok ([r0; r1], []) /\
    (forall x : C, (a * x * x + b * x + c)%C = (a * (x - x0) * (x - x1))%C) /\
    (Cmod (r0 - x0)%C <= (6 + 10.22 * kD) * eps * Cmod x0)%R /\ (Cmod (r1 - x1)%C <= (6 + 10.22 * kD) * eps * Cmod x1)%R.
Proof. intros eps O a b c kD. exact (quadratic_forward_conditioned_local_lemma eps O a b c kD). Qed.
Check quadratic_forward_error_conditioned_local : forall (eps : R) (O : RoundOps) (a b c : C) (kD : R),
  (0 <= eps <= / 100)%R -> a <> RtoC 0 -> quad_ops_ok eps O a b c -> (0 <= kD)%R ->
  (Cmod b * Cmod b + 4 * (Cmod a * Cmod c) <= kD * Cmod (qdisc a b c))%R -> (5.11 * eps * kD <= / 6)%R ->
  exists r0 r1 x0 x1 : C, poly_solve (RoundRAo eps O) [c; b; a] false = Ok ([r0; r1], []) /\
    (forall x : C, (a * x * x + b * x + c)%C = (a * (x - x0) * (x - x1))%C) /\
    (Cmod (r0 - x0)%C <= (6 + 10.22 * kD) * eps * Cmod x0)%R /\ (Cmod (r1 - x1)%C <= (6 + 10.22 * kD) * eps * Cmod x1)%R.
Print Assumptions quadratic_forward_error_conditioned_local.
(* non-vacuity: quadratic_residual_local_bounded_range_nonvacuous above (x^2 - 5x + 2: kD = 3) *)

(* the discriminant IS accurate, with no hypothesis, when one of b^2, 4ac dominates the other by a factor 2 ... *)
Theorem disc_accurate_dominant : forall (eps : R) (O : RoundOps) (a b c : C),
  (0 <= eps <= / 100)%R -> std_model eps O ->
  (8 * (Cmod a * Cmod c) <= Cmod b * Cmod b)%R \/ (2 * (Cmod b * Cmod b) <= 4 * (Cmod a * Cmod c))%R ->
  (Cmod (o_sh O a b c * o_sh O a b c - qdisc a b c)%C <= 15.33 * eps * Cmod (qdisc a b c))%R.
Proof. intros eps O a b c. exact (disc_accurate_dominant_lemma eps O a b c). Qed.
Check disc_accurate_dominant : forall (eps : R) (O : RoundOps) (a b c : C),
  (0 <= eps <= / 100)%R -> std_model eps O ->
  (8 * (Cmod a * Cmod c) <= Cmod b * Cmod b)%R \/ (2 * (Cmod b * Cmod b) <= 4 * (Cmod a * Cmod c))%R ->
  (Cmod (o_sh O a b c * o_sh O a b c - qdisc a b c)%C <= 15.33 * eps * Cmod (qdisc a b c))%R.
Print Assumptions disc_accurate_dominant.

(* ... and then both returned values have relative error 37 eps, unconditionally *)
Theorem quadratic_forward_error_dominant : forall (eps : R) (O : RoundOps) (a b c : C),
  (0 <= eps <= / 100)%R -> std_model eps O -> a <> RtoC 0 ->
  (8 * (Cmod a * Cmod c) <= Cmod b * Cmod b)%R \/ (2 * (Cmod b * Cmod b) <= 4 * (Cmod a * Cmod c))%R ->
  exists r0 r1 x0 x1 : C, poly_solve (RoundRAo eps O) [c; b; a] false = Ok ([r0; r1], []) /\
    (forall x : C, (a * x * x + b * x + c)%C = (a * (x - x0) * (x - x1))%C) /\
    (Cmod (r0 - x0)%C <= 37 * eps * Cmod x0)%R /\ (Cmod (r1 - x1)%C <= 37 * eps * Cmod x1)%R.
Proof. intros eps O a b c. exact (quadratic_forward_dominant_lemma eps O a b c). Qed.
Check quadratic_forward_error_dominant : forall (eps : R) (O : RoundOps) (a b c : C),
  (0 <= eps <= / 100)%R -> std_model eps O -> a <> RtoC 0 ->
  (8 * (Cmod a * Cmod c) <= Cmod b * Cmod b)%R \/ (2 * (Cmod b * Cmod b) <= 4 * (Cmod a * Cmod c))%R ->
  exists r0 r1 x0 x1 : C, poly_solve (RoundRAo eps O) [c; b; a] false = Ok ([r0; r1], []) /\
    (forall x : C, (a * x * x + b * x + c)%C = (a * (x - x0) * (x - x1))%C) /\
    (Cmod (r0 - x0)%C <= 37 * eps * Cmod x0)%R /\ (Cmod (r1 - x1)%C <= 37 * eps * Cmod x1)%R.
Print Assumptions quadratic_forward_error_dominant.
(* x^2 - 5x + 2 in the perturbing arithmetic: b^2 = 25 >= 16 = 8|a||c| *)
Example quadratic_forward_error_dominant_nonvacuous :
  RtoC 1 <> RtoC 0 /\ (8 * (Cmod (RtoC 1) * Cmod (RtoC 2)) <= Cmod (RtoC (-5)) * Cmod (RtoC (-5)))%R.
Proof. exact forward_dominant_nonvacuous. Qed.

(* ---- degree 3 (std_model again: no underflow / overflow -- KF-C10-H excluded), the triple-root branch only (Proofs/RootsRoundCubic.v): when the COMPUTED d0 = fl(b^2 - 3ac) and
   d1 = fl(2b^3 - 9abc + 27a^2 d) are both zero ([c_d0], [c_d1]: every operation rounded) cubic_solve returns three copies of
   r = fl(-b / fl(3a)) and r has a small residual, although the cubic need not be a perfect cube.  The Cardano branch -- where the
   recorded class KF-C10-F lives -- is not covered. *)
Theorem cubic_triple_branch_residual : forall (eps : R) (O : RoundOps) (a b c d : C),
  (0 <= eps <= / 100)%R -> std_model eps O -> a <> RtoC 0 -> c_d0 O a b c = RtoC 0 -> c_d1 O a b c d = RtoC 0 ->
  cubic_solve (RoundRAo eps O) a b c d = Ok [c_r O a b; c_r O a b; c_r O a b] /\
  (Cmod (a * c_r O a b * c_r O a b * c_r O a b + b * c_r O a b * c_r O a b + c * c_r O a b + d)%C
   <= 16 * eps * (Cmod a * Cmod (c_r O a b) * Cmod (c_r O a b) * Cmod (c_r O a b)
                  + Cmod b * Cmod (c_r O a b) * Cmod (c_r O a b) + Cmod c * Cmod (c_r O a b) + Cmod d))%R.
Proof. intros eps O a b c d. exact (cubic_triple_branch_lemma eps O a b c d). Qed.
Check cubic_triple_branch_residual : forall (eps : R) (O : RoundOps) (a b c d : C),
  (0 <= eps <= / 100)%R -> std_model eps O -> a <> RtoC 0 -> c_d0 O a b c = RtoC 0 -> c_d1 O a b c d = RtoC 0 ->
  cubic_solve (RoundRAo eps O) a b c d = Ok [c_r O a b; c_r O a b; c_r O a b] /\
  (Cmod (a * c_r O a b * c_r O a b * c_r O a b + b * c_r O a b * c_r O a b + c * c_r O a b + d)%C
   <= 16 * eps * (Cmod a * Cmod (c_r O a b) * Cmod (c_r O a b) * Cmod (c_r O a b)
                  + Cmod b * Cmod (c_r O a b) * Cmod (c_r O a b) + Cmod c * Cmod (c_r O a b) + Cmod d))%R.
Print Assumptions cubic_triple_branch_residual.
(* x^3 - 3x^2 + (3/f) x + (2f - 3), f = 1 + 1/1024, in the perturbing arithmetic: computed d0 = d1 = 0, the value 1 is returned,
   and it is NOT a root (the cubic is not a perfect cube) *)
Example cubic_triple_branch_residual_nonvacuous :
  let e := (/ 1024)%R in let f := (1 + e)%R in
  let a := RtoC 1 in let b := RtoC (-3) in let c := RtoC (3 / f) in let d := RtoC (2 * f - 3) in
  (0 <= e <= / 100)%R /\ std_model e (pert_ops e) /\ a <> RtoC 0 /\
  c_d0 (pert_ops e) a b c = RtoC 0 /\ c_d1 (pert_ops e) a b c d = RtoC 0 /\
  c_r (pert_ops e) a b = RtoC 1 /\ cval a b c d (RtoC 1) <> RtoC 0.
Proof. exact cubic_triple_branch_nonvacuous_lemma. Qed.

(* ---- degree 3, the CARDANO branch, AWAY from the recorded class KF-C10-F (Proofs/RootsRoundCardano.v).  Both mechanisms of
   KF-C10-F are hypotheses here, and that is the point of the statement:
     (1) accuracy: the value k^ the code obtains from Complex::pow (c_khat: computed from the EXPANDED discriminant, the libm
         sqrt and pow) is within eps of an exact Cardano cube root k (cardano_eq: k^3 is a root of K^2 - d1 K + d0^3), the
         constant u^ the code builds from sqrt(3)/2 is within eps of a primitive cube root of unity u, the computed d0 within
         eps of b^2 - 3ac  -- fails near a multiple root (cancellation in dis / d0), where KF-C10-F records root errors ~1e-3;
     (2) no cancellation in the final sums: |b| + |w| + |d0/w| <= kap |b + w + d0/w| for w = k, u k, u^2 k  -- fails for roots
         of very different size (the second mechanism of KF-C10-F); kap is the condition number that multiplies the bound.
   Then the three returned values are within relative distance 12 kap eps of the three exact roots -(b + w + d0/w)/(3a) ... *)
Theorem cubic_cardano_forward_error : forall (eps : R) (O : RoundOps) (a b c d k u : C) (kap : R),
  (0 <= eps <= / 100)%R -> std_model eps O -> a <> RtoC 0 ->
  ~ (c_d0 O a b c = RtoC 0 /\ c_d1 O a b c d = RtoC 0) ->
  k <> RtoC 0 -> cardano_eq a b c d k -> (u * u + u + RtoC 1)%C = RtoC 0 ->
  relc eps (c_khat eps O a b c d) k -> relc eps (c_uhat O) u -> relc eps (c_d0 O a b c) (d0x a b c) ->
  (forall w : C, w = k \/ w = (u * k)%C \/ w = (u * u * k)%C ->
     (Cmod b + Cmod w + Cmod (d0x a b c / w)%C <= kap * Cmod (b + w + d0x a b c / w)%C)%R) ->
  exists r0 r1 r2 : C, cubic_solve (RoundRAo eps O) a b c d = Ok [r0; r1; r2] /\
    cval a b c d (cardano_val a b c k) = RtoC 0 /\ cval a b c d (cardano_val a b c (u * k)%C) = RtoC 0 /\
    cval a b c d (cardano_val a b c (u * u * k)%C) = RtoC 0 /\
    (Cmod (r0 - cardano_val a b c k)%C <= kap * (12 * eps) * Cmod (cardano_val a b c k))%R /\
    (Cmod (r1 - cardano_val a b c (u * k)%C)%C <= kap * (12 * eps) * Cmod (cardano_val a b c (u * k)%C))%R /\
    (Cmod (r2 - cardano_val a b c (u * u * k)%C)%C <= kap * (12 * eps) * Cmod (cardano_val a b c (u * u * k)%C))%R.
Proof. intros eps O a b c d k u kap. exact (cubic_cardano_forward_lemma eps O a b c d k u kap). Qed.
Check cubic_cardano_forward_error : forall (eps : R) (O : RoundOps) (a b c d k u : C) (kap : R),
  (0 <= eps <= / 100)%R -> std_model eps O -> a <> RtoC 0 ->
  ~ (c_d0 O a b c = RtoC 0 /\ c_d1 O a b c d = RtoC 0) ->
  k <> RtoC 0 -> cardano_eq a b c d k -> (u * u + u + RtoC 1)%C = RtoC 0 ->
  relc eps (c_khat eps O a b c d) k -> relc eps (c_uhat O) u -> relc eps (c_d0 O a b c) (d0x a b c) ->
  (forall w : C, w = k \/ w = (u * k)%C \/ w = (u * u * k)%C ->
     (Cmod b + Cmod w + Cmod (d0x a b c / w)%C <= kap * Cmod (b + w + d0x a b c / w)%C)%R) ->
  exists r0 r1 r2 : C, cubic_solve (RoundRAo eps O) a b c d = Ok [r0; r1; r2] /\
    cval a b c d (cardano_val a b c k) = RtoC 0 /\ cval a b c d (cardano_val a b c (u * k)%C) = RtoC 0 /\
    cval a b c d (cardano_val a b c (u * u * k)%C) = RtoC 0 /\
    (Cmod (r0 - cardano_val a b c k)%C <= kap * (12 * eps) * Cmod (cardano_val a b c k))%R /\
    (Cmod (r1 - cardano_val a b c (u * k)%C)%C <= kap * (12 * eps) * Cmod (cardano_val a b c (u * k)%C))%R /\
    (Cmod (r2 - cardano_val a b c (u * u * k)%C)%C <= kap * (12 * eps) * Cmod (cardano_val a b c (u * u * k)%C))%R.
Print Assumptions cubic_cardano_forward_error.

(* ... and have residual |p(x)| <= 60 kap eps (|a||x|^3 + |b||x|^2 + |c||x| + |d|) *)
Theorem cubic_cardano_residual : forall (eps : R) (O : RoundOps) (a b c d k u : C) (kap : R),
  (0 <= eps <= / 100)%R -> std_model eps O -> a <> RtoC 0 ->
  ~ (c_d0 O a b c = RtoC 0 /\ c_d1 O a b c d = RtoC 0) ->
  k <> RtoC 0 -> cardano_eq a b c d k -> (u * u + u + RtoC 1)%C = RtoC 0 ->
  relc eps (c_khat eps O a b c d) k -> relc eps (c_uhat O) u -> relc eps (c_d0 O a b c) (d0x a b c) ->
  (forall w : C, w = k \/ w = (u * k)%C \/ w = (u * u * k)%C ->
     (Cmod b + Cmod w + Cmod (d0x a b c / w)%C <= kap * Cmod (b + w + d0x a b c / w)%C)%R) ->
  (0 <= kap)%R -> (kap * (12 * eps) <= / 10)%R ->
  exists r0 r1 r2 : C, cubic_solve (RoundRAo eps O) a b c d = Ok [r0; r1; r2] /\
    forall x : C, x = r0 \/ x = r1 \/ x = r2 -> (Cmod (cval a b c d x) <= 60 * kap * eps * csize a b c d x)%R.
Proof. intros eps O a b c d k u kap. exact (cubic_cardano_residual_lemma eps O a b c d k u kap). Qed.
Check cubic_cardano_residual : forall (eps : R) (O : RoundOps) (a b c d k u : C) (kap : R),
  (0 <= eps <= / 100)%R -> std_model eps O -> a <> RtoC 0 ->
  ~ (c_d0 O a b c = RtoC 0 /\ c_d1 O a b c d = RtoC 0) ->
  k <> RtoC 0 -> cardano_eq a b c d k -> (u * u + u + RtoC 1)%C = RtoC 0 ->
  relc eps (c_khat eps O a b c d) k -> relc eps (c_uhat O) u -> relc eps (c_d0 O a b c) (d0x a b c) ->
  (forall w : C, w = k \/ w = (u * k)%C \/ w = (u * u * k)%C ->
     (Cmod b + Cmod w + Cmod (d0x a b c / w)%C <= kap * Cmod (b + w + d0x a b c / w)%C)%R) ->
  (0 <= kap)%R -> (kap * (12 * eps) <= / 10)%R ->
  exists r0 r1 r2 : C, cubic_solve (RoundRAo eps O) a b c d = Ok [r0; r1; r2] /\
    forall x : C, x = r0 \/ x = r1 \/ x = r2 -> (Cmod (cval a b c d x) <= 60 * kap * eps * csize a b c d x)%R.
Print Assumptions cubic_cardano_residual.
(* x^3 - 1 in the perturbing arithmetic with pow returning the exact Cardano cube root -3 (pow is an oracle of the model; its
   accuracy is hypothesis (1)): every hypothesis holds with kap = 1, and the first exact root is 1 *)
Example cubic_cardano_residual_nonvacuous :
  let e := (/ 1024)%R in let O := cardano_ops e in
  let a := RtoC 1 in let b := RtoC 0 in let c := RtoC 0 in let d := RtoC (-1) in
  let k := RtoC (-3) in let u : C := (Ropp (/ 2), (R_sqrt.sqrt 3 / 2)%R) in
  (0 <= e <= / 100)%R /\ std_model e O /\ a <> RtoC 0 /\ ~ (c_d0 O a b c = RtoC 0 /\ c_d1 O a b c d = RtoC 0) /\
  k <> RtoC 0 /\ cardano_eq a b c d k /\ (u * u + u + RtoC 1)%C = RtoC 0 /\
  relc e (c_khat e O a b c d) k /\ relc e (c_uhat O) u /\ relc e (c_d0 O a b c) (d0x a b c) /\
  (forall w : C, w = k \/ w = (u * k)%C \/ w = (u * u * k)%C ->
     (Cmod b + Cmod w + Cmod (d0x a b c / w)%C <= 1 * Cmod (b + w + d0x a b c / w)%C)%R) /\
  (0 <= 1)%R /\ (1 * (12 * e) <= / 10)%R /\ cardano_val a b c k = RtoC 1.
Proof. exact cardano_nonvacuous_lemma. Qed.

(* ---- an instance of std_model that REALLY ROUNDS (unbounded exponent range: no underflow, no overflow), built from the model's own
   complex operators (Proofs/RootsRoundFlx.v):
   [flx_ops fsqrt] = cadd / csub / cmul / cdiv / cmul_r of Model/Complex.v (the formulas of src/complex/mod.rs) over the
   arithmetic AFlx of Proofs/RoundFlx.v (every real operation rounded to nearest-even at 53 bits, unbounded exponent; ux = 2^-53),
   through the normwise bounds of Proofs/ComplexRound.v:  eps_flx = (3/2) kappa(2u + u^2) <= 8 ux  (the quotient is the worst
   operator).  Complex::sqrt is libm-backed: it stays a function fsqrt with relative error eps_flx w.r.t. some square root. *)
Theorem flx_std_model : forall fsqrt : C -> C,
  (forall z : C, exists w : C, (w * w)%C = z /\ (Cmod (fsqrt z - w)%C <= eps_flx * Cmod w)%R) ->
  (0 <= eps_flx <= / 100)%R /\ (eps_flx <= 8 * ux)%R /\ std_model eps_flx (flx_ops fsqrt).
Proof. intros fsqrt. exact (flx_std_model_lemma fsqrt). Qed.
Check flx_std_model : forall fsqrt : C -> C,
  (forall z : C, exists w : C, (w * w)%C = z /\ (Cmod (fsqrt z - w)%C <= eps_flx * Cmod w)%R) ->
  (0 <= eps_flx <= / 100)%R /\ (eps_flx <= 8 * ux)%R /\ std_model eps_flx (flx_ops fsqrt).
Print Assumptions flx_std_model.

(* hence, for the model's quadratic_solve over the model's complex operators over correctly rounded reals:
   |a x^2 + b x + c| <= 128 * 2^-53 * (|a||x|^2 + |b||x| + |c|) for both returned values, every a <> 0, b, c *)
Theorem quadratic_residual_flx : forall (fsqrt : C -> C) (a b c : C),
  (forall z : C, exists w : C, (w * w)%C = z /\ (Cmod (fsqrt z - w)%C <= eps_flx * Cmod w)%R) -> a <> RtoC 0 ->
  exists r0 r1 : C, poly_solve (RoundRAo eps_flx (flx_ops fsqrt)) [c; b; a] false = Ok ([r0; r1], []) /\
    forall x : C, x = r0 \/ x = r1 ->
      (Cmod (a * x * x + b * x + c)%C <= 128 * ux * (Cmod a * Cmod x * Cmod x + Cmod b * Cmod x + Cmod c))%R.
Proof. intros fsqrt a b c. exact (quadratic_residual_flx_lemma fsqrt a b c). Qed.
Check quadratic_residual_flx : forall (fsqrt : C -> C) (a b c : C),
  (forall z : C, exists w : C, (w * w)%C = z /\ (Cmod (fsqrt z - w)%C <= eps_flx * Cmod w)%R) -> a <> RtoC 0 ->
  exists r0 r1 : C, poly_solve (RoundRAo eps_flx (flx_ops fsqrt)) [c; b; a] false = Ok ([r0; r1], []) /\
    forall x : C, x = r0 \/ x = r1 ->
      (Cmod (a * x * x + b * x + c)%C <= 128 * ux * (Cmod a * Cmod x * Cmod x + Cmod b * Cmod x + Cmod c))%R.
Print Assumptions quadratic_residual_flx.
(* the exact principal square root is an admissible fsqrt, and the arithmetic really rounds: fl((1 + 0i) * (1/3)) <> 1/3 *)
Example quadratic_residual_flx_nonvacuous :
  (forall z : C, exists w : C, (w * w)%C = z /\ (Cmod (Csqrt z - w)%C <= eps_flx * Cmod w)%R) /\ RtoC 1 <> RtoC 0 /\
  flx_scale (RtoC 1) (1 / 3)%R <> (RtoC 1 * RtoC (1 / 3)%R)%C.
Proof. exact flx_nonvacuous. Qed.
