(* Proofs/RoundSum.v -- recursive summation of Model/Vector.v ([sum_slice], [vsum]: result = 0; result += v[i]) and the
   1-norm, "to rounding accuracy":
   (a) in the STANDARD MODEL of floating-point arithmetic (the same Gallina functions at ARm):
         sum_slice_backward_error_lemma :  fl(Sum x_i) = Sum x_i (1 + th_i),  |th_i| <= gam m,  m = number of summands
         sum_slice_forward_error_lemma  :  |fl(Sum x_i) - Sum x_i| <= gam m  Sum |x_i|                 (Higham (4.4))
   (b) for the PRIMITIVE-FLOAT instance (IEEE binary64) through Flocq, with NO side condition beyond a finite result:
       additions of floats never lose relative accuracy to underflow (Flocq's FLT_plus_error_N_ex), and a finite final
       sum forces every partial sum to be finite, so
         sum_slice_backward_error_float_lemma, sum_slice_forward_error_float_lemma : the same with u = 2^-53,
         norm_1_relative_error_float_lemma : | FR (norm_1 v) - Sum |FR v_i| | <= gam n  Sum |FR v_i|
       whenever the computed value is finite (|.| is the code's Signed::abs, exact on floats). *)
From Coq Require Import ZArith Reals Lra Lia List Floats Bool Arith.
From Flocq Require Import Core BinarySingleNaN PrimFloat.
From OV Require Import Base.Panic Base.Arith Base.RoundModel Model.Vector Model.Matrix Inst.FloatInst
  Proofs.Matrix Proofs.ComplexRound Proofs.RoundDot Proofs.RoundDotFloat Proofs.RoundSparse.
Import ListNotations.
Local Open Scope R_scope.

(* ---------------------------------------------------------------- (a) the standard model *)
Section RoundSum.
Variable u : R.
Hypothesis u_range : 0 <= u < 1.
Variables fadd fsub fmul fdiv : R -> R -> R.
Hypothesis fadd_ok : forall x y, exists d, Rabs d <= u /\ fadd x y = (x + y) * (1 + d).

Notation AR := (ARm fadd fsub fmul fdiv).
Notation gam := (gam u).

(* a rounded left fold of additions from zero *)
Lemma fold_add_round (l : list R) : INR (length l) * u < 1 ->
  exists th : nat -> R, (forall k, (k < length l)%nat -> Rabs (th k) <= gam (length l)) /\
    fold_left fadd l 0 = Rsum (length l) (fun k => nth k l 0 * (1 + th k)).
Proof using u_range fadd_ok fsub fmul fdiv.
  intros Hn. rewrite (fold_add_sum_acc fadd fsub fmul fdiv).
  destruct (sum_acc_round u u_range fadd fsub fmul fdiv fadd_ok (length l) (fun k => nth k l 0) 0)
    as (P & W & HP & HW & E).
  exists (fun k => W k - 1). split.
  - intros k Hk. apply (bnd_gam u u_range); [|exact Hn].
    apply (bnd_mono u u_range (length l - k)); [lia|now apply HW].
  - etransitivity; [exact E|]. rewrite Rmult_0_l, Rplus_0_l. apply Rsum_ext. intros k Hk. ring.
Qed.

Lemma sum_slice_Ok_inv_round (v : list R) s e r : sum_slice (A := AR) v s e = Ok r ->
  r = fold_left fadd (slice v s e) 0.
Proof.
  unfold sum_slice.
  repeat match goal with |- (if ?c then _ else _) = _ -> _ => destruct c; [discriminate|] end.
  intros E. injection E as <-. reflexivity.
Qed.

Theorem sum_slice_backward_error_lemma (v : list R) (s e : nat) (r : R) :
  INR (length (slice v s e)) * u < 1 -> sum_slice (A := AR) v s e = Ok r ->
  exists th : nat -> R,
    (forall k, (k < length (slice v s e))%nat -> Rabs (th k) <= gam (length (slice v s e))) /\
    r = Rsum (length (slice v s e)) (fun k => nth k (slice v s e) 0 * (1 + th k)).
Proof using u_range fadd_ok.
  intros Hn E. rewrite (sum_slice_Ok_inv_round v s e r E). now apply fold_add_round.
Qed.

Theorem sum_slice_forward_error_lemma (v : list R) (s e : nat) (r : R) :
  INR (length (slice v s e)) * u < 1 -> sum_slice (A := AR) v s e = Ok r ->
  Rabs (r - Rsum (length (slice v s e)) (fun k => nth k (slice v s e) 0))
    <= gam (length (slice v s e)) * Rsum (length (slice v s e)) (fun k => Rabs (nth k (slice v s e) 0)).
Proof using u_range fadd_ok.
  intros Hn E. destruct (sum_slice_backward_error_lemma v s e r Hn E) as (th & Hth & ->).
  rewrite <- Rsum_minus.
  rewrite (Rsum_ext _ _ (fun k => nth k (slice v s e) 0 * th k)) by (intros; ring).
  now apply Rsum_pert_le.
Qed.

End RoundSum.

(* ---------------------------------------------------------------- (b) the primitive floats: additions need no side condition *)
Lemma nth_map_FR_s (l : list pfloat) k : nth k (map FR l) 0 = FR (nth k l 0%float).
Proof. change 0 with (FR 0%float) at 1. apply map_nth. Qed.

(* a finite float sum: every partial sum and every summand was finite, and the real value is the A64r sum *)
Lemma fold_add_float_transfer (l : list pfloat) (a : pfloat) :
  ffinite (fold_left PrimFloat.add l a) ->
  ffinite a /\ Forall ffinite l /\
  FR (fold_left PrimFloat.add l a) = fold_left Fadd (map FR l) (FR a).
Proof.
  revert a. induction l as [|x l IH]; intros a Hf.
  - split; [exact Hf|]. split; [constructor|reflexivity].
  - cbn [fold_left] in Hf. destruct (IH _ Hf) as (Fs & Fl & E).
    destruct (fadd_finite_inv _ _ Fs) as (Fa & Fx & Es).
    split; [exact Fa|]. split; [constructor; assumption|].
    cbn [fold_left map]. rewrite E. f_equal.
    rewrite Fadd_fmt by apply FR_fmt. exact Es.
Qed.

Theorem sum_slice_backward_error_float_lemma (v : list pfloat) (s e : nat) (r : pfloat) :
  sum_slice (A := AF) v s e = Ok r -> ffinite r -> INR (length (slice v s e)) * u64 < 1 ->
  exists th : nat -> R,
    (forall k, (k < length (slice v s e))%nat -> Rabs (th k) <= g64 (length (slice v s e))) /\
    FR r = Rsum (length (slice v s e)) (fun k => FR (nth k (slice v s e) 0%float) * (1 + th k)).
Proof.
  intros E Fr Hn.
  assert (Er : r = fold_left PrimFloat.add (slice v s e) 0%float).
  { revert E. unfold sum_slice.
    repeat match goal with |- (if ?c then _ else _) = _ -> _ => destruct c; [discriminate|] end.
    intros E. injection E as <-. reflexivity. }
  subst r. destruct (fold_add_float_transfer _ _ Fr) as (_ & _ & Et).
  destruct (fold_add_round u64 u64_range Fadd Fsub Fmul Fdiv Fadd_ok (map FR (slice v s e))
              ltac:(rewrite map_length; exact Hn)) as (th & Hth & Ev).
  rewrite map_length in Hth, Ev. exists th. split; [exact Hth|].
  rewrite Et. change (FR 0%float) with 0. rewrite Ev. apply Rsum_ext. intros k Hk. now rewrite nth_map_FR_s.
Qed.

Theorem sum_slice_forward_error_float_lemma (v : list pfloat) (s e : nat) (r : pfloat) :
  sum_slice (A := AF) v s e = Ok r -> ffinite r -> INR (length (slice v s e)) * u64 < 1 ->
  Rabs (FR r - Rsum (length (slice v s e)) (fun k => FR (nth k (slice v s e) 0%float)))
    <= g64 (length (slice v s e)) * Rsum (length (slice v s e)) (fun k => Rabs (FR (nth k (slice v s e) 0%float))).
Proof.
  intros E Fr Hn. destruct (sum_slice_backward_error_float_lemma v s e r E Fr Hn) as (th & Hth & ->).
  rewrite <- Rsum_minus.
  rewrite (Rsum_ext _ _ (fun k => FR (nth k (slice v s e) 0%float) * th k)) by (intros; ring).
  now apply Rsum_pert_le.
Qed.

(* Signed::abs on a finite float: exact *)
Lemma f_abs_FR (x : pfloat) : ffinite x -> ffinite (f_abs x) /\ FR (f_abs x) = Rabs (FR x).
Proof.
  unfold ffinite, FR, f_abs. intros Fx. rewrite ltb_equiv.
  assert (F0 : is_finite (Prim2B 0%float) = true) by reflexivity.
  rewrite (Bltb_correct prec emax (Prim2B x) (Prim2B 0%float) Fx F0).
  change (B2R (Prim2B 0%float)) with 0.
  destruct (Rlt_bool_spec (B2R (Prim2B x)) 0) as [H|H].
  - rewrite opp_equiv, is_finite_Bopp, B2R_Bopp. split; [exact Fx|]. rewrite Rabs_left by exact H. reflexivity.
  - split; [exact Fx|]. rewrite Rabs_pos_eq by exact H. reflexivity.
Qed.

Theorem norm_1_relative_error_float_lemma (v : list pfloat) :
  ffinite (norm_1 (A := AF) v) -> INR (length v) * u64 < 1 ->
  Rabs (FR (norm_1 (A := AF) v) - Rsum (length v) (fun k => Rabs (FR (nth k v 0%float))))
    <= g64 (length v) * Rsum (length v) (fun k => Rabs (FR (nth k v 0%float))).
Proof.
  intros Fr Hn.
  assert (En : norm_1 (A := AF) v = fold_left PrimFloat.add (map f_abs v) 0%float).
  { unfold norm_1. symmetry. apply (Proofs.SparseMul.fold_left_map_comp PrimFloat.add f_abs v 0%float). }
  rewrite En in Fr |- *.
  destruct (fold_add_float_transfer _ _ Fr) as (_ & Fl & Et).
  assert (Fv : Forall ffinite v).
  { clear -Fl. induction v as [|x v IH]; [constructor|]. cbn [map] in Fl. inversion Fl as [|? ? Fx Fl']; subst.
    constructor; [|now apply IH].
    (* f_abs x finite -> x finite *)
    unfold f_abs in Fx. destruct (x <? 0)%float; [|exact Fx].
    unfold ffinite in *. rewrite opp_equiv, is_finite_Bopp in Fx. exact Fx. }
  assert (Em : map FR (map f_abs v) = map (fun x => Rabs (FR x)) v).
  { clear -Fv. induction Fv as [|x v Fx Fv IH]; [reflexivity|]. cbn [map]. rewrite IH. f_equal.
    exact (proj2 (f_abs_FR x Fx)). }
  destruct (fold_add_round u64 u64_range Fadd Fsub Fmul Fdiv Fadd_ok (map FR (map f_abs v))
              ltac:(rewrite !map_length; exact Hn)) as (th & Hth & Ev).
  rewrite !map_length in Hth, Ev.
  rewrite Et. change (FR 0%float) with 0. rewrite Ev, Em.
  assert (Nk : forall k, nth k (map (fun x => Rabs (FR x)) v) 0 = Rabs (FR (nth k v 0%float))).
  { intros k. rewrite <- (Rabs_R0) at 1. change 0 with (FR 0%float) at 1.
    exact (map_nth (fun x => Rabs (FR x)) v 0%float k). }
  rewrite (Rsum_ext _ (fun k => nth k (map (fun x => Rabs (FR x)) v) 0 * (1 + th k))
             (fun k => Rabs (FR (nth k v 0%float)) * (1 + th k))) by (intros; now rewrite Nk).
  rewrite <- Rsum_minus.
  rewrite (Rsum_ext _ _ (fun k => Rabs (FR (nth k v 0%float)) * th k)) by (intros; ring).
  eapply Rle_trans; [apply Rsum_pert_le; exact Hth|].
  apply Rmult_le_compat_l; [now apply (gam_nonneg u64 u64_range)|].
  apply Req_le, Rsum_ext. intros k Hk. apply Rabs_Rabsolu.
Qed.
