(* Proofs/PolyExactB.v -- C11 at binary64, exactly representable coefficients: the size conditions of
   Proofs/PolyExactF.v in terms of the INPUTS.  With |a_i| <= al for the coefficients of p and |b_j| <= be for those of q:
       p + q, p - q     al + be < 2^53
       s * p            al * |s| < 2^53
       p * q            len p * (al * be) < 2^53
       p'               (len p - 1) * al < 2^53
       p(x)             al * (1 + |x| + ... + |x|^(len p - 1)) < 2^53
   each implies the corresponding condition on the exact integer results, hence the float operation returns the float
   images of the integer results. *)
From Coq Require Import ZArith Reals Floats Lia List Bool Arith.
From OV Require Import Base.Panic Base.Arith Model.Poly Proofs.Poly Proofs.ParDotFloat Inst.FloatInst
                       Proofs.PolyExact Proofs.PolyExactF Proofs.PolyExactDivZ.
Import ListNotations.
Local Open Scope Z_scope.

Notation fitsZ := (fun c : Z => Z.abs c < 2 ^ 53).
Notation bnd M := (Forall (fun a : Z => Z.abs a <= M)).

Lemma AZ_nth_psub (p q : list Z) k : nth k (psub (A := AZ) p q) 0 = nth k p 0 - nth k q 0.
Proof. exact (nth_psub AZ_ring p q k). Qed.

Lemma padd_fits_of_bounds (zs ws : list Z) al be : 0 <= al -> 0 <= be -> bnd al zs -> bnd be ws -> al + be < 2 ^ 53 ->
  Forall fitsZ (padd (A := AZ) zs ws) /\ Forall fitsZ (psub (A := AZ) zs ws).
Proof.
  intros A0 B0 Hz Hw Hb. pose proof (Forall_cb _ _ A0 Hz) as Cz. pose proof (Forall_cb _ _ B0 Hw) as Cw.
  split; apply (cb_fits (al + be)); auto; intros k; specialize (Cz k); specialize (Cw k).
  - rewrite AZ_nth_padd. lia.
  - rewrite AZ_nth_psub. lia.
Qed.

Lemma pscale_fits_of_bounds (zs : list Z) sz al : bnd al zs -> al * Z.abs sz < 2 ^ 53 ->
  Forall fitsZ (pscale (A := AZ) zs sz).
Proof.
  intros Hz Hb. unfold pscale. rewrite Forall_map. eapply Forall_impl; [|exact Hz]. cbv beta. intros a Ha.
  cbn. rewrite Z.abs_mul. pose proof (Z.abs_nonneg sz). pose proof (Z.abs_nonneg a). nia.
Qed.

(* a sum of n terms, of which only those with index < L are nonzero and each is at most c *)
Lemma sum_n_le_count (f : nat -> Z) (L : nat) c : 0 <= c ->
  (forall i, 0 <= f i <= c) -> (forall i, (L <= i)%nat -> f i = 0) ->
  forall n, sum_n (A := AZ) n f <= Z.of_nat L * c.
Proof.
  intros C0 Hf Hz n.
  assert (G : sum_n (A := AZ) n f <= Z.of_nat (Nat.min n L) * c).
  { induction n as [|n IH]; [cbn; lia|]. cbn [sum_n]. change (@add AZ) with Z.add.
    destruct (Nat.lt_ge_cases n L) as [H|H].
    - specialize (Hf n). rewrite (Nat.min_l (S n) L) by lia. rewrite (Nat.min_l n L) in IH by lia. lia.
    - rewrite (Hz n H). rewrite (Nat.min_r (S n) L) by lia. rewrite (Nat.min_r n L) in IH by lia. lia. }
  eapply Z.le_trans; [exact G|]. apply Z.mul_le_mono_nonneg_r; lia.
Qed.

Lemma pmul_fits_of_bounds (zs ws : list Z) al be : 0 <= al -> 0 <= be -> bnd al zs -> bnd be ws ->
  Z.of_nat (length zs) * (al * be) < 2 ^ 53 -> pmul_fits zs ws.
Proof.
  intros A0 B0 Hz Hw Hb. unfold pmul_fits.
  pose proof (Forall_cb _ _ A0 Hz) as Cz. pose proof (Forall_cb _ _ B0 Hw) as Cw.
  apply Forall_forall. intros c Hc. apply (In_nth _ _ 0) in Hc as (k & _ & <-).
  pose proof (nth_pmul AZ_ring (map Z.abs zs) (map Z.abs ws) k) as E. change (@zero AZ) with 0 in E.
  unfold poly in *. change (T AZ) with Z in *. rewrite E.
  unfold conv. eapply Z.le_lt_trans; [|exact Hb].
  apply (sum_n_le_count _ (length zs) (al * be)); [nia| |].
  - intros i. change (@zero AZ) with 0. change (@mul AZ) with Z.mul. rewrite !nth_map_abs.
    specialize (Cz i). specialize (Cw (k - i)%nat).
    pose proof (Z.abs_nonneg (nth i zs 0)). pose proof (Z.abs_nonneg (nth (k - i) ws 0)). split; [nia|].
    apply Z.mul_le_mono_nonneg; lia.
  - intros i Hi. change (@zero AZ) with 0. change (@mul AZ) with Z.mul.
    rewrite (nth_overflow (map Z.abs zs)) by (rewrite map_length; exact Hi). lia.
Qed.

Lemma pderiv_fits_of_bounds (zs dz : list Z) al : 0 <= al -> bnd al zs -> pderiv (A := AZ) zs = Ok dz ->
  Z.of_nat (length zs - 1) * al < 2 ^ 53 -> Forall fitsZ dz.
Proof.
  intros A0 Hz E Hb. pose proof (Forall_cb _ _ A0 Hz) as Cz.
  pose proof (pderiv_length (A := AZ) zs dz E) as Ld. change (@length (T AZ)) with (@length Z) in Ld.
  apply Forall_forall. intros c Hc. apply (In_nth _ _ 0) in Hc as (i & Hi & <-).
  rewrite (AZ_pderiv_nth zs dz i E) by lia. rewrite Z.abs_mul, (Z.abs_eq (Z.of_nat (S i))) by lia.
  specialize (Cz (S i)). pose proof (Z.abs_nonneg (nth (S i) zs 0)).
  eapply Z.le_lt_trans; [|exact Hb]. apply Z.mul_le_mono_nonneg; lia.
Qed.

(* 1 + xi + ... + xi^(n-1) *)
Definition geom (n : nat) (xi : Z) : Z := horner (A := AZ) (repeat 1 n) xi.

Lemma geom_nonneg n xi : 0 <= xi -> 0 <= geom n xi.
Proof.
  intros X0. unfold geom. induction n as [|n IH]; [cbn; lia|]. cbn [repeat horner].
  change (@add AZ) with Z.add. change (@mul AZ) with Z.mul. change (@one AZ) with 1.
  pose proof (Z.mul_nonneg_nonneg _ _ X0 IH). lia.
Qed.

Lemma eval_fits_of_bounds (zs : list Z) xz al : 0 <= al -> bnd al zs ->
  al * geom (length zs) (Z.abs xz) < 2 ^ 53 -> eval_fits zs xz.
Proof.
  intros A0 Hz Hb. unfold eval_fits. eapply Z.le_lt_trans; [|exact Hb]. clear Hb.
  pose proof (Z.abs_nonneg xz) as X0. generalize dependent (Z.abs xz). intros xi X0. unfold geom.
  induction Hz as [|a t Ha Ht IH]; [cbn; lia|].
  cbn [map length repeat horner]. change (@add AZ) with Z.add. change (@mul AZ) with Z.mul. change (@one AZ) with 1.
  pose proof (geom_nonneg (length t) xi X0) as G0. unfold geom in G0. nia.
Qed.

(* ---------------------------------------------------------------- all of item 1 and Horner, from the input bounds *)
Lemma poly_exact_float_bounds_lemma (p q : list PrimFloat.float) (zs ws : list Z) (s x : PrimFloat.float)
  (sz xz al be : Z) :
  Forall2 ExactW p zs -> Forall2 ExactW q ws -> ExactW s sz -> ExactW x xz ->
  0 <= al -> 0 <= be -> bnd al zs -> bnd be ws ->
  (al + be < 2 ^ 53 ->
     Forall2 ExactW (padd (A := AF) p q) (padd (A := AZ) zs ws) /\
     Forall2 ExactW (psub (A := AF) p q) (psub (A := AZ) zs ws)) /\
  Forall2 ExactW (pneg (A := AF) p) (pneg (A := AZ) zs) /\
  (al * Z.abs sz < 2 ^ 53 -> Forall2 ExactW (pscale (A := AF) p s) (pscale (A := AZ) zs sz)) /\
  (Z.of_nat (length zs) * (al * be) < 2 ^ 53 -> Forall2 Exact (pmul (A := AF) p q) (pmul (A := AZ) zs ws)) /\
  (Z.of_nat (length zs - 1) * al < 2 ^ 53 -> forall dz, pderiv (A := AZ) zs = Ok dz ->
     exists d, pderiv (A := AF) p = Ok d /\ Forall2 Exact d dz) /\
  (al * geom (length zs) (Z.abs xz) < 2 ^ 53 -> p <> [] ->
     exists r, peval (A := AF) p x = Ok r /\ ExactW r (horner (A := AZ) zs xz)).
Proof.
  intros Hp Hq Hs Hx A0 B0 Hz Hw. split; [|split; [|split; [|split; [|split]]]].
  - intros Hb. destruct (padd_fits_of_bounds zs ws al be A0 B0 Hz Hw Hb) as [F1 F2]. split.
    + now apply padd_exact_float_lemma.
    + now apply psub_exact_float_lemma.
  - now apply pneg_exact_float_lemma.
  - intros Hb. apply pscale_exact_float_lemma; auto. now apply (pscale_fits_of_bounds zs sz al).
  - intros Hb. apply pmul_exact_float_lemma; auto. now apply (pmul_fits_of_bounds zs ws al be).
  - intros Hb dz E. apply (pderiv_exact_float_lemma p zs Hp dz E). now apply (pderiv_fits_of_bounds zs dz al).
  - intros Hb Np. destruct (peval_exact_float_lemma p zs x xz Hp Hx Np (eval_fits_of_bounds zs xz al A0 Hz Hb))
      as (r & Er & Rr & _). eauto.
Qed.

(* ---------------------------------------------------------------- the additive evaluation laws from the input bounds *)
Lemma geom_S n xi : geom (S n) xi = 1 + xi * geom n xi.
Proof. reflexivity. Qed.

Lemma geom_mono n m xi : 0 <= xi -> (n <= m)%nat -> geom n xi <= geom m xi.
Proof.
  intros X0. revert m. induction n as [|n IH]; intros m Hm.
  - change (geom 0 xi) with 0. now apply geom_nonneg.
  - destruct m as [|m]; [lia|]. rewrite !geom_S. specialize (IH m ltac:(lia)).
    pose proof (Z.mul_le_mono_nonneg_l _ _ xi X0 IH). lia.
Qed.

Lemma geom_ge1 n xi : 0 <= xi -> (1 <= n)%nat -> 1 <= geom n xi.
Proof.
  intros X0 Hn. destruct n as [|n]; [lia|]. rewrite geom_S.
  pose proof (Z.mul_nonneg_nonneg _ _ X0 (geom_nonneg n xi X0)). lia.
Qed.

Lemma bnd_mono (M M' : Z) l : M <= M' -> bnd M l -> bnd M' l.
Proof. intros H. apply Forall_impl. intros a Ha. cbv beta in *. lia. Qed.

Lemma peval_padd_psub_exact_float_bounds_lemma (p q : list PrimFloat.float) (zs ws : list Z) x xz al be :
  Forall2 Exact p zs -> Forall2 Exact q ws -> ExactW x xz -> p <> [] -> q <> [] ->
  0 <= al -> 0 <= be -> bnd al zs -> bnd be ws ->
  (al + be) * geom (Nat.max (length zs) (length ws)) (Z.abs xz) < 2 ^ 53 ->
  exists rp rq, peval (A := AF) p x = Ok rp /\ peval (A := AF) q x = Ok rq /\
    peval (A := AF) (padd (A := AF) p q) x = Ok (rp + rq)%float /\
    peval (A := AF) (psub (A := AF) p q) x = Ok (rp - rq)%float /\
    Exact rp (horner (A := AZ) zs xz) /\ Exact rq (horner (A := AZ) ws xz).
Proof.
  intros Hp Hq Hx Np Nq A0 B0 Hz Hw Hb.
  pose proof (F2_nonempty _ _ _ Hp Np) as Nz. pose proof (F2_nonempty _ _ _ Hq Nq) as Nw.
  pose proof (Z.abs_nonneg xz) as X0.
  set (n := Nat.max (length zs) (length ws)) in *.
  assert (Ln : (1 <= length zs)%nat) by (destruct zs; [congruence|cbn; lia]).
  pose proof (geom_ge1 n (Z.abs xz) X0 ltac:(lia)) as G1.
  pose proof (geom_mono (length zs) n (Z.abs xz) X0 ltac:(lia)) as Gz.
  pose proof (geom_mono (length ws) n (Z.abs xz) X0 ltac:(lia)) as Gw.
  pose proof (geom_nonneg (length zs) (Z.abs xz) X0) as Gz0. pose proof (geom_nonneg (length ws) (Z.abs xz) X0) as Gw0.
  assert (Hab : al + be < 2 ^ 53) by nia.
  destruct (padd_fits_of_bounds zs ws al be A0 B0 Hz Hw Hab) as [Fa Fs].
  assert (Ez : eval_fits zs xz) by (apply (eval_fits_of_bounds zs xz al A0 Hz); nia).
  assert (Ew : eval_fits ws xz) by (apply (eval_fits_of_bounds ws xz be B0 Hw); nia).
  pose proof (Forall_cb _ _ A0 Hz) as Cz. pose proof (Forall_cb _ _ B0 Hw) as Cw.
  assert (Ba : bnd (al + be) (padd (A := AZ) zs ws)).
  { apply cb_Forall. intros k. rewrite AZ_nth_padd. specialize (Cz k). specialize (Cw k). lia. }
  assert (Bs : bnd (al + be) (psub (A := AZ) zs ws)).
  { apply cb_Forall. intros k. rewrite AZ_nth_psub. specialize (Cz k). specialize (Cw k). lia. }
  assert (Ea : eval_fits (padd (A := AZ) zs ws) xz).
  { apply (eval_fits_of_bounds _ xz (al + be) ltac:(lia) Ba).
    pose proof (length_padd (A := AZ) zs ws) as L. change (@length (T AZ)) with (@length Z) in L. rewrite L. exact Hb. }
  assert (Es : eval_fits (psub (A := AZ) zs ws) xz).
  { apply (eval_fits_of_bounds _ xz (al + be) ltac:(lia) Bs).
    pose proof (length_psub (A := AZ) zs ws) as L. change (@length (T AZ)) with (@length Z) in L. rewrite L. exact Hb. }
  destruct (peval_padd_exact_float_lemma p q zs ws x xz Hp Hq Hx Np Nq Fa Ez Ew Ea)
    as (rp & rq & Ep & Eq & Eadd & Rp & Rq & _).
  destruct (peval_psub_exact_float_lemma p q zs ws x xz Hp Hq Hx Np Nq Fs Ez Ew Es)
    as (rp' & rq' & Ep' & Eq' & Esub & _).
  rewrite Ep in Ep'. rewrite Eq in Eq'. injection Ep' as <-. injection Eq' as <-.
  exists rp, rq. repeat (split; [assumption|]). assumption.
Qed.
