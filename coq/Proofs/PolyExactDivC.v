(* Proofs/PolyExactDivC.v -- C12, Complex<f64> with Gaussian-integer coefficients: the long division at the complex float
   instance ACF returns the images of the Gaussian-integer quotient and remainder whenever the Gaussian-integer run goes
   through (each quotient term (a c + b d)/(c^2 + d^2), (b c - a d)/(c^2 + d^2) is an exact integer division) and the sizes
   fit.  The complex division forms 6 products and 3 sums before it divides: its extra size condition is cDfit. *)
From Coq Require Import ZArith Reals Floats Lia Lra List Bool Arith.
From Flocq Require Import Core.Core IEEE754.BinarySingleNaN IEEE754.PrimFloat.
From OV Require Import Base.Panic Base.Arith gen.Params Model.Poly Model.Complex Proofs.Poly Proofs.ParDotFloat
                       Proofs.VectorFloat2 Inst.FloatInst Proofs.PolyExact Proofs.PolyExactF Proofs.PolyExactC
                       Proofs.PolyExactDiv Proofs.PolyExactDivZ Proofs.PolyExactDivF.
Import ListNotations.
Local Open Scope Z_scope.

Definition cDfit (a b : cplx AZ) : Prop := cn1 a * cn1 b < 2 ^ 53 /\ cn1 b * cn1 b < 2 ^ 53.

Lemma CExactW_eqb0 (x : ACF) (a : AZC) : CExactW x a -> eqb x zero = eqb a zero.
Proof.
  intros [H1 H2]. destruct x as [x1 x2], a as [a1 a2]. cbn in H1, H2.
  change (@eqb ACF (mkC x1 x2) zero) with (@eqb AF x1 zero && @eqb AF x2 zero)%bool.
  change (@eqb AZC (mkC a1 a2) zero) with (@eqb AZ a1 zero && @eqb AZ a2 zero)%bool.
  now rewrite (ExactW_eqb0 x1 a1 H1), (ExactW_eqb0 x2 a2 H2).
Qed.

Lemma bound4 A1 A2 B1 B2 K : 0 <= A1 -> 0 <= A2 -> 0 <= B1 -> 0 <= B2 -> (A1 + A2) * (B1 + B2) < K ->
  A1 * B1 < K /\ A1 * B2 < K /\ A2 * B1 < K /\ A2 * B2 < K /\ A1 * B1 + A2 * B2 < K /\ A1 * B2 + A2 * B1 < K.
Proof. intros. repeat split; nia. Qed.

Lemma CExactW_cdiv (x y : ACF) (a b c : AZC) : CExactW x a -> CExactW y b -> cDfit a b -> div a b = Ok c ->
  cn1 c < 2 ^ 53 -> exists z, div x y = Ok z /\ CExactW z c.
Proof.
  destruct x as [x1 x2], y as [y1 y2], a as [a1 a2], b as [b1 b2], c as [c1 c2].
  intros [Hx1 Hx2] [Hy1 Hy2] [D1 D2] E Hc. cbn in Hx1, Hx2, Hy1, Hy2. unfold cn1 in *. cbn [re im] in *.
  change (@div AZC (mkC a1 a2) (mkC b1 b2)) with (cdiv (A := AZ) (mkC a1 a2) (mkC b1 b2)) in E.
  unfold cdiv in E. cbn [re im] in E.
  apply bind_ok in E as (cx & Ex & E). apply bind_ok in E as (cy & Ey & E). injection E as <- <-.
  apply z_div_Ok in Ex as [Nd Ex]. apply z_div_Ok in Ey as [_ Ey].
  change (@mul AZ) with Z.mul in *. change (@add AZ) with Z.add in *. change (@sub AZ) with Z.sub in *.
  pose proof (Z.abs_nonneg a1) as P1. pose proof (Z.abs_nonneg a2) as P2.
  pose proof (Z.abs_nonneg b1) as P3. pose proof (Z.abs_nonneg b2) as P4.
  destruct (bound4 _ _ _ _ _ P1 P2 P3 P4 D1) as (K11 & K12 & K21 & K22 & Ks1 & Ks2).
  destruct (bound4 _ _ _ _ _ P3 P4 P3 P4 D2) as (L11 & L12 & L21 & L22 & Ls1 & Ls2).
  rewrite <- !Z.abs_mul in *.
  assert (M11 : ExactW (x1 * y1)%float (a1 * b1)) by (apply ExactW_mul; auto).
  assert (M22 : ExactW (x2 * y2)%float (a2 * b2)) by (apply ExactW_mul; auto).
  assert (M21 : ExactW (x2 * y1)%float (a2 * b1)) by (apply ExactW_mul; auto).
  assert (M12 : ExactW (x1 * y2)%float (a1 * b2)) by (apply ExactW_mul; auto).
  assert (N11 : ExactW (y1 * y1)%float (b1 * b1)) by (apply ExactW_mul; auto).
  assert (N22 : ExactW (y2 * y2)%float (b2 * b2)) by (apply ExactW_mul; auto).
  assert (Hden : ExactW (y1 * y1 + y2 * y2)%float (b1 * b1 + b2 * b2)).
  { apply ExactW_add; auto. eapply Z.le_lt_trans; [apply Z.abs_triangle|exact Ls1]. }
  assert (Hr : ExactW (x1 * y1 + x2 * y2)%float (a1 * b1 + a2 * b2)).
  { apply ExactW_add; auto. eapply Z.le_lt_trans; [apply Z.abs_triangle|exact Ks1]. }
  assert (Hi : ExactW (x2 * y1 - x1 * y2)%float (a2 * b1 - a1 * b2)).
  { apply ExactW_sub; auto. replace (a2 * b1 - a1 * b2) with (a2 * b1 + - (a1 * b2)) by (clear; lia).
    eapply Z.le_lt_trans; [apply Z.abs_triangle|]. rewrite Z.abs_opp, Z.add_comm. exact Ks2. }
  eexists. split; [reflexivity|]. split; cbn [re im].
  - apply (ExactW_div _ _ _ _ cx Hr Hden Nd Ex). clear - Hc. lia.
  - apply (ExactW_div _ _ _ _ cy Hi Hden Nd Ey). clear - Hc. lia.
Qed.

Lemma cpolydiv_exact_float_run_lemma (u v : list (cplx AF)) (uz vz q0 r0 : list (cplx AZ)) :
  Forall2 CExactW u uz -> Forall2 CExactW v vz -> polydiv_fits (ZA := AZC) cn1 cDfit uz vz ->
  polydiv (A := AZC) uz vz = Ok (inl (q0, r0)) ->
  exists q r, polydiv (A := ACF) u v = Ok (inl (q, r)) /\ Forall2 CExactW q q0 /\ Forall2 CExactW r r0.
Proof.
  intros Hu Hv Hf E.
  destruct (gen_polydiv _ _ _ EL_cplx_weak CExactW_eqb0 CExactW_cdiv u v uz vz _ Hu Hv Hf E) as (o & Eo & Ro).
  destruct o as [[q r]|e]; [|contradiction]. exists q, r. split; [exact Eo|]. exact Ro.
Qed.
