(* Proofs/Newton2Wit.v -- non-vacuity witnesses for the newton2 theorems of C17 (package newton2):
   concrete inputs that meet the hypotheses of the general theorems.
     * the 2 x 2 system [[2,1],[1,3]] with its inverse, at Qc and at R; [[1,i],[0,1]] at C;
     * f(x) = x^3 - 2 on [1, 2]: f' = 3 x^2, m = 3, Mb = 12, L = 12, root rc = exp(ln 2 / 3);
       a one-pass run of the scalar solve from 5/4 with delta = 1/4, tol = 1 that answers
       Ok (5/4 + 3/304) after the three calls 3/2, 1, 5/4. *)
From Coq Require Import List Arith Lia Reals Lra Psatz ZArith QArith Qcanon.
From OV Require Import Base.Panic Base.Arith Model.Vector Model.Matrix Model.Solve Model.Newton Inst.QcInst
  Proofs.Matrix Proofs.SolveBase Proofs.Solve Proofs.NewtonLoop Proofs.Newton Proofs.NewtonJac Proofs.NewtonSys
  Proofs.NewtonReal Proofs.Newton2Deriv Proofs.Newton2Sys Proofs.Newton2Real Proofs.Newton2Scalar Proofs.Newton2Mono Proofs.Newton2Diag.
Import ListNotations.

(* ---------------- linear systems ---------------- *)
Definition M2q : matrix AQ := @mkM AQ [q 2 1; q 1 1; q 1 1; q 3 1] 2 2.
Definition N2q : matrix AQ := @mkM AQ [q 3 5; q (-1) 5; q (-1) 5; q 2 5] 2 2.

Lemma M2q_left_inverse : left_inverse (rows M2q) (ent N2q) (ent M2q).
Proof.
  intros i j Hi Hj. change (rows M2q) with 2%nat in *.
  destruct i as [|[|i]]; try lia; destruct j as [|[|j]]; try lia;
    apply Qc_is_canon; vm_compute; reflexivity.
Qed.

Lemma q18_nonzero : emb (NReal AQ) (q 1 8) <> zero.
Proof. intros H. apply (f_equal this) in H. discriminate. Qed.

Local Open Scope R_scope.

Definition M2r : matrix AR := @mkM AR [2; 1; 1; 3] 2 2.
Definition N2r : matrix AR := @mkM AR [3 / 5; - 1 / 5; - 1 / 5; 2 / 5] 2 2.

Lemma M2r_left_inverse : left_inverse (rows M2r) (ent N2r) (ent M2r).
Proof.
  intros i j Hi Hj. change (rows M2r) with 2%nat in *.
  destruct i as [|[|i]]; try lia; destruct j as [|[|j]]; try lia; cbn; unfold ent; cbn; field.
Qed.

(* ---------------- x^3 - 2 ---------------- *)
Definition cube2 (x : R) : R := x * x * x - 2.
Definition cube2' (x : R) : R := 3 * x * x.
Definition rc : R := exp (ln 2 / 3).

Lemma cube2_der c : derivable_pt_lim cube2 c (cube2' c).
Proof. unfold cube2, cube2'. dpoly. Qed.

Lemma rc_root : cube2 rc = 0.
Proof.
  unfold cube2, rc. rewrite <- !exp_plus.
  replace (ln 2 / 3 + ln 2 / 3 + ln 2 / 3) with (ln 2) by field.
  rewrite exp_ln by lra. ring.
Qed.

Lemma rc_bounds : 12 / 10 <= rc <= 13 / 10.
Proof.
  pose proof rc_root as Hr. unfold cube2 in Hr.
  assert (Hp : 0 < rc) by (unfold rc; apply exp_pos).
  split.
  - destruct (Rle_dec (12 / 10) rc) as [|N]; [assumption|]. exfalso.
    assert (H1 : rc < 12 / 10) by lra.
    assert (H2 : rc * rc < 12 / 10 * (12 / 10)) by nra.
    assert (H3 : rc * rc * rc < 12 / 10 * (12 / 10) * (12 / 10)) by nra. lra.
  - destruct (Rle_dec rc (13 / 10)) as [|N]; [assumption|]. exfalso.
    assert (H1 : 13 / 10 < rc) by lra.
    assert (H2 : 13 / 10 * (13 / 10) < rc * rc) by nra.
    assert (H3 : 13 / 10 * (13 / 10) * (13 / 10) < rc * rc * rc) by nra. lra.
Qed.

Lemma cube2_lo c : 1 <= c <= 2 -> 3 <= Rabs (cube2' c).
Proof. intros H. unfold cube2'. rewrite Rabs_right; nra. Qed.

Lemma cube2_hi c : 1 <= c <= 2 -> Rabs (cube2' c) <= 12.
Proof. intros H. unfold cube2'. rewrite Rabs_right; nra. Qed.

Lemma cube2_lip u v : 1 <= u <= 2 -> 1 <= v <= 2 -> Rabs (cube2' u - cube2' v) <= 12 * Rabs (u - v).
Proof.
  intros Hu Hv. unfold cube2'.
  replace (3 * u * u - 3 * v * v) with ((3 * (u + v)) * (u - v)) by ring.
  rewrite Rabs_mult. apply Rmult_le_compat_r; [apply Rabs_pos|]. rewrite Rabs_right; lra.
Qed.

Lemma cube2_convex u v : rc <= u -> u <= v -> v <= 2 -> cube2' u <= cube2' v.
Proof. intros H1 H2 H3. pose proof rc_bounds. unfold cube2'. nra. Qed.

Lemma cube2_pos_at_root : 0 < cube2' rc.
Proof. pose proof rc_bounds. unfold cube2'. nra. Qed.

(* the one-pass run *)
Lemma cube2_run :
  newton_scalar NRl (mkCfg 1 (1 / 4) 1%nat (5 / 4)) (fun t => Ok (cube2 t)) =
    Ok (NOk (5 / 4 + 3 / 304), [3 / 2; 1; 5 / 4]).
Proof.
  unfold newton_scalar. cbn [tol delta max_iter guess nloop].
  assert (Hc : cdq cube2 (5 / 4) (1 / 4) = 19 / 4) by (unfold cdq, cube2; field).
  assert (Hs : scalar_step NRl 1 (1 / 4) (fun t => Ok (cube2 t)) (5 / 4) =
               Ok (5 / 4 - cube2 (5 / 4) / cdq cube2 (5 / 4) (1 / 4),
                   R_leb (Rabs (cube2 (5 / 4) / cdq cube2 (5 / 4) (1 / 4))) 1,
                   [5 / 4 + 1 / 4; 5 / 4 - 1 / 4; 5 / 4])).
  { apply scalar_pass_R; [lra|rewrite Hc; lra]. }
  rewrite Hs. cbn [bind]. rewrite Hc.
  assert (Hv : cube2 (5 / 4) / (19 / 4) = - (3 / 304)) by (unfold cube2; field).
  rewrite Hv.
  assert (Ht : R_leb (Rabs (- (3 / 304))) 1 = true).
  { apply R_leb_true. rewrite Rabs_Ropp, Rabs_right; lra. }
  rewrite Ht. cbn [app].
  replace (5 / 4 - - (3 / 304)) with (5 / 4 + 3 / 304) by ring.
  replace (5 / 4 + 1 / 4) with (3 / 2) by field. replace (5 / 4 - 1 / 4) with 1 by field.
  reflexivity.
Qed.

(* higher derivatives of x^3 - 2 and the pass of cube2_run, for the central-difference bound *)
Lemma cube2_der2 c : derivable_pt_lim cube2' c (6 * c).
Proof. unfold cube2'. dpoly. Qed.

Lemma cube2_der3 c : derivable_pt_lim (fun x => 6 * x) c 6.
Proof. dpoly. Qed.

Lemma cube2_pass :
  scalar_step NRl 1 (1 / 4) (fun t => Ok (cube2 t)) (5 / 4) =
    Ok (5 / 4 - cube2 (5 / 4) / cdq cube2 (5 / 4) (1 / 4),
        R_leb (Rabs (cube2 (5 / 4) / cdq cube2 (5 / 4) (1 / 4))) 1,
        [5 / 4 + 1 / 4; 5 / 4 - 1 / 4; 5 / 4]).
Proof.
  assert (Hc : cdq cube2 (5 / 4) (1 / 4) = 19 / 4) by (unfold cdq, cube2; field).
  apply scalar_pass_R; [lra|rewrite Hc; lra].
Qed.

(* ---------------- a decoupled 2 x 2 nonlinear system: (x, y) |-> (x^3 - 2, y^3 - 2) ---------------- *)
Definition F2w (p : list R) : res (list R) :=
  let* x := rd p 0 in let* y := rd p 1 in Ok [cube2 x; cube2 y].
Definition J2w (p : list R) : res (matrix AR) :=
  let* x := rd p 0 in let* y := rd p 1 in Ok (@mkM AR [cube2' x; 0; 0; cube2' y] 2 2).

Lemma F2w_spec x : length x = 2%nat ->
  exists v, F2w x = Ok v /\ length v = 2%nat /\
    forall i, (i < 2)%nat -> nth i v 0 = (fun _ : nat => cube2) i (nth i x 0).
Proof.
  destruct x as [|u [|w [|? ?]]]; try discriminate. intros _. cbn. eexists. split; [reflexivity|].
  split; [reflexivity|]. intros [|[|i]] Hi; try lia; reflexivity.
Qed.

Lemma J2w_spec x : length x = 2%nat ->
  exists J, J2w x = Ok J /\ wf J /\ rows J = 2%nat /\ cols J = 2%nat /\
    forall i j, (i < 2)%nat -> (j < 2)%nat ->
      ent J i j = if (i =? j)%nat then (fun _ : nat => cube2') i (nth i x 0) else 0.
Proof.
  destruct x as [|u [|w [|? ?]]]; try discriminate. intros _. cbn. eexists. split; [reflexivity|].
  split; [reflexivity|]. split; [reflexivity|]. split; [reflexivity|].
  intros [|[|i]] [|[|j]] Hi Hj; try lia; reflexivity.
Qed.

Lemma ball2w : length [5 / 4; 13 / 10] = 2%nat /\
  forall i, (i < 2)%nat -> Rabs (nth i [5 / 4; 13 / 10] 0 - (fun _ : nat => rc) i) <= 1 / 10.
Proof.
  pose proof rc_bounds as Hrc. split; [reflexivity|].
  intros [|[|i]] Hi; try lia; cbn; unfold Rabs; destruct (Rcase_abs _); lra.
Qed.
