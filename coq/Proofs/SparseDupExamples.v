(* Proofs/SparseDupExamples.v -- the statements of Proofs/SparseDup*.v run (vm_compute over Qc) on a 2x2 storage
   that holds position (1,1) THREE times (values 2, 30, 500, with the entry (0,1) = 7 stored between the first
   and the second of them), and the answers of the Rust executor on the same input.

      column 0:  (0,0) = 1            column 1:  (1,1) = 2,  (0,1) = 7,  (1,1) = 30,  (1,1) = 500

   get(1,1) = Some 2 (first), to_dense[(1,1)] = 500 (last), multiply works with 532 (sum). *)
From Coq Require Import List Arith ZArith QArith Qcanon Lia Permutation.
From OV Require Import Base.Panic Base.Arith Base.Flat Model.Vector Model.Matrix Model.Sparse Model.SparseOps Inst.QcInst
                       Proofs.SparseBase Proofs.SparseMul Proofs.SparseWf Proofs.SparseHist Proofs.SparseViews
                       Proofs.SparseRefine Proofs.SparseTranspose Proofs.SparseFinal
                       Proofs.SparseDup Proofs.SparseDupOps Proofs.SparseDupMul Proofs.SparseDupHist Proofs.SparseDupTranspose Proofs.SparseDupOrder.
Import ListNotations.
Local Open Scope nat_scope.

Definition dup_s : sparse AQ :=
  @mkS AQ 2 2 5 [q 1 1; q 2 1; q 7 1; q 30 1; q 500 1] [0; 1; 0; 1; 1] [0; 1; 5].
(* the same matrix as a triplet list: not in column order, the three (1,1) triplets in the order 2, 30, 500 *)
Definition dup_ts : list (triplet AQ) :=
  [(1, 1, q 2 1); (0, 0, q 1 1); (0, 1, q 7 1); (1, 1, q 30 1); (1, 1, q 500 1)].
Definition dup_x : list AQ := [q 3 1; q (-2) 1].
Definition dup_y : list AQ := [q 5 1; q 7 1].

(* the raw storage arrays, as they are (no canonical order) *)
Definition dump (s : sparse AQ) : list Z :=
  fl_list fl_nat (sp_col_start s) ++ fl_list fl_nat (sp_row_index s) ++ fl_list flat_q (sp_val s).

Example dup_RingLaws : RingLaws AQ.
Proof. constructor. exact Qcrt. Qed.

Example dup_s_wf : wfS dup_s.
Proof.
  unfold wfS, dup_s; cbn [sp_rows sp_cols sp_nonzero sp_val sp_row_index sp_col_start length nth Nat.add].
  repeat split; try reflexivity.
  - intros j Hj. do 2 (destruct j as [|j]; [cbn [nth Nat.add]; lia|]). lia.
  - intros k Hk. do 5 (destruct k as [|k]; [cbn [nth]; lia|]). lia.
Qed.

(* the storage is outside the duplicate-free claim of views_agree / sp_refines_map / to_dense_entry *)
Example dup_s_has_duplicates : ~ NoDupKeys dup_s.
Proof.
  unfold NoDupKeys, ents, visits, seg, ent, dup_s, trow, tcol.
  cbn [sp_rows sp_cols sp_nonzero sp_val sp_row_index sp_col_start seq flat_map map nth Nat.add Nat.sub app fst snd].
  intros H. inversion H as [|? ? _ H1]; subst. inversion H1 as [|? ? Hn _]; subst.
  apply Hn. cbn [In]. auto.
Qed.

Example dup_ts_in_range : forall t, In t dup_ts -> trow t < 2 /\ tcol t < 2.
Proof.
  intros t Ht. unfold dup_ts in Ht. cbn [In] in Ht.
  repeat (destruct Ht as [<-|Ht]; [unfold trow, tcol; cbn [fst snd]; lia|]). destruct Ht.
Qed.

(* a duplicate-free storage (the 3x4 example of Props/C06.v, C07.v) for the corollaries under NoDupKeys *)
Definition nd_s : sparse AQ :=
  @mkS AQ 3 4 4 [q 2 1; q (-1) 2; q 7 1; q 5 3] [2; 0; 1; 2] [0; 0; 2; 3; 4].

Example nd_s_wf : wfS nd_s.
Proof.
  unfold wfS, nd_s; cbn [sp_rows sp_cols sp_nonzero sp_val sp_row_index sp_col_start length nth Nat.add].
  repeat split; try reflexivity.
  - intros j Hj. do 4 (destruct j as [|j]; [cbn [nth Nat.add]; lia|]). lia.
  - intros k Hk. do 4 (destruct k as [|k]; [cbn [nth]; lia|]). lia.
Qed.

Example nd_s_nodup : NoDupKeys nd_s.
Proof.
  unfold NoDupKeys, ents, visits, seg, ent, nd_s, trow, tcol.
  cbn [sp_rows sp_cols sp_nonzero sp_val sp_row_index sp_col_start seq flat_map map nth Nat.add Nat.sub app fst snd].
  repeat constructor; cbn [In]; intros H; repeat (destruct H as [H|H]; [discriminate H|]); destruct H.
Qed.

(* ---- 1. the three views of the tripled position ---- *)
Example dup_dvals : fl_list flat_q (dvals dup_s 1 1) = [0; 3;  2; 2; 1;  2; 30; 1;  2; 500; 1]%Z      (* [2; 30; 500] *)
  /\ fl_list flat_q (dvals dup_s 0 1) = [0; 1;  2; 7; 1]%Z /\ fl_list flat_q (dvals dup_s 1 0) = [0; 0]%Z.
Proof. vm_compute. auto. Qed.

Example dup_get_first : fl_res (@fl_opt AQ flat_q) (sp_get dup_s 1 1) = [0; 1;  2; 2; 1]%Z.                  (* Some 2 *)
Proof. vm_compute. reflexivity. Qed.

Example dup_dense_last : fl_res flat_q (let* D := sp_to_dense dup_s in mget D 1 1) = [2; 500; 1]%Z        (* 500 *)
  /\ fl_res (@fl_mat AQ flat_q) (sp_to_dense dup_s) = [0; 2; 0; 2;  2; 1; 1;  2; 7; 1;  2; 0; 1;  2; 500; 1]%Z.
Proof. vm_compute. auto. Qed.

Example dup_entry_sum : flat_q (sp_entry dup_s 1 1) = [2; 532; 1]%Z.                                     (* 2 + 30 + 500 *)
Proof. vm_compute. reflexivity. Qed.

(* first <> last <> sum at (1,1): the views disagree there, and agree at the other three positions *)
Example dup_views_disagree :
  flat_q (hd zero (dvals dup_s 1 1)) <> flat_q (last (dvals dup_s 1 1) zero) /\
  flat_q (last (dvals dup_s 1 1) zero) <> flat_q (suml (dvals dup_s 1 1)) /\
  forall i j, i < 2 -> j < 2 -> (i, j) <> (1, 1) ->
    hd zero (dvals dup_s i j) = last (dvals dup_s i j) zero /\
    flat_q (last (dvals dup_s i j) zero) = flat_q (suml (dvals dup_s i j)).
Proof.
  split; [vm_compute; discriminate|]. split; [vm_compute; discriminate|].
  intros [|[|i]] [|[|j]] Hi Hj Hne; try lia; try (exfalso; apply Hne; reflexivity); split; vm_compute; reflexivity.
Qed.

(* ---- 2. from_triplets stores the duplicates in input order: it builds exactly dup_s ---- *)
Example dup_from_triplets : fl_res dump (sp_from_triplets 2 2 dup_ts) = dump dup_s.
Proof. vm_compute. reflexivity. Qed.

Example dup_from_triplets_picks :
  fl_list flat_q (map (@tval AQ) (filter (tmatch 1 1) dup_ts)) = [0; 3;  2; 2; 1;  2; 30; 1;  2; 500; 1]%Z /\
  fl_res (@fl_opt AQ flat_q) (let* s := sp_from_triplets 2 2 dup_ts in sp_get s 1 1) = [0; 1;  2; 2; 1]%Z /\     (* first in input order *)
  fl_res flat_q (let* s := sp_from_triplets 2 2 dup_ts in let* D := sp_to_dense s in mget D 1 1) = [2; 500; 1]%Z.   (* last in input order *)
Proof. vm_compute. auto. Qed.

(* the reversed input: get now returns 500, to_dense 2 -- construction DOES depend on the order of duplicates *)
Example dup_from_triplets_reversed :
  fl_res (@fl_opt AQ flat_q) (let* s := sp_from_triplets 2 2 (rev dup_ts) in sp_get s 1 1) = [0; 1;  2; 500; 1]%Z /\
  fl_res flat_q (let* s := sp_from_triplets 2 2 (rev dup_ts) in let* D := sp_to_dense s in mget D 1 1) = [2; 2; 1]%Z.
Proof. vm_compute. auto. Qed.

(* another order of the same triplets that keeps the three (1,1) triplets in the order 2, 30, 500 *)
Definition dup_ts' : list (triplet AQ) :=
  [(0, 1, q 7 1); (1, 1, q 2 1); (1, 1, q 30 1); (0, 0, q 1 1); (1, 1, q 500 1)].

Example dup_ts'_in_range : forall t, In t dup_ts' -> trow t < 2 /\ tcol t < 2.
Proof.
  intros t Ht. unfold dup_ts' in Ht. cbn [In] in Ht.
  repeat (destruct Ht as [<-|Ht]; [unfold trow, tcol; cbn [fst snd]; lia|]). destruct Ht.
Qed.

Example dup_ts_same_duplicate_order : forall i j, i < 2 -> j < 2 -> filter (tmatch i j) dup_ts = filter (tmatch i j) dup_ts'.
Proof. intros [|[|i]] [|[|j]] Hi Hj; try lia; reflexivity. Qed.

(* the raw storage differs from dup_s ((0,1) = 7 now precedes the (1,1) entries in column 1), the views do not *)
Example dup_from_triplets_same_order :
  fl_res dump (sp_from_triplets 2 2 dup_ts') <> dump dup_s /\
  fl_res (fun s : sparse AQ => fl_list flat_q (dvals s 1 1)) (sp_from_triplets 2 2 dup_ts') = [0; 3;  2; 2; 1;  2; 30; 1;  2; 500; 1]%Z /\
  fl_res (@fl_opt AQ flat_q) (let* s := sp_from_triplets 2 2 dup_ts' in sp_get s 1 1) = [0; 1;  2; 2; 1]%Z /\
  fl_res (@fl_mat AQ flat_q) (let* s := sp_from_triplets 2 2 dup_ts' in sp_to_dense s) = [0; 2; 0; 2;  2; 1; 1;  2; 7; 1;  2; 0; 1;  2; 500; 1]%Z.
Proof. split; [vm_compute; discriminate|]. vm_compute. auto. Qed.

(* the products do not see the order at all: reversed input, same products (and a different get, above) *)
Example dup_products_reversed :
  fl_res (fl_list flat_q) (let* s := sp_from_triplets 2 2 (rev dup_ts) in sp_mul s dup_x) = [0; 2;  2; -11; 1;  2; -1064; 1]%Z /\
  fl_res (fl_list flat_q) (let* s := sp_from_triplets 2 2 (rev dup_ts) in sp_tmul s dup_y) = [0; 2;  2; 5; 1;  2; 3759; 1]%Z.
Proof. vm_compute. auto. Qed.

(* ---- 3. insert overwrites the first stored duplicate only; transpose keeps the order of the duplicates ---- *)
Example dup_insert : fl_res dump (sp_insert dup_s 1 1 (q 9 1))
  = [0; 3; 0; 0; 0; 1; 0; 5;   0; 5; 0; 0; 0; 1; 0; 0; 0; 1; 0; 1;   0; 5;  2; 1; 1;  2; 9; 1;  2; 7; 1;  2; 30; 1;  2; 500; 1]%Z   (* val [1; 9; 7; 30; 500] *)
  /\ fl_res (fun s : sparse AQ => fl_list flat_q (dvals s 1 1)) (sp_insert dup_s 1 1 (q 9 1)) = [0; 3;  2; 9; 1;  2; 30; 1;  2; 500; 1]%Z
  /\ fl_res (fun s : sparse AQ => flat_q (sp_entry s 1 1)) (sp_insert dup_s 1 1 (q 9 1)) = [2; 539; 1]%Z.
Proof. vm_compute. auto. Qed.

(* a position that is not stored: the rebuild appends it to its column, duplicates elsewhere untouched *)
Example dup_insert_fresh : fl_res dump (sp_insert dup_s 1 0 (q 4 1))
  = [0; 3; 0; 0; 0; 2; 0; 6;   0; 6; 0; 0; 0; 1; 0; 1; 0; 0; 0; 1; 0; 1;   0; 6;  2; 1; 1;  2; 4; 1;  2; 2; 1;  2; 7; 1;  2; 30; 1;  2; 500; 1]%Z.
Proof. vm_compute. reflexivity. Qed.

Example dup_transpose : fl_res dump (sp_transpose dup_s)
  = [0; 3; 0; 0; 0; 2; 0; 5;   0; 5; 0; 0; 0; 1; 0; 1; 0; 1; 0; 1;   0; 5;  2; 1; 1;  2; 7; 1;  2; 2; 1;  2; 30; 1;  2; 500; 1]%Z   (* column 1 of the transpose: (1,0)=7, then (1,1) = 2, 30, 500 *)
  /\ fl_res (fun s : sparse AQ => fl_list flat_q (dvals s 1 1)) (sp_transpose dup_s) = [0; 3;  2; 2; 1;  2; 30; 1;  2; 500; 1]%Z
  /\ fl_res (fun s : sparse AQ => fl_list flat_q (dvals s 1 0)) (sp_transpose dup_s) = [0; 1;  2; 7; 1]%Z.
Proof. vm_compute. auto. Qed.

(* transpose = from_triplets of the swapped listing (all six fields) *)
Example dup_transpose_is_from_triplets :
  fl_res dump (sp_transpose dup_s) = fl_res dump (sp_from_triplets 2 2 (map tswap (ents dup_s))).
Proof. vm_compute. reflexivity. Qed.

(* a history on the storage with duplicates: overwrite the first (1,1), transpose, overwrite it again, scale, overwrite (0,0),
   insert the absent (0,1) -- the lists of the storage are those of the list-level specification *)
Definition dup_ops : list (sop AQ) :=
  [@SInsert AQ 1 1 (q 9 1); @STranspose AQ; @SInsert AQ 1 1 (q 4 1); @SScale AQ (q 3 1); @SInsert AQ 0 0 (q (-1) 1); @SInsert AQ 0 1 (q 8 1)].

Example dup_ops_ok : ops_ok (sp_rows dup_s) (sp_cols dup_s) dup_ops.
Proof. unfold dup_ops, dup_s. cbn [ops_ok sp_rows sp_cols]. repeat split; lia. Qed.

Example dup_history :
  fl_res (fun s : sparse AQ => fl_list flat_q (dvals s 1 1)) (sp_run dup_ops dup_s) = [0; 3;  2; 12; 1;  2; 90; 1;  2; 1500; 1]%Z /\
  fl_list flat_q (dspec_run dup_ops (dabs dup_s) 1 1) = [0; 3;  2; 12; 1;  2; 90; 1;  2; 1500; 1]%Z /\
  fl_res (fun s : sparse AQ => fl_list flat_q (dvals s 0 0 ++ dvals s 0 1 ++ dvals s 1 0)) (sp_run dup_ops dup_s)
    = [0; 3;  2; -1; 1;  2; 8; 1;  2; 21; 1]%Z /\
  fl_list flat_q (dspec_run dup_ops (dabs dup_s) 0 0 ++ dspec_run dup_ops (dabs dup_s) 0 1 ++ dspec_run dup_ops (dabs dup_s) 1 0)
    = [0; 3;  2; -1; 1;  2; 8; 1;  2; 21; 1]%Z /\
  fl_res (@fl_opt AQ flat_q) (let* s := sp_run dup_ops dup_s in sp_get s 1 1) = [0; 1;  2; 12; 1]%Z.
Proof. vm_compute. repeat split. Qed.

(* ---- 4. products: the sparse product works with 532, the product with the dense conversion with 500 ---- *)
Example dup_mul : fl_res (fl_list flat_q) (sp_mul dup_s dup_x) = [0; 2;  2; -11; 1;  2; -1064; 1]%Z          (* [3 - 14; 532 * -2] *)
  /\ fl_res (fl_list flat_q) (let* D := sp_to_dense dup_s in multiply D dup_x) = [0; 2;  2; -11; 1;  2; -1000; 1]%Z     (* [3 - 14; 500 * -2] *)
  /\ fl_res (fl_list flat_q) (sp_tmul dup_s dup_y) = [0; 2;  2; 5; 1;  2; 3759; 1]%Z                      (* [5; 35 + 532 * 7] *)
  /\ fl_res (fl_list flat_q) (let* t := sp_transpose dup_s in sp_mul t dup_y) = [0; 2;  2; 5; 1;  2; 3759; 1]%Z.
Proof. vm_compute. auto. Qed.

Example dup_adjoint :
  fl_res flat_q (let* u := sp_mul dup_s dup_x in dot dup_y u) = [2; -7503; 1]%Z /\
  fl_res flat_q (let* w := sp_tmul dup_s dup_y in dot w dup_x) = [2; -7503; 1]%Z.
Proof. vm_compute. auto. Qed.

(* ---- 5. the Rust executor on the same input (hand run of the harness, 2026-10-02, /repo unchanged) ----
   line:    sp.hist V 2 2 [1/1,2/1,7/1,30/1,500/1] [0,1,0,1,1] [0,1,5] insert 1 1 9/1 ; transpose ;
   and:     sp.hist T 2 2 [1@1@2/1,0@0@1/1,0@1@7/1,1@1@30/1,1@1@500/1] insert 1 1 9/1 ; transpose ;     (identical answer)
   answer:  i2 i2 i5 i3 i0 i1 i5 i5 i0 i0 i1 i1 i1 i5 q1/1 q7/1 q2/1 q30/1 q500/1 i5 i0 i1 i1 i1 i1 i5 i0 i0 q1/1 i0 i1 q7/1 i1 i1 q2/1 i1 i1 q30/1 i1 i1 q500/1 i2 i2 q1/1 q7/1 q0/1 q500/1 i1 q1/1 i1 q7/1 i0 i1 q2/1 i2 i2 i5 i3 i0 i1 i5 i5 i0 i0 i1 i1 i1 i5 q1/1 q7/1 q9/1 q30/1 q500/1 i5 i0 i1 i1 i1 i1 i5 i0 i0 q1/1 i0 i1 q7/1 i1 i1 q9/1 i1 i1 q30/1 i1 i1 q500/1 i2 i2 q1/1 q7/1 q0/1 q500/1 i1 q1/1 i1 q7/1 i0 i1 q9/1 i2 i2 i5 i3 i0 i2 i5 i5 i0 i1 i1 i1 i1 i5 q1/1 q7/1 q9/1 q30/1 q500/1 i5 i0 i0 i1 i1 i1 i5 i0 i0 q1/1 i1 i0 q7/1 i1 i1 q9/1 i1 i1 q30/1 i1 i1 q500/1 i2 i2 q1/1 q0/1 q7/1 q500/1 i1 q1/1 i0 i1 q7/1 i1 q9/1
   (per state: rows cols nonzero | col_start | row_index, val (canonical within a column: stable by row) | col_index |
    triplets | dense | get at (0,0) (0,1) (1,0) (1,1)).  Read off: get(1,1) = 2 / dense 500 at first; after insert 1 1 9 the
    values of (1,1) are 9, 30, 500 (get 9, dense 500); after transpose still 9, 30, 500 in this order (get 9).
   [dup_exec_hist] is that answer in the encoding of Base/Flat.v (i<n> -> 0; n, q<n>/<d> -> 2; n; d); the model computes it. *)
Definition dup_exec_hist : list Z :=
  [0; 2; 0; 2; 0; 5; 0; 3; 0; 0; 0; 1; 0; 5; 0; 5; 0; 0; 0; 0; 0; 1; 0; 1; 0; 1; 0; 5; 2; 1; 1; 2; 7; 1; 2; 2; 1; 2; 30; 1; 2; 500; 1; 0; 5; 0; 0; 0; 1; 0; 1; 0; 1; 0; 1; 0; 5; 0; 0; 0; 0; 2; 1; 1; 0; 0; 0; 1; 2; 7; 1; 0; 1; 0; 1; 2; 2; 1; 0; 1; 0; 1; 2; 30; 1; 0; 1; 0; 1; 2; 500; 1; 0; 2; 0; 2; 2; 1; 1; 2; 7; 1; 2; 0; 1; 2; 500; 1; 0; 1; 2; 1; 1; 0; 1; 2; 7; 1; 0; 0; 0; 1; 2; 2; 1; 0; 2; 0; 2; 0; 5; 0; 3; 0; 0; 0; 1; 0; 5; 0; 5; 0; 0; 0; 0; 0; 1; 0; 1; 0; 1; 0; 5; 2; 1; 1; 2; 7; 1; 2; 9; 1; 2; 30; 1; 2; 500; 1; 0; 5; 0; 0; 0; 1; 0; 1; 0; 1; 0; 1; 0; 5; 0; 0; 0; 0; 2; 1; 1; 0; 0; 0; 1; 2; 7; 1; 0; 1; 0; 1; 2; 9; 1; 0; 1; 0; 1; 2; 30; 1; 0; 1; 0; 1; 2; 500; 1; 0; 2; 0; 2; 2; 1; 1; 2; 7; 1; 2; 0; 1; 2; 500; 1; 0; 1; 2; 1; 1; 0; 1; 2; 7; 1; 0; 0; 0; 1; 2; 9; 1; 0; 2; 0; 2; 0; 5; 0; 3; 0; 0; 0; 2; 0; 5; 0; 5; 0; 0; 0; 1; 0; 1; 0; 1; 0; 1; 0; 5; 2; 1; 1; 2; 7; 1; 2; 9; 1; 2; 30; 1; 2; 500; 1; 0; 5; 0; 0; 0; 0; 0; 1; 0; 1; 0; 1; 0; 5; 0; 0; 0; 0; 2; 1; 1; 0; 1; 0; 0; 2; 7; 1; 0; 1; 0; 1; 2; 9; 1; 0; 1; 0; 1; 2; 30; 1; 0; 1; 0; 1; 2; 500; 1; 0; 2; 0; 2; 2; 1; 1; 2; 0; 1; 2; 7; 1; 2; 500; 1; 0; 1; 2; 1; 1; 0; 0; 0; 1; 2; 7; 1; 0; 1; 2; 9; 1]%Z.

Example dup_executor_hist_vecs :
  @sp_hist AQ flat_q (@BVecs AQ 2 2 [q 1 1; q 2 1; q 7 1; q 30 1; q 500 1] [0; 1; 0; 1; 1] [0; 1; 5])
           [@SInsert AQ 1 1 (q 9 1); @STranspose AQ] = dup_exec_hist.
Proof. vm_compute. reflexivity. Qed.

Example dup_executor_hist_triplets :
  @sp_hist AQ flat_q (@BTrip AQ 2 2 dup_ts) [@SInsert AQ 1 1 (q 9 1); @STranspose AQ] = dup_exec_hist.
Proof. vm_compute. reflexivity. Qed.

(* line:    sp.prod V 2 2 [1/1,2/1,7/1,30/1,500/1] [0,1,0,1,1] [0,1,5] [3/1,-2/1] [5/1,7/1] 2/1
   answer:  i2 q-11/1 q-1064/1 i2 q5/1 q3759/1 i2 q5/1 q3759/1 q-7503/1 q-7503/1 i2 i2 q1/1 q7/1 q0/1 q500/1 i2 q-22/1 q-2128/1
   (A x | A^T y | transpose(A) y | <y, A x> | <A^T y, x> | to_dense | (2 A) x) *)
Definition dup_exec_prod : list Z :=
  [0; 2; 2; -11; 1; 2; -1064; 1; 0; 2; 2; 5; 1; 2; 3759; 1; 0; 2; 2; 5; 1; 2; 3759; 1; 2; -7503; 1; 2; -7503; 1; 0; 2; 0; 2; 2; 1; 1; 2; 7; 1; 2; 0; 1; 2; 500; 1; 0; 2; 2; -22; 1; 2; -2128; 1]%Z.

Example dup_executor_prod :
  @sp_prod AQ flat_q (@BVecs AQ 2 2 [q 1 1; q 2 1; q 7 1; q 30 1; q 500 1] [0; 1; 0; 1; 1] [0; 1; 5]) dup_x dup_y (q 2 1)
  = dup_exec_prod.
Proof. vm_compute. reflexivity. Qed.
