(* Proofs/NewtonReal.v -- C17, convergence half over the reals for two families:
   affine functions with nonzero slope (the central difference is exact) and x^2 - c. *)
From Coq Require Import List Arith Lia Reals Lra Psatz.
From OV Require Import Base.Panic Base.Arith Model.Newton Proofs.NewtonLoop.
Import ListNotations.
Local Open Scope R_scope.

(* the real numbers as an arithmetic: exact field operations, division by zero is the panic of
   an exact type, abs = |x| *)
Definition R_eqb (x y : R) : bool := if Req_EM_T x y then true else false.
Definition R_ltb (x y : R) : bool := if Rlt_dec x y then true else false.
Definition R_leb (x y : R) : bool := if Rle_dec x y then true else false.
Definition R_div (x y : R) : res R := if Req_EM_T y 0 then Panic DivZero else Ok (x / y).

Definition AR : Arith := {|
  T := R; zero := 0; one := 1; add := Rplus; sub := Rminus; mul := Rmult; neg := Ropp;
  abs := Rabs; div := R_div; eqb := R_eqb; ltb := R_ltb; leb := R_leb |}.

Definition NRl : NOps := NReal AR.

Lemma R_leb_true x y : R_leb x y = true <-> x <= y.
Proof. unfold R_leb. destruct (Rle_dec x y); split; auto; discriminate. Qed.

Lemma R_div_ok x y : y <> 0 -> R_div x y = Ok (x / y).
Proof. intros H. unfold R_div. destruct (Req_EM_T y 0); [contradiction|reflexivity]. Qed.

(* one scalar pass over R, for a function total at the three call points *)
Lemma scalar_step_R (tl dl : R) (f : R -> res R) x fp fm fc :
  f (x + dl) = Ok fp -> f (x - dl) = Ok fm -> f x = Ok fc ->
  dl <> 0 -> (fp - fm) / (2 * dl) <> 0 ->
  scalar_step NRl tl dl f x =
    Ok (x - fc / ((fp - fm) / (2 * dl)), R_leb (Rabs (fc / ((fp - fm) / (2 * dl)))) tl,
        [x + dl; x - dl; x]).
Proof.
  intros Hp Hm Hc Hd Hder. unfold scalar_step. cbn.
  rewrite Hp. cbn. rewrite Hm. cbn.
  replace ((1 + 1) * dl) with (2 * dl) by ring.
  rewrite R_div_ok by lra. cbn. rewrite Hc. cbn.
  rewrite R_div_ok by exact Hder. reflexivity.
Qed.

(* ---------------- affine functions ---------------- *)
Section Affine.
Variables a b tl dl : R.
Hypothesis Ha : a <> 0.
Hypothesis Hd : dl <> 0.
Let f (x : R) : res R := Ok (a * x + b).

Lemma affine_step x :
  scalar_step NRl tl dl f x = Ok (- b / a, R_leb (Rabs (x + b / a)) tl, [x + dl; x - dl; x]).
Proof.
  assert (E : (a * (x + dl) + b - (a * (x - dl) + b)) / (2 * dl) = a) by (field; exact Hd).
  rewrite (scalar_step_R tl dl f x (a * (x + dl) + b) (a * (x - dl) + b) (a * x + b));
    try reflexivity; auto; [|rewrite E; exact Ha].
  rewrite E.
  replace (x - (a * x + b) / a) with (- b / a) by (field; exact Ha).
  replace ((a * x + b) / a) with (x + b / a) by (field; exact Ha).
  reflexivity.
Qed.

Lemma newton_affine_lemma n x0 :
  0 <= tl -> (2 <= n)%nat ->
  exists evs, newton_scalar NRl (mkCfg tl dl n x0) f = Ok (NOk (- b / a), evs).
Proof.
  intros Ht Hn. unfold newton_scalar. cbn [tol delta max_iter guess].
  destruct n as [|[|n]]; try lia. cbn [nloop].
  rewrite affine_step. cbn [bind].
  destruct (R_leb (Rabs (x0 + b / a)) tl); [eauto|].
  rewrite affine_step. cbn [bind].
  replace (- b / a + b / a) with 0 by (field; exact Ha).
  rewrite Rabs_R0. apply R_leb_true in Ht. rewrite Ht. eauto.
Qed.
End Affine.

(* ---------------- x^2 - c ---------------- *)
Section Sqrt.
Variables c tl dl : R.
Hypothesis Hc : 0 < c.
Hypothesis Hd : dl <> 0.
Let f (x : R) : res R := Ok (x * x - c).

Lemma sqrt_step x : 0 < x ->
  scalar_step NRl tl dl f x =
    Ok ((x + c / x) / 2, R_leb (Rabs (x - (x + c / x) / 2)) tl, [x + dl; x - dl; x]).
Proof.
  intros Hx.
  assert (E : ((x + dl) * (x + dl) - c - ((x - dl) * (x - dl) - c)) / (2 * dl) = 2 * x) by (field; exact Hd).
  rewrite (scalar_step_R tl dl f x ((x + dl) * (x + dl) - c) ((x - dl) * (x - dl) - c) (x * x - c));
    try reflexivity; auto; [|rewrite E; lra].
  rewrite E.
  assert (E2 : (x * x - c) / (2 * x) = x - (x + c / x) / 2) by (field; lra).
  rewrite E2.
  replace (x - (x - (x + c / x) / 2)) with ((x + c / x) / 2) by ring.
  reflexivity.
Qed.

Lemma sqrt_step_pos x x' b e : 0 < x -> scalar_step NRl tl dl f x = Ok (x', b, e) -> 0 < x'.
Proof.
  intros Hx H. rewrite sqrt_step in H by exact Hx. injection H as <- _ _.
  assert (0 < c / x) by (apply Rdiv_lt_0_compat; lra). lra.
Qed.

Lemma sqrt_step_close x : 0 < x ->
  Rabs ((x + c / x) / 2 - R_sqrt.sqrt c) <= Rabs (x - (x + c / x) / 2).
Proof.
  intros Hx. set (s := R_sqrt.sqrt c).
  assert (Hs : 0 < s) by (apply sqrt_lt_R0; exact Hc).
  assert (Hss : s * s = c) by (apply sqrt_sqrt; lra).
  set (w := c / x).
  assert (Hw : w * x = c) by (unfold w; field; lra).
  assert (Hwp : 0 < w) by (apply Rdiv_lt_0_compat; lra).
  (* the new iterate is at least R_sqrt.sqrt c *)
  assert (Hge : 0 <= (x + w) / 2 - s).
  { assert (Heq : x * ((x + w) / 2 - s) = (x - s) * (x - s) / 2).
    { replace (x * ((x + w) / 2 - s)) with ((x * x + w * x) / 2 - s * x) by field.
      rewrite Hw, <- Hss. field. }
    assert (0 <= (x - s) * (x - s)) by (apply Rle_0_sqr).
    assert (0 <= x * ((x + w) / 2 - s)) by lra.
    destruct (Rle_dec 0 ((x + w) / 2 - s)); auto. exfalso. nra. }
  rewrite (Rabs_right ((x + w) / 2 - s)) by lra.
  destruct (Rle_dec s x) as [Hsx|Hsx].
  - (* x >= s: w <= s, the step is downwards and at least as long as the remaining error *)
    assert (Hws : w <= s).
    { destruct (Rle_dec w s); auto. exfalso. nra. }
    rewrite Rabs_right by lra. lra.
  - assert (Hws : s <= w).
    { destruct (Rle_dec s w); auto. exfalso. nra. }
    rewrite Rabs_left1 by lra. lra.
Qed.

Lemma newton_sqrt_lemma n x0 x evs :
  0 < x0 ->
  newton_scalar NRl (mkCfg tl dl n x0) f = Ok (NOk x, evs) -> Rabs (x - R_sqrt.sqrt c) <= tl.
Proof.
  intros H0 H. unfold newton_scalar in H. cbn [tol delta max_iter guess] in H.
  apply nloop_ok in H as (k & xk & e & _ & Hit & Hst & _).
  assert (Hk : 0 < xk).
  { eapply (niter_inv _ (fun y => 0 < y)); [|exact H0|exact Hit].
    intros y y' b e' Hy Hs. eapply sqrt_step_pos; eauto. }
  rewrite sqrt_step in Hst by exact Hk. injection Hst as <- Hb _.
  apply R_leb_true in Hb.
  eapply Rle_trans; [apply sqrt_step_close; exact Hk|exact Hb].
Qed.
End Sqrt.

(* the hypothesis of newton_sqrt_lemma is satisfiable: from x0 = 2 = sqrt 4 the first pass stops *)
Lemma newton_sqrt_witness :
  exists evs, newton_scalar NRl (mkCfg 0 1 1%nat 2) (fun x => Ok (x * x - 4)) = Ok (NOk 2, evs).
Proof.
  unfold newton_scalar. cbn [tol delta max_iter guess nloop].
  assert (H1 : 1 <> 0) by lra. assert (H2 : 0 < 2) by lra.
  set (st := scalar_step _ _ _ _ _).
  assert (Hst : st = Ok ((2 + 4 / 2) / 2, R_leb (Rabs (2 - (2 + 4 / 2) / 2)) 0, [2 + 1; 2 - 1; 2]))
    by (apply (sqrt_step 4 0 1 H1 2 H2)).
  rewrite Hst. cbn [bind].
  replace ((2 + 4 / 2) / 2) with 2 by field.
  replace (2 - 2) with 0 by ring. rewrite Rabs_R0.
  destruct (R_leb_true 0 0) as [_ H]. rewrite H by lra. eauto.
Qed.
