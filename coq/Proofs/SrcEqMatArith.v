(* Proofs/SrcEqMatArith.v -- the hand-written model of src/matrix/arithmetic.rs (the mtab / mupd_all shaped operators and
   the matrix product of Model/Matrix.v) IS the code: every definition s_<f> of gen/SrcMatArith.v (regenerated from the
   Rust source on this run) equals its hand-written counterpart, for every arithmetic, every shape and every value.
   The source re-reads the column count from the matrix being written (`for j in 0..result.cols()`, `0..self.cols`)
   where the model loops over the initial shape; equal because mset preserves the shape (nested_shape_ext). *)
From Coq Require Import List Arith ZArith Lia Bool.
From OV Require Import Base.Panic Base.Arith Model.Vector Model.Matrix gen.SrcPrelude gen.SrcMatArith Proofs.SrcEqBase.
Import ListNotations.
Section SrcEqMatArith.
Context {A : Arith}.
Implicit Types (m a b s : matrix A) (x : T A) (r c i j : nat).

Lemma mset_shape m i j x m' : mset m i j x = Ok m' -> rows m' = rows m /\ cols m' = cols m.
Proof. unfold mset. destruct (upd (buf m) (i * cols m + j) x); cbn; [|discriminate]. intros E; injection E as <-; auto. Qed.

(* nested loops whose inner bound is re-read from the matrix being written (`for j in 0..self.cols`) against the
   model's loops over the initial shape *)
Lemma nested_shape_ext r c (b1 b2 : nat -> nat -> matrix A -> res (matrix A)) m0 :
  cols m0 = c ->
  (forall i j s, cols s = c -> b1 i j s = b2 i j s) ->
  (forall i j s s', cols s = c -> b2 i j s = Ok s' -> cols s' = c) ->
  for_ 0 r (fun i s => for_ 0 (cols s) (fun j s => b1 i j s) s) m0
  = for_ 0 r (fun i s => for_ 0 c (fun j s => b2 i j s) s) m0.
Proof.
  intros H0 Hb Hk. apply (for_ext_inv (fun s => cols s = c)); [exact H0| |].
  - intros i s _ Hs. rewrite Hs. apply (for_ext_inv (fun s => cols s = c)); [exact Hs| |].
    + intros j t _ Ht. now apply Hb.
    + intros j t t' _ Ht E. eapply Hk; eauto.
  - intros i s s' _ Hs E. eapply (for_inv_keep (fun s => cols s = c)); eauto.
Qed.

Ltac peel E := lazymatch type of E with
  | mset _ _ _ _ = Ok _ => apply mset_shape in E; destruct E; congruence
  | bind _ _ = Ok _ => apply bind_ok in E; let E' := fresh in destruct E as (? & ? & E'); peel E'
  end.
Ltac shape_tac :=
  let i := fresh in let j := fresh in let s := fresh in let s' := fresh in let H := fresh in let E := fresh in
  intros i j s s' H E; peel E.

Lemma src_mneg m : s_mneg m = mneg m.
Proof.
  unfold s_mneg, mneg, mtab. apply nested_shape_ext; [reflexivity| |shape_tac].
  intros i j s _. destruct (mget m i j); reflexivity.
Qed.
Lemma src_madd a b : s_madd a b = madd a b.
Proof.
  unfold s_madd, madd, mtab. destruct (negb (rows a =? rows b)); [reflexivity|]. destruct (negb (cols a =? cols b)); [reflexivity|].
  apply nested_shape_ext; [reflexivity| |shape_tac].
  intros i j s _. destruct (mget a i j); cbn; [|reflexivity]. destruct (mget b i j); reflexivity.
Qed.
Lemma src_msub a b : s_msub a b = msub a b.
Proof.
  unfold s_msub, msub, mtab. destruct (negb (rows a =? rows b)); [reflexivity|]. destruct (negb (cols a =? cols b)); [reflexivity|].
  apply nested_shape_ext; [reflexivity| |shape_tac].
  intros i j s _. destruct (mget a i j); cbn; [|reflexivity]. destruct (mget b i j); reflexivity.
Qed.
Lemma src_mscale m x : s_mscale m x = mscale m x.
Proof.
  unfold s_mscale, mscale, mtab. apply nested_shape_ext; [reflexivity| |shape_tac].
  intros i j s _. destruct (mget m i j); reflexivity.
Qed.
Lemma src_mscale_l x m : s_mscale_l x m = mscale_l x m.
Proof.
  unfold s_mscale_l, mscale_l, mtab. apply nested_shape_ext; [reflexivity| |shape_tac].
  intros i j s _. destruct (mget m i j); reflexivity.
Qed.
Lemma src_mdiv m x : s_mdiv m x = mdiv m x.
Proof.
  unfold s_mdiv, mdiv, mtab. apply nested_shape_ext; [reflexivity| |shape_tac].
  intros i j s _. destruct (mget m i j); reflexivity.
Qed.

(* in-place forms: the source also re-reads self.rows for the outer bound, but only once, before the loop *)
Lemma src_madd_assign a b : s_madd_assign a b = madd_assign a b.
Proof.
  unfold s_madd_assign, madd_assign, mupd_all. destruct (negb (rows a =? rows b)); [reflexivity|]. destruct (negb (cols a =? cols b)); [reflexivity|].
  apply nested_shape_ext; [reflexivity| |shape_tac].
  intros i j s _. destruct (mget s i j); cbn; [|reflexivity]. destruct (mget b i j); reflexivity.
Qed.
Lemma src_msub_assign a b : s_msub_assign a b = msub_assign a b.
Proof.
  unfold s_msub_assign, msub_assign, mupd_all. destruct (negb (rows a =? rows b)); [reflexivity|]. destruct (negb (cols a =? cols b)); [reflexivity|].
  apply nested_shape_ext; [reflexivity| |shape_tac].
  intros i j s _. destruct (mget s i j); cbn; [|reflexivity]. destruct (mget b i j); reflexivity.
Qed.
Lemma src_mmul_assign_scalar m x : s_mmul_assign_scalar m x = mmul_assign_scalar m x.
Proof.
  unfold s_mmul_assign_scalar, mmul_assign_scalar, mupd_all. apply nested_shape_ext; [reflexivity| |shape_tac].
  intros i j s _. destruct (mget s i j); reflexivity.
Qed.
Lemma src_mdiv_assign_scalar m x : s_mdiv_assign_scalar m x = mdiv_assign_scalar m x.
Proof.
  unfold s_mdiv_assign_scalar, mdiv_assign_scalar, mupd_all. apply nested_shape_ext; [reflexivity| |shape_tac].
  intros i j s _. destruct (mget s i j); reflexivity.
Qed.
Lemma src_madd_assign_scalar m x : s_madd_assign_scalar m x = madd_assign_scalar m x.
Proof.
  unfold s_madd_assign_scalar, madd_assign_scalar, mupd_all. apply nested_shape_ext; [reflexivity| |shape_tac].
  intros i j s _. destruct (mget s i j); reflexivity.
Qed.
Lemma src_msub_assign_scalar m x : s_msub_assign_scalar m x = msub_assign_scalar m x.
Proof.
  unfold s_msub_assign_scalar, msub_assign_scalar, mupd_all. apply nested_shape_ext; [reflexivity| |shape_tac].
  intros i j s _. destruct (mget s i j); reflexivity.
Qed.

(* the product, built column by column through get_col / multiply / set_col *)
Lemma src_mat_mul a b : s_mat_mul a b = mat_mul a b.
Proof. reflexivity. Qed.
Lemma src_mat_vec_mul m (v : list (T A)) : s_mat_vec_mul m v = multiply m v.
Proof. reflexivity. Qed.
(* all of them at once: what a Props file pins as  model_is_source_<property>  *)
Definition model_is_source_MatArith : Prop :=
  (forall m, s_mneg m = mneg m) /\
  (forall a b, s_madd a b = madd a b) /\
  (forall a b, s_msub a b = msub a b) /\
  (forall m x, s_mscale m x = mscale m x) /\
  (forall x m, s_mscale_l x m = mscale_l x m) /\
  (forall m x, s_mdiv m x = mdiv m x) /\
  (forall a b, s_madd_assign a b = madd_assign a b) /\
  (forall a b, s_msub_assign a b = msub_assign a b) /\
  (forall m x, s_mmul_assign_scalar m x = mmul_assign_scalar m x) /\
  (forall m x, s_mdiv_assign_scalar m x = mdiv_assign_scalar m x) /\
  (forall m x, s_madd_assign_scalar m x = madd_assign_scalar m x) /\
  (forall m x, s_msub_assign_scalar m x = msub_assign_scalar m x) /\
  (forall a b, s_mat_mul a b = mat_mul a b) /\
  (forall m (v : list (T A)), s_mat_vec_mul m v = multiply m v).
Lemma model_is_source_MatArith_lemma : model_is_source_MatArith.
Proof. exact (conj src_mneg (conj src_madd (conj src_msub (conj src_mscale (conj src_mscale_l (conj src_mdiv (conj src_madd_assign (conj src_msub_assign (conj src_mmul_assign_scalar (conj src_mdiv_assign_scalar (conj src_madd_assign_scalar (conj src_msub_assign_scalar (conj src_mat_mul src_mat_vec_mul))))))))))))). Qed.

End SrcEqMatArith.
