(* Proofs/MatNormLawsAx.v -- the norm axioms for the norms of Model/MatNorms.v over R (package matnorm, item 2):
   non-negativity, definiteness (zero iff all entries zero), absolute homogeneity under the model's scalar
   multiplications [mscale] / [mscale_l], the triangle inequality under the model's addition [madd], and
   norm_1 m = norm_inf (transpose m) (and norm_inf m = norm_1 (transpose m); norm_max, norm_frob unchanged) for the
   model's [transpose] -- both branches of the code (in-place swaps when square, rebuilt buffer otherwise) are
   covered because [transpose_in_place_msp] covers both.
   For norm_1, norm_inf, norm_max, norm_frob, and for norm_p (with [pw], every p > 0) all but the triangle inequality;
   the triangle inequality of norm_p for p >= 1 (Minkowski) is in MatNormLawsMink.v.
   Every statement is of the form  wf ... -> exists results, <the operations return Ok> /\ <the law>. *)
From Coq Require Import List Arith Lia Reals Lra Bool.
From OV Require Import Base.Panic Base.Arith Model.Vector Model.Matrix Model.MatNorms.
From OV Require Import Proofs.Matrix Proofs.MatrixArith Proofs.MatNorms Proofs.MatNormsR.
From OV Require Import Proofs.MatNormLawsBase Proofs.MatNormLawsP.
Import ListNotations.
Local Open Scope R_scope.

Definition allzero (m : matrix AR) : Prop :=
  forall i j, (i < rows m)%nat -> (j < cols m)%nat -> entry (A:=AR) m i j = 0.

Notation np p := (mnorm_p (S:=SAR) (fun x => pw x p) (fun s => pw s (1 / p))).

(* ------------------------------------------------------------------ facts about entries *)
Section Entries.
Variables (r c : nat) (f : nat -> nat -> R).
Let Z := forall i j, (i < r)%nat -> (j < c)%nat -> f i j = 0.

Lemma P1_zero : (forall x, P1 r c f x -> x = 0) <-> Z.
Proof.
  split.
  - intros H i j Hi Hj. assert (E : csum r f j = 0) by (apply H; exists j; auto).
    apply (Rs_eq0 r (fun i => Rabs (f i j))) with (k := i) in E; auto; [|intros; apply Rabs_pos].
    destruct (Req_dec (f i j) 0) as [|Hn]; auto. apply Rabs_no_R0 in Hn. contradiction.
  - intros H x (j & Hj & ->). apply Rs_all0. intros i Hi. rewrite H by auto. apply Rabs_R0.
Qed.

Lemma Pinf_zero : (forall x, Pinf r c f x -> x = 0) <-> Z.
Proof.
  split.
  - intros H i j Hi Hj. assert (E : rsum c f i = 0) by (apply H; exists i; auto).
    apply (Rs_eq0 c (fun j => Rabs (f i j))) with (k := j) in E; auto; [|intros; apply Rabs_pos].
    destruct (Req_dec (f i j) 0) as [|Hn]; auto. apply Rabs_no_R0 in Hn. contradiction.
  - intros H x (i & Hi & ->). apply Rs_all0. intros j Hj. rewrite H by auto. apply Rabs_R0.
Qed.

Lemma Pmax_zero : (forall x, Pmax r c f x -> x = 0) <-> Z.
Proof.
  split.
  - intros H i j Hi Hj. assert (E : Rabs (f i j) = 0) by (apply H; exists i, j; auto).
    destruct (Req_dec (f i j) 0) as [|Hn]; auto. apply Rabs_no_R0 in Hn. contradiction.
  - intros H x (i & j & Hi & Hj & ->). rewrite H by auto. apply Rabs_R0.
Qed.

Lemma sum2_eq0 (G : nat -> nat -> R) : (forall i j, 0 <= G i j) ->
  (sum2 r c G = 0 <-> forall i j, (i < r)%nat -> (j < c)%nat -> G i j = 0).
Proof.
  intros HG. split.
  - intros E i j Hi Hj.
    pose proof (sum2_term_le r c G i j (fun i j _ _ => HG i j) Hi Hj). pose proof (HG i j). lra.
  - intros H. apply Rs_all0. intros i Hi. apply Rs_all0. intros j Hj. auto.
Qed.

Lemma frob_zero : R_sqrt.sqrt (sum2 r c (fun i j => f i j * f i j)) = 0 <-> Z.
Proof.
  assert (Hsq : forall i j, 0 <= f i j * f i j).
  { intros i j. pose proof (Rle_0_sqr (f i j)) as H. exact H. }
  assert (HS : 0 <= sum2 r c (fun i j => f i j * f i j)) by (apply sum2_nonneg; auto).
  split.
  - intros E i j Hi Hj. apply sqrt_eq_0 in E; [|exact HS].
    apply (proj1 (sum2_eq0 (fun i j => f i j * f i j) Hsq)) with (i := i) (j := j) in E; auto.
    apply Rmult_integral in E. tauto.
  - intros H. rewrite (proj2 (sum2_eq0 (fun i j => f i j * f i j) Hsq)); [apply sqrt_0|].
    intros i j Hi Hj. rewrite H by auto. ring.
Qed.

Lemma np_zero p : 0 < p -> (pw (sum2 r c (fun i j => pw (Rabs (f i j)) p)) (1 / p) = 0 <-> Z).
Proof.
  intros Hp.
  assert (HS : 0 <= sum2 r c (fun i j => pw (Rabs (f i j)) p)) by (apply sum2_nonneg; intros; apply pw_nonneg).
  split.
  - intros E i j Hi Hj. apply pw_eq0 in E; [|exact HS].
    apply (proj1 (sum2_eq0 (fun i j => pw (Rabs (f i j)) p) (fun i j => pw_nonneg _ _))) with (i := i) (j := j) in E; auto.
    apply pw_eq0 in E; [|apply Rabs_pos].
    destruct (Req_dec (f i j) 0) as [|Hn]; auto. apply Rabs_no_R0 in Hn. contradiction.
  - intros H. rewrite (proj2 (sum2_eq0 (fun i j => pw (Rabs (f i j)) p) (fun i j => pw_nonneg _ _))); [apply pw_0|].
    intros i j Hi Hj. rewrite H by auto. rewrite Rabs_R0. apply pw_0.
Qed.

(* scaling *)
Variable s : R.
Let g := fun i j => f i j * s.

Lemma csum_scale j : csum r g j = Rabs s * csum r f j.
Proof. unfold csum, g. rewrite <- Rs_scal. apply Rs_ext. intros i _. rewrite Rabs_mult. ring. Qed.
Lemma rsum_scale i : rsum c g i = Rabs s * rsum c f i.
Proof. unfold rsum, g. rewrite <- Rs_scal. apply Rs_ext. intros j _. rewrite Rabs_mult. ring. Qed.

Lemma n1_scale N N' : ismax (P1 r c f) N -> ismax (P1 r c g) N' -> N' = Rabs s * N.
Proof.
  intros H H'. apply (ismax_scale _ _ _ _ _ H H' (P1_nonneg r c f) (Rabs_pos s)).
  - intros x (j & Hj & ->). exists j. split; auto. symmetry. apply csum_scale.
  - intros y (j & Hj & ->). exists (csum r f j). split; [exists j; auto|apply csum_scale].
Qed.
Lemma ninf_scale N N' : ismax (Pinf r c f) N -> ismax (Pinf r c g) N' -> N' = Rabs s * N.
Proof.
  intros H H'. apply (ismax_scale _ _ _ _ _ H H' (Pinf_nonneg r c f) (Rabs_pos s)).
  - intros x (i & Hi & ->). exists i. split; auto. symmetry. apply rsum_scale.
  - intros y (i & Hi & ->). exists (rsum c f i). split; [exists i; auto|apply rsum_scale].
Qed.
Lemma nmax_scale N N' : ismax (Pmax r c f) N -> ismax (Pmax r c g) N' -> N' = Rabs s * N.
Proof.
  intros H H'. apply (ismax_scale _ _ _ _ _ H H' (Pmax_nonneg r c f) (Rabs_pos s)).
  - intros x (i & j & Hi & Hj & ->). exists i, j. repeat split; auto. unfold g. rewrite Rabs_mult. ring.
  - intros y (i & j & Hi & Hj & ->). exists (Rabs (f i j)). split; [exists i, j; auto|].
    unfold g. rewrite Rabs_mult. ring.
Qed.
Lemma frob_scale :
  R_sqrt.sqrt (sum2 r c (fun i j => g i j * g i j)) = Rabs s * R_sqrt.sqrt (sum2 r c (fun i j => f i j * f i j)).
Proof.
  assert (E : sum2 r c (fun i j => g i j * g i j) = Rsqr s * sum2 r c (fun i j => f i j * f i j)).
  { unfold sum2. rewrite <- Rs_scal. apply Rs_ext. intros i _. rewrite <- Rs_scal. apply Rs_ext. intros j _.
    unfold g, Rsqr. ring. }
  rewrite E, sqrt_mult_alt by apply Rle_0_sqr. now rewrite sqrt_Rsqr_abs.
Qed.
Lemma np_scale p : 0 < p ->
  pw (sum2 r c (fun i j => pw (Rabs (g i j)) p)) (1 / p) =
  Rabs s * pw (sum2 r c (fun i j => pw (Rabs (f i j)) p)) (1 / p).
Proof.
  intros Hp.
  assert (E : sum2 r c (fun i j => pw (Rabs (g i j)) p) = pw (Rabs s) p * sum2 r c (fun i j => pw (Rabs (f i j)) p)).
  { unfold sum2. rewrite <- Rs_scal. apply Rs_ext. intros i _. rewrite <- Rs_scal. apply Rs_ext. intros j _.
    unfold g. rewrite Rabs_mult, pw_mult by apply Rabs_pos. ring. }
  rewrite E, pw_mult; [|apply pw_nonneg|apply sum2_nonneg; intros; apply pw_nonneg].
  rewrite pw_root by (auto; apply Rabs_pos). reflexivity.
Qed.

End Entries.

Section EntriesAdd.
Variables (r c : nat) (f g : nat -> nat -> R).
Let h := fun i j => f i j + g i j.

Lemma csum_add j : csum r h j <= csum r f j + csum r g j.
Proof. unfold csum. rewrite <- Rs_plus. apply Rs_le. intros i _. apply Rabs_triang. Qed.
Lemma rsum_add i : rsum c h i <= rsum c f i + rsum c g i.
Proof. unfold rsum. rewrite <- Rs_plus. apply Rs_le. intros j _. apply Rabs_triang. Qed.

Lemma n1_add Nf Ng Nh : ismax (P1 r c f) Nf -> ismax (P1 r c g) Ng -> ismax (P1 r c h) Nh -> Nh <= Nf + Ng.
Proof.
  intros Hf Hg Hh. pose proof (ismax_nonneg _ _ Hf (P1_nonneg r c f)). pose proof (ismax_nonneg _ _ Hg (P1_nonneg r c g)).
  apply (ismax_le _ _ _ Hh); [lra|]. intros x (j & Hj & ->).
  pose proof (csum_add j). assert (csum r f j <= Nf) by (apply (proj1 Hf); exists j; auto).
  assert (csum r g j <= Ng) by (apply (proj1 Hg); exists j; auto). lra.
Qed.
Lemma ninf_add Nf Ng Nh : ismax (Pinf r c f) Nf -> ismax (Pinf r c g) Ng -> ismax (Pinf r c h) Nh -> Nh <= Nf + Ng.
Proof.
  intros Hf Hg Hh. pose proof (ismax_nonneg _ _ Hf (Pinf_nonneg r c f)). pose proof (ismax_nonneg _ _ Hg (Pinf_nonneg r c g)).
  apply (ismax_le _ _ _ Hh); [lra|]. intros x (i & Hi & ->).
  pose proof (rsum_add i). assert (rsum c f i <= Nf) by (apply (proj1 Hf); exists i; auto).
  assert (rsum c g i <= Ng) by (apply (proj1 Hg); exists i; auto). lra.
Qed.
Lemma nmax_add Nf Ng Nh : ismax (Pmax r c f) Nf -> ismax (Pmax r c g) Ng -> ismax (Pmax r c h) Nh -> Nh <= Nf + Ng.
Proof.
  intros Hf Hg Hh. pose proof (ismax_nonneg _ _ Hf (Pmax_nonneg r c f)). pose proof (ismax_nonneg _ _ Hg (Pmax_nonneg r c g)).
  apply (ismax_le _ _ _ Hh); [lra|]. intros x (i & j & Hi & Hj & ->).
  pose proof (Rabs_triang (f i j) (g i j)). unfold h.
  assert (Rabs (f i j) <= Nf) by (apply (proj1 Hf); exists i, j; auto).
  assert (Rabs (g i j) <= Ng) by (apply (proj1 Hg); exists i, j; auto). lra.
Qed.
Lemma frob_add :
  R_sqrt.sqrt (sum2 r c (fun i j => h i j * h i j)) <=
  R_sqrt.sqrt (sum2 r c (fun i j => f i j * f i j)) + R_sqrt.sqrt (sum2 r c (fun i j => g i j * g i j)).
Proof. apply Rs2_mink2. Qed.
End EntriesAdd.

(* ------------------------------------------------------------------ the laws for the model functions *)

Lemma matnorm_nonneg_lemma (m : matrix AR) : wf m ->
  exists n1 ni nx nf, mnorm_1 (S:=SAR) m = Ok n1 /\ mnorm_inf (S:=SAR) m = Ok ni /\
    mnorm_max (S:=SAR) m = Ok nx /\ mnorm_frob (S:=SAR) m = Ok nf /\
    0 <= n1 /\ 0 <= ni /\ 0 <= nx /\ 0 <= nf.
Proof.
  intros Hw. pose proof (msp_self m Hw) as Hm.
  destruct (n1_msp _ _ _ m Hm) as (n1 & E1 & H1). destruct (ninf_msp _ _ _ m Hm) as (ni & Ei & Hi).
  destruct (nmax_msp _ _ _ m Hm) as (nx & Ex & Hx).
  exists n1, ni, nx. eexists. split; [exact E1|]. split; [exact Ei|]. split; [exact Ex|].
  split; [apply (nfrob_msp _ _ _ m Hm)|]. repeat split.
  - apply (ismax_nonneg _ _ H1), P1_nonneg.
  - apply (ismax_nonneg _ _ Hi), Pinf_nonneg.
  - apply (ismax_nonneg _ _ Hx), Pmax_nonneg.
  - apply sqrt_pos.
Qed.

Lemma matnorm_zero_iff_lemma (m : matrix AR) : wf m ->
  exists n1 ni nx nf, mnorm_1 (S:=SAR) m = Ok n1 /\ mnorm_inf (S:=SAR) m = Ok ni /\
    mnorm_max (S:=SAR) m = Ok nx /\ mnorm_frob (S:=SAR) m = Ok nf /\
    (n1 = 0 <-> allzero m) /\ (ni = 0 <-> allzero m) /\ (nx = 0 <-> allzero m) /\ (nf = 0 <-> allzero m).
Proof.
  intros Hw. pose proof (msp_self m Hw) as Hm.
  destruct (n1_msp _ _ _ m Hm) as (n1 & E1 & H1). destruct (ninf_msp _ _ _ m Hm) as (ni & Ei & Hi).
  destruct (nmax_msp _ _ _ m Hm) as (nx & Ex & Hx).
  exists n1, ni, nx. eexists. split; [exact E1|]. split; [exact Ei|]. split; [exact Ex|].
  split; [apply (nfrob_msp _ _ _ m Hm)|]. unfold allzero. split; [|split; [|split]].
  - rewrite (ismax_zero _ _ H1 (P1_nonneg _ _ _)). apply P1_zero.
  - rewrite (ismax_zero _ _ Hi (Pinf_nonneg _ _ _)). apply Pinf_zero.
  - rewrite (ismax_zero _ _ Hx (Pmax_nonneg _ _ _)). apply Pmax_zero.
  - apply frob_zero.
Qed.

Lemma matnorm_homogeneous_lemma (m : matrix AR) (s : R) : wf m ->
  exists m' n1 ni nx nf, mscale (A:=AR) m s = Ok m' /\ mscale_l (A:=AR) s m = Ok m' /\
    mnorm_1 (S:=SAR) m = Ok n1 /\ mnorm_inf (S:=SAR) m = Ok ni /\
    mnorm_max (S:=SAR) m = Ok nx /\ mnorm_frob (S:=SAR) m = Ok nf /\
    mnorm_1 (S:=SAR) m' = Ok (Rabs s * n1) /\ mnorm_inf (S:=SAR) m' = Ok (Rabs s * ni) /\
    mnorm_max (S:=SAR) m' = Ok (Rabs s * nx) /\ mnorm_frob (S:=SAR) m' = Ok (Rabs s * nf).
Proof.
  intros Hw. pose proof (msp_self m Hw) as Hm.
  destruct (mscale_msp _ _ _ m s Hm) as (m' & Es & Hm'). cbn [mul AR] in Hm'.
  destruct (n1_msp _ _ _ m Hm) as (n1 & E1 & H1). destruct (ninf_msp _ _ _ m Hm) as (ni & Ei & Hi).
  destruct (nmax_msp _ _ _ m Hm) as (nx & Ex & Hx).
  destruct (n1_msp _ _ _ m' Hm') as (n1' & E1' & H1'). destruct (ninf_msp _ _ _ m' Hm') as (ni' & Ei' & Hi').
  destruct (nmax_msp _ _ _ m' Hm') as (nx' & Ex' & Hx').
  exists m', n1, ni, nx. eexists. split; [exact Es|]. split; [exact Es|].
  split; [exact E1|]. split; [exact Ei|]. split; [exact Ex|]. split; [apply (nfrob_msp _ _ _ m Hm)|].
  split; [|split; [|split]].
  - rewrite E1'. apply f_equal. apply (n1_scale _ _ _ s _ _ H1 H1').
  - rewrite Ei'. apply f_equal. apply (ninf_scale _ _ _ s _ _ Hi Hi').
  - rewrite Ex'. apply f_equal. apply (nmax_scale _ _ _ s _ _ Hx Hx').
  - rewrite (nfrob_msp _ _ _ m' Hm'). apply f_equal. apply frob_scale.
Qed.

Lemma matnorm_triangle_lemma (a b : matrix AR) : wf a -> wf b -> rows a = rows b -> cols a = cols b ->
  exists s a1 ai ax af b1 bi bx bf s1 si sx sf, madd (A:=AR) a b = Ok s /\
    mnorm_1 (S:=SAR) a = Ok a1 /\ mnorm_inf (S:=SAR) a = Ok ai /\ mnorm_max (S:=SAR) a = Ok ax /\ mnorm_frob (S:=SAR) a = Ok af /\
    mnorm_1 (S:=SAR) b = Ok b1 /\ mnorm_inf (S:=SAR) b = Ok bi /\ mnorm_max (S:=SAR) b = Ok bx /\ mnorm_frob (S:=SAR) b = Ok bf /\
    mnorm_1 (S:=SAR) s = Ok s1 /\ mnorm_inf (S:=SAR) s = Ok si /\ mnorm_max (S:=SAR) s = Ok sx /\ mnorm_frob (S:=SAR) s = Ok sf /\
    s1 <= a1 + b1 /\ si <= ai + bi /\ sx <= ax + bx /\ sf <= af + bf.
Proof.
  intros Hwa Hwb Hr Hc. pose proof (msp_self a Hwa) as Ha. pose proof (msp_self b Hwb) as Hb.
  rewrite Hr, Hc in Ha.
  destruct (madd_msp _ _ _ _ a b Ha Hb) as (s & Es & Hs). cbn [add AR] in Hs.
  destruct (n1_msp _ _ _ a Ha) as (a1 & Ea1 & Ha1). destruct (ninf_msp _ _ _ a Ha) as (ai & Eai & Hai).
  destruct (nmax_msp _ _ _ a Ha) as (ax & Eax & Hax).
  destruct (n1_msp _ _ _ b Hb) as (b1 & Eb1 & Hb1). destruct (ninf_msp _ _ _ b Hb) as (bi & Ebi & Hbi).
  destruct (nmax_msp _ _ _ b Hb) as (bx & Ebx & Hbx).
  destruct (n1_msp _ _ _ s Hs) as (s1 & Es1 & Hs1). destruct (ninf_msp _ _ _ s Hs) as (si & Esi & Hsi).
  destruct (nmax_msp _ _ _ s Hs) as (sx & Esx & Hsx).
  exists s, a1, ai, ax. eexists. exists b1, bi, bx. eexists. exists s1, si, sx. eexists.
  split; [exact Es|]. split; [exact Ea1|]. split; [exact Eai|]. split; [exact Eax|].
  split; [apply (nfrob_msp _ _ _ a Ha)|].
  split; [exact Eb1|]. split; [exact Ebi|]. split; [exact Ebx|]. split; [apply (nfrob_msp _ _ _ b Hb)|].
  split; [exact Es1|]. split; [exact Esi|]. split; [exact Esx|]. split; [apply (nfrob_msp _ _ _ s Hs)|].
  split; [|split; [|split]].
  - apply (n1_add _ _ _ _ _ _ _ Ha1 Hb1 Hs1).
  - apply (ninf_add _ _ _ _ _ _ _ Hai Hbi Hsi).
  - apply (nmax_add _ _ _ _ _ _ _ Hax Hbx Hsx).
  - apply (frob_add (rows b) (cols b) (entry a) (entry b)).
Qed.

Lemma matnorm_transpose_lemma (m : matrix AR) : wf m ->
  exists t n1 ni nx nf, transpose (A:=AR) m = Ok t /\
    mnorm_1 (S:=SAR) m = Ok n1 /\ mnorm_inf (S:=SAR) m = Ok ni /\
    mnorm_max (S:=SAR) m = Ok nx /\ mnorm_frob (S:=SAR) m = Ok nf /\
    mnorm_inf (S:=SAR) t = Ok n1 /\ mnorm_1 (S:=SAR) t = Ok ni /\
    mnorm_max (S:=SAR) t = Ok nx /\ mnorm_frob (S:=SAR) t = Ok nf.
Proof.
  intros Hw. pose proof (msp_self m Hw) as Hm.
  destruct (transpose_in_place_msp _ _ _ m Hm) as (t & Et & Ht).
  destruct (n1_msp _ _ _ m Hm) as (n1 & E1 & H1). destruct (ninf_msp _ _ _ m Hm) as (ni & Ei & Hi).
  destruct (nmax_msp _ _ _ m Hm) as (nx & Ex & Hx).
  destruct (n1_msp _ _ _ t Ht) as (n1' & E1' & H1'). destruct (ninf_msp _ _ _ t Ht) as (ni' & Ei' & Hi').
  destruct (nmax_msp _ _ _ t Ht) as (nx' & Ex' & Hx').
  exists t, n1, ni, nx. eexists. split; [exact Et|].
  split; [exact E1|]. split; [exact Ei|]. split; [exact Ex|]. split; [apply (nfrob_msp _ _ _ m Hm)|].
  split; [|split; [|split]].
  - rewrite Ei'. apply f_equal. symmetry. apply (ismax_eq _ _ _ _ H1 Hi' (P1_nonneg _ _ _)).
    intros x; split; intros (j & Hj & ->); exists j; split; auto.
  - rewrite E1'. apply f_equal. symmetry. apply (ismax_eq _ _ _ _ Hi H1' (Pinf_nonneg _ _ _)).
    intros x; split; intros (j & Hj & ->); exists j; split; auto.
  - rewrite Ex'. apply f_equal. symmetry. apply (ismax_eq _ _ _ _ Hx Hx' (Pmax_nonneg _ _ _)).
    intros x; split; intros (i & j & Hii & Hj & ->); exists j, i; repeat split; auto.
  - rewrite (nfrob_msp _ _ _ t Ht). do 2 apply f_equal.
    symmetry. apply (sum2_swap (rows m) (cols m) (fun i j => entry m i j * entry m i j)).
Qed.

(* norm_p with pw, p > 0: non-negative, definite, absolutely homogeneous *)
Lemma norm_p_axioms_lemma (m : matrix AR) (s p : R) : wf m -> 0 < p ->
  exists m' n, mscale (A:=AR) m s = Ok m' /\ np p m = Ok n /\ 0 <= n /\ (n = 0 <-> allzero m) /\
    np p m' = Ok (Rabs s * n).
Proof.
  intros Hw Hp. pose proof (msp_self m Hw) as Hm.
  destruct (mscale_msp _ _ _ m s Hm) as (m' & Es & Hm'). cbn [mul AR] in Hm'.
  exists m'. eexists. split; [exact Es|]. split; [apply (np_msp _ _ _ m Hm)|].
  split; [apply pw_nonneg|]. split; [apply np_zero; exact Hp|].
  rewrite (np_msp _ _ _ m' Hm'). apply f_equal. apply (np_scale _ _ (entry m) s p Hp).
Qed.
