(* Proofs/SparseTranspose.v -- transpose (count the rows, prefix sums, scatter with a running count) is a
   stable counting sort by row: it returns on every well-formed matrix, and the entries of the result
   are the swapped entries of the argument, up to order.  Hence (C06, P2) lookups in the transposed
   matrix are the swapped lookups, and (C07, P2) multiplying by the explicit transpose is the
   transposed product. *)
From Coq Require Import List Arith Lia Bool Permutation.
From OV Require Import Base.Panic Base.Arith Model.Vector Model.Matrix Model.Sparse
                       Proofs.SparseBase Proofs.SparseMul Proofs.SparseWf Proofs.SparseHist Proofs.SparseViews
                       Proofs.SparseRefine.
Import ListNotations.

(* ---------- counts of prefixes ---------- *)
Lemma cnt_firstn_S l m r : m < length l ->
  cnt (firstn (S m) l) r = cnt (firstn m l) r + (if nth m l 0 =? r then 1 else 0).
Proof.
  unfold cnt. revert m; induction l as [|a t IH]; intros m Hm; cbn [length] in Hm; [lia|].
  destruct m as [|m].
  - cbn [firstn count_occ nth]. destruct (Nat.eq_dec a r), (Nat.eqb_spec a r); cbn; lia.
  - change (firstn (S (S m)) (a :: t)) with (a :: firstn (S m) t).
    change (firstn (S m) (a :: t)) with (a :: firstn m t).
    cbn [count_occ nth]. rewrite IH by lia. destruct (Nat.eq_dec a r); lia.
Qed.

Lemma cnt_firstn_lt l p m r : p < m -> m <= length l -> nth p l 0 = r ->
  cnt (firstn p l) r < cnt (firstn m l) r.
Proof.
  unfold cnt. revert p m; induction l as [|a t IH]; intros p m Hp Hm E; cbn [length] in Hm; [lia|].
  destruct m as [|m]; [lia|]. change (firstn (S m) (a :: t)) with (a :: firstn m t).
  destruct p as [|p].
  - cbn [firstn count_occ nth] in *. subst a. destruct (Nat.eq_dec r r); [lia|congruence].
  - change (firstn (S p) (a :: t)) with (a :: firstn p t). cbn [count_occ nth] in *.
    specialize (IH p m ltac:(lia) ltac:(lia) E). destruct (Nat.eq_dec a r); lia.
Qed.

Lemma cnt_firstn_all l r : cnt (firstn (length l) l) r = cnt l r.
Proof. now rewrite firstn_all. Qed.

Lemma below_mono l r r' : r <= r' -> below l r <= below l r'.
Proof.
  intros H. induction H as [|r' H IH]; auto.
  replace (S r') with (r' + 1) by lia. rewrite below_S. lia.
Qed.

Lemma below_le_length l r : below l r <= length l.
Proof. unfold below. induction l as [|a t IH]; cbn [filter length]; [lia|]. destruct (a <? r); cbn [length]; lia. Qed.

(* slot of entry p after the counting sort by row *)
Definition tpos (ri : list nat) (p : nat) : nat := below ri (nth p ri 0) + cnt (firstn p ri) (nth p ri 0).

Lemma tpos_bounds ri p : p < length ri ->
  below ri (nth p ri 0) <= tpos ri p < below ri (nth p ri 0 + 1).
Proof.
  intros Hp. unfold tpos. rewrite below_S. split; [lia|].
  assert (cnt (firstn p ri) (nth p ri 0) < cnt (firstn (length ri) ri) (nth p ri 0)) by (apply cnt_firstn_lt; auto).
  rewrite cnt_firstn_all in *. lia.
Qed.

Lemma tpos_lt ri p : p < length ri -> tpos ri p < length ri.
Proof. intros Hp. pose proof (tpos_bounds ri p Hp). pose proof (below_le_length ri (nth p ri 0 + 1)). lia. Qed.

Lemma tpos_neq ri p m : p < m -> m < length ri -> tpos ri p <> tpos ri m.
Proof.
  intros Hpm Hm. pose proof (tpos_bounds ri p ltac:(lia)) as Bp. pose proof (tpos_bounds ri m Hm) as Bm.
  destruct (Nat.lt_trichotomy (nth p ri 0) (nth m ri 0)) as [L|[E|L]].
  - pose proof (below_mono ri (nth p ri 0 + 1) (nth m ri 0) ltac:(lia)). lia.
  - unfold tpos. rewrite E. pose proof (cnt_firstn_lt ri p m (nth m ri 0) Hpm ltac:(lia) E). lia.
  - pose proof (below_mono ri (nth m ri 0 + 1) (nth p ri 0) ltac:(lia)). lia.
Qed.

Lemma tpos_inj ri p m : p < length ri -> m < length ri -> tpos ri p = tpos ri m -> p = m.
Proof.
  intros Hp Hm E. destruct (Nat.lt_trichotomy p m) as [L|[L|L]]; auto; exfalso.
  - now apply (tpos_neq ri p m).
  - symmetry in E. now apply (tpos_neq ri m p).
Qed.

Lemma interval_unique l r r' q : below l r <= q < below l (r + 1) -> below l r' <= q < below l (r' + 1) -> r = r'.
Proof.
  intros H H'. destruct (Nat.lt_trichotomy r r') as [L|[E|L]]; auto; exfalso.
  - pose proof (below_mono l (r + 1) r' ltac:(lia)). lia.
  - pose proof (below_mono l (r' + 1) r ltac:(lia)). lia.
Qed.

Lemma tpos_perm ri : Permutation (map (tpos ri) (seq 0 (length ri))) (seq 0 (length ri)).
Proof.
  apply NoDup_Permutation_bis.
  - apply NoDup_map_of_inj; [|apply seq_NoDup].
    intros p m Hp Hm. apply in_seq in Hp, Hm. apply tpos_inj; lia.
  - rewrite map_length. lia.
  - intros q Hq. apply in_map_iff in Hq as (p & <- & Hp). apply in_seq in Hp. apply in_seq.
    pose proof (tpos_lt ri p ltac:(lia)). lia.
Qed.

Section Transpose.
Context {A : Arith}.
Notation T := (T A).
Notation sparse := (sparse A).

Definition tswap (t : triplet A) : triplet A := (tcol t, trow t, tval t).

(* ---------- the scatter loop ---------- *)
Lemma transpose_scatter_loop (s : sparse) (acs : list nat) : wfS s ->
  length acs = sp_rows s + 1 -> (forall r, r <= sp_rows s -> nth r acs 0 = below (sp_row_index s) r) ->
  exists st,
    for_cols (sp_col_start s) (sp_cols s) (fun _ => Ok tt)
      (fun i _ j st =>
         let* k := rd (sp_row_index s) j in
         let* a := rd acs k in
         let* c := rd (t_count st) k in
         let* ri' := upd (t_ri st) (a + c) i in
         let* v := rd (sp_val s) j in
         let* val' := upd (t_val st) (a + c) v in
         let* count' := upd (t_count st) k (c + 1) in
         Ok (mkTS ri' val' count'))
      (mkTS (repeat 0 (sp_nonzero s)) (repeat zero (sp_nonzero s)) (repeat 0 (sp_rows s))) = Ok st /\
    length (t_ri st) = sp_nonzero s /\ length (t_val st) = sp_nonzero s /\
    forall p, p < sp_nonzero s ->
      nth (tpos (sp_row_index s) p) (t_ri st) 0 = nth p (cidx s) 0 /\
      nth (tpos (sp_row_index s) p) (t_val st) zero = nth p (sp_val s) zero.
Proof.
  intros Hwf Hal Han.
  assert (Hri : length (sp_row_index s) = sp_nonzero s) by (destruct Hwf as (_ & _ & _ & _ & _ & Hri & _); auto).
  assert (Hv : length (sp_val s) = sp_nonzero s) by (destruct Hwf as (_ & _ & _ & _ & Hv & _); auto).
  assert (Hrow : forall p, p < sp_nonzero s -> nth p (sp_row_index s) 0 < sp_rows s) by (destruct Hwf as (_ & _ & _ & _ & _ & _ & Hr); auto).
  rewrite (for_cols_foldM _ _ _ (fun _ => tt)); auto using wf_length_cs.
  rewrite visits_indexed, foldM_map by auto. cbn [fst snd].
  set (ri := sp_row_index s) in *. set (nz := sp_nonzero s) in *.
  set (B := fun p st =>
         let* k := rd ri p in
         let* a := rd acs k in
         let* c := rd (t_count st) k in
         let* ri' := upd (t_ri st) (a + c) (nth p (cidx s) 0) in
         let* v := rd (sp_val s) p in
         let* val' := upd (t_val st) (a + c) v in
         let* count' := upd (t_count st) k (c + 1) in
         Ok (mkTS ri' val' count')).
  change (exists st, foldM (fun st p => B p st) (seq 0 nz) (mkTS (repeat 0 nz) (repeat zero nz) (repeat 0 (sp_rows s))) = Ok st /\
    length (t_ri st) = nz /\ length (t_val st) = nz /\
    forall p, p < nz -> nth (tpos ri p) (t_ri st) 0 = nth p (cidx s) 0 /\ nth (tpos ri p) (t_val st) zero = nth p (sp_val s) zero).
  replace (seq 0 nz) with (seq 0 (nz - 0)) by (f_equal; lia). rewrite <- for_foldM.
  destruct (for_inv (fun m st =>
       length (t_ri st) = nz /\ length (t_val st) = nz /\ length (t_count st) = sp_rows s /\
       (forall r, r < sp_rows s -> nth r (t_count st) 0 = cnt (firstn m ri) r) /\
       (forall p, p < m -> nth (tpos ri p) (t_ri st) 0 = nth p (cidx s) 0 /\
                           nth (tpos ri p) (t_val st) zero = nth p (sp_val s) zero))
     0 nz B (mkTS (repeat 0 nz) (repeat zero nz) (repeat 0 (sp_rows s)))) as (st & E & H1 & H2 & H3 & H4 & H5).
  - lia.
  - cbn [t_ri t_val t_count]. rewrite !repeat_length. repeat split; auto; try lia.
    intros r Hr. rewrite nth_repeat. reflexivity.
  - intros m st Hm (H1 & H2 & H3 & H4 & H5). unfold B.
    assert (Hk : nth m ri 0 < sp_rows s) by (apply Hrow; lia).
    rewrite (rd_ok ri m 0) by lia. cbn [bind].
    rewrite (rd_ok acs _ 0) by lia. cbn [bind].
    rewrite (rd_ok (t_count st) _ 0) by lia. cbn [bind].
    rewrite Han, H4 by lia. fold (tpos ri m).
    assert (Hpos : tpos ri m < nz) by (rewrite <- Hri; apply tpos_lt; lia).
    rewrite upd_ok by lia. cbn [bind].
    rewrite (rd_ok (sp_val s) m zero) by lia. cbn [bind].
    rewrite upd_ok by lia. cbn [bind]. rewrite upd_ok by lia. cbn [bind].
    eexists; split; [reflexivity|]. cbn [t_ri t_val t_count]. rewrite !upd_list_length.
    split; auto. split; auto. split; auto. split.
    + intros r Hr. rewrite nth_upd_list by lia. rewrite cnt_firstn_S by lia. rewrite H4 by auto.
      destruct (Nat.eqb_spec r (nth m ri 0)) as [->|Hne].
      * rewrite Nat.eqb_refl. lia.
      * destruct (Nat.eqb_spec (nth m ri 0) r); [congruence|lia].
    + intros p Hp. rewrite !nth_upd_list by lia.
      destruct (Nat.eq_dec p m) as [->|Hne].
      * rewrite Nat.eqb_refl. auto.
      * destruct (Nat.eqb_spec (tpos ri p) (tpos ri m)) as [Epos|_].
        { exfalso. apply (tpos_neq ri p m); auto; lia. }
        apply H5. lia.
  - exists st. split; auto.
Qed.

(* ---------- transpose ---------- *)
Theorem sp_transpose_spec_lemma (s : sparse) : wfS s ->
  exists s', sp_transpose s = Ok s' /\ wfS s' /\ sp_rows s' = sp_cols s /\ sp_cols s' = sp_rows s /\
             Permutation (ents s') (map tswap (ents s)).
Proof.
  intros Hwf. unfold sp_transpose.
  destruct (transpose_count_loop s Hwf) as (count & Ec & Hcl & Hcn). rewrite Ec. cbn [bind].
  destruct (transpose_starts_loop (sp_row_index s) (sp_rows s) count Hcl Hcn) as (acs & Ea & Hal & Han).
  rewrite Ea. cbn [bind].
  destruct (transpose_scatter_loop s acs Hwf Hal Han) as (st & Est & Hl1 & Hl2 & Hst).
  rewrite Est. cbn [bind].
  set (s' := mkS (sp_cols s) (sp_rows s) (sp_nonzero s) (t_val st) (t_ri st) acs).
  assert (E' : sp_transpose s = Ok s').
  { unfold sp_transpose. rewrite Ec. cbn [bind]. rewrite Ea. cbn [bind]. rewrite Est. reflexivity. }
  destruct (sp_transpose_wf s s' Hwf E') as (Hwf' & Hr' & Hc').
  exists s'. split; auto. split; auto. split; auto. split; auto.
  assert (Hri : length (sp_row_index s) = sp_nonzero s) by (destruct Hwf as (_ & _ & _ & _ & _ & Hri & _); auto).
  (* the column of slot tpos p in the transposed matrix is the row of entry p *)
  assert (Hcol : forall p, p < sp_nonzero s -> nth (tpos (sp_row_index s) p) (cidx s') 0 = nth p (sp_row_index s) 0).
  { intros p Hp. pose proof (tpos_lt (sp_row_index s) p ltac:(lia)) as Hq. rewrite Hri in Hq.
    assert (Hin : In (nth (tpos (sp_row_index s) p) (cidx s') 0, tpos (sp_row_index s) p) (visits (sp_col_start s') (sp_cols s'))).
    { rewrite visits_indexed by auto. apply in_map_iff. exists (tpos (sp_row_index s) p). split; auto.
      apply in_seq. cbn [sp_nonzero s']. lia. }
    apply visits_in in Hin as (Hc & Hb). cbn [sp_col_start sp_cols s'] in Hc, Hb.
    rewrite !Han in Hb by lia.
    apply (interval_unique (sp_row_index s) _ _ (tpos (sp_row_index s) p)); auto.
    apply tpos_bounds. lia. }
  (* entries *)
  rewrite (ents_indexed s') by auto. rewrite (ents_indexed s) by auto. cbn [sp_nonzero s'].
  rewrite map_map.
  rewrite (map_ext_in (fun p => tswap (entk s p)) (fun p => entk s' (tpos (sp_row_index s) p))).
  2:{ intros p Hp. apply in_seq in Hp. destruct (Hst p ltac:(lia)) as [E1 E2].
      unfold tswap, entk, trow, tcol, tval. cbn [fst snd sp_row_index sp_val s'].
      rewrite E1, E2, Hcol by lia. reflexivity. }
  rewrite <- (map_map (tpos (sp_row_index s)) (entk s')).
  apply Permutation_map. rewrite <- Hri. apply Permutation_sym, tpos_perm.
Qed.

End Transpose.

(* ---------- consequences: lookups (C06) ---------- *)
Section TransposeViews.
Context {A : Arith}.
Notation T := (T A).
Notation sparse := (sparse A).

Lemma in_tswap (l : list (triplet A)) i j v : In (j, i, v) (map tswap l) <-> In (i, j, v) l.
Proof.
  rewrite in_map_iff. split.
  - intros ([[a b] w] & E & Hin). unfold tswap, trow, tcol, tval in E. cbn in E. injection E as -> -> ->. auto.
  - intros Hin. exists (i, j, v). split; auto.
Qed.

Theorem sp_transpose_refines_lemma (s : sparse) : wfS s -> NoDupKeys s ->
  exists s', sp_transpose s = Ok s' /\ wfS s' /\ NoDupKeys s' /\ sp_rows s' = sp_cols s /\ sp_cols s' = sp_rows s /\
    forall i j, i < sp_rows s -> j < sp_cols s -> sp_get s' j i = sp_get s i j.
Proof.
  intros Hwf Hnd. destruct (sp_transpose_spec_lemma s Hwf) as (s' & E & Hwf' & Hr & Hc & HP).
  assert (Hnd' : NoDupKeys s').
  { unfold NoDupKeys in *. fold (@tkey A) in *.
    eapply Permutation_NoDup; [apply Permutation_sym, Permutation_map, HP|].
    rewrite map_map.
    rewrite (map_ext _ (fun t => (fun k : nat * nat => (snd k, fst k)) (tkey t))) by reflexivity.
    rewrite <- (map_map (@tkey A) (fun k : nat * nat => (snd k, fst k))).
    apply NoDup_map_of_inj; auto.
    intros [a b] [c d] _ _ Ek. cbn in Ek. congruence. }
  exists s'. split; auto. split; auto. split; auto. split; auto. split; auto.
  intros i j Hi Hj. apply get_eq_of_iff; auto; try lia.
  intros v. rewrite !get_iff_in by (auto; lia).
  split; intros Hin.
  - apply in_tswap. eapply Permutation_in; eauto.
  - apply in_tswap in Hin. eapply Permutation_in; [apply Permutation_sym|]; eauto.
Qed.

End TransposeViews.

(* ---------- consequences: products (C07) ---------- *)
Section TransposeMul.
Context {A : Arith}.
Variable RL : RingLaws A.
Notation T := (T A).
Notation sparse := (sparse A).
Add Ring Aring2 : (rl_ring A RL).
Local Open Scope arith_scope.

Lemma suml_perm (l l' : list T) : Permutation l l' -> suml l = suml l'.
Proof.
  induction 1 as [|x l l' HP IH|x y l|l l' l'' HP1 IH1 HP2 IH2].
  - reflexivity.
  - rewrite !(suml_cons RL), IH. reflexivity.
  - rewrite !(suml_cons RL). ring.
  - congruence.
Qed.

Lemma filter_perm {X} (f : X -> bool) l l' : Permutation l l' -> Permutation (filter f l) (filter f l').
Proof.
  induction 1 as [|x l l' HP IH|x y l|l l' l'' HP1 IH1 HP2 IH2]; cbn [filter].
  - constructor.
  - destruct (f x); auto.
  - destruct (f x), (f y); auto. apply perm_swap.
  - eapply perm_trans; eauto.
Qed.

Definition tmatch (i j : nat) (t : triplet A) : bool := (trow t =? i) && (tcol t =? j).

(* the abstract entry, read off the entry list *)
Lemma sp_entry_ents (s : sparse) i j : j < sp_cols s ->
  sp_entry s i j = suml (map (@tval A) (filter (tmatch i j) (ents s))).
Proof.
  intros Hj. unfold ents. rewrite filter_map_comm, map_map.
  rewrite (suml_visits RL (fun _ k => nth k (sp_val s) zero)
                          (fun j' k => (nth k (sp_row_index s) 0 =? i) && (j' =? j))).
  rewrite (sum_n_ext _ _ (fun j' => if j =? j' then sp_entry s i j else zero)).
  - now rewrite (sum_n_delta RL).
  - intros j' Hj'. destruct (Nat.eqb_spec j j') as [<-|Hne].
    + unfold sp_entry. do 2 f_equal. apply filter_ext. intros k. now rewrite Nat.eqb_refl, andb_true_r.
    + rewrite (filter_ext _ (fun _ => false)).
      * clear. induction (seg (sp_col_start s) j'); cbn; auto.
      * intros k. destruct (Nat.eqb_spec j' j); [congruence|]. apply andb_false_r.
Qed.

Lemma sp_entry_transpose (s s' : sparse) i j :
  Permutation (ents s') (map tswap (ents s)) -> i < sp_cols s' -> j < sp_cols s ->
  sp_entry s' j i = sp_entry s i j.
Proof.
  intros HP Hi Hj. rewrite !sp_entry_ents by auto.
  rewrite (suml_perm _ _ (Permutation_map (@tval A) (filter_perm (tmatch j i) _ _ HP))).
  rewrite filter_map_comm, map_map. f_equal.
  rewrite (filter_ext _ (tmatch i j)).
  - apply map_ext. intros [[a b] v]. reflexivity.
  - intros [[a b] v]. unfold tmatch, tswap, trow, tcol. cbn [fst snd]. apply andb_comm.
Qed.

(* multiplying by the explicit transpose is the transposed product *)
Theorem sp_transpose_mul_lemma (s : sparse) (y : list T) : wfS s -> length y = sp_rows s ->
  exists s' w, sp_transpose s = Ok s' /\ sp_mul s' y = Ok w /\ sp_tmul s y = Ok w.
Proof.
  intros Hwf Hy. destruct (sp_transpose_spec_lemma s Hwf) as (s' & E & Hwf' & Hr & Hc & HP).
  exists s', (dtmulv (sp_entry s) (sp_rows s) (sp_cols s) y).
  split; auto. split; [|now apply sp_tmul_spec_lemma].
  rewrite (sp_mul_spec_lemma RL) by (auto; lia). f_equal.
  unfold dmulv, dtmulv. rewrite Hr, Hc. apply map_ext_in. intros j Hj. apply in_seq in Hj.
  apply sum_n_ext. intros i Hi. f_equal. apply sp_entry_transpose; auto; lia.
Qed.

End TransposeMul.
