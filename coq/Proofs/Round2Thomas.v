(* Proofs/Round2Thomas.v -- package round2, C05: Thomas solve at the PRIMITIVE-FLOAT instance (AF, IEEE binary64),
   through Flocq.  Proofs/TridiagRound.v stops at the standard model of rounding; here the same statements are
   proved about [tsolve (A := AF) t r] itself.

   Trace functions (float expressions in the data): [tbeta t k] the pivots, [tgamma t k] the multipliers,
   [ty t r k] the forward-sweep values, [tnum t r k] the numerators of the forward sweep.

     thomas_backward_error_float_lemma : tsolve (A := AF) t r = Ok x, every x_i finite, every pivot finite, no
        product/quotient of the two sweeps in the subnormal range  ->  FR x solves a row-wise perturbed system
        exactly (3u, 5u, 5u, 9u with u = 2^-53), the statement of thomas_backward_error_lemma at binary64.
     thomas_dominant_backward_stable_float_lemma : the same for strictly dominant matrices (margin (1+u)/(1-u)):
        |dT| <= (3u|a|, 5u|b| + 9u|a|, 5u|c|).
     pivots_from_data : for dominant matrices with |main_i| <= 2^300 and off-diagonal entries zero or >= 2^-300, every
        pivot and multiplier is finite, bounded (|beta_k| <= 2^302, |gamma_k| <= 1) and free of underflow -- by
        induction along the elimination IN THE FLOATS, from the data alone, for every size n.
     thomas_dominant_solved_float_lemma : hence solve never refuses such a matrix, whatever the right-hand side.
     thomas_dominant_float_partial_lemma : and a finite answer without subnormal product in the right-hand-side part is
        backward stable.  PARTIAL with respect to "hypotheses on the data only": finiteness of the answer and absence
        of underflow in the right-hand-side part (sub*y, num/beta, gamma*x) remain hypotheses (computable from t, r, x).
        Proofs/Round2ThomasB.v removes the underflow hypothesis (absolute residual 2^-1075 per row) and, for matrices
        dominant by the factor 2 with bounded right-hand side, the finiteness hypothesis as well.

   A finite answer alone is NOT enough: an overflowed pivot beta_k = inf gives gamma_{k+1} = c/inf = 0 and
   y_k = num/inf = 0 silently, all later values are finite again ([thomas_finite_answer_hides_overflow] below is a
   2x2 instance with answer [1; 0] where the true solution is near [1/2; 1/2]).  What does follow from a finite
   answer: every y_k and every multiplier gamma_k is finite (non-finite values are absorbing in
   x_k = y_k - gamma_{k+1} x_{k+1}); with finite pivots the whole trace is finite, no operation overflowed, every
   operation is the correctly rounded exact one, and the trace maps under FR to a trace in the total standard-model
   arithmetic of RoundDotFloat.v, to which backward_rows / multipliers_bounded of TridiagRound.v apply. *)
From Coq Require Import ZArith Reals Lra Lia List Floats Bool Arith Psatz.
From Flocq Require Import Core BinarySingleNaN PrimFloat Relative Plus_error.
From OV Require Import Base.Panic Base.Arith Base.RoundModel Model.Vector Model.Matrix Model.Tridiag Inst.FloatInst
  Proofs.Tridiag Proofs.TridiagTrace Proofs.TridiagTotal Proofs.TridiagRound Proofs.ComplexRound Proofs.RoundDotFloat Proofs.RoundTriFloat.
Import ListNotations.
Local Open Scope R_scope.

Notation A64t := (ARnd Fadd Fsub Fmul Fdiv).
Notation fmt := (generic_format radix2 (FLT_exp (-1074) 53)).

Lemma u64_range64 : 0 <= u64 <= 1 / 64.
Proof. pose proof u64_range. pose proof OV.Proofs.RoundDotFloat.u64_small. lra. Qed.

(* ---------------------------------------------------------------- float comparisons with zero *)
Lemma feqb0_FR (x : pfloat) : ffinite x -> PrimFloat.eqb x 0%float = Req_bool (FR x) 0.
Proof.
  unfold ffinite, FR. intros F. rewrite eqb_equiv.
  rewrite Beqb_correct; [|exact F|reflexivity]. reflexivity.
Qed.

Lemma FR_nz (x : pfloat) : ffinite x -> PrimFloat.eqb x 0%float = false -> FR x <> 0.
Proof.
  intros F E. rewrite (feqb0_FR x F) in E. intros Z. rewrite Z in E.
  rewrite Req_bool_true in E by reflexivity. discriminate.
Qed.

Lemma feqb0_false (x : pfloat) : ffinite x -> FR x <> 0 -> PrimFloat.eqb x 0%float = false.
Proof. intros F N. rewrite (feqb0_FR x F). now apply Req_bool_false. Qed.

(* ---------------------------------------------------------------- compound operations, backwards from a finite result *)
Lemma fsubmul_finite_inv (a b c : pfloat) : ffinite (a - b * c)%float -> no_underflow (FR b * FR c) ->
  ffinite a /\ ffinite b /\ ffinite c /\ FR (a - b * c)%float = Fsub (FR a) (Fmul (FR b) (FR c)).
Proof.
  intros F U. destruct (fsub_finite_inv _ _ F) as (Fa & Fp & Es). destruct (fmul_finite_inv _ _ Fp) as (Fb & Fc & Ep).
  repeat split; auto.
  rewrite (Fmul_nounder _ _ U), Fsub_fmt by (apply FR_fmt || apply rnd64_fmt). now rewrite Es, Ep.
Qed.

Lemma fdiv_finite_tr (a b : pfloat) : ffinite (a / b)%float -> FR b <> 0 -> no_underflow (FR a / FR b) ->
  ffinite a /\ FR (a / b)%float = Fdiv (FR a) (FR b).
Proof.
  intros F N U. destruct (fdiv_finite_inv _ _ F N) as (Fa & E). split; [exact Fa|].
  now rewrite (Fdiv_nounder _ _ U).
Qed.

(* ---------------------------------------------------------------- the trace of Thomas solve at the floats, as functions *)
Section Trace64.
Variable t : tridiag AF.
Variable r : list pfloat.

Fixpoint tbeta (k : nat) : pfloat :=
  match k with
  | O => nth 0 (tmain t) 0%float
  | S k' => (nth (S k') (tmain t) 0 - nth k' (tsub t) 0 * (nth k' (tsup t) 0 / tbeta k'))%float
  end.

Definition tgamma (k : nat) : pfloat :=
  match k with O => 0%float | S k' => (nth k' (tsup t) 0 / tbeta k')%float end.

Fixpoint ty (k : nat) : pfloat :=
  (match k with O => nth 0 r 0%float | S k' => (nth (S k') r 0 - nth k' (tsub t) 0 * ty k')%float end / tbeta k)%float.

Definition tnum (k : nat) : pfloat :=
  match k with O => nth 0 r 0%float | S k' => (nth (S k') r 0 - nth k' (tsub t) 0 * ty k')%float end.

Lemma ty_eq k : ty k = (tnum k / tbeta k)%float.
Proof. destruct k; reflexivity. Qed.

Lemma tbeta_S k : tbeta (S k) = (nth (S k) (tmain t) 0 - nth k (tsub t) 0 * tgamma (S k))%float.
Proof. reflexivity. Qed.

Lemma fwd_rel_det j (bl gl yl : list pfloat) : fwd_rel (A := AF) t r j bl gl yl -> forall k, (k < j)%nat ->
  nth k bl 0%float = tbeta k /\ nth k yl 0%float = ty k /\ ((1 <= k)%nat -> nth k gl 0%float = tgamma k).
Proof.
  intros (B0 & Z0 & D0 & RelS). change (T AF) with PrimFloat.float in *.
  induction k as [|k IH]; intros Hk.
  - cbn in D0. injection D0 as D0. cbn in B0. split; [exact B0|]. split; [|lia].
    rewrite <- D0, B0. reflexivity.
  - destruct (IH ltac:(lia)) as (Ib & Iy & _).
    destruct (RelS (S k) ltac:(lia)) as (Dg & Eb & _ & Dy). replace (S k - 1)%nat with k in * by lia.
    cbn in Dg, Dy, Eb. change (T AF) with PrimFloat.float in *. injection Dg as Dg. injection Dy as Dy.
    assert (Eg : nth (S k) gl 0%float = tgamma (S k)) by (rewrite <- Dg, Ib; reflexivity).
    assert (Ebb : nth (S k) bl 0%float = tbeta (S k)) by (rewrite Eb, Eg; reflexivity).
    split; [exact Ebb|]. split; [|intros _; exact Eg].
    rewrite <- Dy, Ebb, Iy. reflexivity.
Qed.
End Trace64.

Arguments tbeta t k : simpl never.
Arguments ty t r k : simpl never.

Ltac fl := change (T AF) with PrimFloat.float in *.

(* ---------------------------------------------------------------- real images *)
Definition tFR (t : tridiag AF) : tridiag A64t :=
  @mkT A64t (map FR (tsub t)) (map FR (tmain t)) (map FR (tsup t)) (tn t).

Lemma tFR_wf (t : tridiag AF) : wfT t -> wfT (tFR t).
Proof. intros (H1 & H2 & H3). unfold wfT, tFR. cbn [tmain tsub tsup tn]. now rewrite !map_length. Qed.

(* the relations of the forward sweep at the floats become the same relations in the standard-model arithmetic on
   the real values, once every value of the trace is finite and no product or quotient underflows *)
Lemma fwd_rel_to_real (t : tridiag AF) (r bl gl yl : list pfloat) (n : nat) :
  fwd_rel (A := AF) t r n bl gl yl ->
  (forall k, (k < n)%nat -> ffinite (nth k bl 0%float)) ->
  (forall k, (1 <= k < n)%nat -> ffinite (nth k gl 0%float)) ->
  (forall k, (k < n)%nat -> ffinite (nth k yl 0%float)) ->
  (forall k, (1 <= k < n)%nat -> no_underflow (FR (nth (k - 1) (tsup t) 0%float) / FR (nth (k - 1) bl 0%float))) ->
  (forall k, (1 <= k < n)%nat -> no_underflow (FR (nth (k - 1) (tsub t) 0%float) * FR (nth k gl 0%float))) ->
  (forall k, (1 <= k < n)%nat -> no_underflow (FR (nth (k - 1) (tsub t) 0%float) * FR (nth (k - 1) yl 0%float))) ->
  ((0 < n)%nat -> no_underflow (FR (nth 0 r 0%float) / FR (nth 0 bl 0%float))) ->
  (forall k, (1 <= k < n)%nat ->
     no_underflow (FR (nth k r 0 - nth (k - 1) (tsub t) 0 * nth (k - 1) yl 0)%float / FR (nth k bl 0%float))) ->
  (0 < n)%nat ->
  fwd_rel (A := A64t) (tFR t) (map FR r) n (map FR bl) (map FR gl) (map FR yl).
Proof.
  intros (B0 & Z0 & D0 & RelS) Fb Fg Fy U1 U2 U3 U40 U4 Hn.
  change (T AF) with PrimFloat.float in *. change (@zero AF) with 0%float in *.
  assert (Nz : forall k, (k < n)%nat -> FR (nth k bl 0%float) <> 0).
  { intros k Hk. apply FR_nz; [now apply Fb|]. destruct k as [|k]; [exact Z0|].
    now destruct (RelS (S k) ltac:(lia)) as (_ & _ & Z & _). }
  unfold fwd_rel. cbn [tFR tmain tsub tsup]. change (@zero A64t) with 0. change (T A64t) with R.
  rewrite !nth_map_FR.
  split; [f_equal; exact B0|].
  split; [cbn; destruct (Req_EM_T (FR (nth 0 bl 0%float)) 0) as [E|_]; [exfalso; exact (Nz 0%nat Hn E)|reflexivity]|].
  split.
  { cbn in D0 |- *. injection D0 as D0. f_equal.
    assert (F0 : ffinite (nth 0 r 0 / nth 0 bl 0)%float) by (fl; rewrite D0; apply Fy; lia).
    destruct (fdiv_finite_tr _ _ F0 (Nz 0%nat Hn) (U40 Hn)) as (_ & E). fl. rewrite <- E. now rewrite D0. }
  intros k Hk. destruct (RelS k Hk) as (Dg & Eb & Zb & Dy).
  cbn [div sub mul AF] in Dg, Dy, Eb. change (T AF) with PrimFloat.float in *. injection Dg as Dg. injection Dy as Dy.
  rewrite !nth_map_FR.
  assert (Fgk : ffinite (nth (k - 1) (tsup t) 0 / nth (k - 1) bl 0)%float) by (fl; rewrite Dg; apply Fg; lia).
  destruct (fdiv_finite_tr _ _ Fgk (Nz (k - 1)%nat ltac:(lia)) (U1 k Hk)) as (_ & Egk). fl. rewrite Dg in Egk.
  assert (Fbk : ffinite (nth k (tmain t) 0 - nth (k - 1) (tsub t) 0 * nth k gl 0)%float) by (fl; rewrite <- Eb; apply Fb; lia).
  destruct (fsubmul_finite_inv _ _ _ Fbk (U2 k Hk)) as (_ & _ & _ & Ebk). fl. rewrite <- Eb in Ebk.
  assert (Fyk : ffinite ((nth k r 0 - nth (k - 1) (tsub t) 0 * nth (k - 1) yl 0) / nth k bl 0)%float)
    by (fl; rewrite Dy; apply Fy; lia).
  destruct (fdiv_finite_tr _ _ Fyk (Nz k ltac:(lia)) (U4 k Hk)) as (Fnum & Eyk). fl. rewrite Dy in Eyk.
  destruct (fsubmul_finite_inv _ _ _ Fnum (U3 k Hk)) as (_ & _ & _ & Enum). fl. rewrite Enum in Eyk.
  split; [cbn; f_equal; symmetry; exact Egk|].
  split; [exact Ebk|].
  split; [cbn; destruct (Req_EM_T (FR (nth k bl 0%float)) 0) as [E|_]; [exfalso; exact (Nz k ltac:(lia) E)|reflexivity]|].
  cbn. f_equal. symmetry. exact Eyk.
Qed.

(* the side conditions of the float theorems: no product / quotient of the two sweeps falls into the subnormal range.
   Everything is a float expression in t, r and the answer x. *)
Definition thomas_nounder_matrix (t : tridiag AF) : Prop :=
  forall k, (k + 1 < tn t)%nat ->
    no_underflow (FR (nth k (tsup t) 0%float) / FR (tbeta t k)) /\
    no_underflow (FR (nth k (tsub t) 0%float) * FR (tgamma t (k + 1))).

Definition thomas_nounder_rhs (t : tridiag AF) (r x : list pfloat) : Prop :=
  (forall k, (k < tn t)%nat -> no_underflow (FR (tnum t r k) / FR (tbeta t k))) /\
  (forall k, (k + 1 < tn t)%nat ->
    no_underflow (FR (nth k (tsub t) 0%float) * FR (ty t r k)) /\
    no_underflow (FR (tgamma t (k + 1)) * FR (nth (k + 1) x 0%float))).

(* the whole trace in the standard-model arithmetic on the reals *)
Lemma thomas_float_real_trace (t : tridiag AF) (r x : list pfloat) :
  wfT t -> (1 <= tn t)%nat -> length r = tn t -> tsolve (A := AF) t r = Ok x ->
  (forall i, (i < tn t)%nat -> ffinite (nth i x 0%float)) ->
  (forall k, (k < tn t)%nat -> ffinite (tbeta t k)) ->
  thomas_nounder_matrix t -> thomas_nounder_rhs t r x ->
  length x = tn t /\
  exists bl gl yl : list pfloat,
    length bl = tn t /\ length gl = tn t /\ length yl = tn t /\
    (forall k, (1 <= k < tn t)%nat -> nth k gl 0%float = tgamma t k) /\
    fwd_rel (A := A64t) (tFR t) (map FR r) (tn t) (map FR bl) (map FR gl) (map FR yl) /\
    nth (tn t - 1) (map FR x) 0 = nth (tn t - 1) (map FR yl) 0 /\
    (forall i, (i + 1 < tn t)%nat ->
       nth i (map FR x) 0 = Fsub (nth i (map FR yl) 0) (Fmul (nth (i + 1) (map FR gl) 0) (nth (i + 1) (map FR x) 0))).
Proof.
  intros W Hn Hr E Fx Fb UM (UQ & UR).
  destruct (thomas_trace_lemma (A := AF) t r W Hn Hr x E) as (bl & gl & yl & Lx & Lb & Lg & Ly & Rel & Vlast & Vback).
  change (T AF) with PrimFloat.float in *. change (@zero AF) with 0%float in *.
  pose proof (fwd_rel_det t r (tn t) bl gl yl Rel) as Det.
  split; [exact Lx|]. exists bl, gl, yl. split; [exact Lb|]. split; [exact Lg|]. split; [exact Ly|].
  assert (Vb : forall i, (i + 1 < tn t)%nat ->
            nth i x 0%float = (nth i yl 0 - nth (i + 1) gl 0 * nth (i + 1) x 0)%float).
  { intros i Hi. exact (Vback i Hi). }
  assert (Fy : forall k, (k < tn t)%nat -> ffinite (nth k yl 0%float)).
  { intros k Hk. destruct (Nat.eq_dec k (tn t - 1)) as [->|Ne].
    - rewrite <- Vlast. apply Fx. lia.
    - pose proof (Fx k Hk) as F. rewrite (Vb k ltac:(lia)) in F. now destruct (fsub_finite_inv _ _ F) as (F1 & _). }
  assert (Fg : forall k, (1 <= k < tn t)%nat -> ffinite (nth k gl 0%float)).
  { intros k Hk. pose proof (Fx (k - 1)%nat ltac:(lia)) as F. rewrite (Vb (k - 1)%nat ltac:(lia)) in F.
    replace (k - 1 + 1)%nat with k in F by lia.
    destruct (fsub_finite_inv _ _ F) as (_ & F2 & _). now destruct (fmul_finite_inv _ _ F2) as (F3 & _). }
  split; [intros k Hk; now apply (Det k)|].
  split.
  { apply fwd_rel_to_real; auto.
    - intros k Hk. rewrite (proj1 (Det k Hk)). now apply Fb.
    - intros k Hk. rewrite (proj1 (Det (k - 1)%nat ltac:(lia))).
      destruct (UM (k - 1)%nat ltac:(lia)) as (U & _). exact U.
    - intros k Hk. destruct (Det k ltac:(lia)) as (_ & _ & G). rewrite (G ltac:(lia)).
      destruct (UM (k - 1)%nat ltac:(lia)) as (_ & U). now replace (k - 1 + 1)%nat with k in U by lia.
    - intros k Hk. destruct (Det (k - 1)%nat ltac:(lia)) as (_ & Y & _). rewrite Y.
      destruct (UR (k - 1)%nat ltac:(lia)) as (U & _). exact U.
    - intros _. rewrite (proj1 (Det 0%nat ltac:(lia))). exact (UQ 0%nat ltac:(lia)).
    - intros k Hk. destruct (Det (k - 1)%nat ltac:(lia)) as (_ & Y & _). rewrite Y, (proj1 (Det k ltac:(lia))).
      pose proof (UQ k ltac:(lia)) as U. destruct k as [|k']; [lia|]. cbn [tnum] in U.
      now replace (S k' - 1)%nat with k' by lia. }
  rewrite !nth_map_FR. split; [f_equal; exact Vlast|].
  intros i Hi. rewrite !nth_map_FR. rewrite (Vb i Hi).
  pose proof (Fx i ltac:(lia)) as F. rewrite (Vb i Hi) in F.
  destruct (Det (i + 1)%nat Hi) as (_ & _ & G). specialize (G ltac:(lia)).
  destruct (UR i Hi) as (_ & U). rewrite <- G in U.
  now destruct (fsubmul_finite_inv _ _ _ F U) as (_ & _ & _ & Eq).
Qed.

(* ---------------------------------------------------------------- Theorem 1: componentwise backward error at binary64 *)
Theorem thomas_backward_error_float_lemma (t : tridiag AF) (r x : list pfloat) :
  wfT t -> (1 <= tn t)%nat -> length r = tn t -> tsolve (A := AF) t r = Ok x ->
  (forall i, (i < tn t)%nat -> ffinite (nth i x 0%float)) ->
  (forall k, (k < tn t)%nat -> ffinite (tbeta t k)) ->
  thomas_nounder_matrix t -> thomas_nounder_rhs t r x ->
  length x = tn t /\
  forall i, (i < tn t)%nat -> exists ea eb ec eg,
    Rabs ea <= 3 * u64 /\ Rabs eb <= 5 * u64 /\ Rabs ec <= 5 * u64 /\ Rabs eg <= 9 * u64 /\
    FR (nth i (0%float :: tsub t) 0%float) * (1 + ea) * FR (nth i (0%float :: x) 0%float)
    + (FR (nth i (tmain t) 0%float) * (1 + eb)
       + FR (nth i (0%float :: tsub t) 0%float) * FR (tgamma t i) * eg) * FR (nth i x 0%float)
    + FR (nth i (tsup t) 0%float) * (1 + ec) * FR (nth (i + 1) x 0%float) = FR (nth i r 0%float).
Proof.
  intros W Hn Hr E Fx Fb UM UR.
  destruct (thomas_float_real_trace t r x W Hn Hr E Fx Fb UM UR)
    as (Lx & bl & gl & yl & Lb & Lg & Ly & G & Rel & Vlast & Vback).
  split; [exact Lx|]. intros i Hi.
  destruct (backward_rows u64 u64_range64 Fadd Fsub Fmul Fdiv Fsub_ok Fmul_ok Fdiv_ok (tFR t)
              (map FR r) (map FR x) (map FR bl) (map FR gl) (map FR yl) (tFR_wf t W) Hn
              ltac:(now rewrite map_length) ltac:(now rewrite map_length) ltac:(now rewrite map_length)
              ltac:(now rewrite map_length) ltac:(now rewrite map_length) Rel Vlast Vback i Hi)
    as (ea & eb & ec & eg & Ha & Hb & Hc & Hg & Eq).
  exists ea, eb, ec, eg. repeat (split; [assumption|]).
  cbn [tFR tmain tsub tsup] in Eq.
  change (0 :: map FR (tsub t)) with (map FR (0%float :: tsub t)) in Eq.
  change (0 :: map FR x) with (map FR (0%float :: x)) in Eq.
  rewrite !nth_map_FR in Eq.
  destruct i as [|k].
  - cbn [nth] in Eq |- *. rewrite FR_0 in *. rewrite <- Eq. fl. ring.
  - rewrite (G (S k) ltac:(lia)) in Eq. exact Eq.
Qed.

(* ================================================================ diagonally dominant systems: the matrix part from the data *)
(* ---------------------------------------------------------------- range lemmas on the reals *)
Local Instance P53t : Prec_gt_0 53 := eq_refl.

Lemma rnd64_abs_le x e : (-1074 <= e)%Z -> Rabs x <= bpow radix2 e -> Rabs (rnd64 x) <= bpow radix2 e.
Proof.
  intros He H. unfold rnd64.
  apply abs_round_le_generic; [apply FLT_exp_valid; reflexivity|apply valid_rnd_N| |exact H].
  apply generic_format_bpow. unfold FLT_exp. lia.
Qed.

Lemma no_overflow_le x e : (-1074 <= e <= 1023)%Z -> Rabs x <= bpow radix2 e -> no_overflow x.
Proof.
  intros He H. unfold no_overflow.
  apply Rle_lt_trans with (bpow radix2 e); [apply rnd64_abs_le; [lia|exact H]|apply bpow_lt; lia].
Qed.

Lemma nounder_ge x e : (-1022 <= e)%Z -> bpow radix2 e <= Rabs x -> no_underflow x.
Proof. intros He H. right. apply Rle_trans with (bpow radix2 e); [apply bpow_le; lia|exact H]. Qed.

Lemma quot_abs_ge (c b : R) (e1 e2 : Z) : bpow radix2 e1 <= Rabs c -> b <> 0 -> Rabs b <= bpow radix2 e2 ->
  bpow radix2 (e1 - e2) <= Rabs (c / b).
Proof.
  intros Hc Hb Hb2. unfold Rdiv. rewrite Rabs_mult, Rabs_inv.
  assert (Pb : 0 < Rabs b) by now apply Rabs_pos_lt.
  apply (Rmult_le_reg_r (Rabs b)); [exact Pb|].
  rewrite Rmult_assoc, Rinv_l, Rmult_1_r by lra.
  apply Rle_trans with (bpow radix2 (e1 - e2) * bpow radix2 e2).
  - apply Rmult_le_compat_l; [apply bpow_ge_0|exact Hb2].
  - rewrite <- bpow_plus. replace (e1 - e2 + e2)%Z with e1 by lia. exact Hc.
Qed.

Lemma prod_abs_ge (a g : R) (e1 e2 : Z) : bpow radix2 e1 <= Rabs a -> bpow radix2 e2 <= Rabs g ->
  bpow radix2 (e1 + e2) <= Rabs (a * g).
Proof.
  intros Ha Hg. rewrite Rabs_mult, bpow_plus.
  pose proof (bpow_ge_0 radix2 e1). pose proof (bpow_ge_0 radix2 e2).
  apply Rmult_le_compat; assumption.
Qed.

Lemma half_le_1mu : / 2 <= 1 - u64.
Proof. pose proof OV.Proofs.RoundDotFloat.u64_small. lra. Qed.

(* a rounded value keeps at least half of the magnitude *)
Lemma rel_abs_ge x d e : Rabs d <= u64 -> bpow radix2 e <= Rabs x -> bpow radix2 (e - 1) <= Rabs (x * (1 + d)).
Proof.
  intros Hd Hx. rewrite Rabs_mult. pose proof (abs_one_plus u64 u64_range64 d Hd) as (L & _).
  pose proof half_le_1mu. unfold Zminus. rewrite bpow_plus. change (bpow radix2 (- (1))) with (/ 2).
  pose proof (bpow_gt_0 radix2 e). nra.
Qed.

(* ---------------------------------------------------------------- hypotheses on the data *)
(* all entries finite *)
Definition tri_finite (t : tridiag AF) : Prop :=
  (forall i, (i < tn t)%nat -> ffinite (nth i (tmain t) 0%float)) /\
  (forall i, (i + 1 < tn t)%nat -> ffinite (nth i (tsub t) 0%float) /\ ffinite (nth i (tsup t) 0%float)).

(* magnitudes: |main_i| <= 2^300; an off-diagonal entry is zero or at least 2^-300 *)
Definition tri_scaled (t : tridiag AF) : Prop :=
  (forall i, (i < tn t)%nat -> Rabs (FR (nth i (tmain t) 0%float)) <= bpow radix2 300) /\
  (forall i, (i + 1 < tn t)%nat ->
     (FR (nth i (tsub t) 0%float) = 0 \/ bpow radix2 (-300) <= Rabs (FR (nth i (tsub t) 0%float))) /\
     (FR (nth i (tsup t) 0%float) = 0 \/ bpow radix2 (-300) <= Rabs (FR (nth i (tsup t) 0%float)))).

(* strict diagonal dominance by rows, with the margin the rounding needs (dominant_su of TridiagRound.v on the values) *)
Definition dominant_f (t : tridiag AF) : Prop :=
  forall i, (i < tn t)%nat ->
    (Rabs (FR (nth i (0%float :: tsub t) 0%float)) + Rabs (FR (nth i (tsup t) 0%float))) * (1 + u64)
    < Rabs (FR (nth i (tmain t) 0%float)) * (1 - u64).

(* the invariant of the elimination at step k *)
Definition pivot_ok (t : tridiag AF) (k : nat) : Prop :=
  ffinite (tbeta t k) /\ FR (tbeta t k) <> 0 /\
  Rabs (FR (nth k (tsup t) 0%float)) * (1 + u64) <= Rabs (FR (tbeta t k)) /\
  Rabs (FR (tbeta t k)) <= bpow radix2 302.

Definition mult_ok (t : tridiag AF) (k : nat) : Prop :=   (* about gamma_{k+1} = sup_k / beta_k *)
  ffinite (tgamma t (k + 1)) /\ Rabs (FR (tgamma t (k + 1))) <= 1 /\
  (FR (tgamma t (k + 1)) = 0 \/ bpow radix2 (-603) <= Rabs (FR (tgamma t (k + 1)))) /\
  no_underflow (FR (nth k (tsup t) 0%float) / FR (tbeta t k)).

Lemma mult_step (t : tridiag AF) k : tri_finite t -> tri_scaled t -> (k + 1 < tn t)%nat ->
  pivot_ok t k -> mult_ok t k.
Proof.
  intros (_ & Fo) (_ & So) Hk (Fb & Nb & Lb & Ub).
  destruct (Fo k Hk) as (_ & Fc). destruct (So k Hk) as (_ & Sc).
  set (c := FR (nth k (tsup t) 0%float)) in *. set (b := FR (tbeta t k)) in *.
  pose proof u64_range64 as Hu.
  assert (Pb : 0 < Rabs b) by now apply Rabs_pos_lt.
  assert (Hq1 : Rabs (c / b) <= 1).
  { unfold Rdiv. rewrite Rabs_mult, Rabs_inv. apply (Rmult_le_reg_r (Rabs b)); [exact Pb|].
    rewrite Rmult_assoc, Rinv_l, Rmult_1_r, Rmult_1_l by lra. pose proof (Rabs_pos c). nra. }
  assert (Uq : no_underflow (c / b)).
  { destruct Sc as [Z|Sc]; [left; rewrite Z; unfold Rdiv; ring|].
    apply (nounder_ge _ (-300 - 302)); [lia|]. now apply quot_abs_ge. }
  assert (Oq : no_overflow (c / b)).
  { apply (no_overflow_le _ 0); [lia|]. exact Hq1. }
  unfold mult_ok. replace (k + 1)%nat with (S k) by lia. cbn [tgamma].
  destruct (fdiv_correct _ _ Fc Nb Oq) as (Eg & Fg). fold c b in Eg.
  destruct (rnd64_rel_ex _ Uq) as (d1 & H1 & E1). rewrite E1 in Eg.
  split; [exact Fg|]. rewrite Eg.
  split; [apply (mult_le_1 u64 Hu); assumption|].
  split; [|exact Uq].
  destruct Sc as [Z|Sc]; [left; rewrite Z; unfold Rdiv; ring|right].
  apply (rel_abs_ge _ _ (-602)); [exact H1|]. change (-602)%Z with (-300 - 302)%Z. now apply quot_abs_ge.
Qed.

Lemma pivot_step (t : tridiag AF) k : tri_finite t -> tri_scaled t -> dominant_f t -> (k + 1 < tn t)%nat ->
  mult_ok t k ->
  pivot_ok t (k + 1) /\ no_underflow (FR (nth k (tsub t) 0%float) * FR (tgamma t (k + 1))).
Proof.
  intros (Fm & Fo) (Sm & So) D Hk (Fg & Hg & Sg & _).
  destruct (Fo k Hk) as (Fa & _). destruct (So k Hk) as (Sa & _).
  pose proof (Fm (k + 1)%nat Hk) as Fmk. pose proof (Sm (k + 1)%nat Hk) as Smk. pose proof (D (k + 1)%nat Hk) as Dk.
  unfold pivot_ok. replace (k + 1)%nat with (S k) in * by lia. cbn [nth] in Dk. rewrite tbeta_S. fl.
  set (a := FR (@nth PrimFloat.float k (tsub t) 0%float)) in *. set (g := FR (tgamma t (S k))) in *.
  set (m := FR (@nth PrimFloat.float (S k) (tmain t) 0%float)) in *.
  set (c := FR (@nth PrimFloat.float (S k) (tsup t) 0%float)) in *.
  pose proof u64_range64 as Hu. pose proof (Rabs_pos a) as Pa. pose proof (Rabs_pos c) as Pc. pose proof (Rabs_pos m) as Pm.
  assert (Ham : Rabs a <= Rabs m) by nra.
  assert (B300 : bpow radix2 300 + bpow radix2 300 * 2 <= bpow radix2 302).
  { change 302%Z with (300 + 2)%Z. rewrite bpow_plus. change (bpow radix2 2) with 4.
    pose proof (bpow_gt_0 radix2 300). lra. }
  assert (Hag : Rabs (a * g) <= Rabs a) by (rewrite Rabs_mult; pose proof (Rabs_pos g); nra).
  assert (Up : no_underflow (a * g)).
  { destruct Sa as [Z|Sa]; [left; rewrite Z; ring|]. destruct Sg as [Z|Sg]; [left; rewrite Z; ring|].
    apply (nounder_ge _ (-300 + -603)); [lia|]. now apply prod_abs_ge. }
  assert (Op : no_overflow (a * g)) by (apply (no_overflow_le _ 300); [lia|lra]).
  destruct (fmul_correct _ _ Op) as (Ep & Fp). specialize (Fp Fa Fg). fold a g in Ep.
  destruct (rnd64_rel_ex _ Up) as (d2 & H2 & E2). rewrite E2 in Ep.
  pose proof (abs_one_plus u64 Hu d2 H2) as A2.
  assert (Hs : Rabs (m - a * g * (1 + d2)) <= bpow radix2 302).
  { eapply Rle_trans; [apply Rabs_triang|]. rewrite Rabs_Ropp, Rabs_mult.
    assert (Rabs (a * g) * Rabs (1 + d2) <= bpow radix2 300 * 2) by (apply Rmult_le_compat; try apply Rabs_pos; lra).
    lra. }
  assert (Os : no_overflow (m - FR (nth k (tsub t) 0 * tgamma t (S k))%float)).
  { fl. rewrite Ep. apply (no_overflow_le _ 302); [lia|exact Hs]. }
  destruct (fsub_correct _ _ Fmk Fp Os) as (Eb & Fb). fold m in Eb.
  assert (E3 : exists d3, Rabs d3 <= u64 /\
             rnd64 (m - FR (nth k (tsub t) 0 * tgamma t (S k))%float) = (m - a * g * (1 + d2)) * (1 + d3)).
  { fl. unfold Rminus at 1. destruct (rnd64_plus_ex m (- FR (nth k (tsub t) 0 * tgamma t (S k))%float)) as (d3 & H3 & E3).
    - apply FR_fmt.
    - apply generic_format_opp. apply FR_fmt.
    - exists d3. split; [exact H3|]. fl. rewrite E3, Ep. ring. }
  destruct E3 as (d3 & H3 & E3).
  pose proof (abs_one_plus u64 Hu d3 H3) as A3.
  split; [|exact Up].
  split; [exact Fb|]. fl. rewrite Eb. fl.
  split; [rewrite E3; apply (candidate_nz u64 Hu a m c g d2 d3 Hg H2 H3 Dk)|].
  split.
  - rewrite E3, Rabs_mult.
    assert (Ht : Rabs (m - a * g * (1 + d2)) >= Rabs m - Rabs a * (1 + u64)).
    { eapply Rge_trans; [apply Rle_ge, Rabs_triang_inv|]. rewrite !Rabs_mult.
      pose proof (Rabs_pos g).
      assert (P1 : Rabs g * Rabs (1 + d2) <= 1 + u64) by nra.
      nra. }
    apply (dom_step_alg u64 Hu (Rabs m) (Rabs a) (Rabs c)); [assumption|assumption|assumption|lra|exact Ht|lra].
  - rewrite Ep. apply rnd64_abs_le; [lia|exact Hs].
Qed.

Lemma pivot_0 (t : tridiag AF) : (1 <= tn t)%nat -> tri_finite t -> tri_scaled t -> dominant_f t -> pivot_ok t 0.
Proof.
  intros Hn (Fm & _) (Sm & _) D. specialize (D 0%nat ltac:(lia)). cbn [nth] in D. rewrite FR_0, Rabs_R0 in D.
  unfold pivot_ok. change (tbeta t 0) with (nth 0 (tmain t) 0%float).
  pose proof u64_range64 as Hu. pose proof (Rabs_pos (FR (nth 0 (tsup t) 0%float))).
  pose proof (Rabs_pos (FR (nth 0 (tmain t) 0%float))).
  split; [apply Fm; lia|]. split.
  - intros Z. rewrite Z, Rabs_R0 in D. nra.
  - split; [nra|]. eapply Rle_trans; [apply Sm; lia|]. apply bpow_le. lia.
Qed.

(* every pivot and every multiplier is finite, in range and bounded: purely from the data *)
Lemma pivots_from_data (t : tridiag AF) : (1 <= tn t)%nat -> tri_finite t -> tri_scaled t -> dominant_f t ->
  forall k, (k < tn t)%nat -> pivot_ok t k /\
    ((k + 1 < tn t)%nat -> mult_ok t k /\ no_underflow (FR (nth k (tsub t) 0%float) * FR (tgamma t (k + 1)))).
Proof.
  intros Hn HF HS HD. induction k as [|k IH]; intros Hk.
  - pose proof (pivot_0 t Hn HF HS HD) as P0. split; [exact P0|]. intros H1.
    pose proof (mult_step t 0 HF HS H1 P0) as M0. split; [exact M0|].
    exact (proj2 (pivot_step t 0 HF HS HD H1 M0)).
  - destruct (IH ltac:(lia)) as (Pk & Mk). destruct (Mk ltac:(lia)) as (Mk' & _).
    destruct (pivot_step t k HF HS HD ltac:(lia) Mk') as (P1 & _). replace (k + 1)%nat with (S k) in P1 by lia.
    split; [exact P1|]. intros H1.
    pose proof (mult_step t (S k) HF HS H1 P1) as M1. split; [exact M1|].
    exact (proj2 (pivot_step t (S k) HF HS HD H1 M1)).
Qed.

Notation fnth k l := (@nth PrimFloat.float k l 0%float) (only parsing).

Lemma dominant_f_su (t : tridiag AF) : dominant_f t -> dominant_su u64 Fadd Fsub Fmul Fdiv (tFR t).
Proof.
  intros D i Hi. cbn [tFR tn] in Hi. specialize (D i Hi). cbn [tFR tmain tsub tsup].
  change (0 :: map FR (tsub t)) with (map FR (0%float :: tsub t)). rewrite !nth_map_FR. exact D.
Qed.

(* ---------------------------------------------------------------- Theorem 1b: backward stability for dominant systems at binary64 *)
Theorem thomas_dominant_backward_stable_float_lemma (t : tridiag AF) (r x : list pfloat) :
  wfT t -> (1 <= tn t)%nat -> length r = tn t -> dominant_f t -> tsolve (A := AF) t r = Ok x ->
  (forall i, (i < tn t)%nat -> ffinite (nth i x 0%float)) ->
  (forall k, (k < tn t)%nat -> ffinite (tbeta t k)) ->
  thomas_nounder_matrix t -> thomas_nounder_rhs t r x ->
  length x = tn t /\
  forall i, (i < tn t)%nat -> exists da db dc,
    Rabs da <= 3 * u64 * Rabs (FR (nth i (0%float :: tsub t) 0%float)) /\
    Rabs db <= 5 * u64 * Rabs (FR (nth i (tmain t) 0%float)) + 9 * u64 * Rabs (FR (nth i (0%float :: tsub t) 0%float)) /\
    Rabs dc <= 5 * u64 * Rabs (FR (nth i (tsup t) 0%float)) /\
    (FR (nth i (0%float :: tsub t) 0%float) + da) * FR (nth i (0%float :: x) 0%float)
    + (FR (nth i (tmain t) 0%float) + db) * FR (nth i x 0%float)
    + (FR (nth i (tsup t) 0%float) + dc) * FR (nth (i + 1) x 0%float) = FR (nth i r 0%float).
Proof.
  intros W Hn Hr D E Fx Fb UM UR.
  destruct (thomas_float_real_trace t r x W Hn Hr E Fx Fb UM UR)
    as (Lx & bl & gl & yl & Lb & Lg & Ly & G & Rel & Vlast & Vback).
  split; [exact Lx|]. intros i Hi.
  pose proof u64_range64 as Hu.
  destruct (backward_rows u64 Hu Fadd Fsub Fmul Fdiv Fsub_ok Fmul_ok Fdiv_ok (tFR t)
              (map FR r) (map FR x) (map FR bl) (map FR gl) (map FR yl) (tFR_wf t W) Hn
              ltac:(now rewrite map_length) ltac:(now rewrite map_length) ltac:(now rewrite map_length)
              ltac:(now rewrite map_length) ltac:(now rewrite map_length) Rel Vlast Vback i Hi)
    as (ea & eb & ec & eg & Ha & Hb & Hc & Hg & Eq).
  assert (Gi : (1 <= i)%nat -> Rabs (nth i (map FR gl) 0) <= 1).
  { intros H1.
    destruct (multipliers_bounded u64 Hu Fadd Fsub Fmul Fdiv Fsub_ok Fmul_ok Fdiv_ok (tFR t) (map FR r)
                (map FR bl) (map FR gl) (map FR yl) (tn t) (tFR_wf t W)
                (dominant_su_u u64 Hu Fadd Fsub Fmul Fdiv (tFR t) (dominant_f_su t D)) (le_n _) Rel i Hi) as (_ & Gb).
    exact (Gb H1). }
  cbn [tFR tmain tsub tsup] in Eq.
  change (0 :: map FR (tsub t)) with (map FR (0%float :: tsub t)) in Eq.
  change (0 :: map FR x) with (map FR (0%float :: x)) in Eq.
  rewrite !nth_map_FR in Eq. rewrite nth_map_FR in Gi.
  fl. set (a := FR (fnth i (0%float :: tsub t))) in *. set (b := FR (fnth i (tmain t))) in *.
  set (c := FR (fnth i (tsup t))) in *. set (g := FR (fnth i gl)) in *.
  assert (Hag : Rabs (a * g) <= Rabs a).
  { destruct i as [|k].
    - subst a. cbn [nth]. rewrite FR_0, Rmult_0_l. lra.
    - rewrite Rabs_mult. pose proof (Rabs_pos a). specialize (Gi ltac:(lia)). nra. }
  exists (a * ea), (b * eb + a * g * eg), (c * ec).
  split; [rewrite Rabs_mult; pose proof (Rabs_pos a); nra|].
  split.
  { eapply Rle_trans; [apply Rabs_triang|]. rewrite (Rabs_mult b eb), (Rabs_mult (a * g) eg).
    pose proof (Rabs_pos b). pose proof (Rabs_pos (a * g)). pose proof (Rabs_pos eb). pose proof (Rabs_pos eg). nra. }
  split; [rewrite Rabs_mult; pose proof (Rabs_pos c); nra|].
  rewrite <- Eq. ring.
Qed.

(* ---------------------------------------------------------------- Theorem 2 (partial): dominant systems, the matrix part from the data.
   Gap to a statement on the data only: the answer is assumed finite and the right-hand-side part free of underflow. *)
Lemma thomas_dominant_solved_float_lemma (t : tridiag AF) (r : list pfloat) :
  wfT t -> (1 <= tn t)%nat -> length r = tn t -> tri_finite t -> tri_scaled t -> dominant_f t ->
  exists x, tsolve (A := AF) t r = Ok x /\ length x = tn t.
Proof.
  intros W Hn Hr HF HS HD.
  assert (DA : forall x y : AF, eqb y zero = false -> exists z, div x y = Ok z)
    by (intros x y _; eexists; reflexivity).
  destruct (thomas_shape_lemma (A := AF) DA t r W Hn Hr) as [(x & E & Lx)|E]; [now exists x|].
  exfalso.
  destruct (thomas_refusal_trace_lemma (A := AF) t r W Hn Hr DA E) as [Z|(k & bl & gl & yl & g & Hk & Lb & Rel & Eg & Ez)].
  - destruct (pivots_from_data t Hn HF HS HD 0%nat ltac:(lia)) as ((Fb & Nb & _) & _).
    change (tbeta t 0) with (nth 0 (tmain t) 0%float) in Fb, Nb.
    pose proof (feqb0_false _ Fb Nb) as Z'. change (@eqb AF) with PrimFloat.eqb in Z. change (@zero AF) with 0%float in Z.
    fl. rewrite Z in Z'. discriminate.
  - destruct (pivots_from_data t Hn HF HS HD k ltac:(lia)) as ((Fb & Nb & _) & _).
    destruct (fwd_rel_det t r k bl gl yl Rel (k - 1)%nat ltac:(lia)) as (Eb & _).
    cbn [div AF] in Eg. injection Eg as Eg. change (@zero AF) with 0%float in *. fl. rewrite Eb in Eg.
    destruct k as [|k']; [lia|]. replace (S k' - 1)%nat with k' in * by lia.
    rewrite tbeta_S in Fb, Nb. cbn [tgamma] in Fb, Nb. fl. rewrite Eg in Fb, Nb.
    pose proof (feqb0_false _ Fb Nb) as Z'. cbn [sub mul AF eqb] in Ez. fl. rewrite Ez in Z'. discriminate.
Qed.

Theorem thomas_dominant_float_partial_lemma (t : tridiag AF) (r : list pfloat) :
  wfT t -> (1 <= tn t)%nat -> length r = tn t -> tri_finite t -> tri_scaled t -> dominant_f t ->
  exists x, tsolve (A := AF) t r = Ok x /\ length x = tn t /\
    ((forall i, (i < tn t)%nat -> ffinite (nth i x 0%float)) -> thomas_nounder_rhs t r x ->
     forall i, (i < tn t)%nat -> exists da db dc,
       Rabs da <= 3 * u64 * Rabs (FR (nth i (0%float :: tsub t) 0%float)) /\
       Rabs db <= 5 * u64 * Rabs (FR (nth i (tmain t) 0%float)) + 9 * u64 * Rabs (FR (nth i (0%float :: tsub t) 0%float)) /\
       Rabs dc <= 5 * u64 * Rabs (FR (nth i (tsup t) 0%float)) /\
       (FR (nth i (0%float :: tsub t) 0%float) + da) * FR (nth i (0%float :: x) 0%float)
       + (FR (nth i (tmain t) 0%float) + db) * FR (nth i x 0%float)
       + (FR (nth i (tsup t) 0%float) + dc) * FR (nth (i + 1) x 0%float) = FR (nth i r 0%float)).
Proof.
  intros W Hn Hr HF HS HD.
  destruct (thomas_dominant_solved_float_lemma t r W Hn Hr HF HS HD) as (x & E & Lx).
  exists x. split; [exact E|]. split; [exact Lx|]. intros Fx UR.
  pose proof (pivots_from_data t Hn HF HS HD) as P.
  apply (thomas_dominant_backward_stable_float_lemma t r x W Hn Hr HD E Fx); [| |exact UR].
  - intros k Hk. now destruct (P k Hk) as ((Fb & _) & _).
  - intros k Hk. destruct (P k ltac:(lia)) as (_ & M). destruct (M Hk) as ((_ & _ & _ & U1) & U2). split; assumption.
Qed.

(* ================================================================ concrete systems *)
(* [[4,1,0],[1,4,1],[0,1,4]] x = [1,2,3] at binary64: gamma_2 = 1/3.75, y_1 = 1.75/3.75, ... are inexact *)
Definition exT_t : tridiag AF := @mkT AF [1%float; 1%float] [4%float; 4%float; 4%float] [1%float; 1%float] 3.
Definition exT_r : list pfloat := [1%float; 2%float; 3%float].
Definition exT_x : list pfloat := match tsolve (A := AF) exT_t exT_r with Ok x => x | Panic _ => [] end.

Lemma exT_solve : tsolve (A := AF) exT_t exT_r = Ok exT_x.
Proof. vm_compute. reflexivity. Qed.

Ltac fr_bounds f := assert (/ 8 <= FR f <= 4) by (split; fr_eval).

Lemma nounder_prod_small a b : / 8 <= a <= 4 -> / 8 <= b <= 4 -> no_underflow (a * b).
Proof. intros Ha Hb. apply no_underflow_ge_small. rewrite Rabs_pos_eq by nra. nra. Qed.

Lemma nounder_quot_small a b : / 8 <= a <= 4 -> / 8 <= b <= 4 -> no_underflow (a / b).
Proof.
  intros Ha Hb. apply no_underflow_ge_small.
  assert (/ 4 <= / b) by (apply Rinv_le_contravar; lra).
  unfold Rdiv. rewrite Rabs_pos_eq by nra. nra.
Qed.

Lemma exT_conditions :
  wfT exT_t /\ (1 <= tn exT_t)%nat /\ length exT_r = tn exT_t /\
  (forall i, (i < tn exT_t)%nat -> ffinite (nth i exT_x 0%float)) /\
  (forall k, (k < tn exT_t)%nat -> ffinite (tbeta exT_t k)) /\
  thomas_nounder_matrix exT_t /\ thomas_nounder_rhs exT_t exT_r exT_x.
Proof.
  split; [unfold wfT; cbn; auto|]. split; [cbn; lia|]. split; [reflexivity|].
  split; [intros [|[|[|i]]] Hi; cbn in Hi; try lia; apply ffinite_SF; vm_compute; reflexivity|].
  split; [intros [|[|[|i]]] Hi; cbn in Hi; try lia; apply ffinite_SF; vm_compute; reflexivity|].
  assert (E1 : FR 1%float = 1) by fr_eval.
  fr_bounds (tbeta exT_t 0). fr_bounds (tbeta exT_t 1). fr_bounds (tbeta exT_t 2).
  fr_bounds (tgamma exT_t 1). fr_bounds (tgamma exT_t 2).
  fr_bounds (ty exT_t exT_r 0). fr_bounds (ty exT_t exT_r 1).
  fr_bounds (tnum exT_t exT_r 0). fr_bounds (tnum exT_t exT_r 1). fr_bounds (tnum exT_t exT_r 2).
  fr_bounds (nth 1 exT_x 0%float). fr_bounds (nth 2 exT_x 0%float).
  split; [|split].
  - intros [|[|k]] Hk; cbn in Hk; try lia; cbn [nth exT_t tsup tsub Nat.add]; rewrite E1;
      (split; [apply nounder_quot_small|apply nounder_prod_small]); assumption || lra.
  - intros [|[|[|k]]] Hk; cbn in Hk; try lia; apply nounder_quot_small; assumption.
  - intros [|[|k]] Hk; cbn in Hk; try lia; cbn [nth exT_t tsup tsub Nat.add]; rewrite E1;
      (split; apply nounder_prod_small); assumption || lra.
Qed.

Lemma exT_data : tri_finite exT_t /\ tri_scaled exT_t /\ dominant_f exT_t.
Proof.
  assert (E1 : FR 1%float = 1) by fr_eval. assert (E4 : FR 4%float = 4) by fr_eval.
  assert (B300 : 4 <= bpow radix2 300) by (change 4 with (bpow radix2 2); apply bpow_le; lia).
  assert (Bm300 : bpow radix2 (-300) <= 1) by (change 1 with (bpow radix2 0); apply bpow_le; lia).
  pose proof OV.Proofs.RoundDotFloat.u64_small as Hu. pose proof u64_range as Hu0.
  split; [|split].
  - split.
    + intros [|[|[|i]]] Hi; cbn in Hi; try lia; apply ffinite_SF; vm_compute; reflexivity.
    + intros [|[|i]] Hi; cbn in Hi; try lia; split; apply ffinite_SF; vm_compute; reflexivity.
  - split.
    + intros [|[|[|i]]] Hi; cbn in Hi; try lia; cbn [nth exT_t tmain]; rewrite E4, Rabs_pos_eq; lra.
    + intros [|[|i]] Hi; cbn in Hi; try lia; cbn [nth exT_t tsub tsup]; rewrite E1, Rabs_pos_eq by lra; split; right; lra.
  - intros [|[|[|i]]] Hi; cbn in Hi; try lia; cbn [nth exT_t tmain tsub tsup]; rewrite ?E1, ?E4, ?FR_0, ?Rabs_R0;
      rewrite ?(Rabs_pos_eq 1), ?(Rabs_pos_eq 4) by lra; lra.
Qed.

(* a finite answer that hides an overflowed pivot: beta_1 = 2^1023 + 2^1023 = +inf, so y_1 = 2^1023 / inf = 0 and the
   answer [1; 0] is finite -- the true solution is close to [1/2; 1/2] and row 1 is violated by 2^1023.  This is why the
   pivots must be assumed (or proved) finite: finiteness of the answer does not imply it. *)
Definition ovf_t : tridiag AF := @mkT AF [(-0x1p1023)%float] [1%float; 0x1p1023%float] [1%float] 2.
Lemma thomas_finite_answer_hides_overflow :
  tsolve (A := AF) ovf_t [1%float; 1%float] = Ok [1%float; 0%float] /\ tbeta ovf_t 1 = infinity.
Proof. split; vm_compute; reflexivity. Qed.
