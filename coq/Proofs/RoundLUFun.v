(* Proofs/RoundLUFun.v -- the algebra of in-place LU elimination with row exchanges, on ENTRY FUNCTIONS (no loops, no
   arithmetic law: the operations fsub fmul fdiv are arbitrary functions).

   [CF PA E s r c] is the closed form of entry (r,c) after s elimination steps, for the matrix whose rows have been
   brought to their current positions (PA = the input with its rows so permuted):
        E r c = PA r c - E r 0 * E 0 c - ... - E r (t-1) * E (t-1) c         t = min r (min c s)      (in this order)
   divided by the pivot E c c when c < r and c < s (a finished multiplier).  At s = n this is Doolittle's form of
   L (strictly lower part of E, unit diagonal) and U (upper part of E).
   [GoodF] is preserved by exchanging two rows >= s ([goodF_swap]) and by one elimination step ([goodF_step]):
   exactly what lu_decomp_in_place does, as Proofs/RoundLUTrace.v shows by running the loops. *)
From Coq Require Import List Arith Lia Bool Reals.
From OV Require Import Proofs.LUPrim.
Import ListNotations.

Section LUFun.
Variables fsub fmul fdiv : R -> R -> R.

Definition lacc_f (E : nat -> nat -> R) (r c t : nat) (a0 : R) : R :=
  fold_left (fun acc k => fsub acc (fmul (E r k) (E k c))) (seq 0 t) a0.

Lemma lacc_f_S E r c t a0 : lacc_f E r c (S t) a0 = fsub (lacc_f E r c t a0) (fmul (E r t) (E t c)).
Proof. unfold lacc_f. rewrite seq_S, fold_left_app. reflexivity. Qed.

Lemma lacc_f_ext E E' r r' c t a0 :
  (forall k, k < t -> E' r' k = E r k /\ E' k c = E k c) -> lacc_f E' r' c t a0 = lacc_f E r c t a0.
Proof.
  induction t as [|t IH]; intros H; [reflexivity|].
  rewrite !lacc_f_S, IH by (intros k Hk; apply H; lia).
  destruct (H t ltac:(lia)) as [-> ->]. reflexivity.
Qed.

Definition CF (PA E : nat -> nat -> R) (s r c : nat) : Prop :=
  if (c <? r) && (c <? s)
  then E r c = fdiv (lacc_f E r c c (PA r c)) (E c c)
  else E r c = lacc_f E r c (Nat.min r (Nat.min c s)) (PA r c).

Definition GoodF (n s : nat) (PA E : nat -> nat -> R) : Prop :=
  forall r c, r < n -> c < n -> CF PA E s r c.

Lemma goodF_0 n E : GoodF n 0 E E.
Proof.
  intros r c _ _. unfold CF. rewrite Nat.ltb_irrefl || idtac.
  replace ((c <? r) && (c <? 0)) with false by (destruct (c <? r); reflexivity).
  rewrite Nat.min_0_r, Nat.min_0_r. reflexivity.
Qed.

Lemma goodF_ext n s PA PA' E E' :
  (forall r c, r < n -> c < n -> E' r c = E r c) -> (forall r c, r < n -> c < n -> PA' r c = PA r c) ->
  GoodF n s PA E -> GoodF n s PA' E'.
Proof.
  intros HE HP G r c Hr Hc. specialize (G r c Hr Hc). unfold CF in *.
  destruct ((c <? r) && (c <? s)) eqn:B.
  - apply andb_prop in B as [B1 B2]. apply Nat.ltb_lt in B1, B2.
    rewrite HE, HP by assumption. rewrite (HE c c) by assumption.
    rewrite (lacc_f_ext E E' r r c c) by (intros k Hk; split; apply HE; lia). exact G.
  - rewrite HE, HP by assumption.
    rewrite (lacc_f_ext E E' r r c) by (intros k Hk; split; apply HE; lia). exact G.
Qed.

(* exchanging rows s and p (both >= s) of the state and of the target *)
Lemma goodF_swap n s p PA E : s <= p -> p < n ->
  GoodF n s PA E -> GoodF n s (fun r c => PA (tr s p r) c) (fun r c => E (tr s p r) c).
Proof.
  intros Hsp Hp G r c Hr Hc. unfold CF.
  destruct (Nat.lt_ge_cases r s) as [L|L].
  - (* a finished row: untouched *)
    assert (T : tr s p r = r) by (apply tr_other; lia).
    assert (Tk : forall k, k < s -> tr s p k = k) by (intros k Hk; apply tr_other; lia).
    specialize (G r c Hr Hc). unfold CF in G. rewrite T.
    destruct ((c <? r) && (c <? s)) eqn:B.
    + apply andb_prop in B as [B1 B2]. apply Nat.ltb_lt in B1, B2. rewrite (Tk c) by lia.
      rewrite (lacc_f_ext E _ r r c c) by (intros k Hk; rewrite T, (Tk k) by lia; auto). exact G.
    + rewrite (lacc_f_ext E _ r r c) by (intros k Hk; rewrite T, (Tk k) by lia; auto). exact G.
  - (* an active row: the closed form does not depend on which active row it is *)
    set (r0 := tr s p r).
    assert (Hr0 : r0 < n) by (unfold r0; apply tr_lt; lia).
    assert (L0 : s <= r0).
    { unfold r0, tr. destruct (r =? s); [lia|]. destruct (r =? p); lia. }
    assert (Tk : forall k, k < s -> tr s p k = k) by (intros k Hk; apply tr_other; lia).
    specialize (G r0 c Hr0 Hc). unfold CF in G.
    assert (Bq : (c <? r) && (c <? s) = ((c <? r0) && (c <? s))).
    { destruct (Nat.ltb_spec c s) as [Hcs|Hcs]; [|now rewrite !andb_false_r].
      rewrite !andb_true_r. destruct (Nat.ltb_spec c r), (Nat.ltb_spec c r0); auto; lia. }
    assert (Mq : Nat.min r (Nat.min c s) = Nat.min r0 (Nat.min c s)) by lia.
    rewrite Bq, Mq. fold r0.
    destruct ((c <? r0) && (c <? s)) eqn:B.
    + apply andb_prop in B as [B1 B2]. apply Nat.ltb_lt in B1, B2. rewrite (Tk c) by lia.
      rewrite (lacc_f_ext E _ r0 r c c) by (intros k Hk; fold r0; rewrite (Tk k) by lia; auto). exact G.
    + rewrite (lacc_f_ext E _ r0 r c) by (intros k Hk; fold r0; rewrite (Tk k) by lia; auto). exact G.
Qed.

(* one elimination step on column s: rows below s get their multiplier and their update *)
Definition stepf (E : nat -> nat -> R) (s r c : nat) : R :=
  if s <? r then
    (if c <? s then E r c
     else if c =? s then fdiv (E r s) (E s s)
     else fsub (E r c) (fmul (fdiv (E r s) (E s s)) (E s c)))
  else E r c.

Lemma stepf_low E s r c : r <= s -> stepf E s r c = E r c.
Proof. intros H. unfold stepf. destruct (Nat.ltb_spec s r); [lia|reflexivity]. Qed.

Lemma stepf_left E s r c : c < s -> stepf E s r c = E r c.
Proof. intros H. unfold stepf. destruct (s <? r); [|reflexivity]. destruct (Nat.ltb_spec c s); [reflexivity|lia]. Qed.

Lemma goodF_step n s PA E : s < n -> GoodF n s PA E -> GoodF n (S s) PA (stepf E s).
Proof.
  intros Hs G r c Hr Hc. specialize (G r c Hr Hc). unfold CF in *.
  destruct (Nat.le_gt_cases r s) as [L|L].
  - (* rows <= s: nothing changes, and the two closed forms coincide *)
    assert (Bq : (c <? r) && (c <? S s) = ((c <? r) && (c <? s))).
    { destruct (Nat.ltb_spec c r); [|reflexivity]. cbn [andb].
      destruct (Nat.ltb_spec c (S s)), (Nat.ltb_spec c s); auto; lia. }
    assert (Mq : Nat.min r (Nat.min c (S s)) = Nat.min r (Nat.min c s)) by lia.
    rewrite Bq, Mq, stepf_low by exact L.
    destruct ((c <? r) && (c <? s)) eqn:B.
    + apply andb_prop in B as [B1 B2]. apply Nat.ltb_lt in B1, B2. rewrite stepf_low by lia.
      rewrite (lacc_f_ext E _ r r c c) by (intros k Hk; rewrite stepf_low, stepf_low by lia; auto). exact G.
    + rewrite (lacc_f_ext E _ r r c) by (intros k Hk; rewrite stepf_low, stepf_low by lia; auto). exact G.
  - (* rows > s *)
    destruct (Nat.lt_trichotomy c s) as [C|[C|C]].
    + (* a finished multiplier *)
      assert (B : (c <? r) && (c <? S s) = true).
      { apply andb_true_intro. split; apply Nat.ltb_lt; lia. }
      assert (B' : (c <? r) && (c <? s) = true).
      { apply andb_true_intro. split; apply Nat.ltb_lt; lia. }
      rewrite B. rewrite B' in G. rewrite stepf_left by exact C. rewrite (stepf_low E s c c) by lia.
      rewrite (lacc_f_ext E _ r r c c).
      * exact G.
      * intros k Hk. split; [apply stepf_left; lia|apply stepf_low; lia].
    + (* the new multiplier *)
      subst c.
      assert (B : (s <? r) && (s <? S s) = true).
      { apply andb_true_intro. split; apply Nat.ltb_lt; lia. }
      assert (B' : (s <? r) && (s <? s) = false) by (rewrite Nat.ltb_irrefl; apply andb_false_r).
      rewrite B. rewrite B' in G.
      replace (Nat.min r (Nat.min s s)) with s in G by lia.
      rewrite (stepf_low E s s s) by lia.
      rewrite (lacc_f_ext E _ r r s s).
      2:{ intros k Hk. split; [apply stepf_left; lia|apply stepf_low; lia]. }
      unfold stepf. destruct (Nat.ltb_spec s r); [|lia]. rewrite Nat.ltb_irrefl, Nat.eqb_refl.
      rewrite <- G. reflexivity.
    + (* an updated entry *)
      assert (B : (c <? r) && (c <? S s) = false).
      { destruct (Nat.ltb_spec c (S s)); [lia|apply andb_false_r]. }
      assert (B' : (c <? r) && (c <? s) = false).
      { destruct (Nat.ltb_spec c s); [lia|apply andb_false_r]. }
      rewrite B. rewrite B' in G.
      replace (Nat.min r (Nat.min c s)) with s in G by lia.
      replace (Nat.min r (Nat.min c (S s))) with (S s) by lia.
      rewrite lacc_f_S.
      rewrite (lacc_f_ext E _ r r c s).
      2:{ intros k Hk. split; [apply stepf_left; lia|apply stepf_low; lia]. }
      rewrite (stepf_low E s s c) by lia.
      unfold stepf. destruct (Nat.ltb_spec s r); [|lia].
      destruct (Nat.ltb_spec c s); [lia|]. destruct (Nat.eqb_spec c s); [lia|].
      rewrite Nat.ltb_irrefl, Nat.eqb_refl. rewrite <- G. reflexivity.
Qed.

End LUFun.
