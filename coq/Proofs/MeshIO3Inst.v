(* Proofs/MeshIO3Inst.v -- Mesh1D::output followed by Mesh1D::read with the rounding formatters of
   Proofs/MeshIO3Fmt.v on the exact tier (Mesh1D<Rat, Rat> = mesh1 AQ AQ): the mesh read back is
   the written mesh with every node and value rounded to N decimals (fixed point, the formatter
   the code uses) resp. N+1 significant digits (scientific); every entry moves by at most half a
   unit of the last printed digit; a second round trip changes nothing. *)
From Coq Require Import ZArith QArith Qabs Qcanon List Arith Lia Bool.
From OV Require Import Base.Panic.
From OV Require Import Base.Arith.
From OV Require Import Inst.QcInst.
From OV Require Import Model.Vector.
From OV Require Import Model.Matrix.
From OV Require Import Model.Mesh.
From OV Require Import Proofs.MeshBase.
From OV Require Import Proofs.MeshStore.
From OV Require Import Proofs.MeshIO.
From OV Require Import Proofs.MeshIO2.
From OV Require Import Proofs.MeshIO3.
From OV Require Import Proofs.MeshIO3Fmt.
Import ListNotations.
Local Open Scope Q_scope.

Notation meshQ := (mesh1 AQ AQ).

(* ------------------------------------------------------------------ fixed point *)
Lemma file_roundtrip_fix (N : nat) (m m0 : meshQ) :
  wf1 m -> m1_nvars m0 = m1_nvars m ->
  Forall (fun r => length r = m1_nvars m0) (m1_vars m0) ->
  (let* lines := @output1 AQ AQ ftok (fmt_fix N) (fmt_fix N) m in
   @read1 AQ ftok (parse_fix N) m0 (concat lines)) = Ok (map_mesh1 (A:=AQ) (rnd_fix N) m).
Proof.
  apply (read_layout_roundtrip_rounded (A:=AQ) ftok (fmt_fix N) (parse_fix N) (rnd_fix N)).
  apply parse_fmt_fix.
Qed.

(* entry by entry: node k and variable v of node k of the mesh read back are within 10^-N / 2 of
   those of the mesh written *)
Lemma file_roundtrip_fix_close (N : nat) (m : meshQ) :
  wf1 m ->
  (forall k, (k < length (m1_nodes m))%nat ->
     Qabs (nth k (m1_nodes (map_mesh1 (A:=AQ) (rnd_fix N) m)) 0%Qc - nth k (m1_nodes m) 0%Qc)
       <= (1 # 2) / inject_Z (p10 N)) /\
  (forall k v, (k < length (m1_nodes m))%nat -> (v < m1_nvars m)%nat ->
     Qabs (nth v (nth k (m1_vars (map_mesh1 (A:=AQ) (rnd_fix N) m)) []) 0%Qc -
           nth v (nth k (m1_vars m) []) 0%Qc) <= (1 # 2) / inject_Z (p10 N)).
Proof.
  intros Hwf. destruct (map_mesh1_entries (A:=AQ) (rnd_fix N) m Hwf) as (_ & _ & _ & Hn & Hv).
  split.
  - intros k Hk. change (@zero AQ) with 0%Qc in Hn. rewrite Hn by exact Hk. apply rnd_fix_err.
  - intros k v Hk Hv'. change (@zero AQ) with 0%Qc in Hv. rewrite Hv by assumption. apply rnd_fix_err.
Qed.

Lemma file_roundtrip_fix_twice (N : nat) (m m0 m1 : meshQ) :
  wf1 m -> m1_nvars m0 = m1_nvars m -> m1_nvars m1 = m1_nvars m ->
  Forall (fun r => length r = m1_nvars m0) (m1_vars m0) ->
  Forall (fun r => length r = m1_nvars m1) (m1_vars m1) ->
  exists lines m',
    @output1 AQ AQ ftok (fmt_fix N) (fmt_fix N) m = Ok lines /\
    @read1 AQ ftok (parse_fix N) m0 (concat lines) = Ok m' /\ m' = map_mesh1 (A:=AQ) (rnd_fix N) m /\
    @output1 AQ AQ ftok (fmt_fix N) (fmt_fix N) m' = Ok lines /\
    @read1 AQ ftok (parse_fix N) m1 (concat lines) = Ok m'.
Proof.
  apply (roundtrip_twice (A:=AQ) ftok (fmt_fix N) (parse_fix N) (rnd_fix N)).
  - apply parse_fmt_fix.
  - apply fmt_rnd_fix.
Qed.

(* a mesh all of whose entries have at most N decimals is read back unchanged *)
Lemma file_roundtrip_fix_exact (N : nat) (m m0 : meshQ) :
  (forall x : Qc, In x (m1_nodes m ++ concat (m1_vars m)) ->
     exists z, x == inject_Z z / inject_Z (p10 N)) ->
  wf1 m -> m1_nvars m0 = m1_nvars m ->
  Forall (fun r => length r = m1_nvars m0) (m1_vars m0) ->
  (let* lines := @output1 AQ AQ ftok (fmt_fix N) (fmt_fix N) m in
   @read1 AQ ftok (parse_fix N) m0 (concat lines)) = Ok m.
Proof.
  intros Hdec. apply (read_layout_roundtrip_held (A:=AQ) ftok (fmt_fix N) (parse_fix N)).
  intros x Hx. rewrite parse_fmt_fix. apply (f_equal (@Ok Qc)). apply rnd_fix_fixpoint. now apply Hdec.
Qed.

(* ------------------------------------------------------------------ scientific *)
Lemma file_roundtrip_sci (N : nat) (m m0 : meshQ) :
  wf1 m -> m1_nvars m0 = m1_nvars m ->
  Forall (fun r => length r = m1_nvars m0) (m1_vars m0) ->
  (let* lines := @output1 AQ AQ stok (fmt_sci N) (fmt_sci N) m in
   @read1 AQ stok (parse_sci N) m0 (concat lines)) = Ok (map_mesh1 (A:=AQ) (rnd_sci N) m).
Proof.
  apply (read_layout_roundtrip_rounded (A:=AQ) stok (fmt_sci N) (parse_sci N) (rnd_sci N)).
  apply parse_fmt_sci.
Qed.

Lemma file_roundtrip_sci_close (N : nat) (m : meshQ) :
  wf1 m ->
  (forall k, (k < length (m1_nodes m))%nat ->
     Qabs (nth k (m1_nodes (map_mesh1 (A:=AQ) (rnd_sci N) m)) 0%Qc - nth k (m1_nodes m) 0%Qc)
       <= Qabs (nth k (m1_nodes m) 0%Qc) * ((1 # 2) / inject_Z (p10 N))) /\
  (forall k v, (k < length (m1_nodes m))%nat -> (v < m1_nvars m)%nat ->
     Qabs (nth v (nth k (m1_vars (map_mesh1 (A:=AQ) (rnd_sci N) m)) []) 0%Qc -
           nth v (nth k (m1_vars m) []) 0%Qc)
       <= Qabs (nth v (nth k (m1_vars m) []) 0%Qc) * ((1 # 2) / inject_Z (p10 N))).
Proof.
  intros Hwf. destruct (map_mesh1_entries (A:=AQ) (rnd_sci N) m Hwf) as (_ & _ & _ & Hn & Hv).
  split.
  - intros k Hk. change (@zero AQ) with 0%Qc in Hn. rewrite Hn by exact Hk. apply rnd_sci_err.
  - intros k v Hk Hv'. change (@zero AQ) with 0%Qc in Hv. rewrite Hv by assumption. apply rnd_sci_err.
Qed.

Lemma file_roundtrip_sci_twice (N : nat) (m m0 m1 : meshQ) :
  wf1 m -> m1_nvars m0 = m1_nvars m -> m1_nvars m1 = m1_nvars m ->
  Forall (fun r => length r = m1_nvars m0) (m1_vars m0) ->
  Forall (fun r => length r = m1_nvars m1) (m1_vars m1) ->
  exists lines m',
    @output1 AQ AQ stok (fmt_sci N) (fmt_sci N) m = Ok lines /\
    @read1 AQ stok (parse_sci N) m0 (concat lines) = Ok m' /\ m' = map_mesh1 (A:=AQ) (rnd_sci N) m /\
    @output1 AQ AQ stok (fmt_sci N) (fmt_sci N) m' = Ok lines /\
    @read1 AQ stok (parse_sci N) m1 (concat lines) = Ok m'.
Proof.
  apply (roundtrip_twice (A:=AQ) stok (fmt_sci N) (parse_sci N) (rnd_sci N)).
  - apply parse_fmt_sci.
  - apply fmt_rnd_sci.
Qed.

(* ------------------------------------------------------------------ a run, by computation *)
(* a 3-node mesh with two variables holding 1/3, -2/7, 12.345 (a tie), -1/1000 (rounds to zero), ... *)
Definition ex_r : meshQ :=
  @mkM1 AQ Qc 2 [q 1 3; q 1 8; q 2 1]
        [[q (-2) 7; q 12345 1000]; [q (-1) 1000; q 9995 1000]; [q 22 7; q 5 2]].
Definition ex_r0 : meshQ := @mkM1 AQ Qc 2 [q 9 1; q 8 1; q 7 1; q 6 1] (repeat [q 7 1; q 7 1] 4).
(* the same with every entry rounded to two decimals, ties to even *)
Definition ex_r_fix2 : meshQ :=
  @mkM1 AQ Qc 2 [q 33 100; q 12 100; q 2 1]
        [[q (-29) 100; q 1234 100]; [q 0 1; q 1000 100]; [q 314 100; q 250 100]].
(* and to three significant digits *)
Definition ex_r_sci2 : meshQ :=
  @mkM1 AQ Qc 2 [q 333 1000; q 125 1000; q 2 1]
        [[q (-286) 1000; q 123 10]; [q (-1) 1000; q 10 1]; [q 314 100; q 250 100]].

Definition meshQ_view (r : res meshQ) : option (nat * list Q * list (list Q)) :=
  match r with
  | Ok m => Some (m1_nvars m, map this (m1_nodes m), map (map this) (m1_vars m))
  | Panic _ => None
  end.

Lemma ex_r_wf : wf1 ex_r.
Proof. split; [reflexivity|]. repeat constructor. Qed.

Example file_roundtrip_fix_run :
  meshQ_view (let* lines := @output1 AQ AQ ftok (fmt_fix 2) (fmt_fix 2) ex_r in
              @read1 AQ ftok (parse_fix 2) ex_r0 (concat lines)) = meshQ_view (Ok ex_r_fix2) /\
  map_mesh1 (A:=AQ) (rnd_fix 2) ex_r <> ex_r.
Proof.
  split; [vm_compute; reflexivity|].
  intros E. apply (f_equal (fun m => map this (m1_nodes m))) in E. vm_compute in E. discriminate.
Qed.

Example file_roundtrip_sci_run :
  meshQ_view (let* lines := @output1 AQ AQ stok (fmt_sci 2) (fmt_sci 2) ex_r in
              @read1 AQ stok (parse_sci 2) ex_r0 (concat lines)) = meshQ_view (Ok ex_r_sci2).
Proof. vm_compute. reflexivity. Qed.

(* ------------------------------------------------------------------ reading ANY token list with
   the fixed-point parser into a well-formed mesh: a mesh, or Panic Unwrap -- and the panic exactly
   when some token is malformed; no other panic is possible *)
Lemma read_fix_outcome (N : nat) (m0 : meshQ) (toks : list ftok) :
  Forall (fun r => length r = m1_nvars m0) (m1_vars m0) ->
  (@read1 AQ ftok (parse_fix N) m0 toks = Panic Unwrap <->
   exists t, In t toks /\ (ft_int t < 0)%Z) /\
  (forall k, @read1 AQ ftok (parse_fix N) m0 toks = Panic k -> k = Unwrap).
Proof.
  intros Hall0.
  destruct (read1_panic_class (A:=AQ) ftok (parse_fix N) m0 toks Unwrap Hall0) as [Hiff Honly].
  { intros t k' _ H. now apply parse_fix_panic in H. }
  split; [|exact Honly]. rewrite Hiff. split.
  - intros (t & Ht & Hp). exists t. split; [exact Ht|]. now apply parse_fix_panic in Hp.
  - intros (t & Ht & Hneg). exists t. split; [exact Ht|]. unfold parse_fix.
    apply Z.ltb_lt in Hneg. now rewrite Hneg.
Qed.

(* ------------------------------------------------------------------ more concrete inputs *)
(* every entry has at most one decimal *)
Definition ex_h : meshQ :=
  @mkM1 AQ Qc 2 [q 0 1; q 1 2; q 3 1] [[q 1 1; q (-7) 10]; [q 3 1; q 4 5]; [q 5 1; q 123 10]].

Lemma ex_h_wf : wf1 ex_h.
Proof. split; [reflexivity|]. repeat constructor. Qed.

Lemma ex_h_survives :
  forall x : Qc, In x (m1_nodes ex_h ++ concat (m1_vars ex_h)) -> parse_fix 1 (fmt_fix 1 x) = Ok x.
Proof.
  intros x Hx. rewrite parse_fmt_fix. apply (f_equal (@Ok Qc)). apply Qc_is_canon.
  cbn in Hx. repeat (destruct Hx as [<-|Hx]; [vm_compute; reflexivity|]). destruct Hx.
Qed.

(* but not every value does: 1/3 *)
Lemma third_does_not_survive : parse_fix 1 (fmt_fix 1 (q 1 3)) <> Ok (q 1 3).
Proof.
  intros E. apply (f_equal (fun r => match r with Ok y => this y | Panic _ => 0%Q end)) in E.
  vm_compute in E. discriminate.
Qed.

(* a formatter that writes a malformed token for negative values *)
Definition fmt_bad (x : Qc) : ftok := FTok false (Qnum x).

(* ------------------------------------------------------------------ a file whose last line is
   incomplete (5 tokens, nvars = 2) read into a 4-node mesh holding 7s: no error, two nodes, and
   the missing second variable of the last node is the stale 7 of the mesh read into
   (observed on the implementation with the same file: vars[1] = [5, <old value>]) *)
Example read_incomplete_line_run :
  meshQ_view (@read1 AQ ftok (parse_fix 0) ex_r0
                [FTok false 1; FTok false 2; FTok false 3; FTok false 4; FTok false 5]) =
  Some (2%nat, [1; 4], [[2; 3]; [5; 7]]).
Proof. vm_compute. reflexivity. Qed.
