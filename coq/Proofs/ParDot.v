(* Proofs/ParDot.v -- stub, to be filled in *)
