(* Proofs/ParDot.v -- lemmas about Model/ParDot.v (threaded dot product, C16). *)
From Coq Require Import List Arith Lia Permutation Ring_theory Ring.
From OV Require Import Base.Panic Base.Arith Model.Vector Model.ParDot.
Import ListNotations.

(* ------------------------------------------------------------------ list facts *)
Lemma firstn_add_split {X} (a b : nat) (l : list X) :
  firstn (a + b) l = firstn a l ++ firstn b (skipn a l).
Proof.
  revert l; induction a as [|a IH]; intros l; cbn; auto.
  destruct l as [|h t]; cbn.
  - now rewrite firstn_nil.
  - now rewrite IH.
Qed.

Lemma firstn_all_skipn {X} (s n : nat) (l : list X) :
  length l <= s + n -> firstn n (skipn s l) = skipn s l.
Proof. intros H. apply firstn_all2. rewrite skipn_length. lia. Qed.

Lemma combine_app_eq {X Y} (l1 l2 : list X) (m1 m2 : list Y) :
  length l1 = length m1 -> combine (l1 ++ l2) (m1 ++ m2) = combine l1 m1 ++ combine l2 m2.
Proof.
  revert m1; induction l1 as [|h t IH]; intros [|h' t'] H; cbn in *; try discriminate; auto.
  f_equal. apply IH. lia.
Qed.

(* ------------------------------------------------------------------ the partition *)
Lemma chunk_mul_le len t : t * (len / t) <= len.
Proof. destruct t as [|t]; [cbn; lia|]. apply Nat.mul_div_le. lia. Qed.

Lemma chunk_bounds_ok len t i : 1 <= t -> i < t ->
  let '(s, e) := chunk_bounds len t i in s <= e <= len.
Proof.
  intros Ht Hi. unfold chunk_bounds. pose proof (chunk_mul_le len t) as Hc.
  set (c := len / t) in *.
  destruct (Nat.eqb_spec i (t - 1)) as [->|Hne].
  - split; [|lia]. nia.
  - split; [nia|]. assert ((i + 1) * c <= t * c) by (apply Nat.mul_le_mono_r; lia). lia.
Qed.

(* contiguity: worker i+1 starts where worker i ends; the first starts at 0, the last ends at len *)
Lemma chunk_bounds_contiguous len t i : S i < t ->
  snd (chunk_bounds len t i) = fst (chunk_bounds len t (S i)).
Proof.
  intros Hi. unfold chunk_bounds; cbn [fst snd].
  destruct (Nat.eqb_spec i (t - 1)); [lia|]. now rewrite Nat.add_1_r.
Qed.

Lemma chunk_bounds_first len t : fst (chunk_bounds len t 0) = 0.
Proof. reflexivity. Qed.

Lemma chunk_bounds_last len t : 1 <= t -> snd (chunk_bounds len t (t - 1)) = len.
Proof. intros _. unfold chunk_bounds; cbn [snd]. now rewrite Nat.eqb_refl. Qed.

Lemma concat_regular_chunks {X} (v : list X) c k :
  concat (map (fun i => firstn c (skipn (i * c) v)) (seq 0 k)) = firstn (k * c) v.
Proof.
  induction k as [|k IH]; [reflexivity|].
  rewrite seq_S, map_app, concat_app, IH. cbn [map concat plus]. rewrite app_nil_r.
  replace (S k * c) with (k * c + c) by lia. now rewrite firstn_add_split.
Qed.

Lemma slices_concat {X} (v : list X) t : 1 <= t -> concat (slices v t) = v.
Proof.
  intros Ht. unfold slices. destruct t as [|t]; [lia|].
  rewrite seq_S, map_app, concat_app. cbn [map concat plus]. rewrite app_nil_r.
  set (c := length v / S t).
  rewrite (map_ext_in _ (fun i => firstn c (skipn (i * c) v))).
  - rewrite concat_regular_chunks.
    unfold chunk_bounds. fold c. replace (S t - 1) with t by lia. rewrite Nat.eqb_refl.
    rewrite firstn_all_skipn.
    + apply firstn_skipn.
    + pose proof (chunk_mul_le (length v) (S t)). fold c in H. nia.
  - intros i Hi. apply in_seq in Hi. unfold chunk_bounds. fold c.
    destruct (Nat.eqb_spec i (S t - 1)); [lia|].
    f_equal. nia.
Qed.

Lemma chunks_cover_lemma {X} (v : list X) t : 1 <= t ->
  (forall i, i < t -> let '(s, e) := chunk_bounds (length v) t i in s <= e <= length v) /\
  (forall i, S i < t -> snd (chunk_bounds (length v) t i) = fst (chunk_bounds (length v) t (S i))) /\
  fst (chunk_bounds (length v) t 0) = 0 /\ snd (chunk_bounds (length v) t (t - 1)) = length v /\
  concat (slices v t) = v.
Proof.
  intros Ht. split; [|split; [|split; [|split]]].
  - intros i Hi. now apply chunk_bounds_ok.
  - intros i Hi. now apply chunk_bounds_contiguous.
  - reflexivity.
  - now apply chunk_bounds_last.
  - now apply slices_concat.
Qed.

(* ------------------------------------------------------------------ the jobs are the slices *)
Section Jobs.
Context {A : Arith}.
Notation T := (T A).

Lemma mapM_ok {X Y} (f : X -> res Y) (g : X -> Y) (l : list X) :
  (forall x, In x l -> f x = Ok (g x)) -> mapM f l = Ok (map g l).
Proof.
  induction l as [|h t IH]; intros H; cbn; auto.
  rewrite (H h) by (now left). cbn. rewrite IH by (intros; apply H; now right). reflexivity.
Qed.

Definition slice_of {X} (v : list X) (t i : nat) : list X :=
  let '(s, e) := chunk_bounds (length v) t i in firstn (e - s) (skipn s v).

Lemma slices_map {X} (v : list X) t : slices v t = map (slice_of v t) (seq 0 t).
Proof. reflexivity. Qed.

Lemma job_ok (v w : list T) t i : 1 <= t -> i < t -> length v = length w ->
  job v w t i = Ok (slice_of v t i, slice_of w t i).
Proof.
  intros Ht Hi Hl. unfold job, slice_of. rewrite <- Hl.
  pose proof (chunk_bounds_ok (length v) t i Ht Hi) as Hb.
  destruct (chunk_bounds (length v) t i) as [s e]. destruct Hb as [H1 H2].
  unfold subslice. rewrite <- Hl.
  apply Nat.leb_le in H1 as ->. apply Nat.leb_le in H2 as ->. reflexivity.
Qed.

Lemma jobs_ok (v w : list T) t : 1 <= t -> length v = length w ->
  jobs v w t = Ok (map (fun i => (slice_of v t i, slice_of w t i)) (seq 0 t)).
Proof.
  intros Ht Hl. unfold jobs. apply mapM_ok. intros i Hi. apply in_seq in Hi.
  apply job_ok; auto; lia.
Qed.

Lemma slice_of_length_eq (v w : list T) t i : length v = length w ->
  length (slice_of v t i) = length (slice_of w t i).
Proof.
  intros Hl. unfold slice_of. rewrite <- Hl. destruct (chunk_bounds (length v) t i) as [s e].
  rewrite !firstn_length, !skipn_length. lia.
Qed.

(* ------------------------------------------------------------------ scheduling *)
Local Open Scope arith_scope.
Lemma join_all_somes (xs : list T) acc :
  join_all (map Some xs) acc = Ok (fold_left add xs acc).
Proof. revert acc; induction xs as [|x t IH]; intros acc; cbn; auto. Qed.

(* after the workers listed in sigma have completed, exactly their slots are filled *)
Lemma complete_spec (js : list (list T * list T)) sigma slots :
  length slots = length js -> (forall k, In k sigma -> k < length js) ->
  exists slots', complete js sigma slots = Ok slots' /\ length slots' = length js /\
    forall k, nth_error slots' k =
      if in_dec Nat.eq_dec k sigma then option_map (fun j => Some (work j)) (nth_error js k)
      else nth_error slots k.
Proof.
  revert slots; induction sigma as [|k0 rest IH]; intros slots Hlen Hin.
  - exists slots; cbn; auto.
  - cbn [complete].
    assert (Hk0 : k0 < length js) by (apply Hin; now left).
    destruct (nth_error js k0) as [j0|] eqn:Ej; [|apply nth_error_None in Ej; lia].
    unfold rd at 1. rewrite Ej. cbn [bind].
    rewrite upd_ok by lia. cbn [bind].
    destruct (IH (upd_list slots k0 (Some (work j0)))) as (s' & E & L & N).
    + now rewrite upd_list_length.
    + intros k Hk; apply Hin; now right.
    + exists s'; split; [exact E|split; [exact L|]]. intros k. rewrite N.
      destruct (in_dec Nat.eq_dec k rest) as [Hr|Hr];
      destruct (in_dec Nat.eq_dec k (k0 :: rest)) as [Hc|Hc]; auto.
      * exfalso; apply Hc; now right.
      * rewrite nth_error_upd_list by lia.
        destruct (Nat.eqb_spec k k0) as [->|Hne].
        -- now rewrite Ej.
        -- destruct Hc as [Hc|Hc]; [congruence|contradiction].
      * rewrite nth_error_upd_list by lia.
        destruct (Nat.eqb_spec k k0) as [->|Hne]; auto. exfalso; apply Hc; now left.
Qed.

Lemma nth_error_ext {X} (l1 l2 : list X) : (forall k, nth_error l1 k = nth_error l2 k) -> l1 = l2.
Proof.
  revert l2; induction l1 as [|h t IH]; intros [|h' t'] H; auto.
  - specialize (H 0); discriminate.
  - specialize (H 0); discriminate.
  - f_equal.
    + specialize (H 0); cbn in H; congruence.
    + apply IH. intros k. exact (H (S k)).
Qed.

Lemma complete_perm (js : list (list T * list T)) sigma :
  Permutation sigma (seq 0 (length js)) ->
  complete js sigma (repeat None (length js)) = Ok (map (fun j => Some (work j)) js).
Proof.
  intros HP.
  destruct (complete_spec js sigma (repeat None (length js))) as (s' & E & L & N).
  - apply repeat_length.
  - intros k Hk. apply (Permutation_in _ HP) in Hk. apply in_seq in Hk. lia.
  - rewrite E. f_equal. apply nth_error_ext. intros k. rewrite N, nth_error_map.
    destruct (in_dec Nat.eq_dec k sigma) as [Hi|Hi]; auto.
    assert (Hk : length js <= k).
    { destruct (Nat.lt_ge_cases k (length js)) as [Hlt|]; auto.
      exfalso; apply Hi. apply (Permutation_in _ (Permutation_sym HP)). apply in_seq. lia. }
    apply nth_error_None in Hk as Hk'. rewrite Hk'. cbn.
    apply nth_error_None. rewrite repeat_length. lia.
Qed.

Lemma fold_work_map (js : list (list T * list T)) acc :
  fold_left add (map work js) acc = fold_left (fun a j => a + work j) js acc.
Proof. revert acc; induction js as [|j t IH]; intros acc; cbn; auto. Qed.

Lemma mapM_length {X Y} (f : X -> res Y) (l : list X) ys : mapM f l = Ok ys -> length ys = length l.
Proof.
  revert ys; induction l as [|h tl IH]; intros ys E; cbn in E.
  - injection E as <-. reflexivity.
  - apply bind_ok in E as (y & _ & E). apply bind_ok in E as (t' & E' & E).
    injection E as <-. cbn. f_equal. now apply IH.
Qed.

Lemma jobs_length (v w : list T) t js : jobs v w t = Ok js -> length js = t.
Proof. intros E. apply mapM_length in E. now rewrite seq_length in E. Qed.

(* the result does not depend on the order in which the workers finish -- for ANY arithmetic
   (floats included): both sides are the same expression *)
Lemma schedule_independent_lemma sigma t (v w : list T) :
  Permutation sigma (seq 0 t) -> run_sched sigma t v w = pardot t v w.
Proof.
  intros HP. unfold run_sched, pardot.
  destruct (length v =? length w); auto. destruct (t =? 0); auto.
  destruct (jobs v w t) as [js|k] eqn:Ej; cbn [bind]; auto.
  pose proof (jobs_length _ _ _ _ Ej) as Hl. subst t.
  rewrite complete_perm by exact HP. cbn [bind].
  rewrite <- map_map with (f := work) (g := Some). rewrite join_all_somes. now rewrite fold_work_map.
Qed.

(* closed form for ANY arithmetic (floats included): the partial dot products of the slices, each summed from
   zero in index order, added from zero in spawn order -- a fixed reassociation of the sequential sum that
   depends on (length, t) only *)
Lemma fold_left_map_gen {X Y Z} (f : Z -> Y -> Z) (g : X -> Y) (l : list X) (z : Z) :
  fold_left f (map g l) z = fold_left (fun a x => f a (g x)) l z.
Proof. revert z; induction l as [|x t IH]; intros z; cbn; auto. Qed.

Lemma pardot_closed_form_lemma t (v w : list T) : 1 <= t -> length v = length w ->
  pardot t v w = Ok (fold_left (fun acc i => acc + dot_raw (slice_of v t i) (slice_of w t i)) (seq 0 t) zero).
Proof.
  intros Ht Hl. unfold pardot. rewrite Hl, Nat.eqb_refl.
  destruct (Nat.eqb_spec t 0); [lia|].
  rewrite jobs_ok by auto. cbn [bind]. f_equal.
  rewrite fold_left_map_gen. reflexivity.
Qed.

End Jobs.

(* ------------------------------------------------------------------ exactness over a ring *)
Section Ring.
Local Open Scope arith_scope.
Context {A : Arith}.
Hypothesis RL : RingLaws A.
Notation T := (T A).
Add Ring ARing : (rl_ring A RL).

Definition dot_from (z : T) (u w : list T) : T :=
  fold_left (fun acc p => acc + fst p * snd p) (combine u w) z.

Lemma dot_from_shift z (u w : list T) : dot_from z u w = z + dot_raw u w.
Proof.
  unfold dot_raw, dot_from. generalize (combine u w) as l. intros l.
  revert z. induction l as [|p t IH]; intros z; cbn.
  - ring.
  - rewrite IH. rewrite (IH (zero + fst p * snd p)). ring.
Qed.

Lemma dot_raw_app (u1 u2 w1 w2 : list T) : length u1 = length w1 ->
  dot_raw (u1 ++ u2) (w1 ++ w2) = dot_raw u1 w1 + dot_raw u2 w2.
Proof.
  intros H. unfold dot_raw at 1. rewrite combine_app_eq by exact H. rewrite fold_left_app.
  change (dot_from (dot_raw u1 w1) u2 w2 = dot_raw u1 w1 + dot_raw u2 w2).
  apply dot_from_shift.
Qed.

Lemma fold_work_concat (js : list (list T * list T)) z :
  Forall (fun j => length (fst j) = length (snd j)) js ->
  fold_left (fun acc j => acc + work j) js z
  = z + dot_raw (concat (map fst js)) (concat (map snd js)).
Proof.
  intros HF; revert z; induction HF as [|j t Hj HF IH]; intros z; cbn [fold_left map concat].
  - unfold dot_raw; cbn. ring.
  - rewrite IH. rewrite dot_raw_app by exact Hj. unfold work. ring.
Qed.

Lemma pardot_exact_lemma t (v w : list T) : 1 <= t -> length v = length w ->
  pardot t v w = dot v w.
Proof.
  intros Ht Hl. unfold pardot, dot. rewrite Hl, Nat.eqb_refl.
  destruct (Nat.eqb_spec t 0); [lia|].
  rewrite jobs_ok by auto. cbn [bind]. f_equal.
  rewrite fold_work_concat.
  - rewrite !map_map. cbn [fst snd].
    rewrite <- !slices_map. rewrite !slices_concat by exact Ht. ring.
  - apply Forall_forall. intros j Hj. apply in_map_iff in Hj as (i & <- & _). cbn [fst snd].
    now apply slice_of_length_eq.
Qed.

End Ring.
