(* Proofs/VectorCx2F.v -- C15, package cnorm: "match their definitions exactly on exactly-representable data" for the
   norms of COMPLEX vectors at the float instance (IEEE binary64 = Coq's primitive floats, through Flocq).
   Data: Gaussian integers z = a + b i whose modulus is an integer m (a^2 + b^2 = m^2, m^2 < 2^53), e.g. 3 + 4i, -5, 12i - 5.
   Then, with NO rounding anywhere (the squares, their sum, the correctly rounded square root of a perfect square,
   the comparisons and the running sum are all exact):
     cnorm_inf at SAF  returns exactly  max m_i ;
     norm_1   at ACF  returns exactly  (sum m_i, +0)   as long as the sum stays below 2^53.
   Tools: the "holds the integer z" invariants ExactW / Exact of Proofs/ParDotFloat.v. *)
From Coq Require Import ZArith Reals Floats Lia Lra List Bool Arith.
From Flocq Require Import Core.Core IEEE754.BinarySingleNaN IEEE754.PrimFloat.
From OV Require Import Base.Panic Base.Arith Model.Complex Model.Vector Model.ParDot Proofs.ParDot Proofs.ParDotFloat Proofs.VectorFloat
                       Proofs.VectorFloat2 Inst.FloatInst.
Import ListNotations.
Local Open Scope Z_scope.

Notation HP := Flocq.IEEE754.PrimFloat.Hprec.
Notation HM := Flocq.IEEE754.PrimFloat.Hmax.

(* the correctly rounded square root of a perfect square is its root *)
Lemma ExactW_sqrt x m : ExactW x (m * m) -> 0 <= m -> m < 2 ^ 53 -> ExactW (PrimFloat.sqrt x) m.
Proof.
  intros [Fx Rx] Hm Hb. unfold ExactW. rewrite sqrt_equiv.
  destruct (Bsqrt_correct prec emax HP HM mode_NE (Prim2B x)) as (H1 & H2 & _).
  rewrite Rx, mult_IZR, sqrt_square in H1 by (apply IZR_le; lia).
  rewrite round_int in H1 by lia.
  split; [|exact H1]. rewrite H2.
  destruct (Prim2B x) as [s|s| |s mm e B]; simpl in *; try discriminate; auto.
  destruct s; auto. exfalso.
  assert (IZR (m * m) < 0)%R by (rewrite <- Rx; now apply F2R_lt_0).
  assert (0 <= IZR (m * m))%R by (apply IZR_le, Z.square_nonneg). lra.
Qed.

(* z holds a Gaussian integer of integer modulus m *)
Definition GaussExact (z : cplx AF) (m : Z) : Prop :=
  exists a b, ExactW (re z) a /\ ExactW (im z) b /\ a * a + b * b = m * m /\ 0 <= m /\ m * m < 2 ^ 53.

(* Complex<f64>::abs = sqrt(re*re + im*im) is exact on such data *)
Lemma cabs_exact (z : cplx AF) m : GaussExact z m -> ExactW (@Complex.cabs SAF z) m.
Proof.
  intros (a & b & Ha & Hb & E & Hm & Hlt).
  assert (Haa : 0 <= a * a) by apply Z.square_nonneg. assert (Hbb : 0 <= b * b) by apply Z.square_nonneg.
  unfold Complex.cabs, abs_sqr. cbn [Base.Arith.sqrt SAF SA add mul AF].
  apply ExactW_sqrt; [|exact Hm|nia].
  rewrite <- E. apply ExactW_add; [apply ExactW_mul; auto; lia|apply ExactW_mul; auto; lia|lia].
Qed.

Lemma GaussExact_bound z m : GaussExact z m -> 0 <= m < 2 ^ 53.
Proof. intros (a & b & _ & _ & _ & Hm & Hlt). split; [exact Hm|nia]. Qed.

(* ---------------------------------------------------------------- norm_inf *)
Definition zmaxl (m0 : Z) (ms : list Z) : Z := fold_left Z.max ms m0.

Lemma ltb_exact r y a b : ExactW r a -> ExactW y b -> PrimFloat.ltb r y = (a <? b).
Proof.
  intros [Fr Rr] [Fy Ry]. rewrite ltb_equiv, (Bltb_correct prec emax _ _ Fr Fy), Rr, Ry.
  destruct (Rlt_bool_spec (IZR a) (IZR b)) as [H|H].
  - apply lt_IZR in H. symmetry. now apply Z.ltb_lt.
  - apply le_IZR in H. symmetry. apply Z.ltb_ge. lia.
Qed.

Lemma cnorm_inf_fold_exact (t : list (cplx AF)) (ms : list Z) r m0 :
  Forall2 GaussExact t ms -> ExactW r m0 ->
  ExactW (fold_left (fun r z => if @ltb SAF r (@Vector.cabs SAF z) then @Vector.cabs SAF z else r) t r) (zmaxl m0 ms).
Proof.
  intros Ht. revert r m0. induction Ht as [|z m t ms Hz Ht IH]; intros r m0 Hr; cbn [fold_left zmaxl]; [exact Hr|].
  unfold zmaxl in *. cbn [fold_left]. apply IH.
  pose proof (cabs_exact z m Hz) as Hc. change (@Vector.cabs SAF z) with (@Complex.cabs SAF z).
  change (@ltb SAF r (@Complex.cabs SAF z)) with (PrimFloat.ltb r (@Complex.cabs SAF z)).
  rewrite (ltb_exact _ _ _ _ Hr Hc).
  destruct (Z.ltb_spec m0 m).
  - rewrite Z.max_r by lia. exact Hc.
  - rewrite Z.max_l by lia. exact Hr.
Qed.

Lemma cnorm_inf_exact_float_lemma (z0 : cplx AF) (t : list (cplx AF)) (m0 : Z) (ms : list Z) :
  GaussExact z0 m0 -> Forall2 GaussExact t ms ->
  exists r, cnorm_inf (F := SAF) (z0 :: t) = Ok r /\ ExactW r (zmaxl m0 ms).
Proof.
  intros H0 Ht. unfold cnorm_inf. cbn [rd nth_error bind skipn]. eexists; split; [reflexivity|].
  apply cnorm_inf_fold_exact; [exact Ht|]. exact (cabs_exact z0 m0 H0).
Qed.

(* the value is the largest modulus *)
Lemma zmaxl_spec m0 ms : (In (zmaxl m0 ms) (m0 :: ms)) /\ (forall m, In m (m0 :: ms) -> m <= zmaxl m0 ms).
Proof.
  unfold zmaxl. revert m0; induction ms as [|m ms IH]; intros m0; cbn [fold_left].
  - split; [now left|]. intros m [<-|[]]. lia.
  - destruct (IH (Z.max m0 m)) as [I1 I2]. split.
    + destruct I1 as [E|I1]; [|right; now right]. rewrite <- E.
      destruct (Z.max_spec m0 m) as [[_ ->]|[_ ->]]; [right; now left|now left].
    + intros k [E|[E|Hk]].
      * specialize (I2 (Z.max m0 m) (or_introl eq_refl)). lia.
      * specialize (I2 (Z.max m0 m) (or_introl eq_refl)). lia.
      * apply I2. now right.
Qed.

(* ---------------------------------------------------------------- norm_1 at the complex float instance *)
Lemma cnorm1_fold_exact (v : list (cplx AF)) (ms : list Z) (acc : cplx AF) a :
  Forall2 GaussExact v ms -> Exact (re acc) a -> im acc = 0%float -> 0 <= a -> a + zsuml ms < 2 ^ 53 ->
  Exact (re (fold_left (fun (s : ACF) (x : ACF) => @add ACF s (@abs ACF x)) v acc)) (a + zsuml ms) /\
  im (fold_left (fun (s : ACF) (x : ACF) => @add ACF s (@abs ACF x)) v acc) = 0%float.
Proof.
  intros Hv. revert acc a. induction Hv as [|z m v ms Hz Hv IH]; intros acc a Ha Hi Ha0 Hb; cbn [fold_left zsuml] in *.
  - rewrite Z.add_0_r. split; assumption.
  - pose proof (GaussExact_bound z m Hz) as Bm.
    assert (Hms : 0 <= zsuml ms).
    { clear -Hv. induction Hv as [|z' m' v' ms' Hz' _ IH']; cbn [zsuml]; [lia|].
      pose proof (GaussExact_bound z' m' Hz'). lia. }
    replace (a + (m + zsuml ms)) with (a + m + zsuml ms) by lia.
    apply IH; try lia.
    + cbn [Base.Arith.add Base.Arith.abs ACF CArith cadd re im].
      apply Exact_add; [exact Ha|exact (cabs_exact z m Hz)|lia].
    + cbn [Base.Arith.add Base.Arith.abs ACF CArith cadd re im zero AF SA SAF]. rewrite Hi. reflexivity.
Qed.

Lemma cnorm1_exact_float_lemma (v : list (cplx AF)) (ms : list Z) :
  Forall2 GaussExact v ms -> zsuml ms < 2 ^ 53 ->
  ExactW (re (norm_1 (A := ACF) v)) (zsuml ms) /\ im (norm_1 (A := ACF) v) = 0%float.
Proof.
  intros Hv Hb. unfold norm_1.
  destruct (cnorm1_fold_exact v ms (@zero ACF) 0 Hv Exact_zero eq_refl ltac:(lia) ltac:(lia)) as [H1 H2].
  split; [exact (proj1 H1)|exact H2].
Qed.

(* a concrete instance: [3+4i; -5; 12i-5] has moduli 5, 5, 13 *)
Definition exc_v : list (cplx AF) := [@mkC AF 3%float 4%float; @mkC AF (-5)%float 0%float; @mkC AF (-5)%float 12%float].
Definition exc_m : list Z := [5; 5; 13].
Lemma exc_exact : Forall2 GaussExact exc_v exc_m.
Proof.
  repeat constructor.
  - exists 3, 4. split; [cbn [re]; exactw|]. split; [cbn [im]; exactw|]. lia.
  - exists (-5), 0. split; [cbn [re]; exactw|]. split; [cbn [im]; exactw|]. lia.
  - exists (-5), 12. split; [cbn [re]; exactw|]. split; [cbn [im]; exactw|]. lia.
Qed.
