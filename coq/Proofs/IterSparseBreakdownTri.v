(* Proofs/IterSparseBreakdownTri.v -- round two, package iter2: a syntactic class of inputs on which the
   Lanczos-type solvers break down, read off the matrix entries: if the LAST ROW of the matrix is
   (0, ..., 0, a) -- every upper triangular matrix -- then the last unit vector is a left eigenvector
   (A^T e_n = a e_n).  With a right-hand side supported on the last coordinate and the zero guess the initial
   residual is such a vector, and the theorems of Proofs/IterSparseBreakdownField.v / ...QMR.v apply:
   QMR and BiCGSTAB stop after one step, BiCG divides 0 by 0.  Strict diagonal dominance does not help. *)
From Coq Require Import List Arith Lia Bool Ring Reals Lra.
From OV Require Import Base.Panic Base.Arith Model.Vector Model.Matrix Model.Sparse Model.Iter Proofs.SparseBase Proofs.SparseMul
  Proofs.Iter Proofs.IterField Proofs.IterR Proofs.IterSparse Proofs.IterSparseR Proofs.IterSparseBreakdown
  Proofs.IterSparseBreakdownField Proofs.IterSparseBreakdownQMR.
Import ListNotations.

Section LastRow.
Context {A : Arith}.
Variable RL : RingLaws A.
Notation T := (T A).
Add Ring Aring3 : (rl_ring A RL).

(* c * e_{n+1} in F^{n+1} *)
Definition last_unit (n : nat) (c : T) : list T := repeat zero n ++ [c].

Lemma last_unit_length n c : length (last_unit n c) = S n.
Proof. unfold last_unit. rewrite app_length, repeat_length. cbn. lia. Qed.

Lemma nth_last_unit n c i : nth i (last_unit n c) zero = if n =? i then c else zero.
Proof.
  unfold last_unit. destruct (Nat.lt_ge_cases i n) as [Hi|Hi].
  - rewrite app_nth1 by (now rewrite repeat_length). rewrite nth_repeat.
    destruct (Nat.eqb_spec n i); [lia | reflexivity].
  - rewrite app_nth2 by (rewrite repeat_length; lia). rewrite repeat_length.
    destruct (Nat.eqb_spec n i) as [->|Hne].
    + now rewrite Nat.sub_diag.
    + destruct (i - n) as [|[|k]] eqn:E; try lia; reflexivity.
Qed.

(* the transposed product picks the last row *)
Lemma dtmulv_last_unit (E : nat -> nat -> T) n c :
  (forall j, j < n -> E n j = zero) ->
  dtmulv E (S n) (S n) (last_unit n c) = vscale (last_unit n c) (E n n).
Proof.
  intros Hrow. apply (nth_ext _ _ zero zero).
  - unfold dtmulv, vscale. rewrite !map_length, seq_length. now rewrite last_unit_length.
  - unfold dtmulv at 1. rewrite map_length, seq_length. intros j Hj.
    unfold dtmulv. rewrite nth_map_seq by auto. rewrite (nth_vscale RL), nth_last_unit.
    rewrite (sum_n_ext _ _ (fun i => if n =? i then mul (E n j) c else zero)).
    + rewrite (sum_n_delta RL) by lia.
      destruct (Nat.eqb_spec n j) as [<-|Hne]; [ring|]. rewrite Hrow by lia. ring.
    + intros i Hi. rewrite nth_last_unit. destruct (Nat.eqb_spec n i) as [<-|Hne]; ring.
Qed.

(* A 0 = 0 *)
Lemma dmulv_zeros (E : nat -> nat -> T) r c : dmulv E r c (repeat zero c) = repeat zero r.
Proof.
  apply (nth_ext _ _ zero zero).
  - unfold dmulv. now rewrite map_length, seq_length, repeat_length.
  - unfold dmulv at 1. rewrite map_length, seq_length. intros i Hi.
    unfold dmulv. rewrite nth_map_seq by auto. rewrite nth_repeat.
    rewrite (sum_n_ext _ _ (fun _ => zero)); [apply (sum_n_zero RL)|].
    intros j Hj. rewrite nth_repeat. ring.
Qed.

Lemma zipw_sub_zeros (v : list T) : zipw sub v (repeat zero (length v)) = v.
Proof. induction v as [|x v IH]; [reflexivity|]. cbn. f_equal; [ring | exact IH]. Qed.

(* a storage whose last row is (0, ..., 0, a): b = c e_n, x0 = 0 gives a left-eigenvector start *)
Lemma last_row_start (s : sparse A) n c :
  sp_rows s = S n -> sp_cols s = S n -> (forall j, j < n -> sp_entry s n j = zero) ->
  let r0 := zipw sub (last_unit n c) (sp_apply s (repeat zero (S n))) in
  r0 = last_unit n c /\ sp_tapply s r0 = vscale r0 (sp_entry s n n).
Proof.
  intros Hr Hc Hrow. cbv zeta.
  assert (E0 : zipw sub (last_unit n c) (sp_apply s (repeat zero (S n))) = last_unit n c).
  { unfold sp_apply. rewrite Hr, Hc, dmulv_zeros. rewrite <- (last_unit_length n c). apply zipw_sub_zeros. }
  rewrite E0. split; [reflexivity|]. unfold sp_tapply. rewrite Hr, Hc. now apply dtmulv_last_unit.
Qed.
End LastRow.

(* any field: last row (0,...,0,a) (a arbitrary), b = c e_n, zero guess: BiCGSTAB never performs a second step *)
Theorem bicgstab_last_row_breakdown {A : SArith} (FL : FieldLaws (SA A)) (s : sparse (SA A)) n c max tol res x g :
  wfS s -> sp_rows s = S n -> sp_cols s = S n ->
  (forall j, j < n -> sp_entry s n j = zero) -> 2 <= max ->
  run_sparse BiCGSTAB s (last_unit n c) (repeat zero (S n)) max tol = Ok (res, x, g) ->
  res = IOk 0 \/ res = IOk 1 \/ (exists e, res = IErr e /\ (g_exit g = 10 \/ g_exit g = 11)).
Proof.
  intros Hwf Hr Hc Hrow Hmax H.
  destruct (last_row_start (FL_RingLaws FL) s n c Hr Hc Hrow) as (_ & Eeig).
  exact (bicgstab_left_eigenvector_breakdown_sparse FL s (last_unit n c) (repeat zero (S n)) (sp_entry s n n)
           max tol res x g Hwf Eeig Hmax H).
Qed.

Local Open Scope R_scope.

(* over R: last row (0,...,0,a), a <> 0; b = c e_n, c <> 0; zero guess: QMR performs exactly one step *)
Theorem qmr_last_row_breakdown (s : sparse AR) n (c : R) max tol :
  wfS s -> sp_rows s = S n -> sp_cols s = S n ->
  (forall j, (j < n)%nat -> @sp_entry AR s n j = 0) -> @sp_entry AR s n n <> 0 -> c <> 0 -> (2 <= max)%nat ->
  exists res x g, @run_sparse SAR QMR s (@last_unit AR n c) (repeat 0 (S n)) max tol = Ok (res, x, g) /\
    (res = IOk 0%nat \/ res = IOk 1%nat \/ (exists e, res = IErr e /\ (g_exit g = 20%nat \/ g_exit g = 21%nat))).
Proof.
  intros Hwf Hr Hc Hrow Ha Hcn Hmax.
  destruct (last_row_start AR_RingLaws s n c Hr Hc Hrow) as (E0 & Eeig).
  apply (qmr_left_eigenvector_breakdown_sparse s (@last_unit AR n c) (repeat 0 (S n)) (@sp_entry AR s n n) max tol); auto.
  - now rewrite Hr, Hc.
  - rewrite Hr. exact (@last_unit_length AR n c).
  - rewrite Hr. apply repeat_length.
  - intros H.
    assert (E0' : @zipw AR Rminus (@last_unit AR n c) (@sp_apply AR s (repeat 0 (S n))) = @last_unit AR n c) by exact E0.
    rewrite E0', Hr in H.
    pose proof (@nth_last_unit AR n c n) as E1. rewrite Nat.eqb_refl in E1.
    apply Hcn. rewrite <- E1. change (@zero AR) with 0. rewrite H. apply nth_repeat.
Qed.
