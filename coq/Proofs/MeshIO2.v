(* Proofs/MeshIO2.v -- Mesh1D::read (src/mesh1d.rs:98-122) on an arbitrary token stream made of
   complete lines of nvars+1 parsable tokens (not only one written by output): token i goes to
   node i / (nvars+1); slot 0 of a line is the coordinate, slot v+1 is variable v.
   The panic half: a token that does not parse makes read panic.
   And the index bijection of the Mesh2D storage  (i,j) <-> i*ny + j.
   No law on the arithmetic [A] is used. *)
From Coq Require Import List Arith Lia Bool.
From OV Require Import Base.Panic.
From OV Require Import Base.Arith.
From OV Require Import Model.Vector.
From OV Require Import Model.Matrix.
From OV Require Import Model.Mesh.
From OV Require Import Proofs.MeshBase.
From OV Require Import Proofs.MeshStore.
From OV Require Import Proofs.MeshIO.
Import ListNotations.

(* ================================================================== Mesh2D: flat index *)

(* (i,j) |-> i*ny + j is a bijection from [0,nx) x [0,ny) onto [0, nx*ny) *)
Lemma idx_bijection : forall nx ny,
  (forall i j, i < nx -> j < ny -> i * ny + j < nx * ny) /\
  (forall i j i' j', j < ny -> j' < ny -> i * ny + j = i' * ny + j' -> i = i' /\ j = j') /\
  (forall k, k < nx * ny -> exists i j, i < nx /\ j < ny /\ k = i * ny + j).
Proof.
  intros nx ny. split; [|split].
  - intros i j. apply idx_lt.
  - intros i j i' j'. apply idx_inj.
  - intros k Hk. assert (Hny : ny <> 0) by (intros ->; lia).
    exists (k / ny), (k mod ny). split; [|split].
    + apply Nat.div_lt_upper_bound; [exact Hny | lia].
    + now apply Nat.mod_upper_bound.
    + rewrite (Nat.div_mod k ny Hny) at 1. lia.
Qed.

(* every slot of the variable storage is the slot of exactly one node *)
Lemma mesh2_every_slot_is_a_node {A : Arith} {X : Type} (m : mesh2 A X) :
  wf2 m -> forall k, k < length (m2_vars m) ->
  exists i j, i < m2_nx m /\ j < m2_ny m /\ index2 m i j = rd (m2_vars m) k.
Proof.
  intros (_ & _ & Hlen & _) k Hk. rewrite Hlen in Hk.
  destruct (idx_bijection (m2_nx m) (m2_ny m)) as (_ & _ & Hsurj).
  destruct (Hsurj k Hk) as (i & j & Hi & Hj & ->).
  exists i, j. split; [exact Hi|]. split; [exact Hj|]. reflexivity.
Qed.

Lemma mesh2_slot_unique {A : Arith} {X : Type} (m : mesh2 A X) i j i' j' :
  j < m2_ny m -> j' < m2_ny m -> i * m2_ny m + j = i' * m2_ny m + j' -> i = i' /\ j = j'.
Proof. apply idx_inj. Qed.

(* ------------------------------------------------------------------ lists, loops *)
Lemma nth_map_seq {Y} (f : nat -> Y) n k d : k < n -> nth k (map f (seq 0 n)) d = f k.
Proof.
  intros Hk. rewrite (nth_indep _ d (f 0)) by (rewrite map_length, seq_length; exact Hk).
  rewrite map_nth, seq_nth by exact Hk. reflexivity.
Qed.

(* a loop one of whose iterations panics in every state panics *)
Lemma for_from_hits_panic {St} n lo (body : nat -> St -> res St) i s :
  lo <= i < lo + n -> (forall s, exists k, body i s = Panic k) ->
  exists k, for_from n lo body s = Panic k.
Proof.
  revert lo s; induction n as [|n IH]; intros lo s Hi Hbad; [lia|]. cbn [for_from].
  destruct (Nat.eq_dec lo i) as [->|Hne].
  - destruct (Hbad s) as (k & ->). exists k. reflexivity.
  - destruct (body lo s) as [s1|k]; cbn [bind]; [|now exists k].
    apply IH; [lia | exact Hbad].
Qed.

(* ================================================================== Mesh1D::read *)
Section Tokens.
Context {A : Arith}.
Variable tok : Type.
Variable parse : tok -> res A.

Notation mesh1 := (mesh1 A A).

(* ------------------------------------------------------------------ 1. the reader rebuilds any
   well-formed mesh m whose entries are what the tokens parse to *)
Section Gen.
Variable m : mesh1.
Variable toks : list tok.
Hypothesis Hwf : wf1 m.
Hypothesis Hlen : length toks = length (m1_nodes m) * (m1_nvars m + 1).
Hypothesis Hnode : forall k, k < length (m1_nodes m) ->
  exists t, nth_error toks (k * (m1_nvars m + 1) + 0) = Some t /\
            parse t = Ok (nth k (m1_nodes m) zero).
Hypothesis Hvar : forall k v, k < length (m1_nodes m) -> v < m1_nvars m ->
  exists t, nth_error toks (k * (m1_nvars m + 1) + S v) = Some t /\
            parse t = Ok (nth v (nth k (m1_vars m) []) zero).

Lemma tokens_nodes_loop :
  for_ 0 (length toks) (fun i nodes =>
    if i mod (m1_nvars m + 1) =? 0 then
      let* t := rd toks i in let* x := parse t in Ok (nodes ++ [x])
    else Ok nodes) [] = Ok (m1_nodes m).
Proof.
  rewrite Hlen. apply ex_eq_ok.
  destruct (for_blocks (fun k nodes => nodes = firstn k (m1_nodes m))
              (length (m1_nodes m)) (m1_nvars m + 1)
              (fun i nodes =>
                 if i mod (m1_nvars m + 1) =? 0 then
                   let* t := rd toks i in let* x := parse t in Ok (nodes ++ [x])
                 else Ok nodes) []) as (s' & E & H).
  - reflexivity.
  - intros k nodes Hk ->. unfold for_.
    replace (m1_nvars m + 1 - 0) with (S (m1_nvars m)) by lia.
    cbn [for_from]. rewrite mod_block by lia. cbn [Nat.eqb].
    destruct (Hnode k Hk) as (t & Et & Ep).
    unfold rd at 1. rewrite Et. cbn [bind]. rewrite Ep. cbn [bind].
    rewrite for_from_id.
    + eexists. split; [reflexivity|]. symmetry. now apply firstn_S_nth.
    + intros i s Hi. rewrite mod_block by lia.
      destruct i as [|i]; [lia|]. reflexivity.
  - exists s'. split; [exact E|]. rewrite H. now apply firstn_all.
Qed.

Lemma tokens_vars_body_tok k r (vs : list (list A)) :
  k < length (m1_nodes m) -> r < m1_nvars m + 1 ->
  read_vars_body tok parse (m1_nvars m) toks (k * (m1_nvars m + 1) + r) vs =
  match r with
  | 0 => Ok vs
  | S v => set_elem vs k v (nth v (nth k (m1_vars m) []) zero)
  end.
Proof.
  intros Hk Hr. unfold read_vars_body, for_. rewrite Nat.sub_0_r.
  rewrite mod_block, div_block by exact Hr.
  destruct r as [|v].
  - apply for_from_id. intros i s _. rewrite Nat.add_1_r. reflexivity.
  - rewrite (for_from_single _ _ _ v) by first
      [ lia
      | intros i s Hi Hne; destruct (Nat.eqb_spec (S v) (i + 1)) as [E|_]; [lia|reflexivity] ].
    rewrite Nat.add_1_r, Nat.eqb_refl.
    destruct (Hvar k v Hk) as (t & Et & Ep); [lia|].
    unfold rd. rewrite Et. cbn [bind]. rewrite Ep. reflexivity.
Qed.

Lemma tokens_vars_line k (vs : list (list A)) :
  k < length (m1_nodes m) -> k < length vs -> length (nth k vs []) = m1_nvars m ->
  for_ 0 (m1_nvars m + 1) (fun r =>
     read_vars_body tok parse (m1_nvars m) toks (k * (m1_nvars m + 1) + r)) vs =
  Ok (upd_list vs k (nth k (m1_vars m) [])).
Proof.
  intros Hk Hkv Hold. pose proof Hwf as [Hlenv Hall].
  set (rowm := nth k (m1_vars m) []). set (old := nth k vs []) in *.
  assert (Hrowm : length rowm = m1_nvars m).
  { unfold rowm. apply (Forall_nth_lt _ _ _ _ Hall). lia. }
  unfold for_. replace (m1_nvars m + 1 - 0) with (S (m1_nvars m)) by lia. cbn [for_from].
  rewrite tokens_vars_body_tok by first [assumption | lia]. cbn [bind].
  rewrite for_from_shift. apply ex_eq_ok.
  apply (for_from0_inv_post
           (fun v vs' => vs' = upd_list vs k (firstn v rowm ++ skipn v old))).
  - cbn [firstn skipn app]. unfold old. symmetry. apply upd_list_nth_id.
  - intros v s Hv ->. set (R := firstn v rowm ++ skipn v old).
    assert (HR : nth k (upd_list vs k R) [] = R).
    { rewrite nth_upd_list by exact Hkv. now rewrite Nat.eqb_refl. }
    assert (HlenR : length R = m1_nvars m) by (unfold R; rewrite splice_length; lia).
    cbn [Nat.add].
    rewrite tokens_vars_body_tok by first [assumption | lia].
    rewrite set_elem_ok.
    + eexists. split; [reflexivity|]. rewrite HR, upd_list_twice. f_equal.
      unfold R. apply splice_step; lia.
    + now rewrite upd_list_length.
    + rewrite HR. lia.
  - intros s ->. rewrite firstn_all2, skipn_all2 by lia. now rewrite app_nil_r.
Qed.

Lemma tokens_vars_loop (vs0 : list (list A)) :
  length vs0 = length (m1_nodes m) -> Forall (fun r => length r = m1_nvars m) vs0 ->
  for_ 0 (length toks) (read_vars_body tok parse (m1_nvars m) toks) vs0 = Ok (m1_vars m).
Proof.
  intros Hlen0 Hall0. pose proof Hwf as [Hlenv Hall].
  rewrite Hlen. apply ex_eq_ok.
  destruct (for_blocks (fun k vs => vs = firstn k (m1_vars m) ++ skipn k vs0)
              (length (m1_nodes m)) (m1_nvars m + 1)
              (read_vars_body tok parse (m1_nvars m) toks) vs0) as (s' & E & H).
  - reflexivity.
  - intros k vs Hk ->.
    rewrite tokens_vars_line.
    + eexists. split; [reflexivity|]. apply splice_step; lia.
    + exact Hk.
    + rewrite splice_length; lia.
    + rewrite nth_splice by lia. apply (Forall_nth_lt _ _ _ _ Hall0). lia.
  - exists s'. split; [exact E|]. rewrite H.
    rewrite firstn_all2, skipn_all2 by lia. apply app_nil_r.
Qed.

Lemma read1_tokens_gen (m0 : mesh1) :
  m1_nvars m0 = m1_nvars m ->
  Forall (fun r => length r = m1_nvars m0) (m1_vars m0) ->
  read1 tok parse m0 toks = Ok m.
Proof.
  intros Hnv Hall0. unfold read1. cbv zeta. rewrite Hnv in *.
  rewrite tokens_nodes_loop. cbn [bind].
  pose proof (tokens_vars_loop
    (resize_list (m1_vars m0) (length (m1_nodes m)) (repeat zero (m1_nvars m)))) as E.
  unfold read_vars_body in E. rewrite E.
  - cbn [bind]. destruct m; reflexivity.
  - apply resize_list_length.
  - apply Forall_resize_list; [exact Hall0 | apply repeat_length].
Qed.

End Gen.

(* ------------------------------------------------------------------ 2. the closed form:
   n complete lines of nvars+1 tokens, token i parsing to [val i] *)
Lemma read1_tokens_spec (m0 : mesh1) (toks : list tok) (n : nat) (val : nat -> A) :
  length toks = n * (m1_nvars m0 + 1) ->
  (forall i, i < length toks -> exists t, nth_error toks i = Some t /\ parse t = Ok (val i)) ->
  Forall (fun r => length r = m1_nvars m0) (m1_vars m0) ->
  read1 tok parse m0 toks =
  Ok (mkM1 (m1_nvars m0)
        (map (fun k => val (k * (m1_nvars m0 + 1))) (seq 0 n))
        (map (fun k => map (fun v => val (k * (m1_nvars m0 + 1) + S v)) (seq 0 (m1_nvars m0)))
             (seq 0 n))).
Proof.
  intros Hlen Hparse Hall0. set (nv := m1_nvars m0) in *.
  apply read1_tokens_gen; cbn [m1_nvars m1_nodes m1_vars]; rewrite ?map_length, ?seq_length.
  - split; cbn [m1_nvars m1_nodes m1_vars].
    + now rewrite !map_length.
    + apply Forall_forall. intros r Hr. apply in_map_iff in Hr as (k & <- & _).
      now rewrite map_length, seq_length.
  - exact Hlen.
  - intros k Hk. rewrite nth_map_seq by exact Hk.
    destruct (Hparse (k * (nv + 1) + 0)) as (t & Et & Ep).
    { rewrite Hlen. apply idx_lt; lia. }
    exists t. split; [exact Et|]. rewrite Ep. now rewrite Nat.add_0_r.
  - intros k v Hk Hv. rewrite (nth_map_seq _ n k) by exact Hk.
    rewrite nth_map_seq by exact Hv.
    apply Hparse. rewrite Hlen. apply idx_lt; lia.
  - reflexivity.
  - exact Hall0.
Qed.

Lemma read1_tokens_wf (m0 : mesh1) (toks : list tok) (n : nat) (val : nat -> A) :
  length toks = n * (m1_nvars m0 + 1) ->
  (forall i, i < length toks -> exists t, nth_error toks i = Some t /\ parse t = Ok (val i)) ->
  Forall (fun r => length r = m1_nvars m0) (m1_vars m0) ->
  exists m', read1 tok parse m0 toks = Ok m' /\ wf1 m' /\ m1_nvars m' = m1_nvars m0 /\
             length (m1_nodes m') = n.
Proof.
  intros Hlen Hparse Hall0. eexists. split; [now apply (read1_tokens_spec m0 toks n val)|].
  cbn [m1_nvars m1_nodes m1_vars]. split; [split|split]; cbn [m1_nvars m1_nodes m1_vars].
  - now rewrite !map_length.
  - apply Forall_forall. intros r Hr. apply in_map_iff in Hr as (k & <- & _).
    now rewrite map_length, seq_length.
  - reflexivity.
  - now rewrite map_length, seq_length.
Qed.

(* ------------------------------------------------------------------ 3. the panic half *)

(* a token that does not parse: read panics (whatever the other tokens, the target mesh and the
   number of tokens are) *)
Lemma read1_bad_token (m0 : mesh1) (toks : list tok) i t k :
  nth_error toks i = Some t -> parse t = Panic k ->
  exists k', read1 tok parse m0 toks = Panic k'.
Proof.
  intros Et Ep. assert (Hi : i < length toks) by (apply nth_error_Some; congruence).
  unfold read1. cbv zeta. set (nv := m1_nvars m0).
  assert (Hr : i mod (nv + 1) < nv + 1) by (apply Nat.mod_upper_bound; lia).
  destruct (Nat.eq_dec (i mod (nv + 1)) 0) as [E0|E0].
  - (* a node token: the first loop *)
    match goal with |- exists k', bind ?L _ = _ =>
      assert (HL : exists k', L = Panic k') end.
    { unfold for_. apply (for_from_hits_panic _ _ _ i); [lia|].
      intros s. exists k. rewrite E0. cbn [Nat.eqb]. unfold rd. rewrite Et. cbn [bind].
      now rewrite Ep. }
    destruct HL as (k' & ->). exists k'. reflexivity.
  - (* a variable token: the second loop, if the first one returns *)
    match goal with |- exists k', bind ?L _ = _ => destruct L as [nodes|k1] end;
      cbn [bind]; [|now exists k1].
    match goal with |- exists k', bind ?L _ = _ =>
      assert (HL : exists k', L = Panic k') end.
    { unfold for_ at 1. apply (for_from_hits_panic _ _ _ i); [lia|].
      intros s. exists k. unfold for_. rewrite Nat.sub_0_r.
      rewrite (for_from_single _ _ _ (i mod (nv + 1) - 1)).
      - replace (i mod (nv + 1) - 1 + 1) with (i mod (nv + 1)) by lia.
        rewrite Nat.eqb_refl. unfold rd. rewrite Et. cbn [bind]. now rewrite Ep.
      - lia.
      - intros v s1 Hv Hne.
        destruct (Nat.eqb_spec (i mod (nv + 1)) (v + 1)) as [E|_]; [lia|reflexivity]. }
    destruct HL as (k' & ->). exists k'. reflexivity.
Qed.

(* the first token that does not parse, when it is a coordinate: read panics with the panic
   of that parse (f64::from_str(..).unwrap(): Unwrap) *)
Lemma read1_bad_node_token (m0 : mesh1) (toks : list tok) i t k :
  nth_error toks i = Some t -> parse t = Panic k ->
  i mod (m1_nvars m0 + 1) = 0 ->
  (forall i', i' < i -> exists t' x, nth_error toks i' = Some t' /\ parse t' = Ok x) ->
  read1 tok parse m0 toks = Panic k.
Proof.
  intros Et Ep E0 Hbefore. assert (Hi : i < length toks) by (apply nth_error_Some; congruence).
  unfold read1. cbv zeta. set (nv := m1_nvars m0) in *.
  unfold for_ at 1. rewrite Nat.sub_0_r.
  replace (length toks) with (i + S (length toks - S i)) at 1 by lia.
  rewrite for_from_app.
  match goal with |- bind (bind ?L _) _ = _ =>
    assert (HL : exists s', L = Ok s' /\ True) end.
  { apply (for_from0_inv_post (fun _ _ => True)); [exact I| |auto].
    intros i' s Hi' _. destruct (Hbefore i' Hi') as (t' & x & Et' & Ep').
    destruct (i' mod (nv + 1) =? 0); [|eauto].
    unfold rd. rewrite Et'. cbn [bind]. rewrite Ep'. cbn [bind]. eauto. }
  destruct HL as (s' & -> & _). cbn [bind for_from Nat.add].
  rewrite E0. cbn [Nat.eqb]. unfold rd at 1. rewrite Et. cbn [bind]. rewrite Ep. reflexivity.
Qed.

(* in particular the first token of the file *)
Lemma read1_bad_first_token (m0 : mesh1) (toks : list tok) t k :
  nth_error toks 0 = Some t -> parse t = Panic k ->
  read1 tok parse m0 toks = Panic k.
Proof.
  intros Et Ep. apply (read1_bad_node_token m0 toks 0 t k Et Ep).
  - apply Nat.mod_0_l. lia.
  - intros i' Hi'. lia.
Qed.

End Tokens.
