(* Proofs/TridiagDet.v -- Tridiagonal::det is the three-term continuant recurrence
     K 0 = 1,  K 1 = main[0] * K 0,  K (j+2) = main[j+1] * K (j+1) - sub[j] * sup[j] * K j
   for every n >= 1 over ANY arithmetic (floats included: no algebraic law is used), and over an
   exact field it is the product of the Thomas pivots whenever no pivot vanishes. *)
From Coq Require Import List Arith Lia Bool Ring_theory Field_theory Ring Field.
From OV Require Import Base.Panic Base.Arith Model.Vector Model.Matrix Model.Tridiag Proofs.Tridiag Proofs.TridiagSolve.
Import ListNotations.

Section Det.
Context {A : Arith}.
Notation T := (T A).
Notation tridiag := (tridiag A).

(* (K k, K (k+1)) *)
Fixpoint cont_pair (t : tridiag) (k : nat) : T * T :=
  match k with
  | 0 => (one, (nth 0 (tmain t) zero * one)%A)
  | S k' => let p := cont_pair t k' in
            (snd p, (nth (S k') (tmain t) zero * snd p - nth k' (tsub t) zero * nth k' (tsup t) zero * fst p)%A)
  end.
Definition continuant (t : tridiag) (k : nat) : T := fst (cont_pair t k).

Lemma continuant_0 t : continuant t 0 = one.
Proof. reflexivity. Qed.
Lemma continuant_1 t : continuant t 1 = (nth 0 (tmain t) zero * one)%A.
Proof. reflexivity. Qed.
Lemma continuant_SS t k : continuant t (S (S k)) =
  (nth (S k) (tmain t) zero * continuant t (S k) - nth k (tsub t) zero * nth k (tsup t) zero * continuant t k)%A.
Proof. reflexivity. Qed.

Lemma tdet_continuant (t : tridiag) : wfT t -> 1 <= tn t -> tdet t = Ok (continuant t (tn t)).
Proof.
  intros (Hm & Hs & Hp) Hn. unfold tdet. set (n := tn t) in *.
  rewrite upd_ok by (rewrite repeat_length; lia). cbn [bind].
  rewrite (rd_ok (tmain t) 0 zero) by lia. cbn [bind].
  rewrite (rd_ok _ 0 zero) by (rewrite upd_list_length, repeat_length; lia). cbn [bind].
  rewrite nth_upd_list by (rewrite repeat_length; lia). cbn [Nat.eqb].
  rewrite upd_ok by (rewrite upd_list_length, repeat_length; lia). cbn [bind].
  pose (I := fun (j : nat) (f : list T) =>
    length f = n + 1 /\ forall k, k < j -> nth k f zero = continuant t k).
  destruct (for_inv I 2 (n + 1) (fun j f =>
              let* mj := rd (tmain t) (j - 1) in
              let* f1 := rd f (j - 1) in
              let* sb := rd (tsub t) (j - 2) in
              let* sp := rd (tsup t) (j - 2) in
              let* f2 := rd f (j - 2) in
              upd f j (mj * f1 - sb * sp * f2)%A)
            (upd_list (upd_list (repeat zero (n + 1)) 0 one) 1 (nth 0 (tmain t) zero * one)%A))
    as (f & Ef & Lf & Vf); [lia| | |].
  - unfold I. rewrite !upd_list_length, repeat_length. split; [reflexivity|].
    intros k Hk. rewrite !nth_upd_list by (rewrite ?upd_list_length, repeat_length; lia).
    destruct k as [|[|k]]; [reflexivity|reflexivity|lia].
  - intros j f Hj (Lf & Vf).
    rewrite (rd_ok (tmain t) (j - 1) zero) by lia. cbn [bind].
    rewrite (rd_ok f (j - 1) zero) by lia. cbn [bind].
    rewrite (rd_ok (tsub t) (j - 2) zero) by lia. cbn [bind].
    rewrite (rd_ok (tsup t) (j - 2) zero) by lia. cbn [bind].
    rewrite (rd_ok f (j - 2) zero) by lia. cbn [bind].
    rewrite upd_ok by lia. eexists; split; [reflexivity|].
    unfold I. rewrite upd_list_length. split; [exact Lf|].
    intros k Hk. rewrite nth_upd_list by lia.
    destruct (Nat.eqb_spec k j) as [E|NE]; [subst k|apply Vf; lia].
    rewrite !Vf by lia. destruct j as [|[|j]]; [lia|lia|].
    replace (S (S j) - 1) with (S j) by lia. replace (S (S j) - 2) with j by lia.
    now rewrite continuant_SS.
  - rewrite Ef. cbn [bind]. rewrite (rd_ok f n zero) by lia. f_equal. apply Vf. lia.
Qed.

Lemma tdet_continuant_lemma (t : tridiag) : wfT t -> 1 <= tn t ->
  tdet t = Ok (continuant t (tn t)) /\
  continuant t 0 = one /\
  continuant t 1 = (nth 0 (tmain t) zero * one)%A /\
  forall k, continuant t (S (S k)) =
    (nth (S k) (tmain t) zero * continuant t (S k) - nth k (tsub t) zero * nth k (tsup t) zero * continuant t k)%A.
Proof. intros W Hn. split; [exact (tdet_continuant t W Hn)|]. repeat split. Qed.

Fixpoint prod_n (n : nat) (f : nat -> T) : T :=
  match n with 0 => one | S n' => (prod_n n' f * f n')%A end.

End Det.

(* over an exact field: the continuant is the running product of the Thomas pivots *)
Section DetField.
Context {A : Arith}.
Variable FL : FieldLaws A.
Notation T := (T A).
Notation tridiag := (tridiag A).
Add Field Afield2 : (fl_field A FL).

Lemma continuant_pivots (t : tridiag) : wfT t -> forall k, k < tn t ->
  (forall i, i < k -> B FL t i <> zero) ->
  continuant t (S k) = (B FL t k * continuant t k)%A.
Proof.
  intros Wt k. pose proof Wt as (Hm & Hs & Hp).
  induction k as [|k IH]; intros Hk Nz.
  - rewrite continuant_1, continuant_0. reflexivity.
  - rewrite continuant_SS. rewrite IH by (try lia; intros; apply Nz; lia).
    cbn [B]. unfold cb. rewrite (sup_cc t Wt k) by lia. rewrite (sub_ca t k).
    field. apply Nz; lia.
Qed.

Lemma tdet_pivot_product (t : tridiag) : wfT t -> 1 <= tn t ->
  (forall k, k < tn t -> B FL t k <> zero) ->
  tdet t = Ok (prod_n (tn t) (B FL t)).
Proof.
  intros Wt Hn Nz. rewrite tdet_continuant by assumption. f_equal.
  assert (H : forall k, k <= tn t -> continuant t k = prod_n k (B FL t)).
  { induction k as [|k IH]; intros Hk; [reflexivity|].
    rewrite continuant_pivots by (try assumption; try lia; intros; apply Nz; lia).
    rewrite IH by lia. cbn [prod_n]. ring. }
  now apply H.
Qed.

(* stated with the model's own pivot function *)
Lemma tdet_pivots_lemma (t : tridiag) : wfT t -> 1 <= tn t ->
  (forall k, k < tn t -> exists p, thomas_pivot t k = Ok p /\ p <> zero) ->
  tdet t = Ok (prod_n (tn t) (fun k => match thomas_pivot t k with Ok p => p | Panic _ => zero end)).
Proof.
  intros Wt Hn Hp.
  assert (Nz : forall k, k < tn t -> B FL t k <> zero).
  { intros k. induction k as [k IH] using lt_wf_ind. intros Hk.
    destruct (Hp k Hk) as (p & E & NZ).
    rewrite (pivot_B FL t Wt k Hk) in E by (intros; apply IH; lia). injection E as <-. exact NZ. }
  rewrite (tdet_pivot_product t Wt Hn Nz). f_equal.
  assert (H : forall m, m <= tn t -> prod_n m (B FL t) =
              prod_n m (fun k => match thomas_pivot t k with Ok p => p | Panic _ => zero end)).
  { induction m as [|m IH]; intros Hm; [reflexivity|]. cbn [prod_n]. rewrite IH by lia.
    rewrite (pivot_B FL t Wt m) by (try lia; intros; apply Nz; lia). reflexivity. }
  now apply H.
Qed.

End DetField.
