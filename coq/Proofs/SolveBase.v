(* Proofs/SolveBase.v -- library for the proofs about Model/Solve.v (package c01):
   finite sums over a field, entries of well-formed flat matrices, specifications of
   mget / mset / swap_elem / swap_rows / vswap on them.  No property theorems here. *)
From Coq Require Import List Arith Lia Bool Ring Field.
From OV Require Import Base.Panic Base.Arith Model.Vector Model.Matrix Model.Solve Proofs.Matrix.
Import ListNotations.
Local Open Scope arith_scope.

(* what pivot selection by magnitude needs for *completeness* (MagLaws of Base/Arith.v is too weak:
   with ltb = const false it holds and no pivot is ever selected) *)
Record PivLaws (A : Arith) : Prop := {
  pl_abs0 : forall x : A, abs x = zero <-> x = zero;
  pl_pos : forall x : A, x <> zero -> ltb zero (abs x) = true;
  pl_nneg : forall x : A, ltb (abs x) zero = false;
}.

Section SolveBase.
Context {A : Arith}.
Variable FL : FieldLaws A.
Notation inv := (fl_inv A FL).

Lemma A_field : field_theory (@zero A) one add mul sub neg (fun x y => mul x (inv y)) inv eq.
Proof. exact (fl_field A FL). Qed.
Add Field AField : A_field.

(* ---------- entries and products ---------- *)
Definition ent (m : matrix A) (i j : nat) : A := nth (i * cols m + j) (buf m) zero.
Definition vnth (x : list A) (k : nat) : A := nth k x zero.
Definition mvprod (n : nat) (X : nat -> nat -> A) (v : nat -> A) (r : nat) : A :=
  sum_n n (fun k => X r k * v k).

(* ---------- sums ---------- *)
Lemma sum_n_zero n (f : nat -> A) : (forall k, (k < n)%nat -> f k = zero) -> sum_n n f = zero.
Proof.
  induction n as [|n IH]; cbn; intros H; auto.
  rewrite IH by (intros; apply H; lia). rewrite H by lia. ring.
Qed.

Lemma sum_n_add n (f g : nat -> A) : sum_n n (fun k => f k + g k) = sum_n n f + sum_n n g.
Proof. induction n as [|n IH]; cbn; [ring | rewrite IH; ring]. Qed.

Lemma sum_n_sub n (f g : nat -> A) : sum_n n (fun k => f k - g k) = sum_n n f - sum_n n g.
Proof. induction n as [|n IH]; cbn; [ring | rewrite IH; ring]. Qed.

Lemma sum_n_scale n c (f : nat -> A) : sum_n n (fun k => c * f k) = c * sum_n n f.
Proof. induction n as [|n IH]; cbn; [ring | rewrite IH; ring]. Qed.

Lemma sum_n_scale_r n c (f : nat -> A) : sum_n n (fun k => f k * c) = sum_n n f * c.
Proof. induction n as [|n IH]; cbn; [ring | rewrite IH; ring]. Qed.

Lemma sum_n_split a b (f : nat -> A) :
  sum_n (a + b) f = sum_n a f + sum_n b (fun t => f (a + t)%nat).
Proof.
  induction b as [|b IH]; cbn.
  - rewrite Nat.add_0_r. ring.
  - replace (a + S b)%nat with (S (a + b)) by lia. cbn. rewrite IH. ring.
Qed.

Lemma sum_n_swap n m (f : nat -> nat -> A) :
  sum_n n (fun i => sum_n m (fun j => f i j)) = sum_n m (fun j => sum_n n (fun i => f i j)).
Proof.
  induction n as [|n IH]; cbn.
  - symmetry. apply sum_n_zero; auto.
  - rewrite IH. rewrite <- sum_n_add. reflexivity.
Qed.

(* sum against a Kronecker delta *)
Lemma sum_n_delta n i (f : nat -> A) : (i < n)%nat ->
  sum_n n (fun k => (if (i =? k)%nat then one else zero) * f k) = f i.
Proof.
  induction n as [|n IH]; intros Hi; [lia|]. cbn.
  destruct (Nat.eq_dec i n) as [->|Hne].
  - rewrite Nat.eqb_refl. rewrite sum_n_zero.
    + ring.
    + intros k Hk. destruct (Nat.eqb_spec n k); [lia|]. ring.
  - rewrite IH by lia. destruct (Nat.eqb_spec i n); [lia|]. ring.
Qed.

(* only one term is non-zero *)
Lemma sum_n_single n i (f : nat -> A) : (i < n)%nat ->
  (forall k, (k < n)%nat -> k <> i -> f k = zero) -> sum_n n f = f i.
Proof.
  intros Hi H. replace n with (i + (1 + (n - i - 1)))%nat by lia.
  rewrite sum_n_split, (sum_n_split 1). cbn.
  rewrite sum_n_zero by (intros; apply H; lia).
  rewrite (sum_n_zero (n - i - 1)) by (intros; apply H; lia).
  rewrite Nat.add_0_r. ring.
Qed.

(* ---------- index arithmetic ---------- *)
Lemma idx_lt i j r c : (i < r -> j < c -> i * c + j < r * c)%nat.
Proof. intros. nia. Qed.

Lemma idx_inj i j i' j' c : (j < c -> j' < c -> i * c + j = i' * c + j' -> i = i' /\ j = j')%nat.
Proof.
  intros Hj Hj' E.
  assert (Ei : i = i').
  { apply (f_equal (fun x => x / c)%nat) in E.
    rewrite (Nat.add_comm (i * c) j), (Nat.add_comm (i' * c) j') in E.
    rewrite !Nat.div_add in E by lia.
    rewrite !Nat.div_small in E by lia. lia. }
  subst i'. split; auto. lia.
Qed.

(* ---------- mget / mset on well-formed matrices ---------- *)
Lemma mget_ok (m : matrix A) i j : wf m -> (i < rows m)%nat -> (j < cols m)%nat ->
  mget m i j = Ok (ent m i j).
Proof.
  intros W Hi Hj. unfold mget, ent. apply rd_ok. rewrite W. now apply idx_lt.
Qed.

Lemma mset_ok (m : matrix A) i j x : wf m -> (i < rows m)%nat -> (j < cols m)%nat ->
  exists m', mset m i j x = Ok m' /\ wf m' /\ rows m' = rows m /\ cols m' = cols m /\
    forall i' j', (i' < rows m)%nat -> (j' < cols m)%nat ->
      ent m' i' j' = if ((i' =? i) && (j' =? j))%nat then x else ent m i' j'.
Proof.
  intros W Hi Hj. unfold mset.
  assert (L : (i * cols m + j < length (buf m))%nat) by (rewrite W; now apply idx_lt).
  rewrite (upd_ok _ _ _ L). cbn.
  eexists; split; [reflexivity|]. unfold wf; cbn. rewrite upd_list_length.
  repeat split; auto.
  intros i' j' Hi' Hj'. unfold ent; cbn.
  rewrite nth_upd_list by exact L.
  destruct (Nat.eqb_spec (i' * cols m + j') (i * cols m + j)) as [E|NE].
  - apply idx_inj in E as [-> ->]; auto. now rewrite !Nat.eqb_refl.
  - destruct (Nat.eqb_spec i' i) as [->|]; cbn; auto.
    destruct (Nat.eqb_spec j' j) as [->|]; cbn; auto. congruence.
Qed.

(* ---------- swap_elem, swap_rows ---------- *)
Lemma swap_elem_ok (m : matrix A) r1 r2 c : wf m -> (r1 < rows m)%nat -> (r2 < rows m)%nat -> (c < cols m)%nat ->
  exists m', swap_elem m r1 c r2 c = Ok m' /\ wf m' /\ rows m' = rows m /\ cols m' = cols m /\
    forall i j, (i < rows m)%nat -> (j < cols m)%nat ->
      ent m' i j = if (j =? c)%nat then
                     (if (i =? r1)%nat then ent m r2 c else if (i =? r2)%nat then ent m r1 c else ent m i j)
                   else ent m i j.
Proof.
  intros W H1 H2 Hc. unfold swap_elem.
  rewrite !mget_ok by auto. cbn.
  destruct (mset_ok m r2 c (ent m r1 c) W H2 Hc) as (m1 & E1 & W1 & R1 & C1 & S1).
  rewrite E1; cbn.
  destruct (mset_ok m1 r1 c (ent m r2 c) W1) as (m2 & E2 & W2 & R2 & C2 & S2); try lia.
  rewrite E2. eexists; split; [reflexivity|].
  repeat split; try congruence.
  intros i j Hi Hj. rewrite S2 by lia. rewrite S1 by lia.
  destruct (Nat.eqb_spec j c) as [->|]; rewrite ?andb_false_r; auto.
  rewrite !andb_true_r.
  destruct (Nat.eqb_spec i r1) as [->|]; auto.
Qed.

Definition swp (p k i : nat) : nat := if (i =? p)%nat then k else if (i =? k)%nat then p else i.

Lemma swap_rows_ok (m : matrix A) p k : wf m -> (p < rows m)%nat -> (k < rows m)%nat ->
  exists m', swap_rows m p k = Ok m' /\ wf m' /\ rows m' = rows m /\ cols m' = cols m /\
    forall i j, (i < rows m)%nat -> (j < cols m)%nat -> ent m' i j = ent m (swp p k i) j.
Proof.
  intros W Hp Hk. unfold swap_rows.
  destruct (Nat.leb_spec (rows m) p); [lia|]. destruct (Nat.leb_spec (rows m) k); [lia|]. cbn.
  destruct (for_inv (fun j0 (m' : matrix A) => wf m' /\ rows m' = rows m /\ cols m' = cols m /\
              forall i j, (i < rows m)%nat -> (j < cols m)%nat ->
                ent m' i j = if (j <? j0)%nat then ent m (swp p k i) j else ent m i j)
            0%nat (cols m) (fun j m => swap_elem m p j k j) m) as (m' & E & W' & R' & C' & S').
  - lia.
  - repeat split; auto.
  - intros j0 m0 Hj0 (W0 & R0 & C0 & S0).
    destruct (swap_elem_ok m0 p k j0 W0) as (m1 & E1 & W1 & R1 & C1 & S1); try lia.
    exists m1; split; auto. repeat split; try congruence.
    intros i j Hi Hj. rewrite S1 by lia. rewrite !S0 by lia.
    destruct (Nat.eqb_spec j j0) as [->|NE].
    + destruct (Nat.ltb_spec j0 j0); [lia|]. destruct (Nat.ltb_spec j0 (S j0)); [|lia].
      unfold swp. destruct (Nat.eqb_spec i p) as [->|]; auto.
      destruct (Nat.eqb_spec i k) as [->|]; auto.
    + destruct (Nat.ltb_spec j j0); destruct (Nat.ltb_spec j (S j0)); auto; lia.
  - exists m'; split; auto. repeat split; auto.
    intros i j Hi Hj. rewrite S' by auto. destruct (Nat.ltb_spec j (cols m)); auto; lia.
Qed.

Lemma vswap_ok (x : list A) p k : (p < length x)%nat -> (k < length x)%nat ->
  exists x', vswap x p k = Ok x' /\ length x' = length x /\
    forall i, vnth x' i = vnth x (swp p k i).
Proof.
  intros Hp Hk. unfold vswap.
  rewrite (rd_ok x p zero Hp), (rd_ok x k zero Hk). cbn.
  rewrite (upd_ok x p _ Hp). cbn.
  rewrite upd_ok by (now rewrite upd_list_length).
  eexists; split; [reflexivity|]. rewrite !upd_list_length. split; auto.
  intros i. unfold vnth. rewrite nth_upd_list by (now rewrite upd_list_length).
  rewrite nth_upd_list by auto. unfold swp.
  destruct (Nat.eqb_spec i k) as [->|].
  - destruct (Nat.eqb_spec k p) as [->|]; auto.
  - destruct (Nat.eqb_spec i p) as [->|]; auto.
Qed.

Lemma swp_lt p k i n : (p < n -> k < n -> i < n -> swp p k i < n)%nat.
Proof. unfold swp; intros. destruct (i =? p)%nat; auto. destruct (i =? k)%nat; auto. Qed.

Lemma swp_invol p k i : swp p k (swp p k i) = i.
Proof.
  unfold swp. destruct (Nat.eqb_spec i p) as [->|N1].
  - destruct (Nat.eqb_spec k p) as [->|]; auto. now rewrite Nat.eqb_refl.
  - destruct (Nat.eqb_spec i k) as [->|N2].
    + now rewrite Nat.eqb_refl.
    + destruct (Nat.eqb_spec i p); [lia|]. destruct (Nat.eqb_spec i k); [lia|]. auto.
Qed.

End SolveBase.
