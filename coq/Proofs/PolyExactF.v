(* Proofs/PolyExactF.v -- C11 "all of this holds exactly for exactly-representable coefficients", at IEEE binary64.

   The one-operation facts of Proofs/PolyExact.v are discharged for Coq's primitive floats (= Flocq's binary64 through
   Flocq.IEEE754.PrimFloat): an operation on integer-valued floats whose exact integer result is smaller than 2^53 in
   absolute value does not round (Bplus/Bminus/Bmult_correct).  The relations, as in Proofs/ParDotFloat.v:
       ExactW x z : x is finite and its real value is the integer z          (a zero may be +0 or -0)
       Exact  x z : ... and x is not the negative zero                        (the bit pattern is determined by z)
   Then every model function of Model/Poly.v at the float instance AF returns the float images of what the SAME function
   returns over the integers (AZ), under explicit magnitude bounds on the inputs. *)
From Coq Require Import ZArith Reals Floats Lia Lra List Bool Arith.
From Flocq Require Import Core.Core IEEE754.BinarySingleNaN IEEE754.PrimFloat.
From OV Require Import Base.Panic Base.Arith Model.Poly Model.Complex Proofs.Poly Proofs.ParDotFloat
                       Proofs.VectorFloat2 Proofs.ComplexFloat Inst.FloatInst Proofs.PolyExact.
Import ListNotations.
Local Open Scope Z_scope.

(* ---------------------------------------------------------------- one operation *)
Lemma B2R_neg_sign (f : binary_float prec emax) : is_finite f = true -> Bsign f = true -> (B2R f <= 0)%R.
Proof.
  destruct f as [s|s| |s m e Bd]; simpl; intros F S; try discriminate; try lra.
  subst s. apply Rlt_le. now apply F2R_lt_0.
Qed.

Lemma B2R_pos_sign (f : binary_float prec emax) : is_finite f = true -> Bsign f = false -> (0 <= B2R f)%R.
Proof.
  destruct f as [s|s| |s m e Bd]; simpl; intros F S; try discriminate; try lra.
  subst s. apply Rlt_le. now apply F2R_gt_0.
Qed.

(* adding a zero (of either sign) is exact whatever the size of the other operand *)
Lemma ExactW_add0_l x y b : ExactW x 0 -> ExactW y b -> ExactW (x + y)%float b.
Proof.
  intros [Fx Rx] [Fy Ry]. unfold ExactW. rewrite add_equiv.
  pose proof (Bplus_correct prec emax HP HM mode_NE (Prim2B x) (Prim2B y) Fx Fy) as H.
  rewrite Rx, Rplus_0_l in H.
  rewrite round_generic in H; [|apply valid_rnd_N|apply generic_format_B2R].
  rewrite Rlt_bool_true in H by apply abs_B2R_lt_emax.
  destruct H as (H1 & H2 & _). rewrite H1, H2. auto.
Qed.

Lemma Exact_add0_l x y b : Exact x 0 -> ExactW y b -> Exact (x + y)%float (0 + b).
Proof.
  intros [[Fx Rx] Sx] [Fy Ry]. split; [apply ExactW_add0_l; split; auto|].
  intros Hb. cbn in Hb. subst b. rewrite add_equiv.
  pose proof (Bplus_correct prec emax HP HM mode_NE (Prim2B x) (Prim2B y) Fx Fy) as H.
  rewrite Rx, Ry, Rplus_0_l, round_0 in H by apply valid_rnd_N.
  rewrite Rabs_R0, Rlt_bool_true in H by apply bpow_gt_0.
  destruct H as (_ & _ & H3). rewrite H3, Rcompare_Eq by reflexivity. now rewrite Sx.
Qed.

Lemma Exact_add_r x y a b : ExactW x a -> Exact y b -> Z.abs (a + b) < 2 ^ 53 -> Exact (x + y)%float (a + b).
Proof. intros Hx Hy Hb. rewrite float_add_comm, Z.add_comm. apply Exact_add; auto. now rewrite Z.add_comm. Qed.

Lemma Exact_add0_r x y b : ExactW x 0 -> Exact y b -> Exact (x + y)%float (0 + b).
Proof.
  intros Hx [Hy Sy]. split; [apply ExactW_add0_l; auto|].
  intros Hb. cbn in Hb. subst b. destruct Hx as [Fx Rx], Hy as [Fy Ry]. rewrite add_equiv.
  pose proof (Bplus_correct prec emax HP HM mode_NE (Prim2B x) (Prim2B y) Fx Fy) as H.
  rewrite Rx, Ry, Rplus_0_l, round_0 in H by apply valid_rnd_N.
  rewrite Rabs_R0, Rlt_bool_true in H by apply bpow_gt_0.
  destruct H as (_ & _ & H3). rewrite H3, Rcompare_Eq by reflexivity. rewrite (Sy eq_refl). apply andb_false_r.
Qed.

Lemma Exact_sub x y a b : Exact x a -> ExactW y b -> Z.abs (a - b) < 2 ^ 53 -> Exact (x - y)%float (a - b).
Proof.
  intros [[Fx Rx] Sx] [Fy Ry] Hb. split; [apply ExactW_sub; auto; split; auto|].
  intros Hz. rewrite sub_equiv.
  pose proof (Bminus_correct prec emax HP HM mode_NE (Prim2B x) (Prim2B y) Fx Fy) as H.
  rewrite Rx, Ry, <- minus_IZR, round_int in H by exact Hb.
  rewrite Rlt_bool_true in H by now apply int_lt_emax.
  destruct H as (_ & _ & H3). rewrite H3, Hz, Rcompare_Eq by reflexivity.
  destruct (Bsign (Prim2B x)) eqn:Sg; [|reflexivity].
  destruct (Bsign (Prim2B y)) eqn:Sy; [reflexivity|]. exfalso.
  (* x negative-signed: a <= 0, and a <> 0 as x is not -0; y positive-signed: b >= 0; but a = b *)
  assert (Ha : a <= 0) by (apply le_IZR; rewrite <- Rx; now apply B2R_neg_sign).
  assert (Hb' : 0 <= b) by (apply le_IZR; rewrite <- Ry; now apply B2R_pos_sign).
  assert (a = 0) by lia. discriminate (Sx H).
Qed.

(* a nonzero integer has one float image; a zero has two *)
Lemma ExactW_unique_nz x y z : ExactW x z -> ExactW y z -> z <> 0 -> x = y.
Proof.
  intros Hx Hy Hz. apply (Exact_unique x y z); split; auto; intros; contradiction.
Qed.

(* the comparison of the code (PartialEq of f64) does not see the sign of a zero *)
Lemma ExactW_eqb x y a b : ExactW x a -> ExactW y b -> PrimFloat.eqb x y = (a =? b).
Proof.
  intros [Fx Rx] [Fy Ry]. rewrite eqb_equiv, (Beqb_correct prec emax _ _ Fx Fy), Rx, Ry.
  destruct (Z.eqb_spec a b) as [->|Hn].
  - now apply Req_bool_true.
  - apply Req_bool_false. intros E. apply eq_IZR in E. contradiction.
Qed.

(* exact division: the divisor divides *)
Lemma ExactW_div x y a b c : ExactW x a -> ExactW y b -> b <> 0 -> a = b * c -> Z.abs c < 2 ^ 53 ->
  ExactW (x / y)%float c.
Proof.
  intros [Fx Rx] [Fy Ry] Hb Ha Hc. unfold ExactW. rewrite div_equiv.
  assert (Hy : B2R (Prim2B y) <> 0%R) by (rewrite Ry; intros E; apply eq_IZR in E; contradiction).
  pose proof (Bdiv_correct prec emax HP HM mode_NE (Prim2B x) (Prim2B y) Hy) as H.
  assert (Eq : (B2R (Prim2B x) / B2R (Prim2B y))%R = IZR c).
  { rewrite Rx, Ry, Ha, mult_IZR. field. rewrite <- Ry. exact Hy. }
  rewrite Eq, round_int in H by exact Hc.
  rewrite Rlt_bool_true in H by now apply int_lt_emax.
  destruct H as (H1 & H2 & _). rewrite H1, H2. auto.
Qed.

(* ---------------------------------------------------------------- the two instances of the generic transfer *)
Lemma EL_strong : ExactLaws (FA := AF) (ZA := AZ) ExactW Exact Z.abs.
Proof.
  constructor.
  - exact AZ_ring.
  - intros; apply Z.abs_nonneg.
  - intros a H. cbn. lia.
  - reflexivity.
  - intros; apply Z.abs_triangle.
  - intros a b; cbn. rewrite Z.abs_mul. lia.
  - intros x a [H _]; exact H.
  - exact Exact_zero.
  - intros x y a b Hx Hy Hb. now apply Exact_add.
  - intros x y a b Hx Hy Hb. now apply Exact_add_r.
  - intros x y a b Hx -> Hy. now apply Exact_add0_l.
  - intros x y a b Hx -> Hy. now apply Exact_add0_r.
  - intros x y a b Hx Hy Hb. now apply Exact_sub.
  - intros x a Hx. now apply ExactW_opp.
  - intros x y a b Hx Hy Hb. apply ExactW_mul; auto. now rewrite Z.abs_mul.
Qed.

Lemma EL_weak : ExactLaws (FA := AF) (ZA := AZ) ExactW ExactW Z.abs.
Proof.
  constructor.
  - exact AZ_ring.
  - intros; apply Z.abs_nonneg.
  - intros a H. cbn. lia.
  - reflexivity.
  - intros; apply Z.abs_triangle.
  - intros a b; cbn. rewrite Z.abs_mul. lia.
  - auto.
  - exact (proj1 Exact_zero).
  - intros x y a b Hx Hy Hb. now apply ExactW_add.
  - intros x y a b Hx Hy Hb. now apply ExactW_add.
  - intros x y a b Hx -> Hy. now apply ExactW_add0_l.
  - intros x y a b Hx -> Hy. now apply ExactW_add0_l.
  - intros x y a b Hx Hy Hb. now apply ExactW_sub.
  - intros x a Hx. now apply ExactW_opp.
  - intros x y a b Hx Hy Hb. apply ExactW_mul; auto. now rewrite Z.abs_mul.
Qed.

(* ---------------------------------------------------------------- the integer side, computed *)
Lemma AZ_add_times n : forall a acc : Z, add_times (A := AZ) n a acc = acc + Z.of_nat n * a.
Proof. induction n as [|n IH]; intros a acc; cbn [add_times]; [lia|].
  rewrite IH. change (@add AZ acc a) with (acc + a). rewrite Nat2Z.inj_succ. lia. Qed.

Lemma AZ_pderiv_nth (zs dz : list Z) i : pderiv (A := AZ) zs = Ok dz -> (S i < length zs)%nat ->
  nth i dz 0 = Z.of_nat (S i) * nth (S i) zs 0.
Proof.
  destruct zs as [|a0 t]; [discriminate|]. intros E Hi. injection E as <-. cbn [length] in Hi.
  rewrite (nth_map_seq _ (length t) i 0) by lia. rewrite AZ_add_times, Nat.add_1_r. cbn [nth]. cbn. lia.
Qed.

Notation fitsZ := (fun c : Z => Z.abs c < 2 ^ 53).

Lemma deriv_fits_of_result (zs dz : list Z) : pderiv (A := AZ) zs = Ok dz -> Forall fitsZ dz ->
  deriv_fits (ZA := AZ) Z.abs zs.
Proof.
  intros E Hf i Hi. change (@length (T AZ)) with (@length Z) in Hi. pose proof (AZ_pderiv_nth zs dz i E Hi) as En.
  pose proof (pderiv_length (A := AZ) zs dz E) as Ld. change (@length (T AZ)) with (@length Z) in Ld.
  rewrite Forall_forall in Hf. specialize (Hf (nth i dz 0) ltac:(apply nth_In; lia)). cbv beta in Hf.
  rewrite En in Hf. change (@zero AZ) with 0. rewrite Z.abs_mul in Hf.
  rewrite (Z.abs_eq (Z.of_nat (S i))) in Hf by lia. exact Hf.
Qed.

Lemma deriv_n_fits_of_results n : forall zs : list Z,
  (forall k dz, (1 <= k <= n)%nat -> pderiv_n (A := AZ) zs k = Ok dz -> Forall fitsZ dz) ->
  deriv_n_fits (ZA := AZ) Z.abs zs n.
Proof.
  induction n as [|n IH]; intros zs H; cbn [deriv_n_fits]; [exact I|].
  split.
  - destruct zs as [|a0 t]; [intros i Hi; cbn in Hi; lia|].
    destruct (pderiv_ok (A := AZ) (a0 :: t) ltac:(discriminate)) as (dz & E & _).
    apply (deriv_fits_of_result _ dz E). apply (H 1%nat dz ltac:(lia)). cbn [pderiv_n]. rewrite E. reflexivity.
  - intros dz E. apply IH. intros k dk Hk Ek. apply (H (S k) dk ltac:(lia)). cbn [pderiv_n]. rewrite E. exact Ek.
Qed.

Lemma habs_horner (zs : list Z) (xz : Z) : zs <> [] ->
  habs (ZA := AZ) Z.abs zs xz = horner (A := AZ) (map Z.abs zs) (Z.abs xz).
Proof.
  intros Nz. pose proof (habs_peval (ZA := AZ) Z.abs zs xz Nz) as E.
  rewrite (peval_horner AZ_ring) in E by (destruct zs; [congruence|discriminate]). now injection E.
Qed.

Lemma nconv_of_pmul (zs ws : list Z) :
  Forall (fun c => c < 2 ^ 53) (pmul (A := AZ) (map Z.abs zs) (map Z.abs ws)) -> conv_fits (ZA := AZ) Z.abs zs ws.
Proof.
  intros H Nz Nw k Hk. destruct zs as [|a0 zs']; [now elim Nz|]. destruct ws as [|b0 ws']; [now elim Nw|].
  cbn [map] in H. unfold pmul in H. rewrite <- !(map_cons Z.abs), !map_length in H.
  change (@length (T AZ)) with (@length Z) in *.
  exact (Forall_map_seq _ _ _ _ H k ltac:(lia)).
Qed.

(* ---------------------------------------------------------------- item 1: the operations *)
Section Ops.
Variables (p q : list PrimFloat.float) (zs ws : list Z).
Hypothesis Hp : Forall2 ExactW p zs.
Hypothesis Hq : Forall2 ExactW q ws.

Lemma padd_exact_float_lemma : Forall fitsZ (padd (A := AZ) zs ws) ->
  Forall2 ExactW (padd (A := AF) p q) (padd (A := AZ) zs ws).
Proof. exact (gen_padd_w _ _ _ EL_weak p q zs ws Hp Hq). Qed.

Lemma psub_exact_float_lemma : Forall fitsZ (psub (A := AZ) zs ws) ->
  Forall2 ExactW (psub (A := AF) p q) (psub (A := AZ) zs ws).
Proof. exact (gen_psub_w _ _ _ EL_weak p q zs ws Hp Hq). Qed.

Lemma pneg_exact_float_lemma : Forall2 ExactW (pneg (A := AF) p) (pneg (A := AZ) zs).
Proof. exact (gen_pneg _ _ _ EL_weak p zs Hp). Qed.

Lemma pscale_exact_float_lemma s sz : ExactW s sz -> Forall fitsZ (pscale (A := AZ) zs sz) ->
  Forall2 ExactW (pscale (A := AF) p s) (pscale (A := AZ) zs sz).
Proof.
  intros Hs Hb. apply (gen_pscale _ _ _ EL_weak p zs s sz Hp Hs).
  unfold pscale in Hb. rewrite Forall_map in Hb. eapply Forall_impl; [|exact Hb].
  intros a Ha. cbv beta in Ha. cbn in Ha. rewrite Z.abs_mul in Ha. exact Ha.
Qed.

Lemma pmul_exact_float_lemma : Forall (fun c => c < 2 ^ 53) (pmul (A := AZ) (map Z.abs zs) (map Z.abs ws)) ->
  Forall2 Exact (pmul (A := AF) p q) (pmul (A := AZ) zs ws).
Proof. intros Hb. apply (gen_pmul _ _ _ EL_strong p q zs ws Hp Hq). now apply nconv_of_pmul. Qed.

Lemma pderiv_exact_float_lemma dz : pderiv (A := AZ) zs = Ok dz -> Forall fitsZ dz ->
  exists d, pderiv (A := AF) p = Ok d /\ Forall2 Exact d dz.
Proof.
  intros E Hb. assert (Np : p <> []) by (intros ->; inversion Hp; subst; discriminate).
  destruct (gen_pderiv _ _ _ EL_strong p zs Hp Np (deriv_fits_of_result zs dz E Hb)) as (d & dz' & Ed & Ez & Rd).
  rewrite E in Ez. injection Ez as <-. eauto.
Qed.

Lemma pderiv_n_exact_float_lemma n dz : pderiv_n (A := AZ) zs n = Ok dz ->
  (forall k dk, (1 <= k <= n)%nat -> pderiv_n (A := AZ) zs k = Ok dk -> Forall fitsZ dk) ->
  exists d, pderiv_n (A := AF) p n = Ok d /\ Forall2 ExactW d dz.
Proof.
  intros E Hb. exact (gen_pderiv_n _ _ _ EL_weak n p zs dz Hp (deriv_n_fits_of_results n zs Hb) E).
Qed.

End Ops.

(* ---------------------------------------------------------------- item 2: Horner evaluation and the laws *)
(* sum_i |a_i| |x|^i < 2^53 *)
Definition eval_fits (zs : list Z) (xz : Z) : Prop := horner (A := AZ) (map Z.abs zs) (Z.abs xz) < 2 ^ 53.
Definition pmul_fits (zs ws : list Z) : Prop :=
  Forall (fun c => c < 2 ^ 53) (pmul (A := AZ) (map Z.abs zs) (map Z.abs ws)).

Lemma F2_Exact_W l zs : Forall2 Exact l zs -> Forall2 ExactW l zs.
Proof. apply F2_impl. now intros x a [H _]. Qed.

Lemma F2_nonempty {X Y} (Rr : X -> Y -> Prop) l m : Forall2 Rr l m -> l <> [] -> m <> [].
Proof. intros H Nl ->. inversion H; subst. congruence. Qed.

Lemma peval_exact_float_lemma (p : list PrimFloat.float) (zs : list Z) x xz :
  Forall2 ExactW p zs -> ExactW x xz -> p <> [] -> eval_fits zs xz ->
  exists r, peval (A := AF) p x = Ok r /\ ExactW r (horner (A := AZ) zs xz) /\
            Z.abs (horner (A := AZ) zs xz) <= horner (A := AZ) (map Z.abs zs) (Z.abs xz) /\
            (Forall2 Exact p zs -> Exact r (horner (A := AZ) zs xz)).
Proof.
  intros Hp Hx Np Hb. pose proof (F2_nonempty _ _ _ Hp Np) as Nz.
  unfold eval_fits in Hb. rewrite <- (habs_horner zs xz Nz) in *.
  destruct (gen_peval _ _ _ EL_weak p zs x xz Hp Hx Np Hb) as (r & rz & Er & Ez & Rr & Nr).
  rewrite (peval_horner AZ_ring zs xz Nz) in Ez. injection Ez as <-.
  exists r. split; [exact Er|]. split; [exact Rr|]. split; [exact Nr|].
  intros Hs. destruct (gen_peval _ _ _ EL_strong p zs x xz Hs Hx Np Hb) as (r' & rz' & Er' & Ez' & Rr' & _).
  rewrite (peval_horner AZ_ring zs xz Nz) in Ez'. injection Ez' as <-. rewrite Er in Er'. injection Er' as <-. exact Rr'.
Qed.

(* eval (p + q) x = eval p x + eval q x  and  eval (p - q) x = eval p x - eval q x,  bit for bit *)
Lemma peval_padd_exact_float_lemma (p q : list PrimFloat.float) (zs ws : list Z) x xz :
  Forall2 Exact p zs -> Forall2 Exact q ws -> ExactW x xz -> p <> [] -> q <> [] ->
  Forall fitsZ (padd (A := AZ) zs ws) -> eval_fits zs xz -> eval_fits ws xz -> eval_fits (padd (A := AZ) zs ws) xz ->
  exists rp rq, peval (A := AF) p x = Ok rp /\ peval (A := AF) q x = Ok rq /\
    peval (A := AF) (padd (A := AF) p q) x = Ok (rp + rq)%float /\
    Exact rp (horner (A := AZ) zs xz) /\ Exact rq (horner (A := AZ) ws xz) /\
    Exact (rp + rq)%float (horner (A := AZ) zs xz + horner (A := AZ) ws xz).
Proof.
  intros Hp Hq Hx Np Nq Hs Bp Bq Bs.
  pose proof (F2_nonempty _ _ _ Hp Np) as Nz. pose proof (F2_nonempty _ _ _ Hq Nq) as Nw.
  unfold eval_fits in *. rewrite <- habs_horner in Bp, Bq, Bs by (auto using (padd_nonempty (A := AZ))).
  destruct (law_eval_padd _ _ _ EL_strong Exact_unique p q zs ws x xz Hp Hq Hx Np Nq Hs Bp Bq Bs)
    as (rp & rq & rpz & rqz & Ep & Eq & Es & Rp & Rq & Rs' & Ez & Ew).
  rewrite (peval_horner AZ_ring) in Ez, Ew by auto. injection Ez as <-. injection Ew as <-.
  exists rp, rq. repeat split; auto; try apply Rp; try apply Rq; try apply Rs'.
Qed.

Lemma peval_psub_exact_float_lemma (p q : list PrimFloat.float) (zs ws : list Z) x xz :
  Forall2 Exact p zs -> Forall2 Exact q ws -> ExactW x xz -> p <> [] -> q <> [] ->
  Forall fitsZ (psub (A := AZ) zs ws) -> eval_fits zs xz -> eval_fits ws xz -> eval_fits (psub (A := AZ) zs ws) xz ->
  exists rp rq, peval (A := AF) p x = Ok rp /\ peval (A := AF) q x = Ok rq /\
    peval (A := AF) (psub (A := AF) p q) x = Ok (rp - rq)%float /\
    Exact rp (horner (A := AZ) zs xz) /\ Exact rq (horner (A := AZ) ws xz) /\
    Exact (rp - rq)%float (horner (A := AZ) zs xz - horner (A := AZ) ws xz).
Proof.
  intros Hp Hq Hx Np Nq Hs Bp Bq Bs.
  pose proof (F2_nonempty _ _ _ Hp Np) as Nz. pose proof (F2_nonempty _ _ _ Hq Nq) as Nw.
  unfold eval_fits in *. rewrite <- habs_horner in Bp, Bq, Bs by (auto using (psub_nonempty (A := AZ))).
  destruct (law_eval_psub _ _ _ EL_strong Exact_unique p q zs ws x xz Hp Hq Hx Np Nq Hs Bp Bq Bs)
    as (rp & rq & rpz & rqz & Ep & Eq & Es & Rp & Rq & Rs' & Ez & Ew).
  rewrite (peval_horner AZ_ring) in Ez, Ew by auto. injection Ez as <-. injection Ew as <-.
  exists rp, rq. repeat split; auto; try apply Rp; try apply Rq; try apply Rs'.
Qed.

(* two floats holding the same integer: equal for the code's ==, and identical unless the integer is 0 *)
Definition same_value (r r' : PrimFloat.float) (z : Z) : Prop :=
  ExactW r z /\ ExactW r' z /\ PrimFloat.eqb r r' = true /\ (z <> 0 -> r = r').
Lemma same_value_intro r r' z : ExactW r z -> ExactW r' z -> same_value r r' z.
Proof.
  intros H H'. repeat split; try apply H; try apply H'.
  - rewrite (ExactW_eqb r r' z z H H'). apply Z.eqb_refl.
  - intros Hz. now apply (ExactW_unique_nz r r' z).
Qed.

Lemma R_Rs_weak : forall (x : AF) (a : AZ), ExactW x a -> ExactW x a.
Proof. auto. Qed.

(* eval (p * q) x ~ eval p x * eval q x,  eval (-p) x ~ -(eval p x),  eval (s p) x ~ (eval p x) * s *)
Lemma peval_pmul_exact_float_lemma (p q : list PrimFloat.float) (zs ws : list Z) x xz :
  Forall2 ExactW p zs -> Forall2 ExactW q ws -> ExactW x xz -> p <> [] -> q <> [] ->
  pmul_fits zs ws -> eval_fits zs xz -> eval_fits ws xz -> eval_fits (pmul (A := AZ) zs ws) xz ->
  horner (A := AZ) (map Z.abs zs) (Z.abs xz) * horner (A := AZ) (map Z.abs ws) (Z.abs xz) < 2 ^ 53 ->
  exists rp rq r, peval (A := AF) p x = Ok rp /\ peval (A := AF) q x = Ok rq /\
    peval (A := AF) (pmul (A := AF) p q) x = Ok r /\
    same_value r (rp * rq)%float (horner (A := AZ) zs xz * horner (A := AZ) ws xz).
Proof.
  intros Hp Hq Hx Np Nq Hm Bp Bq Bm Bpq.
  pose proof (F2_nonempty _ _ _ Hp Np) as Nz. pose proof (F2_nonempty _ _ _ Hq Nq) as Nw.
  unfold eval_fits in *. rewrite <- habs_horner in Bp, Bq, Bm by (auto using (pmul_nonempty (A := AZ))).
  rewrite <- (habs_horner zs xz Nz), <- (habs_horner ws xz Nw) in Bpq.
  destruct (law_eval_pmul _ _ _ EL_weak R_Rs_weak p q zs ws x xz Hp Hq Hx Np Nq (nconv_of_pmul _ _ Hm) Bp Bq Bm Bpq)
    as (rp & rq & r & rpz & rqz & Ep & Eq & Er & Ez & Ew & Rp & Rq & Rr & Rm).
  rewrite (peval_horner AZ_ring) in Ez, Ew by auto. injection Ez as <-. injection Ew as <-.
  exists rp, rq, r. split; [exact Ep|]. split; [exact Eq|]. split; [exact Er|]. now apply same_value_intro.
Qed.

Lemma peval_pneg_exact_float_lemma (p : list PrimFloat.float) (zs : list Z) x xz :
  Forall2 ExactW p zs -> ExactW x xz -> p <> [] -> eval_fits zs xz ->
  exists rp r, peval (A := AF) p x = Ok rp /\ peval (A := AF) (pneg (A := AF) p) x = Ok r /\
    same_value r (- rp)%float (- horner (A := AZ) zs xz).
Proof.
  intros Hp Hx Np Bp. pose proof (F2_nonempty _ _ _ Hp Np) as Nz.
  assert (Bn : eval_fits (pneg (A := AZ) zs) xz).
  { unfold eval_fits in *. unfold pneg. rewrite map_map.
    rewrite (map_ext (fun a => Z.abs (@neg AZ a)) Z.abs); auto. intros a; cbn. apply Z.abs_opp. }
  assert (Nn : pneg (A := AZ) zs <> []) by (destruct zs; [congruence|discriminate]).
  unfold eval_fits in *. rewrite <- habs_horner in Bp, Bn by auto.
  destruct (law_eval_pneg _ _ _ EL_weak R_Rs_weak p zs x xz Hp Hx Np Bp Bn) as (rp & r & rpz & Ep & Er & Ez & Rp & Rr & Rn).
  rewrite (peval_horner AZ_ring) in Ez by auto. injection Ez as <-.
  exists rp, r. split; [exact Ep|]. split; [exact Er|]. now apply same_value_intro.
Qed.

Lemma peval_pscale_exact_float_lemma (p : list PrimFloat.float) (zs : list Z) x xz s sz :
  Forall2 ExactW p zs -> ExactW x xz -> ExactW s sz -> p <> [] ->
  Forall fitsZ (pscale (A := AZ) zs sz) -> eval_fits zs xz -> eval_fits (pscale (A := AZ) zs sz) xz ->
  horner (A := AZ) (map Z.abs zs) (Z.abs xz) * Z.abs sz < 2 ^ 53 ->
  exists rp r, peval (A := AF) p x = Ok rp /\ peval (A := AF) (pscale (A := AF) p s) x = Ok r /\
    same_value r (rp * s)%float (horner (A := AZ) zs xz * sz).
Proof.
  intros Hp Hx Hs Np Hb Bp Bn Bs. pose proof (F2_nonempty _ _ _ Hp Np) as Nz.
  assert (Nn : pscale (A := AZ) zs sz <> []) by (destruct zs; [congruence|discriminate]).
  unfold eval_fits in *. rewrite <- habs_horner in Bp, Bn, Bs by auto.
  assert (Hb' : Forall (fun a : AZ => Z.abs a * Z.abs sz < 2 ^ 53) zs).
  { unfold pscale in Hb. rewrite Forall_map in Hb. eapply Forall_impl; [|exact Hb].
    intros a Ha. cbv beta in Ha. cbn in Ha. rewrite Z.abs_mul in Ha. exact Ha. }
  destruct (law_eval_pscale _ _ _ EL_weak R_Rs_weak p zs x xz s sz Hp Hx Hs Np Hb' Bp Bn Bs)
    as (rp & r & rpz & Ep & Er & Ez & Rp & Rr & Rn).
  rewrite (peval_horner AZ_ring) in Ez by auto. injection Ez as <-.
  exists rp, r. split; [exact Ep|]. split; [exact Er|]. now apply same_value_intro.
Qed.

(* (p + q)' = p' + q'  and  (p q)' = p' q + p q',  bit for bit, for ANY integer-valued operands (negative zeros
   included: every coefficient of a derivative, a sum of two non-empty operands or a product is accumulated from +0) *)
Lemma pderiv_padd_exact_float_lemma (p q : list PrimFloat.float) (zs ws dzs dws : list Z) :
  Forall2 ExactW p zs -> Forall2 ExactW q ws ->
  pderiv (A := AZ) zs = Ok dzs -> pderiv (A := AZ) ws = Ok dws ->
  Forall fitsZ (padd (A := AZ) zs ws) -> Forall fitsZ dzs -> Forall fitsZ dws -> Forall fitsZ (padd (A := AZ) dzs dws) ->
  exists dp dq, pderiv (A := AF) p = Ok dp /\ pderiv (A := AF) q = Ok dq /\
    pderiv (A := AF) (padd (A := AF) p q) = Ok (padd (A := AF) dp dq) /\ Forall2 Exact (padd (A := AF) dp dq) (padd (A := AZ) dzs dws).
Proof.
  intros Hp Hq Ez Ew Hs Fz Fw Fs.
  assert (Np : p <> []) by (intros ->; inversion Hp; subst; discriminate).
  assert (Nq : q <> []) by (intros ->; inversion Hq; subst; discriminate).
  pose proof (pderiv_padd AZ_ring zs ws dzs dws Ez Ew) as Es.
  destruct (law_pderiv_padd _ _ _ EL_strong Exact_unique p q zs ws Hp Hq Np Nq Hs
              (deriv_fits_of_result _ _ Ez Fz) (deriv_fits_of_result _ _ Ew Fw) (deriv_fits_of_result _ _ Es Fs))
    as (dp & dq & Ep & Eq & Ed).
  { intros a b Ea Eb. rewrite Ez in Ea. rewrite Ew in Eb. injection Ea as <-. injection Eb as <-. exact Fs. }
  exists dp, dq. repeat split; auto.
  destruct (pderiv_exact_float_lemma p zs Hp dzs Ez Fz) as (dp' & Ep' & Rp).
  destruct (pderiv_exact_float_lemma q ws Hq dws Ew Fw) as (dq' & Eq' & Rq).
  rewrite Ep in Ep'. rewrite Eq in Eq'. injection Ep' as <-. injection Eq' as <-.
  apply (gen_padd_s _ _ _ EL_strong); auto.
Qed.

Lemma pderiv_pmul_exact_float_lemma (p q : list PrimFloat.float) (zs ws dzs dws : list Z) :
  Forall2 ExactW p zs -> Forall2 ExactW q ws ->
  pderiv (A := AZ) zs = Ok dzs -> pderiv (A := AZ) ws = Ok dws ->
  pmul_fits zs ws -> Forall fitsZ dzs -> Forall fitsZ dws -> pmul_fits dzs ws -> pmul_fits zs dws ->
  Forall fitsZ (padd (A := AZ) (pmul (A := AZ) dzs ws) (pmul (A := AZ) zs dws)) ->
  exists dp dq, pderiv (A := AF) p = Ok dp /\ pderiv (A := AF) q = Ok dq /\
    pderiv (A := AF) (pmul (A := AF) p q) = Ok (padd (A := AF) (pmul (A := AF) dp q) (pmul (A := AF) p dq)) /\
    Forall2 Exact (padd (A := AF) (pmul (A := AF) dp q) (pmul (A := AF) p dq)) (padd (A := AZ) (pmul (A := AZ) dzs ws) (pmul (A := AZ) zs dws)).
Proof.
  intros Hp Hq Ez Ew Hm Fz Fw M1 M2 Fs.
  assert (Np : p <> []) by (intros ->; inversion Hp; subst; discriminate).
  assert (Nq : q <> []) by (intros ->; inversion Hq; subst; discriminate).
  pose proof (pderiv_pmul AZ_ring zs ws dzs dws Ez Ew) as Es.
  destruct (law_pderiv_pmul _ _ _ EL_strong Exact_unique p q zs ws Hp Hq Np Nq (nconv_of_pmul _ _ Hm)
              (deriv_fits_of_result _ _ Ez Fz) (deriv_fits_of_result _ _ Ew Fw) (deriv_fits_of_result _ _ Es Fs))
    as (dp & dq & Ep & Eq & Ed).
  { intros a b Ea Eb. rewrite Ez in Ea. rewrite Ew in Eb. injection Ea as <-. injection Eb as <-.
    repeat split; auto using nconv_of_pmul. }
  exists dp, dq. repeat split; auto.
  destruct (pderiv_exact_float_lemma p zs Hp dzs Ez Fz) as (dp' & Ep' & Rp).
  destruct (pderiv_exact_float_lemma q ws Hq dws Ew Fw) as (dq' & Eq' & Rq).
  rewrite Ep in Ep'. rewrite Eq in Eq'. injection Ep' as <-. injection Eq' as <-.
  apply (gen_padd_s _ _ _ EL_strong); auto.
  - apply (gen_pmul _ _ _ EL_strong); auto using nconv_of_pmul, F2_Exact_W.
  - apply (gen_pmul _ _ _ EL_strong); auto using nconv_of_pmul, F2_Exact_W.
Qed.

(* (s p)' ~ s p' : the same integers on both sides (a zero coefficient may differ in sign) *)
Lemma pderiv_pscale_exact_float_lemma (p : list PrimFloat.float) (zs dzs : list Z) s sz :
  Forall2 ExactW p zs -> ExactW s sz -> pderiv (A := AZ) zs = Ok dzs ->
  Forall fitsZ (pscale (A := AZ) zs sz) -> Forall fitsZ dzs -> Forall fitsZ (pscale (A := AZ) dzs sz) ->
  exists dp d, pderiv (A := AF) p = Ok dp /\ pderiv (A := AF) (pscale (A := AF) p s) = Ok d /\
    Forall2 ExactW d (pscale (A := AZ) dzs sz) /\ Forall2 ExactW (pscale (A := AF) dp s) (pscale (A := AZ) dzs sz).
Proof.
  intros Hp Hs Ez Hb Fz Fs.
  assert (Np : p <> []) by (intros ->; inversion Hp; subst; discriminate).
  assert (conv : forall l, Forall fitsZ (pscale (A := AZ) l sz) -> Forall (fun a : AZ => Z.abs a * Z.abs sz < 2 ^ 53) l).
  { intros l H. unfold pscale in H. rewrite Forall_map in H. eapply Forall_impl; [|exact H].
    intros a Ha. cbv beta in Ha. cbn in Ha. rewrite Z.abs_mul in Ha. exact Ha. }
  pose proof (pderiv_pscale AZ_ring zs dzs sz Ez) as Es.
  destruct (law_pderiv_pscale _ _ _ EL_weak p zs s sz Hp Hs Np (conv _ Hb)
              (deriv_fits_of_result _ _ Ez Fz) (deriv_fits_of_result _ _ Es Fs))
    as (dp & d & dz' & Ep & Ed & Ez' & R1 & R2).
  { intros a Ea. rewrite Ez in Ea. injection Ea as <-. now apply conv. }
  rewrite Ez in Ez'. injection Ez' as <-. exists dp, d. repeat split; auto.
Qed.

(* the sum and the difference of two NON-EMPTY operands never contain a negative zero: coefficient i is (0 + p_i) + q_i
   resp. (0 + p_i) - q_i, and 0 + (-0) = +0 *)
Lemma padd_psub_no_negzero_float_lemma (p q : list PrimFloat.float) (zs ws : list Z) :
  Forall2 ExactW p zs -> Forall2 ExactW q ws -> p <> [] -> q <> [] ->
  (Forall fitsZ (padd (A := AZ) zs ws) -> Forall2 Exact (padd (A := AF) p q) (padd (A := AZ) zs ws)) /\
  (Forall fitsZ (psub (A := AZ) zs ws) -> Forall2 Exact (psub (A := AF) p q) (psub (A := AZ) zs ws)).
Proof.
  intros Hp Hq Np Nq. split.
  - exact (gen_padd_ne _ _ _ EL_strong p q zs ws Hp Hq Np Nq).
  - exact (gen_psub_ne _ _ _ EL_strong p q zs ws Hp Hq Np Nq).
Qed.

(* derivative_at: the n-th derivative evaluated at an integer point *)
Lemma pderiv_at_exact_float_lemma (p : list PrimFloat.float) (zs dz : list Z) x xz n :
  Forall2 ExactW p zs -> ExactW x xz -> pderiv_n (A := AZ) zs n = Ok dz -> dz <> [] ->
  (forall k dk, (1 <= k <= n)%nat -> pderiv_n (A := AZ) zs k = Ok dk -> Forall fitsZ dk) ->
  eval_fits dz xz ->
  exists r, pderiv_at (A := AF) p x n = Ok r /\ ExactW r (horner (A := AZ) dz xz) /\
            pderiv_at (A := AZ) zs xz n = Ok (horner (A := AZ) dz xz).
Proof.
  intros Hp Hx E Nd Hb He.
  destruct (pderiv_n_exact_float_lemma p zs Hp n dz E Hb) as (d & Ed & Rd).
  assert (Nd' : d <> []) by (intros ->; inversion Rd; subst; congruence).
  destruct (peval_exact_float_lemma d dz x xz Rd Hx Nd' He) as (r & Er & Rr & _).
  exists r. unfold pderiv_at. rewrite Ed, E. cbn [bind]. split; [exact Er|]. split; [exact Rr|].
  exact (peval_horner AZ_ring dz xz Nd).
Qed.
