(* Proofs/RoundExamples2.v -- further non-vacuity witnesses in the rounding arithmetic AFlx (continuation of
   Proofs/RoundExamples.v). *)
From Coq Require Import List Arith Reals Lra Lia.
From OV Require Import Base.Panic Base.Arith Base.RoundModel Model.Vector Model.Matrix Model.Solve
  Proofs.Matrix Proofs.RoundFlx Proofs.RoundExamples.
Import ListNotations.
Local Open Scope R_scope.

Lemma ex_inverse : exists inv, inverse ex_m2 = Ok inv.
Proof.
  eexists. unfold inverse. change (rows ex_m2) with 2%nat. change (cols ex_m2) with 2%nat.
  cbn [Nat.eqb negb]. rewrite ex_lu_decomp. reflexivity.
Qed.
