(* Proofs/IterCGBiOrth.v -- round two, package iter2: the bi-orthogonality invariant of the MODEL's BiCG
   (Model/Iter.v: bicg_body) in exact arithmetic, for an arbitrary (nonsymmetric) matrix given by a linear
   product and its adjoint, and its consequence: BREAKDOWN OR TERMINATION.
   Along every run the residuals and the shadow residuals are bi-orthogonal (<r_i, rr_j> = 0 for i <> j).
   A run that reaches iteration i >= 2 without a panic has divided by rho_{i-2} = <r_{i-2}, rr_{i-2}>, so the
   pairs (r_0,rr_0) .. (r_{i-2},rr_{i-2}) are bi-orthogonal with nonzero pairings, hence at most n: in exact
   arithmetic solve_bicg either divides by zero (a Panic of the model -- the breakdown for which the code has no
   test) or returns Ok within n+1 iterations; it can never exhaust a budget >= n+2.
   The one-sided half of the invariant is proved once, for an abstract bilinear pairing [ip], and used for
   both sides (ip u v = <u,v> with A, and ip u v = <v,u> with A^T). *)
From Coq Require Import List Arith Lia Bool Ring Field.
From OV Require Import Base.Panic Base.Arith Model.Vector Model.Matrix Model.Sparse Model.Iter Proofs.SparseBase Proofs.Iter Proofs.IterField
  Proofs.SparseMul Proofs.IterSparse Proofs.IterSparseBreakdown Proofs.IterSparseErr Proofs.IterCGVec Proofs.IterCGDim Proofs.IterCG.
Import ListNotations.

Section Half.
Context {A : SArith}.
Notation F := (T (SA A)).
Variable FL : FieldLaws (SA A).
Add Field FFh : (fl_field (SA A) FL).
Variable n : nat.
Variable ip : list F -> list F -> F.
Hypothesis ip_add_r : forall w u v, length u = length v -> ip w (zipw add u v) = add (ip w u) (ip w v).
Hypothesis ip_sub_r : forall w u v, length u = length v -> ip w (zipw sub u v) = sub (ip w u) (ip w v).
Hypothesis ip_scale_r : forall w v c, ip w (vscale v c) = mul (ip w v) c.
Hypothesis ip_add_l : forall w u v, length u = length v -> ip (zipw add u v) w = add (ip u w) (ip v w).
Hypothesis ip_sub_l : forall w u v, length u = length v -> ip (zipw sub u v) w = sub (ip u w) (ip v w).
Hypothesis ip_scale_l : forall w v c, ip (vscale v c) w = mul (ip v w) c.
Variables op opo : list F -> res (list F).
Hypothesis adj : forall u v ou ov, length u = n -> length v = n -> op u = Ok ou -> opo v = Ok ov -> ip ou v = ip u ov.

Notation lenv := (fun v : list F => length v = n).

(* one side of the invariant: r, q = op p the current residual and product of this side; R, P its history;
   RRo, PPo the history of the other side *)
Definition half (r q : list F) (R P RRo PPo : list (list F)) : Prop :=
  Forall (fun pp' => ip r pp' = zero) PPo /\
  Forall (fun u' => ip r u' = zero) RRo /\
  (forall w, length w = n -> Forall (fun pp' => ip w pp' = zero) PPo -> Forall (fun u' => ip w u' = zero) RRo) /\
  Forall (fun pp' => ip q pp' = zero) (tl PPo) /\
  Forall (fun p' => exists q', op p' = Ok q' /\
                    forall w, length w = n -> Forall (fun u => ip u w = zero) R -> ip q' w = zero) (tl P).

Lemma half_step (r rr p pp zr zrr q qq pn ppn qn r' : list F) (alpha beta alpha' rho rho2 : F)
      (R' P' RR' PP' : list (list F)) :
  length r = n -> length rr = n -> length p = n -> length pp = n -> length zr = n -> length zrr = n ->
  length q = n -> length qq = n -> length qn = n ->
  Forall lenv PP' ->
  op p = Ok q -> opo pp = Ok qq ->
  r = zipw sub zr (vscale q alpha) -> rr = zipw sub zrr (vscale qq alpha) ->
  mul alpha (ip q pp) = rho2 -> rho2 <> zero ->
  rho = ip r rr -> mul beta rho2 = rho ->
  pn = zipw add r (vscale p beta) -> ppn = zipw add rr (vscale pp beta) ->
  op pn = Ok qn -> mul alpha' (ip qn ppn) = rho ->
  r' = zipw sub r (vscale qn alpha') ->
  half r q (zr :: R') (p :: P') (zrr :: RR') (pp :: PP') ->
  Forall (fun pp' => exists qq', opo pp' = Ok qq' /\
            forall w, length w = n -> Forall (fun u' => ip w u' = zero) (zrr :: RR') -> ip w qq' = zero) PP' ->
  half r' qn (r :: zr :: R') (pn :: p :: P') (rr :: zrr :: RR') (ppn :: pp :: PP').
Proof.
  intros Hr Hrr Hp Hpp Hzr Hzrr Hq Hqq Hqn HlPP Eq Eqq Er Err Had Hrho2 Hrho Hbeta Epn Eppn Eqn Had' Er'
         (h1 & h2 & h3 & h4 & h5) h5b.
  assert (Hpn : length pn = n) by (subst pn; rewrite zipw_length; auto; rewrite vscale_length; lia).
  assert (Hppn : length ppn = n) by (subst ppn; rewrite zipw_length; auto; rewrite vscale_length; lia).
  assert (Halpha : alpha <> zero) by (intros ->; apply Hrho2; rewrite <- Had; ring).
  assert (Xr : forall w, ip r w = sub (ip zr w) (mul (ip q w) alpha)).
  { intros w. rewrite Er at 1. rewrite ip_sub_l by (rewrite vscale_length; lia). now rewrite ip_scale_l. }
  assert (Xrr : forall w, ip w rr = sub (ip w zrr) (mul (ip w qq) alpha)).
  { intros w. rewrite Err at 1. rewrite ip_sub_r by (rewrite vscale_length; lia). now rewrite ip_scale_r. }
  assert (Xpn : forall w, ip pn w = add (ip r w) (mul (ip p w) beta)).
  { intros w. rewrite Epn. rewrite ip_add_l by (rewrite vscale_length; lia). now rewrite ip_scale_l. }
  assert (Xppn : forall w, ip w ppn = add (ip w rr) (mul (ip w pp) beta)).
  { intros w. rewrite Eppn. rewrite ip_add_r by (rewrite vscale_length; lia). now rewrite ip_scale_r. }
  assert (Xr' : forall w, ip r' w = sub (ip r w) (mul (ip qn w) alpha')).
  { intros w. rewrite Er'. rewrite ip_sub_l by (rewrite vscale_length; lia). now rewrite ip_scale_l. }
  assert (Hrpp : ip r pp = zero) by exact (Forall_inv h1).
  assert (Hrzrr : ip r zrr = zero) by exact (Forall_inv h2).
  assert (E1 : mul alpha (ip r qq) = neg rho).
  { pose proof (Xrr r) as E. rewrite <- Hrho, Hrzrr in E. rewrite E. ring. }
  assert (Hd : ip q pp = ip p qq) by (apply (adj p pp q qq); auto).
  (* the new product is conjugate to every earlier direction of the other side *)
  assert (Chead : ip qn pp = zero).
  { rewrite (adj pn pp qn qq Hpn Hpp Eqn Eqq), Xpn.
    apply (mul_zero_inv FL alpha); auto.
    replace (mul alpha (add (ip r qq) (mul (ip p qq) beta)))
      with (add (mul alpha (ip r qq)) (mul (mul alpha (ip p qq)) beta)) by ring.
    rewrite E1, <- Hd, Had, <- Hbeta. ring. }
  assert (QP : Forall (fun pp' => ip qn pp' = zero) (pp :: PP')).
  { constructor; [exact Chead|]. cbn [tl] in h4. rewrite Forall_forall in *. intros pp' Hin.
    destruct (h5b pp' Hin) as (qq' & Eqq' & Hspan).
    rewrite (adj pn pp' qn qq' Hpn (HlPP pp' Hin) Eqn Eqq'), Xpn.
    rewrite (Hspan r Hr) by (apply Forall_forall; intros u' Hu'; apply h2; exact Hu').
    rewrite <- (adj p pp' q qq' Hp (HlPP pp' Hin) Eq Eqq'), (h4 pp' Hin). ring. }
  assert (Hqnrr : ip qn rr = ip qn ppn).
  { rewrite (Xppn qn), Chead. ring. }
  unfold half. split; [|split; [|split; [|split]]].
  - (* g1 *) constructor.
    + rewrite Xr', Xppn, <- Hrho, Hrpp, <- Had'. ring.
    + rewrite Forall_forall in *. intros pp'' Hin. rewrite Xr', (h1 pp'' Hin), (QP pp'' Hin). ring.
  - (* g2 *) constructor.
    + rewrite Xr', <- Hrho, Hqnrr, <- Had'. ring.
    + assert (QR : Forall (fun u' => ip qn u' = zero) (zrr :: RR')) by (apply h3; auto).
      rewrite Forall_forall in *. intros u' Hin. rewrite Xr', (h2 u' Hin), (QR u' Hin). ring.
  - (* g3 *) intros w Hw HwP. pose proof (Forall_inv HwP) as Hwppn. pose proof (Forall_inv_tail HwP) as HwP'.
    constructor.
    + pose proof (Xppn w) as E. rewrite Hwppn, (Forall_inv HwP') in E.
      replace (ip w rr) with (sub (add (ip w rr) (mul zero beta)) (mul zero beta)) by ring. rewrite <- E. ring.
    + apply h3; auto.
  - (* g4 *) exact QP.
  - (* g5 *) cbn [tl]. constructor.
    + exists q. split; auto. intros w Hw HwR.
      pose proof (Forall_inv HwR) as Hwr. pose proof (Forall_inv (Forall_inv_tail HwR)) as Hwzr.
      apply (mul_zero_inv FL alpha); auto.
      pose proof (Xr w) as E. rewrite Hwr, Hwzr in E.
      replace (mul alpha (ip q w)) with (sub zero (sub zero (mul (ip q w) alpha))) by ring. rewrite <- E. ring.
    + cbn [tl] in h5. rewrite Forall_forall in *. intros p' Hin. destruct (h5 p' Hin) as (q' & Eq' & Hspan).
      exists q'. split; auto. intros w Hw HwR. apply Hspan; auto.
      apply Forall_forall. intros u Hu. apply (proj1 (Forall_forall _ _) HwR). now right.
Qed.

(* the first step: histories of length one *)
Lemma half_first (r rr qn r' : list F) (alpha' rho : F) :
  length r = n -> length rr = n -> length qn = n ->
  op r = Ok qn -> rho = ip r rr -> mul alpha' (ip qn rr) = rho ->
  r' = zipw sub r (vscale qn alpha') ->
  half r' qn [r] [r] [rr] [rr].
Proof.
  intros Hr Hrr Hqn Eqn Hrho Had' Er'.
  assert (Xr' : forall w, ip r' w = sub (ip r w) (mul (ip qn w) alpha')).
  { intros w. rewrite Er'. rewrite ip_sub_l by (rewrite vscale_length; lia). now rewrite ip_scale_l. }
  assert (E : ip r' rr = zero) by (rewrite Xr', <- Hrho, <- Had'; ring).
  unfold half. cbn [tl]. repeat split; auto.
Qed.

End Half.

(* ---------------------------------------------------------------- a bi-orthogonal family is small *)
Section BiorthBound.
Context {A : SArith}.
Notation F := (T (SA A)).
Variable FL : FieldLaws (SA A).
Add Field FFbb : (fl_field (SA A) FL).

Definition bo (a b : list F * list F) : Prop :=
  dot_raw (fst a) (snd b) = zero /\ dot_raw (fst b) (snd a) = zero.

Lemma biorth_indep n (L : list (list F * list F)) :
  Forall (fun ab => length (fst ab) = n /\ length (snd ab) = n) L ->
  ForallOrdPairs bo L -> Forall (fun ab => dot_raw (fst ab) (snd ab) <> zero) L ->
  indep n (map fst L).
Proof.
  induction L as [|[u u'] L IH]; intros Hl Ho Ha cs Hcs H.
  - destruct cs; [constructor | discriminate].
  - destruct cs as [|c cs]; [discriminate|]. cbn [map fst] in *.
    pose proof (Forall_inv Hl) as (Hu & Hu'). cbn [fst snd] in Hu, Hu'.
    apply FOP_cons_inv in Ho as (Hou & Ho').
    pose proof (Forall_inv Ha) as Hav. cbn [fst snd] in Hav.
    assert (Hlm : Forall (lenis n) (u :: map fst L)).
    { constructor; [exact Hu|]. apply Forall_forall. intros v Hv. apply in_map_iff in Hv as (ab & <- & Hab).
      rewrite Forall_forall in Hl. exact (proj1 (Hl ab (or_intror Hab))). }
    assert (Hc : c = zero).
    { pose proof (csum_dot FL n u' (c :: cs) (u :: map fst L) Hu' Hlm H) as E.
      rewrite csum_cons in E. rewrite (csum_zero FL (dot_raw u') cs (map fst L)) in E.
      - apply (mul_zero_inv FL (dot_raw u' u)); [rewrite <- E; ring|]. now rewrite (dot_raw_comm FL).
      - intros v Hv. apply in_map_iff in Hv as (ab & <- & Hab).
        rewrite Forall_forall in Hou. destruct (Hou ab Hab) as (_ & H2). cbn [fst snd] in H2.
        now rewrite (dot_raw_comm FL). }
    constructor; auto. apply IH; auto.
    + exact (Forall_inv_tail Hl).
    + exact (Forall_inv_tail Ha).
    + intros j Hj. specialize (H j Hj). rewrite csum_cons, Hc in H. rewrite <- H. ring.
Qed.

Theorem biorth_bound n (L : list (list F * list F)) :
  Forall (fun ab => length (fst ab) = n /\ length (snd ab) = n) L ->
  ForallOrdPairs bo L -> Forall (fun ab => dot_raw (fst ab) (snd ab) <> zero) L ->
  length L <= n.
Proof.
  intros Hl Ho Ha. rewrite <- (map_length fst L). apply (indep_bound FL n).
  - apply Forall_forall. intros v Hv. apply in_map_iff in Hv as (ab & <- & Hab).
    rewrite Forall_forall in Hl. exact (proj1 (Hl ab Hab)).
  - now apply biorth_indep.
Qed.
End BiorthBound.

(* ---------------------------------------------------------------- the model's BiCG *)
Section BiCGRun.
Context {A : SArith}.
Notation F := (T (SA A)).
Variable FL : FieldLaws (SA A).
Add Field FFbr : (fl_field (SA A) FL).
Notation finv := (fl_inv (SA A) FL).
Variables (n : nat) (mulA mulAT : list F -> res (list F)).
Hypothesis LO : LinOp n mulA.
Hypothesis LOT : LinOp n mulAT.
Hypothesis ADJ : AdjOp n mulA mulAT.

Definition ipa (u v : list F) : F := dot_raw u v.
Definition ipb (u v : list F) : F := dot_raw v u.

Lemma adj_a u v ou ov : length u = n -> length v = n -> mulA u = Ok ou -> mulAT v = Ok ov -> ipa ou v = ipa u ov.
Proof.
  intros Hu Hv Eu Ev. unfold ipa. pose proof (ao_adj n mulA mulAT ADJ u v ou ov Hu Hv Eu Ev) as E.
  now rewrite (dot_raw_comm FL ou v), (dot_raw_comm FL u ov).
Qed.
Lemma adj_b u v ou ov : length u = n -> length v = n -> mulAT u = Ok ou -> mulA v = Ok ov -> ipb ou v = ipb u ov.
Proof.
  intros Hu Hv Eu Ev. unfold ipb. pose proof (ao_adj n mulA mulAT ADJ v u ov ou Hv Hu Ev Eu) as E.
  now rewrite (dot_raw_comm FL v ou), (dot_raw_comm FL ov u).
Qed.

Lemma ipa_add_r w u v : length u = length v -> ipa w (zipw add u v) = add (ipa w u) (ipa w v).
Proof. intros Hl. unfold ipa. now apply (dot_raw_add_r FL). Qed.
Lemma ipa_sub_r w u v : length u = length v -> ipa w (zipw sub u v) = sub (ipa w u) (ipa w v).
Proof. intros Hl. unfold ipa. now apply (dot_raw_sub_r FL). Qed.
Lemma ipa_scale_r w v c : ipa w (vscale v c) = mul (ipa w v) c.
Proof. unfold ipa. apply (dot_raw_scale_r FL). Qed.
Lemma ipa_add_l w u v : length u = length v -> ipa (zipw add u v) w = add (ipa u w) (ipa v w).
Proof. intros Hl. unfold ipa. now apply (dot_raw_add_l FL). Qed.
Lemma ipa_sub_l w u v : length u = length v -> ipa (zipw sub u v) w = sub (ipa u w) (ipa v w).
Proof. intros Hl. unfold ipa. now apply (dot_raw_sub_l FL). Qed.
Lemma ipa_scale_l w v c : ipa (vscale v c) w = mul (ipa v w) c.
Proof. unfold ipa. apply (dot_raw_scale_l FL). Qed.
Lemma ipb_add_r w u v : length u = length v -> ipb w (zipw add u v) = add (ipb w u) (ipb w v).
Proof. intros Hl. unfold ipb. now apply (dot_raw_add_l FL). Qed.
Lemma ipb_sub_r w u v : length u = length v -> ipb w (zipw sub u v) = sub (ipb w u) (ipb w v).
Proof. intros Hl. unfold ipb. now apply (dot_raw_sub_l FL). Qed.
Lemma ipb_scale_r w v c : ipb w (vscale v c) = mul (ipb w v) c.
Proof. unfold ipb. apply (dot_raw_scale_l FL). Qed.
Lemma ipb_add_l w u v : length u = length v -> ipb (zipw add u v) w = add (ipb u w) (ipb v w).
Proof. intros Hl. unfold ipb. now apply (dot_raw_add_r FL). Qed.
Lemma ipb_sub_l w u v : length u = length v -> ipb (zipw sub u v) w = sub (ipb u w) (ipb v w).
Proof. intros Hl. unfold ipb. now apply (dot_raw_sub_r FL). Qed.
Lemma ipb_scale_l w v c : ipb (vscale v c) w = mul (ipb v w) c.
Proof. unfold ipb. apply (dot_raw_scale_r FL). Qed.

Notation half_a := (half n ipa mulA).
Notation half_b := (half n ipb mulAT).

(* one step, as a relation *)
Definition bicg_step (i : nat) (x r rr pold ppold : list F) (rho2 : F) (x' r' rr' p pp : list F) (rho : F) : Prop :=
  rho = dot_raw r rr /\
  (if i =? 1 then p = r /\ pp = rr
   else exists beta, div rho rho2 = Ok beta /\ p = zipw add r (vscale pold beta) /\ pp = zipw add rr (vscale ppold beta)) /\
  exists q qq alpha, mulA p = Ok q /\ mulAT pp = Ok qq /\ div rho (dot_raw q pp) = Ok alpha /\
    x' = zipw add x (vscale p alpha) /\ r' = zipw sub r (vscale q alpha) /\ rr' = zipw sub rr (vscale qq alpha).

Notation lenv := (fun v : list F => length v = n).

(* x r rr: iterate, residual, shadow residual; p pp: the last directions; rho2 = <zr, zrr> for the previous pair;
   R RR P PP: the histories, newest first *)
Definition biI (x r rr p pp : list F) (rho2 : F) (R RR P PP : list (list F)) : Prop :=
  length x = n /\ length r = n /\ length rr = n /\
  Forall lenv R /\ Forall lenv RR /\ Forall lenv P /\ Forall lenv PP /\ length R = length RR /\
  (exists zr zrr R' RR' P' PP' q qq alpha,
     R = zr :: R' /\ RR = zrr :: RR' /\ P = p :: P' /\ PP = pp :: PP' /\
     mulA p = Ok q /\ mulAT pp = Ok qq /\
     r = zipw sub zr (vscale q alpha) /\ rr = zipw sub zrr (vscale qq alpha) /\
     mul alpha (dot_raw q pp) = rho2 /\ rho2 = dot_raw zr zrr /\
     half_a r q R P RR PP /\ half_b rr qq RR PP R P) /\
  ForallOrdPairs bo ((r, rr) :: combine R RR) /\
  Forall (fun ab => dot_raw (fst ab) (snd ab) <> zero) (tl (combine R RR)).

Lemma mulA_len2 v w : mulA v = Ok w -> length v = n -> length w = n.
Proof. intros E Hv. destruct (lo_ok n mulA LO v Hv) as (w' & E' & Hw). congruence. Qed.
Lemma mulAT_len2 v w : mulAT v = Ok w -> length v = n -> length w = n.
Proof. intros E Hv. destruct (lo_ok n mulAT LOT v Hv) as (w' & E' & Hw). congruence. Qed.

Lemma zs_len2 (f : F -> F -> F) (u v : list F) c : length u = n -> length v = n -> length (zipw f u (vscale v c)) = n.
Proof. intros Hu Hv. rewrite zipw_length; auto. rewrite vscale_length. lia. Qed.

(* a Forall over both coordinates gives the ordered-pair condition against a zipped history *)
Lemma bo_against (r rr : list F) (R RR : list (list F)) :
  Forall (fun u' => dot_raw r u' = zero) RR -> Forall (fun u => dot_raw u rr = zero) R ->
  Forall (bo (r, rr)) (combine R RR).
Proof.
  intros H1 H2. apply Forall_forall. intros [u u'] Hin. unfold bo. cbn [fst snd].
  rewrite Forall_forall in H1, H2. split.
  - apply H1. eapply in_combine_r; eauto.
  - apply H2. eapply in_combine_l; eauto.
Qed.

Lemma bi_first_step x r x' r' rr' p pp rho pold ppold rho2 :
  length x = n -> length r = n ->
  bicg_step 1 x r r pold ppold rho2 x' r' rr' p pp rho ->
  biI x' r' rr' p pp rho [r] [r] [p] [pp].
Proof.
  intros Hx Hr (-> & (-> & ->) & q & qq & alpha & Eq & Eqq & Ea & -> & -> & ->).
  assert (Hq : length q = n) by (eapply mulA_len2; eauto).
  assert (Hqq : length qq = n) by (eapply mulAT_len2; eauto).
  apply (div_Ok_inv FL) in Ea as (Hd & ->).
  set (alpha := mul (dot_raw r r) (finv (dot_raw q r))) in *.
  assert (Had : mul alpha (dot_raw q r) = dot_raw r r) by (unfold alpha; field; exact Hd).
  assert (Ha : half_a (zipw sub r (vscale q alpha)) q [r] [r] [r] [r]).
  { apply (half_first FL n ipa ipa_sub_l ipa_scale_l mulA r r q _ alpha (dot_raw r r)); auto. }
  assert (Hb : half_b (zipw sub r (vscale qq alpha)) qq [r] [r] [r] [r]).
  { apply (half_first FL n ipb ipb_sub_l ipb_scale_l mulAT r r qq _ alpha (dot_raw r r)); auto.
    unfold ipb. rewrite <- Had. f_equal. pose proof (adj_a r r q qq Hr Hr Eq Eqq) as E. unfold ipa in E.
    now rewrite <- E. }
  unfold biI. split; [now apply zs_len2|]. split; [now apply zs_len2|]. split; [now apply zs_len2|].
  split; [repeat constructor; exact Hr|]. split; [repeat constructor; exact Hr|].
  split; [repeat constructor; exact Hr|]. split; [repeat constructor; exact Hr|]. split; [reflexivity|].
  split; [|split].
  - exists r, r, [], [], [], [], q, qq, alpha.
    split; [reflexivity|]. split; [reflexivity|]. split; [reflexivity|]. split; [reflexivity|].
    split; [exact Eq|]. split; [exact Eqq|]. split; [reflexivity|]. split; [reflexivity|].
    split; [exact Had|]. split; [reflexivity|]. split; [exact Ha | exact Hb].
  - constructor; [|repeat constructor]. cbn [combine]. constructor; [|constructor].
    destruct Ha as (_ & h2a & _). destruct Hb as (_ & h2b & _). unfold bo. cbn [fst snd]. split.
    + exact (Forall_inv h2a).
    + exact (Forall_inv h2b).
  - cbn. constructor.
Qed.

Lemma bi_next_step i x r rr p pp rho2 R RR P PP x' r' rr' pn ppn rho :
  (i =? 1) = false -> biI x r rr p pp rho2 R RR P PP ->
  bicg_step i x r rr p pp rho2 x' r' rr' pn ppn rho ->
  biI x' r' rr' pn ppn rho (r :: R) (rr :: RR) (pn :: P) (ppn :: PP).
Proof.
  intros Hi (Hx & Hr & Hrr & HlR & HlRR & HlP & HlPP & HlenR &
             (zr & zrr & R' & RR' & P' & PP' & q & qq & alpha & -> & -> & -> & -> & Eq & Eqq & Er & Err & Had & Hrho2eq & Ha & Hb) & BO & NZ).
  intros (Hrho & Hdir & qn & qqn & alpha' & Eqn & Eqqn & Ea' & Ex' & Er' & Err').
  rewrite Hi in Hdir. destruct Hdir as (beta & Eb & Epn & Eppn).
  apply (div_Ok_inv FL) in Eb as (Hrho2 & Hbeta). apply (div_Ok_inv FL) in Ea' as (Hdn & Halpha').
  assert (Hp : length p = n) by exact (Forall_inv HlP).
  assert (Hpp : length pp = n) by exact (Forall_inv HlPP).
  assert (Hzr : length zr = n) by exact (Forall_inv HlR).
  assert (Hzrr : length zrr = n) by exact (Forall_inv HlRR).
  assert (Hq : length q = n) by (eapply mulA_len2; eauto).
  assert (Hqq : length qq = n) by (eapply mulAT_len2; eauto).
  assert (Hpn : length pn = n) by (subst pn; now apply zs_len2).
  assert (Hppn : length ppn = n) by (subst ppn; now apply zs_len2).
  assert (Hqn : length qn = n) by (eapply mulA_len2; eauto).
  assert (Hqqn : length qqn = n) by (eapply mulAT_len2; eauto).
  assert (Hbeta' : mul beta rho2 = rho) by (rewrite Hbeta; field; exact Hrho2).
  assert (Had' : mul alpha' (dot_raw qn ppn) = rho) by (rewrite Halpha'; field; exact Hdn).
  assert (Hd : dot_raw p qq = dot_raw q pp).
  { pose proof (adj_a p pp q qq Hp Hpp Eq Eqq) as E. unfold ipa in E. now rewrite E. }
  assert (Hdn' : dot_raw pn qqn = dot_raw qn ppn).
  { pose proof (adj_a pn ppn qn qqn Hpn Hppn Eqn Eqqn) as E. unfold ipa in E. now rewrite E. }
  destruct Ha as (h1a & h2a & h3a & h4a & h5a). destruct Hb as (h1b & h2b & h3b & h4b & h5b).
  assert (Ha' : half_a r' qn (r :: zr :: R') (pn :: p :: P') (rr :: zrr :: RR') (ppn :: pp :: PP')).
  { apply (half_step FL n ipa ipa_add_r ipa_sub_r ipa_scale_r ipa_add_l ipa_sub_l ipa_scale_l mulA mulAT adj_a
             r rr p pp zr zrr q qq pn ppn qn r' alpha beta alpha' rho rho2 R' P' RR' PP'); auto.
    - exact (Forall_inv_tail HlPP).
    - unfold half. auto. }
  assert (Hb' : half_b rr' qqn (rr :: zrr :: RR') (ppn :: pp :: PP') (r :: zr :: R') (pn :: p :: P')).
  { apply (half_step FL n ipb ipb_add_r ipb_sub_r ipb_scale_r ipb_add_l ipb_sub_l ipb_scale_l mulAT mulA adj_b
             rr r pp p zrr zr qq q ppn pn qqn rr' alpha beta alpha' rho rho2 RR' PP' R' P'); auto.
    - exact (Forall_inv_tail HlP).
    - unfold ipb. now rewrite Hd.
    - unfold ipb. now rewrite Hdn'.
    - unfold half. auto. }
  unfold biI.
  split; [subst x'; now apply zs_len2|]. split; [subst r'; now apply zs_len2|]. split; [subst rr'; now apply zs_len2|].
  split; [constructor; auto|]. split; [constructor; auto|]. split; [constructor; auto|]. split; [constructor; auto|].
  split; [cbn [length] in *; lia|].
  split; [|split].
  - exists r, rr, (zr :: R'), (zrr :: RR'), (p :: P'), (pp :: PP'), qn, qqn, alpha'.
    split; [reflexivity|]. split; [reflexivity|]. split; [reflexivity|]. split; [reflexivity|].
    split; [exact Eqn|]. split; [exact Eqqn|]. split; [exact Er'|]. split; [exact Err'|].
    split; [exact Had'|]. split; [exact Hrho|]. split; [exact Ha' | exact Hb'].
  - constructor; [|exact BO].
    change ((r, rr) :: combine (zr :: R') (zrr :: RR')) with (combine (r :: zr :: R') (rr :: zrr :: RR')).
    destruct Ha' as (_ & h2a' & _). destruct Hb' as (_ & h2b' & _).
    apply bo_against; [exact h2a' | exact h2b'].
  - cbn [combine tl]. constructor; [cbn [fst snd]; now rewrite <- Hrho2eq|]. exact NZ.
Qed.

(* ---- the body of the model is such a step ---- *)
Definition bi_lens (s : @bicg_st A) : Prop :=
  length (bi_x s) = n /\ length (bi_r s) = n /\ length (bi_rr s) = n /\ length (bi_z s) = n /\
  length (bi_zz s) = n /\ length (bi_p s) = n /\ length (bi_pp s) = n /\ bi_z s = bi_r s.

Lemma bicg_body_step itol tol bnrm i s out : itol = 1 \/ itol = 2 -> bi_lens s ->
  bicg_body mulA mulAT n itol tol bnrm i s = Ok out ->
  exists x' r' rr' p pp rho,
    bicg_step i (bi_x s) (bi_r s) (bi_rr s) (bi_p s) (bi_pp s) (bi_rho2 s) x' r' rr' p pp rho /\
    ((exists X, out = Return (IOk i, x', mkG r' X 1)) \/
     (exists zz' err X, length zz' = n /\ out = Continue (mkBI x' r' rr' r' zz' p pp rho err X))).
Proof.
  intros Hit (Hx & Hr & Hrr & Hz & Hzz & Hp & Hpp & Ez) H.
  unfold bicg_body in H. rewrite Ez in H.
  rewrite ident_pre_ok in H by auto. cbn [bind] in H.
  rewrite dot_ok in H by lia. cbn [bind] in H.
  set (rho := dot_raw (bi_r s) (bi_rr s)) in *.
  assert (Hdir : exists p pp, length p = n /\ length pp = n /\
            (if i =? 1 then Ok (bi_r s, bi_rr s)
             else let* beta := div rho (bi_rho2 s) in
                  let* p := vadd (bi_r s) (vscale (bi_p s) beta) in
                  let* pp := vadd (bi_rr s) (vscale (bi_pp s) beta) in Ok (p, pp)) = Ok (p, pp) /\
            (if i =? 1 then p = bi_r s /\ pp = bi_rr s
             else exists beta, div rho (bi_rho2 s) = Ok beta /\ p = zipw add (bi_r s) (vscale (bi_p s) beta) /\
                               pp = zipw add (bi_rr s) (vscale (bi_pp s) beta))).
  { destruct (i =? 1).
    - exists (bi_r s), (bi_rr s). auto.
    - apply bind_ok in H as ((p0 & pp0) & Eppp & _).
      apply bind_ok in Eppp as (beta & Ebeta & Eppp).
      exists (zipw add (bi_r s) (vscale (bi_p s) beta)), (zipw add (bi_rr s) (vscale (bi_pp s) beta)).
      split; [now apply zs_len2|]. split; [now apply zs_len2|]. split.
      + rewrite Ebeta. cbn [bind]. unfold vadd. rewrite !vscale_length, Hr, Hrr, Hp, Hpp, Nat.eqb_refl. reflexivity.
      + exists beta. auto. }
  destruct Hdir as (p & pp & Hpl & Hppl & Eppp & Hdirspec). rewrite Eppp in H. cbn [bind] in H.
  apply bind_ok in H as (z0 & Ez0 & H). assert (Hz0 : length z0 = n) by (eapply mulA_len2; eauto).
  rewrite dot_ok in H by lia. cbn [bind] in H.
  apply bind_ok in H as (alpha & Ea & H). apply bind_ok in H as (zz' & Ezz' & H).
  assert (Hzz' : length zz' = n) by (eapply mulAT_len2; eauto).
  unfold vadd, vsub in H. rewrite !vscale_length, Hx, Hr, Hrr, Hpl, Hz0, Hzz', Nat.eqb_refl in H. cbn [bind] in H.
  rewrite ident_pre_ok in H by (auto; now apply zs_len2). cbn [bind] in H.
  apply bind_ok in H as (err1 & _ & H). apply bind_ok in H as (err & _ & H). cbv zeta in H.
  exists (zipw add (bi_x s) (vscale p alpha)), (zipw sub (bi_r s) (vscale z0 alpha)),
         (zipw sub (bi_rr s) (vscale zz' alpha)), p, pp, rho.
  split.
  - split; [reflexivity|]. split; [exact Hdirspec|]. exists z0, zz', alpha. repeat split; auto.
  - destruct (leb err tol); injection H as <-.
    + left. destruct Hit as [-> | ->]; cbn [Nat.eqb]; eauto.
    + right. do 3 eexists. split; [exact Hzz' | reflexivity].
Qed.

(* ---- the bound ---- *)
Lemma combine_lens (R RR : list (list F)) : Forall lenv R -> Forall lenv RR ->
  Forall (fun ab : list F * list F => length (fst ab) = n /\ length (snd ab) = n) (combine R RR).
Proof.
  intros H1 H2. apply Forall_forall. intros [u u'] Hin. rewrite Forall_forall in H1, H2. cbn [fst snd]. split.
  - apply H1. eapply in_combine_l; eauto.
  - apply H2. eapply in_combine_r; eauto.
Qed.

Lemma Forall_tl {X} (P : X -> Prop) (l : list X) : Forall P l -> Forall P (tl l).
Proof. destruct l; cbn; auto. intros H. exact (Forall_inv_tail H). Qed.
Lemma FOP_tl {X} (Q : X -> X -> Prop) (l : list X) : ForallOrdPairs Q l -> ForallOrdPairs Q (tl l).
Proof. destruct l; cbn; auto. intros H. apply FOP_cons_inv in H. tauto. Qed.

(* at every state: all history pairs but the newest are bi-orthogonal with nonzero pairings, hence at most n *)
Lemma biI_bound x r rr p pp rho2 R RR P PP : biI x r rr p pp rho2 R RR P PP -> length R <= n + 1.
Proof.
  intros (_ & _ & _ & HlR & HlRR & _ & _ & HlenR & _ & BO & NZ).
  assert (Hb : length (tl (combine R RR)) <= n).
  { apply (biorth_bound FL n); auto.
    - apply Forall_tl. now apply combine_lens.
    - apply FOP_tl. apply FOP_cons_inv in BO. tauto. }
  assert (Hc : length (combine R RR) = length R) by (rewrite combine_length; lia).
  destruct (combine R RR) as [|a l]; cbn [tl length] in *; lia.
Qed.

(* ... and all of them when the next iteration has divided by rho2 *)
Lemma biI_bound_nz x r rr p pp rho2 R RR P PP : biI x r rr p pp rho2 R RR P PP -> rho2 <> zero -> length R <= n.
Proof.
  intros (_ & _ & _ & HlR & HlRR & _ & _ & HlenR &
          (zr & zrr & R' & RR' & P' & PP' & q & qq & alpha & -> & -> & _ & _ & _ & _ & _ & _ & _ & Hrho2 & _) & BO & NZ) Hnz.
  assert (Hb : length (combine (zr :: R') (zrr :: RR')) <= n).
  { apply (biorth_bound FL n).
    - now apply combine_lens.
    - apply FOP_cons_inv in BO. tauto.
    - cbn [combine tl] in *. constructor; [cbn [fst snd]; now rewrite <- Hrho2 | exact NZ]. }
  rewrite combine_length in Hb. lia.
Qed.

(* in exact arithmetic solve_bicg either panics (a division by zero: the breakdown the code has no test for) or answers
   Ok within n+1 iterations: it can never exhaust a budget >= n+2 *)
Theorem bicg_breakdown_or_terminates itol (b x0 : list F) max tol res x g :
  n + 2 <= max ->
  solve_bicg mulA mulAT n n itol b x0 max tol = Ok (res, x, g) ->
  exists k, res = IOk k /\ k <= n + 1.
Proof.
  intros Hmax H. unfold solve_bicg in H.
  apply bind_ok in H as (((r0 & bnrm) & z) & Estart & H).
  pose proof (bicg_start_z_is_r mulA n n itol b x0 r0 bnrm z Estart) as ->.
  pose proof Estart as E2. apply bicg_start_Ok in E2 as (Hit & _).
  assert (Hlens : length x0 = n /\ length r0 = n).
  { unfold bicg_start in Estart. apply bind_ok in Estart as (u & Hg & E). apply guards_Ok in Hg as (Hb & _ & Hx).
    apply bind_ok in E as (ax & Eax & E). apply bind_ok in E as (r' & Er & E).
    apply bind_ok in E as (bz & _ & E). injection E as <- _ _.
    apply vsub_Ok in Er as (Hl & ->). split; [lia|]. rewrite zipw_length; lia. }
  destruct Hlens as (Hx0 & Hr0).
  apply bind_ok in H as (err0 & _ & H). destruct (leb err0 tol).
  { injection H as <- _ _. exists 0. split; [reflexivity | lia]. }
  set (bd := bicg_body mulA mulAT n itol tol (nz bnrm)) in *.
  set (s0 := mkBI x0 r0 r0 r0 (zeros n) (zeros n) (zeros n) one err0 (trace0 x0 err0 tol)) in *.
  assert (Hl0 : bi_lens s0).
  { unfold bi_lens, s0; cbn. pose proof (@zeros_length A n). repeat split; auto. }
  set (Inv := fun (i : nat) (s : @bicg_st A) => bi_lens s /\
         ((i = 1 /\ s = s0) \/
          (2 <= i /\ exists R RR P PP, biI (bi_x s) (bi_r s) (bi_rr s) (bi_p s) (bi_pp s) (bi_rho2 s) R RR P PP /\
                                       length R = i - 1))).
  assert (Hstep : forall i s s', Inv i s -> bd i s = Ok (Continue s') -> Inv (S i) s').
  { intros i s s' (Hls & Hcase) Eb.
    destruct (bicg_body_step itol tol (nz bnrm) i s _ Hit Hls Eb)
      as (x' & r' & rr' & p & pp & rho & Hstp & [(X' & Eo)|(zz' & err & X & Hzz' & Eo)]); [discriminate Eo|].
    injection Eo as ->. cbn [bi_x bi_r bi_rr bi_p bi_pp bi_rho2].
    assert (HI : exists R RR P PP, biI x' r' rr' p pp rho R RR P PP /\ length R = S i - 1).
    { destruct Hcase as [(-> & ->)|(Hi & R & RR & P & PP & HI & HlR)].
      - exists [r0], [r0], [p], [pp]. split; [|reflexivity].
        apply (bi_first_step x0 r0 x' r' rr' p pp rho (zeros n) (zeros n) one Hx0 Hr0). exact Hstp.
      - exists (bi_r s :: R), (bi_rr s :: RR), (p :: P), (pp :: PP). split; [|cbn [length]; lia].
        apply (bi_next_step i (bi_x s) (bi_r s) (bi_rr s) (bi_p s) (bi_pp s) (bi_rho2 s) R RR P PP); auto.
        apply Nat.eqb_neq. lia. }
    destruct HI as (R & RR & P & PP & HI & HlR).
    split.
    - destruct HI as (Hx' & Hr' & Hrr' & _ & _ & HlP & HlPP & _ & (zr & zrr & R' & RR' & P' & PP' & _ & _ & _ & _ & _ & -> & -> & _) & _).
      unfold bi_lens; cbn. repeat split; auto; [exact (Forall_inv HlP) | exact (Forall_inv HlPP)].
    - right. split; [lia|]. exists R, RR, P, PP. auto. }
  assert (H0 : Inv 1 s0) by (split; [exact Hl0 | left; auto]).
  destruct (iloop_char bd (bicg_final itol) Inv Hstep max 1 s0 _ H0 H)
    as [(i & s & Hi & (Hls & Hcase) & Eb)|(s & (Hls & Hcase) & E)].
  - destruct (bicg_body_step itol tol (nz bnrm) i s _ Hit Hls Eb)
      as (x' & r' & rr' & p & pp & rho & Hstp & [(X' & Eo)|(zz' & err & X & Hzz' & Eo)]); [|discriminate Eo].
    injection Eo as -> _ _. exists i. split; [reflexivity|].
    destruct Hcase as [(-> & _)|(Hi2 & R & RR & P & PP & HI & HlR)]; [lia|].
    destruct Hstp as (_ & Hdir & _). replace (i =? 1) with false in Hdir by (symmetry; apply Nat.eqb_neq; lia).
    destruct Hdir as (beta & Ebeta & _). apply (div_Ok_inv FL) in Ebeta as (Hnz & _).
    pose proof (biI_bound_nz _ _ _ _ _ _ _ _ _ _ HI Hnz). lia.
  - exfalso. destruct Hcase as [(Hi & _)|(_ & R & RR & P & PP & HI & HlR)]; [lia|].
    pose proof (biI_bound _ _ _ _ _ _ _ _ _ _ HI). lia.
Qed.

(* the invariant along every run of the loop started with the shadow residual equal to the residual: at every state reached
   after k >= 1 steps there are histories R = [r_{k-1};..;r_0], RR = [rr_{k-1};..;rr_0] (and directions P, PP) such that the
   pairs (r_k, rr_k), (r_{k-1}, rr_{k-1}), .., (r_0, rr_0) are mutually bi-orthogonal: <r_i, rr_j> = 0 for i <> j *)
Theorem bicg_biorthogonality itol tol bnrm (s0 : @bicg_st A) i s :
  itol = 1 \/ itol = 2 -> bi_lens s0 -> bi_rr s0 = bi_r s0 -> 2 <= i ->
  reaches (bicg_body mulA mulAT n itol tol bnrm) 1 s0 i s ->
  exists R RR P PP, length R = i - 1 /\ length RR = i - 1 /\
    ForallOrdPairs bo ((bi_r s, bi_rr s) :: combine R RR) /\
    biI (bi_x s) (bi_r s) (bi_rr s) (bi_p s) (bi_pp s) (bi_rho2 s) R RR P PP.
Proof.
  intros Hit Hl0 Hsh Hi Hr.
  assert (G : bi_lens s /\ ((i = 1 /\ s = s0) \/
            (2 <= i /\ exists R RR P PP, biI (bi_x s) (bi_r s) (bi_rr s) (bi_p s) (bi_pp s) (bi_rho2 s) R RR P PP /\
                                         length R = i - 1))).
  { clear Hi. induction Hr as [|i s s' Hr IH Eb].
    - split; auto.
    - destruct IH as (Hls & Hcase).
      destruct (bicg_body_step itol tol bnrm i s _ Hit Hls Eb)
        as (x' & r' & rr' & p & pp & rho & Hstp & [(X' & Eo)|(zz' & err & X & Hzz' & Eo)]); [discriminate Eo|].
      injection Eo as ->. cbn [bi_x bi_r bi_rr bi_p bi_pp bi_rho2].
      assert (HI : exists R RR P PP, biI x' r' rr' p pp rho R RR P PP /\ length R = S i - 1).
      { destruct Hcase as [(-> & ->)|(Hi & R & RR & P & PP & HI & HlR)].
        - destruct Hl0 as (Hx0 & Hr0 & _). rewrite Hsh in Hstp.
          exists [bi_r s0], [bi_r s0], [p], [pp]. split; [|reflexivity].
          exact (bi_first_step (bi_x s0) (bi_r s0) x' r' rr' p pp rho _ _ _ Hx0 Hr0 Hstp).
        - exists (bi_r s :: R), (bi_rr s :: RR), (p :: P), (pp :: PP). split; [|cbn [length]; lia].
          apply (bi_next_step i (bi_x s) (bi_r s) (bi_rr s) (bi_p s) (bi_pp s) (bi_rho2 s) R RR P PP); auto.
          apply Nat.eqb_neq. lia. }
      destruct HI as (R & RR & P & PP & HI & HlR). split.
      + destruct HI as (Hx' & Hr' & Hrr' & _ & _ & HlP & HlPP & _ & (zr & zrr & R' & RR' & P' & PP' & _ & _ & _ & _ & _ & -> & -> & _) & _).
        unfold bi_lens; cbn. repeat split; auto; [exact (Forall_inv HlP) | exact (Forall_inv HlPP)].
      + right. split; [lia|]. exists R, RR, P, PP. auto. }
  destruct G as (_ & [(-> & _)|(_ & R & RR & P & PP & HI & HlR)]); [lia|].
  exists R, RR, P, PP. split; [exact HlR|].
  pose proof HI as (_ & _ & _ & _ & _ & _ & _ & HlenR & _ & BO & _).
  split; [lia|]. split; [exact BO | exact HI].
Qed.

(* the start pair stays in the history *)
Lemma bicg_reach_first itol tol bnrm (s0 : @bicg_st A) i s :
  itol = 1 \/ itol = 2 -> bi_lens s0 -> bi_rr s0 = bi_r s0 ->
  reaches (bicg_body mulA mulAT n itol tol bnrm) 1 s0 i s ->
  bi_lens s /\ ((i = 1 /\ s = s0) \/
    (2 <= i /\ exists R RR P PP, biI (bi_x s) (bi_r s) (bi_rr s) (bi_p s) (bi_pp s) (bi_rho2 s) R RR P PP /\
                 In (bi_r s0, bi_r s0) (combine R RR))).
Proof.
  intros Hit Hl0 Hsh Hr. induction Hr as [|i s s' Hr IH Eb].
  - split; auto.
  - destruct IH as (Hls & Hcase).
    destruct (bicg_body_step itol tol bnrm i s _ Hit Hls Eb)
      as (x' & r' & rr' & p & pp & rho & Hstp & [(X' & Eo)|(zz' & err & X & Hzz' & Eo)]); [discriminate Eo|].
    injection Eo as ->. cbn [bi_x bi_r bi_rr bi_p bi_pp bi_rho2].
    assert (HI : exists R RR P PP, biI x' r' rr' p pp rho R RR P PP /\ In (bi_r s0, bi_r s0) (combine R RR)).
    { destruct Hcase as [(-> & ->)|(Hi & R & RR & P & PP & HI & Hin)].
      - destruct Hl0 as (Hx0 & Hr0 & _). rewrite Hsh in Hstp.
        exists [bi_r s0], [bi_r s0], [p], [pp]. split; [|now left].
        exact (bi_first_step (bi_x s0) (bi_r s0) x' r' rr' p pp rho _ _ _ Hx0 Hr0 Hstp).
      - exists (bi_r s :: R), (bi_rr s :: RR), (p :: P), (pp :: PP). split; [|now right].
        apply (bi_next_step i (bi_x s) (bi_r s) (bi_rr s) (bi_p s) (bi_pp s) (bi_rho2 s) R RR P PP); auto.
        apply Nat.eqb_neq. lia. }
    destruct HI as (R & RR & P & PP & HI & Hin). split.
    + destruct HI as (Hx' & Hr' & Hrr' & _ & _ & HlP & HlPP & _ & (zr & zrr & R' & RR' & P' & PP' & _ & _ & _ & _ & _ & -> & -> & _) & _).
      unfold bi_lens; cbn. repeat split; auto; [exact (Forall_inv HlP) | exact (Forall_inv HlPP)].
    + right. split; [apply reaches_ge in Hr; lia|]. exists R, RR, P, PP. auto.
Qed.

(* the solver as a whole, ANY square matrix: whenever at least one iteration was performed the final residual -- the true
   residual b - A x (residual_invariant_bicg) -- is orthogonal to the initial residual b - A x0 (= the initial shadow residual) *)
Theorem solve_bicg_residual_orth_initial itol (b x0 : list F) max tol res x g :
  solve_bicg mulA mulAT n n itol b x0 max tol = Ok (res, x, g) ->
  g_exit g = 1 \/ (g_exit g = 2 /\ 1 <= max) ->
  exists ax0, mulA x0 = Ok ax0 /\ dot_raw (g_t g) (zipw sub b ax0) = zero.
Proof.
  intros H Hex. unfold solve_bicg in H.
  apply bind_ok in H as (((r0 & bnrm) & z) & Estart & H).
  pose proof (bicg_start_z_is_r mulA n n itol b x0 r0 bnrm z Estart) as ->.
  pose proof Estart as E2. apply bicg_start_Ok in E2 as (Hit & _).
  assert (Hfacts : exists ax0, mulA x0 = Ok ax0 /\ r0 = zipw sub b ax0 /\ length x0 = n /\ length r0 = n).
  { unfold bicg_start in Estart. apply bind_ok in Estart as (u & Hg & E). apply guards_Ok in Hg as (Hb & _ & Hx).
    apply bind_ok in E as (ax & Eax & E). apply bind_ok in E as (r' & Er & E).
    apply bind_ok in E as (bz & _ & E). injection E as <- _ _.
    apply vsub_Ok in Er as (Hl & ->). exists ax. repeat split; auto; try lia. rewrite zipw_length; lia. }
  destruct Hfacts as (ax0 & Eax0 & Er0 & Hx0 & Hr0). exists ax0. split; auto. rewrite <- Er0.
  apply bind_ok in H as (err0 & _ & H). destruct (leb err0 tol).
  { injection H as _ _ <-. cbn in Hex. destruct Hex as [Hex|(Hex & _)]; discriminate Hex. }
  set (bd := bicg_body mulA mulAT n itol tol (nz bnrm)) in *.
  set (s0 := mkBI x0 r0 r0 r0 (zeros n) (zeros n) (zeros n) one err0 (trace0 x0 err0 tol)) in *.
  assert (Hl0 : bi_lens s0).
  { unfold bi_lens, s0; cbn. pose proof (@zeros_length A n). repeat split; auto. }
  assert (Hsh : bi_rr s0 = bi_r s0) by reflexivity.
  assert (Hkey : forall xx r rr p pp rho2 R RR P PP, biI xx r rr p pp rho2 R RR P PP ->
                   In (r0, r0) (combine R RR) -> dot_raw r r0 = zero).
  { intros xx r rr p pp rho2 R RR P PP HI Hin. destruct HI as (_ & _ & _ & _ & _ & _ & _ & _ & _ & BO & _).
    apply FOP_cons_inv in BO as (BO & _). rewrite Forall_forall in BO. destruct (BO _ Hin) as (H1 & _). exact H1. }
  apply iloop_reach in H as [(i & s & Hi & Hr & Eb)|(s & Hr & E)].
  - destruct (bicg_reach_first itol tol (nz bnrm) s0 i s Hit Hl0 Hsh Hr) as (Hls & Hcase).
    destruct (bicg_body_step itol tol (nz bnrm) i s _ Hit Hls Eb)
      as (x' & r' & rr' & p & pp & rho & Hstp & [(X' & Eo)|(zz' & err & X & Hzz' & Eo)]); [|discriminate Eo].
    injection Eo as _ _ ->. cbn [g_t].
    destruct Hcase as [(-> & ->)|(Hi2 & R & RR & P & PP & HI & Hin)].
    + change (bi_rr s0) with (bi_r s0) in Hstp.
      pose proof (bi_first_step (bi_x s0) (bi_r s0) x' r' rr' p pp rho _ _ _ Hx0 Hr0 Hstp) as HI'.
      apply (Hkey _ _ _ _ _ _ _ _ _ _ HI'). now left.
    + assert (HI' : biI x' r' rr' p pp rho (bi_r s :: R) (bi_rr s :: RR) (p :: P) (pp :: PP)).
      { apply (bi_next_step i (bi_x s) (bi_r s) (bi_rr s) (bi_p s) (bi_pp s) (bi_rho2 s) R RR P PP); auto.
        apply Nat.eqb_neq. lia. }
      apply (Hkey _ _ _ _ _ _ _ _ _ _ HI'). now right.
  - unfold bicg_final in E. injection E as -> -> ->. cbn [g_t g_exit] in *.
    destruct Hex as [Hex|(_ & Hmax)]; [discriminate Hex|].
    destruct (bicg_reach_first itol tol (nz bnrm) s0 _ s Hit Hl0 Hsh Hr) as (Hls & Hcase).
    destruct Hcase as [(Hi & _)|(_ & R & RR & P & PP & HI & Hin)]; [lia|].
    destruct Hls as (_ & _ & _ & _ & _ & _ & _ & Ez). rewrite Ez. destruct (itol =? 2); exact (Hkey _ _ _ _ _ _ _ _ _ _ HI Hin).
Qed.

End BiCGRun.

(* for the implementation's own matrix type, any field *)
Theorem bicg_breakdown_or_terminates_sparse {A : SArith} (FL : FieldLaws (SA A))
    (s : Sparse.sparse (SA A)) itol (b x0 : list (T (SA A))) max tol res x g :
  SparseBase.wfS s -> Sparse.sp_rows s + 2 <= max ->
  run_sparse (BiCG itol) s b x0 max tol = Ok (res, x, g) ->
  exists k, res = IOk k /\ k <= Sparse.sp_rows s + 1.
Proof.
  intros Hwf Hmax H.
  destruct (run_sparse_square (BiCG itol) s b x0 max tol _ H) as (Hsq & Hb & Hx).
  pose proof (FL_RingLaws FL) as RL.
  pose proof (sp_mul_LinOp RL s (Sparse.sp_rows s) Hwf eq_refl (eq_sym Hsq)) as LO.
  pose proof (sp_tmul_LinOp RL s (Sparse.sp_rows s) Hwf eq_refl (eq_sym Hsq)) as LOT.
  pose proof (sp_mul_AdjOp RL s (Sparse.sp_rows s) Hwf eq_refl (eq_sym Hsq)) as ADJ.
  unfold run_sparse in H. cbn [run] in H. rewrite <- Hsq in H.
  exact (bicg_breakdown_or_terminates FL (Sparse.sp_rows s) (Sparse.sp_mul s) (Sparse.sp_tmul s) LO LOT ADJ itol b x0 max tol res x g Hmax H).
Qed.

Theorem bicg_final_residual_orth_initial_sparse {A : SArith} (FL : FieldLaws (SA A))
    (s : Sparse.sparse (SA A)) itol (b x0 : list (T (SA A))) max tol res x g :
  SparseBase.wfS s ->
  run_sparse (BiCG itol) s b x0 max tol = Ok (res, x, g) ->
  g_exit g = 1 \/ (g_exit g = 2 /\ 1 <= max) ->
  dot_raw (zipw sub b (sp_apply s x)) (zipw sub b (sp_apply s x0)) = zero.
Proof.
  intros Hwf H Hex.
  destruct (run_sparse_square (BiCG itol) s b x0 max tol _ H) as (Hsq & Hb & Hx).
  pose proof (FL_RingLaws FL) as RL.
  pose proof (sp_mul_LinOp RL s (Sparse.sp_rows s) Hwf eq_refl (eq_sym Hsq)) as LO.
  pose proof (sp_tmul_LinOp RL s (Sparse.sp_rows s) Hwf eq_refl (eq_sym Hsq)) as LOT.
  pose proof (sp_mul_AdjOp RL s (Sparse.sp_rows s) Hwf eq_refl (eq_sym Hsq)) as ADJ.
  destruct (run_sparse_tracks FL (BiCG itol) s b x0 max tol res x g Hwf H) as (Eg & _).
  unfold run_sparse in H. cbn [run] in H. rewrite <- Hsq in H.
  destruct (solve_bicg_residual_orth_initial FL (Sparse.sp_rows s) (Sparse.sp_mul s) (Sparse.sp_tmul s) LO LOT ADJ
              itol b x0 max tol res x g H Hex) as (ax0 & Eax0 & Ho).
  apply (sp_mul_Ok_inv RL) in Eax0 as ->; auto; [|lia]. now rewrite <- Eg.
Qed.
