(* Proofs/Round2MeshB.v -- package round2, item 4 (C15/C19 exactness at binary64, part 3):
   Mesh1D<f64,f64>::get_interpolated_vars (Model/Mesh.v: interp1) at the primitive-float instance AF.
   Setting: node coordinates on a dyadic grid x_k = X_k 2^e, strictly increasing, the grid no finer than the snapping
   window (0 < snap <= 2^e; for the code's 1e-7: e >= -23), the argument x = Xx 2^e on the same grid.  Then
     - the cell test of the code is decided exactly by the integers: cell (l, r) matches iff Xl <= Xx <= Xr
       (in_cell_grid: all differences are exact, |xl - x| < snap iff Xl = Xx);
     - the loop returns the line of the LAST matching cell (as over R, Proofs/MeshInterp.v; at AF no cell can panic);
     - if that cell has width 2^P 2^e and its nodal data lie on a grid 2^g (integer-valued data: g = 0) with
       numerators < 2^53 / 2^P, every operation of  left + ((right - left) / (xr - xl)) * (x - xl)  is exact:
       the result is the linear interpolant over the reals; at a node it returns that node's values.
   Built on the dyadic invariant Dy of Proofs/Round2Lin.v. *)
From Coq Require Import ZArith Reals Floats Lia Lra List Bool Arith.
From Flocq Require Import Core.Core IEEE754.BinarySingleNaN IEEE754.PrimFloat.
From OV Require Import Base.Panic Base.Arith Model.Vector Model.Mesh Inst.FloatInst Proofs.MeshBase
                       Proofs.ParDotFloat Proofs.ComplexRound Proofs.Round2Lin Proofs.Round2Mesh.
From OV Require gen.Params.
Import ListNotations.
Local Open Scope Z_scope.

(* ---------------------------------------------------------------- comparisons and |.| on dyadics *)
Lemma fltb_R x y : ffinite x -> ffinite y -> PrimFloat.ltb x y = Rlt_bool (FR x) (FR y).
Proof. intros Fx Fy. rewrite ltb_equiv. now apply Bltb_correct. Qed.

Lemma Rlt_bool_scaled (a b : Z) (B : R) : (0 < B)%R -> Rlt_bool (IZR a * B) (IZR b * B) = (a <? b).
Proof.
  intros HB. destruct (Z.ltb_spec a b) as [H|H].
  - apply Rlt_bool_true. apply Rmult_lt_compat_r; [exact HB|now apply IZR_lt].
  - apply Rlt_bool_false. apply Rmult_le_compat_r; [lra|now apply IZR_le].
Qed.

Lemma Dy_ltb x y a b e : Dy x a e -> Dy y b e -> PrimFloat.ltb x y = (a <? b).
Proof.
  intros [Fx Rx] [Fy Ry]. rewrite fltb_R by assumption. unfold FR. rewrite Rx, Ry.
  apply Rlt_bool_scaled, bpow_gt_0.
Qed.

(* Signed::abs of traits.rs: if x < 0 { -x } else { x } *)
Lemma Dy_f_abs x a e : Dy x a e -> Dy (f_abs x) (Z.abs a) e.
Proof.
  intros Hx. unfold f_abs. rewrite (Dy_ltb x 0%float a 0 e Hx (Dy_zero e)).
  destruct (Z.ltb_spec a 0) as [H|H].
  - rewrite Z.abs_neq by lia. now apply Dy_opp.
  - rewrite Z.abs_eq by lia. exact Hx.
Qed.

(* x * (a zero) is a zero *)
Lemma fmul_zero_gen x z : ffinite x -> ffinite z -> FR z = 0%R -> ffinite (x * z)%float /\ FR (x * z)%float = 0%R.
Proof.
  unfold ffinite, FR. intros Fx Fz Rz. rewrite mul_equiv.
  pose proof (Bmult_correct prec emax HP HM mode_NE (Prim2B x) (Prim2B z)) as H.
  rewrite Rz, Rmult_0_r, round_0 in H by apply valid_rnd_N.
  rewrite Rabs_R0, Rlt_bool_true in H by apply bpow_gt_0.
  destruct H as (H1 & H2 & _). rewrite H2, Fx, Fz. auto.
Qed.

(* |x - y| < snap for x, y on the grid 2^e and a window 0 < snap <= 2^e : exactly when x = y *)
Lemma snap_test_grid (snap x y : PrimFloat.float) (a b e : Z) :
  Dy x a e -> Dy y b e -> Z.abs (a - b) < 2 ^ 53 -> erange e ->
  ffinite snap -> (0 < FR snap <= bpow radix2 e)%R ->
  PrimFloat.ltb (f_abs (x - y)) snap = (a =? b).
Proof.
  intros Dx Dy' Hb He Fs [S0 S1].
  assert (D : Dy (f_abs (x - y)) (Z.abs (a - b)) e) by (apply Dy_f_abs, Dy_sub; assumption).
  destruct D as [Fd Rd]. rewrite fltb_R by assumption. unfold FR at 1. rewrite Rd.
  destruct (Z.eqb_spec a b) as [->|Hne].
  - rewrite Z.sub_diag. simpl (IZR (Z.abs 0)). rewrite Rmult_0_l. now apply Rlt_bool_true.
  - apply Rlt_bool_false. apply Rle_trans with (1 := S1).
    rewrite <- (Rmult_1_l (bpow radix2 e)) at 1. apply Rmult_le_compat_r; [apply bpow_ge_0|].
    apply IZR_le. lia.
Qed.

(* the cell test on the grid 2^e *)
Lemma in_cell_grid (snap xl xr x : PrimFloat.float) (Xl Xr Xx e : Z) :
  Dy xl Xl e -> Dy xr Xr e -> Dy x Xx e ->
  Z.abs (Xl - Xx) < 2 ^ 53 -> Z.abs (Xr - Xx) < 2 ^ 53 -> erange e ->
  ffinite snap -> (0 < FR snap <= bpow radix2 e)%R ->
  in_cell (A := AF) snap xl xr x = ((Xl <? Xx) && (Xx <? Xr)) || (Xl =? Xx) || (Xr =? Xx).
Proof.
  intros Dl Dr Dx Hl Hr He Fs Hs. unfold in_cell, gtb.
  change (@ltb AF) with PrimFloat.ltb. change (@abs AF) with f_abs. change (@sub AF) with PrimFloat.sub.
  rewrite (Dy_ltb xl x Xl Xx e Dl Dx), (Dy_ltb x xr Xx Xr e Dx Dr).
  rewrite (snap_test_grid snap xl x Xl Xx e), (snap_test_grid snap xr x Xr Xx e) by assumption.
  reflexivity.
Qed.

(* ---------------------------------------------------------------- the line of one cell at AF *)
Definition lerpF (xl xr x : PrimFloat.float) (L Rr : list PrimFloat.float) : list PrimFloat.float :=
  map (fun p => (fst p + (snd p - fst p) / (xr - xl) * (x - xl))%float) (combine L Rr).

Lemma mapM_divF (h : PrimFloat.float) (l : list PrimFloat.float) :
  mapM (fun x => @div AF x h) l = Ok (map (fun x => (x / h)%float) l).
Proof. induction l as [|a l IH]; cbn [mapM map]; [reflexivity|]. rewrite IH. reflexivity. Qed.

Lemma lerp_zipF xl xr x (L Rr : list PrimFloat.float) :
  @zipw AF PrimFloat.add L
     (map (fun d => (d * (x - xl))%float) (map (fun d => (d / (xr - xl))%float) (@zipw AF PrimFloat.sub Rr L)))
  = lerpF xl xr x L Rr.
Proof.
  revert Rr; induction L as [|l L IH]; intros [|r Rr]; try reflexivity.
  unfold zipw, lerpF in *. cbn [combine map fst snd]. now rewrite IH.
Qed.

Lemma zipw_lengthF (f : PrimFloat.float -> PrimFloat.float -> PrimFloat.float) (u v : list PrimFloat.float) :
  length (@zipw AF f u v) = Nat.min (length u) (length v).
Proof. unfold zipw. now rewrite map_length, combine_length. Qed.

Lemma line_closedF xl xr x (L Rr : list PrimFloat.float) :
  length L = length Rr ->
  (let* d := @vsub AF Rr L in
   let* deriv := @vdiv AF d (xr - xl)%float in
   @vadd AF L (vscale deriv (x - xl)%float)) = Ok (lerpF xl xr x L Rr).
Proof.
  intros Hlen. unfold vsub, vdiv, vadd, vscale. change (T AF) with PrimFloat.float in *.
  rewrite Hlen, Nat.eqb_refl. cbn [bind].
  rewrite mapM_divF. cbn [bind].
  change (@mul AF) with PrimFloat.mul. change (@add AF) with PrimFloat.add. change (@sub AF) with PrimFloat.sub.
  rewrite !map_length, zipw_lengthF, Hlen, Nat.min_id, Nat.eqb_refl.
  now rewrite lerp_zipF.
Qed.

Section InterpF.
Variable m : mesh1 AF PrimFloat.float.
Notation nodes := (m1_nodes m).
Notation xs k := (nth k (m1_nodes m) 0%float).
Notation row k := (nth k (m1_vars m) []).

Lemma row_lengthF k : wf1 m -> (k < length nodes)%nat -> length (row k) = m1_nvars m.
Proof.
  intros [Hlen HF] Hk. change (T AF) with PrimFloat.float in *. rewrite Forall_forall in HF. apply HF. apply nth_In. lia.
Qed.

Lemma get_nodes_vars1_okF k :
  wf1 m -> (k < length nodes)%nat -> @get_nodes_vars1 AF PrimFloat.float m k = Ok (row k).
Proof.
  intros [Hlen HF] Hk. unfold get_nodes_vars1. change (T AF) with PrimFloat.float in *.
  destruct (Nat.leb_spec (length nodes) k) as [|_]; [lia|].
  apply rd_ok. lia.
Qed.

Lemma cell_line_closedF k xl xr x :
  wf1 m -> (k + 1 < length nodes)%nat ->
  @cell_line AF m k xl xr x = Ok (lerpF xl xr x (row k) (row (k + 1))).
Proof.
  intros Hwf Hk. unfold cell_line. change (T AF) with PrimFloat.float in *.
  rewrite (get_nodes_vars1_okF k) by (auto; lia). cbn [bind].
  rewrite (get_nodes_vars1_okF (k + 1)) by (auto; lia). cbn [bind].
  apply line_closedF. rewrite !row_lengthF by (auto; lia). reflexivity.
Qed.

(* the loop: the LAST matching cell determines the result (at AF no cell can panic on a well-formed mesh) *)
Lemma interp_loop_lastF snap x k :
  wf1 m -> (k + 1 < length nodes)%nat ->
  @in_cell AF snap (xs k) (xs (k + 1)) x = true ->
  (forall j, (k < j)%nat -> (j + 1 < length nodes)%nat ->
             @in_cell AF snap (xs j) (xs (j + 1)) x = false) ->
  @interp1 AF snap m x = Ok (lerpF (xs k) (xs (k + 1)) x (row k) (row (k + 1))).
Proof.
  intros Hwf Hk Hin Hout. unfold interp1, usub. change (T AF) with PrimFloat.float in *.
  destruct (Nat.leb_spec 1 (length nodes)) as [_|]; [|lia]. cbn [bind].
  match goal with |- for_ 0 ?n ?b ?s = _ =>
    destruct (for_inv (fun i r => (k < i)%nat -> r = lerpF (xs k) (xs (k + 1)) x (row k) (row (k + 1))) 0 n b s)
      as (s' & E & Hs)
  end.
  - lia.
  - intros Hk0. lia.
  - intros i r Hi HI.
    rewrite (rd_ok nodes i 0%float) by lia. cbn [bind].
    rewrite (rd_ok nodes (i + 1) 0%float) by lia. cbn [bind].
    destruct (@in_cell AF snap (xs i) (xs (i + 1)) x) eqn:Ein.
    + rewrite cell_line_closedF by (auto; lia).
      eexists; split; [reflexivity|]. intros Hki.
      destruct (Nat.eq_dec i k) as [->|Hik]; [reflexivity|].
      rewrite Hout in Ein by lia. discriminate.
    + eexists; split; [reflexivity|]. intros Hki.
      destruct (Nat.eq_dec i k) as [->|Hik]; [congruence|].
      apply HI. lia.
  - rewrite E. f_equal. apply Hs. lia.
Qed.
End InterpF.

Lemma nth_lerpF xl xr x (L Rr : list PrimFloat.float) v : length L = length Rr -> (v < length L)%nat ->
  nth v (lerpF xl xr x L Rr) 0%float
  = (nth v L 0 + (nth v Rr 0 - nth v L 0) / (xr - xl) * (x - xl))%float.
Proof.
  intros Hlen Hv. unfold lerpF.
  set (f := fun p : PrimFloat.float * PrimFloat.float => (fst p + (snd p - fst p) / (xr - xl) * (x - xl))%float).
  rewrite (nth_indep _ 0%float (f (0%float, 0%float))) by (rewrite map_length, combine_length; lia).
  rewrite map_nth, combine_nth by exact Hlen. reflexivity.
Qed.

(* one component of the line of a cell of width 2^P 2^e, data on the grid 2^g, x on the grid 2^e inside the cell *)
Lemma lerp_value_dy (xl xr x Lv Rv : PrimFloat.float) (Xl Xx F0 F1 e g P : Z) :
  Dy xl Xl e -> Dy xr (Xl + 2 ^ P) e -> Dy x Xx e -> Dy Lv F0 g -> Dy Rv F1 g ->
  0 <= P <= 52 -> 0 <= Xx - Xl <= 2 ^ P ->
  erange e -> erange g -> erange (g - P - e) -> -1074 <= g - P ->
  Z.abs (F1 - F0) * 2 ^ P < 2 ^ 53 -> Z.abs F0 * 2 ^ P < 2 ^ 53 -> Z.abs F1 * 2 ^ P < 2 ^ 53 ->
  Dy (Lv + (Rv - Lv) / (xr - xl) * (x - xl))%float (F0 * 2 ^ P + (F1 - F0) * (Xx - Xl)) (g - P).
Proof.
  intros Dl Dr Dx DL DR HP Ht He Hg Hq Hgp HD H0 H1.
  assert (PP : 1 <= 2 ^ P <= 2 ^ 52) by (split; [apply (Z.pow_le_mono_r 2 0); lia|apply Z.pow_le_mono_r; lia]).
  assert (Ddx : Dy (xr - xl)%float 1 (P + e)).
  { apply (Dy_same _ (Xl + 2 ^ P - Xl) e); [apply Dy_sub; auto; lia|].
    replace (Xl + 2 ^ P - Xl) with (2 ^ P) by lia. rewrite IZR_pow2, bpow_plus by lia. ring. }
  assert (Dd : Dy (Rv - Lv)%float (F1 - F0) g) by (apply Dy_sub; auto; nia).
  assert (Dq : Dy ((Rv - Lv) / (xr - xl))%float (F1 - F0) (g - (P + e))).
  { apply Dy_div_pow2; auto; [nia|]. replace (g - (P + e)) with (g - P - e) by lia. exact Hq. }
  assert (Dt : Dy (x - xl)%float (Xx - Xl) e) by (apply Dy_sub; auto; lia).
  assert (Dp : Dy ((Rv - Lv) / (xr - xl) * (x - xl))%float ((F1 - F0) * (Xx - Xl)) (g - P)).
  { replace (g - P) with (g - (P + e) + e) by lia. apply Dy_mul; auto.
    - rewrite Z.abs_mul, (Z.abs_eq (Xx - Xl)) by lia. nia.
    - unfold erange in *. lia. }
  apply Dy_add; [apply Dy_shift; [lia|exact DL]|exact Dp| |unfold erange in *; lia].
  pose proof (abs_convex F0 F1 (Xx - Xl) (2 ^ P) (Z.max (Z.abs F0) (Z.abs F1)) Ht ltac:(lia) ltac:(lia)). nia.
Qed.

Lemma lerp_value_R (Xl Xx F0 F1 e g P : Z) : 0 <= P ->
  (IZR (F0 * 2 ^ P + (F1 - F0) * (Xx - Xl)) * bpow radix2 (g - P) =
   IZR F0 * bpow radix2 g + (IZR F1 * bpow radix2 g - IZR F0 * bpow radix2 g)
       / (IZR (Xl + 2 ^ P) * bpow radix2 e - IZR Xl * bpow radix2 e) * (IZR Xx * bpow radix2 e - IZR Xl * bpow radix2 e))%R.
Proof.
  intros HP. rewrite !plus_IZR, !mult_IZR, !minus_IZR, IZR_pow2 by lia.
  unfold Zminus. rewrite bpow_plus, bpow_opp.
  replace ((IZR Xl + bpow radix2 P) * bpow radix2 e - IZR Xl * bpow radix2 e)%R
    with (bpow radix2 P * bpow radix2 e)%R by ring.
  pose proof (bpow_gt_0 radix2 P). pose proof (bpow_gt_0 radix2 e). field. split; lra.
Qed.

Lemma incr_le (X : nat -> Z) n : (forall k, (k + 1 < n)%nat -> X k < X (k + 1)%nat) ->
  forall i j, (i <= j)%nat -> (j < n)%nat -> X i <= X j.
Proof.
  intros H i j Hij. induction Hij as [|j Hij IH]; intros Hj; [lia|].
  specialize (IH ltac:(lia)). specialize (H j). replace (j + 1)%nat with (S j) in H by lia. specialize (H ltac:(lia)). lia.
Qed.

Section InterpGrid.
Variable m : mesh1 AF PrimFloat.float.
Notation n := (length (m1_nodes m)).
Notation xs k := (nth k (m1_nodes m) 0%float).
Notation row k := (nth k (m1_vars m) []).

(* x on the grid 2^e of the node coordinates, the window no wider than the grid: the loop returns the line of the LAST
   cell j with X_j <= Xx <= X_{j+1} *)
Lemma interp_grid_cell (snap x : PrimFloat.float) (X : nat -> Z) (Xx e : Z) (j : nat) :
  wf1 m -> (j + 1 < n)%nat ->
  (forall k, (k < n)%nat -> Dy (xs k) (X k) e) ->
  (forall k, (k + 1 < n)%nat -> X k < X (k + 1)%nat) ->
  Dy x Xx e ->
  (forall k, (k < n)%nat -> Z.abs (X k - Xx) < 2 ^ 53) ->
  ffinite snap -> (0 < FR snap <= bpow radix2 e)%R -> erange e ->
  X j <= Xx <= X (j + 1)%nat -> (Xx = X (j + 1)%nat -> (j + 2 = n)%nat) ->
  interp1 (A := AF) snap m x = Ok (lerpF (xs j) (xs (j + 1)) x (row j) (row (j + 1))).
Proof.
  intros Hwf Hj HX Hinc Dx Hb Fs Hs He Hin Hlast.
  pose proof (incr_le X n Hinc) as Hmono.
  apply (interp_loop_lastF m snap x j Hwf Hj).
  - rewrite (in_cell_grid snap _ _ x (X j) (X (j + 1)%nat) Xx e); auto; try (apply HX; lia); try (apply Hb; lia).
    destruct (Z.ltb_spec (X j) Xx), (Z.ltb_spec Xx (X (j + 1)%nat)), (Z.eqb_spec (X j) Xx),
      (Z.eqb_spec (X (j + 1)%nat) Xx); try reflexivity; lia.
  - intros i Hji Hi.
    rewrite (in_cell_grid snap _ _ x (X i) (X (i + 1)%nat) Xx e); auto; try (apply HX; lia); try (apply Hb; lia).
    pose proof (Hmono (j + 1)%nat i ltac:(lia) ltac:(lia)) as M1. pose proof (Hinc i Hi) as M2.
    assert (Xx < X (j + 1)%nat) by (destruct (Z.eq_dec Xx (X (j + 1)%nat)) as [Eq|]; [specialize (Hlast Eq); lia|lia]).
    destruct (Z.ltb_spec (X i) Xx), (Z.ltb_spec Xx (X (i + 1)%nat)), (Z.eqb_spec (X i) Xx),
      (Z.eqb_spec (X (i + 1)%nat) Xx); try reflexivity; lia.
Qed.

Lemma lerpF_length xl xr x j : wf1 m -> (j + 1 < n)%nat ->
  length (row j) = length (row (j + 1)) /\ length (lerpF xl xr x (row j) (row (j + 1))) = m1_nvars m.
Proof.
  intros Hwf Hj.
  assert (Ll : length (row j) = length (row (j + 1))) by (rewrite !(row_lengthF m) by (auto; lia); reflexivity).
  split; [exact Ll|].
  unfold lerpF. rewrite map_length, combine_length. change (T AF) with PrimFloat.float in *.
  rewrite <- Ll, Nat.min_id. apply (row_lengthF m); auto; lia.
Qed.

(* ... and if cell j has width 2^P 2^e and its data lie on the grid 2^g: every operation of the cell's line is exact *)
Lemma interp_grid_dy (snap x : PrimFloat.float) (X F0 F1 : nat -> Z) (Xx e g P : Z) (j : nat) :
  wf1 m -> (j + 1 < n)%nat ->
  (forall k, (k < n)%nat -> Dy (xs k) (X k) e) ->
  (forall k, (k + 1 < n)%nat -> X k < X (k + 1)%nat) ->
  Dy x Xx e ->
  (forall k, (k < n)%nat -> Z.abs (X k - Xx) < 2 ^ 53) ->
  ffinite snap -> (0 < FR snap <= bpow radix2 e)%R -> erange e ->
  X j <= Xx <= X (j + 1)%nat -> (Xx = X (j + 1)%nat -> (j + 2 = n)%nat) ->
  X (j + 1)%nat - X j = 2 ^ P -> 0 <= P <= 52 ->
  (forall v, (v < m1_nvars m)%nat -> Dy (nth v (row j) 0%float) (F0 v) g) ->
  (forall v, (v < m1_nvars m)%nat -> Dy (nth v (row (j + 1)) 0%float) (F1 v) g) ->
  (forall v, (v < m1_nvars m)%nat ->
     Z.abs (F1 v - F0 v) * 2 ^ P < 2 ^ 53 /\ Z.abs (F0 v) * 2 ^ P < 2 ^ 53 /\ Z.abs (F1 v) * 2 ^ P < 2 ^ 53) ->
  erange g -> erange (g - P - e) -> -1074 <= g - P ->
  exists r, interp1 (A := AF) snap m x = Ok r /\ length r = m1_nvars m /\
    forall v, (v < m1_nvars m)%nat ->
      Dy (nth v r 0%float) (F0 v * 2 ^ P + (F1 v - F0 v) * (Xx - X j)) (g - P).
Proof.
  intros Hwf Hj HX Hinc Dx Hb Fs Hs He Hin Hlast HP HP' HF0 HF1 HFb Hg Hq Hgp.
  rewrite (interp_grid_cell snap x X Xx e j) by assumption.
  destruct (lerpF_length (xs j) (xs (j + 1)) x j Hwf Hj) as [Ll Lr].
  eexists; split; [reflexivity|]. split; [exact Lr|].
  intros v Hv. rewrite nth_lerpF; [|exact Ll|rewrite (row_lengthF m) by (auto; lia); exact Hv].
  destruct (HFb v Hv) as (B1 & B2 & B3).
  apply (lerp_value_dy _ _ _ _ _ (X j) Xx (F0 v) (F1 v) e g P); auto.
  - apply HX; lia.
  - replace (X j + 2 ^ P) with (X (j + 1)%nat) by lia. apply HX; lia.
  - lia.
Qed.

(* AT A NODE k that is not the last one, for ANY finite nodal data and ANY cell widths: the winning cell is cell k with
   x - xl = 0, the result is  left + q * 0  = left as soon as the slopes q = (right - left)/(xr - xl) are finite *)
Lemma interp_grid_node (snap x : PrimFloat.float) (X : nat -> Z) (e : Z) (k : nat) :
  wf1 m -> (k + 1 < n)%nat ->
  (forall i, (i < n)%nat -> Dy (xs i) (X i) e) ->
  (forall i, (i + 1 < n)%nat -> X i < X (i + 1)%nat) ->
  Dy x (X k) e ->
  (forall i, (i < n)%nat -> Z.abs (X i - X k) < 2 ^ 53) ->
  ffinite snap -> (0 < FR snap <= bpow radix2 e)%R -> erange e ->
  (forall v, (v < m1_nvars m)%nat ->
     ffinite (nth v (row k) 0%float) /\
     ffinite ((nth v (row (k + 1)) 0 - nth v (row k) 0) / (xs (k + 1) - xs k))%float) ->
  exists r, interp1 (A := AF) snap m x = Ok r /\ length r = m1_nvars m /\
    forall v, (v < m1_nvars m)%nat ->
      ffinite (nth v r 0%float) /\ FR (nth v r 0%float) = FR (nth v (row k) 0%float) /\
      (FR (nth v (row k) 0%float) <> 0%R -> nth v r 0%float = nth v (row k) 0%float).
Proof.
  intros Hwf Hk HX Hinc Dx Hb Fs Hs He Hq.
  pose proof (Hinc k Hk) as Hlt.
  rewrite (interp_grid_cell snap x X (X k) e k) by (auto; lia).
  destruct (lerpF_length (xs k) (xs (k + 1)) x k Hwf Hk) as [Ll Lr].
  eexists; split; [reflexivity|]. split; [exact Lr|].
  intros v Hv. rewrite nth_lerpF; [|exact Ll|rewrite (row_lengthF m) by (auto; lia); exact Hv].
  destruct (Hq v Hv) as [FL Fq].
  assert (D0 : Dy (x - xs k)%float (X k - X k) e) by (apply Dy_sub; auto; [apply HX; lia|rewrite Z.sub_diag; simpl; lia]).
  destruct D0 as [F0 R0]. rewrite Z.sub_diag, Rmult_0_l in R0.
  destruct (fmul_zero_gen _ _ Fq F0 R0) as [Fp Rp].
  exact (fadd_zero_r _ _ FL Fp Rp).
Qed.
End InterpGrid.

(* ---------------------------------------------------------------- the snapping window of the code *)
Lemma Dy_mesh_snap : Dy Params.MESH_SNAP 944473296573929 (-73).
Proof. dyw. Qed.

Lemma mesh_snap_window e : -23 <= e ->
  ffinite Params.MESH_SNAP /\ (0 < FR Params.MESH_SNAP <= bpow radix2 e)%R.
Proof.
  intros He. destruct Dy_mesh_snap as [F R]. split; [exact F|]. unfold FR. rewrite R. split.
  - apply Rmult_lt_0_compat; [apply IZR_lt; lia|apply bpow_gt_0].
  - apply Rle_trans with (bpow radix2 (-23)); [|apply bpow_le; lia].
    replace (-23) with (50 + -73) by lia. rewrite bpow_plus. apply Rmult_le_compat_r; [apply bpow_ge_0|].
    rewrite <- IZR_pow2 by lia. apply IZR_le. lia.
Qed.

Local Open Scope R_scope.
(* C19: Mesh1D::get_interpolated_vars at binary64 with the code's window 1e-7, coordinates on a grid 2^e coarser than
   the window (e >= -23), x on that grid in cell j (the last cell containing it), cell j of width 2^P 2^e with data
   on the grid 2^g (integer-valued data: g = 0): the result is finite and EXACTLY the linear interpolant over the
   reals; at the cell's left node it has the nodal values of that node, at the mesh's last node those of the last node *)
Lemma interp_exact_float_lemma (m : mesh1 AF PrimFloat.float) (x : PrimFloat.float) (X F0 F1 : nat -> Z)
  (Xx e g P : Z) (j : nat) :
  let n := length (m1_nodes m) in
  let xs := fun k => nth k (m1_nodes m) 0%float in
  let L := fun v => nth v (nth j (m1_vars m) []) 0%float in
  let Rr := fun v => nth v (nth (j + 1) (m1_vars m) []) 0%float in
  wf1 m -> (j + 1 < n)%nat ->
  (forall k, (k < n)%nat -> ffinite (xs k) /\ FR (xs k) = IZR (X k) * bpow radix2 e) ->
  (forall k, (k + 1 < n)%nat -> (X k < X (k + 1)%nat)%Z) ->
  ffinite x -> FR x = IZR Xx * bpow radix2 e ->
  (forall k, (k < n)%nat -> (Z.abs (X k - Xx) < 2 ^ 53)%Z) ->
  (-23 <= e <= 971)%Z ->
  (X j <= Xx <= X (j + 1)%nat)%Z -> (Xx = X (j + 1)%nat -> (j + 2 = n)%nat) ->
  (X (j + 1)%nat - X j = 2 ^ P)%Z -> (0 <= P <= 52)%Z ->
  (forall v, (v < m1_nvars m)%nat -> ffinite (L v) /\ FR (L v) = IZR (F0 v) * bpow radix2 g) ->
  (forall v, (v < m1_nvars m)%nat -> ffinite (Rr v) /\ FR (Rr v) = IZR (F1 v) * bpow radix2 g) ->
  (forall v, (v < m1_nvars m)%nat ->
     (Z.abs (F1 v - F0 v) * 2 ^ P < 2 ^ 53 /\ Z.abs (F0 v) * 2 ^ P < 2 ^ 53 /\ Z.abs (F1 v) * 2 ^ P < 2 ^ 53)%Z) ->
  (-1074 <= g <= 971)%Z -> (-1074 <= g - P - e <= 971)%Z -> (-1074 <= g - P)%Z ->
  exists r, interp1 (A := AF) Params.MESH_SNAP m x = Ok r /\ length r = m1_nvars m /\
    forall v, (v < m1_nvars m)%nat ->
      ffinite (nth v r 0%float) /\
      FR (nth v r 0%float)
        = FR (L v) + (FR (Rr v) - FR (L v)) / (FR (xs (j + 1)%nat) - FR (xs j)) * (FR x - FR (xs j)) /\
      (Xx = X j -> FR (nth v r 0%float) = FR (L v)) /\
      (Xx = X (j + 1)%nat -> FR (nth v r 0%float) = FR (Rr v)).
Proof.
  intros n xs L Rr Hwf Hj HX Hinc Fx Rx Hb He Hin Hlast HP HP' HF0 HF1 HFb Hg Hq Hgp.
  destruct (mesh_snap_window e ltac:(lia)) as [Fs Hs].
  destruct (interp_grid_dy m Params.MESH_SNAP x X F0 F1 Xx e g P j Hwf Hj HX Hinc (conj Fx Rx) Hb Fs Hs
              ltac:(unfold erange; lia) Hin Hlast HP HP' HF0 HF1 HFb Hg Hq Hgp) as (r & E & Lr & Hr).
  exists r. split; [exact E|]. split; [exact Lr|]. intros v Hv.
  destruct (Hr v Hv) as [Fr Rr']. split; [exact Fr|].
  destruct (HF0 v Hv) as [_ RL]. destruct (HF1 v Hv) as [_ RR].
  destruct (HX j ltac:(lia)) as [_ Rj]. destruct (HX (j + 1)%nat ltac:(lia)) as [_ Rj1].
  assert (Rv : FR (nth v r 0%float) = IZR (F0 v * 2 ^ P + (F1 v - F0 v) * (Xx - X j)) * bpow radix2 (g - P)) by exact Rr'.
  rewrite Rv. split; [|split].
  - rewrite RL, RR, Rj, Rj1, Rx. replace (X (j + 1)%nat) with (X j + 2 ^ P)%Z by lia. apply lerp_value_R. lia.
  - intros ->. rewrite RL, Z.sub_diag, Z.mul_0_r, Z.add_0_r, mult_IZR, IZR_pow2 by lia.
    unfold Zminus. rewrite bpow_plus, bpow_opp. field. apply Rgt_not_eq, bpow_gt_0.
  - intros ->. rewrite RR, HP. replace (F0 v * 2 ^ P + (F1 v - F0 v) * 2 ^ P)%Z with (F1 v * 2 ^ P)%Z by ring.
    rewrite mult_IZR, IZR_pow2 by lia. unfold Zminus. rewrite bpow_plus, bpow_opp. field. apply Rgt_not_eq, bpow_gt_0.
Qed.

(* ---------------------------------------------------------------- non-vacuity: nodes 0, 1/4, 3/4, 7/4; integer data *)
Definition ex_imeshF : mesh1 AF PrimFloat.float :=
  mkM1 (A := AF) 1 [0; 0.25; 0.75; 1.75]%float [[3]; [-5]; [7]; [2]]%float.
Definition ex_iX (k : nat) : Z := nth k [0; 1; 3; 7]%Z 0%Z.

Lemma ex_imeshF_wf : wf1 ex_imeshF.
Proof. split; [reflexivity|repeat constructor]. Qed.
Lemma ex_imeshF_nodes k : (k < 4)%nat ->
  ffinite (nth k (m1_nodes ex_imeshF) 0%float) /\
  FR (nth k (m1_nodes ex_imeshF) 0%float) = IZR (ex_iX k) * bpow radix2 (-2).
Proof. intros Hk. do 4 (destruct k as [|k]; [apply Dy_unfold; cbn; dyw|]). lia. Qed.
Lemma ex_imeshF_incr k : (k + 1 < 4)%nat -> (ex_iX k < ex_iX (k + 1))%Z.
Proof. intros Hk. do 3 (destruct k as [|k]; [cbn; lia|]). lia. Qed.
Lemma ex_imeshF_bound k : (k < 4)%nat -> (Z.abs (ex_iX k - 2) < 2 ^ 53)%Z.
Proof. intros Hk. do 4 (destruct k as [|k]; [cbn; lia|]). lia. Qed.
Lemma ex_imeshF_L v : (v < 1)%nat ->
  ffinite (nth v (nth 1 (m1_vars ex_imeshF) []) 0%float) /\
  FR (nth v (nth 1 (m1_vars ex_imeshF) []) 0%float) = IZR (-5) * bpow radix2 0.
Proof. intros Hv. destruct v as [|v]; [apply Dy_unfold; cbn; dyw|lia]. Qed.
Lemma ex_imeshF_R v : (v < 1)%nat ->
  ffinite (nth v (nth (1 + 1) (m1_vars ex_imeshF) []) 0%float) /\
  FR (nth v (nth (1 + 1) (m1_vars ex_imeshF) []) 0%float) = IZR 7 * bpow radix2 0.
Proof. intros Hv. destruct v as [|v]; [apply Dy_unfold; cbn; dyw|lia]. Qed.
Lemma ex_imeshF_x : ffinite 0.5%float /\ FR 0.5%float = IZR 2 * bpow radix2 (-2).
Proof. apply Dy_unfold. dyw. Qed.
(* inside cell 1; at the interior node 3/4 (both neighbouring cells match, the later one wins); at the last node *)
Example ex_imeshF_values :
  interp1 (A := AF) Params.MESH_SNAP ex_imeshF 0.5%float = Ok [1%float] /\
  interp1 (A := AF) Params.MESH_SNAP ex_imeshF 0.75%float = Ok [7%float] /\
  interp1 (A := AF) Params.MESH_SNAP ex_imeshF 1.75%float = Ok [2%float].
Proof. repeat split; vm_compute; reflexivity. Qed.

(* C19: at a node that is NOT the last one, with the code's window, node coordinates on a grid 2^e (e >= -23), ANY finite
   nodal data and ANY cell widths: the nodal values are returned exactly as soon as the slopes of the cell to the
   right are finite.  (At the LAST node the value is left + ((right-left)/w) * w, which is `right` only up to rounding
   unless w is a power of two: interp_last_node_inexact below.) *)
Lemma interp_node_exact_float_lemma (m : mesh1 AF PrimFloat.float) (x : PrimFloat.float) (X : nat -> Z) (e : Z) (k : nat) :
  let n := length (m1_nodes m) in
  let xs := fun i => nth i (m1_nodes m) 0%float in
  let L := fun v => nth v (nth k (m1_vars m) []) 0%float in
  let Rr := fun v => nth v (nth (k + 1) (m1_vars m) []) 0%float in
  wf1 m -> (k + 1 < n)%nat ->
  (forall i, (i < n)%nat -> ffinite (xs i) /\ FR (xs i) = IZR (X i) * bpow radix2 e) ->
  (forall i, (i + 1 < n)%nat -> (X i < X (i + 1)%nat)%Z) ->
  ffinite x -> FR x = FR (xs k) ->
  (forall i, (i < n)%nat -> (Z.abs (X i - X k) < 2 ^ 53)%Z) ->
  (-23 <= e <= 971)%Z ->
  (forall v, (v < m1_nvars m)%nat -> ffinite (L v) /\ ffinite ((Rr v - L v) / (xs (k + 1)%nat - xs k))%float) ->
  exists r, interp1 (A := AF) Params.MESH_SNAP m x = Ok r /\ length r = m1_nvars m /\
    forall v, (v < m1_nvars m)%nat ->
      ffinite (nth v r 0%float) /\ FR (nth v r 0%float) = FR (L v) /\
      (FR (L v) <> 0 -> nth v r 0%float = L v).
Proof.
  intros n xs L Rr Hwf Hk HX Hinc Fx Rx Hb He Hq.
  destruct (mesh_snap_window e ltac:(lia)) as [Fs Hs].
  assert (Dx : Dy x (X k) e).
  { split; [exact Fx|]. change (B2R (Prim2B x)) with (FR x). rewrite Rx. apply (HX k). lia. }
  exact (interp_grid_node m Params.MESH_SNAP x X e k Hwf Hk HX Hinc Dx Hb Fs Hs ltac:(unfold erange; lia) Hq).
Qed.

(* integer nodes 0, 49 and integer data 0, 1: at the first node the value is exact, at the LAST node it is not:
   0 + ((1 - 0)/49) * 49 = 1 - 2^-53 *)
Definition ex_imesh49 : mesh1 AF PrimFloat.float := mkM1 (A := AF) 1 [0; 49]%float [[0]; [1]]%float.
Example interp_last_node_inexact :
  interp1 (A := AF) Params.MESH_SNAP ex_imesh49 0%float = Ok [0%float] /\
  exists r, interp1 (A := AF) Params.MESH_SNAP ex_imesh49 49%float = Ok [r] /\
            PrimFloat.eqb r 1%float = false /\ PrimFloat.ltb r 1%float = true.
Proof. split; [vm_compute; reflexivity|]. eexists. split; [vm_compute; reflexivity|]. split; vm_compute; reflexivity. Qed.

Definition ex_i49X (k : nat) : Z := nth k [0; 49]%Z 0%Z.
Lemma ex_imesh49_wf : wf1 ex_imesh49.
Proof. split; [reflexivity|repeat constructor]. Qed.
Lemma ex_imesh49_nodes i : (i < 2)%nat ->
  ffinite (nth i (m1_nodes ex_imesh49) 0%float) /\
  FR (nth i (m1_nodes ex_imesh49) 0%float) = IZR (ex_i49X i) * bpow radix2 0.
Proof. intros Hk. do 2 (destruct i as [|i]; [apply Dy_unfold; cbn; dyw|]). lia. Qed.
Lemma ex_imesh49_slopes v : (v < 1)%nat ->
  ffinite (nth v (nth 0 (m1_vars ex_imesh49) []) 0%float) /\
  ffinite ((nth v (nth (0 + 1) (m1_vars ex_imesh49) []) 0 - nth v (nth 0 (m1_vars ex_imesh49) []) 0)
           / (nth (0 + 1) (m1_nodes ex_imesh49) 0 - nth 0 (m1_nodes ex_imesh49) 0))%float.
Proof. intros Hv. destruct v as [|v]; [split; vm_compute; reflexivity|lia]. Qed.
