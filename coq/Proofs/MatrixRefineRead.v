(* Proofs/MatrixRefineRead.v -- the value-returning operations against the list-of-rows specification,
   and histories that interleave them with the editing operations of Proofs/MatrixRefine.v.

   [rop]: get_row get_col multiply (matrix*vector) transpose neg + - (matrix) scale, the product on either
   side, eye, numel.  [sread X o] gives the result by its textbook formula over the rows ([vtab]/[tab]);
   [read_refines]: on a well-formed matrix the model returns exactly that value (abstracted by [abs_val]),
   leaves the matrix unchanged, and panics with the same kind exactly when the specification does.
   [hist_refines]: for every finite history of editing and reading operations (panicking operations are
   skipped, as in the correspondence check) the final states correspond and the list of returned values
   / panics is the same on both sides.  Not covered: the raw [OGet] and [ODiv] (see MatrixRefine.v). *)
From Coq Require Import List Arith Lia Bool ZArith.
From OV Require Import Base.Panic Base.Arith Model.Vector Model.Matrix Model.MatOps.
From OV Require Import Proofs.Matrix Proofs.MatrixArith Proofs.MatrixRefine.
Import ListNotations.

Section Read.
Context {A : Arith}.
Notation T := (T A).
Notation matrix := (matrix A).
Notation smat := (@smat A).

Inductive sval := SNone | SS (x : T) | SV (v : list T) | SM (X : smat) | SN (n : nat).
Definition abs_val (v : mval (A:=A)) : sval :=
  match v with
  | VNone => SNone | VS x => SS x | VV v => SV v | VM m => SM (absM m) | VN n => SN n
  end.

Definition vtab (n : nat) (f : nat -> T) : list T := map f (seq 0 n).
Lemma vsp_vtab n f v : vsp n f v -> v = vtab n f.
Proof.
  intros (Hl & He). apply (nth_ext _ _ zero (f 0)).
  - unfold vtab. now rewrite map_length, seq_length.
  - intros k Hk. unfold vtab. rewrite He by lia.
    now rewrite (map_nth f (seq 0 n) 0 k), seq_nth by lia.
Qed.
Lemma vtab_ext n f g : (forall k, k < n -> f k = g k) -> vtab n f = vtab n g.
Proof. intros H. apply map_ext_in. intros k Hk. apply in_seq in Hk. apply H; lia. Qed.

Inductive rop :=
| RGetRow (r : nat) | RGetCol (c : nat) | RMultiply (v : list T) | RTranspose | RNeg
| RAdd (b : matrix) | RSub (b : matrix) | RScale (x : T) | RMul (b : matrix) | RMulL (b : matrix)
| REye (n : nat) | RNumel.

Definition rop_mop (o : rop) : mop A :=
  match o with
  | RGetRow r => OGetRow r | RGetCol c => OGetCol c | RMultiply v => OMultiply v | RTranspose => OTranspose
  | RNeg => ONeg | RAdd b => OAdd b | RSub b => OSub b | RScale x => OScale x | RMul b => OMul b
  | RMulL b => OMulL b | REye n => OEye n | RNumel => ONumel
  end.
Definition rop_wf (o : rop) : Prop :=
  match o with RAdd b | RSub b | RMul b | RMulL b => wf b | _ => True end.

Definition sread (X : smat) (o : rop) : res sval :=
  let r := snr X in
  let c := sc X in
  match o with
  | RGetRow i => if r <=? i then Panic Guard else Ok (SV (vtab c (fun j => sget X i j)))
  | RGetCol j => if c <=? j then Panic Guard else Ok (SV (vtab r (fun i => sget X i j)))
  | RMultiply v =>
      if negb (length v =? c) then Panic Guard else
      Ok (SV (vtab r (fun i => sum_n c (fun k => mul (sget X i k) (nth k v zero)))))
  | RTranspose => Ok (SM (tab c r (fun i j => sget X j i)))
  | RNeg => Ok (SM (tab r c (fun i j => neg (sget X i j))))
  | RAdd b =>
      if negb (r =? rows b) then Panic Guard else if negb (c =? cols b) then Panic Guard else
      Ok (SM (tab r c (fun i j => add (sget X i j) (sget (absM b) i j))))
  | RSub b =>
      if negb (r =? rows b) then Panic Guard else if negb (c =? cols b) then Panic Guard else
      Ok (SM (tab r c (fun i j => sub (sget X i j) (sget (absM b) i j))))
  | RScale x => Ok (SM (tab r c (fun i j => mul (sget X i j) x)))
  | RMul b =>
      if negb (c =? rows b) then Panic Guard else
      Ok (SM (tab r (cols b) (fun i j => sum_n c (fun k => mul (sget X i k) (sget (absM b) k j)))))
  | RMulL b =>
      if negb (cols b =? r) then Panic Guard else
      Ok (SM (tab (rows b) c (fun i j => sum_n (cols b) (fun k => mul (sget (absM b) i k) (sget X k j)))))
  | REye n => Ok (SM (tab n n (fun i j => if i =? j then one else zero)))
  | RNumel => Ok (SN (c * r))
  end.

Definition read_rel (m : matrix) (o : rop) : Prop :=
  match mstep m (rop_mop o), sread (absM m) o with
  | Ok (m', v), Ok w => m' = m /\ abs_val v = w
  | Panic k, Panic k' => k = k'
  | _, _ => False
  end.

Ltac fin_mat Hm' :=
  split; [reflexivity|]; cbn [abs_val]; f_equal;
  rewrite (msp_absM _ _ _ _ Hm'); apply tab_ext; intros i j Hi Hj;
  repeat (rewrite sget_absM by lia); try reflexivity.

Lemma read_refines (m : matrix) (o : rop) : wf m -> rop_wf o -> read_rel m o.
Proof.
  intros Hw Ho. pose proof (msp_self m Hw) as Hm.
  unfold read_rel, sread. cbn zeta.
  destruct o; cbn [rop_mop mstep rop_wf] in *; rewrite ?snr_absM, ?sc_absM.
  - (* get_row *)
    destruct (Nat.leb_spec (rows m) r) as [Hr|Hr].
    + rewrite get_row_guard by auto. reflexivity.
    + destruct (get_row_msp _ _ _ m r Hm Hr) as (v & E & Hv). rewrite E; cbn [bind].
      split; [reflexivity|]. cbn [abs_val]. f_equal. rewrite (vsp_vtab _ _ _ Hv).
      apply vtab_ext. intros k Hk. now rewrite sget_absM.
  - (* get_col *)
    destruct (Nat.leb_spec (cols m) c) as [Hc|Hc].
    + rewrite get_col_guard by auto. reflexivity.
    + destruct (get_col_msp _ _ _ m c Hm Hc) as (v & E & Hv). rewrite E; cbn [bind].
      split; [reflexivity|]. cbn [abs_val]. f_equal. rewrite (vsp_vtab _ _ _ Hv).
      apply vtab_ext. intros k Hk. now rewrite sget_absM.
  - (* multiply *)
    destruct (Nat.eqb_spec (length v) (cols m)) as [Hv|Hv]; cbn [negb].
    + destruct (multiply_msp _ _ _ m v Hm Hv) as (w & E & Hw'). rewrite E; cbn [bind].
      split; [reflexivity|]. cbn [abs_val]. f_equal. rewrite (vsp_vtab _ _ _ Hw').
      apply vtab_ext. intros i Hi. apply sum_n_ext. intros k Hk. now rewrite sget_absM.
    + rewrite multiply_guard by auto. reflexivity.
  - (* transpose *)
    unfold transpose.
    destruct (transpose_in_place_msp _ _ _ m Hm) as (m' & E & Hm'). rewrite E; cbn [bind]. fin_mat Hm'.
  - (* neg *)
    destruct (mneg_msp _ _ _ m Hm) as (m' & E & Hm'). rewrite E; cbn [bind]. fin_mat Hm'.
  - (* add *)
    destruct (Nat.eqb_spec (rows m) (rows b)) as [Hr|Hr]; cbn [negb].
    + destruct (Nat.eqb_spec (cols m) (cols b)) as [Hc|Hc]; cbn [negb].
      * assert (Hb : msp (rows m) (cols m) (entry b) b) by (rewrite Hr, Hc; now apply msp_self).
        destruct (madd_msp _ _ _ _ m b Hm Hb) as (m' & E & Hm'). rewrite E; cbn [bind]. fin_mat Hm'.
      * rewrite madd_guard by auto. reflexivity.
    + rewrite madd_guard by auto. reflexivity.
  - (* sub *)
    destruct (Nat.eqb_spec (rows m) (rows b)) as [Hr|Hr]; cbn [negb].
    + destruct (Nat.eqb_spec (cols m) (cols b)) as [Hc|Hc]; cbn [negb].
      * assert (Hb : msp (rows m) (cols m) (entry b) b) by (rewrite Hr, Hc; now apply msp_self).
        destruct (msub_msp _ _ _ _ m b Hm Hb) as (m' & E & Hm'). rewrite E; cbn [bind]. fin_mat Hm'.
      * rewrite msub_guard by auto. reflexivity.
    + rewrite msub_guard by auto. reflexivity.
  - (* scale *)
    destruct (mscale_msp _ _ _ m x Hm) as (m' & E & Hm'). rewrite E; cbn [bind]. fin_mat Hm'.
  - (* m * b *)
    destruct (Nat.eqb_spec (cols m) (rows b)) as [Hk|Hk]; cbn [negb].
    + assert (Hb : msp (cols m) (cols b) (entry b) b) by (rewrite Hk; now apply msp_self).
      destruct (mat_mul_msp _ _ _ _ _ m b Hm Hb) as (m' & E & Hm'). rewrite E; cbn [bind].
      split; [reflexivity|]. cbn [abs_val]. f_equal.
      rewrite (msp_absM _ _ _ _ Hm'). apply tab_ext. intros i j Hi Hj.
      apply sum_n_ext. intros k Hk'. rewrite !sget_absM by lia. reflexivity.
    + rewrite mat_mul_guard by auto. reflexivity.
  - (* b * m *)
    destruct (Nat.eqb_spec (cols b) (rows m)) as [Hk|Hk]; cbn [negb].
    + assert (Hm2 : msp (cols b) (cols m) (entry m) m) by (rewrite Hk; exact Hm).
      destruct (mat_mul_msp _ _ _ _ _ b m (msp_self b Ho) Hm2) as (m' & E & Hm'). rewrite E; cbn [bind].
      split; [reflexivity|]. cbn [abs_val]. f_equal.
      rewrite (msp_absM _ _ _ _ Hm'). apply tab_ext. intros i j Hi Hj.
      apply sum_n_ext. intros k Hk'. rewrite !sget_absM by lia. reflexivity.
    + rewrite mat_mul_guard by auto. reflexivity.
  - (* eye *)
    destruct (eye_msp (A:=A) n) as (m' & E & Hm'). rewrite E; cbn [bind].
    split; [reflexivity|]. cbn [abs_val]. f_equal. apply (msp_absM _ _ _ _ Hm').
  - (* numel *)
    split; reflexivity.
Qed.

(* ---------- histories interleaving editing and reading operations ---------- *)
Definition hop := (eop (A:=A) + rop)%type.
Definition hop_mop (o : hop) : mop A := match o with inl e => to_mop e | inr r => rop_mop r end.
Definition hop_wf (o : hop) : Prop := match o with inl e => eop_wf e | inr r => rop_wf r end.

(* one step on each side: new state (unchanged when the operation panics) and what the caller observed *)
Definition mobs (m : matrix) (o : hop) : matrix * res sval :=
  match mstep m (hop_mop o) with
  | Ok (m', v) => (m', Ok (abs_val v))
  | Panic k => (m, Panic k)
  end.
Definition sobs (X : smat) (o : hop) : smat * res sval :=
  match o with
  | inl e => match sstep X e with Ok X' => (X', Ok SNone) | Panic k => (X, Panic k) end
  | inr r => (X, sread X r)
  end.

Fixpoint mhist (m : matrix) (ops : list hop) : matrix * list (res sval) :=
  match ops with
  | [] => (m, [])
  | o :: t => let (m', v) := mobs m o in let (mf, vs) := mhist m' t in (mf, v :: vs)
  end.
Fixpoint shist (X : smat) (ops : list hop) : smat * list (res sval) :=
  match ops with
  | [] => (X, [])
  | o :: t => let (X', v) := sobs X o in let (Xf, vs) := shist X' t in (Xf, v :: vs)
  end.

Lemma obs_refines (m : matrix) (o : hop) : wf m -> hop_wf o ->
  wf (fst (mobs m o)) /\ absM (fst (mobs m o)) = fst (sobs (absM m) o) /\ snd (mobs m o) = snd (sobs (absM m) o).
Proof.
  intros Hw Ho. destruct o as [e|r]; cbn [hop_mop hop_wf] in *; unfold mobs, sobs; cbn [hop_mop].
  - pose proof (step_refines m e Hw Ho) as Hs. unfold step_rel in Hs.
    assert (Hv : forall m' v, mstep m (to_mop e) = Ok (m', v) -> v = VNone).
    { intros m' v. destruct e; cbn [to_mop mstep]; intros H;
        try (apply bind_ok in H as (? & ? & H)); inversion H; reflexivity. }
    destruct (mstep m (to_mop e)) as [[m' v]|k] eqn:E; destruct (sstep (absM m) e) as [X'|k']; try contradiction; cbn [fst snd].
    + destruct Hs as (Hw' & Ha). rewrite (Hv m' v eq_refl). repeat split; auto.
    + subst. repeat split; auto.
  - pose proof (read_refines m r Hw Ho) as Hs. unfold read_rel in Hs.
    destruct (mstep m (rop_mop r)) as [[m' v]|k]; destruct (sread (absM m) r) as [w|k']; try contradiction; cbn [fst snd].
    + destruct Hs as (-> & <-). repeat split; auto.
    + subst. repeat split; auto.
Qed.

Theorem hist_refines_lemma (ops : list hop) (m : matrix) : wf m -> Forall hop_wf ops ->
  wf (fst (mhist m ops)) /\
  absM (fst (mhist m ops)) = fst (shist (absM m) ops) /\
  snd (mhist m ops) = snd (shist (absM m) ops).
Proof.
  revert m; induction ops as [|o ops IH]; intros m Hw Hops; [repeat split; auto|].
  inversion Hops as [|? ? Ho Hrest]; subst.
  destruct (obs_refines m o Hw Ho) as (Hw' & Ha & Hv).
  cbn [mhist shist].
  destruct (mobs m o) as [m' v]. destruct (sobs (absM m) o) as [X' v']. cbn [fst snd] in *. subst.
  destruct (IH m' Hw' Hrest) as (Hwf & Haf & Hvf).
  destruct (mhist m' ops) as [mf vs]. destruct (shist (absM m') ops) as [Xf vs']. cbn [fst snd] in *.
  repeat split; auto. congruence.
Qed.

End Read.
