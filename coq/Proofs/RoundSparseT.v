(* Proofs/RoundSparseT.v -- the transposed compressed-sparse-column product of Model/Sparse.v ([sp_tmul]:
   result[j] += val[k] * x[row_index[k]] over the entries k of column j) "to rounding accuracy", as Proofs/RoundSparse.v
   does for [sp_mul]:
     over any arithmetic   : component j of the result is the sum, in storage order, of the products of column j
                             ([col_entries s j] lists the (column, storage index) pairs of column j);
     standard model        : sp_tmul_backward_error_lemma -- every stored value of column j perturbed relatively by at
                             most gam c_j, c_j = number of entries stored in column j;
     primitive floats      : sp_tmul_backward_error_float_lemma -- the same with u = 2^-53 for every finite component
                             whose products do not underflow. *)
From Coq Require Import List Arith Lia Reals Lra Psatz Bool Floats.
From OV Require Import Base.Panic Base.Arith Base.RoundModel Model.Vector Model.Matrix Model.Sparse Inst.FloatInst
  Proofs.Matrix Proofs.SparseBase Proofs.SparseMul Proofs.ComplexRound Proofs.RoundDot Proofs.RoundDotFloat Proofs.RoundSparse.
Import ListNotations.

Section SpTGen.
Context {A : Arith}.

Definition col_entries (s : sparse A) (j : nat) : list (nat * nat) :=
  filter (fun jk => (fst jk =? j)%nat) (visits (sp_col_start s) (sp_cols s)).
Definition ce_val (s : sparse A) (j t : nat) : A := nth (snd (nth t (col_entries s j) (0%nat, 0%nat))) (sp_val s) zero.
Definition ce_row (s : sparse A) (j t : nat) : nat :=
  nth (snd (nth t (col_entries s j) (0%nat, 0%nat))) (sp_row_index s) 0%nat.

Lemma sp_tmul_Ok_cols (s : sparse A) (x y : list A) : wfS s -> sp_tmul s x = Ok y ->
  length x = sp_rows s /\ length y = sp_cols s /\
  forall j, (j < sp_cols s)%nat ->
    nth j y zero = sum_n (length (col_entries s j)) (fun t => mul (ce_val s j t) (nth (ce_row s j t) x zero)).
Proof.
  intros Hwf E.
  assert (Lx : length x = sp_rows s).
  { unfold sp_tmul in E. match type of E with (if negb ?c then _ else _) = _ => destruct c eqn:G end;
      cbn [negb] in E; [|discriminate]. apply Nat.eqb_eq in G. symmetry. exact G. }
  rewrite (sp_tmul_fold s x Hwf Lx) in E. injection E as <-.
  split; [exact Lx|]. split; [now rewrite scat_length, repeat_length|].
  intros j Hj. rewrite scat_nth.
  2:{ intros w Hw. apply in_map_iff in Hw as (jk & <- & Hin). cbn [fst].
      rewrite repeat_length. now apply (wf_visit_lt s jk Hwf). }
  rewrite nth_repeat. rewrite filter_map_comm, map_map. cbn [fst snd].
  fold (col_entries s j).
  rewrite fold_add_sum_acc_gen, sum_acc_zero, map_length.
  apply sum_n_ext. intros t Ht.
  rewrite (nth_indep _ zero (mul (nth (snd (0%nat, 0%nat)) (sp_val s) zero)
                                 (nth (nth (snd (0%nat, 0%nat)) (sp_row_index s) 0%nat) x zero)))
    by (rewrite map_length; exact Ht).
  rewrite (map_nth (fun jk : nat * nat => mul (nth (snd jk) (sp_val s) zero)
                                              (nth (nth (snd jk) (sp_row_index s) 0%nat) x zero))).
  reflexivity.
Qed.

End SpTGen.

Local Open Scope R_scope.

Section RoundSparseT.
Variable u : R.
Hypothesis u_range : 0 <= u < 1.
Variables fadd fsub fmul fdiv : R -> R -> R.
Hypothesis fadd_ok : forall x y, exists d, Rabs d <= u /\ fadd x y = (x + y) * (1 + d).
Hypothesis fmul_ok : forall x y, exists d, Rabs d <= u /\ fmul x y = x * y * (1 + d).
Hypothesis fadd_0_mul : forall a b, fadd 0 (fmul a b) = fmul a b.

Notation AR := (ARm fadd fsub fmul fdiv).
Notation gam := (gam u).

Theorem sp_tmul_backward_error_lemma (s : sparse AR) (x y : list R) :
  wfS s -> sp_tmul s x = Ok y ->
  length y = sp_cols s /\
  forall j, (j < sp_cols s)%nat -> INR (length (col_entries s j)) * u < 1 ->
    exists th : nat -> R,
      (forall t, (t < length (col_entries s j))%nat -> Rabs (th t) <= gam (length (col_entries s j))) /\
      nth j y 0 = Rsum (length (col_entries s j))
                    (fun t => ce_val s j t * (1 + th t) * nth (ce_row s j t) x 0).
Proof using u_range fadd_ok fmul_ok fadd_0_mul.
  intros Hwf E. destruct (sp_tmul_Ok_cols (A := AR) s x y Hwf E) as (Lx & Ly & Hcol). split; [exact Ly|].
  intros j Hj Hn.
  assert (Ej : nth j y 0 = sum_n (A := AR) (length (col_entries s j))
                             (fun t => fmul (ce_val s j t) (nth (ce_row s j t) x 0))) by exact (Hcol j Hj).
  destruct (sum_prod_round u u_range fadd fsub fmul fdiv fadd_ok fmul_ok fadd_0_mul (length (col_entries s j))
              (fun t => ce_val s j t) (fun t => nth (ce_row s j t) x 0)) as (W & HW & EW).
  exists (fun t => W t - 1). split.
  - intros t Ht. apply (bnd_gam u u_range); [now apply HW|exact Hn].
  - etransitivity; [exact Ej|]. etransitivity; [exact EW|]. apply Rsum_ext. intros t Ht. ring.
Qed.

End RoundSparseT.

Theorem sp_tmul_backward_error_float_lemma (s : sparse AF) (x y : list pfloat) :
  wfS s -> sp_tmul (A := AF) s x = Ok y ->
  length y = sp_cols s /\
  forall j, (j < sp_cols s)%nat -> ffinite (nth j y 0%float) ->
    (forall t, (t < length (col_entries s j))%nat ->
       no_underflow (FR (ce_val s j t) * FR (nth (ce_row s j t) x 0%float))) ->
    INR (length (col_entries s j)) * u64 < 1 ->
    exists th : nat -> R,
      (forall t, (t < length (col_entries s j))%nat -> Rabs (th t) <= g64 (length (col_entries s j))) /\
      FR (nth j y 0%float) = Rsum (length (col_entries s j))
                               (fun t => FR (ce_val s j t) * (1 + th t) * FR (nth (ce_row s j t) x 0%float)).
Proof.
  intros Hwf E. destruct (sp_tmul_Ok_cols (A := AF) s x y Hwf E) as (Lx & Ly & Hcol). split; [exact Ly|].
  intros j Hj Fj Hu Hn.
  assert (Ej : nth j y 0%float = sum_n (A := AF) (length (col_entries s j))
                 (fun t => (ce_val s j t * nth (ce_row s j t) x 0%float)%float)) by exact (Hcol j Hj).
  rewrite Ej in Fj |- *.
  pose proof (sum_n_float_transfer (length (col_entries s j)) (fun t => ce_val s j t)
                (fun t => nth (ce_row s j t) x 0%float) Fj Hu) as ET.
  destruct (sum_prod_round u64 u64_range Fadd Fsub Fmul Fdiv Fadd_ok Fmul_ok Fadd_0_mul (length (col_entries s j))
              (fun t => FR (ce_val s j t)) (fun t => FR (nth (ce_row s j t) x 0%float))) as (W & HW & EW).
  exists (fun t => W t - 1). split.
  - intros t Ht. apply (bnd_gam u64 u64_range); [now apply HW|exact Hn].
  - etransitivity; [exact ET|]. etransitivity; [exact EW|]. apply Rsum_ext. intros t Ht. ring.
Qed.
