(* Proofs/LUPanic.v -- exactly when the code panics.  determinant never does on a square matrix;
   inverse (and solve_lu's backsolve) panic with DivZero exactly when a diagonal entry of U is zero,
   i.e. exactly when the code's own determinant is 0.  Stdlib style only. *)
From Coq Require Import List Arith Lia Bool Ring Ring_theory Field_theory.
From OV Require Import Base.Panic Base.Arith Model.Vector Model.Matrix Model.Solve
  Proofs.Matrix Proofs.LUPrim Proofs.LUSum Proofs.LU Proofs.LUSolve Proofs.LUInv Proofs.LUInvC.
Import ListNotations.

(* generic loop facts: a panicking iteration makes the loop panic *)
Lemma for_from_panic {S} (I : nat -> S -> Prop) n lo (body : nat -> S -> res S) (s : S) k0 p :
  lo <= k0 < lo + n -> I lo s ->
  (forall i s, lo <= i < k0 -> I i s -> exists s', body i s = Ok s' /\ I (Datatypes.S i) s') ->
  (forall s, I k0 s -> body k0 s = Panic p) ->
  for_from n lo body s = Panic p.
Proof.
  revert lo s; induction n as [|n IH]; intros lo s Hk H0 Hstep Hp; [lia|]. cbn [for_from].
  destruct (Nat.eq_dec lo k0) as [->|Hn].
  - rewrite (Hp s H0). reflexivity.
  - destruct (Hstep lo s) as (s1 & E1 & H1); [lia|auto|]. rewrite E1. cbn [bind].
    apply IH; auto; [lia|]. intros i t Hi. apply Hstep. lia.
Qed.

Lemma for_rev_from_panic {S} (I : nat -> S -> Prop) n lo (body : nat -> S -> res S) (s : S) k0 p :
  k0 < n -> I n s ->
  (forall k s, k0 < k < n -> I (Datatypes.S k) s -> exists s', body (lo + k) s = Ok s' /\ I k s') ->
  (forall s, I (Datatypes.S k0) s -> body (lo + k0) s = Panic p) ->
  for_rev_from n lo body s = Panic p.
Proof.
  revert s; induction n as [|n IH]; intros s Hk H0 Hstep Hp; [lia|]. cbn [for_rev_from].
  destruct (Nat.eq_dec n k0) as [->|Hn].
  - rewrite (Hp s H0). reflexivity.
  - destruct (Hstep n s) as (s1 & E1 & H1); [lia|auto|]. rewrite E1. cbn [bind].
    apply IH; auto; [lia|]. intros k t Hk'. apply Hstep. lia.
Qed.

Local Open Scope arith_scope.

Section LUPanic.
Context {A : Arith} (FL : FieldLaws A) (PL : PivLaws A).
Add Ring Ar : (A_ring FL).
Notation matrix := (matrix A).

(* determinant is total on square matrices *)
Lemma determinant_total_lemma (M : matrix) : wf M -> rows M = cols M -> exists d, determinant M = Ok d.
Proof.
  intros W E. destruct (determinant_eq FL PL M (rows M)) as (LU & piv & P & sw & _ & _ & _ & _ & _ & H).
  { split; auto. }
  eexists; exact H.
Qed.

Lemma div_zero (x : A) : div x zero = Panic DivZero.
Proof.
  rewrite (fl_div A FL). replace (eqb (@zero A) zero) with true; auto.
  symmetry. now apply (fl_eqb A FL).
Qed.

(* a field has no zero divisors *)
Lemma mul_eq_zero (x y : A) : x * y = zero -> x = zero \/ y = zero.
Proof.
  intros H. destruct (eqb x zero) eqn:E; [left; now apply (fl_eqb A FL)|right].
  apply (eqb_false_neq FL) in E.
  transitivity (LUSum.inv FL x * x * y); [rewrite (inv_l FL) by auto; ring|].
  transitivity (LUSum.inv FL x * (x * y)); [ring|]. rewrite H. ring.
Qed.

(* the last zero on the diagonal: the first one the backward sweep meets *)
Lemma last_zero n (f : nat -> A) : prod_n n f = zero ->
  exists k0, k0 < n /\ f k0 = zero /\ forall k, k0 < k < n -> f k <> zero.
Proof.
  induction n as [|n IH]; cbn [prod_n]; intros H.
  - exfalso. now apply (one_neq_zero FL).
  - destruct (eqb (f n) zero) eqn:E.
    + apply (fl_eqb A FL) in E. exists n. repeat split; auto. intros; lia.
    + apply (eqb_false_neq FL) in E. apply mul_eq_zero in H as [H|H]; [|contradiction].
      destruct (IH H) as (k0 & Hk & Hz & Hnz). exists k0. repeat split; auto.
      intros k Hk'. destruct (Nat.eq_dec k n) as [->|Hn]; auto. apply Hnz. lia.
Qed.

(* backward substitution on a column panics with DivZero when U has a zero on its diagonal *)
Lemma bwd_col_panic (LU Y : matrix) n j : shape LU n n -> shape Y n n -> j < n ->
  prod_n n (fun i => ent LU i i) = zero -> bwd_col LU n j Y = Panic DivZero.
Proof.
  intros SL SY Hj Hz. destruct (last_zero n _ Hz) as (k0 & Hk & Hz0 & Hnz).
  unfold bwd_col, for_rev. rewrite Nat.sub_0_r.
  assert (Hinner : forall i (s : matrix), i < n -> shape s n n ->
            exists t, for_ (i + 1) n (fun k inv =>
                        let* kj := mget inv k j in
                        let* ij := mget inv i j in
                        let* a := mget LU i k in
                        mset inv i j (ij - a * kj)) s = Ok t /\ shape t n n).
  { intros i s Hi Ss.
    apply (for_inv (fun (_ : nat) (t : matrix) => shape t n n)); auto; [lia|].
    intros k t Hk' St.
    rewrite (mget_ok t n n k j St), (mget_ok t n n i j St), (mget_ok LU n n i k SL) by lia.
    cbn [bind].
    destruct (mset_ok t n n i j (ent t i j - ent LU i k * ent t k j) St) as (t1 & E1 & S1 & _); [lia|lia|].
    exists t1; auto. }
  apply (for_rev_from_panic (fun (_ : nat) (Z : matrix) => shape Z n n) n 0 _ Y k0); auto.
  - intros i s Hi Ss. cbn [Nat.add].
    destruct (Hinner i s) as (t & Et & St); [lia|auto|].
    rewrite Et. cbn [bind].
    rewrite (mget_ok t n n i j St), (mget_ok LU n n i i SL) by lia. cbn [bind].
    rewrite (div_ok FL) by (apply Hnz; lia). cbn [bind].
    destruct (mset_ok t n n i j (ent t i j * LUSum.inv FL (ent LU i i)) St) as (t1 & E1 & S1 & _); [lia|lia|].
    exists t1; auto.
  - intros s Ss. cbn [Nat.add].
    destruct (Hinner k0 s) as (t & Et & St); auto.
    rewrite Et. cbn [bind].
    rewrite (mget_ok t n n k0 j St), (mget_ok LU n n k0 k0 SL) by lia. cbn [bind].
    rewrite Hz0, div_zero. reflexivity.
Qed.

(* inverse: Ok exactly when the code's determinant is nonzero, Panic DivZero exactly when it is zero *)
Lemma inverse_panic_lemma (M : matrix) : wf M -> rows M = cols M -> 1 <= rows M ->
  determinant M = Ok zero -> inverse M = Panic DivZero.
Proof.
  intros W Esq Hn Hdet.
  assert (SH : shape M (rows M) (rows M)) by (split; auto).
  destruct (determinant_eq FL PL M (rows M) SH) as (LU & piv & P & sw & E & SL & SP & _ & _ & Hdet').
  rewrite Hdet in Hdet'. injection Hdet' as Hd.
  assert (Hz : prod_n (rows M) (fun i => ent LU i i) = zero).
  { destruct (Nat.even piv); auto.
    transitivity (- - prod_n (rows M) (fun i => ent LU i i)); [ring|]. rewrite <- Hd. ring. }
  rewrite inverse_eq. rewrite <- Esq, Nat.eqb_refl. cbn [negb]. rewrite E. cbn [bind].
  unfold for_. rewrite Nat.sub_0_r.
  apply (for_from_panic (fun (_ : nat) (X : matrix) => shape X (rows M) (rows M)) (rows M) 0 _ P 0); auto.
  - intros; lia.
  - intros X SX.
    destruct (fwd_col_ok FL LU X (rows M) 0 SL SX) as (Y & EY & SY & _); [lia|].
    rewrite EY. cbn [bind]. apply bwd_col_panic; auto.
Qed.

Lemma inverse_result_lemma (M : matrix) (d : A) : wf M -> rows M = cols M -> 1 <= rows M ->
  determinant M = Ok d ->
  (d = zero -> inverse M = Panic DivZero) /\ (d <> zero -> exists N, inverse M = Ok N).
Proof.
  intros W Esq Hn Hdet. split.
  - intros ->. now apply inverse_panic_lemma.
  - intros Hd. eapply (inverse_complete_lemma FL PL); eauto.
Qed.

End LUPanic.
