(* Proofs/SrcEqNewtonC.v -- the Cmplx half of src/newton.rs (Newton<Cmplx>::solve, Newton<Vector<Cmplx>>::solve,
   Newton<Vector<Cmplx>>::solve_jacobian) and Matrix::<Cmplx>::jacobian_cmplx (src/matrix/functions.rs), regenerated from
   the source of this run as gen/SrcNewtonC.v (two scalar sorts: f64 = T (SA S), Cmplx = T (CArith S)), against the
   instrumented model Model/Newton.v at NCplx S.  ERASURE, as in Proofs/SrcEqNewton.v:
       s_<method> cfg func  =  let* r := <model method> (NCplx S) cfg func in Ok (fst r)
   for every arithmetic with a square root, every configuration and every closure (which may panic). *)
From Coq Require Import List Arith ZArith Lia Bool.
From OV Require Import Base.Panic Base.Arith Model.Complex Model.Vector Model.Matrix Model.Solve Model.Newton gen.SrcPrelude gen.SrcNewtonC
  Proofs.SrcEqBase Proofs.SrcEqNewton.
Import ListNotations.

Section SrcEqNewtonC.
Context {S : SArith}.
Local Notation A := (SA S).
Local Notation CA := (CArith S).
Local Notation TR := (T (SA S)).
Local Notation TC := (T (CArith S)).

Ltac nw_step :=
  match goal with
  | |- ?a = ?b => reflexivity
  | |- context [bind (bind _ _) _] => rewrite !bind_assoc
  | |- context [bind (Ok _) _] => rewrite !bind_Ok_l
  | |- bind ?e _ = bind ?e' _ => unify e e'; apply bind_ext; intros ?
  | |- context [bind (if ?c then _ else _) _] => destruct c eqn:?
  | |- (if ?c then _ else _) = _ => destruct c eqn:?
  | |- _ = (if ?c then _ else _) => destruct c eqn:?
  | |- context [match ?p with pair _ _ => _ end] => is_var p; destruct p
  end.
Ltac nw_eq := repeat nw_step.

Lemma src_newton_solve_cmplx (c : ncfg TR TC) (f : TC -> res TC) :
  s_newton_solve_cmplx c f = let* r := newton_scalar (NCplx S) c f in Ok (fst r).
Proof.
  unfold s_newton_solve_cmplx, newton_scalar, for_ret. rewrite Nat.sub_0_r.
  apply for_ret_nloop. intros i cur. unfold scalar_step, two. cbn [NCplx NA NR emb mag divr]. cbv zeta. nw_eq.
Qed.

Lemma src_jacobian_cmplx (point : list TC) (f : list TC -> res (list TC)) (d : TR) :
  s_jacobian_cmplx point f d = let* r := jacobian (NCplx S) f point (mkC d zero) in Ok (fst r).
Proof.
  unfold s_jacobian_cmplx, jacobian, jacobian_tr. cbv zeta. rewrite !bind_assoc. apply bind_ext; intros f0.
  apply (res_rel_bind (fun (p : list TC * matrix CA) (q : list TC * matrix CA * list (list TC)) => p = fst q)).
  - apply for_sim; [reflexivity|]. intros i [st jc] [[st' jc'] evs] Hi E. cbn [fst] in E. injection E as <- <-.
    unfold jac_body. cbn [NCplx NA].
    repeat match goal with
    | |- res_rel _ (bind ?e _) (bind ?e' _) => unify e e'; destruct e; cbn [bind res_rel]; [|reflexivity]
    end. reflexivity.
  - intros [st jc] [[st' jc'] evs] E. cbn [fst] in E. injection E as <- <-. reflexivity.
Qed.

Lemma src_newton_solve_vcmplx (c : ncfg TR (list TC)) (f : list TC -> res (list TC)) :
  s_newton_solve_vcmplx c f = let* r := newton_sys (NCplx S) c f in Ok (fst r).
Proof.
  unfold s_newton_solve_vcmplx, newton_sys, for_ret. rewrite Nat.sub_0_r.
  apply for_ret_nloop. intros i cur. unfold sys_step. cbn [NCplx NA NR emb mag divr]. cbv zeta. nw_eq.
Qed.

Lemma src_newton_solve_jacobian_vcmplx (c : ncfg TR (list TC)) (f : list TC -> res (list TC)) (jac : list TC -> res (matrix CA)) :
  s_newton_solve_jacobian_vcmplx c f jac = let* r := newton_sysjac (NCplx S) c f jac in Ok (fst r).
Proof.
  unfold s_newton_solve_jacobian_vcmplx, newton_sysjac, for_ret. rewrite Nat.sub_0_r.
  apply for_ret_nloop. intros i cur. unfold sysjac_step. cbn [NCplx NA NR emb mag divr]. cbv zeta. nw_eq.
Qed.

Definition model_is_source_NewtonC : Prop :=
  (forall (c : ncfg TR TC) (f : TC -> res TC),
     s_newton_solve_cmplx c f = let* r := newton_scalar (NCplx S) c f in Ok (fst r)) /\
  (forall (c : ncfg TR (list TC)) (f : list TC -> res (list TC)),
     s_newton_solve_vcmplx c f = let* r := newton_sys (NCplx S) c f in Ok (fst r)) /\
  (forall (c : ncfg TR (list TC)) (f : list TC -> res (list TC)) (jac : list TC -> res (matrix CA)),
     s_newton_solve_jacobian_vcmplx c f jac = let* r := newton_sysjac (NCplx S) c f jac in Ok (fst r)) /\
  (forall (point : list TC) (f : list TC -> res (list TC)) (d : TR),
     s_jacobian_cmplx point f d = let* r := jacobian (NCplx S) f point (mkC d zero) in Ok (fst r)).
Lemma model_is_source_NewtonC_lemma : model_is_source_NewtonC.
Proof. repeat split; [apply src_newton_solve_cmplx | apply src_newton_solve_vcmplx | apply src_newton_solve_jacobian_vcmplx | apply src_jacobian_cmplx]. Qed.

End SrcEqNewtonC.
