(* Proofs/ComplexFloat.v -- the float instance (AF = Coq's primitive binary64, the arithmetic of the float tier):
   IEEE addition is commutative (from the FloatAxioms specification of the primitive operations: Prim2SF is
   injective and SFadd is symmetric), hence ALL eight compound-assignment forms of Complex<f64> are equal --
   bit for bit, NaN and signed zeros included -- to their binary forms in the float model. *)
From Coq Require Import ZArith Floats Bool.
From OV Require Import Base.Panic Base.Arith Model.Complex Inst.FloatInst Proofs.Complex.

Lemma SFadd_comm prec emax x y : SFadd prec emax x y = SFadd prec emax y x.
Proof.
  destruct x as [sx|sx| |sx mx ex], y as [sy|sy| |sy my ey]; cbn; try reflexivity.
  - destruct sx, sy; reflexivity.
  - destruct sx, sy; reflexivity.
  - rewrite (Z.min_comm ey ex). f_equal. apply Z.add_comm.
Qed.

Lemma float_add_comm (x y : float) : (x + y = y + x)%float.
Proof. apply Prim2SF_inj. rewrite !add_spec. apply SFadd_comm. Qed.

Lemma AF_add_comm (x y : AF) : add x y = add y x.
Proof. exact (float_add_comm x y). Qed.

Lemma assign_eq_binary_float_lemma (z w : cplx AF) (r : AF) :
  cmul_assign z w = cmul z w /\ cdiv_assign z w = cdiv z w /\ cadd_assign z w = cadd z w /\
  csub_assign z w = csub z w /\ cadd_assign_r z r = cadd_r z r /\ csub_assign_r z r = csub_r z r /\
  cmul_assign_r z r = cmul_r z r /\ cdiv_assign_r z r = cdiv_r z r.
Proof. exact (assign_eq_binary_lemma AF_add_comm z w r). Qed.
