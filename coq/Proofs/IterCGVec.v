(* Proofs/IterCGVec.v -- round two, package iter2: the algebra of the code's inner product
   [dot_raw] (Vector::dot: left fold of acc + u[i]*w[i] from zero) over a field: symmetric, bilinear
   with respect to the code's vector operations (zipw add, zipw sub, vscale, vscale_l), zero on the zero
   vector.  Used by the conjugate-gradient theory of Proofs/IterCG.v. *)
From Coq Require Import List Arith Lia Bool Ring Field.
From OV Require Import Base.Panic Base.Arith Model.Vector Model.Iter Proofs.Iter Proofs.IterField.
Import ListNotations.

Section DotAlgebra.
Context {A : SArith}.
Notation F := (T (SA A)).
Variable FL : FieldLaws (SA A).
Add Field FFv : (fl_field (SA A) FL).

Definition dotf (a : F) (u v : list F) : F :=
  fold_left (fun acc p => add acc (mul (fst p) (snd p))) (combine u v) a.

Lemma dotf_acc (u v : list F) a : dotf a u v = add a (dot_raw u v).
Proof.
  unfold dot_raw. fold (dotf zero u v). revert v a; induction u as [|x u IH]; intros [|y v] a; cbn; try ring.
  unfold dotf in *. cbn. rewrite IH, (IH v (add zero (mul x y))). ring.
Qed.

Lemma dot_raw_nil_l (v : list F) : dot_raw [] v = zero.
Proof. reflexivity. Qed.
Lemma dot_raw_nil_r (u : list F) : dot_raw u [] = zero.
Proof. destruct u; reflexivity. Qed.
Lemma dot_raw_cons x y (u v : list F) : dot_raw (x :: u) (y :: v) = add (mul x y) (dot_raw u v).
Proof. unfold dot_raw at 1. cbn. fold (dotf (add zero (mul x y)) u v). rewrite dotf_acc. ring. Qed.

Lemma dot_raw_comm (u v : list F) : dot_raw u v = dot_raw v u.
Proof.
  revert v; induction u as [|x u IH]; intros [|y v]; try reflexivity.
  rewrite !dot_raw_cons, IH. ring.
Qed.

Lemma dot_raw_add_r (w u v : list F) : length u = length v ->
  dot_raw w (zipw add u v) = add (dot_raw w u) (dot_raw w v).
Proof.
  revert u v; induction w as [|c w IH]; intros [|x u] [|y v] Hl; cbn in Hl; try discriminate.
  1-3: try solve [cbn; ring].
  - change (zipw add (x :: u) (y :: v)) with (add x y :: zipw add u v).
    rewrite !dot_raw_cons, IH by lia. ring.
Qed.

Lemma dot_raw_sub_r (w u v : list F) : length u = length v ->
  dot_raw w (zipw sub u v) = sub (dot_raw w u) (dot_raw w v).
Proof.
  revert u v; induction w as [|c w IH]; intros [|x u] [|y v] Hl; cbn in Hl; try discriminate.
  1-3: try solve [cbn; ring].
  - change (zipw sub (x :: u) (y :: v)) with (sub x y :: zipw sub u v).
    rewrite !dot_raw_cons, IH by lia. ring.
Qed.

Lemma dot_raw_scale_r (w v : list F) c : dot_raw w (vscale v c) = mul (dot_raw w v) c.
Proof.
  revert v; induction w as [|a w IH]; intros [|y v].
  1-3: try solve [cbn; ring].
  - change (vscale (y :: v) c) with (mul y c :: vscale v c). rewrite !dot_raw_cons, IH. ring.
Qed.

Lemma dot_raw_add_l (w u v : list F) : length u = length v ->
  dot_raw (zipw add u v) w = add (dot_raw u w) (dot_raw v w).
Proof. intros Hl. rewrite dot_raw_comm, dot_raw_add_r by auto. now rewrite (dot_raw_comm w u), (dot_raw_comm w v). Qed.
Lemma dot_raw_sub_l (w u v : list F) : length u = length v ->
  dot_raw (zipw sub u v) w = sub (dot_raw u w) (dot_raw v w).
Proof. intros Hl. rewrite dot_raw_comm, dot_raw_sub_r by auto. now rewrite (dot_raw_comm w u), (dot_raw_comm w v). Qed.
Lemma dot_raw_scale_l (w v : list F) c : dot_raw (vscale v c) w = mul (dot_raw v w) c.
Proof. rewrite dot_raw_comm, dot_raw_scale_r. now rewrite (dot_raw_comm w v). Qed.

Lemma dot_raw_zeros_r (w : list F) m : dot_raw w (repeat zero m) = zero.
Proof.
  revert m; induction w as [|a w IH]; intros [|m]; try reflexivity.
  cbn [repeat]. rewrite dot_raw_cons, IH. ring.
Qed.
Lemma dot_raw_zeros_l (w : list F) m : dot_raw (repeat zero m) w = zero.
Proof. rewrite dot_raw_comm. apply dot_raw_zeros_r. Qed.

(* the code's dot succeeds exactly on equal lengths *)
Lemma dot_ok (u v : list F) : length u = length v -> dot u v = Ok (dot_raw u v).
Proof. intros H. unfold dot. now rewrite H, Nat.eqb_refl. Qed.

Lemma zipw_len (f : F -> F -> F) (u v : list F) : length u = length v -> length (zipw f u v) = length u.
Proof. intros H. unfold zipw. rewrite map_length, combine_length. lia. Qed.

(* division over a field: succeeds exactly on a nonzero divisor *)
Lemma div_Ok_inv (x y z : F) : div x y = Ok z -> y <> zero /\ z = mul x (fl_inv (SA A) FL y).
Proof.
  rewrite (fl_div (SA A) FL). destruct (eqb y zero) eqn:E; [discriminate|]. intros H; injection H as <-.
  split; auto. intros ->. assert (eqb (@zero (SA A)) zero = true) by (now apply (fl_eqb (SA A) FL)). congruence.
Qed.
Lemma div_ok (x y : F) : y <> zero -> div x y = Ok (mul x (fl_inv (SA A) FL y)).
Proof.
  intros Hy. rewrite (fl_div (SA A) FL). destruct (eqb y zero) eqn:E; auto.
  apply (fl_eqb (SA A) FL) in E. contradiction.
Qed.

Lemma mul_inv_r (y : F) : y <> zero -> mul y (fl_inv (SA A) FL y) = one.
Proof. intros Hy. field. exact Hy. Qed.

Lemma mul_zero_inv (x y : F) : mul x y = zero -> x <> zero -> y = zero.
Proof.
  intros H Hx. replace y with (mul (mul x y) (fl_inv (SA A) FL x)) by (field; exact Hx). rewrite H. ring.
Qed.

End DotAlgebra.
